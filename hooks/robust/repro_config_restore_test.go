package test_test

// C15: restoring key material from bytes.
//  - a Doerner config must survive cbor.Marshal / cbor.Unmarshal (its OT setup has only unexported fields and is lost),
//  - CBOR null must not restore "successfully" into an empty FROST config,
//  - CBOR null in the place of a scalar must be an error, not a decoder panic,
//  - a CMP config with a malformed chain key must be refused.
import (
	mrand "math/rand"
	"testing"

	"github.com/fxamacker/cbor/v2"
	"github.com/taurusgroup/multi-party-sig/internal/test"
	"github.com/taurusgroup/multi-party-sig/pkg/math/curve"
	"github.com/taurusgroup/multi-party-sig/pkg/protocol"
	"github.com/taurusgroup/multi-party-sig/protocols/doerner"
	"github.com/taurusgroup/multi-party-sig/protocols/frost"
)

func TestConfigRestore(t *testing.T) {
	g := curve.Secp256k1{}
	// Doerner: keygen, store, restore
	h0, _ := protocol.NewTwoPartyHandler(doerner.Keygen(g, true, "a", "b", nil), nil, true)
	h1, _ := protocol.NewTwoPartyHandler(doerner.Keygen(g, false, "b", "a", nil), nil, false)
	for i := 0; i < 8; i++ {
		for len(h0.Listen()) > 0 {
			h1.Accept(<-h0.Listen())
		}
		for len(h1.Listen()) > 0 {
			h0.Accept(<-h1.Listen())
		}
	}
	r0, err := h0.Result()
	if err != nil {
		t.Fatal(err)
	}
	enc, _ := cbor.Marshal(r0)
	restored := doerner.EmptyConfigReceiver(g)
	if err := cbor.Unmarshal(enc, restored); err != nil {
		t.Fatal(err)
	}
	a, _ := cbor.Marshal(r0.(*doerner.ConfigReceiver).Setup)
	b, _ := cbor.Marshal(restored.Setup)
	if len(a) < 64 || string(a) != string(b) {
		t.Errorf("Doerner config: the OT setup does not survive the round trip (%d bytes encoded)", len(a))
	}
	// FROST: CBOR null
	fc := frost.EmptyConfig(g)
	if err := cbor.Unmarshal([]byte{0xf6}, fc); err == nil {
		t.Errorf("FROST config restored from CBOR null without error (ID=%q)", fc.ID)
	}
	func() {
		defer func() {
			if r := recover(); r != nil {
				t.Errorf("FROST config with a null private share: decoder panic instead of an error: %v", r)
			}
		}()
		_ = cbor.Unmarshal([]byte{0xa1, 0x6c, 'P', 'r', 'i', 'v', 'a', 't', 'e', 'S', 'h', 'a', 'r', 'e', 0xf6}, frost.EmptyConfig(g))
	}()
	// CMP: malformed chain key
	cfgs, _ := test.GenerateConfig(g, 2, 1, mrand.New(mrand.NewSource(1)), nil)
	c := cfgs["a"]
	c.ChainKey = []byte{1, 2, 3}
	data, _ := c.MarshalBinary()
	if err := (&(*c)).UnmarshalBinary(data); err == nil {
		t.Error("CMP config with a 3-byte chain key restored without error")
	}
}
