#!/bin/bash
# usage: hooks/mkdiffs.sh <worktree with the fixes applied>   -> hooks/fix_*.diff (git diff against the worktree's HEAD)
H=$(cd "$(dirname "$0")" && pwd); W=${1:-/tmp/w_robust/repo}; cd "$W" || exit 1
git add -N internal/safecbor 2>/dev/null
d() { out=$1; shift; git diff HEAD -- "$@" > "$H/$out"; echo "$out: $(grep -c '^diff ' "$H/$out") files, $(wc -l < "$H/$out") lines"; }
d fix_safe_decoding.diff internal/safecbor pkg/protocol/handler.go pkg/protocol/twoparty.go pkg/protocol/message.go pkg/party/id.go
d fix_exponent_unmarshal.diff pkg/math/polynomial/exponent.go
d fix_frost_keygen_degree.diff protocols/frost/keygen/round2.go
d fix_zk_nil_fields.diff pkg/zk pkg/paillier/public.go
d fix_cmp_round_guards.diff protocols/cmp/sign/round3.go protocols/cmp/presign/presign3.go protocols/cmp/presign/abort1.go protocols/cmp/presign/abort2.go
d fix_ot_setup_marshal.diff internal/ot
d fix_session_ids.diff internal/round/helper.go
d fix_start_cmp.diff protocols/cmp/cmp.go protocols/cmp/config/config.go protocols/cmp/keygen/keygen.go protocols/cmp/sign/sign.go protocols/cmp/presign/sign.go
d fix_cmp_config_restore.diff protocols/cmp/config/marshal.go
d fix_frost_config_and_start.diff protocols/frost/frost.go protocols/frost/keygen/keygen.go protocols/frost/keygen/config.go protocols/frost/sign/sign.go
d fix_doerner_config_and_start.diff protocols/doerner
d fix_presignature_signature.diff pkg/ecdsa
git diff HEAD > "$H/fix_all_robust.diff"; echo "fix_all_robust.diff: $(grep -c '^diff ' "$H/fix_all_robust.diff") files"
git rev-parse HEAD > "$H/BASE_COMMIT"
