package test_test

// C20: absent key material must be refused with an error by handler construction (no panic).
import (
	"testing"

	"github.com/taurusgroup/multi-party-sig/pkg/party"
	"github.com/taurusgroup/multi-party-sig/pkg/protocol"
	"github.com/taurusgroup/multi-party-sig/protocols/cmp"
	"github.com/taurusgroup/multi-party-sig/protocols/doerner"
	"github.com/taurusgroup/multi-party-sig/protocols/frost"
)

func TestStartNilConfig(t *testing.T) {
	ids, msg := []party.ID{"a", "b"}, make([]byte, 32)
	for name, mk := range map[string]func() protocol.StartFunc{
		"cmp.Refresh":             func() protocol.StartFunc { return cmp.Refresh(nil, nil) },
		"cmp.Sign":                func() protocol.StartFunc { return cmp.Sign(nil, ids, msg, nil) },
		"frost.Refresh":           func() protocol.StartFunc { return frost.Refresh(nil, ids) },
		"frost.Sign":              func() protocol.StartFunc { return frost.Sign(nil, ids, msg) },
		"frost.SignTaproot":       func() protocol.StartFunc { return frost.SignTaproot(nil, ids, msg) },
		"doerner.RefreshReceiver": func() protocol.StartFunc { return doerner.RefreshReceiver(nil, "a", "b", nil) },
		"doerner.SignSender":      func() protocol.StartFunc { return doerner.SignSender(nil, "a", "b", msg, nil) },
	} {
		func() {
			defer func() {
				if r := recover(); r != nil {
					t.Errorf("%s(nil config): panic instead of an error: %v", name, r)
				}
			}()
			if _, err := protocol.NewMultiHandler(mk(), nil); err == nil {
				t.Errorf("%s(nil config): started", name)
			}
		}()
	}
}
