package test_test

// C20: a nil group must be refused with an error by handler construction (no panic).
import (
	"testing"

	"github.com/taurusgroup/multi-party-sig/pkg/party"
	"github.com/taurusgroup/multi-party-sig/pkg/protocol"
	"github.com/taurusgroup/multi-party-sig/protocols/cmp"
	"github.com/taurusgroup/multi-party-sig/protocols/doerner"
	"github.com/taurusgroup/multi-party-sig/protocols/frost"
)

func TestNilGroup(t *testing.T) {
	ids := []party.ID{"a", "b"}
	for name, sf := range map[string]protocol.StartFunc{
		"cmp.Keygen":     cmp.Keygen(nil, "a", ids, 1, nil),
		"frost.Keygen":   frost.Keygen(nil, "a", ids, 1),
		"doerner.Keygen": doerner.Keygen(nil, true, "a", "b", nil),
	} {
		func() {
			defer func() {
				if r := recover(); r != nil {
					t.Errorf("%s(nil group): panic instead of an error: %v", name, r)
				}
			}()
			if _, err := sf(nil); err == nil {
				t.Errorf("%s(nil group): started", name)
			}
		}()
	}
}
