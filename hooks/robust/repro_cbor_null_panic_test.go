package test_test

// C05: a CBOR null in the place of a scalar / point field of a received message must end the session cleanly
// (the sender is the culprit), not panic inside the decoder ("reflect.Value.Set using unaddressable value").
import (
	"testing"

	"github.com/taurusgroup/multi-party-sig/pkg/math/curve"
	"github.com/taurusgroup/multi-party-sig/pkg/party"
	"github.com/taurusgroup/multi-party-sig/pkg/protocol"
	"github.com/taurusgroup/multi-party-sig/protocols/frost"
)

func TestCBORNullPanic(t *testing.T) {
	ids := []party.ID{"a", "b"}
	ha, _ := protocol.NewMultiHandler(frost.Keygen(curve.Secp256k1{}, "a", ids, 1), nil)
	hb, _ := protocol.NewMultiHandler(frost.Keygen(curve.Secp256k1{}, "b", ids, 1), nil)
	defer func() {
		if r := recover(); r != nil {
			t.Fatalf("Accept panicked on a message with a null field: %v", r)
		}
	}()
	for i := 0; i < 2; i++ { // rounds 2 and 3: everything b sends reaches a; a's messages reach b
		for len(hb.Listen()) > 0 {
			m := <-hb.Listen()
			if m.RoundNumber == 3 && !m.Broadcast {
				m.Data = []byte{0xa1, 0x64, 'F', '_', 'l', 'i', 0xf6} // {"F_li": null}
			}
			ha.Accept(m)
		}
		for len(ha.Listen()) > 0 {
			hb.Accept(<-ha.Listen())
		}
	}
	if _, err := ha.Result(); err == nil {
		t.Error("a finished although b's share was null")
	}
}
