package test_test

// C20: FROST Sign must refuse an empty message and signers that hold no share of the key.
import (
	"testing"

	"github.com/taurusgroup/multi-party-sig/internal/test"
	"github.com/taurusgroup/multi-party-sig/pkg/math/curve"
	"github.com/taurusgroup/multi-party-sig/pkg/party"
	"github.com/taurusgroup/multi-party-sig/pkg/protocol"
	"github.com/taurusgroup/multi-party-sig/protocols/frost"
)

func TestFrostSignStart(t *testing.T) {
	ids := test.PartyIDs(3)
	net := test.NewNetwork(ids)
	cfgs := map[party.ID]*frost.Config{}
	done := make(chan struct{}, 3)
	for _, id := range ids {
		go func(id party.ID) {
			h, _ := protocol.NewMultiHandler(frost.Keygen(curve.Secp256k1{}, id, ids, 1), nil)
			test.HandlerLoop(id, h, net)
			r, _ := h.Result()
			cfgs[id] = r.(*frost.Config)
			done <- struct{}{}
		}(id)
	}
	for range ids {
		<-done
	}
	if _, err := protocol.NewMultiHandler(frost.Sign(cfgs["a"], []party.ID{"a", "b"}, nil), nil); err == nil {
		t.Error("frost.Sign started with an empty message")
	}
	if _, err := protocol.NewMultiHandler(frost.Sign(cfgs["a"], []party.ID{"a", "zz"}, make([]byte, 32)), nil); err == nil {
		t.Error("frost.Sign started with signer \"zz\", who holds no share (its round-3 message makes every honest signer panic)")
	}
}
