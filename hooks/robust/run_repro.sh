#!/bin/bash
# usage: hooks/run_repro.sh <name|all> [repo]      (default repo: /repo)
# Runs hooks/repro_<name>_test.go INSIDE the module of the repository (external test package of internal/test,
# placed there through `go test -overlay`; the repository itself is not touched).
# Exit status 0 = the test passes (defect absent), non-zero = it fails (defect present).
export GOFLAGS=-mod=mod GOPROXY=off GOSUMDB=off GOTOOLCHAIN=local
H=$(cd "$(dirname "$0")" && pwd)
NAME=$1; REPO=${2:-/repo}
OV=$(mktemp)
python3 - "$H" "$NAME" "$REPO" > "$OV" <<'PY'
import json, os, sys
h, name, repo = sys.argv[1:4]
rep = {}
for f in sorted(os.listdir(h)):
    if f.startswith("repro_") and f.endswith("_test.go") and (name == "all" or f == f"repro_{name}_test.go"):
        rep[f"{repo}/internal/test/zz_{f}"] = os.path.join(h, f)
print(json.dumps({"Replace": rep}))
PY
cd "$REPO" && go test -vet=off -count=1 -overlay "$OV" ./internal/test/ 2>&1 | tail -40
rc=${PIPESTATUS[0]}; rm -f "$OV"; exit $rc
