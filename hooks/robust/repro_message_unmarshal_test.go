package test_test

// C15: protocol.Message.UnmarshalBinary must report undecodable bytes (it returns nil and leaves the message empty).
import (
	"testing"

	"github.com/taurusgroup/multi-party-sig/pkg/protocol"
)

func TestMessageUnmarshalSwallowsErrors(t *testing.T) {
	for _, data := range [][]byte{{0xff}, {0x01, 0x02}, {0xf6}, {}} {
		var m protocol.Message
		if err := m.UnmarshalBinary(data); err == nil {
			t.Errorf("UnmarshalBinary(% x) = nil, message left empty (From=%q, Data=%v)", data, m.From, m.Data)
		}
	}
}
