package test_test

// C05 / C03: FROST keygen round 2 must check the degree of the dealt polynomial. A participant that deals a
// polynomial of degree 0 (with a valid Schnorr proof and shares that match it) passes every check, and every honest
// party then panics in round 3 (polynomial.Sum: "q is not the same length as p" -> panic(err) in Finalize).
// Party b is played by hand; a is a real handler.
import (
	"crypto/rand"
	"testing"

	"github.com/fxamacker/cbor/v2"
	"github.com/taurusgroup/multi-party-sig/internal/types"
	"github.com/taurusgroup/multi-party-sig/pkg/hash"
	"github.com/taurusgroup/multi-party-sig/pkg/math/curve"
	"github.com/taurusgroup/multi-party-sig/pkg/math/polynomial"
	"github.com/taurusgroup/multi-party-sig/pkg/math/sample"
	"github.com/taurusgroup/multi-party-sig/pkg/party"
	"github.com/taurusgroup/multi-party-sig/pkg/protocol"
	zksch "github.com/taurusgroup/multi-party-sig/pkg/zk/sch"
	"github.com/taurusgroup/multi-party-sig/protocols/frost"
)

func TestFrostKeygenDegree(t *testing.T) {
	g := curve.Secp256k1{}
	ids := []party.ID{"a", "b"}
	ha, _ := protocol.NewMultiHandler(frost.Keygen(g, "a", ids, 1), nil)
	sb, _ := frost.Keygen(g, "b", ids, 1)(nil) // b's session: its hash binds the proof and the commitment
	hb := sb.(interface{ HashForID(party.ID) *hash.Hash })
	a0 := sample.Scalar(rand.Reader, g)
	phi := polynomial.NewPolynomialExponent(polynomial.NewPolynomial(g, 0, a0)) // degree 0, the session's threshold is 1
	ck, _ := types.NewRID(rand.Reader)
	com, decom, _ := hb.HashForID("b").Commit(ck)
	enc := func(v map[string]interface{}) []byte { b, _ := cbor.Marshal(v); return b }
	msg := func(bc bool, to party.ID, data, echo []byte) *protocol.Message {
		return &protocol.Message{SSID: sb.SSID(), From: "b", To: to, Protocol: sb.ProtocolID(), RoundNumber: 2, Data: data, Broadcast: bc, BroadcastVerification: echo}
	}
	m2 := msg(true, "", enc(map[string]interface{}{"Phi_i": phi, "Sigma_i": zksch.NewProof(hb.HashForID("b"), a0.ActOnBase(), a0, nil), "Commitment": com}), nil)
	a2 := <-ha.Listen()
	echoState := sb.Hash() // the echo of round 2 as a computes it: both broadcasts, in id order
	_ = echoState.WriteAny(&hash.BytesWithDomain{TheDomain: "Message", Bytes: a2.Hash()}, &hash.BytesWithDomain{TheDomain: "Message", Bytes: m2.Hash()})
	echo := echoState.Sum()
	defer func() {
		if r := recover(); r != nil {
			t.Fatalf("the honest party panicked: %v", r)
		}
	}()
	ha.Accept(m2)
	b3 := msg(true, "", enc(map[string]interface{}{"C_l": ck, "Decommitment": decom}), echo)
	p3 := msg(false, "a", enc(map[string]interface{}{"F_li": a0}), echo)
	b3.RoundNumber, p3.RoundNumber = 3, 3
	ha.Accept(b3)
	ha.Accept(p3)
	if _, err := ha.Result(); err == nil {
		t.Error("a finished with a polynomial of the wrong degree")
	}
}
