package test_test

// C05: a zk proof whose fields are absent must be rejected by IsValid / Verify, not dereferenced.
import (
	"testing"

	"github.com/taurusgroup/multi-party-sig/pkg/hash"
	"github.com/taurusgroup/multi-party-sig/pkg/zk"
	zkenc "github.com/taurusgroup/multi-party-sig/pkg/zk/enc"
	zkmod "github.com/taurusgroup/multi-party-sig/pkg/zk/mod"
)

func TestZKNilFields(t *testing.T) {
	check := func(name string, f func() bool) {
		defer func() {
			if r := recover(); r != nil {
				t.Errorf("%s: panic on an empty proof: %v", name, r)
			}
		}()
		if f() {
			t.Errorf("%s: empty proof verifies", name)
		}
	}
	check("enc", func() bool {
		return (&zkenc.Proof{}).Verify(nil, hash.New(), zkenc.Public{K: nil, Prover: zk.ProverPaillierPublic, Aux: zk.Pedersen})
	})
	check("mod", func() bool { return (&zkmod.Proof{}).Verify(zkmod.Public{N: zk.ProverPaillierPublic.N()}, hash.New(), nil) })
}
