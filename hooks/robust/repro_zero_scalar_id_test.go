package test_test

// C20: a party ID whose scalar image is zero ("" or "\x00"), or equal to another party's ("a" and "\x00a"),
// must be refused at start: honest parties panic ("attempt to leak secret") when they evaluate their
// polynomial for such a party, and equal scalars make the key unusable.
import (
	"testing"

	"github.com/taurusgroup/multi-party-sig/pkg/math/curve"
	"github.com/taurusgroup/multi-party-sig/pkg/party"
	"github.com/taurusgroup/multi-party-sig/pkg/protocol"
	"github.com/taurusgroup/multi-party-sig/protocols/frost"
)

func TestZeroScalarID(t *testing.T) {
	for _, bad := range []party.ID{"", "\x00", "\x00a"} {
		ids := []party.ID{"a", "b", bad}
		if _, err := protocol.NewMultiHandler(frost.Keygen(curve.Secp256k1{}, "a", ids, 1), nil); err == nil {
			t.Errorf("keygen started with party ID %q", string(bad))
		}
	}
}
