package test_test

// C05 / C15: polynomial.Exponent.UnmarshalBinary must refuse short input with an error, and must not let a
// 4-byte count decide how much memory is allocated (here: 16 Mi points, > 1 GiB, from 10 bytes of input).
import (
	"runtime"
	"testing"

	"github.com/taurusgroup/multi-party-sig/pkg/math/curve"
	"github.com/taurusgroup/multi-party-sig/pkg/math/polynomial"
)

func TestExponentUnmarshal(t *testing.T) {
	func() {
		defer func() {
			if r := recover(); r != nil {
				t.Errorf("3 bytes of input: panic instead of an error: %v", r)
			}
		}()
		if polynomial.EmptyExponent(curve.Secp256k1{}).UnmarshalBinary([]byte{0, 0, 1}) == nil {
			t.Error("3 bytes of input accepted")
		}
	}()
	var m0, m1 runtime.MemStats
	runtime.ReadMemStats(&m0)
	_ = polynomial.EmptyExponent(curve.Secp256k1{}).UnmarshalBinary([]byte{1, 0, 0, 0, 0xa1, 0x61, 'x', 0x01, 0, 0})
	runtime.ReadMemStats(&m1)
	if d := (m1.TotalAlloc - m0.TotalAlloc) >> 20; d > 64 {
		t.Errorf("10 bytes of input made the decoder allocate %d MiB", d)
	}
}
