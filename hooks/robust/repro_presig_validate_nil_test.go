package test_test

// C20 / C15: PreSignature.Validate must report absent fields as an error (it dereferences them).
import (
	"testing"

	"github.com/taurusgroup/multi-party-sig/pkg/ecdsa"
)

func TestPresigValidateNil(t *testing.T) {
	defer func() {
		if r := recover(); r != nil {
			t.Errorf("Validate of an empty PreSignature: panic instead of an error: %v", r)
		}
	}()
	if err := (&ecdsa.PreSignature{}).Validate(); err == nil {
		t.Error("an empty PreSignature validates")
	}
}
