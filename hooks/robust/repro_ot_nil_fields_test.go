package test_test

// C05: Doerner signing: a first message whose multiplication sub-message is empty must be refused, not dereferenced.
import (
	"testing"

	"github.com/fxamacker/cbor/v2"
	"github.com/taurusgroup/multi-party-sig/pkg/math/curve"
	"github.com/taurusgroup/multi-party-sig/pkg/protocol"
	"github.com/taurusgroup/multi-party-sig/protocols/doerner"
)

func TestOTNilFields(t *testing.T) {
	g := curve.Secp256k1{}
	h0, _ := protocol.NewTwoPartyHandler(doerner.Keygen(g, true, "a", "b", nil), nil, true)
	h1, _ := protocol.NewTwoPartyHandler(doerner.Keygen(g, false, "b", "a", nil), nil, false)
	for i := 0; i < 8; i++ {
		for len(h0.Listen()) > 0 {
			h1.Accept(<-h0.Listen())
		}
		for len(h1.Listen()) > 0 {
			h0.Accept(<-h1.Listen())
		}
	}
	r0, _ := h0.Result()
	r1, _ := h1.Result()
	msg := make([]byte, 32)
	s0, _ := protocol.NewTwoPartyHandler(doerner.SignReceiver(r0.(*doerner.ConfigReceiver), "a", "b", msg, nil), nil, true)
	s1, _ := protocol.NewTwoPartyHandler(doerner.SignSender(r1.(*doerner.ConfigSender), "b", "a", msg, nil), nil, true)
	m := <-s0.Listen()
	fields := map[string]cbor.RawMessage{}
	if err := cbor.Unmarshal(m.Data, &fields); err != nil {
		t.Fatal(err)
	}
	fields["MulMsg0"] = cbor.RawMessage{0xa0} // an empty map: every field of the sub-message is absent
	m.Data, _ = cbor.Marshal(fields)
	defer func() {
		if r := recover(); r != nil {
			t.Fatalf("Accept panicked on a message with an empty MulMsg0: %v", r)
		}
	}()
	s1.Accept(m)
	if _, err := s1.Result(); err == nil {
		t.Error("the sender finished")
	}
}
