package test_test

// C20: Doerner signing must refuse an empty message hash and incomplete key material.
import (
	"testing"

	"github.com/taurusgroup/multi-party-sig/pkg/math/curve"
	"github.com/taurusgroup/multi-party-sig/pkg/protocol"
	"github.com/taurusgroup/multi-party-sig/protocols/doerner"
)

func TestDoernerSignStart(t *testing.T) {
	defer func() {
		if r := recover(); r != nil {
			t.Errorf("panic instead of an error: %v", r)
		}
	}()
	cfg := doerner.EmptyConfigSender(curve.Secp256k1{}) // no OT setup, zero share
	if _, err := protocol.NewTwoPartyHandler(doerner.SignSender(cfg, "b", "a", nil, nil), nil, true); err == nil {
		t.Error("doerner.SignSender started with an empty config and an empty message hash")
	}
	if _, err := protocol.NewTwoPartyHandler(doerner.RefreshReceiver(doerner.EmptyConfigReceiver(curve.Secp256k1{}), "a", "b", nil), nil, true); err == nil {
		t.Error("doerner.RefreshReceiver started with an empty config")
	}
}
