//go:build verif

package paillier

import "github.com/cronokirby/saferith"

// White-box accessors for the correspondence harness (overlay file; /repo is not edited).

// VerifPhiInv returns the cached ϕ⁻¹ mod N.
func (sk *SecretKey) VerifPhiInv() *saferith.Nat { return sk.phiInv }
