//go:build verif

package zkmod

// White-box accessor added by the verification harness through `go build -overlay` (not part of /repo):
// exposes the unexported Fiat–Shamir challenge so that it can be compared bit for bit with the Lean model.
import (
	"math/big"

	"github.com/cronokirby/saferith"
	"github.com/taurusgroup/multi-party-sig/pkg/hash"
)

func VerifChallenge(h *hash.Hash, n *saferith.Modulus, w *big.Int) ([]*saferith.Nat, error) {
	return challenge(h, n, w)
}
