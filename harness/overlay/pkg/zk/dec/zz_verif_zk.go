//go:build verif

package zkdec

// White-box accessor added by the verification harness through `go build -overlay` (not part of /repo):
// exposes the unexported Fiat–Shamir challenge so that it can be compared bit for bit with the Lean model.
import (
	"github.com/cronokirby/saferith"
	"github.com/taurusgroup/multi-party-sig/pkg/hash"
	"github.com/taurusgroup/multi-party-sig/pkg/math/curve"
)

func VerifChallenge(h *hash.Hash, group curve.Curve, public Public, commitment *Commitment) (*saferith.Int, error) {
	return challenge(h, group, public, commitment)
}
