//go:build verif

package zkprm

// White-box accessor added by the verification harness through `go build -overlay` (not part of /repo):
// exposes the unexported Fiat–Shamir challenge so that it can be compared bit for bit with the Lean model.
import (
	"math/big"

	"github.com/taurusgroup/multi-party-sig/internal/params"
	"github.com/taurusgroup/multi-party-sig/pkg/hash"
)

func VerifChallenge(h *hash.Hash, public Public, A [params.StatParam]*big.Int) ([]bool, error) {
	return challenge(h, public, A)
}
