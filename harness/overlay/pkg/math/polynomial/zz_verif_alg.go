//go:build verif

package polynomial

import "github.com/taurusgroup/multi-party-sig/pkg/math/curve"

// White-box constructors/accessors for the correspondence harness (suite `alg`). Add-only file,
// placed into the package through `go build -overlay`; /repo itself is not modified.

// VerifNewPolynomial builds a Polynomial with exactly the given coefficients (constant first).
func VerifNewPolynomial(group curve.Curve, coefficients []curve.Scalar) *Polynomial {
	return &Polynomial{group: group, coefficients: coefficients}
}

// VerifCoefficients returns the coefficient slice of a Polynomial.
func VerifCoefficients(p *Polynomial) []curve.Scalar { return p.coefficients }

// VerifNewExponent builds an Exponent with the given representation.
func VerifNewExponent(group curve.Curve, isConstant bool, coefficients []curve.Point) *Exponent {
	return &Exponent{group: group, IsConstant: isConstant, coefficients: coefficients}
}

// VerifExpCoefficients returns the stored coefficients of an Exponent.
func VerifExpCoefficients(e *Exponent) []curve.Point { return e.coefficients }

// VerifEvaluateClassic exposes the unexported reference evaluation.
func VerifEvaluateClassic(e *Exponent, x curve.Scalar) curve.Point { return e.evaluateClassic(x) }
