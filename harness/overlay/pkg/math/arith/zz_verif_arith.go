//go:build verif

package arith

import "github.com/cronokirby/saferith"

// White-box accessors for the correspondence harness (overlay file; /repo is not edited).

// VerifCRT returns the cached CRT values (p, q, p⁻¹ mod q) and whether the factorisation is known.
func (n *Modulus) VerifCRT() (p, q, pInv *saferith.Nat, ok bool) {
	if !n.hasFactorization() {
		return nil, nil, nil, false
	}
	return n.p.Nat(), n.q.Nat(), n.pInv, true
}
