//go:build verif

package pool

import "time"

// White-box accessors for the correspondence harness (overlay file; not part of /repo).

// VerifWorkerCount is the number of workers the pool was created with.
func (p *Pool) VerifWorkerCount() int { return p.workerCount }

// VerifIdleWorkers measures how many workers of p are able to take a command: it offers up to
// workerCount probe commands directly on the command channel, each blocking inside its task until
// all offers have been made; an offer that nobody takes within `timeout` ends the count. Every
// probe task reports that it is running before beforeRelease is called.
// The probe acknowledges every notification itself, so it never loses a worker on its own.
// beforeRelease (optional) runs after the count, before the probe tasks are released.
func (p *Pool) VerifIdleWorkers(timeout time.Duration, beforeRelease func()) int {
	release := make(chan struct{})
	entered := make(chan struct{}, p.workerCount)
	ack := make(chan struct{})
	ctr := int64(p.workerCount)
	results := make([]interface{}, p.workerCount)
	started := 0
	t := time.NewTimer(timeout)
	defer t.Stop()
offers:
	for k := 0; k < p.workerCount; k++ {
		cmd := command{
			search:     false,
			i:          k,
			ctr:        &ctr,
			ctrChanged: ack,
			f:          func(int) interface{} { entered <- struct{}{}; <-release; return nil },
			results:    results,
		}
		if !t.Stop() {
			select {
			case <-t.C:
			default:
			}
		}
		t.Reset(timeout)
		select {
		case p.commands <- cmd:
			started++
		case <-t.C:
			break offers
		}
	}
	for k := 0; k < started; k++ {
		<-entered
	}
	if beforeRelease != nil {
		beforeRelease()
	}
	close(release)
	for k := 0; k < started; k++ {
		<-ack
	}
	return started
}
