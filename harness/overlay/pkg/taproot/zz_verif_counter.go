//go:build verif

package taproot

import "sync/atomic"

// VerifSignatureCounter is a white-box accessor (overlay only, /repo untouched): the current value
// of the atomic counter `Sign` increments when it is called without a source of randomness.
func VerifSignatureCounter() uint64 { return atomic.LoadUint64(&signatureCounter) }
