package sign

import "github.com/taurusgroup/multi-party-sig/pkg/math/curve"

// VerifZ exposes the response scalar of a FROST signature to the verification harness.
func (sig Signature) VerifZ() curve.Scalar { return sig.z }
