//go:build verif

package keygen

// White-box helper for the correspondence harness (overlay file; never part of the repository).

import (
	"github.com/taurusgroup/multi-party-sig/internal/round"
	"github.com/taurusgroup/multi-party-sig/internal/types"
	"github.com/taurusgroup/multi-party-sig/pkg/protocol"
)

// shortCKRound1 is a party that deviates in ONE thing: its chain-key contribution has `n` bytes instead of 32. Commitment
// (round 2) and opening (round 3) are consistent with the short value.
type shortCKRound1 struct {
	*round1
	n int
}

// shortCKRound2 puts a well-formed value back into the deviating party's own state once the short one has been revealed,
// so that the deviating party itself keeps running (the scenario is about the HONEST parties).
type shortCKRound2 struct {
	*round2
	full types.RID
}

func (r *shortCKRound1) Finalize(out chan<- *round.Message) (round.Session, error) {
	tmp := make(chan *round.Message, 16)
	next, err := r.round1.Finalize(tmp)
	close(tmp)
	r2, ok := next.(*round2)
	if err != nil || !ok {
		for m := range tmp {
			out <- m
		}
		return next, err
	}
	self := r.SelfID()
	full := r2.ChainKeys[self]
	short := types.RID(append([]byte{}, full...))
	if r.n <= len(short) {
		short = short[:r.n]
	} else {
		short = append(short, make([]byte, r.n-len(short))...)
	}
	com, decom, cerr := r.HashForID(self).Commit(short)
	if cerr != nil {
		return r, cerr
	}
	r2.ChainKeys[self] = short
	r2.ChainKeyDecommitment = decom
	for m := range tmp {
		if b, isB := m.Content.(*broadcast2); isB {
			b.Commitment = com
		}
		out <- m
	}
	return &shortCKRound2{r2, full}, nil
}

func (r *shortCKRound2) Finalize(out chan<- *round.Message) (round.Session, error) {
	next, err := r.round2.Finalize(out)
	if r3, ok := next.(*round3); ok {
		r3.ChainKeys[r.SelfID()] = r.full
	}
	return next, err
}

// VerifShortChainKeyStart wraps a key generation start function so that the party commits to and reveals a chain-key
// contribution of n bytes
func VerifShortChainKeyStart(st protocol.StartFunc, n int) protocol.StartFunc {
	return func(sessionID []byte) (round.Session, error) {
		s, err := st(sessionID)
		if err != nil {
			return s, err
		}
		if r1, ok := s.(*round1); ok {
			return &shortCKRound1{r1, n}, nil
		}
		return s, nil
	}
}
