//go:build verif

package keygen

// White-box helper for the correspondence harness (overlay file; never part of the repository).

import (
	"github.com/taurusgroup/multi-party-sig/internal/round"
	"github.com/taurusgroup/multi-party-sig/pkg/protocol"
)

// lowDegRound1 is a dealer that deviates in ONE thing: its sharing polynomial has degree t-1. Everything it sends is
// consistent with that polynomial (commitment, Schnorr proof for the constant term, every share).
type lowDegRound1 struct{ *round1 }

func (r *lowDegRound1) Finalize(out chan<- *round.Message) (round.Session, error) {
	t := r.round1.threshold
	r.round1.threshold = t - 1
	defer func() { r.round1.threshold = t }()
	return r.round1.Finalize(out)
}

// VerifLowDegreeStart wraps a key generation start function so that the party deals a polynomial of degree t-1
func VerifLowDegreeStart(st protocol.StartFunc) protocol.StartFunc {
	return func(sessionID []byte) (round.Session, error) {
		s, err := st(sessionID)
		if err != nil {
			return s, err
		}
		if r1, ok := s.(*round1); ok && r1.threshold > 0 {
			return &lowDegRound1{r1}, nil
		}
		return s, nil
	}
}
