//go:build verif

package keygen

// White-box helpers for the correspondence harness (overlay file; never part of the repository).

import (
	"github.com/cronokirby/saferith"
	"github.com/fxamacker/cbor/v2"
	"github.com/taurusgroup/multi-party-sig/pkg/math/curve"
	"github.com/taurusgroup/multi-party-sig/pkg/math/polynomial"
	"github.com/taurusgroup/multi-party-sig/pkg/paillier"
	zksch "github.com/taurusgroup/multi-party-sig/pkg/zk/sch"
)

// VerifBroadcast3N: the Paillier modulus a party announces in its round-3 broadcast
func VerifBroadcast3N(group curve.Curve, data []byte) *saferith.Modulus {
	body := &broadcast3{
		VSSPolynomial:      polynomial.EmptyExponent(group),
		SchnorrCommitments: zksch.EmptyCommitment(group),
		ElGamalPublic:      group.NewPoint(),
	}
	if err := cbor.Unmarshal(data, body); err != nil {
		return nil
	}
	return body.N
}

// VerifReencryptShare: the round-4 share message with its ciphertext replaced by a fresh, well-formed encryption of
// `plaintext` under the recipient's key (what a deviating dealer can always do)
func VerifReencryptShare(data []byte, n *saferith.Modulus, plaintext *saferith.Int) []byte {
	body := &message4{}
	if err := cbor.Unmarshal(data, body); err != nil || n == nil {
		return nil
	}
	body.Share, _ = paillier.NewPublicKey(n).Enc(plaintext)
	out, err := cbor.Marshal(body)
	if err != nil {
		return nil
	}
	return out
}
