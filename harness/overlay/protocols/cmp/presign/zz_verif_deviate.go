//go:build verif

package presign

// White-box deviations of ONE presigner for the verification harness (suite sess-presign-abort): the
// cheater's session is wrapped so that its state is altered before / after its own Finalize and in the
// content it sends — the state-level deviations of the existing TestRoundFail (wrong delta share, wrong
// gamma, wrong x for chi) plus a wrong sigma share — while everything goes through the real handler.

import (
	"github.com/cronokirby/saferith"
	"github.com/taurusgroup/multi-party-sig/internal/round"
)

type devRound struct {
	round.Session
	kind string
}

type devBRound struct{ *devRound }

func (d *devBRound) StoreBroadcastMessage(msg round.Message) error {
	return d.Session.(round.BroadcastRound).StoreBroadcastMessage(msg)
}
func (d *devBRound) BroadcastContent() round.BroadcastContent {
	return d.Session.(round.BroadcastRound).BroadcastContent()
}

func verifWrap(r round.Session, kind string) round.Session {
	switch r.(type) {
	case *round.Abort, *round.Output:
		return r
	}
	d := &devRound{Session: r, kind: kind}
	if _, ok := r.(round.BroadcastRound); ok {
		return &devBRound{d}
	}
	return d
}

// VerifDeviate wraps a start function so that the party deviates in the given way.
func VerifDeviate(inner func([]byte) (round.Session, error), kind string) func([]byte) (round.Session, error) {
	return func(sid []byte) (round.Session, error) {
		r, err := inner(sid)
		if err != nil {
			return nil, err
		}
		return verifWrap(r, kind), nil
	}
}

func (d *devRound) Finalize(out chan<- *round.Message) (round.Session, error) {
	one := new(saferith.Int).SetUint64(1)
	minusOne := new(saferith.Int).SetUint64(1).Neg(1)
	// before
	if r, ok := d.Session.(*presign3); ok {
		switch d.kind {
		case "gamma":
			r.GammaShare = new(saferith.Int).Add(r.GammaShare, minusOne, -1)
		case "chi-x":
			oneS := r.Group().NewScalar().SetNat(new(saferith.Nat).SetUint64(1))
			r.SecretECDSA = oneS.Negate().Add(r.SecretECDSA)
		}
	}
	tmp := make(chan *round.Message, d.Session.N()+1)
	next, err := d.Session.Finalize(tmp)
	close(tmp)
	// after
	if r, ok := next.(*presign4); ok {
		oneS := r.Group().NewScalar().SetNat(new(saferith.Nat).SetUint64(1))
		switch d.kind {
		case "gamma":
			r.GammaShare = new(saferith.Int).Add(r.GammaShare, one, -1)
		case "chi-x":
			r.SecretECDSA = oneS.Add(r.SecretECDSA)
		case "delta-share":
			r.DeltaShares[r.SelfID()] = r.Group().NewScalar().Set(r.DeltaShares[r.SelfID()]).Sub(oneS)
		}
	}
	for m := range tmp {
		switch c := m.Content.(type) {
		case *broadcast4:
			if d.kind == "delta-share" {
				oneS := d.Session.Group().NewScalar().SetNat(new(saferith.Nat).SetUint64(1))
				c.DeltaShare = d.Session.Group().NewScalar().Set(c.DeltaShare).Sub(oneS)
			}
		case *broadcastSign2:
			if d.kind == "sigma" {
				oneS := d.Session.Group().NewScalar().SetNat(new(saferith.Nat).SetUint64(1))
				c.Sigma = d.Session.Group().NewScalar().Set(c.Sigma).Add(oneS)
			}
		}
		out <- m
	}
	if err != nil || next == nil {
		return next, err
	}
	return verifWrap(next, d.kind), nil
}
