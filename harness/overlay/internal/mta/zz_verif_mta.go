//go:build verif

package mta

import (
	"github.com/cronokirby/saferith"
	"github.com/taurusgroup/multi-party-sig/pkg/paillier"
)

// White-box accessor for the correspondence harness (overlay file; /repo is not edited).

// VerifNewMta exposes newMta: D, F, the nonces S (of D) and R (of F) and BetaNeg = β′.
func VerifNewMta(senderSecretShare *saferith.Int, receiverEncryptedShare *paillier.Ciphertext,
	sender *paillier.SecretKey, receiver *paillier.PublicKey) (D, F *paillier.Ciphertext, S, R *saferith.Nat, BetaNeg *saferith.Int) {
	return newMta(senderSecretShare, receiverEncryptedShare, sender, receiver)
}
