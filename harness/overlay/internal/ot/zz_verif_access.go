//go:build verif

// White-box accessors for the correspondence harness (C13). ADD-ONLY file placed into package ot
// through `go build -overlay`; /repo is not modified. Nothing here changes behaviour: the functions
// call the unexported functions / read the unexported fields of the package as they are.
package ot

import (
	"github.com/taurusgroup/multi-party-sig/internal/params"
	"github.com/taurusgroup/multi-party-sig/pkg/hash"
	"github.com/taurusgroup/multi-party-sig/pkg/math/curve"
)

func VerifBitAt(i int, data []byte) byte { return bitAt(i, data) }

func VerifTransposeBits(l int, M *[params.OTParam][]byte) [][params.OTBytes]byte {
	return transposeBits(l, M)
}

// VerifAccumulate runs f.accumulate(a, b) on a copy of f.
func VerifAccumulate(f [4]uint64, a, b [params.OTBytes]byte) [4]uint64 {
	fe := fieldElement(f)
	fe.accumulate(&a, &b)
	return [4]uint64(fe)
}

func VerifFieldEq(f, g [4]uint64) bool {
	a, b := fieldElement(f), fieldElement(g)
	return a.eq(&b)
}

func VerifEncode(beta curve.Scalar, noise []curve.Scalar) ([]byte, error) { return encode(beta, noise) }
func VerifMakeGadget(h *hash.Hash, group curve.Curve) []curve.Scalar   { return makeGadget(h, group) }
func VerifScalarBytes(group curve.Curve) int                            { return scalarBytes(group) }

func (s *CorreOTSendSetup) VerifDump() (delta [params.OTBytes]byte, kDelta [params.OTParam][params.OTBytes]byte) {
	return s._Delta, s._K_Delta
}

func (s *CorreOTReceiveSetup) VerifDump() (k0, k1 [params.OTParam][params.OTBytes]byte) {
	return s._K_0, s._K_1
}

// VerifMakeCorreSetups builds a setup pair from given material (no protocol run).
func VerifMakeCorreSetups(delta [params.OTBytes]byte, kDelta, k0, k1 [params.OTParam][params.OTBytes]byte) (*CorreOTSendSetup, *CorreOTReceiveSetup) {
	return &CorreOTSendSetup{_Delta: delta, _K_Delta: kDelta}, &CorreOTReceiveSetup{_K_0: k0, _K_1: k1}
}

func (r *CorreOTSendResult) VerifDump() (U [params.OTParam][]byte, Q [][params.OTBytes]byte) {
	return r._U, r._Q
}
func (r *CorreOTReceiveResult) VerifDump() [][params.OTBytes]byte { return r._T }

func (r *ExtendedOTSendResult) VerifDump() (V0, V1 [][params.OTBytes]byte) { return r._V0, r._V1 }
func (r *ExtendedOTReceiveResult) VerifDump() [][params.OTBytes]byte       { return r._VChoices }

func (r *MultiplyReceiver) VerifChoices() []byte        { return r.choices }
func (r *MultiplyReceiver) VerifGadget() []curve.Scalar { return r.gadget }
func (r *MultiplySender) VerifGadget() []curve.Scalar   { return r.gadget }
func (r *MultiplySender) VerifAlpha1() curve.Scalar     { return r.doubleAlpha[1] }

// VerifRandomOTSendSetup: the sender's setup for a chosen secret key b (what RandomOTSetupSend
// stores, without the Schnorr proof).
func VerifRandomOTSendSetup(b curve.Scalar) (*RandomOTSendSetup, *RandomOTReceiveSetup) {
	B := b.ActOnBase()
	return &RandomOTSendSetup{_B: B, b: b, _bB: b.Act(B)}, &RandomOTReceiveSetup{_B: B}
}

func (r *RandomOTSendSetup) VerifB() curve.Point { return r._B }
func (r *RandomOTSendSetup) Verifb() curve.Scalar { return r.b }

func (r *RandomOTReceiever) VerifRandChoice() [params.OTBytes]byte { return r.randChoice }
