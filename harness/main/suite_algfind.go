//go:build verif

package main

// Suite `algfind` — session-level REPRODUCERS of the defects the algebra layer of C14/C08 exposed (all fixed in
// /repo: 4df2a70 Doerner Derive, eba3819 FROST chain key); kept as regression observations.
// Real protocol runs (FROST keygen, Doerner keygen / refresh / sign); only judged observations are
// emitted (booleans, lengths), so the lines are deterministic although the runs use crypto/rand.
// The model side (Mps.Drv.Alg, ops "find…") answers what property C14 PRESCRIBES.

import (
	"github.com/taurusgroup/multi-party-sig/pkg/ecdsa"
	"github.com/taurusgroup/multi-party-sig/pkg/party"
	"github.com/taurusgroup/multi-party-sig/pkg/pool"
	"github.com/taurusgroup/multi-party-sig/pkg/protocol"
	"github.com/taurusgroup/multi-party-sig/protocols/doerner"
	"github.com/taurusgroup/multi-party-sig/protocols/frost"
)

func algDoernerKeygen(c *Ctx, pl *pool.Pool, a, b party.ID) (*doerner.ConfigReceiver, *doerner.ConfigSender, string) {
	h0, e0 := protocol.NewTwoPartyHandler(doerner.Keygen(secp, true, a, b, pl), []byte("kg"), true)
	h1, e1 := protocol.NewTwoPartyHandler(doerner.Keygen(secp, false, b, a, pl), []byte("kg"), false)
	if e0 != nil || e1 != nil {
		return nil, nil, "start"
	}
	res := runSessions(c, map[party.ID]protocol.Handler{a: h0, b: h1}, "fifo", nil)
	if res.Panic != "" || len(res.Errors) > 0 {
		return nil, nil, "run: " + res.Panic
	}
	return res.Results[a].(*doerner.ConfigReceiver), res.Results[b].(*doerner.ConfigSender), ""
}

func algDoernerRefresh(c *Ctx, pl *pool.Pool, a, b party.ID, cr *doerner.ConfigReceiver, cs *doerner.ConfigSender) (*doerner.ConfigReceiver, *doerner.ConfigSender, string) {
	h0, e0 := protocol.NewTwoPartyHandler(doerner.RefreshReceiver(cr, a, b, pl), []byte("rf"), true)
	h1, e1 := protocol.NewTwoPartyHandler(doerner.RefreshSender(cs, b, a, pl), []byte("rf"), false)
	if e0 != nil || e1 != nil {
		return nil, nil, "start"
	}
	res := runSessions(c, map[party.ID]protocol.Handler{a: h0, b: h1}, "fifo", nil)
	if res.Panic != "" || len(res.Errors) > 0 {
		return nil, nil, "run: " + res.Panic
	}
	return res.Results[a].(*doerner.ConfigReceiver), res.Results[b].(*doerner.ConfigSender), ""
}

// algDoernerSign returns whether both parties ended with a signature valid under `cr.Public`.
func algDoernerSign(c *Ctx, pl *pool.Pool, a, b party.ID, cr *doerner.ConfigReceiver, cs *doerner.ConfigSender, h []byte) bool {
	h0, e0 := protocol.NewTwoPartyHandler(doerner.SignReceiver(cr, a, b, h, pl), []byte("sg"), true)
	h1, e1 := protocol.NewTwoPartyHandler(doerner.SignSender(cs, b, a, h, pl), []byte("sg"), true)
	if e0 != nil || e1 != nil {
		return false
	}
	res := runSessions(c, map[party.ID]protocol.Handler{a: h0, b: h1}, "fifo", nil)
	if res.Panic != "" || len(res.Errors) > 0 {
		return false
	}
	sig, ok := res.Results[a].(*ecdsa.Signature)
	return ok && sig.Verify(cr.Public, h)
}

func init() {
	register("algfind", func(c *Ctx) {
		pl := pool.NewPool(0)
		defer pl.TearDown()
		reps := 1 + c.N/50
		for it := 0; it < reps; it++ {
			// ---- FROST: the chain key computed in keygen round 3 is not stored in the Config
			n := 2 + c.Intn(3)
			t := c.Intn(n)
			ids := party.IDSlice{}
			for i := 0; i < n; i++ {
				ids = append(ids, party.ID([]byte{byte('a' + i)}))
			}
			hs := map[party.ID]protocol.Handler{}
			for _, id := range ids {
				h, err := protocol.NewMultiHandler(frost.Keygen(secp, id, ids, t), []byte("frost-kg"))
				if err != nil {
					panic(err)
				}
				hs[id] = h
			}
			res := runSessions(c, hs, "random", nil)
			lens := []int{}
			allOK := res.Panic == "" && len(res.Errors) == 0
			childOK := true
			for _, id := range ids {
				cfg, ok := res.Results[id].(*frost.Config)
				if !ok {
					allOK = false
					continue
				}
				lens = append(lens, len(cfg.ChainKey))
				// DeriveChild still "works": HMAC is keyed with the EMPTY chain key, i.e. the child tweak is a
				// function of public data only
				if _, err := cfg.DeriveChild(1); err != nil {
					childOK = false
				}
			}
			chainOK := allOK
			for _, l := range lens {
				if l != 32 {
					chainOK = false
				}
			}
			c.Emit("findFrostChainKey", J{"n": n, "t": t}, J{"completed": allOK, "chainKeyLens": lens, "chainKeyOk": chainOK, "deriveChildSucceeds": childOK})

			// ---- Doerner: keygen, then Derive on both sides, then sign with the derived material
			a, b := party.ID("a"), party.ID("b")
			cr, cs, e := algDoernerKeygen(c, pl, a, b)
			if e != "" {
				c.Emit("findDoernerDerive", J{}, J{"setup": e})
				continue
			}
			hash := c.Bytes(32)
			baseOK := algDoernerSign(c, pl, a, b, cr, cs, hash)
			idx := uint32(c.Intn(1 << 31))
			dr, e1 := cr.DeriveBIP32(idx)
			ds, e2 := cs.DeriveBIP32(idx)
			derivedOK, sharesOK, chainOK2, again := false, false, false, false
			if e1 == nil && e2 == nil {
				sum := secp.NewScalar().Set(dr.SecretShare).Add(ds.SecretShare)
				sharesOK = sum.ActOnBase().Equal(dr.Public) && dr.Public.Equal(ds.Public)
				chainOK2 = len(dr.ChainKey) == 32 && len(ds.ChainKey) == 32
				derivedOK = algDoernerSign(c, pl, a, b, dr, ds, hash)
				_, e3 := dr.DeriveBIP32(idx) // deriving again from derived material: the HMAC key is now empty
				again = e3 == nil && chainOK2
			}
			c.Emit("findDoernerDerive", J{"i": idx}, J{"signBefore": baseOK, "deriveErr": e1 != nil || e2 != nil, "sharesOpenKey": sharesOK,
				"chainKeyKept": chainOK2, "signAfter": derivedOK, "deriveAgainOk": again})

			// ---- Doerner refresh: key kept, shares re-randomised; both sides agree on the (re-drawn, by design) chain key
			nr, ns, e := algDoernerRefresh(c, pl, a, b, cr, cs)
			if e != "" {
				c.Emit("findDoernerRefresh", J{}, J{"setup": e})
				continue
			}
			sum := secp.NewScalar().Set(nr.SecretShare).Add(ns.SecretShare)
			c.Emit("findDoernerRefresh", J{}, J{"keyKept": nr.Public.Equal(cr.Public) && sum.ActOnBase().Equal(cr.Public),
				"shareChanged": !nr.SecretShare.Equal(cr.SecretShare), "signAfter": algDoernerSign(c, pl, a, b, nr, ns, hash),
				"chainKeysAgree": hx(nr.ChainKey) == hx(ns.ChainKey) && len(nr.ChainKey) == 32})
		}
	})
}
