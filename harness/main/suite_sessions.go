//go:build verif

package main

// Suites `sess-*`: REAL protocol sessions (FROST, FROST-Taproot, Doerner, CMP) driven through the real
// handlers; what every party returns is dumped and JUDGED by the Lean side with independent verifiers
// (ECDSA / Schnorr / BIP-340, Shamir reconstruction over every (t+1)-subset, BIP-32) — impl {"ok":true}
// versus model {"ok": <judgement>}.

import (
	"fmt"
	"sort"

	"github.com/taurusgroup/multi-party-sig/internal/test"
	"github.com/taurusgroup/multi-party-sig/pkg/ecdsa"
	"github.com/taurusgroup/multi-party-sig/pkg/math/curve"
	"github.com/taurusgroup/multi-party-sig/pkg/party"
	"github.com/taurusgroup/multi-party-sig/pkg/protocol"
	"github.com/taurusgroup/multi-party-sig/pkg/taproot"
	"github.com/taurusgroup/multi-party-sig/protocols/cmp"
	"github.com/taurusgroup/multi-party-sig/protocols/doerner"
	"github.com/taurusgroup/multi-party-sig/protocols/frost"
)

var secp = curve.Secp256k1{}

func ptHex(p curve.Point) interface{} {
	if p == nil {
		return nil
	}
	b, err := p.MarshalBinary()
	if err != nil {
		return nil
	}
	return hx(b)
}
func scHex(s curve.Scalar) interface{} {
	if s == nil {
		return nil
	}
	b, _ := s.MarshalBinary()
	return hx(b)
}

// genIDs returns n distinct party ids (short, long, non-ASCII) — sorted.
func genIDs(c *Ctx, n int) party.IDSlice {
	pool := []string{"a", "b", "c", "d", "e", "f", "alice", "bob", "carol-with-a-rather-long-identifier-0123456789", "\xc3\xa9ve", "z", "p1", "p2", "\x01", "node-7"}
	c.Rng.Shuffle(len(pool), func(i, j int) { pool[i], pool[j] = pool[j], pool[i] })
	ids := make([]party.ID, n)
	for i := 0; i < n; i++ {
		ids[i] = party.ID(pool[i])
	}
	return party.NewIDSlice(ids)
}

func idsHex(ids []party.ID) []string {
	out := make([]string, len(ids))
	for i, id := range ids {
		out[i] = hx([]byte(id))
	}
	return out
}

func randOrder(c *Ctx) string {
	if c.Intn(3) == 0 {
		return "fifo"
	}
	return "random"
}

func errsJ(res sessionResult) J {
	e := J{}
	for id, err := range res.Errors {
		e[hx([]byte(id))] = err.Error()
	}
	if res.Panic != "" {
		e["PANIC"] = res.Panic
	}
	return e
}

// subset picks a random subset of size k (sorted ids).
func subset(c *Ctx, ids party.IDSlice, k int) party.IDSlice {
	perm := c.Rng.Perm(len(ids))
	out := make([]party.ID, 0, k)
	for _, i := range perm[:k] {
		out = append(out, ids[i])
	}
	return party.NewIDSlice(out)
}

// presented: the signer list as ONE party hands it to a start function. The start functions take any order (the session
// sorts its own copy): in a third of the sessions every party lists itself first, then the others in a seeded order.
func presented(c *Ctx, signers party.IDSlice, self party.ID, mode int) []party.ID {
	if mode == 0 {
		return signers
	}
	out := []party.ID{self}
	rest := []party.ID{}
	for _, id := range signers {
		if id != self {
			rest = append(rest, id)
		}
	}
	if mode == 2 { // reverse order
		for i := len(rest) - 1; i >= 0; i-- {
			out = append(out, rest[i])
		}
		return out
	}
	return append(out, rest...)
}

func presentMode(c *Ctx) (int, string) {
	switch c.Intn(6) {
	case 0:
		return 1, "+self-first-list"
	case 1:
		return 2, "+self-first-reversed-list"
	}
	return 0, ""
}

// ---- FROST ------------------------------------------------------------------------------------------

func frostKeygen(c *Ctx, ids party.IDSlice, t int, taprootKind bool, sid []byte) (map[party.ID]*frost.Config, map[party.ID]*frost.TaprootConfig, sessionResult) {
	hs := map[party.ID]protocol.Handler{}
	for _, id := range ids {
		var st protocol.StartFunc
		if taprootKind {
			st = frost.KeygenTaproot(id, ids, t)
		} else {
			st = frost.Keygen(secp, id, ids, t)
		}
		h, err := protocol.NewMultiHandler(st, sid)
		if err != nil {
			return nil, nil, sessionResult{Panic: "start: " + err.Error()}
		}
		hs[id] = h
	}
	res := runSessions(c, hs, randOrder(c), nil)
	a, b := map[party.ID]*frost.Config{}, map[party.ID]*frost.TaprootConfig{}
	for id, r := range res.Results {
		switch v := r.(type) {
		case *frost.Config:
			a[id] = v
		case *frost.TaprootConfig:
			b[id] = v
		}
	}
	return a, b, res
}

func frostCfgJ(cfg *frost.Config) J {
	tbl := J{}
	if cfg.VerificationShares != nil {
		for k, v := range cfg.VerificationShares.Points {
			tbl[hx([]byte(k))] = ptHex(v)
		}
	}
	return J{"id": hx([]byte(cfg.ID)), "t": cfg.Threshold, "share": scHex(cfg.PrivateShare), "pub": ptHex(cfg.PublicKey), "table": tbl, "chain": hx(cfg.ChainKey)}
}

func taprootCfgJ(cfg *frost.TaprootConfig) J {
	tbl := J{}
	for k, v := range cfg.VerificationShares {
		tbl[hx([]byte(k))] = ptHex(v)
	}
	return J{"id": hx([]byte(cfg.ID)), "t": cfg.Threshold, "share": scHex(cfg.PrivateShare), "xonly": hx(cfg.PublicKey), "table": tbl, "chain": hx(cfg.ChainKey)}
}

func emitKeygen(c *Ctx, kind string, ids party.IDSlice, t int, parties []J, res sessionResult, extra J) {
	in := J{"kind": kind, "n": len(ids), "t": t, "ids": idsHex(ids), "parties": parties, "errors": errsJ(res)}
	for k, v := range extra {
		in[k] = v
	}
	var impl interface{} = J{"ok": true}
	if res.Panic != "" {
		impl = J{"outcome": "PANIC", "detail": res.Panic}
	}
	c.Emit("keygen", in, impl)
	c.Count("sess/keygen/" + kind)
}

func frostSign(c *Ctx, cfgs map[party.ID]*frost.Config, tcfgs map[party.ID]*frost.TaprootConfig, signers party.IDSlice, msg []byte, sid []byte, label string) {
	hs := map[party.ID]protocol.Handler{}
	kind := "frost"
	pmode, plabel := presentMode(c)
	label += plabel
	for _, id := range signers {
		var st protocol.StartFunc
		if tcfgs != nil {
			kind = "frost-taproot"
			st = frost.SignTaproot(tcfgs[id], presented(c, signers, id, pmode), msg)
		} else {
			st = frost.Sign(cfgs[id], presented(c, signers, id, pmode), msg)
		}
		h, err := protocol.NewMultiHandler(st, sid)
		if err != nil {
			c.Emit("sign", J{"kind": kind, "label": label, "start_error": err.Error()}, J{"ok": true})
			return
		}
		hs[id] = h
	}
	res := runSessions(c, hs, randOrder(c), nil)
	sigs := []J{}
	for _, id := range signers {
		r, ok := res.Results[id]
		if !ok {
			continue
		}
		switch v := r.(type) {
		case frost.Signature:
			sigs = append(sigs, J{"id": hx([]byte(id)), "R": ptHex(v.R), "z": scHex(frostSigZ(v))})
		case taproot.Signature:
			sigs = append(sigs, J{"id": hx([]byte(id)), "sig": hx(v)})
		}
	}
	in := J{"kind": kind, "label": label, "msg": hx(msg), "signers": idsHex(signers), "sigs": sigs, "errors": errsJ(res), "expect": "complete"}
	if tcfgs != nil {
		in["xonly"] = hx(tcfgs[signers[0]].PublicKey)
	} else {
		in["pub"] = ptHex(cfgs[signers[0]].PublicKey)
	}
	var impl interface{} = J{"ok": true}
	if res.Panic != "" {
		impl = J{"outcome": "PANIC", "detail": res.Panic}
	}
	c.Emit("sign", in, impl)
	c.Count("sess/sign/" + kind)
}

// ---- Doerner ----------------------------------------------------------------------------------------

func doernerKeygen(c *Ctx, a, b party.ID, sid []byte) (*doerner.ConfigReceiver, *doerner.ConfigSender, sessionResult) {
	hr, err1 := protocol.NewTwoPartyHandler(doerner.Keygen(secp, true, a, b, nil), sid, true)
	hsn, err2 := protocol.NewTwoPartyHandler(doerner.Keygen(secp, false, b, a, nil), sid, false)
	if err1 != nil || err2 != nil {
		return nil, nil, sessionResult{Panic: "start failed"}
	}
	res := runSessions(c, map[party.ID]protocol.Handler{a: hr, b: hsn}, randOrder(c), nil)
	cr, _ := res.Results[a].(*doerner.ConfigReceiver)
	cs, _ := res.Results[b].(*doerner.ConfigSender)
	return cr, cs, res
}

func doernerJ(a, b party.ID, cr *doerner.ConfigReceiver, cs *doerner.ConfigSender) []J {
	out := []J{}
	if cr != nil {
		out = append(out, J{"id": hx([]byte(a)), "role": "receiver", "share": scHex(cr.SecretShare), "pub": ptHex(cr.Public), "chain": hx(cr.ChainKey)})
	}
	if cs != nil {
		out = append(out, J{"id": hx([]byte(b)), "role": "sender", "share": scHex(cs.SecretShare), "pub": ptHex(cs.Public), "chain": hx(cs.ChainKey)})
	}
	return out
}

func doernerSign(c *Ctx, a, b party.ID, cr *doerner.ConfigReceiver, cs *doerner.ConfigSender, msg []byte, sid []byte, label string) {
	var hr, hsn *protocol.TwoPartyHandler
	var err1, err2 error
	res0 := Guard(func() interface{} {
		hr, err1 = protocol.NewTwoPartyHandler(doerner.SignReceiver(cr, a, b, msg, nil), sid, true)
		hsn, err2 = protocol.NewTwoPartyHandler(doerner.SignSender(cs, b, a, msg, nil), sid, false)
		return nil
	})
	if res0 != nil || err1 != nil || err2 != nil {
		c.Emit("sign", J{"kind": "doerner", "label": label, "start_error": fmt.Sprint(res0, err1, err2)}, J{"ok": true})
		return
	}
	res := runSessions(c, map[party.ID]protocol.Handler{a: hr, b: hsn}, randOrder(c), nil)
	sigs := []J{}
	for _, id := range []party.ID{a, b} {
		if r, ok := res.Results[id]; ok {
			if s, ok := r.(*ecdsa.Signature); ok {
				sigs = append(sigs, J{"id": hx([]byte(id)), "R": ptHex(s.R), "s": scHex(s.S)})
			}
		}
	}
	in := J{"kind": "doerner", "label": label, "msg": hx(msg), "signers": idsHex([]party.ID{a, b}), "sigs": sigs, "errors": errsJ(res),
		"pub": ptHex(cr.Public), "expect": "complete"}
	var impl interface{} = J{"ok": true}
	if res.Panic != "" {
		impl = J{"outcome": "PANIC", "detail": res.Panic}
	}
	c.Emit("sign", in, impl)
	c.Count("sess/sign/doerner")
}

// ---- CMP --------------------------------------------------------------------------------------------

func cmpCfgJ(cfg *cmp.Config) J {
	tbl := J{}
	ids := []string{}
	for k, v := range cfg.Public {
		tbl[hx([]byte(k))] = ptHex(v.ECDSA)
		ids = append(ids, hx([]byte(k)))
	}
	sort.Strings(ids)
	return J{"id": hx([]byte(cfg.ID)), "t": cfg.Threshold, "share": scHex(cfg.ECDSA), "pub": ptHex(cfg.PublicPoint()), "table": tbl,
		"chain": hx(cfg.ChainKey), "rid": hx(cfg.RID)}
}

func cmpKeygen(c *Ctx, ids party.IDSlice, t int, sid []byte) (map[party.ID]*cmp.Config, sessionResult) {
	hs := map[party.ID]protocol.Handler{}
	for _, id := range ids {
		h, err := protocol.NewMultiHandler(cmp.Keygen(secp, id, ids, t, nil), sid)
		if err != nil {
			return nil, sessionResult{Panic: "start: " + err.Error()}
		}
		hs[id] = h
	}
	res := runSessions(c, hs, randOrder(c), nil)
	out := map[party.ID]*cmp.Config{}
	for id, r := range res.Results {
		if v, ok := r.(*cmp.Config); ok {
			out[id] = v
		}
	}
	return out, res
}

func cmpSign(c *Ctx, cfgs map[party.ID]*cmp.Config, signers party.IDSlice, msg []byte, sid []byte, label string, presign bool) {
	hs := map[party.ID]protocol.Handler{}
	kind := "cmp"
	if presign {
		kind = "cmp-presign"
	}
	pmode, plabel := presentMode(c)
	label += plabel
	for _, id := range signers {
		var st protocol.StartFunc
		if presign {
			st = cmp.Presign(cfgs[id], presented(c, signers, id, pmode), nil)
		} else {
			st = cmp.Sign(cfgs[id], presented(c, signers, id, pmode), msg, nil)
		}
		h, err := protocol.NewMultiHandler(st, sid)
		if err != nil {
			c.Emit("sign", J{"kind": kind, "label": label, "start_error": err.Error()}, J{"ok": true})
			return
		}
		hs[id] = h
	}
	res := runSessions(c, hs, randOrder(c), nil)
	if presign && res.Panic == "" {
		// online phase
		hs2 := map[party.ID]protocol.Handler{}
		preOf := res.Results
		for _, id := range signers {
			pre, ok := res.Results[id].(*ecdsa.PreSignature)
			if !ok {
				continue
			}
			h, err := protocol.NewMultiHandler(cmp.PresignOnline(cfgs[id], pre, msg, nil), sid)
			if err != nil {
				c.Emit("sign", J{"kind": kind, "label": label, "start_error": err.Error()}, J{"ok": true})
				return
			}
			hs2[id] = h
		}
		if len(hs2) == len(signers) {
			res = runSessions(c, hs2, randOrder(c), nil)
			if res.Panic == "" && len(res.Errors) == 0 && c.Intn(2) == 0 {
				// the online phase once more with the SAME in-memory presignatures and the same message (a retry after a
				// lost result): computing a signature share must not change the presignature it is computed from
				hs3 := map[party.ID]protocol.Handler{}
				for _, id := range signers {
					pre, _ := preOf[id].(*ecdsa.PreSignature)
					h, err := protocol.NewMultiHandler(cmp.PresignOnline(cfgs[id], pre, msg, nil), sid)
					if err != nil {
						c.Emit("sign", J{"kind": kind, "label": label + "+online-retry", "start_error": err.Error()}, J{"ok": true})
						return
					}
					hs3[id] = h
				}
				res = runSessions(c, hs3, randOrder(c), nil)
				label += "+online-retry"
			}
		}
	}
	sigs := []J{}
	for _, id := range signers {
		if r, ok := res.Results[id]; ok {
			if s, ok := r.(*ecdsa.Signature); ok {
				sigs = append(sigs, J{"id": hx([]byte(id)), "R": ptHex(s.R), "s": scHex(s.S)})
			}
		}
	}
	in := J{"kind": kind, "label": label, "msg": hx(msg), "signers": idsHex(signers), "sigs": sigs, "errors": errsJ(res),
		"pub": ptHex(cfgs[signers[0]].PublicPoint()), "expect": "complete"}
	var impl interface{} = J{"ok": true}
	if res.Panic != "" {
		impl = J{"outcome": "PANIC", "detail": res.Panic}
	}
	c.Emit("sign", in, impl)
	c.Count("sess/sign/" + kind)
}

// msgOfLen: message hashes of any non-zero length
func msgOfLen(c *Ctx) []byte {
	l := []int{32, 32, 32, 1, 20, 31, 33, 48, 64, 80}[c.Intn(10)]
	return c.Bytes(l)
}

func init() {
	// C02: key generation of every protocol, all thresholds, id sets short/long/non-ASCII
	register("sess-keygen", func(c *Ctx) {
		// all protocol randomness comes from crypto/rand.Reader: a seeded stream makes the sessions (and with them every
		// later seeded choice of the generator) reproducible
		seedCryptoRand(c.Seed*7919 + 1134)
		defer restoreCryptoRand()
		installPrimeHook(c.Intn(40))
		for i := 0; i < c.N; i++ {
			n := 2 + c.Intn(4)
			t := c.Intn(n)
			ids := genIDs(c, n)
			sid := c.Bytes(8)
			switch i % 4 {
			case 0:
				cf, _, res := frostKeygen(c, ids, t, false, sid)
				ps := []J{}
				for _, id := range ids {
					if cf[id] != nil {
						ps = append(ps, frostCfgJ(cf[id]))
					}
				}
				emitKeygen(c, "frost", ids, t, ps, res, nil)
			case 1:
				_, tf, res := frostKeygen(c, ids, t, true, sid)
				ps := []J{}
				for _, id := range ids {
					if tf[id] != nil {
						ps = append(ps, taprootCfgJ(tf[id]))
					}
				}
				emitKeygen(c, "frost-taproot", ids, t, ps, res, nil)
			case 2:
				ra, rb := ids[0], ids[1]
				if c.Intn(2) == 0 {
					ra, rb = rb, ra // the receiver's id sorts after the sender's
				}
				cr, cs, res := doernerKeygen(c, ra, rb, sid)
				emitKeygen(c, "doerner", ids[:2], 1, doernerJ(ra, rb, cr, cs), res, nil)
			case 3:
				if c.Tier != "thorough" && i > 8 {
					continue
				}
				if n > 3 {
					n = 3
					ids = ids[:3]
					t = c.Intn(3)
				}
				cf, res := cmpKeygen(c, ids, t, sid)
				ps := []J{}
				for _, id := range ids {
					if cf[id] != nil {
						ps = append(ps, cmpCfgJ(cf[id]))
					}
				}
				emitKeygen(c, "cmp", ids, t, ps, res, nil)
			}
		}
	})
	// C01: signing with fresh material, random non-prefix signer subsets, message hashes of many lengths
	register("sess-sign", func(c *Ctx) {
		// all protocol randomness comes from crypto/rand.Reader: a seeded stream makes the sessions (and with them every
		// later seeded choice of the generator) reproducible
		seedCryptoRand(c.Seed*7919 + 924)
		defer restoreCryptoRand()
		installPrimeHook(c.Intn(40))
		for i := 0; i < c.N; i++ {
			n := 2 + c.Intn(4)
			t := c.Intn(n)
			ids := genIDs(c, n)
			sid := c.Bytes(8)
			k := t + 1 + c.Intn(n-t)
			signers := subset(c, ids, k)
			msg := msgOfLen(c)
			switch i % 5 {
			case 0:
				cf, _, res := frostKeygen(c, ids, t, false, sid)
				if len(cf) == n {
					if len(signers) < n && c.Intn(2) == 0 {
						frostSign(c, cf, nil, ids, msgOfLen(c), c.Bytes(8), "fresh")
						frostSign(c, cf, nil, signers, msg, sid, "reused-after-full-set")
						continue
					}
					frostSign(c, cf, nil, signers, msg, sid, "fresh")
				} else {
					emitKeygen(c, "frost", ids, t, nil, res, nil)
				}
			case 1:
				_, tf, res := frostKeygen(c, ids, t, true, sid)
				if len(tf) == n {
					frostSign(c, nil, tf, signers, msg, sid, "fresh")
				} else {
					emitKeygen(c, "frost-taproot", ids, t, nil, res, nil)
				}
			case 2:
				ra, rb := ids[0], ids[1]
				if c.Intn(2) == 0 {
					ra, rb = rb, ra // the receiver's id sorts after the sender's
				}
				cr, cs, _ := doernerKeygen(c, ra, rb, sid)
				if cr != nil && cs != nil {
					doernerSign(c, ra, rb, cr, cs, msg, sid, "fresh")
					// the signing ids are free parameters: also the other order, and a digest longer than the group order
					doernerSign(c, rb, ra, cr, cs, c.Bytes([]int{33, 48, 64}[c.Intn(3)]), c.Bytes(8), "swapped-ids-long-digest")
				}
			case 3, 4:
				if c.Tier != "thorough" && i > 12 {
					continue
				}
				if n > 4 {
					n, ids = 4, ids[:4]
					t = c.Intn(n)
					signers = subset(c, ids, t+1+c.Intn(n-t))
				}
				cfgs, _ := test.GenerateConfig(secp, n, t, c.Rng, nil)
				// GenerateConfig uses its own ids
				gids := test.PartyIDs(n)
				gs := subset(c, gids, len(signers))
				if len(gs) < n && i%5 == 3 {
					// the same in-memory key material used twice: first by ALL parties, then by the proper subset
					// (anything a session caches on the config must not leak into the next one)
					cmpSign(c, cfgs, gids, msgOfLen(c), c.Bytes(8), "generated", false)
					cmpSign(c, cfgs, gs, msg, sid, "reused-after-full-set", false)
					continue
				}
				cmpSign(c, cfgs, gs, msg, sid, "generated", i%5 == 4)
			}
		}
	})
}

func frostSigZ(s frost.Signature) curve.Scalar { return s.VerifZ() }

// ---- refresh histories (C08) and derivation (C14) ---------------------------------------------------

type material struct {
	kind string
	ids  party.IDSlice
	t    int
	fr   map[party.ID]*frost.Config
	tp   map[party.ID]*frost.TaprootConfig
	cm   map[party.ID]*cmp.Config
	dr   *doerner.ConfigReceiver
	ds   *doerner.ConfigSender
}

func (m *material) dump() []J {
	ps := []J{}
	switch m.kind {
	case "frost":
		for _, id := range m.ids {
			if m.fr[id] != nil {
				ps = append(ps, frostCfgJ(m.fr[id]))
			}
		}
	case "frost-taproot":
		for _, id := range m.ids {
			if m.tp[id] != nil {
				ps = append(ps, taprootCfgJ(m.tp[id]))
			}
		}
	case "cmp":
		for _, id := range m.ids {
			if m.cm[id] != nil {
				ps = append(ps, cmpCfgJ(m.cm[id]))
			}
		}
	case "doerner":
		ps = doernerJ(m.ids[0], m.ids[1], m.dr, m.ds)
	}
	return ps
}

func (m *material) complete() bool {
	switch m.kind {
	case "frost":
		return len(m.fr) == len(m.ids)
	case "frost-taproot":
		return len(m.tp) == len(m.ids)
	case "cmp":
		return len(m.cm) == len(m.ids)
	}
	return m.dr != nil && m.ds != nil
}

func newMaterial(c *Ctx, kind string, n, t int, sid []byte) (*material, sessionResult) {
	m := &material{kind: kind, t: t}
	var res sessionResult
	switch kind {
	case "frost":
		m.ids = genIDs(c, n)
		m.fr, _, res = frostKeygen(c, m.ids, t, false, sid)
	case "frost-taproot":
		m.ids = genIDs(c, n)
		_, m.tp, res = frostKeygen(c, m.ids, t, true, sid)
	case "cmp":
		m.cm, m.ids = test.GenerateConfig(secp, n, t, c.Rng, nil)
	case "doerner":
		m.ids = genIDs(c, 2)
		if c.Intn(2) == 0 {
			// m.ids[0] is the receiver throughout: let it also be the party whose id sorts LAST
			m.ids = party.IDSlice{m.ids[1], m.ids[0]}
		}
		m.t = 1
		m.dr, m.ds, res = doernerKeygen(c, m.ids[0], m.ids[1], sid)
	}
	return m, res
}

func (m *material) refresh(c *Ctx, sid []byte) (*material, sessionResult) {
	return m.refreshBy(c, sid, m.ids)
}

// refreshBy: the refresh is run by `by` (all shareholders, or - FROST - a strict subset of at least t+1 of them: the
// parties left out keep an entry in the public table, which has to move with the new sharing)
func (m *material) refreshBy(c *Ctx, sid []byte, by party.IDSlice) (*material, sessionResult) {
	if len(by) < len(m.ids) && (m.kind == "frost" || m.kind == "frost-taproot") {
		sub := &material{kind: m.kind, ids: by, t: m.t, fr: m.fr, tp: m.tp}
		out := &material{kind: m.kind, ids: by, t: m.t}
		hs := map[party.ID]protocol.Handler{}
		for _, id := range by {
			var st protocol.StartFunc
			if m.kind == "frost" {
				st = frost.Refresh(sub.fr[id], by)
			} else {
				st = frost.RefreshTaproot(sub.tp[id], by)
			}
			h, err := protocol.NewMultiHandler(st, sid)
			if err != nil {
				return out, sessionResult{Panic: "refresh start: " + err.Error()}
			}
			hs[id] = h
		}
		res := runSessions(c, hs, randOrder(c), nil)
		out.fr, out.tp = map[party.ID]*frost.Config{}, map[party.ID]*frost.TaprootConfig{}
		for id, r := range res.Results {
			switch v := r.(type) {
			case *frost.Config:
				out.fr[id] = v
			case *frost.TaprootConfig:
				out.tp[id] = v
			}
		}
		if m.kind == "frost" {
			out.tp = nil
		} else {
			out.fr = nil
		}
		return out, res
	}
	out := &material{kind: m.kind, ids: m.ids, t: m.t}
	hs := map[party.ID]protocol.Handler{}
	var res sessionResult
	mk := func(id party.ID, st protocol.StartFunc) bool {
		h, err := protocol.NewMultiHandler(st, sid)
		if err != nil {
			res = sessionResult{Panic: "refresh start: " + err.Error()}
			return false
		}
		hs[id] = h
		return true
	}
	switch m.kind {
	case "frost":
		for _, id := range m.ids {
			if !mk(id, frost.Refresh(m.fr[id], m.ids)) {
				return out, res
			}
		}
		res = runSessions(c, hs, randOrder(c), nil)
		out.fr = map[party.ID]*frost.Config{}
		for id, r := range res.Results {
			if v, ok := r.(*frost.Config); ok {
				out.fr[id] = v
			}
		}
	case "frost-taproot":
		for _, id := range m.ids {
			if !mk(id, frost.RefreshTaproot(m.tp[id], m.ids)) {
				return out, res
			}
		}
		res = runSessions(c, hs, randOrder(c), nil)
		out.tp = map[party.ID]*frost.TaprootConfig{}
		for id, r := range res.Results {
			if v, ok := r.(*frost.TaprootConfig); ok {
				out.tp[id] = v
			}
		}
	case "cmp":
		for _, id := range m.ids {
			if !mk(id, cmp.Refresh(m.cm[id], nil)) {
				return out, res
			}
		}
		res = runSessions(c, hs, randOrder(c), nil)
		out.cm = map[party.ID]*cmp.Config{}
		for id, r := range res.Results {
			if v, ok := r.(*cmp.Config); ok {
				out.cm[id] = v
			}
		}
	case "doerner":
		a, b := m.ids[0], m.ids[1]
		hr, e1 := protocol.NewTwoPartyHandler(doerner.RefreshReceiver(m.dr, a, b, nil), sid, true)
		hsn, e2 := protocol.NewTwoPartyHandler(doerner.RefreshSender(m.ds, b, a, nil), sid, false)
		if e1 != nil || e2 != nil {
			return out, sessionResult{Panic: "refresh start failed"}
		}
		res = runSessions(c, map[party.ID]protocol.Handler{a: hr, b: hsn}, randOrder(c), nil)
		out.dr, _ = res.Results[a].(*doerner.ConfigReceiver)
		out.ds, _ = res.Results[b].(*doerner.ConfigSender)
	}
	return out, res
}

// sign with per-signer material taken from `own` (stale signers can be mixed in)
func signMixed(c *Ctx, kind string, pick func(id party.ID) *material, signers party.IDSlice, msg, sid []byte, label, expect string) {
	hs := map[party.ID]protocol.Handler{}
	var twoA, twoB party.ID
	startErr := ""
	res0 := Guard(func() interface{} {
		for i, id := range signers {
			m := pick(id)
			var h protocol.Handler
			var err error
			switch kind {
			case "frost":
				h, err = protocol.NewMultiHandler(frost.Sign(m.fr[id], signers, msg), sid)
			case "frost-taproot":
				h, err = protocol.NewMultiHandler(frost.SignTaproot(m.tp[id], signers, msg), sid)
			case "cmp":
				h, err = protocol.NewMultiHandler(cmp.Sign(m.cm[id], signers, msg, nil), sid)
			case "doerner":
				if i == 0 {
					twoA, twoB = signers[0], signers[1]
					h, err = protocol.NewTwoPartyHandler(doerner.SignReceiver(m.dr, twoA, twoB, msg, nil), sid, true)
				} else {
					h, err = protocol.NewTwoPartyHandler(doerner.SignSender(m.ds, twoB, twoA, msg, nil), sid, false)
				}
			}
			if err != nil {
				startErr = err.Error()
				return nil
			}
			hs[id] = h
		}
		return nil
	})
	if res0 != nil {
		c.Emit("sign", J{"kind": kind, "label": label}, res0)
		return
	}
	base := pick(signers[0])
	in := J{"kind": kind, "label": label, "msg": hx(msg), "signers": idsHex(signers), "expect": expect}
	switch kind {
	case "frost":
		in["pub"] = ptHex(base.fr[signers[0]].PublicKey)
	case "frost-taproot":
		in["xonly"] = hx(base.tp[signers[0]].PublicKey)
	case "cmp":
		in["pub"] = ptHex(base.cm[signers[0]].PublicPoint())
	case "doerner":
		in["pub"] = ptHex(base.dr.Public)
	}
	if startErr != "" {
		in["start_error"] = startErr
		in["sigs"] = []J{}
		in["errors"] = J{}
		if expect == "none" { // a refused start is a fine way of not producing a signature
			delete(in, "start_error")
			in["refused_at_start"] = startErr
		}
		c.Emit("sign", in, J{"ok": true})
		return
	}
	res := runSessions(c, hs, randOrder(c), nil)
	sigs := []J{}
	for _, id := range signers {
		r, ok := res.Results[id]
		if !ok {
			continue
		}
		switch v := r.(type) {
		case frost.Signature:
			sigs = append(sigs, J{"id": hx([]byte(id)), "R": ptHex(v.R), "z": scHex(frostSigZ(v))})
		case taproot.Signature:
			sigs = append(sigs, J{"id": hx([]byte(id)), "sig": hx(v)})
		case *ecdsa.Signature:
			sigs = append(sigs, J{"id": hx([]byte(id)), "R": ptHex(v.R), "s": scHex(v.S)})
		}
	}
	in["sigs"] = sigs
	in["errors"] = errsJ(res)
	var impl interface{} = J{"ok": true}
	if res.Panic != "" {
		impl = J{"outcome": "PANIC", "detail": res.Panic}
	}
	c.Emit("sign", in, impl)
	c.Count("sess/sign/" + kind + "/" + label)
}

func (m *material) derive(i uint32) (*material, string) {
	out := &material{kind: m.kind, ids: m.ids, t: m.t}
	var firstErr string
	note := func(err error) {
		if err != nil && firstErr == "" {
			firstErr = err.Error()
		}
	}
	switch m.kind {
	case "frost":
		out.fr = map[party.ID]*frost.Config{}
		for id, cfg := range m.fr {
			d, err := cfg.DeriveChild(i)
			note(err)
			if err == nil {
				out.fr[id] = d
			}
		}
	case "frost-taproot":
		out.tp = map[party.ID]*frost.TaprootConfig{}
		for id, cfg := range m.tp {
			d, err := cfg.DeriveChild(i)
			note(err)
			if err == nil {
				out.tp[id] = d
			}
		}
	case "cmp":
		out.cm = map[party.ID]*cmp.Config{}
		for id, cfg := range m.cm {
			d, err := cfg.DeriveBIP32(i)
			note(err)
			if err == nil {
				out.cm[id] = d
			}
		}
	case "doerner":
		var e1, e2 error
		out.dr, e1 = m.dr.DeriveBIP32(i)
		out.ds, e2 = m.ds.DeriveBIP32(i)
		note(e1)
		note(e2)
	}
	return out, firstErr
}

func kindsFor(c *Ctx, i int) (string, int, int) {
	kinds := []string{"frost", "frost-taproot", "doerner", "cmp"}
	k := kinds[i%4]
	n := 2 + c.Intn(3)
	if k == "cmp" && n > 3 {
		n = 3
	}
	t := c.Intn(n)
	if k == "doerner" {
		n, t = 2, 1
	}
	return k, n, t
}

func init() {
	register("sess-refresh", func(c *Ctx) {
		// all protocol randomness comes from crypto/rand.Reader: a seeded stream makes the sessions (and with them every
		// later seeded choice of the generator) reproducible
		seedCryptoRand(c.Seed*7919 + 1242)
		defer restoreCryptoRand()
		installPrimeHook(c.Intn(40))
		for i := 0; i < c.N; i++ {
			kind, n, t := kindsFor(c, i)
			if kind == "cmp" && c.Tier != "thorough" && i > 4 {
				continue
			}
			sid := c.Bytes(8)
			m0, res := newMaterial(c, kind, n, t, sid)
			if !m0.complete() {
				emitKeygen(c, kind, m0.ids, t, m0.dump(), res, nil)
				continue
			}
			cur := m0
			steps := 1 + c.Intn(2)
			if c.Tier == "thorough" {
				steps = 1 + c.Intn(3)
			}
			for s := 0; s < steps; s++ {
				before := cur.dump()
				by := cur.ids
				if (kind == "frost" || kind == "frost-taproot") && len(cur.ids) > cur.t+1 && c.Intn(2) == 0 {
					// a strict subset of the shareholders refreshes (at least t+1 of them)
					by = party.NewIDSlice(subset(c, cur.ids, cur.t+1+c.Intn(len(cur.ids)-cur.t-1)))
					sub := &material{kind: kind, ids: by, t: cur.t, fr: cur.fr, tp: cur.tp}
					before = sub.dump()
				}
				nxt, res := cur.refreshBy(c, c.Bytes(8), by)
				if len(by) < len(cur.ids) {
					cur = &material{kind: kind, ids: by, t: cur.t, fr: cur.fr, tp: cur.tp}
				}
				in := J{"kind": kind, "n": len(cur.ids), "t": cur.t, "ids": idsHex(cur.ids), "before": before, "parties": nxt.dump(),
					"before_reread": cur.dump(), "errors": errsJ(res), "step": s}
				var impl interface{} = J{"ok": true}
				if res.Panic != "" {
					impl = J{"outcome": "PANIC", "detail": res.Panic}
				}
				c.Emit("refresh", in, impl)
				c.Count("sess/refresh/" + kind)
				if !nxt.complete() {
					break
				}
				// signing with refreshed material succeeds …
				k := cur.t + 1 + c.Intn(len(cur.ids)-cur.t)
				signers := subset(c, cur.ids, k)
				if kind == "doerner" {
					signers = cur.ids
				}
				msg := msgOfLen(c)
				signMixed(c, kind, func(party.ID) *material { return nxt }, signers, msg, c.Bytes(8), "refreshed", "complete")
				// … and a session in which one signer still uses pre-refresh material never yields a signature
				if len(signers) >= 2 && (cur.t > 0 || kind == "doerner") { // with t = 0 the old share equals the new one
					stale := signers[c.Intn(len(signers))]
					old := cur
					signMixed(c, kind, func(id party.ID) *material {
						if id == stale {
							return old
						}
						return nxt
					}, signers, msg, c.Bytes(8), "stale-signer", "none")
				}
				cur = nxt
			}
		}
	})
	register("sess-derive", func(c *Ctx) {
		// all protocol randomness comes from crypto/rand.Reader: a seeded stream makes the sessions (and with them every
		// later seeded choice of the generator) reproducible
		seedCryptoRand(c.Seed*7919 + 1130)
		defer restoreCryptoRand()
		installPrimeHook(c.Intn(40))
		for i := 0; i < c.N; i++ {
			kind, n, t := kindsFor(c, i)
			if kind == "cmp" && c.Tier != "thorough" && i > 8 {
				continue
			}
			sid := c.Bytes(8)
			m0, res := newMaterial(c, kind, n, t, sid)
			// after key generation every party holds the same 32-byte chain key
			in := J{"kind": kind, "n": len(m0.ids), "t": m0.t, "ids": idsHex(m0.ids), "parties": m0.dump(), "errors": errsJ(res), "check": []string{"consistent", "chain"}}
			c.Emit("keygen", in, J{"ok": true})
			if !m0.complete() {
				continue
			}
			cur := m0
			depth := 1 + c.Intn(3)
			for d := 0; d < depth; d++ {
				idx := []uint32{0, 1, 2, 1<<31 - 1, uint32(c.Intn(1 << 31))}[c.Intn(5)]
				var nxt *material
				var derr string
				r := Guard(func() interface{} { nxt, derr = cur.derive(idx); return nil })
				if r != nil {
					c.Emit("derive", J{"kind": kind, "index": idx, "depth": d}, r)
					break
				}
				in := J{"kind": kind, "n": len(cur.ids), "t": cur.t, "ids": idsHex(cur.ids), "index": idx, "depth": d, "parent": cur.dump(),
					"parties": nxt.dump(), "derive_error": derr}
				c.Emit("derive", in, J{"ok": true})
				c.Count("sess/derive/" + kind)
				if derr != "" || !nxt.complete() {
					break
				}
				k := cur.t + 1 + c.Intn(len(cur.ids)-cur.t)
				signers := subset(c, cur.ids, k)
				if kind == "doerner" {
					signers = cur.ids
				}
				signMixed(c, kind, func(party.ID) *material { return nxt }, signers, msgOfLen(c), c.Bytes(8), "derived", "complete")
				cur = nxt
			}
		}
	})
}
