// Package main is the correspondence harness. It is compiled INSIDE the module
// github.com/taurusgroup/multi-party-sig through `go build -overlay` (see bin/mkoverlay),
// so that it can import internal/... packages, with /repo itself untouched.
//
// It runs suites of generated operations against the real implementation and writes one
// JSON line per operation: {"id":N,"suite":S,"op":O,"in":{...},"impl":{...}}.
// The Lean driver (lean/Driver.lean) reads the same lines and answers {"id":N,"model":{...}}.
package main

import (
	"bufio"
	"encoding/hex"
	"encoding/json"
	"flag"
	"fmt"
	"math/big"
	"math/rand"
	"os"
	"runtime/debug"
	"sort"
	"strings"
)

type J = map[string]interface{}

type Ctx struct {
	Rng   *rand.Rand
	N     int    // size knob (number of cases)
	Tier  string // quick | thorough
	Seed  int64
	suite string
	w     *bufio.Writer
	id    int
	Stats map[string]int
}

type Suite func(c *Ctx)

var suites = map[string]Suite{}

func register(name string, s Suite) { suites[name] = s }

// Emit writes one operation line.
func (c *Ctx) Emit(op string, in interface{}, impl interface{}) {
	c.id++
	line := J{"id": c.id, "suite": c.suite, "op": op, "in": in, "impl": impl}
	b, err := json.Marshal(line)
	if err != nil {
		panic(err)
	}
	c.w.Write(b)
	c.w.WriteByte('\n')
	c.w.Flush()
	c.Stats[c.suite+"/"+op]++
}

func (c *Ctx) Count(key string) { c.Stats[key]++ }

// Guard runs f and maps a panic to the outcome string "PANIC: ...".
func Guard(f func() interface{}) (res interface{}) {
	defer func() {
		if r := recover(); r != nil {
			st := string(debug.Stack())
			lines := strings.Split(st, "\n")
			loc := ""
			for i, l := range lines {
				if strings.Contains(l, "panic(") && i+3 < len(lines) {
					loc = strings.TrimSpace(lines[i+3])
					break
				}
			}
			res = J{"outcome": "PANIC", "detail": fmt.Sprint(r), "at": loc}
		}
	}()
	return f()
}

func hx(b []byte) string { return hex.EncodeToString(b) }
func unhx(s string) []byte {
	b, err := hex.DecodeString(s)
	if err != nil {
		panic(err)
	}
	return b
}
func bighex(x *big.Int) string {
	if x.Sign() < 0 {
		return "-" + new(big.Int).Neg(x).Text(16)
	}
	return x.Text(16)
}

func (c *Ctx) Bytes(n int) []byte {
	b := make([]byte, n)
	c.Rng.Read(b)
	return b
}

// Pick returns a random element index < n.
func (c *Ctx) Intn(n int) int { return c.Rng.Intn(n) }

func main() {
	suite := flag.String("suite", "", "suite name (comma separated)")
	seed := flag.Int64("seed", 1, "PRNG seed")
	n := flag.Int("n", 100, "size knob")
	tier := flag.String("tier", "quick", "quick|thorough")
	out := flag.String("out", "-", "output file")
	stats := flag.String("stats", "", "write generator statistics (JSON) here")
	list := flag.Bool("list", false, "list suites")
	flag.Parse()
	if *list {
		names := []string{}
		for k := range suites {
			names = append(names, k)
		}
		sort.Strings(names)
		fmt.Println(strings.Join(names, "\n"))
		return
	}
	var f *os.File = os.Stdout
	if *out != "-" {
		var err error
		f, err = os.Create(*out)
		if err != nil {
			panic(err)
		}
		defer f.Close()
	}
	w := bufio.NewWriterSize(f, 1<<20)
	st := map[string]int{}
	id := 0
	for _, name := range strings.Split(*suite, ",") {
		s, ok := suites[name]
		if !ok {
			fmt.Fprintf(os.Stderr, "unknown suite %q\n", name)
			os.Exit(2)
		}
		c := &Ctx{Rng: rand.New(rand.NewSource(*seed)), N: *n, Tier: *tier, Seed: *seed, suite: name, w: w, id: id, Stats: st}
		s(c)
		id = c.id
	}
	w.Flush()
	if *stats != "" {
		b, _ := json.MarshalIndent(st, "", " ")
		os.WriteFile(*stats, b, 0o644)
	}
}
