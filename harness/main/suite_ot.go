//go:build verif

package main

// Suite `ot` (C13): the OT stack of internal/ot driven layer by layer through the white-box
// accessors of harness/overlay/internal/ot/zz_verif_access.go.
//
//   bitat / transpose / accumulate / gadget / encode   deterministic pieces, recomputed bit-exactly
//   rot        one random OT with chosen (b, a, choice, nonce): every message and pad recomputed
//   setup      the correlated-OT setup (128 random OTs) with a logged random stream
//   corre / ext / additive / mul   the layers on ONE setup, each call with its own nonce; the
//              dump of every layer goes into "in", the Lean side recomputes it and judges the
//              relations (pads agree, q_j = t_j ^ x_j*Delta, choice pads, sums, alpha*beta)
//   alt        every single-field alteration of every OT message: the outcome must be an error on
//              the checking side or a still-correct product (judged by the model); a panic is a finding
//
// All randomness of the real code comes from crypto/rand.Reader, which is replaced by a logging
// stream derived from -seed, so the Lean model can be given the sampled values.

import (
	"sync"
	"bytes"
	crand "crypto/rand"
	"encoding/binary"
	"fmt"
	"io"
	"math/big"
	"math/rand"

	"github.com/cronokirby/saferith"
	"github.com/taurusgroup/multi-party-sig/internal/ot"
	"github.com/taurusgroup/multi-party-sig/internal/params"
	"github.com/taurusgroup/multi-party-sig/pkg/hash"
	"github.com/taurusgroup/multi-party-sig/pkg/math/curve"
)

var otGroup = curve.Secp256k1{}

type logReader struct {
	rng *rand.Rand
	log [][]byte
}

func (r *logReader) Read(p []byte) (int, error) {
	r.rng.Read(p)
	r.log = append(r.log, append([]byte{}, p...))
	return len(p), nil
}

func withRand(r io.Reader, f func()) {
	old := crand.Reader
	crand.Reader = r
	defer func() { crand.Reader = old }()
	f()
}

func newLogReader(seed int64) *logReader { return &logReader{rng: rand.New(rand.NewSource(seed))} }

func otOrder() *big.Int { return otGroup.Order().Big() }

func scFromBig(x *big.Int) curve.Scalar {
	v := new(big.Int).Mod(x, otOrder())
	return otGroup.NewScalar().SetNat(new(saferith.Nat).SetBig(v, 256))
}

func otScHex(s curve.Scalar) string {
	b, err := s.MarshalBinary()
	if err != nil {
		panic(err)
	}
	return hx(b)
}

func scBig(s curve.Scalar) *big.Int {
	b, _ := s.MarshalBinary()
	return new(big.Int).SetBytes(b)
}

func otPtHex(p curve.Point) string {
	b, err := p.MarshalBinary()
	if err != nil {
		panic(err)
	}
	return hx(b)
}

func feHex(f [4]uint64) string {
	b := make([]byte, 32)
	for i := 0; i < 4; i++ {
		binary.LittleEndian.PutUint64(b[8*i:], f[i])
	}
	return hx(b)
}

func feFrom(b []byte) (f [4]uint64) {
	for i := 0; i < 4; i++ {
		f[i] = binary.LittleEndian.Uint64(b[8*i:])
	}
	return
}

func hex16s(xs [][params.OTBytes]byte) []string {
	out := make([]string, len(xs))
	for i := range xs {
		out[i] = hx(xs[i][:])
	}
	return out
}

func hexArr128(xs [params.OTParam][params.OTBytes]byte) []string {
	out := make([]string, len(xs))
	for i := range xs {
		out[i] = hx(xs[i][:])
	}
	return out
}

func hexU(u [params.OTParam][]byte) []interface{} {
	out := make([]interface{}, len(u))
	for i := range u {
		if u[i] == nil {
			out[i] = nil
		} else {
			out[i] = hx(u[i])
		}
	}
	return out
}

func pairHex(xs [][2]curve.Scalar) [][]string {
	out := make([][]string, len(xs))
	for i := range xs {
		out[i] = []string{otScHex(xs[i][0]), otScHex(xs[i][1])}
	}
	return out
}

// the context hash of one call: hash.New() followed by one properly written item
func otCtx(nonce []byte) *hash.Hash {
	h := hash.New()
	_ = h.WriteAny(&hash.BytesWithDomain{TheDomain: "verif nonce", Bytes: nonce})
	return h
}

// scalar lattice of the property: 0, 1, q-1, q-2, 2^128 and random
func scalarLattice(c *Ctx) []*big.Int {
	q := otOrder()
	r := new(big.Int).Rand(c.Rng, q)
	return []*big.Int{big.NewInt(0), big.NewInt(1), new(big.Int).Sub(q, big.NewInt(1)), new(big.Int).Sub(q, big.NewInt(2)),
		new(big.Int).Lsh(big.NewInt(1), 128), r}
}

func choicePattern(c *Ctx, kind string, n int) []byte {
	b := make([]byte, n)
	switch kind {
	case "zero":
	case "one":
		for i := range b {
			b[i] = 0xff
		}
	case "alt":
		for i := range b {
			b[i] = 0xaa
		}
	case "alt2":
		for i := range b {
			b[i] = 0x55
		}
	default:
		c.Rng.Read(b)
	}
	return b
}

type otSetup struct {
	ss     *ot.CorreOTSendSetup
	rs     *ot.CorreOTReceiveSetup
	asJSON J
}

func setupJSON(ss *ot.CorreOTSendSetup, rs *ot.CorreOTReceiveSetup) J {
	delta, kd := ss.VerifDump()
	k0, k1 := rs.VerifDump()
	return J{"delta": hx(delta[:]), "kdelta": hexArr128(kd), "k0": hexArr128(k0), "k1": hexArr128(k1)}
}

// honest correlated-OT setup with a logged random stream; returns the two setups and what the
// model needs to recompute them
func runSetupLogged(seed int64, nonce []byte, alter func(stage int, msg interface{})) (st *otSetup, in J, err error, side string) {
	lr := newLogReader(seed)
	withRand(lr, func() {
		H := otCtx(nonce)
		sender := ot.NewCorreOTSetupSender(nil, H.Clone())
		receiver := ot.NewCorreOTSetupReceiver(nil, H.Clone(), otGroup)
		m1 := receiver.Round1()
		if alter != nil {
			alter(1, m1)
		}
		m2, e := sender.Round1(m1)
		if e != nil {
			err, side = e, "sender.Round1"
			return
		}
		if alter != nil {
			alter(2, m2)
		}
		m3, e := receiver.Round2(m2)
		if e != nil {
			err, side = e, "receiver.Round2"
			return
		}
		if alter != nil {
			alter(3, m3)
		}
		m4 := sender.Round2(m3)
		if alter != nil {
			alter(4, m4)
		}
		m5, rs, e := receiver.Round3(m4)
		if e != nil {
			err, side = e, "receiver.Round3"
			return
		}
		if alter != nil {
			alter(5, m5)
		}
		ss, e := sender.Round3(m5)
		if e != nil {
			err, side = e, "sender.Round3"
			return
		}
		st = &otSetup{ss: ss, rs: rs, asJSON: setupJSON(ss, rs)}
		if alter == nil {
			// log layout: b (32), Schnorr nonce (32), Delta (16), a_0 .. a_127 (32 each)
			if len(lr.log) != 3+params.OTParam || len(lr.log[0]) != 32 || len(lr.log[2]) != params.OTBytes {
				panic(fmt.Sprintf("unexpected random-stream layout: %d reads", len(lr.log)))
			}
			as := make([]string, params.OTParam)
			for i := 0; i < params.OTParam; i++ {
				as[i] = hx(lr.log[3+i])
			}
			abytes := make([]string, params.OTParam)
			chal := make([]string, params.OTParam)
			resp := make([]string, params.OTParam)
			d0 := make([]string, params.OTParam)
			d1 := make([]string, params.OTParam)
			for i := 0; i < params.OTParam; i++ {
				abytes[i] = hx(m2.Msgs[i].ABytes)
				chal[i] = hx(m3.Msgs[i].Challenge[:])
				resp[i] = hx(m4.Msgs[i].Response[:])
				d0[i] = hx(m5.Msgs[i].Decommit0[:])
				d1[i] = hx(m5.Msgs[i].Decommit1[:])
			}
			in = J{"nonce": hx(nonce), "b": hx(lr.log[0]), "delta": hx(lr.log[2]), "as": as,
				"B": otPtHex(m1.Msg.B), "proofC": otPtHex(m1.Msg.BProof.C.C),
				"dump": J{"setup": st.asJSON, "abytes": abytes, "challenge": chal, "response": resp, "d0": d0, "d1": d1}}
		}
	})
	return
}

type mulRun struct {
	choices  []byte
	mr       *ot.MultiplyReceiveRound1Message
	ms       *ot.MultiplySendRound1Message
	shareS   curve.Scalar
	shareR   curve.Scalar
	err      error
	side     string
	log      [][]byte
	gadget   []curve.Scalar
	receiver *ot.MultiplyReceiver
}

// one multiplication on the given setup; alterR / alterS may modify the receiver's / the sender's message
func runMul(st *otSetup, nonce []byte, alpha, beta curve.Scalar, seed int64,
	alterR func(m *ot.MultiplyReceiveRound1Message), alterS func(m *ot.MultiplySendRound1Message)) (res mulRun) {
	lr := newLogReader(seed)
	withRand(lr, func() {
		H := otCtx(nonce)
		sender := ot.NewMultiplySender(H.Clone(), st.ss, otGroup.NewScalar().Set(alpha))
		receiver, e := ot.NewMultiplyReceiver(H.Clone(), st.rs, otGroup.NewScalar().Set(beta))
		if e != nil {
			res.err, res.side = e, "NewMultiplyReceiver"
			return
		}
		res.receiver = receiver
		res.gadget = receiver.VerifGadget()
		res.choices = append([]byte{}, receiver.VerifChoices()...)
		mr := receiver.Round1()
		res.mr = mr
		if alterR != nil {
			alterR(mr)
		}
		ms, shareS, e := sender.Round1(mr)
		if e != nil {
			res.err, res.side = e, "sender.Round1"
			return
		}
		res.ms, res.shareS = ms, shareS
		if alterS != nil {
			alterS(ms)
		}
		shareR, e := receiver.Round2(ms)
		if e != nil {
			res.err, res.side = e, "receiver.Round2"
			return
		}
		res.shareR = shareR
	})
	res.log = lr.log
	return
}

func combinedHex(m *ot.AdditiveOTSendRound1Message) [][]string {
	out := make([][]string, len(m.CombinedPads))
	for i := range m.CombinedPads {
		out[i] = []string{hx(m.CombinedPads[i][0]), hx(m.CombinedPads[i][1])}
	}
	return out
}

func otScalarsHex(xs []curve.Scalar) []string {
	out := make([]string, len(xs))
	for i := range xs {
		out[i] = otScHex(xs[i])
	}
	return out
}

func cloneCombined(m *ot.AdditiveOTSendRound1Message) [][]string { return combinedHex(m) }

func init() { register("ot", suiteOT) }

// otHonestFailed: an HONEST run of a layer returned an error. The error is handed to the model as the observation; the
// implementation side of the comparison is the claim (honest runs complete and satisfy the relation), which the model
// denies on seeing the error - so the difference shows in the property fields, not only in the error text.
func otHonestFailed(c *Ctx, op string, in J, err string, fields ...string) {
	in["obsErr"] = err
	impl := J{"recomputed": true, "err": ""}
	for _, f := range fields {
		impl[f] = true
	}
	c.Emit(op, in, impl)
}

func suiteOT(c *Ctx) {
	otDeterministic(c)
	otRandomOT(c)
	st := otSetupOps(c)
	otLayers(c, st)
	otMultiply(c, st)
	for i := 0; i < 3; i++ {
		otMultiplySeq(c, st)
		otMultiplyConc(c, st)
	}
	otAlterations(c, st)
}

// ---------------------------------------------------------------------------------------------
// deterministic pieces

func otDeterministic(c *Ctx) {
	n := c.N
	// bitAt
	for k := 0; k < 4*n; k++ {
		l := 1 + c.Intn(40)
		data := c.Bytes(l)
		if c.Intn(4) == 0 {
			for i := range data {
				data[i] = []byte{0, 0xff, 0x80, 0x01}[c.Intn(4)]
			}
		}
		i := c.Intn(8 * l)
		if c.Intn(6) == 0 {
			i = []int{0, 7, 8, 8*l - 1, 8*l - 8}[c.Intn(5)]
			if i > 8*l-1 {
				i = 8*l - 1
			}
		}
		c.Emit("bitat", J{"i": i, "data": hx(data)}, J{"bit": int(ot.VerifBitAt(i, data))})
	}
	// transposeBits
	nt := 2 + n/25
	for k := 0; k < nt; k++ {
		lb := []int{1, 2, 16, 26, 110, 5}[k%6]
		var M [params.OTParam][]byte
		kind := k % 5
		for j := 0; j < params.OTParam; j++ {
			M[j] = make([]byte, lb)
			switch kind {
			case 0:
				c.Rng.Read(M[j])
			case 1: // "identity": bit j of column j
				if j < 8*lb {
					M[j][j>>3] = 1 << (j & 7)
				}
			case 2: // a single set bit
			case 3:
				for i := range M[j] {
					M[j][i] = 0xff
				}
			case 4:
				if j%2 == 0 {
					c.Rng.Read(M[j])
				}
			}
		}
		if kind == 2 {
			M[c.Intn(params.OTParam)][c.Intn(lb)] = 1 << c.Intn(8)
		}
		cols := make([]string, params.OTParam)
		for j := range M {
			cols[j] = hx(M[j])
		}
		rows := ot.VerifTransposeBits(8*lb, &M)
		c.Emit("transpose", J{"l": 8 * lb, "cols": cols}, J{"rows": hex16s(rows)})
	}
	// accumulate
	special := [][]byte{make([]byte, 16), allBytes(16, 0xff), oneBit(16, 0), oneBit(16, 127), oneBit(16, 63), oneBit(16, 64), allBytes(16, 0xaa)}
	pick := func() [16]byte {
		var out [16]byte
		if c.Intn(3) == 0 {
			copy(out[:], special[c.Intn(len(special))])
		} else {
			c.Rng.Read(out[:])
		}
		return out
	}
	for k := 0; k < 2*n; k++ {
		a, b := pick(), pick()
		var f [4]uint64
		if c.Intn(2) == 0 {
			for i := range f {
				f[i] = c.Rng.Uint64()
			}
		}
		g := ot.VerifAccumulate(f, a, b)
		c.Emit("accumulate", J{"f": feHex(f), "a": hx(a[:]), "b": hx(b[:])}, J{"f": feHex(g)})
	}
	// Fork with a BytesWithDomain: nil bytes are refused by WriteTo and the error is dropped by Fork
	for k, d := range []string{"CorreOT PRG Key", "CorreOT Random OT Nonces", "Multiply Gadget Sampling", "Multiply Chi Sampling", "x"} {
		nonce := c.Bytes(8)
		H := otCtx(nonce)
		base := H.Clone().Sum()
		var in J
		var forked []byte
		if k%5 == 4 {
			in = J{"nonce": hx(nonce), "domain": d, "bytes": ""}
			forked = H.Fork(&hash.BytesWithDomain{TheDomain: d, Bytes: []byte{}}).Sum()
		} else {
			in = J{"nonce": hx(nonce), "domain": d, "bytes": nil}
			forked = H.Fork(&hash.BytesWithDomain{TheDomain: d, Bytes: nil}).Sum()
		}
		c.Emit("fork", in, J{"sum": hx(forked), "same_as_clone": hx(forked) == hx(base)})
	}
	// makeGadget on several contexts
	for k := 0; k < 2+n/100; k++ {
		nonce := c.Bytes(8 + c.Intn(24))
		g := ot.VerifMakeGadget(otCtx(nonce), otGroup)
		c.Emit("gadget", J{"nonce": hx(nonce)}, J{"gadget": otScalarsHex(g), "scalarBytes": ot.VerifScalarBytes(otGroup)})
	}
	// encode with chosen gamma
	lat := scalarLattice(c)
	for k := 0; k < len(lat)+n/20; k++ {
		var beta *big.Int
		if k < len(lat) {
			beta = lat[k]
		} else {
			beta = new(big.Int).Rand(c.Rng, otOrder())
		}
		nn := []int{416, 8, 16, 0, 416}[k%5]
		noise := make([]curve.Scalar, nn)
		for i := range noise {
			if c.Intn(10) == 0 {
				noise[i] = scFromBig(lat[c.Intn(len(lat))])
			} else {
				noise[i] = scFromBig(new(big.Int).Rand(c.Rng, otOrder()))
			}
		}
		gamma := choicePattern(c, []string{"rand", "zero", "one", "alt", "rand"}[k%5], nn/8)
		var out []byte
		var err error
		withRand(&constReader{gamma}, func() { out, err = ot.VerifEncode(scFromBig(beta), noise) })
		if err != nil {
			panic(err)
		}
		c.Emit("encode", J{"beta": otScHex(scFromBig(beta)), "noise": otScalarsHex(noise), "gamma": hx(gamma)}, J{"choices": hx(out)})
	}
}

func allBytes(n int, v byte) []byte {
	b := make([]byte, n)
	for i := range b {
		b[i] = v
	}
	return b
}

func oneBit(n, i int) []byte {
	b := make([]byte, n)
	b[i>>3] = 1 << (i & 7)
	return b
}

// ---------------------------------------------------------------------------------------------
// one random OT

func otRandomOT(c *Ctx) {
	lat := scalarLattice(c)
	cnt := 6 + c.N/40
	for k := 0; k < cnt; k++ {
		bBig := new(big.Int).Rand(c.Rng, otOrder())
		aBig := new(big.Int).Rand(c.Rng, otOrder())
		if k < len(lat) && lat[k].Sign() != 0 {
			aBig = lat[k]
		}
		if bBig.Sign() == 0 {
			bBig = big.NewInt(7)
		}
		choice := k % 2
		nonce := c.Bytes(32)
		abuf := make([]byte, 32)
		aBig.FillBytes(abuf)
		res := Guard(func() interface{} {
			sendSetup, recvSetup := ot.VerifRandomOTSendSetup(scFromBig(bBig))
			var out J
			withRand(&constReader{abuf}, func() {
				recv := ot.NewRandomOTReceiver(nonce, recvSetup, saferith.Choice(choice))
				send := ot.NewRandomOTSender(nonce, sendSetup)
				r1, err := recv.Round1()
				if err != nil {
					out = J{"err": "recv.Round1"}
					return
				}
				s1, err := send.Round1(&r1)
				if err != nil {
					out = J{"err": "send.Round1"}
					return
				}
				r2 := recv.Round2(&s1)
				s2, sres, err := send.Round2(&r2)
				if err != nil {
					out = J{"err": "send.Round2"}
					return
				}
				rc, err := recv.Round3(&s2)
				if err != nil {
					out = J{"err": "recv.Round3"}
					return
				}
				agree := rc == sres.Rand0
				if choice == 1 {
					agree = rc == sres.Rand1
				}
				out = J{"err": "", "abytes": hx(r1.ABytes), "challenge": hx(s1.Challenge[:]), "response": hx(r2.Response[:]),
					"d0": hx(s2.Decommit0[:]), "d1": hx(s2.Decommit1[:]), "rc": hx(rc[:]), "r0": hx(sres.Rand0[:]), "r1": hx(sres.Rand1[:]),
					"agree": agree}
			})
			return out
		})
		c.Emit("rot", J{"b": otScHex(scFromBig(bBig)), "a": otScHex(scFromBig(aBig)), "choice": choice, "nonce": hx(nonce)}, res)
	}
}

// ---------------------------------------------------------------------------------------------
// correlated-OT setup

func otSetupOps(c *Ctx) *otSetup {
	var first *otSetup
	cnt := 1
	if c.Tier == "thorough" {
		cnt = 3
	}
	for k := 0; k < cnt; k++ {
		nonce := c.Bytes(16)
		st, in, err, side := runSetupLogged(c.Rng.Int63(), nonce, nil)
		if err != nil {
			otHonestFailed(c, "setup", J{"nonce": hx(nonce)}, side+": "+err.Error(), "rel")
			continue
		}
		c.Emit("setup", in, J{"recomputed": true, "rel": true, "err": ""})
		if first == nil {
			first = st
		}
	}
	if first == nil {
		panic("no honest setup succeeded")
	}
	return first
}

// ---------------------------------------------------------------------------------------------
// the layers on one setup, distinct nonces

func otLayers(c *Ctx, st *otSetup) {
	kinds := []string{"zero", "one", "alt", "alt2", "rand", "rand"}
	sizes := []int{16, 1, 11, 84}
	idx := 0
	// correlated OT
	for _, kind := range kinds {
		nb := sizes[idx%len(sizes)]
		idx++
		choices := choicePattern(c, kind, nb)
		nonce := c.Bytes(12)
		H := otCtx(nonce)
		msg, rres := ot.CorreOTReceive(H.Clone(), st.rs, choices)
		sres, err := ot.CorreOTSend(H.Clone(), st.ss, 8*nb, msg)
		if err != nil {
			otHonestFailed(c, "corre", J{"nonce": hx(nonce)}, err.Error(), "rel")
			continue
		}
		_, Q := sres.VerifDump()
		c.Emit("corre", J{"nonce": hx(nonce), "setup": st.asJSON, "choices": hx(choices), "kind": kind,
			"dump": J{"U": hexU(msg.U), "T": hex16s(rres.VerifDump()), "Q": hex16s(Q)}},
			J{"recomputed": true, "rel": true, "err": ""})
	}
	// extended OT
	for _, kind := range kinds {
		nb := sizes[idx%len(sizes)]
		idx++
		// the choice vector is a sub-slice of a larger caller buffer (as when several batches are carved out of one
		// allocation): nothing behind the vector may be touched
		cbuf := make([]byte, nb+64)
		copy(cbuf, choicePattern(c, kind, nb))
		for i := nb; i < len(cbuf); i++ {
			cbuf[i] = 0xa5
		}
		choices := cbuf[:nb]
		nonce := c.Bytes(12)
		H := otCtx(nonce)
		lr := newLogReader(c.Rng.Int63())
		var msg *ot.ExtendedOTReceiveMessage
		var rres *ot.ExtendedOTReceiveResult
		var sres *ot.ExtendedOTSendResult
		var err error
		withRand(lr, func() {
			msg, rres = ot.ExtendedOTReceive(H.Clone(), st.rs, choices)
			sres, err = ot.ExtendedOTSend(H.Clone(), st.ss, 8*nb, msg)
		})
		if err != nil {
			otHonestFailed(c, "ext", J{"nonce": hx(nonce), "kind": kind}, err.Error(), "check", "choice")
			continue
		}
		V0, V1 := sres.VerifDump()
		c.Emit("ext", J{"nonce": hx(nonce), "setup": st.asJSON, "choices": hx(choices), "kind": kind, "extra": hx(lr.log[0]),
			"dump": J{"U": hexU(msg.CorreMsg.U), "X": hx(msg.X[:]), "T": feHex([4]uint64(msg.T)),
				"V0": hex16s(V0), "V1": hex16s(V1), "VC": hex16s(rres.VerifDump())}},
			J{"recomputed": true, "check": bytes.Equal(cbuf[nb:], bytes.Repeat([]byte{0xa5}, 64)), "choice": true, "err": ""})
	}
	// a batch of more than 2^16 transfers (the row counter hashed into every pad needs its upper bytes): the relation
	// "the receiver's pad is the sender's pad for its choice bit" is judged by the model on the first rows and on the rows
	// around 2^16 and at the end
	{
		nb := 8193 + c.Intn(24)
		choices := choicePattern(c, "random", nb)
		H := otCtx(c.Bytes(12))
		var msg *ot.ExtendedOTReceiveMessage
		var rres *ot.ExtendedOTReceiveResult
		var sres *ot.ExtendedOTSendResult
		var err error
		pan := Guard(func() interface{} {
			withRand(newLogReader(c.Rng.Int63()), func() {
				msg, rres = ot.ExtendedOTReceive(H.Clone(), st.rs, choices)
				sres, err = ot.ExtendedOTSend(H.Clone(), st.ss, 8*nb, msg)
			})
			return nil
		})
		rows := []J{}
		obsErr := ""
		if pj, isJ := pan.(J); isJ && pj["outcome"] != nil {
			obsErr = fmt.Sprint(pj)
		} else if err != nil {
			obsErr = err.Error()
		} else {
			V0, V1 := sres.VerifDump()
			VC := rres.VerifDump()
			h0, h1, hc := hex16s(V0), hex16s(V1), hex16s(VC)
			for i := 0; i < 8*nb && i < len(h0) && i < len(h1) && i < len(hc); i++ {
				if i < 8 || (i >= 65528 && i < 65552) || i >= 8*nb-8 {
					rows = append(rows, J{"i": i, "v0": h0[i], "v1": h1[i], "vc": hc[i]})
				}
			}
		}
		c.Emit("extbig", J{"batch": 8 * nb, "choices": hx(choices), "rows": rows, "obsErr": obsErr}, J{"choice": true})
	}
	// additive OT
	lat := scalarLattice(c)
	addSizes := []int{16, 5, 11, 84, 1, 4}
	for k, kind := range kinds {
		nb := addSizes[k%len(addSizes)]
		choices := choicePattern(c, kind, nb)
		nonce := c.Bytes(12)
		H := otCtx(nonce)
		var alpha [2]curve.Scalar
		alpha[0] = scFromBig(lat[k%len(lat)])
		alpha[1] = scFromBig(lat[(k+3)%len(lat)])
		a0, a1 := otScHex(alpha[0]), otScHex(alpha[1])
		lr := newLogReader(c.Rng.Int63())
		var sres ot.AdditiveOTSendResult
		var rres ot.AdditiveOTReceiveResult
		var err error
		var comb [][]string
		pan := Guard(func() interface{} {
			withRand(lr, func() {
				sender := ot.NewAdditiveOTSender(H.Clone(), st.ss, 8*nb, alpha)
				receiver := ot.NewAdditiveOTReceiver(H.Clone(), st.rs, otGroup, choices)
				m1 := receiver.Round1()
				var m2 *ot.AdditiveOTSendRound1Message
				m2, sres, err = sender.Round1(m1)
				if err != nil {
					return
				}
				comb = combinedHex(m2) // before Round2 masks the pads in place
				rres, err = receiver.Round2(m2)
			})
			return nil
		})
		if pan != nil {
			// an honest run that panics: reported as it is (the model says the run completes)
			c.Emit("additive", J{"nonce": hx(nonce), "kind": kind, "batch": 8 * nb, "honest": true}, pan)
			continue
		}
		if err != nil {
			otHonestFailed(c, "additive", J{"nonce": hx(nonce), "kind": kind}, err.Error(), "sum")
			continue
		}
		c.Emit("additive", J{"nonce": hx(nonce), "setup": st.asJSON, "choices": hx(choices), "kind": kind, "extra": hx(lr.log[0]),
			"alpha0": a0, "alpha1": a1, "batch": 8 * nb,
			"dump": J{"combined": comb, "send": pairHex(sres), "recv": pairHex(rres)}},
			J{"recomputed": true, "sum": true, "err": ""})
	}
}

// ---------------------------------------------------------------------------------------------
// multiplication

func mulDump(r mulRun) J {
	em := r.mr.Msg.Msg
	return J{"choices": hx(r.choices), "U": hexU(em.CorreMsg.U), "X": hx(em.X[:]), "T": feHex([4]uint64(em.T)),
		"rcheck": otScalarsHex(r.ms.RCheck), "ucheck": otScHex(r.ms.UCheck), "shareS": otScHex(r.shareS), "shareR": otScHex(r.shareR)}
}

func otMultiply(c *Ctx, st *otSetup) {
	lat := scalarLattice(c)
	type pair struct{ a, b *big.Int }
	pairs := []pair{}
	for _, a := range lat {
		for _, b := range lat {
			pairs = append(pairs, pair{a, b})
		}
	}
	extra := c.N / 40
	if c.Tier == "thorough" {
		extra = c.N / 10
	}
	for k := 0; k < extra; k++ {
		pairs = append(pairs, pair{new(big.Int).Rand(c.Rng, otOrder()), new(big.Int).Rand(c.Rng, otOrder())})
	}
	for k, p := range pairs {
		nonce := append([]byte("mul"), byte(k), byte(k>>8))
		nonce = append(nonce, c.Bytes(8)...)
		alpha, beta := scFromBig(p.a), scFromBig(p.b)
		var comb [][]string
		r := runMul(st, nonce, alpha, beta, c.Rng.Int63(), nil, func(m *ot.MultiplySendRound1Message) { comb = combinedHex(m.Msg) })
		in := J{"nonce": hx(nonce), "setup": st.asJSON, "alpha": otScHex(alpha), "beta": otScHex(beta)}
		if r.err != nil {
			otHonestFailed(c, "mul", in, r.side+": "+r.err.Error(), "sum")
			continue
		}
		if len(r.log) != 3 || len(r.log[0]) != 32 || len(r.log[1]) != 52 || len(r.log[2]) != 26 {
			panic(fmt.Sprintf("unexpected random-stream layout in multiply: %d reads", len(r.log)))
		}
		in["alpha1"] = hx(r.log[0])
		in["gamma"] = hx(r.log[1])
		in["extra"] = hx(r.log[2])
		d := mulDump(r)
		d["combined"] = comb
		in["dump"] = d
		c.Emit("mul", in, J{"recomputed": true, "sum": true, "err": ""})
	}
}

// ---------------------------------------------------------------------------------------------
// alterations

type altCase struct {
	stage string // setup | mul
	msg   string
	field string
	index int
	alter string
}

// otMultiplySeq: several multiplications on ONE setup in which each party feeds its own RUNNING context hash (not a
// clone) into every multiplication, as a protocol does that keeps one transcript per party: the two transcripts must stay
// in step, so every multiplication of the sequence must succeed and give shares that add up to the product.
func otMultiplySeq(c *Ctx, st *otSetup) {
	lat := scalarLattice(c)
	nonce := c.Bytes(12)
	Hs, Hr := otCtx(nonce), otCtx(nonce)
	runs := []J{}
	errStr := ""
	withRand(newLogReader(c.Rng.Int63()), func() {
		for k := 0; k < 3 && errStr == ""; k++ {
			alpha, beta := scFromBig(lat[c.Intn(len(lat))]), scFromBig(lat[c.Intn(len(lat))])
			sender := ot.NewMultiplySender(Hs, st.ss, otGroup.NewScalar().Set(alpha))
			receiver, e := ot.NewMultiplyReceiver(Hr, st.rs, otGroup.NewScalar().Set(beta))
			if e != nil {
				errStr = fmt.Sprintf("use %d: NewMultiplyReceiver: %v", k+1, e)
				break
			}
			ms, shareS, e := sender.Round1(receiver.Round1())
			if e != nil {
				errStr = fmt.Sprintf("use %d: sender.Round1: %v", k+1, e)
				break
			}
			shareR, e := receiver.Round2(ms)
			if e != nil {
				errStr = fmt.Sprintf("use %d: receiver.Round2: %v", k+1, e)
				break
			}
			runs = append(runs, J{"alpha": otScHex(alpha), "beta": otScHex(beta), "shareS": otScHex(shareS), "shareR": otScHex(shareR)})
		}
	})
	// the observation (the dumped shares of every use and the error, if any) is handed to the model, which judges it; the
	// implementation's side of the comparison is the claim itself: an honest sequence never aborts and every use adds up
	c.Emit("mulseq", J{"nonce": hx(nonce), "runs": runs, "uses": 3, "obsErr": errStr}, J{"sum": true, "err": ""})
}

// otMultiplyConc: multiplications on ONE setup running CONCURRENTLY (parallel signing sessions of one key), each with its
// own nonce and context hashes: every one must succeed and add up. The random source is the system's (the interleaving is
// not reproducible anyway); the model judges the dumped shares.
func otMultiplyConc(c *Ctx, st *otSetup) {
	lat := scalarLattice(c)
	const workers, rounds = 8, 4
	type one struct {
		run J
		err string
	}
	results := make([][]one, workers)
	alphas := make([][2]curve.Scalar, workers*rounds)
	for i := range alphas {
		alphas[i] = [2]curve.Scalar{scFromBig(lat[c.Intn(len(lat))]), scFromBig(lat[c.Intn(len(lat))])}
	}
	nonces := make([][]byte, workers*rounds)
	for i := range nonces {
		nonces[i] = c.Bytes(12)
	}
	start := make(chan struct{})
	var wg sync.WaitGroup
	for w := 0; w < workers; w++ {
		w := w
		wg.Add(1)
		go func() {
			defer wg.Done()
			defer func() {
				if r := recover(); r != nil {
					results[w] = append(results[w], one{err: fmt.Sprintf("worker %d: PANIC %v", w, r)})
				}
			}()
			<-start
			for k := 0; k < rounds; k++ {
				i := w*rounds + k
				alpha, beta := alphas[i][0], alphas[i][1]
				sender := ot.NewMultiplySender(otCtx(nonces[i]), st.ss, otGroup.NewScalar().Set(alpha))
				receiver, e := ot.NewMultiplyReceiver(otCtx(nonces[i]), st.rs, otGroup.NewScalar().Set(beta))
				if e != nil {
					results[w] = append(results[w], one{err: fmt.Sprintf("worker %d use %d: NewMultiplyReceiver: %v", w, k+1, e)})
					return
				}
				ms, shareS, e := sender.Round1(receiver.Round1())
				if e != nil {
					results[w] = append(results[w], one{err: fmt.Sprintf("worker %d use %d: sender.Round1: %v", w, k+1, e)})
					return
				}
				shareR, e := receiver.Round2(ms)
				if e != nil {
					results[w] = append(results[w], one{err: fmt.Sprintf("worker %d use %d: receiver.Round2: %v", w, k+1, e)})
					return
				}
				results[w] = append(results[w], one{run: J{"alpha": otScHex(alpha), "beta": otScHex(beta), "shareS": otScHex(shareS), "shareR": otScHex(shareR)}})
			}
		}()
	}
	close(start)
	wg.Wait()
	runs := []J{}
	errStr := ""
	for _, rs := range results {
		for _, r := range rs {
			if r.err != "" {
				if errStr == "" {
					errStr = r.err
				}
			} else {
				runs = append(runs, r.run)
			}
		}
	}
	c.Emit("mulseq", J{"concurrent": workers, "runs": runs, "uses": workers * rounds, "obsErr": errStr}, J{"sum": true, "err": ""})
}

func flipBit(b []byte, i int) {
	if len(b) > 0 {
		b[(i>>3)%len(b)] ^= 1 << (i & 7)
	}
}

func otAlterations(c *Ctx, st *otSetup) {
	alpha := scFromBig(new(big.Int).Rand(c.Rng, otOrder()))
	beta := scFromBig(new(big.Int).Rand(c.Rng, otOrder()))
	want := new(big.Int).Mul(scBig(alpha), scBig(beta))
	want.Mod(want, otOrder())
	_ = want

	// --- a second honest run ("another run") to copy fields from
	otherSeed := c.Rng.Int63()
	otherNonce := c.Bytes(12)
	var otherComb [][2][]byte
	other := runMul(st, otherNonce, scFromBig(big.NewInt(12345)), scFromBig(big.NewInt(67890)), otherSeed, nil,
		func(m *ot.MultiplySendRound1Message) {
			otherComb = make([][2][]byte, len(m.Msg.CombinedPads))
			for i := range m.Msg.CombinedPads {
				otherComb[i][0] = append([]byte{}, m.Msg.CombinedPads[i][0]...)
				otherComb[i][1] = append([]byte{}, m.Msg.CombinedPads[i][1]...)
			}
		})
	if other.err != nil {
		panic("honest reference multiplication failed: " + other.err.Error())
	}

	seed := c.Rng.Int63()
	nonce := c.Bytes(12)
	base := runMul(st, nonce, alpha, beta, seed, nil, nil)
	if base.err != nil {
		panic("honest base multiplication failed: " + base.err.Error())
	}
	nGadget := len(base.gadget)
	// indices: first, last, one random; for pads one index with choice bit 0 and one with 1
	idxs := []int{0, nGadget - 1, c.Intn(nGadget)}
	c0, c1 := -1, -1
	for i := 0; i < nGadget; i++ {
		bit := (base.choices[i>>3] >> (i & 7)) & 1
		if bit == 0 && c0 < 0 {
			c0 = i
		}
		if bit == 1 && c1 < 0 {
			c1 = i
		}
	}
	padIdx := []int{c0, c1, nGadget - 1, 32, c.Intn(nGadget)}
	colIdx := []int{0, params.OTParam - 1, c.Intn(params.OTParam)}
	if c.Tier == "thorough" {
		for k := 0; k < 12; k++ {
			idxs = append(idxs, c.Intn(nGadget))
			padIdx = append(padIdx, c.Intn(nGadget))
			colIdx = append(colIdx, c.Intn(params.OTParam))
		}
	}

	emit := func(ac altCase, r mulRun, pan interface{}) {
		in := J{"stage": ac.stage, "msg": ac.msg, "field": ac.field, "index": ac.index, "alter": ac.alter,
			"alpha": otScHex(alpha), "beta": otScHex(beta)}
		if pan != nil {
			in["outcome"] = "panic"
			c.Emit("alt", in, pan)
			c.Count("ot/alt/panic")
			return
		}
		if r.err != nil {
			in["outcome"] = "error"
			in["side"] = r.side
			in["err"] = r.err.Error()
			c.Count("ot/alt/error:" + r.side)
		} else {
			in["outcome"] = "completed"
			in["shareS"] = otScHex(r.shareS)
			in["shareR"] = otScHex(r.shareR)
			c.Count("ot/alt/completed")
		}
		c.Emit("alt", in, J{"ok": true})
	}

	runAlt := func(ac altCase, alterR func(m *ot.MultiplyReceiveRound1Message), alterS func(m *ot.MultiplySendRound1Message)) {
		var r mulRun
		pan := Guard(func() interface{} {
			r = runMul(st, nonce, alpha, beta, seed, alterR, alterS)
			return nil
		})
		emit(ac, r, pan)
	}

	// ---- receiver -> sender: MultiplyReceiveRound1Message { Msg{ Msg{ CorreMsg{U[128]}, X, T } } }
	oU := other.mr.Msg.Msg.CorreMsg.U
	for _, i := range colIdx {
		i := i
		for _, a := range []string{"flip", "flip-last", "other-run", "zero", "truncate", "extend", "nil", "empty"} {
			a := a
			runAlt(altCase{"mul", "MultiplyReceiveRound1Message", "U", i, a}, func(m *ot.MultiplyReceiveRound1Message) {
				u := m.Msg.Msg.CorreMsg.U
				switch a {
				case "flip":
					flipBit(u[i], c.Intn(8*len(u[i])))
				case "flip-last":
					flipBit(u[i], 8*len(u[i])-1)
				case "other-run":
					u[i] = append([]byte{}, oU[i]...)
				case "zero":
					u[i] = make([]byte, len(u[i]))
				case "truncate":
					u[i] = u[i][:len(u[i])-1]
				case "extend":
					u[i] = append(u[i], 0)
				case "nil":
					u[i] = nil
				case "empty":
					u[i] = []byte{}
				}
				m.Msg.Msg.CorreMsg.U = u
			}, nil)
		}
	}
	for _, a := range []string{"flip", "other-run", "zero"} {
		a := a
		runAlt(altCase{"mul", "MultiplyReceiveRound1Message", "X", 0, a}, func(m *ot.MultiplyReceiveRound1Message) {
			switch a {
			case "flip":
				flipBit(m.Msg.Msg.X[:], c.Intn(128))
			case "other-run":
				m.Msg.Msg.X = other.mr.Msg.Msg.X
			case "zero":
				m.Msg.Msg.X = [params.OTBytes]byte{}
			}
		}, nil)
		runAlt(altCase{"mul", "MultiplyReceiveRound1Message", "T", 0, a}, func(m *ot.MultiplyReceiveRound1Message) {
			switch a {
			case "flip":
				m.Msg.Msg.T[c.Intn(4)] ^= 1 << uint(c.Intn(64))
			case "other-run":
				m.Msg.Msg.T = other.mr.Msg.Msg.T
			case "zero":
				for k := range m.Msg.Msg.T {
					m.Msg.Msg.T[k] = 0
				}
			}
		}, nil)
	}
	for _, f := range []string{"Msg", "Msg.Msg", "Msg.Msg.CorreMsg"} {
		f := f
		runAlt(altCase{"mul", "MultiplyReceiveRound1Message", f, 0, "nil"}, func(m *ot.MultiplyReceiveRound1Message) {
			switch f {
			case "Msg":
				m.Msg = nil
			case "Msg.Msg":
				m.Msg.Msg = nil
			case "Msg.Msg.CorreMsg":
				m.Msg.Msg.CorreMsg = nil
			}
		}, nil)
	}

	// ---- sender -> receiver: MultiplySendRound1Message { Msg{ CombinedPads[][2][]byte }, RCheck[], UCheck }
	for _, i := range padIdx {
		i := i
		for k := 0; k < 2; k++ {
			k := k
			for _, a := range []string{"flip", "other-run", "zero", "truncate", "extend", "nil", "order"} {
				a := a
				runAlt(altCase{"mul", "MultiplySendRound1Message", fmt.Sprintf("CombinedPads[%d]", k), i, a}, nil, func(m *ot.MultiplySendRound1Message) {
					p := m.Msg.CombinedPads[i][k]
					switch a {
					case "flip":
						flipBit(p, 8*31+c.Intn(8)) // low byte: stays a canonical scalar
					case "other-run":
						p = append([]byte{}, otherComb[i][k]...)
					case "zero":
						p = make([]byte, len(p))
					case "truncate":
						p = p[:len(p)-1]
					case "extend":
						p = append(append([]byte{}, p...), 0)
					case "nil":
						p = nil
					case "order": // not a canonical scalar: the group order itself
						p = otOrder().FillBytes(make([]byte, 32))
					}
					m.Msg.CombinedPads[i][k] = p
				})
			}
		}
	}
	for _, a := range []string{"truncate", "extend", "nil", "empty"} {
		a := a
		runAlt(altCase{"mul", "MultiplySendRound1Message", "CombinedPads", 0, a}, nil, func(m *ot.MultiplySendRound1Message) {
			switch a {
			case "truncate":
				m.Msg.CombinedPads = m.Msg.CombinedPads[:len(m.Msg.CombinedPads)-1]
			case "extend":
				m.Msg.CombinedPads = append(m.Msg.CombinedPads, m.Msg.CombinedPads[0])
			case "nil":
				m.Msg.CombinedPads = nil
			case "empty":
				m.Msg.CombinedPads = [][2][]byte{}
			}
		})
		runAlt(altCase{"mul", "MultiplySendRound1Message", "RCheck", 0, a}, nil, func(m *ot.MultiplySendRound1Message) {
			switch a {
			case "truncate":
				m.RCheck = m.RCheck[:len(m.RCheck)-1]
			case "extend":
				m.RCheck = append(m.RCheck, m.RCheck[0])
			case "nil":
				m.RCheck = nil
			case "empty":
				m.RCheck = []curve.Scalar{}
			}
		})
	}
	for _, i := range idxs {
		i := i
		for _, a := range []string{"plus-one", "other-run", "zero", "nil"} {
			a := a
			runAlt(altCase{"mul", "MultiplySendRound1Message", "RCheck[i]", i, a}, nil, func(m *ot.MultiplySendRound1Message) {
				switch a {
				case "plus-one":
					m.RCheck[i] = otGroup.NewScalar().Set(m.RCheck[i]).Add(scFromBig(big.NewInt(1)))
				case "other-run":
					m.RCheck[i] = other.ms.RCheck[i]
				case "zero":
					m.RCheck[i] = otGroup.NewScalar()
				case "nil":
					m.RCheck[i] = nil
				}
			})
		}
	}
	for _, a := range []string{"plus-one", "other-run", "zero", "nil"} {
		a := a
		runAlt(altCase{"mul", "MultiplySendRound1Message", "UCheck", 0, a}, nil, func(m *ot.MultiplySendRound1Message) {
			switch a {
			case "plus-one":
				m.UCheck = otGroup.NewScalar().Set(m.UCheck).Add(scFromBig(big.NewInt(1)))
			case "other-run":
				m.UCheck = other.ms.UCheck
			case "zero":
				m.UCheck = otGroup.NewScalar()
			case "nil":
				m.UCheck = nil
			}
		})
	}
	runAlt(altCase{"mul", "MultiplySendRound1Message", "Msg", 0, "nil"}, nil, func(m *ot.MultiplySendRound1Message) { m.Msg = nil })

	// ---- the five setup messages; a completed altered setup is followed by one multiplication
	setupSeed := c.Rng.Int63()
	setupNonce := c.Bytes(16)
	otherSt, _, err, _ := runSetupLogged(c.Rng.Int63(), c.Bytes(16), nil)
	if err != nil {
		panic(err)
	}
	_ = otherSt
	// messages of another honest setup run, captured through the alter hook
	var o1 *ot.CorreOTSetupReceiveRound1Message
	var o2 *ot.CorreOTSetupSendRound1Message
	var o3 *ot.CorreOTSetupReceiveRound2Message
	var o4 *ot.CorreOTSetupSendRound2Message
	var o5 *ot.CorreOTSetupReceiveRound3Message
	_, _, err, _ = runSetupLogged(c.Rng.Int63(), c.Bytes(16), func(stage int, msg interface{}) {
		switch stage {
		case 1:
			o1 = msg.(*ot.CorreOTSetupReceiveRound1Message)
		case 2:
			o2 = msg.(*ot.CorreOTSetupSendRound1Message)
		case 3:
			o3 = msg.(*ot.CorreOTSetupReceiveRound2Message)
		case 4:
			o4 = msg.(*ot.CorreOTSetupSendRound2Message)
		case 5:
			o5 = msg.(*ot.CorreOTSetupReceiveRound3Message)
		}
	})
	if err != nil {
		panic(err)
	}

	runSetupAlt := func(ac altCase, alter func(stage int, msg interface{})) {
		var r mulRun
		pan := Guard(func() interface{} {
			st2, _, e, side := runSetupLogged(setupSeed, setupNonce, alter)
			if e != nil {
				r.err, r.side = e, side
				return nil
			}
			r = runMul(st2, nonce, alpha, beta, seed, nil, nil)
			return nil
		})
		emit(ac, r, pan)
	}

	for _, a := range []string{"other-run", "identity", "generator"} {
		a := a
		runSetupAlt(altCase{"setup", "CorreOTSetupReceiveRound1Message", "B", 0, a}, func(stage int, msg interface{}) {
			if stage != 1 {
				return
			}
			m := msg.(*ot.CorreOTSetupReceiveRound1Message)
			switch a {
			case "other-run":
				m.Msg.B = o1.Msg.B
			case "identity":
				m.Msg.B = otGroup.NewPoint()
			case "generator":
				m.Msg.B = otGroup.NewBasePoint()
			}
		})
	}
	for _, a := range []string{"other-run", "nil", "C-other", "Z-plus-one"} {
		a := a
		runSetupAlt(altCase{"setup", "CorreOTSetupReceiveRound1Message", "BProof", 0, a}, func(stage int, msg interface{}) {
			if stage != 1 {
				return
			}
			m := msg.(*ot.CorreOTSetupReceiveRound1Message)
			switch a {
			case "other-run":
				m.Msg.BProof = o1.Msg.BProof
			case "nil":
				m.Msg.BProof = nil
			case "C-other":
				m.Msg.BProof.C = o1.Msg.BProof.C
			case "Z-plus-one":
				m.Msg.BProof.Z.Z = otGroup.NewScalar().Set(m.Msg.BProof.Z.Z).Add(scFromBig(big.NewInt(1)))
			}
		})
	}
	for _, i := range colIdx {
		i := i
		for _, a := range []string{"flip", "flip-prefix", "other-run", "zero", "truncate", "extend", "nil"} {
			a := a
			runSetupAlt(altCase{"setup", "CorreOTSetupSendRound1Message", "ABytes", i, a}, func(stage int, msg interface{}) {
				if stage != 2 {
					return
				}
				m := msg.(*ot.CorreOTSetupSendRound1Message)
				p := m.Msgs[i].ABytes
				switch a {
				case "flip":
					flipBit(p, 8+c.Intn(8*32))
				case "flip-prefix":
					p[0] ^= 1 // 02 <-> 03: the negated point, still on the curve
				case "other-run":
					p = append([]byte{}, o2.Msgs[i].ABytes...)
				case "zero":
					p = make([]byte, len(p))
				case "truncate":
					p = p[:len(p)-1]
				case "extend":
					p = append(p, 0)
				case "nil":
					p = nil
				}
				m.Msgs[i].ABytes = p
			})
		}
		for _, a := range []string{"flip", "other-run", "zero"} {
			a := a
			alt16 := func(dst *[params.OTBytes]byte, src [params.OTBytes]byte) {
				switch a {
				case "flip":
					flipBit(dst[:], c.Intn(128))
				case "other-run":
					*dst = src
				case "zero":
					*dst = [params.OTBytes]byte{}
				}
			}
			runSetupAlt(altCase{"setup", "CorreOTSetupReceiveRound2Message", "Challenge", i, a}, func(stage int, msg interface{}) {
				if stage == 3 {
					alt16(&msg.(*ot.CorreOTSetupReceiveRound2Message).Msgs[i].Challenge, o3.Msgs[i].Challenge)
				}
			})
			runSetupAlt(altCase{"setup", "CorreOTSetupSendRound2Message", "Response", i, a}, func(stage int, msg interface{}) {
				if stage == 4 {
					alt16(&msg.(*ot.CorreOTSetupSendRound2Message).Msgs[i].Response, o4.Msgs[i].Response)
				}
			})
			runSetupAlt(altCase{"setup", "CorreOTSetupReceiveRound3Message", "Decommit0", i, a}, func(stage int, msg interface{}) {
				if stage == 5 {
					alt16(&msg.(*ot.CorreOTSetupReceiveRound3Message).Msgs[i].Decommit0, o5.Msgs[i].Decommit0)
				}
			})
			runSetupAlt(altCase{"setup", "CorreOTSetupReceiveRound3Message", "Decommit1", i, a}, func(stage int, msg interface{}) {
				if stage == 5 {
					alt16(&msg.(*ot.CorreOTSetupReceiveRound3Message).Msgs[i].Decommit1, o5.Msgs[i].Decommit1)
				}
			})
		}
		runSetupAlt(altCase{"setup", "CorreOTSetupReceiveRound3Message", "Decommit0<->Decommit1", i, "swap"}, func(stage int, msg interface{}) {
			if stage == 5 {
				m := msg.(*ot.CorreOTSetupReceiveRound3Message)
				m.Msgs[i].Decommit0, m.Msgs[i].Decommit1 = m.Msgs[i].Decommit1, m.Msgs[i].Decommit0
			}
		})
	}
}
