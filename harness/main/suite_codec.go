//go:build verif

package main

// Suite `codec` (C15, shared with C05): every result type produced by REAL runs is encoded with the documented
// encoder, restored into a fresh template, compared (re-encoding equality), judged against the validity rules
// (own Go predicates here; the same facts are judged again by the Lean model Mps.Codec) and USED in a follow-up
// session together with the other parties' original material. Then every field path of the encoding's CBOR
// tree x the malformation list, and seeded random byte corruptions, are restored: the decoder must report an
// error or yield an object that satisfies the validity rules - never an invalid object, never a silently empty
// one, never a panic / hang / runaway allocation.

import (
	"bytes"
	"encoding/binary"
	"fmt"
	"math/rand"
	"runtime"
	"sort"
	"time"

	"github.com/fxamacker/cbor/v2"
	"github.com/taurusgroup/multi-party-sig/pkg/ecdsa"
	"github.com/taurusgroup/multi-party-sig/pkg/math/curve"
	"github.com/taurusgroup/multi-party-sig/pkg/math/polynomial"
	"github.com/taurusgroup/multi-party-sig/pkg/math/sample"
	"github.com/taurusgroup/multi-party-sig/pkg/paillier"
	"github.com/taurusgroup/multi-party-sig/pkg/party"
	"github.com/taurusgroup/multi-party-sig/pkg/pedersen"
	"github.com/taurusgroup/multi-party-sig/pkg/protocol"
	"github.com/taurusgroup/multi-party-sig/protocols/cmp"
	"github.com/taurusgroup/multi-party-sig/protocols/doerner"
	"github.com/taurusgroup/multi-party-sig/protocols/frost"
)

type codecType struct {
	name     string
	original []byte
	decode   func(b []byte) (interface{}, error)
	encode   func(x interface{}) ([]byte, error)
	describe func(x interface{}) J      // facts about the restored object, rule by rule
	use      func(x interface{}) string // follow-up session with the restored object: "ok" or what went wrong
	empty    []byte                     // encoding of the untouched template (a restored object equal to it is silently empty)
}

// family: the type name without its instance suffix ("protocol.Message(frost/…)" -> "protocol.Message")
func (t *codecType) family() string {
	for i, ch := range t.name {
		if ch == '(' || ch == '/' {
			return t.name[:i]
		}
	}
	return t.name
}

func ptOK(p curve.Point) bool  { return p != nil && !p.IsIdentity() }
func scOK(s curve.Scalar) bool { return s != nil && !s.IsZero() }

func idList(ids []party.ID) []string {
	out := make([]string, len(ids))
	for i, id := range ids {
		out[i] = hx([]byte(id))
	}
	sort.Strings(out)
	return out
}

func describeCmp(x interface{}) J {
	c := x.(*cmp.Config)
	rules := J{}
	rules["group"] = c.Group != nil
	rules["secrets-nonzero"] = scOK(c.ECDSA) && scOK(c.ElGamal)
	rules["paillier-secret"] = c.Paillier != nil && paillier.ValidatePrime(c.Paillier.P()) == nil && paillier.ValidatePrime(c.Paillier.Q()) == nil
	rules["rid"] = c.RID.Validate() == nil
	rules["chainkey"] = len(c.ChainKey) == 0 || c.ChainKey.Validate() == nil
	ids := []party.ID{}
	pts, mods, ped := true, true, true
	for id, p := range c.Public {
		ids = append(ids, id)
		if p == nil {
			pts, mods, ped = false, false, false
			continue
		}
		pts = pts && ptOK(p.ECDSA) && ptOK(p.ElGamal)
		if p.Paillier == nil || paillier.ValidateN(p.Paillier.N()) != nil {
			mods = false
		}
		if p.Pedersen == nil || pedersen.ValidateParameters(p.Pedersen.N(), p.Pedersen.S(), p.Pedersen.T()) != nil ||
			p.Paillier == nil || p.Pedersen.N().Big().Cmp(p.Paillier.N().Big()) != 0 {
			ped = false
		}
	}
	rules["points-not-identity"] = pts
	rules["moduli-2048-odd"] = mods
	rules["pedersen-valid"] = ped
	self := c.Public[c.ID]
	rules["self-consistent"] = self != nil && c.ECDSA != nil && c.ElGamal != nil && self.ECDSA != nil && self.ElGamal != nil &&
		self.ECDSA.Equal(c.ECDSA.ActOnBase()) && self.ElGamal.Equal(c.ElGamal.ActOnBase()) &&
		c.Paillier != nil && self.Paillier != nil && self.Paillier.N().Big().Cmp(c.Paillier.N().Big()) == 0
	return J{"rules": rules, "thr": c.Threshold, "ids": idList(ids), "self": hx([]byte(c.ID))}
}

func describeFrost(x interface{}) J {
	c := x.(*frost.Config)
	rules := J{}
	rules["secrets-nonzero"] = scOK(c.PrivateShare)
	rules["public-key"] = ptOK(c.PublicKey)
	rules["chainkey"] = len(c.ChainKey) == 0 || len(c.ChainKey) == 32
	ids := []party.ID{}
	pts := c.VerificationShares != nil
	if c.VerificationShares != nil {
		for id, p := range c.VerificationShares.Points {
			ids = append(ids, id)
			pts = pts && ptOK(p)
		}
	}
	rules["points-not-identity"] = pts
	rules["self-consistent"] = pts && c.PrivateShare != nil && c.VerificationShares.Points[c.ID] != nil &&
		c.VerificationShares.Points[c.ID].Equal(c.PrivateShare.ActOnBase())
	return J{"rules": rules, "thr": c.Threshold, "ids": idList(ids), "self": hx([]byte(c.ID))}
}

func describeTaproot(x interface{}) J {
	c := x.(*frost.TaprootConfig)
	rules := J{}
	rules["secrets-nonzero"] = c.PrivateShare != nil && !c.PrivateShare.IsZero()
	_, err := curve.Secp256k1{}.LiftX(c.PublicKey)
	rules["public-key"] = len(c.PublicKey) == 32 && err == nil
	rules["chainkey"] = len(c.ChainKey) == 0 || len(c.ChainKey) == 32
	ids := []party.ID{}
	pts := c.VerificationShares != nil
	for id, p := range c.VerificationShares {
		ids = append(ids, id)
		pts = pts && p != nil && !p.IsIdentity()
	}
	rules["points-not-identity"] = pts
	rules["self-consistent"] = pts && c.PrivateShare != nil && c.VerificationShares[c.ID] != nil &&
		c.VerificationShares[c.ID].Equal(c.PrivateShare.ActOnBase())
	return J{"rules": rules, "thr": c.Threshold, "ids": idList(ids), "self": hx([]byte(c.ID))}
}

func describeDoernerR(x interface{}) J {
	c := x.(*doerner.ConfigReceiver)
	setupEnc, _ := cbor.Marshal(c.Setup)
	return J{"rules": J{"secrets-nonzero": scOK(c.SecretShare), "public-key": ptOK(c.Public), "chainkey": len(c.ChainKey) == 0 || len(c.ChainKey) == 32,
		"ot-setup": c.Setup != nil && len(setupEnc) > 64}, "thr": 1, "ids": []string{"61", "62"}, "self": "61"}
}

func describeDoernerS(x interface{}) J {
	c := x.(*doerner.ConfigSender)
	setupEnc, _ := cbor.Marshal(c.Setup)
	return J{"rules": J{"secrets-nonzero": scOK(c.SecretShare), "public-key": ptOK(c.Public), "chainkey": len(c.ChainKey) == 0 || len(c.ChainKey) == 32,
		"ot-setup": c.Setup != nil && len(setupEnc) > 64}, "thr": 1, "ids": []string{"61", "62"}, "self": "62"}
}

func describePresig(x interface{}) J {
	s := x.(*ecdsa.PreSignature)
	rules := J{}
	rules["rid"] = s.ID.Validate() == nil
	rules["secrets-nonzero"] = scOK(s.KShare) && scOK(s.ChiShare)
	rules["public-key"] = ptOK(s.R)
	ids := []party.ID{}
	pts := s.RBar != nil && s.S != nil
	if pts {
		pts = len(s.RBar.Points) == len(s.S.Points)
		for id, p := range s.RBar.Points {
			ids = append(ids, id)
			pts = pts && ptOK(p) && ptOK(s.S.Points[id])
		}
	}
	rules["points-not-identity"] = pts
	self := ""
	if len(ids) > 0 {
		self = idList(ids)[0]
	}
	return J{"rules": rules, "thr": len(ids) - 1, "ids": idList(ids), "self": self}
}

func describeSig(x interface{}) J {
	s := x.(*ecdsa.Signature)
	return J{"rules": J{"public-key": ptOK(s.R), "secrets-nonzero": scOK(s.S)}, "thr": 0, "ids": []string{"61"}, "self": "61"}
}

func describeMsg(x interface{}) J {
	m := x.(*protocol.Message)
	// a wire message carries no key material: the handlers' CanAccept judges its header; here only "not silently empty" applies
	_ = m
	return J{"rules": J{}, "thr": 0, "ids": []string{"61"}, "self": "61"}
}

func describeExponent(x interface{}) J {
	e := x.(*polynomial.Exponent)
	deg := e.Degree()
	ok := true
	func() {
		defer func() {
			if recover() != nil {
				ok = false
			}
		}()
		one := curve.Secp256k1{}.NewScalar().SetNat(sample.ModN(rand.New(rand.NewSource(1)), curve.Secp256k1{}.Order()))
		_ = e.Evaluate(one)
		_ = e.Constant()
	}()
	return J{"rules": J{"usable": ok, "degree": deg >= 0 || e.IsConstant}, "thr": 0, "ids": []string{"61"}, "self": "61"}
}

func rulesHold(d J) bool {
	for _, v := range d["rules"].(J) {
		if v != true {
			return false
		}
	}
	ids := d["ids"].([]string)
	thr := d["thr"].(int)
	selfIn := false
	for i, id := range ids {
		if id == d["self"] {
			selfIn = true
		}
		if i > 0 && ids[i-1] == id {
			return false
		}
		if id == "" {
			return false
		}
	}
	return selfIn && thr >= 0 && thr < len(ids)
}

func cborDecodeInto(mk func() interface{}) func(b []byte) (interface{}, error) {
	return func(b []byte) (interface{}, error) {
		x := mk()
		if err := cbor.Unmarshal(b, x); err != nil {
			return nil, err
		}
		return x, nil
	}
}

func cborEncode(x interface{}) ([]byte, error) { return cbor.Marshal(x) }

// useWith: run fn with the restored object in the place of party self's material.
func useWith(c *Ctx, m *robustMaterial, fn string, set func(p *startParams)) string {
	p := baseStart(m, fn, m.ids[0])
	set(p)
	sid := []byte("codec-use")
	h, level, detail := tryStart(p, sid)
	if level != "ok" {
		return "start: " + level + " " + detail
	}
	r := runStarted(c, m, p, h, sid)
	if r.outcome != "ok" {
		return r.outcome + ": " + r.detail
	}
	return "ok"
}

func codecTypes(c *Ctx, m *robustMaterial) []codecType {
	g := m.group
	a := m.ids[0]
	must := func(b []byte, err error) []byte {
		if err != nil {
			panic(err)
		}
		return b
	}
	var out []codecType
	// cmp.Config: cbor.Marshal (as in the repository's tests) and MarshalBinary
	out = append(out, codecType{name: "cmp.Config/cbor", original: must(cbor.Marshal(m.cmp[a])),
		decode: cborDecodeInto(func() interface{} { return cmp.EmptyConfig(g) }), encode: cborEncode, describe: describeCmp,
		empty: nil,
		use: func(x interface{}) string {
			return useWith(c, m, "cmp.Sign", func(p *startParams) { p.cmpCfg = x.(*cmp.Config) })
		}})
	out = append(out, codecType{name: "cmp.Config/binary", original: must(m.cmp[a].MarshalBinary()),
		decode: func(b []byte) (interface{}, error) {
			x := cmp.EmptyConfig(g)
			if err := x.UnmarshalBinary(b); err != nil {
				return nil, err
			}
			return x, nil
		},
		encode:   func(x interface{}) ([]byte, error) { return x.(*cmp.Config).MarshalBinary() },
		describe: describeCmp})
	out = append(out, codecType{name: "frost.Config", original: must(cbor.Marshal(m.frost[a])),
		decode: cborDecodeInto(func() interface{} { return frost.EmptyConfig(g) }), encode: cborEncode, describe: describeFrost,
		empty: must(cbor.Marshal(frost.EmptyConfig(g))),
		use: func(x interface{}) string {
			return useWith(c, m, "frost.Sign", func(p *startParams) { p.frCfg = x.(*frost.Config) })
		}})
	out = append(out, codecType{name: "frost.TaprootConfig", original: must(cbor.Marshal(m.tap[a])),
		decode: cborDecodeInto(func() interface{} { return &frost.TaprootConfig{} }), encode: cborEncode, describe: describeTaproot,
		empty: must(cbor.Marshal(&frost.TaprootConfig{})),
		use: func(x interface{}) string {
			return useWith(c, m, "frost.SignTaproot", func(p *startParams) { p.tapCfg = x.(*frost.TaprootConfig) })
		}})
	out = append(out, codecType{name: "doerner.ConfigReceiver", original: must(cbor.Marshal(m.dR)),
		decode: cborDecodeInto(func() interface{} { return doerner.EmptyConfigReceiver(g) }), encode: cborEncode, describe: describeDoernerR,
		empty: must(cbor.Marshal(doerner.EmptyConfigReceiver(g))),
		use: func(x interface{}) string {
			return useWith(c, m, "doerner.SignReceiver", func(p *startParams) { p.dR = x.(*doerner.ConfigReceiver) })
		}})
	out = append(out, codecType{name: "doerner.ConfigSender", original: must(cbor.Marshal(m.dS)),
		decode: cborDecodeInto(func() interface{} { return doerner.EmptyConfigSender(g) }), encode: cborEncode, describe: describeDoernerS,
		empty: must(cbor.Marshal(doerner.EmptyConfigSender(g))),
		use: func(x interface{}) string {
			return useWith(c, m, "doerner.SignSender", func(p *startParams) { p.dS = x.(*doerner.ConfigSender) })
		}})
	out = append(out, codecType{name: "ecdsa.PreSignature", original: must(cbor.Marshal(m.presig[a])),
		decode: cborDecodeInto(func() interface{} { return ecdsa.EmptyPreSignature(g) }), encode: cborEncode, describe: describePresig,
		empty: must(cbor.Marshal(ecdsa.EmptyPreSignature(g))),
		use: func(x interface{}) string {
			return useWith(c, m, "cmp.PresignOnline", func(p *startParams) { p.presig = x.(*ecdsa.PreSignature) })
		}})
	out = append(out, codecType{name: "ecdsa.Signature", original: must(cbor.Marshal(m.sig)),
		decode: cborDecodeInto(func() interface{} { s := ecdsa.EmptySignature(g); return &s }), encode: cborEncode, describe: describeSig,
		empty: must(cbor.Marshal(ecdsa.EmptySignature(g))),
		use: func(x interface{}) string {
			if x.(*ecdsa.Signature).Verify(m.cmp[a].PublicPoint(), m.sigMsg) {
				return "ok"
			}
			return "restored signature does not verify"
		}})
	// wire messages: one of each protocol seen while the material was produced
	seen := map[string]bool{}
	wires := []*protocol.Message{}
	// the one kind of wire message an honest run never shows: the round-0 abort notice a handler emits on Stop() or on a
	// detected deviation (both handler types)
	if h, err := protocol.NewMultiHandler(frost.Keygen(g, m.ids[0], m.ids, m.t), []byte("codec-abort")); err == nil {
		go h.Stop()
		for x := range h.Listen() {
			if x.RoundNumber == 0 {
				wires = append(wires, x)
			}
		}
	}
	if h, err := protocol.NewTwoPartyHandler(doerner.Keygen(g, true, m.ids[0], m.ids[1], nil), []byte("codec-abort"), true); err == nil {
		go h.Stop()
		for x := range h.Listen() {
			if x.RoundNumber == 0 {
				wires = append(wires, x)
			}
		}
	}
	wires = append(wires, m.wire...)
	for _, w := range wires {
		key := fmt.Sprintf("%s/%d/%v", w.Protocol, w.RoundNumber, w.Broadcast)
		if seen[key] || len(seen) >= 8 {
			continue
		}
		seen[key] = true
		w := w
		out = append(out, codecType{name: "protocol.Message(" + key + ")", original: must(w.MarshalBinary()),
			decode: func(b []byte) (interface{}, error) {
				x := &protocol.Message{}
				if err := x.UnmarshalBinary(b); err != nil {
					return nil, err
				}
				return x, nil
			},
			encode:   func(x interface{}) ([]byte, error) { return x.(*protocol.Message).MarshalBinary() },
			describe: describeMsg,
			empty:    must((&protocol.Message{}).MarshalBinary())})
	}
	// polynomial.Exponent and party.PointMap (parts of wire messages and configs with their own binary decoders)
	poly := polynomial.NewPolynomial(g, 2, sample.Scalar(rand.New(rand.NewSource(c.Seed)), g))
	out = append(out, codecType{name: "polynomial.Exponent", original: must(polynomial.NewPolynomialExponent(poly).MarshalBinary()),
		decode: func(b []byte) (interface{}, error) {
			x := polynomial.EmptyExponent(g)
			if err := x.UnmarshalBinary(b); err != nil {
				return nil, err
			}
			return x, nil
		},
		encode:   func(x interface{}) ([]byte, error) { return x.(*polynomial.Exponent).MarshalBinary() },
		describe: describeExponent, empty: nil})
	return out
}

// canonicalCBOR re-encodes with the entries of every map sorted by their encoded keys; non-CBOR input is returned as is.
func canonicalCBOR(b []byte) []byte {
	off := 0
	root, used, err := parseCBOR(b, 0)
	if (err != nil || used != len(b)) && len(b) > 4 {
		off = 4
		root, used, err = parseCBOR(b[4:], 0)
	}
	if err != nil || used != len(b)-off {
		return b
	}
	var canon func(n *cnode)
	canon = func(n *cnode) {
		for _, k := range n.kids {
			canon(k)
		}
		if n.major == 5 {
			type kv struct {
				k    []byte
				a, b *cnode
			}
			var l []kv
			for i := 0; i+1 < len(n.kids); i += 2 {
				l = append(l, kv{n.kids[i].encode(), n.kids[i], n.kids[i+1]})
			}
			sort.Slice(l, func(i, j int) bool { return bytes.Compare(l[i].k, l[j].k) < 0 })
			for i, e := range l {
				n.kids[2*i], n.kids[2*i+1] = e.a, e.b
			}
		}
	}
	canon(root)
	return append(append([]byte{}, b[:off]...), root.encode()...)
}

type restoreObs struct {
	outcome string // error | decoded | PANIC | TIMEOUT | MEMLIMIT
	detail  string
	at      string
	desc    J
	silent  bool
	reenc   []byte
}

func (t *codecType) restore(b []byte) (o restoreObs) {
	ch := make(chan restoreObs, 1)
	go func() {
		var r restoreObs
		defer func() {
			if p := recover(); p != nil {
				buf := make([]byte, 8192)
				n := runtime.Stack(buf, false)
				r = restoreObs{outcome: "PANIC", detail: fmt.Sprint(p), at: topFrame(string(buf[:n]))}
			}
			ch <- r
		}()
		var ms0, ms1 runtime.MemStats
		runtime.ReadMemStats(&ms0)
		x, err := t.decode(b)
		runtime.ReadMemStats(&ms1)
		if d := ms1.TotalAlloc - ms0.TotalAlloc; d > memBudget {
			r = restoreObs{outcome: "MEMLIMIT", detail: fmt.Sprintf("decoding %d bytes allocated %d MiB", len(b), d>>20)}
			return
		}
		if err != nil {
			r = restoreObs{outcome: "error"}
			return
		}
		r = restoreObs{outcome: "decoded", desc: t.describe(x)}
		func() {
			defer func() { recover() }() // an object that cannot even be encoded again is judged by its description
			if re, err := t.encode(x); err == nil {
				r.reenc = re
				// silently empty: the restored object is the untouched template although the input did not say "empty"
				// (an input that IS an empty map / array encodes the empty object; key material is then refused by its rules)
				r.silent = t.empty != nil && bytes.Equal(canonicalCBOR(re), canonicalCBOR(t.empty)) && !(len(b) == 1 && (b[0] == 0xa0 || b[0] == 0x80))
			}
		}()
	}()
	select {
	case o = <-ch:
	case <-time.After(fastTimeout):
		o = restoreObs{outcome: "TIMEOUT", detail: "decoder did not return"}
	}
	return o
}

func (cc *childCtx) emitRestore(t *codecType, kind, path, mal, node string, enc []byte) {
	in := J{"type": t.name, "family": t.family(), "kind": kind, "path": path, "mal": mal, "node": node, "enc": hx(enc)}
	if len(enc) > 6000 {
		in["enc"] = hx(enc[:6000]) + "..."
		in["enclen"] = len(enc)
	}
	cc.do("restore", in, func() (interface{}, J) {
		o := t.restore(enc)
		switch o.outcome {
		case "PANIC", "TIMEOUT", "MEMLIMIT":
			return in, J{"outcome": o.outcome, "detail": o.detail, "at": o.at}
		case "error":
			in["obs"] = J{"outcome": "error"}
			return in, J{"ok": true}
		}
		verdict := "valid"
		if o.silent {
			verdict = "SILENT-EMPTY"
		} else if !rulesHold(o.desc) {
			verdict = "INVALID-OBJECT-ACCEPTED"
		}
		in["obs"] = J{"outcome": "decoded", "desc": o.desc, "silent": o.silent, "go": verdict}
		return in, J{"ok": true}
	})
}

func init() {
	register("codec", func(c *Ctx) { supervise(c, "codec-child") })
	register("codec-child", func(c *Ctx) {
		cc := newChildCtx()
		defer cc.w.Flush()
		m := getRobustMaterial(c, true)
		seedCryptoRand(c.Seed + 77)
		defer restoreCryptoRand()
		installPrimeHook(int(c.Seed+9) % 40)
		rng := rand.New(rand.NewSource(c.Seed*13 + 5))
		for _, t := range codecTypes(c, m) {
			t := t
			// 1. the real object: restore, compare, judge, use
			cc.do("roundtrip", J{"type": t.name, "family": t.family(), "kind": "roundtrip", "len": len(t.original)}, func() (interface{}, J) {
				in := J{"type": t.name, "family": t.family(), "kind": "roundtrip", "len": len(t.original)}
				o := t.restore(t.original)
				switch o.outcome {
				case "decoded":
					// equality up to the order of map entries (Go maps are encoded in iteration order)
					same := bytes.Equal(canonicalCBOR(o.reenc), canonicalCBOR(t.original))
					used := "ok"
					if t.use != nil {
						x, _ := t.decode(t.original)
						if r := Guard(func() interface{} { return t.use(x) }); r != nil {
							if s, ok := r.(string); ok {
								used = s
							} else {
								j := r.(J)
								used = fmt.Sprintf("PANIC: %v @ %v", j["detail"], j["at"])
							}
						}
					}
					in["obs"] = J{"outcome": "decoded", "desc": o.desc, "silent": o.silent, "same": same, "used": used}
					return in, J{"ok": true}
				case "error":
					in["obs"] = J{"outcome": "error"}
					return in, J{"ok": true}
				}
				return in, J{"outcome": o.outcome, "detail": o.detail, "at": o.at}
			})
			// 2. single-field corruptions
			maxArr := 3
			err := mutateCBOR(t.original, maxArr, func(path, kind, nodeKind string, mutated []byte) {
				cc.emitRestore(&t, "field", path, kind, nodeKind, mutated)
			})
			if err != nil {
				// not a CBOR item at top level (Exponent: 4-byte count + CBOR): malform the CBOR part and the count
				if len(t.original) > 4 {
					pre := t.original[:4]
					mutateCBOR(t.original[4:], maxArr, func(path, kind, nodeKind string, mutated []byte) {
						cc.emitRestore(&t, "field", path, kind, nodeKind, append(append([]byte{}, pre...), mutated...))
					})
					// incl. the counts at which 32*count wraps in 32 bits
					for _, cnt := range []uint32{0, 1, 2, 4, 1 << 16, 1 << 24, 1 << 27, 1<<27 + 1, 3 << 27, 1 << 28, 1 << 31, 1<<31 - 1, 1<<32 - 1} {
						b := append([]byte{}, t.original...)
						binary.BigEndian.PutUint32(b, cnt)
						cc.emitRestore(&t, "field", "$count", fmt.Sprint("count=", cnt), "uint32", b)
					}
				}
			}
			// 3. truncations and random corruptions
			for _, n := range []int{0, 1, 2, 3, 4, 5, len(t.original) / 2, len(t.original) - 1} {
				if n >= 0 && n < len(t.original) {
					cc.emitRestore(&t, "bytes", "", fmt.Sprint("truncate=", n), "", t.original[:n])
				}
			}
			nr := 40 * c.N
			if c.Tier == "thorough" {
				nr = 400 * c.N
			}
			for i := 0; i < nr; i++ {
				b := append([]byte{}, t.original...)
				what := ""
				switch rng.Intn(5) {
				case 0:
					k := rng.Intn(len(b))
					b[k] ^= 1 << uint(rng.Intn(8))
					what = fmt.Sprint("bitflip@", k)
				case 1:
					k := rng.Intn(len(b))
					b[k] = byte(rng.Intn(256))
					what = fmt.Sprint("byte@", k)
				case 2:
					k := rng.Intn(len(b))
					b = append(b[:k], b[k+1:]...)
					what = fmt.Sprint("delete@", k)
				case 3:
					k := rng.Intn(len(b))
					b = append(b[:k], append([]byte{byte(rng.Intn(256))}, b[k:]...)...)
					what = fmt.Sprint("insert@", k)
				case 4:
					k := rng.Intn(len(b))
					n := 1 + rng.Intn(8)
					for j := k; j < k+n && j < len(b); j++ {
						b[j] = byte(rng.Intn(256))
					}
					what = fmt.Sprint("burst@", k)
				}
				cc.emitRestore(&t, "random", "", what, "", b)
			}
		}
	})
}
