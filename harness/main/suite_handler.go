package main

// Suite `handler`: a scripted protocol implemented against the real round.Session interface and
// driven through the REAL protocol.MultiHandler under generated schedules (any order, duplicates,
// early and stale messages, foreign sessions), tampering, equivocation, abort notices and Stop.
// Every observable (CanAccept answer, emitted messages with their BroadcastVerification bytes,
// closed-ness, Result / culprits) is written out; the Lean handler model answers the same lines.

import (
	"errors"
	"math/rand"
	"fmt"
	"sort"
	"strings"
	"sync"
	"time"

	"github.com/fxamacker/cbor/v2"
	"github.com/taurusgroup/multi-party-sig/internal/round"
	"github.com/taurusgroup/multi-party-sig/pkg/math/curve"
	"github.com/taurusgroup/multi-party-sig/pkg/party"
	"github.com/taurusgroup/multi-party-sig/pkg/protocol"
)

type sContent struct {
	_  struct{} `cbor:",toarray"`
	V  uint64
	F  uint8
	rn round.Number
}

func (c *sContent) RoundNumber() round.Number { return c.rn }

type sBContent struct {
	_  struct{} `cbor:",toarray"`
	V  uint64
	F  uint8
	rn round.Number
}

func (c *sBContent) RoundNumber() round.Number { return c.rn }
// as in the library: only the round-2 broadcast is tagged "reliable"; the handler echoes EVERY broadcast round whatever the tag
func (c *sBContent) Reliable() bool { return c.rn == 2 }

type sRoundSpec struct {
	Num   int  `json:"num"`
	RecvB bool `json:"recvB"`
	RecvP bool `json:"recvP"`
}

type script struct {
	IDs       []string     `json:"ids"` // hex
	Self      string       `json:"self"`
	Final     int          `json:"final"`
	Rounds    []sRoundSpec `json:"rounds"`
	FinErrAt  int          `json:"finErrAt"`
	SessionID string       `json:"sessionID"`
	Threshold int          `json:"threshold"`
	Proto     string       `json:"proto"`
}

type protoState struct {
	acc     uint64
	accused []party.ID
}

type sRound struct {
	*round.Helper
	sc  *script
	idx int
	st  *protoState
}

type sBRound struct{ *sRound }

func (r *sRound) spec() sRoundSpec     { return r.sc.Rounds[r.idx] }
func (r *sRound) Number() round.Number { return round.Number(r.spec().Num) }
func (r *sRound) MessageContent() round.Content {
	if !r.spec().RecvP {
		return nil
	}
	return &sContent{rn: r.Number()}
}
func (r *sRound) VerifyMessage(msg round.Message) error {
	c, ok := msg.Content.(*sContent)
	if !ok || c == nil {
		return round.ErrInvalidContent
	}
	if c.F&1 != 0 {
		return errors.New("script: verify failed")
	}
	return nil
}
func (r *sRound) StoreMessage(msg round.Message) error {
	c := msg.Content.(*sContent)
	if c.F&2 != 0 {
		return errors.New("script: store failed")
	}
	r.st.acc += c.V
	if c.F&8 != 0 {
		r.st.accused = append(r.st.accused, msg.From)
	}
	return nil
}
func (r *sBRound) BroadcastContent() round.BroadcastContent { return &sBContent{rn: r.Number()} }
func (r *sBRound) StoreBroadcastMessage(msg round.Message) error {
	c, ok := msg.Content.(*sBContent)
	if !ok || c == nil {
		return round.ErrInvalidContent
	}
	if c.F&4 != 0 {
		return errors.New("script: broadcast store failed")
	}
	r.st.acc += c.V
	if c.F&8 != 0 {
		r.st.accused = append(r.st.accused, msg.From)
	}
	return nil
}

func idIndex(ids []string, id string) int {
	for i, x := range ids {
		if x == id {
			return i
		}
	}
	return len(ids)
}

func honestV(sc *script, from, to string, r int) uint64 {
	v := uint64(idIndex(sc.IDs, from)+1) * 1000
	if to != "" {
		v += uint64(idIndex(sc.IDs, to)+1) * 10
	}
	return v + uint64(r)
}

func (r *sRound) Finalize(out chan<- *round.Message) (round.Session, error) {
	if r.sc.FinErrAt != 0 && r.sc.FinErrAt == r.spec().Num {
		return r.self(), errors.New("script: finalize error")
	}
	if len(r.st.accused) > 0 {
		return r.AbortRound(errors.New("script: abort"), r.st.accused...), nil
	}
	if r.idx+1 >= len(r.sc.Rounds) {
		return r.ResultRound(r.st.acc), nil
	}
	nx := r.sc.Rounds[r.idx+1]
	self := hx([]byte(r.SelfID()))
	if nx.RecvB {
		if err := r.BroadcastMessage(out, &sBContent{V: honestV(r.sc, self, "", nx.Num), rn: round.Number(nx.Num)}); err != nil {
			return r.self(), err
		}
	}
	if nx.RecvP {
		for _, id := range r.OtherPartyIDs() {
			if err := r.SendMessage(out, &sContent{V: honestV(r.sc, self, hx([]byte(id)), nx.Num), rn: round.Number(nx.Num)}, id); err != nil {
				return r.self(), err
			}
		}
	}
	next := &sRound{Helper: r.Helper, sc: r.sc, idx: r.idx + 1, st: r.st}
	if nx.RecvB {
		return &sBRound{next}, nil
	}
	return next, nil
}

func (r *sRound) self() round.Session {
	if r.spec().RecvB {
		return &sBRound{r}
	}
	return r
}

func scriptStart(sc *script) protocol.StartFunc {
	return func(sessionID []byte) (round.Session, error) {
		ids := make([]party.ID, len(sc.IDs))
		for i, x := range sc.IDs {
			ids[i] = party.ID(unhx(x))
		}
		info := round.Info{ProtocolID: sc.Proto, FinalRoundNumber: round.Number(sc.Final), SelfID: party.ID(unhx(sc.Self)),
			PartyIDs: ids, Threshold: sc.Threshold, Group: curve.Secp256k1{}}
		h, err := round.NewSession(info, sessionID, nil)
		if err != nil {
			return nil, err
		}
		return &sRound{Helper: h, sc: sc, idx: 0, st: &protoState{}}, nil
	}
}

// ---- one real handler with a concurrent drainer -------------------------------------------------

type hnode struct {
	sid    string
	sc     *script
	h      *protocol.MultiHandler
	ch     <-chan *protocol.Message
	got    []*protocol.Message
	closed bool
	last   []*protocol.Message // messages emitted by the last observed call
}

func (n *hnode) lastRaw() []*protocol.Message { r := n.last; n.last = nil; return r }

func newNode(sid string, sc *script) (*hnode, error) {
	var sess []byte
	if sc.SessionID != "" {
		sess = unhx(sc.SessionID)
	}
	type res struct {
		h   *protocol.MultiHandler
		err error
	}
	done := make(chan res, 1)
	go func() {
		h, err := protocol.NewMultiHandler(scriptStart(sc), sess)
		done <- res{h, err}
	}()
	var h *protocol.MultiHandler
	select {
	case r := <-done:
		if r.err != nil {
			return nil, r.err
		}
		h = r.h
	case <-time.After(3 * time.Second):
		panic("HANG: NewMultiHandler did not return within 3 s (nobody can drain the out channel before the constructor returns)")
	}
	n := &hnode{sid: sid, sc: sc, h: h}
	n.ch = h.Listen()
	n.drainNow()
	return n, nil
}

func (n *hnode) recv(m *protocol.Message, ok bool) {
	if !ok {
		n.closed = true
		n.ch = nil
		return
	}
	n.got = append(n.got, m)
}

// drainNow takes everything that is in the channel right now (deterministic: no goroutine involved).
func (n *hnode) drainNow() {
	for n.ch != nil {
		select {
		case m, ok := <-n.ch:
			n.recv(m, ok)
		default:
			return
		}
	}
}

// call runs f (a handler method) on another goroutine and keeps the out channel drained until f
// returns, so that a call emitting more messages than the channel holds cannot block; a panic in f
// is re-raised here.
func (n *hnode) call(f func()) {
	done := make(chan interface{}, 1)
	go func() {
		defer func() { done <- recover() }()
		f()
	}()
	for {
		if n.ch == nil {
			if r := <-done; r != nil {
				panic(r)
			}
			return
		}
		select {
		case m, ok := <-n.ch:
			n.recv(m, ok)
		case r := <-done:
			if r != nil {
				panic(r)
			}
			n.drainNow()
			return
		case <-time.After(20 * time.Second):
			panic("HANG: handler call did not return within 20 s while the out channel was being drained")
		}
	}
}

// callSync runs f the way a single-goroutine event loop does: nothing drains the out channel while f
// runs; if f does not return within 2 s it is reported as a hang (and then unblocked by draining).
func (n *hnode) callSync(f func()) {
	done := make(chan interface{}, 1)
	go func() {
		defer func() { done <- recover() }()
		f()
	}()
	select {
	case r := <-done:
		if r != nil {
			panic(r)
		}
		n.drainNow()
	case <-time.After(2 * time.Second):
		// unblock it, then report
		for {
			select {
			case m, ok := <-n.ch:
				n.recv(m, ok)
				if !ok {
					<-done
					panic("HANG: the call blocked on the full out channel (drained only between calls, as a select-loop consumer does)")
				}
			case <-done:
				n.drainNow()
				panic("HANG: the call blocked on the full out channel (drained only between calls, as a select-loop consumer does)")
			}
		}
	}
}

func (n *hnode) take() ([]*protocol.Message, bool) {
	out := n.got
	n.got = nil
	return out, n.closed
}

func decContent(m *protocol.Message) interface{} {
	if m.Data == nil {
		return nil
	}
	var c sContent
	if err := cbor.Unmarshal(m.Data, &c); err != nil {
		return nil
	}
	return J{"v": c.V, "f": c.F}
}

func optHx(b []byte) interface{} {
	if b == nil {
		return nil
	}
	return hx(b)
}

func msgJ(m *protocol.Message) J {
	return J{"ssid": optHx(m.SSID), "from": hx([]byte(m.From)), "to": hx([]byte(m.To)), "proto": hx([]byte(m.Protocol)),
		"rnd": int(m.RoundNumber), "data": optHx(m.Data), "bcast": m.Broadcast, "bv": optHx(m.BroadcastVerification), "dec": decContent(m)}
}

func msgsJ(ms []*protocol.Message) []J {
	out := []J{}
	for _, m := range ms {
		out = append(out, msgJ(m))
	}
	return out
}

// observe reports what the handler shows after a call: emitted messages (abort notices apart),
// closed-ness and Result().
func (n *hnode) observe() J {
	ms, closed := n.take()
	n.last = nil
	emitted := []*protocol.Message{}
	notices := 0
	for _, m := range ms {
		if m.RoundNumber == 0 {
			notices++
		} else {
			emitted = append(emitted, m)
		}
	}
	n.last = emitted
	res := J{"out": msgsJ(emitted), "closed": closed}
	// the notice is sent without blocking; the channel holds a whole session's messages, so it always fits
	res["notice"] = notices
	v, err := n.h.Result()
	switch {
	case err == nil:
		res["term"] = fmt.Sprintf("result:%d", v.(uint64))
	case err.Error() == "protocol: not finished":
		res["term"] = "running"
	default:
		var pe protocol.Error
		cul := []string{}
		if errors.As(err, &pe) {
			for _, c := range pe.Culprits {
				cul = append(cul, hx([]byte(c)))
			}
		}
		s := err.Error()
		class := "msgFail"
		switch {
		case strings.Contains(s, "aborted by other party"):
			class = "peerAbort"
		case strings.Contains(s, "broadcast verification failed"):
			class = "echoMismatch"
		case strings.Contains(s, "aborted by user"):
			class = "stopped"
		case strings.Contains(s, "script: abort"):
			class = "protoAbort"
		case strings.Contains(s, "script: finalize error"):
			class = "finalizeErr"
		}
		res["term"] = "err:" + class + ":" + strings.Join(cul, ",")
	}
	return res
}

// ---- generation ---------------------------------------------------------------------------------

func genScript(c *Ctx) (*script, int) {
	n := 2 + c.Intn(3)
	if c.Intn(6) == 0 {
		n = 5
	}
	if c.Intn(25) == 0 {
		n = 1 // a single participant (threshold 0): every round completes at once
	}
	pool := []string{"a", "b", "c", "alice", "bob", "z9", "\xc3\xa9", "ab", "abc"}
	c.Rng.Shuffle(len(pool), func(i, j int) { pool[i], pool[j] = pool[j], pool[i] })
	ids := append([]string{}, pool[:n]...)
	sort.Strings(ids)
	hexids := make([]string, n)
	for i, s := range ids {
		hexids[i] = hx([]byte(s))
	}
	nr := 2 + c.Intn(4)
	rounds := []sRoundSpec{{Num: 1}}
	num := 1
	for i := 1; i < nr; i++ {
		num++
		if c.Intn(12) == 0 {
			num += 1 + c.Intn(3) // a jump in the numbering (presign online: 1 -> 8)
		}
		b, p := c.Intn(3) != 0, c.Intn(2) == 0
		if !b && !p {
			p = true
		}
		rounds = append(rounds, sRoundSpec{Num: num, RecvB: b, RecvP: p})
	}
	final := num
	if c.Intn(15) == 0 && final > 2 {
		final-- // the declared final round number is too small (presign offline: 7 vs abort2 = 8)
	}
	sc := &script{IDs: hexids, Final: final, Rounds: rounds, Threshold: c.Intn(n), Proto: "verif/script"}
	if c.Intn(3) != 0 {
		sc.SessionID = hx(c.Bytes(1 + c.Intn(8)))
	}
	if c.Intn(20) == 0 {
		sc.FinErrAt = rounds[c.Intn(len(rounds))].Num
	}
	return sc, n
}

func cloneMsg(m *protocol.Message) *protocol.Message {
	cp := *m
	if m.Data != nil {
		cp.Data = append([]byte{}, m.Data...)
	}
	if m.SSID != nil {
		cp.SSID = append([]byte{}, m.SSID...)
	}
	if m.BroadcastVerification != nil {
		cp.BroadcastVerification = append([]byte{}, m.BroadcastVerification...)
	}
	return &cp
}

func reencode(m *protocol.Message, v uint64, f uint8) {
	var err error
	if m.Broadcast {
		m.Data, err = cbor.Marshal(&sBContent{V: v, F: f})
	} else {
		m.Data, err = cbor.Marshal(&sContent{V: v, F: f})
	}
	if err != nil {
		panic(err)
	}
}

// tamper returns a deviating copy of m (content or header) and a label.
func tamper(c *Ctx, m *protocol.Message, sc *script, selfHex string) (*protocol.Message, string) {
	t := cloneMsg(m)
	var cur sContent
	_ = cbor.Unmarshal(m.Data, &cur)
	kinds := []string{"flag-verify", "flag-store", "flag-storeB", "flag-accuse", "value", "garbage", "empty-data", "nil-data",
		"ssid", "proto", "from-unknown", "from-self", "to-other", "round+", "round-", "round-huge", "bv", "bv-nil", "flip-bcast", "notice",
		"foreign-notice-ssid", "foreign-notice-proto", "foreign-notice-sender", "notice-nil-data"}
	k := kinds[c.Intn(len(kinds))]
	switch k {
	case "flag-verify":
		reencode(t, cur.V, cur.F|1)
	case "flag-store":
		reencode(t, cur.V, cur.F|2)
	case "flag-storeB":
		reencode(t, cur.V, cur.F|4)
	case "flag-accuse":
		reencode(t, cur.V, cur.F|8)
	case "value":
		reencode(t, cur.V+1+uint64(c.Intn(5)), cur.F)
	case "garbage":
		t.Data = c.Bytes(1 + c.Intn(6))
	case "empty-data":
		t.Data = []byte{}
	case "nil-data":
		t.Data = nil
	case "ssid":
		t.SSID = append([]byte{}, t.SSID...)
		if len(t.SSID) > 0 {
			t.SSID[c.Intn(len(t.SSID))] ^= 1
		}
	case "proto":
		t.Protocol += "x"
	case "from-unknown":
		t.From = "nobody"
	case "from-self":
		t.From = party.ID(unhx(selfHex))
	case "to-other":
		t.To = "someone-else"
	case "round+":
		t.RoundNumber++
	case "round-":
		if t.RoundNumber > 0 {
			t.RoundNumber--
		}
	case "round-huge":
		t.RoundNumber = round.Number(sc.Final + 1 + c.Intn(3))
	case "bv":
		if len(t.BroadcastVerification) > 0 {
			t.BroadcastVerification[0] ^= 1
		} else {
			t.BroadcastVerification = c.Bytes(64)
		}
	case "bv-nil":
		t.BroadcastVerification = nil
	case "flip-bcast":
		t.Broadcast = !t.Broadcast
	case "notice":
		t.RoundNumber = 0
		t.Data = []byte("peer error")
		t.To = ""
		t.Broadcast = false
	case "foreign-notice-ssid", "foreign-notice-proto", "foreign-notice-sender", "notice-nil-data":
		// an abort notice that does not belong to this session (another tag / protocol / an unknown sender)
		t.RoundNumber = 0
		t.Data = []byte("peer error")
		t.To = ""
		t.Broadcast = false
		switch k {
		case "foreign-notice-ssid":
			t.SSID = append([]byte{}, t.SSID...)
			if len(t.SSID) > 0 {
				t.SSID[0] ^= 0x80
			}
		case "foreign-notice-proto":
			t.Protocol = "another/protocol"
		case "foreign-notice-sender":
			t.From = "stranger"
		case "notice-nil-data":
			t.Data = nil
		}
	}
	return t, k
}

type delivery struct {
	m    *protocol.Message
	to   int
	kind string
}

// runSession drives one set of real handlers along a generated schedule.
func runSession(c *Ctx, sidBase string, mode string) {
	sc0, n := genScript(c)
	nodes := make([]*hnode, n)
	var pending []delivery
	cheater := -1
	if mode == "cheat" || mode == "equivocate" {
		cheater = c.Intn(n)
	}
	enqueue := func(from int, ms []J, raw []*protocol.Message) {
		for _, m := range raw {
			for j := 0; j < n; j++ {
				if j == from {
					continue
				}
				if m.To != "" && string(m.To) != string(unhx(sc0.IDs[j])) {
					continue
				}
				d := delivery{m: m, to: j, kind: "honest"}
				if from == cheater {
					switch mode {
					case "cheat":
						if c.Intn(3) == 0 {
							d.m, d.kind = tamper(c, m, sc0, sc0.IDs[j])
						}
					case "equivocate":
						// a different (individually valid) payload for some recipients of a broadcast
						if m.Broadcast && c.Intn(2) == 0 {
							t := cloneMsg(m)
							var cur sBContent
							_ = cbor.Unmarshal(m.Data, &cur)
							reencode(t, cur.V+uint64(1+j), cur.F)
							d.m, d.kind = t, "equivocated"
						}
					}
				}
				pending = append(pending, d)
			}
		}
	}
	for i := 0; i < n; i++ {
		sc := *sc0
		sc.Self = sc0.IDs[i]
		sid := fmt.Sprintf("%s/%d", sidBase, i)
		var nd *hnode
		res := Guard(func() interface{} {
			var err error
			nd, err = newNode(sid, &sc)
			if err != nil {
				return J{"outcome": "err", "detail": err.Error()}
			}
			return nil
		})
		if res != nil {
			c.Emit("init", J{"sid": sid, "script": sc}, res)
			return
		}
		nodes[i] = nd
		r0, _ := scriptStart(&sc)(func() []byte {
			if sc.SessionID == "" {
				return nil
			}
			return unhx(sc.SessionID)
		}())
		ob := nd.observe()
		ob["ssid"] = hx(r0.SSID())
		ms := nd.lastRaw()
		c.Emit("init", J{"sid": sid, "script": sc}, ob)
		enqueue(i, nil, ms)
	}
	c.Count("handler/mode/" + mode)
	steps := 0
	stopAt := -1
	if mode == "stop" {
		stopAt = c.Intn(40)
	}
	history := []delivery{}
	// what each party was given as the broadcast of (round, sender): first accepted copy
	views := make([]map[string]string, n)
	for i := range views {
		views[i] = map[string]string{}
	}
	for len(pending) > 0 && steps < 400 {
		steps++
		if steps == stopAt {
			j := c.Intn(n)
			ob := Guard(func() interface{} { nodes[j].call(nodes[j].h.Stop); return nodes[j].observe() })
			c.Emit("stop", J{"sid": nodes[j].sid}, ob)
			if c.Intn(2) == 0 { // and once more
				ob := Guard(func() interface{} { nodes[j].call(nodes[j].h.Stop); return nodes[j].observe() })
				c.Emit("stop", J{"sid": nodes[j].sid}, ob)
			}
		}
		k := c.Intn(len(pending))
		if mode == "sync" {
			// latest rounds first: the last delivery then runs through several rounds in one call
			for j := range pending {
				if pending[j].m.RoundNumber > pending[k].m.RoundNumber {
					k = j
				}
			}
		}
		d := pending[k]
		switch r := c.Intn(20); {
		case r == 0: // duplicate: deliver but keep it pending
		case r == 1 && len(history) > 0: // replay something old (stale / duplicate)
			d = history[c.Intn(len(history))]
			d.kind = "replay"
		case r == 2 && mode == "noise": // a tampered copy on top of the honest one
			d.m, d.kind = tamper(c, d.m, sc0, sc0.IDs[d.to])
		case r == 3 && mode != "honest" && len(history) > 0:
			// a conflicting duplicate: same header as a message delivered a moment ago (most likely of the round the
			// recipient is still in), other payload: the first copy must stay the one that counts
			lo := len(history) - 6
			if lo < 0 {
				lo = 0
			}
			hd := history[lo+c.Intn(len(history)-lo)]
			if hd.m.RoundNumber > 0 && len(hd.m.Data) > 0 {
				var cur sContent
				if cbor.Unmarshal(hd.m.Data, &cur) == nil {
					t := cloneMsg(hd.m)
					reencode(t, cur.V+7, cur.F)
					d = delivery{m: t, to: hd.to, kind: "conflicting-duplicate"}
				}
			}
		default:
			pending = append(pending[:k], pending[k+1:]...)
		}
		history = append(history, d)
		nd := nodes[d.to]
		var can bool
		ob := Guard(func() interface{} {
			can = nd.h.CanAccept(d.m)
			if mode == "sync" {
				nd.callSync(func() { nd.h.Accept(d.m) })
			} else {
				nd.call(func() { nd.h.Accept(d.m) })
			}
			o := nd.observe()
			o["can"] = can
			return o
		})
		c.Emit("accept", withObsTerm(J{"sid": nd.sid, "msg": msgJ(d.m), "kind": d.kind}, ob), ob)
		c.Count("handler/delivery/" + d.kind)
		if can && d.m.Broadcast && d.m.RoundNumber > 0 {
			k := fmt.Sprintf("%d|%s", d.m.RoundNumber, hx([]byte(d.m.From)))
			if _, ok := views[d.to][k]; !ok {
				views[d.to][k] = hx(d.m.Data)
			}
		}
		enqueue(d.to, nil, nd.lastRaw())
	}
	if mode == "equivocate" || mode == "honest" {
		// C06, judged on the observation itself: honest parties that completed hold identical views of
		// every broadcast round that is followed by a further round
		parties := []J{}
		for j := 0; j < n; j++ {
			term := "running"
			if v, err := nodes[j].h.Result(); err == nil {
				term = fmt.Sprintf("result:%d", v.(uint64))
			} else if err.Error() != "protocol: not finished" {
				term = "err"
			}
			parties = append(parties, J{"term": term, "views": views[j]})
		}
		c.Emit("views", J{"parties": parties, "rounds": sc0.Rounds, "cheater": cheater, "final": sc0.Final}, J{"ok": true})
		c.Count("handler/views/" + mode)
	}
	if mode == "honest" || mode == "sync" {
		// C07, judged against the in-order run of the model: whatever the schedule (any order, duplicates,
		// replays of stale messages, early arrivals), every party ends with the in-order result
		scs := make([]script, n)
		terms := make([]string, n)
		for j := 0; j < n; j++ {
			scs[j] = *nodes[j].sc
			if v, err := nodes[j].h.Result(); err == nil {
				terms[j] = fmt.Sprintf("result:%d", v.(uint64))
			} else {
				terms[j] = nodes[j].observe()["term"].(string)
			}
		}
		c.Emit("conc", J{"scripts": scs, "terms": terms, "stopper": -1, "steps": steps}, J{"ok": true})
	}
	// calls after the end: Stop on everyone, a late message
	for j := 0; j < n; j++ {
		if c.Intn(3) == 0 {
			ob := Guard(func() interface{} { nodes[j].call(nodes[j].h.Stop); return nodes[j].observe() })
			c.Emit("stop", J{"sid": nodes[j].sid}, ob)
		}
		if len(history) > 0 && c.Intn(2) == 0 {
			d := history[c.Intn(len(history))]
			nd := nodes[j]
			ob := Guard(func() interface{} {
				can := nd.h.CanAccept(d.m)
				nd.call(func() { nd.h.Accept(d.m) })
				o := nd.observe()
				o["can"] = can
				return o
			})
			c.Emit("accept", withObsTerm(J{"sid": nd.sid, "msg": msgJ(d.m), "kind": "late"}, ob), ob)
		}
	}
}

// runConcurrent drives honest sessions with several goroutines per handler calling
// CanAccept/Accept/Result/Listen (and possibly Stop) at the same time. The observation (final
// Result of every party) is judged by the model: in an honest session without Stop every party
// ends with the in-order result; with a Stop, the stopper ends stopped or finished and the peers
// end finished, stopped-by-peer or still running.
func runConcurrent(c *Ctx, sidBase string, withStop bool) {
	sc0, n := genScript(c)
	sc0.FinErrAt = 0
	if sc0.Final < sc0.Rounds[len(sc0.Rounds)-1].Num {
		sc0.Final = sc0.Rounds[len(sc0.Rounds)-1].Num
	}
	type node struct {
		h     *protocol.MultiHandler
		inbox chan *protocol.Message
	}
	nodes := make([]*node, n)
	scs := make([]script, n)
	var wg sync.WaitGroup
	var dwg sync.WaitGroup
	var mu sync.Mutex
	panics := []string{}
	guard := func(f func()) {
		defer func() {
			if r := recover(); r != nil {
				mu.Lock()
				panics = append(panics, fmt.Sprint(r))
				mu.Unlock()
			}
		}()
		f()
	}
	for i := 0; i < n; i++ {
		scs[i] = *sc0
		scs[i].Self = sc0.IDs[i]
		var sess []byte
		if sc0.SessionID != "" {
			sess = unhx(sc0.SessionID)
		}
		h, err := protocol.NewMultiHandler(scriptStart(&scs[i]), sess)
		if err != nil {
			return
		}
		nodes[i] = &node{h: h, inbox: make(chan *protocol.Message, 4096)}
	}
	quit := make(chan struct{})
	seedBase := c.Rng.Int63()
	for i := 0; i < n; i++ {
		i := i
		// drainer: forwards what handler i emits (sometimes twice)
		dwg.Add(1)
		go func() {
			defer dwg.Done()
			r := newRand(seedBase + int64(i))
			for m := range nodes[i].h.Listen() {
				for j := 0; j < n; j++ {
					if j == i {
						continue
					}
					k := 1
					if r.Intn(4) == 0 {
						k = 2
					}
					for ; k > 0; k-- {
						select {
						case nodes[j].inbox <- m:
						default:
						}
					}
				}
			}
		}()
		// workers
		for g := 0; g < 3; g++ {
			g := g
			wg.Add(1)
			go func() {
				defer wg.Done()
				r := newRand(seedBase + int64(100*i+g+7))
				for {
					select {
					case <-quit:
						return
					case m := <-nodes[i].inbox:
						guard(func() {
							switch r.Intn(5) {
							case 0:
								nodes[i].h.CanAccept(m)
							case 1:
								_, _ = nodes[i].h.Result()
							case 2:
								_ = nodes[i].h.Listen()
							}
							if nodes[i].h.CanAccept(m) || r.Intn(3) == 0 {
								nodes[i].h.Accept(m)
							}
						})
					}
				}
			}()
		}
	}
	stopper := -1
	if withStop {
		stopper = c.Intn(n)
		delay := time.Duration(c.Intn(400)) * time.Microsecond
		wg.Add(1)
		go func() {
			defer wg.Done()
			time.Sleep(delay)
			guard(func() { nodes[stopper].h.Stop() })
			guard(func() { nodes[stopper].h.Stop() })
		}()
	}
	// wait until every party has ended or nothing moves any more
	deadline := time.Now().Add(3 * time.Second)
	for time.Now().Before(deadline) {
		all := true
		for i := 0; i < n; i++ {
			if _, err := nodes[i].h.Result(); err != nil && err.Error() == "protocol: not finished" {
				all = false
			}
		}
		if all {
			break
		}
		time.Sleep(200 * time.Microsecond)
	}
	time.Sleep(300 * time.Microsecond)
	close(quit)
	wg.Wait()
	terms := make([]string, n)
	for i := 0; i < n; i++ {
		nd := &hnode{sc: &scs[i], h: nodes[i].h}
		v, err := nd.h.Result()
		switch {
		case err == nil:
			terms[i] = fmt.Sprintf("result:%d", v.(uint64))
		case err.Error() == "protocol: not finished":
			terms[i] = "running"
		default:
			var pe protocol.Error
			cul := []string{}
			if errors.As(err, &pe) {
				for _, c := range pe.Culprits {
					cul = append(cul, hx([]byte(c)))
				}
			}
			class := "other"
			switch {
			case strings.Contains(err.Error(), "aborted by other party"):
				class = "peerAbort"
			case strings.Contains(err.Error(), "aborted by user"):
				class = "stopped"
			}
			terms[i] = "err:" + class + ":" + strings.Join(cul, ",")
		}
	}
	var impl interface{} = J{"ok": true}
	if len(panics) > 0 {
		impl = J{"outcome": "PANIC", "detail": panics[0]}
	}
	in := J{"scripts": scs, "terms": terms, "stopper": stopper}
	c.Emit("conc", in, impl)
	if withStop {
		c.Count("handlerconc/with-stop")
	} else {
		c.Count("handlerconc/no-stop")
	}
}

func init() {
	register("handlerconc", func(c *Ctx) {
		for i := 0; i < c.N; i++ {
			runConcurrent(c, fmt.Sprintf("c%d", i), i%3 == 2)
		}
	})
	register("handler", func(c *Ctx) {
		modes := []string{"honest", "honest", "cheat", "cheat", "equivocate", "noise", "stop", "sync"}
		for i := 0; i < c.N; i++ {
			runSession(c, fmt.Sprintf("s%d", i), modes[i%len(modes)])
		}
	})
}

// withObsTerm passes the observed verdict to the model: Go replays queued messages in map order, so when two queued
// messages fail differently the verdict is one of several the code can give (the model checks that SOME order gives it)
func withObsTerm(in J, ob interface{}) J {
	if o, ok := ob.(J); ok {
		if t, ok := o["term"].(string); ok {
			in["obsTerm"] = t
		}
	}
	return in
}

func newRand(seed int64) *rand.Rand { return rand.New(rand.NewSource(seed)) }
