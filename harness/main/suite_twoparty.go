package main

// Suite `twoparty`: a scripted two-party protocol driven through the REAL protocol.TwoPartyHandler
// (leader / follower) under generated schedules with duplicates, conflicting duplicates, early and
// stray messages, tampering, abort notices and Stop; every observable is compared with the Lean model
// (Mps.TwoParty).

import (
	"errors"
	"fmt"
	"strings"
	"time"

	"github.com/fxamacker/cbor/v2"
	"github.com/taurusgroup/multi-party-sig/internal/round"
	"github.com/taurusgroup/multi-party-sig/pkg/math/curve"
	"github.com/taurusgroup/multi-party-sig/pkg/party"
	"github.com/taurusgroup/multi-party-sig/pkg/protocol"
)

type round2Spec struct {
	Num     int  `json:"num"`
	Recv    bool `json:"recv"`
	Send    bool `json:"send"`
	SendNum int  `json:"sendNum"`
}

type script2 struct {
	IDs       []string     `json:"ids"`
	Self      string       `json:"self"`
	Peer      string       `json:"peer"`
	Final     int          `json:"final"`
	Rounds    []round2Spec `json:"rounds"`
	Proto     string       `json:"proto"`
	Leader    bool         `json:"leader"`
	FinErrAt  int          `json:"finErrAt"`
	SessionID string       `json:"sessionID"`
}

type tRound struct {
	*round.Helper
	sc  *script2
	idx int
	st  *protoState
}

func (r *tRound) spec() round2Spec     { return r.sc.Rounds[r.idx] }
func (r *tRound) Number() round.Number { return round.Number(r.spec().Num) }
func (r *tRound) MessageContent() round.Content {
	if !r.spec().Recv {
		return nil
	}
	return &sContent{rn: r.Number()}
}
func (r *tRound) VerifyMessage(msg round.Message) error {
	c, ok := msg.Content.(*sContent)
	if !ok || c == nil {
		return round.ErrInvalidContent
	}
	if c.F&1 != 0 {
		return errors.New("script: verify failed")
	}
	return nil
}
func (r *tRound) StoreMessage(msg round.Message) error {
	c := msg.Content.(*sContent)
	if c.F&2 != 0 {
		return errors.New("script: store failed")
	}
	r.st.acc += c.V
	if c.F&8 != 0 {
		r.st.accused = append(r.st.accused, msg.From)
	}
	return nil
}
func (r *tRound) Finalize(out chan<- *round.Message) (round.Session, error) {
	if r.sc.FinErrAt != 0 && r.sc.FinErrAt == r.spec().Num {
		return r, errors.New("script: finalize error")
	}
	if len(r.st.accused) > 0 {
		return r.AbortRound(errors.New("script: abort"), r.st.accused...), nil
	}
	if r.idx+1 >= len(r.sc.Rounds) {
		return r.ResultRound(r.st.acc), nil
	}
	if r.spec().Send {
		sp := &script{IDs: r.sc.IDs}
		v := honestV(sp, r.sc.Self, r.sc.Peer, r.spec().SendNum)
		if err := r.SendMessage(out, &sContent{V: v, rn: round.Number(r.spec().SendNum)}, party.ID(unhx(r.sc.Peer))); err != nil {
			return r, err
		}
	}
	return &tRound{Helper: r.Helper, sc: r.sc, idx: r.idx + 1, st: r.st}, nil
}

func script2Start(sc *script2) protocol.StartFunc {
	return func(sessionID []byte) (round.Session, error) {
		ids := []party.ID{party.ID(unhx(sc.IDs[0])), party.ID(unhx(sc.IDs[1]))}
		info := round.Info{ProtocolID: sc.Proto, FinalRoundNumber: round.Number(sc.Final), SelfID: party.ID(unhx(sc.Self)),
			PartyIDs: ids, Threshold: 1, Group: curve.Secp256k1{}}
		h, err := round.NewSession(info, sessionID, nil)
		if err != nil {
			return nil, err
		}
		return &tRound{Helper: h, sc: sc, idx: 0, st: &protoState{}}, nil
	}
}

type tnode struct {
	sid    string
	sc     *script2
	h      *protocol.TwoPartyHandler
	ch     <-chan *protocol.Message
	got    []*protocol.Message
	closed bool
	last   []*protocol.Message
}

func (n *tnode) recv(m *protocol.Message, ok bool) {
	if !ok {
		n.closed = true
		n.ch = nil
		return
	}
	n.got = append(n.got, m)
}
func (n *tnode) drainNow() {
	for n.ch != nil {
		select {
		case m, ok := <-n.ch:
			n.recv(m, ok)
		default:
			return
		}
	}
}
func (n *tnode) call(f func()) {
	done := make(chan interface{}, 1)
	go func() {
		defer func() { done <- recover() }()
		f()
	}()
	for {
		if n.ch == nil {
			if r := <-done; r != nil {
				panic(r)
			}
			return
		}
		select {
		case m, ok := <-n.ch:
			n.recv(m, ok)
		case r := <-done:
			if r != nil {
				panic(r)
			}
			n.drainNow()
			return
		case <-time.After(20 * time.Second):
			panic("HANG: two-party handler call did not return within 20 s while the out channel was being drained")
		}
	}
}

func (n *tnode) observe() J {
	ms := n.got
	n.got = nil
	emitted := []*protocol.Message{}
	notices := 0
	for _, m := range ms {
		if m.RoundNumber == 0 {
			notices++
		} else {
			emitted = append(emitted, m)
		}
	}
	n.last = emitted
	res := J{"out": msgsJ(emitted), "closed": n.closed}
	res["notice"] = notices
	v, err := n.h.Result()
	switch {
	case err == nil:
		res["term"] = fmt.Sprintf("result:%d", v.(uint64))
	case err.Error() == "protocol: not finished":
		res["term"] = "running"
	default:
		s := err.Error()
		class := "msgFail"
		switch {
		case strings.Contains(s, "aborted by other party"):
			class = "peerAbort"
		case strings.Contains(s, "aborted by user"):
			class = "stopped"
		case strings.Contains(s, "script: abort"):
			class = "protoAbort"
		case strings.Contains(s, "script: finalize error"):
			class = "finalizeErr"
		}
		res["term"] = "err:" + class
	}
	return res
}

func genScript2(c *Ctx) (*script2, *script2) {
	a, b := hx([]byte("alice")), hx([]byte("bob"))
	M := 1 + c.Intn(5)
	lead := []round2Spec{{Num: 1, Recv: false, Send: true, SendNum: 1}}
	foll := []round2Spec{}
	for k := 1; k <= M; k++ {
		if k%2 == 1 { // leader -> follower, received by follower round number k
			foll = append(foll, round2Spec{Num: k, Recv: true, Send: k < M, SendNum: k + 1})
		} else { // follower -> leader, received by leader round number k
			lead = append(lead, round2Spec{Num: k, Recv: true, Send: k < M, SendNum: k + 1})
		}
	}
	if c.Intn(6) == 0 { // a silent extra round at the end
		lead = append(lead, round2Spec{Num: M + 1, Recv: false})
	}
	final := M + 1
	if c.Intn(3) == 0 {
		// the symmetric shape of protocols/example (XOR): BOTH parties start in a round that consumes nothing and sends,
		// then exchange one message per round. The non-leader does not move in its constructor: the peer's round-2 message
		// reaches it while it is still in round 1 and has to wake it up.
		lead, foll = nil, nil
		for k := 1; k <= M+1; k++ {
			sp := round2Spec{Num: k, Recv: k > 1, Send: k <= M, SendNum: k + 1}
			lead, foll = append(lead, sp), append(foll, sp)
		}
		final = M + 2
	}
	mk := func(self, peer string, rounds []round2Spec, leader bool) *script2 {
		s := &script2{IDs: []string{a, b}, Self: self, Peer: peer, Final: final, Rounds: rounds, Proto: "verif/two", Leader: leader}
		return s
	}
	sa, sb := mk(a, b, lead, true), mk(b, a, foll, false)
	if c.Intn(3) != 0 {
		sid := hx(c.Bytes(4))
		sa.SessionID, sb.SessionID = sid, sid
	}
	if c.Intn(15) == 0 {
		sa.FinErrAt = lead[c.Intn(len(lead))].Num
	}
	return sa, sb
}

func runTwoParty(c *Ctx, base string, mode string) {
	sa, sb := genScript2(c)
	nodes := []*tnode{}
	type dl struct {
		m    *protocol.Message
		to   int
		kind string
	}
	var pending []dl
	for i, sc := range []*script2{sa, sb} {
		var sess []byte
		if sc.SessionID != "" {
			sess = unhx(sc.SessionID)
		}
		sid := fmt.Sprintf("%s/%d", base, i)
		var nd *tnode
		res := Guard(func() interface{} {
			h, err := protocol.NewTwoPartyHandler(script2Start(sc), sess, sc.Leader)
			if err != nil {
				return J{"outcome": "err", "detail": err.Error()}
			}
			nd = &tnode{sid: sid, sc: sc, h: h}
			nd.ch = h.Listen()
			nd.drainNow()
			return nil
		})
		if res != nil {
			c.Emit("init", J{"sid": sid, "script": sc}, res)
			return
		}
		nodes = append(nodes, nd)
		c.Emit("init", J{"sid": sid, "script": sc}, nd.observe())
		for _, m := range nd.last {
			pending = append(pending, dl{m, 1 - i, "honest"})
		}
	}
	c.Count("twoparty/mode/" + mode)
	stopAt := -1
	if mode == "stop" {
		stopAt = 1 + c.Intn(6)
	}
	history := []dl{}
	steps := 0
	for len(pending) > 0 && steps < 60 {
		steps++
		if steps == stopAt {
			j := c.Intn(2)
			ob := Guard(func() interface{} { nodes[j].call(nodes[j].h.Stop); return nodes[j].observe() })
			c.Emit("stop", J{"sid": nodes[j].sid}, ob)
		}
		k := c.Intn(len(pending))
		d := pending[k]
		r := c.Intn(12)
		switch {
		case r == 0: // duplicate later
		case r == 1 && len(history) > 0:
			d = history[c.Intn(len(history))]
			d.kind = "replay"
		case r == 2 && mode == "cheat":
			sc := &script{Final: sa.Final}
			d.m, d.kind = tamper(c, d.m, sc, nodes[d.to].sc.Self)
		case r == 3 && mode == "cheat": // conflicting duplicate: same header, other value
			t := cloneMsg(d.m)
			var cur sContent
			_ = cbor.Unmarshal(d.m.Data, &cur)
			reencode(t, cur.V+7, cur.F)
			d.m, d.kind = t, "conflicting-duplicate"
		default:
			pending = append(pending[:k], pending[k+1:]...)
		}
		history = append(history, d)
		nd := nodes[d.to]
		ob := Guard(func() interface{} {
			can := nd.h.CanAccept(d.m)
			nd.call(func() { nd.h.Accept(d.m) })
			o := nd.observe()
			o["can"] = can
			return o
		})
		c.Emit("accept", J{"sid": nd.sid, "msg": msgJ(d.m), "kind": d.kind}, ob)
		c.Count("twoparty/delivery/" + d.kind)
		for _, m := range nd.last {
			pending = append(pending, dl{m, 1 - d.to, "honest"})
		}
		nd.last = nil
	}
	for j := 0; j < 2; j++ {
		if c.Intn(2) == 0 {
			ob := Guard(func() interface{} { nodes[j].call(nodes[j].h.Stop); return nodes[j].observe() })
			c.Emit("stop", J{"sid": nodes[j].sid}, ob)
		}
		if len(history) > 0 {
			d := history[c.Intn(len(history))]
			nd := nodes[j]
			ob := Guard(func() interface{} {
				can := nd.h.CanAccept(d.m)
				nd.call(func() { nd.h.Accept(d.m) })
				o := nd.observe()
				o["can"] = can
				return o
			})
			c.Emit("accept", J{"sid": nd.sid, "msg": msgJ(d.m), "kind": "late"}, ob)
		}
	}
}

func init() {
	register("twoparty", func(c *Ctx) {
		modes := []string{"honest", "honest", "cheat", "cheat", "stop"}
		for i := 0; i < c.N; i++ {
			runTwoParty(c, fmt.Sprintf("t%d", i), modes[i%len(modes)])
		}
	})
}
