//go:build verif

package main

// Suite `zk` (property C10): the 15 proof systems of pkg/zk.
//
// For every system: honest proofs by the Go prover for witnesses on the boundary lattice of their
// ranges, then perturbations (every public-input field, the hash-state prefix, every commitment and
// response field, splices from a second valid proof, out-of-range and zero / nil fields). Each case
// carries everything the Lean verifier needs: the hash prefix as typed items (suite_frame.go's TV
// format), the public statement and the proof as {field name: self-describing value}. The Go
// verifier runs under Guard; the Go challenge is read through the white-box accessor
// VerifChallenge (harness/overlay/pkg/zk/<name>/zz_verif_zk.go).
//
// impl = {"ok": accepted, "panic": panicked, "e": challenge, "viol": false [, "outcome": "PANIC", ...]}

import (
	crand "crypto/rand"
	"encoding/json"
	"fmt"
	"math/big"
	mrand "math/rand"
	"os"
	"runtime"
	"sort"
	"strconv"
	"strings"
	"sync"
	"time"

	"github.com/cronokirby/saferith"
	"github.com/fxamacker/cbor/v2"
	"github.com/taurusgroup/multi-party-sig/internal/safecbor"
	"github.com/taurusgroup/multi-party-sig/internal/elgamal"
	"github.com/taurusgroup/multi-party-sig/internal/params"
	"github.com/taurusgroup/multi-party-sig/pkg/hash"
	"github.com/taurusgroup/multi-party-sig/pkg/math/arith"
	"github.com/taurusgroup/multi-party-sig/pkg/math/curve"
	"github.com/taurusgroup/multi-party-sig/pkg/math/sample"
	"github.com/taurusgroup/multi-party-sig/pkg/paillier"
	"github.com/taurusgroup/multi-party-sig/pkg/pedersen"
	"github.com/taurusgroup/multi-party-sig/pkg/zk"
	zkaffg "github.com/taurusgroup/multi-party-sig/pkg/zk/affg"
	zkaffp "github.com/taurusgroup/multi-party-sig/pkg/zk/affp"
	zkdec "github.com/taurusgroup/multi-party-sig/pkg/zk/dec"
	zkelog "github.com/taurusgroup/multi-party-sig/pkg/zk/elog"
	zkenc "github.com/taurusgroup/multi-party-sig/pkg/zk/enc"
	zkencelg "github.com/taurusgroup/multi-party-sig/pkg/zk/encelg"
	zkfac "github.com/taurusgroup/multi-party-sig/pkg/zk/fac"
	zklog "github.com/taurusgroup/multi-party-sig/pkg/zk/log"
	zklogstar "github.com/taurusgroup/multi-party-sig/pkg/zk/logstar"
	zkmod "github.com/taurusgroup/multi-party-sig/pkg/zk/mod"
	zkmul "github.com/taurusgroup/multi-party-sig/pkg/zk/mul"
	zkmulstar "github.com/taurusgroup/multi-party-sig/pkg/zk/mulstar"
	zknth "github.com/taurusgroup/multi-party-sig/pkg/zk/nth"
	zkprm "github.com/taurusgroup/multi-party-sig/pkg/zk/prm"
	zksch "github.com/taurusgroup/multi-party-sig/pkg/zk/sch"
)

var zkGroup = curve.Secp256k1{}

// ---------------------------------------------------------------------------------------------
// self-describing values

type zv = J
type zrec = map[string]zv

func nilOr(isNil bool, k string, f func() string) zv {
	if isNil {
		return zv{"k": k, "v": nil}
	}
	return zv{"k": k, "v": f()}
}

func vNat(n *saferith.Nat) zv { return nilOr(n == nil, "nat", func() string { return hx(n.Bytes()) }) }
func vInt(i *saferith.Int) zv {
	return nilOr(i == nil, "int", func() string {
		s := i.Abs().Big().Text(16)
		if i.IsNegative() == 1 {
			s = "-" + s
		}
		return s
	})
}
func vBig(b *big.Int) zv { return nilOr(b == nil, "big", func() string { return bighex(b) }) }
func vPt(p curve.Point) zv {
	return nilOr(p == nil, "pt", func() string { b, _ := p.MarshalBinary(); return hx(b) })
}
func vSc(s curve.Scalar) zv {
	return nilOr(s == nil, "sc", func() string { b, _ := s.MarshalBinary(); return hx(b) })
}
func vCt(c *paillier.Ciphertext) zv {
	return nilOr(c == nil, "ct", func() string { return c.Nat().Big().Text(16) })
}
func vPk(pk *paillier.PublicKey) zv { return zv{"k": "pk", "v": pk.N().Big().Text(16)} }
func vMod(m *saferith.Modulus) zv   { return zv{"k": "mod", "v": m.Big().Text(16)} }
func vPed(p *pedersen.Parameters) zv {
	return zv{"k": "ped", "n": p.N().Big().Text(16), "s": p.S().Big().Text(16), "t": p.T().Big().Text(16)}
}
func vElg(e *elgamal.Ciphertext) zv {
	l, _ := e.L.MarshalBinary()
	m, _ := e.M.MarshalBinary()
	return zv{"k": "elg", "l": hx(l), "m": hx(m)}
}
func vBool(b bool) zv            { return zv{"k": "bool", "v": b} }
func vList(l []zv) zv            { return zv{"k": "list", "v": l} }
func isNilV(v zv) bool           { _, has := v["v"]; return has && v["v"] == nil }
func strV(v zv) string           { return v["v"].(string) }
func bigOfHex(s string) *big.Int { return parseBig(s) }

func gNat(v zv) *saferith.Nat {
	if isNilV(v) {
		return nil
	}
	return new(saferith.Nat).SetBytes(unhx(strV(v)))
}
func gInt(v zv) *saferith.Int {
	if isNilV(v) {
		return nil
	}
	s := strV(v)
	neg := strings.HasPrefix(s, "-")
	s = strings.TrimPrefix(s, "-")
	a := bigOfHex(s)
	out := new(saferith.Int).SetBig(a, a.BitLen())
	if neg {
		out.Neg(1)
	}
	return out
}
func gBig(v zv) *big.Int {
	if isNilV(v) {
		return nil
	}
	return bigOfHex(strV(v))
}

var identityHex = "02" + strings.Repeat("00", 32)

func gPt(v zv) curve.Point {
	if isNilV(v) {
		return nil
	}
	if strV(v) == identityHex {
		return zkGroup.NewPoint()
	}
	p := zkGroup.NewPoint()
	if err := p.UnmarshalBinary(unhx(strV(v))); err != nil {
		panic("harness: bad point " + strV(v))
	}
	return p
}
func gSc(v zv) curve.Scalar {
	if isNilV(v) {
		return nil
	}
	s := zkGroup.NewScalar()
	if err := s.UnmarshalBinary(unhx(strV(v))); err != nil {
		panic("harness: bad scalar")
	}
	return s
}
func gCt(v zv) *paillier.Ciphertext {
	if isNilV(v) {
		return nil
	}
	a := bigOfHex(strV(v))
	ct := &paillier.Ciphertext{}
	_ = ct.UnmarshalBinary(a.Bytes())
	return ct
}
func natOfBig(a *big.Int) *saferith.Nat { return new(saferith.Nat).SetBig(a, a.BitLen()) }

var pkCache = map[string]*paillier.PublicKey{}

func gPk(v zv) *paillier.PublicKey {
	if pk, ok := pkCache[strV(v)]; ok {
		return pk
	}
	pk := paillier.NewPublicKey(saferith.ModulusFromNat(natOfBig(bigOfHex(strV(v)))))
	pkCache[strV(v)] = pk
	return pk
}
func gMod(v zv) *saferith.Modulus { return saferith.ModulusFromNat(natOfBig(bigOfHex(strV(v)))) }

var pedCache = map[string]*pedersen.Parameters{}

func gPed(v zv) *pedersen.Parameters {
	key := v["n"].(string) + "|" + v["s"].(string) + "|" + v["t"].(string)
	if p, ok := pedCache[key]; ok {
		return p
	}
	n := saferith.ModulusFromNat(natOfBig(bigOfHex(v["n"].(string))))
	p := pedersen.New(arith.ModulusFromN(n), natOfBig(bigOfHex(v["s"].(string))), natOfBig(bigOfHex(v["t"].(string))))
	pedCache[key] = p
	return p
}
func gElg(v zv) *elgamal.Ciphertext {
	return &elgamal.Ciphertext{L: gPt(zv{"k": "pt", "v": v["l"]}), M: gPt(zv{"k": "pt", "v": v["m"]})}
}

func cloneV(v zv) zv {
	out := zv{}
	for k, x := range v {
		if l, ok := x.([]zv); ok {
			l2 := make([]zv, len(l))
			for i := range l {
				l2[i] = cloneV(l[i])
			}
			out[k] = l2
		} else {
			out[k] = x
		}
	}
	return out
}
func cloneRec(r zrec) zrec {
	out := zrec{}
	for k, v := range r {
		out[k] = cloneV(v)
	}
	return out
}

// ---------------------------------------------------------------------------------------------
// keys

type zkKey struct {
	sk  *paillier.SecretKey
	pk  *paillier.PublicKey
	ped *pedersen.Parameters
	lam *saferith.Nat // s = t^lam
}

type zkEnv struct {
	keys []*zkKey
}

func loadFixturePrimes() {
	installPrimeHook(0)
	sample.PaillierPrimeHook = nil
}

func newZkEnv(c *Ctx, nFixture int) *zkEnv {
	env := &zkEnv{}
	// the two fixed pairs of pkg/zk/default.go; zk.Pedersen belongs to the verifier key
	env.keys = append(env.keys, &zkKey{sk: zk.ProverPaillierSecret, pk: zk.ProverPaillierPublic})
	env.keys = append(env.keys, &zkKey{sk: zk.VerifierPaillierSecret, pk: zk.VerifierPaillierPublic, ped: zk.Pedersen})
	loadFixturePrimes()
	for i := 0; i < nFixture; i++ {
		p := new(saferith.Nat).SetNat(fixturePrimes[(2*i)%len(fixturePrimes)])
		q := new(saferith.Nat).SetNat(fixturePrimes[(2*i+1)%len(fixturePrimes)])
		sk := paillier.NewSecretKeyFromPrimes(p, q)
		env.keys = append(env.keys, &zkKey{sk: sk, pk: sk.PublicKey})
	}
	for _, k := range env.keys {
		if k.ped == nil {
			k.ped, k.lam = k.sk.GeneratePedersen()
		}
	}
	return env
}

// pair picks (prover key, verifier key) for base case i: the default pair first, then fixture keys
func (env *zkEnv) pair(i int) (*zkKey, *zkKey) {
	n := len(env.keys)
	switch i % 3 {
	case 0:
		return env.keys[0], env.keys[1]
	case 1:
		return env.keys[2%n], env.keys[3%n]
	default:
		return env.keys[(1+i)%n], env.keys[i%n]
	}
}

// ---------------------------------------------------------------------------------------------
// hash-state prefixes (typed items, as in suite frame)

func idTV(s string) TV { return TV{"t": "id", "hex": hx([]byte(s))} }

func zkPrefix(c *Ctx, i int) []TV {
	switch i % 4 {
	case 0:
		return []TV{}
	case 1:
		return []TV{idTV("a")}
	case 2:
		// shape of round.Helper.HashForID: session material, then the prover's id
		return []TV{{"t": "bwd", "dom": hx([]byte("SSID")), "hex": hx(c.Bytes(32))}, {"t": "ids", "ids": []string{hx([]byte("a")), hx([]byte("b")), hx([]byte("c"))}}, idTV("b")}
	default:
		return []TV{{"t": "rid", "hex": hx(c.Bytes(32))}, {"t": "thr", "n": 2}, idTV("carol")}
	}
}

func hashOf(prefix []TV) *hash.Hash {
	h := hash.New()
	for _, v := range prefix {
		_ = h.WriteAny(toGo(v))
	}
	return h
}

// ---------------------------------------------------------------------------------------------
// witness lattices

func pow2(k uint) *big.Int                { return new(big.Int).Lsh(big.NewInt(1), k) }
func bigAdd(a *big.Int, d int64) *big.Int { return new(big.Int).Add(a, big.NewInt(d)) }
func bigNeg(a *big.Int) *big.Int          { return new(big.Int).Neg(a) }

func sInt(a *big.Int) *saferith.Int { return new(saferith.Int).SetBig(a, a.BitLen()) }

var qBig = func() *big.Int { return curve.Secp256k1{}.Order().Big() }()

// latticeInt: boundary lattice of the range ±2^bits: 0, ±1, ±(2^bits-1), ±2^bits, values around the group
// order, then random ones (sampleNeg pattern). `in` says whether the documented range ±2^bits holds.
func latticeInt(c *Ctx, bits uint, i int) (*big.Int, string) {
	b := pow2(bits)
	fixed := []struct {
		v *big.Int
		d string
	}{
		{big.NewInt(0), "0"}, {big.NewInt(1), "1"}, {big.NewInt(-1), "-1"},
		{bigAdd(b, -1), "2^l-1"}, {bigNeg(bigAdd(b, -1)), "-(2^l-1)"},
		{new(big.Int).Set(b), "2^l"}, {bigNeg(b), "-2^l"},
		{bigAdd(qBig, -1), "q-1"}, {new(big.Int).Set(qBig), "q"}, {big.NewInt(2), "2"},
		{pow2(bits - 1), "2^(l-1)"}, {bigNeg(bigAdd(qBig, 1)), "-(q+1)"},
	}
	if i < len(fixed) {
		return fixed[i].v, fixed[i].d
	}
	v := new(big.Int).Rand(c.Rng, b)
	if c.Intn(2) == 0 {
		v.Neg(v)
	}
	return v, "random"
}

func latticeScalar(c *Ctx, i int, allowZero bool) (curve.Scalar, string) {
	fixed := []struct {
		v *big.Int
		d string
	}{{big.NewInt(1), "1"}, {bigAdd(qBig, -1), "q-1"}, {big.NewInt(2), "2"}, {bigAdd(qBig, -2), "q-2"}, {big.NewInt(0), "0"}}
	var v *big.Int
	d := "random"
	if i < len(fixed) && (allowZero || fixed[i].v.Sign() != 0) {
		v, d = fixed[i].v, fixed[i].d
	} else {
		v = new(big.Int).Rand(c.Rng, qBig)
		if v.Sign() == 0 {
			v.SetInt64(3)
		}
	}
	return zkGroup.NewScalar().SetNat(natOfBig(v)), d
}

func scalarOfInt(x *saferith.Int) curve.Scalar {
	return zkGroup.NewScalar().SetNat(x.Mod(zkGroup.Order()))
}

// ---------------------------------------------------------------------------------------------
// the 15 systems

type zkSys struct {
	name string
	comm []string // commitment fields of the proof record (the rest are responses)
	cost int      // relative cost of one verification (budget divisor)
	// make: honest statement and proof for witness index w, prover/verifier keys, over hash state prefix.
	// class "" = honest; a non-empty class overrides (e.g. "degenerate", "range").
	make   func(c *Ctx, kp, kv *zkKey, w int) (pub zrec, prove func(prefix []TV) zrec, desc, class string)
	verify func(h *hash.Hash, pub, prf zrec) bool
	// wire / unwire: the proof as CBOR, and what a receiving round does with received bytes: decode into the empty
	// proof value the protocol prepares (Empty(group) or &Proof{}), then Verify
	wire   func(prf zrec) ([]byte, error)
	unwire func(data []byte, h *hash.Hash, pub zrec) (bool, error)
	chal   func(h *hash.Hash, pub, prf zrec) string
}

func zkScHex(s curve.Scalar) string {
	b, _ := s.MarshalBinary()
	return new(big.Int).SetBytes(b).Text(16)
}
func intHex(i *saferith.Int, err error) string {
	if err != nil {
		return "err"
	}
	s := i.Abs().Big().Text(16)
	if i.IsNegative() == 1 && s != "0" {
		s = "-" + s
	}
	return s
}
func scRes(s curve.Scalar, err error) string {
	if err != nil {
		return "err"
	}
	return zkScHex(s)
}

// witness classes shared by the Paillier-based systems: index -> (x, description, class)
func intWitness(c *Ctx, bits uint, w int, nLattice int) (*saferith.Int, string, string) {
	if w == nLattice {
		// far outside the documented range: the equations still hold, only the range check can refuse
		v := pow2(bits + 600)
		return sInt(v), "2^(l+600) (out of range witness)", "range"
	}
	if w == nLattice+1 {
		v := bigNeg(bigAdd(pow2(bits+520), 12345))
		return sInt(v), "-(2^(l+520)+12345) (out of range witness)", "range"
	}
	v, d := latticeInt(c, bits, w)
	return sInt(v), d, ""
}

const nLat = 14 // lattice + 2 random values before the out-of-range witnesses

// wShiftN: the extra witness of the systems that tie a Paillier plaintext to a second relation (enc, logstar, encelg):
// the statement encrypts an in-range x0, the prover runs the ordinary algorithm with x0 + N. Every Paillier equation
// still holds (the plaintext only counts mod N), only the range check on the response refuses. For nth: the statement
// is NOT an N-th residue (R = Enc(1)); the key owner takes an N-th root mod N only and proves with it.
const wShiftN = 1000

var zkShiftSystems = map[string]bool{"enc": true, "logstar": true, "encelg": true, "nth": true}

// shiftedWitness: (x0 to encrypt, x0 + N to prove with)
func shiftedWitness(c *Ctx, kp *zkKey) (*saferith.Int, *saferith.Int, string) {
	x0 := new(big.Int).Rand(c.Rng, pow2(params.L))
	x := new(big.Int).Add(x0, kp.pk.N().Big())
	return sInt(x0), sInt(x), "x0+N with x0 random in range (statement encrypts x0)"
}

var zkSystems = []*zkSys{sysSch(), sysLog(), sysElog(), sysEnc(), sysLogstar(), sysAffg(), sysAffp(), sysEncelg(), sysDec(), sysMul(), sysMulstar(), sysNth(), sysFac(), sysPrm(), sysMod()}

func sysSch() *zkSys {
	mk := func(pub zrec) (curve.Point, curve.Point) {
		return gPt(pub["X"]), gPt(pub["gen"])
	}
	prf := func(r zrec) *zksch.Proof {
		p := zksch.EmptyProof(zkGroup)
		p.C.C = gPt(r["C"])
		p.Z.Z = gSc(r["Z"])
		return p
	}
	return &zkSys{name: "sch", comm: []string{"C"}, cost: 1,
		make: func(c *Ctx, kp, kv *zkKey, w int) (zrec, func([]TV) zrec, string, string) {
			x, d := latticeScalar(c, w%8, false)
			var gen curve.Point
			genV := zv{"k": "pt", "v": nil}
			if w%3 == 1 {
				gen = sample.Scalar(c.Rng, zkGroup).ActOnBase()
				genV = vPt(gen)
				d += ", custom generator"
			}
			var X curve.Point
			if gen == nil {
				X = x.ActOnBase()
			} else {
				X = x.Act(gen)
			}
			pubRec := zrec{"X": vPt(X), "gen": genV}
			prove := func(prefix []TV) zrec {
				p := zksch.NewProof(hashOf(prefix), X, x, gen)
				return zrec{"C": vPt(p.C.C), "Z": vSc(p.Z.Z)}
			}
			return pubRec, prove, "x=" + d, ""
		},
		verify: func(h *hash.Hash, pub, r zrec) bool { X, gen := mk(pub); return prf(r).Verify(h, X, gen) },
		wire:   func(r zrec) ([]byte, error) { return cbor.Marshal(prf(r)) },
		unwire: func(data []byte, h *hash.Hash, pub zrec) (bool, error) {
			p := zksch.EmptyProof(zkGroup)
			if err := safecbor.Unmarshal(data, p); err != nil { // the handlers decode received content with safecbor
				return false, err
			}
			return func() bool { X, gen := mk(pub); return p.Verify(h, X, gen) }(), nil
		},
		chal: func(h *hash.Hash, pub, r zrec) string {
			X, gen := mk(pub)
			if gen == nil {
				gen = zkGroup.NewBasePoint()
			}
			return scRes(zksch.VerifChallenge(h, zkGroup, &prf(r).C, X, gen))
		}}
}

func sysLog() *zkSys {
	pubOf := func(r zrec) zklog.Public { return zklog.Public{H: gPt(r["H"]), X: gPt(r["X"]), Y: gPt(r["Y"])} }
	prfOf := func(r zrec) *zklog.Proof {
		p := zklog.Empty(zkGroup)
		p.Commitment = &zklog.Commitment{A: gPt(r["A"]), B: gPt(r["B"]), C: gPt(r["C"])}
		p.Z1, p.Z2 = gSc(r["Z1"]), gSc(r["Z2"])
		return p
	}
	return &zkSys{name: "log", comm: []string{"A", "B", "C"}, cost: 1,
		make: func(c *Ctx, kp, kv *zkKey, w int) (zrec, func([]TV) zrec, string, string) {
			a, da := latticeScalar(c, w%6, true)
			b, db := latticeScalar(c, (w/2)%6, true)
			class := ""
			if b.IsZero() {
				class = "degenerate" // H = identity: B = α•H is the identity and IsValid refuses the honest proof
			}
			H := b.ActOnBase()
			pub := zklog.Public{H: H, X: a.ActOnBase(), Y: a.Act(H)}
			pubRec := zrec{"H": vPt(pub.H), "X": vPt(pub.X), "Y": vPt(pub.Y)}
			prove := func(prefix []TV) zrec {
				p := zklog.NewProof(zkGroup, hashOf(prefix), pub, zklog.Private{A: a, B: b})
				return zrec{"A": vPt(p.A), "B": vPt(p.B), "C": vPt(p.C), "Z1": vSc(p.Z1), "Z2": vSc(p.Z2)}
			}
			return pubRec, prove, "a=" + da + " b=" + db, class
		},
		verify: func(h *hash.Hash, pub, r zrec) bool { return prfOf(r).Verify(h, pubOf(pub)) },
		wire:   func(r zrec) ([]byte, error) { return cbor.Marshal(prfOf(r)) },
		unwire: func(data []byte, h *hash.Hash, pub zrec) (bool, error) {
			p := zklog.Empty(zkGroup)
			if err := safecbor.Unmarshal(data, p); err != nil { // the handlers decode received content with safecbor
				return false, err
			}
			return p.Verify(h, pubOf(pub)), nil
		},
		chal: func(h *hash.Hash, pub, r zrec) string {
			return scRes(zklog.VerifChallenge(h, zkGroup, pubOf(pub), prfOf(r).Commitment))
		}}
}

func sysElog() *zkSys {
	pubOf := func(r zrec) zkelog.Public {
		return zkelog.Public{E: gElg(r["E"]), ElGamalPublic: gPt(r["ElGamalPublic"]), Base: gPt(r["Base"]), Y: gPt(r["Y"])}
	}
	prfOf := func(r zrec) *zkelog.Proof {
		p := zkelog.Empty(zkGroup)
		p.Commitment = &zkelog.Commitment{A: gPt(r["A"]), N: gPt(r["N"]), B: gPt(r["B"])}
		p.Z, p.U = gSc(r["Z"]), gSc(r["U"])
		return p
	}
	return &zkSys{name: "elog", comm: []string{"A", "N", "B"}, cost: 1,
		make: func(c *Ctx, kp, kv *zkKey, w int) (zrec, func([]TV) zrec, string, string) {
			y, dy := latticeScalar(c, w%6, true)
			lam, dl := latticeScalar(c, (w/2)%6, true)
			X := sample.Scalar(c.Rng, zkGroup).ActOnBase()
			Hb := sample.Scalar(c.Rng, zkGroup).ActOnBase()
			E := &elgamal.Ciphertext{L: lam.ActOnBase(), M: y.ActOnBase().Add(lam.Act(X))}
			pub := zkelog.Public{E: E, ElGamalPublic: X, Base: Hb, Y: y.Act(Hb)}
			pubRec := zrec{"E": vElg(E), "ElGamalPublic": vPt(X), "Base": vPt(Hb), "Y": vPt(pub.Y)}
			prove := func(prefix []TV) zrec {
				p := zkelog.NewProof(zkGroup, hashOf(prefix), pub, zkelog.Private{Y: y, Lambda: lam})
				return zrec{"A": vPt(p.A), "N": vPt(p.N), "B": vPt(p.B), "Z": vSc(p.Z), "U": vSc(p.U)}
			}
			return pubRec, prove, "y=" + dy + " lambda=" + dl, ""
		},
		verify: func(h *hash.Hash, pub, r zrec) bool { return prfOf(r).Verify(h, pubOf(pub)) },
		wire:   func(r zrec) ([]byte, error) { return cbor.Marshal(prfOf(r)) },
		unwire: func(data []byte, h *hash.Hash, pub zrec) (bool, error) {
			p := zkelog.Empty(zkGroup)
			if err := safecbor.Unmarshal(data, p); err != nil { // the handlers decode received content with safecbor
				return false, err
			}
			return p.Verify(h, pubOf(pub)), nil
		},
		chal: func(h *hash.Hash, pub, r zrec) string {
			return scRes(zkelog.VerifChallenge(h, zkGroup, pubOf(pub), prfOf(r).Commitment))
		}}
}

func sysEnc() *zkSys {
	pubOf := func(r zrec) zkenc.Public {
		return zkenc.Public{K: gCt(r["K"]), Prover: gPk(r["Prover"]), Aux: gPed(r["Aux"])}
	}
	prfOf := func(r zrec) *zkenc.Proof {
		if _, no := r["_nocommitment"]; no {
			return &zkenc.Proof{Z1: gInt(r["Z1"]), Z2: gNat(r["Z2"]), Z3: gInt(r["Z3"])}
		}
		return &zkenc.Proof{Commitment: &zkenc.Commitment{S: gNat(r["S"]), A: gCt(r["A"]), C: gNat(r["C"])},
			Z1: gInt(r["Z1"]), Z2: gNat(r["Z2"]), Z3: gInt(r["Z3"])}
	}
	return &zkSys{name: "enc", comm: []string{"S", "A", "C"}, cost: 2,
		make: func(c *Ctx, kp, kv *zkKey, w int) (zrec, func([]TV) zrec, string, string) {
			k, d, class := intWitness(c, params.L, w%wShiftN, nLat)
			kEnc := k
			if w == wShiftN {
				kEnc, k, d = shiftedWitness(c, kp)
				class = "range"
			}
			K, rho := kp.pk.Enc(kEnc)
			pub := zkenc.Public{K: K, Prover: kp.pk, Aux: kv.ped}
			pubRec := zrec{"K": vCt(K), "Prover": vPk(kp.pk), "Aux": vPed(kv.ped)}
			prove := func(prefix []TV) zrec {
				p := zkenc.NewProof(zkGroup, hashOf(prefix), pub, zkenc.Private{K: k, Rho: rho})
				return zrec{"S": vNat(p.S), "A": vCt(p.A), "C": vNat(p.C), "Z1": vInt(p.Z1), "Z2": vNat(p.Z2), "Z3": vInt(p.Z3)}
			}
			return pubRec, prove, "k=" + d, class
		},
		verify: func(h *hash.Hash, pub, r zrec) bool { return prfOf(r).Verify(zkGroup, h, pubOf(pub)) },
		wire:   func(r zrec) ([]byte, error) { return cbor.Marshal(prfOf(r)) },
		unwire: func(data []byte, h *hash.Hash, pub zrec) (bool, error) {
			p := &zkenc.Proof{}
			if err := safecbor.Unmarshal(data, p); err != nil { // the handlers decode received content with safecbor
				return false, err
			}
			return p.Verify(zkGroup, h, pubOf(pub)), nil
		},
		chal: func(h *hash.Hash, pub, r zrec) string {
			return intHex(zkenc.VerifChallenge(h, zkGroup, pubOf(pub), prfOf(r).Commitment))
		}}
}

func sysLogstar() *zkSys {
	pubOf := func(r zrec) zklogstar.Public {
		return zklogstar.Public{C: gCt(r["C"]), X: gPt(r["X"]), G: gPt(r["G"]), Prover: gPk(r["Prover"]), Aux: gPed(r["Aux"])}
	}
	prfOf := func(r zrec) *zklogstar.Proof {
		p := zklogstar.Empty(zkGroup)
		p.Commitment = &zklogstar.Commitment{S: gNat(r["S"]), A: gCt(r["A"]), Y: gPt(r["Y"]), D: gNat(r["D"])}
		p.Z1, p.Z2, p.Z3 = gInt(r["Z1"]), gNat(r["Z2"]), gInt(r["Z3"])
		return p
	}
	return &zkSys{name: "logstar", comm: []string{"S", "A", "Y", "D"}, cost: 2,
		make: func(c *Ctx, kp, kv *zkKey, w int) (zrec, func([]TV) zrec, string, string) {
			x, d, class := intWitness(c, params.L, w%wShiftN, nLat)
			xEnc := x
			if w == wShiftN {
				xEnc, x, d = shiftedWitness(c, kp)
				class = "range"
			}
			C, rho := kp.pk.Enc(xEnc)
			var Gp curve.Point
			gV := zv{"k": "pt", "v": nil}
			if w%3 == 2 {
				Gp = sample.Scalar(c.Rng, zkGroup).ActOnBase()
				gV = vPt(Gp)
				d += ", custom G"
			}
			var X curve.Point
			if Gp == nil {
				X = scalarOfInt(x).ActOnBase()
			} else {
				X = scalarOfInt(x).Act(Gp)
			}
			pub := zklogstar.Public{C: C, X: X, G: Gp, Prover: kp.pk, Aux: kv.ped}
			pubRec := zrec{"C": vCt(C), "X": vPt(X), "G": gV, "Prover": vPk(kp.pk), "Aux": vPed(kv.ped)}
			prove := func(prefix []TV) zrec {
				p := zklogstar.NewProof(zkGroup, hashOf(prefix), pub, zklogstar.Private{X: x, Rho: rho})
				return zrec{"S": vNat(p.S), "A": vCt(p.A), "Y": vPt(p.Y), "D": vNat(p.D), "Z1": vInt(p.Z1), "Z2": vNat(p.Z2), "Z3": vInt(p.Z3)}
			}
			return pubRec, prove, "x=" + d, class
		},
		verify: func(h *hash.Hash, pub, r zrec) bool { return prfOf(r).Verify(h, pubOf(pub)) },
		wire:   func(r zrec) ([]byte, error) { return cbor.Marshal(prfOf(r)) },
		unwire: func(data []byte, h *hash.Hash, pub zrec) (bool, error) {
			p := zklogstar.Empty(zkGroup)
			if err := safecbor.Unmarshal(data, p); err != nil { // the handlers decode received content with safecbor
				return false, err
			}
			return p.Verify(h, pubOf(pub)), nil
		},
		chal: func(h *hash.Hash, pub, r zrec) string {
			P := pubOf(pub)
			if P.G == nil {
				P.G = zkGroup.NewBasePoint()
			}
			return intHex(zklogstar.VerifChallenge(h, zkGroup, P, prfOf(r).Commitment))
		}}
}

// the MtA statement shared by affg / affp: D = (x ⊙ Kv) ⊕ Enc_v(y; s), F = Enc_p(y; r)
func affWitness(c *Ctx, w int) (x, y *saferith.Int, d, class string) {
	var dx, dy string
	switch {
	case w == nLat: // only x leaves its range
		x, dx, class = intWitness(c, params.L, nLat, nLat)
		y, dy, _ = intWitness(c, params.LPrime, 5, nLat)
	case w == nLat+1: // only y leaves its range
		x, dx, _ = intWitness(c, params.L, 4, nLat)
		y, dy, class = intWitness(c, params.LPrime, nLat+1, nLat)
	case w >= 12:
		x, dx, _ = intWitness(c, params.L, w, nLat)
		y, dy, _ = intWitness(c, params.LPrime, w, nLat)
	default:
		x, dx, _ = intWitness(c, params.L, w, nLat)
		y, dy, _ = intWitness(c, params.LPrime, (w*5+3)%12, nLat)
	}
	return x, y, "x=" + dx + " y=" + dy, class
}

func sysAffg() *zkSys {
	pubOf := func(r zrec) zkaffg.Public {
		return zkaffg.Public{Kv: gCt(r["Kv"]), Dv: gCt(r["Dv"]), Fp: gCt(r["Fp"]), Xp: gPt(r["Xp"]),
			Prover: gPk(r["Prover"]), Verifier: gPk(r["Verifier"]), Aux: gPed(r["Aux"])}
	}
	prfOf := func(r zrec) *zkaffg.Proof {
		p := zkaffg.Empty(zkGroup)
		p.Commitment = &zkaffg.Commitment{A: gCt(r["A"]), Bx: gPt(r["Bx"]), By: gCt(r["By"]), E: gNat(r["E"]), S: gNat(r["S"]), F: gNat(r["F"]), T: gNat(r["T"])}
		p.Z1, p.Z2, p.Z3, p.Z4, p.W, p.Wy = gInt(r["Z1"]), gInt(r["Z2"]), gInt(r["Z3"]), gInt(r["Z4"]), gNat(r["W"]), gNat(r["Wy"])
		return p
	}
	return &zkSys{name: "affg", comm: []string{"A", "Bx", "By", "E", "S", "F", "T"}, cost: 4,
		make: func(c *Ctx, kp, kv *zkKey, w int) (zrec, func([]TV) zrec, string, string) {
			x, y, d, class := affWitness(c, w)
			kvPlain, _ := latticeInt(c, params.L, (w*7+1)%nLat)
			Kv, _ := kv.pk.Enc(sInt(kvPlain))
			X := scalarOfInt(x).ActOnBase()
			Fp, rhoY := kp.pk.Enc(y)
			tmp := Kv.Clone().Mul(kv.pk, x)
			Dv, rho := kv.pk.Enc(y)
			Dv.Add(kv.pk, tmp)
			pub := zkaffg.Public{Kv: Kv, Dv: Dv, Fp: Fp, Xp: X, Prover: kp.pk, Verifier: kv.pk, Aux: kv.ped}
			pubRec := zrec{"Kv": vCt(Kv), "Dv": vCt(Dv), "Fp": vCt(Fp), "Xp": vPt(X), "Prover": vPk(kp.pk), "Verifier": vPk(kv.pk), "Aux": vPed(kv.ped)}
			prove := func(prefix []TV) zrec {
				p := zkaffg.NewProof(zkGroup, hashOf(prefix), pub, zkaffg.Private{X: x, Y: y, S: rho, R: rhoY})
				return zrec{"A": vCt(p.A), "Bx": vPt(p.Bx), "By": vCt(p.By), "E": vNat(p.E), "S": vNat(p.S), "F": vNat(p.F), "T": vNat(p.T),
					"Z1": vInt(p.Z1), "Z2": vInt(p.Z2), "Z3": vInt(p.Z3), "Z4": vInt(p.Z4), "W": vNat(p.W), "Wy": vNat(p.Wy)}
			}
			return pubRec, prove, d, class
		},
		verify: func(h *hash.Hash, pub, r zrec) bool { return prfOf(r).Verify(h, pubOf(pub)) },
		wire:   func(r zrec) ([]byte, error) { return cbor.Marshal(prfOf(r)) },
		unwire: func(data []byte, h *hash.Hash, pub zrec) (bool, error) {
			p := zkaffg.Empty(zkGroup)
			if err := safecbor.Unmarshal(data, p); err != nil { // the handlers decode received content with safecbor
				return false, err
			}
			return p.Verify(h, pubOf(pub)), nil
		},
		chal: func(h *hash.Hash, pub, r zrec) string {
			return intHex(zkaffg.VerifChallenge(h, zkGroup, pubOf(pub), prfOf(r).Commitment))
		}}
}

func sysAffp() *zkSys {
	pubOf := func(r zrec) zkaffp.Public {
		return zkaffp.Public{Kv: gCt(r["Kv"]), Dv: gCt(r["Dv"]), Fp: gCt(r["Fp"]), Xp: gCt(r["Xp"]),
			Prover: gPk(r["Prover"]), Verifier: gPk(r["Verifier"]), Aux: gPed(r["Aux"])}
	}
	prfOf := func(r zrec) *zkaffp.Proof {
		if _, no := r["_nocommitment"]; no {
			return &zkaffp.Proof{Z1: gInt(r["Z1"]), Z2: gInt(r["Z2"]), Z3: gInt(r["Z3"]), Z4: gInt(r["Z4"]), W: gNat(r["W"]), Wx: gNat(r["Wx"]), Wy: gNat(r["Wy"])}
		}
		return &zkaffp.Proof{Commitment: &zkaffp.Commitment{A: gCt(r["A"]), Bx: gCt(r["Bx"]), By: gCt(r["By"]), E: gNat(r["E"]), S: gNat(r["S"]), F: gNat(r["F"]), T: gNat(r["T"])},
			Z1: gInt(r["Z1"]), Z2: gInt(r["Z2"]), Z3: gInt(r["Z3"]), Z4: gInt(r["Z4"]), W: gNat(r["W"]), Wx: gNat(r["Wx"]), Wy: gNat(r["Wy"])}
	}
	return &zkSys{name: "affp", comm: []string{"A", "Bx", "By", "E", "S", "F", "T"}, cost: 5,
		make: func(c *Ctx, kp, kv *zkKey, w int) (zrec, func([]TV) zrec, string, string) {
			x, y, d, class := affWitness(c, w)
			kvPlain, _ := latticeInt(c, params.L, (w*7+1)%nLat)
			Kv, _ := kv.pk.Enc(sInt(kvPlain))
			Xp, rhoX := kp.pk.Enc(x)
			Fp, rhoY := kp.pk.Enc(y)
			tmp := Kv.Clone().Mul(kv.pk, x)
			Dv, rho := kv.pk.Enc(y)
			Dv.Add(kv.pk, tmp)
			pub := zkaffp.Public{Kv: Kv, Dv: Dv, Fp: Fp, Xp: Xp, Prover: kp.pk, Verifier: kv.pk, Aux: kv.ped}
			pubRec := zrec{"Kv": vCt(Kv), "Dv": vCt(Dv), "Fp": vCt(Fp), "Xp": vCt(Xp), "Prover": vPk(kp.pk), "Verifier": vPk(kv.pk), "Aux": vPed(kv.ped)}
			prove := func(prefix []TV) zrec {
				p := zkaffp.NewProof(zkGroup, hashOf(prefix), pub, zkaffp.Private{X: x, Y: y, S: rho, Rx: rhoX, R: rhoY})
				return zrec{"A": vCt(p.A), "Bx": vCt(p.Bx), "By": vCt(p.By), "E": vNat(p.E), "S": vNat(p.S), "F": vNat(p.F), "T": vNat(p.T),
					"Z1": vInt(p.Z1), "Z2": vInt(p.Z2), "Z3": vInt(p.Z3), "Z4": vInt(p.Z4), "W": vNat(p.W), "Wx": vNat(p.Wx), "Wy": vNat(p.Wy)}
			}
			return pubRec, prove, d, class
		},
		verify: func(h *hash.Hash, pub, r zrec) bool { return prfOf(r).Verify(zkGroup, h, pubOf(pub)) },
		wire:   func(r zrec) ([]byte, error) { return cbor.Marshal(prfOf(r)) },
		unwire: func(data []byte, h *hash.Hash, pub zrec) (bool, error) {
			p := &zkaffp.Proof{}
			if err := safecbor.Unmarshal(data, p); err != nil { // the handlers decode received content with safecbor
				return false, err
			}
			return p.Verify(zkGroup, h, pubOf(pub)), nil
		},
		chal: func(h *hash.Hash, pub, r zrec) string {
			return intHex(zkaffp.VerifChallenge(h, zkGroup, pubOf(pub), prfOf(r).Commitment))
		}}
}

func sysEncelg() *zkSys {
	pubOf := func(r zrec) zkencelg.Public {
		return zkencelg.Public{C: gCt(r["C"]), A: gPt(r["A"]), B: gPt(r["B"]), X: gPt(r["X"]), Prover: gPk(r["Prover"]), Aux: gPed(r["Aux"])}
	}
	prfOf := func(r zrec) *zkencelg.Proof {
		p := zkencelg.Empty(zkGroup)
		p.Commitment = &zkencelg.Commitment{S: gNat(r["S"]), D: gCt(r["D"]), Y: gPt(r["Y"]), Z: gPt(r["Z"]), T: gNat(r["T"])}
		p.Z1, p.W, p.Z2, p.Z3 = gInt(r["Z1"]), gSc(r["W"]), gNat(r["Z2"]), gInt(r["Z3"])
		return p
	}
	return &zkSys{name: "encelg", comm: []string{"S", "D", "Y", "Z", "T"}, cost: 2,
		make: func(c *Ctx, kp, kv *zkKey, w int) (zrec, func([]TV) zrec, string, string) {
			x, d, class := intWitness(c, params.L, w%wShiftN, nLat)
			xEnc := x
			if w == wShiftN {
				xEnc, x, d = shiftedWitness(c, kp)
				class = "range"
			}
			a, da := latticeScalar(c, (w/2)%6, true)
			b, db := latticeScalar(c, (w/3)%6, true)
			C, rho := kp.pk.Enc(xEnc)
			abx := zkGroup.NewScalar().Set(a).Mul(b).Add(scalarOfInt(x))
			pub := zkencelg.Public{C: C, A: a.ActOnBase(), B: b.ActOnBase(), X: abx.ActOnBase(), Prover: kp.pk, Aux: kv.ped}
			pubRec := zrec{"C": vCt(C), "A": vPt(pub.A), "B": vPt(pub.B), "X": vPt(pub.X), "Prover": vPk(kp.pk), "Aux": vPed(kv.ped)}
			prove := func(prefix []TV) zrec {
				p := zkencelg.NewProof(zkGroup, hashOf(prefix), pub, zkencelg.Private{X: x, Rho: rho, A: a, B: b})
				return zrec{"S": vNat(p.S), "D": vCt(p.D), "Y": vPt(p.Y), "Z": vPt(p.Z), "T": vNat(p.T), "Z1": vInt(p.Z1), "W": vSc(p.W), "Z2": vNat(p.Z2), "Z3": vInt(p.Z3)}
			}
			return pubRec, prove, "x=" + d + " a=" + da + " b=" + db, class
		},
		verify: func(h *hash.Hash, pub, r zrec) bool { return prfOf(r).Verify(h, pubOf(pub)) },
		wire:   func(r zrec) ([]byte, error) { return cbor.Marshal(prfOf(r)) },
		unwire: func(data []byte, h *hash.Hash, pub zrec) (bool, error) {
			p := zkencelg.Empty(zkGroup)
			if err := safecbor.Unmarshal(data, p); err != nil { // the handlers decode received content with safecbor
				return false, err
			}
			return p.Verify(h, pubOf(pub)), nil
		},
		chal: func(h *hash.Hash, pub, r zrec) string {
			return intHex(zkencelg.VerifChallenge(h, zkGroup, pubOf(pub), prfOf(r).Commitment))
		}}
}

func halfN(k *zkKey) *big.Int { return new(big.Int).Rsh(k.pk.N().Big(), 1) }

func sysDec() *zkSys {
	pubOf := func(r zrec) zkdec.Public {
		return zkdec.Public{C: gCt(r["C"]), X: gSc(r["X"]), Prover: gPk(r["Prover"]), Aux: gPed(r["Aux"])}
	}
	prfOf := func(r zrec) *zkdec.Proof {
		p := zkdec.Empty(zkGroup)
		p.Commitment = &zkdec.Commitment{S: gNat(r["S"]), T: gNat(r["T"]), A: gCt(r["A"]), Gamma: gSc(r["Gamma"])}
		p.Z1, p.Z2, p.W = gInt(r["Z1"]), gInt(r["Z2"]), gNat(r["W"])
		return p
	}
	return &zkSys{name: "dec", comm: []string{"S", "T", "A", "Gamma"}, cost: 2,
		make: func(c *Ctx, kp, kv *zkKey, w int) (zrec, func([]TV) zrec, string, string) {
			var y *saferith.Int
			var d, class string
			switch w {
			case nLat:
				// a plaintext the statement C = Enc(y) allows (|y| ≤ (N-1)/2) but for which z₁ = α + e·y
				// exceeds (N-1)/2: zkdec has no range check before EncWithNonce(z₁, w)
				y, d, class = sInt(halfN(kp)), "(N-1)/2 (largest plaintext)", "honest"
			case nLat + 1:
				y, d, class = sInt(bigNeg(pow2(1900))), "-2^1900", "honest"
			default:
				y, d, class = intWitness(c, params.L, w, nLat)
			}
			C, rho := kp.pk.Enc(y)
			pub := zkdec.Public{C: C, X: scalarOfInt(y), Prover: kp.pk, Aux: kv.ped}
			pubRec := zrec{"C": vCt(C), "X": vSc(pub.X), "Prover": vPk(kp.pk), "Aux": vPed(kv.ped)}
			prove := func(prefix []TV) zrec {
				p := zkdec.NewProof(zkGroup, hashOf(prefix), pub, zkdec.Private{Y: y, Rho: rho})
				return zrec{"S": vNat(p.S), "T": vNat(p.T), "A": vCt(p.A), "Gamma": vSc(p.Gamma), "Z1": vInt(p.Z1), "Z2": vInt(p.Z2), "W": vNat(p.W)}
			}
			return pubRec, prove, "y=" + d, class
		},
		verify: func(h *hash.Hash, pub, r zrec) bool { return prfOf(r).Verify(h, pubOf(pub)) },
		wire:   func(r zrec) ([]byte, error) { return cbor.Marshal(prfOf(r)) },
		unwire: func(data []byte, h *hash.Hash, pub zrec) (bool, error) {
			p := zkdec.Empty(zkGroup)
			if err := safecbor.Unmarshal(data, p); err != nil { // the handlers decode received content with safecbor
				return false, err
			}
			return p.Verify(h, pubOf(pub)), nil
		},
		chal: func(h *hash.Hash, pub, r zrec) string {
			return intHex(zkdec.VerifChallenge(h, zkGroup, pubOf(pub), prfOf(r).Commitment))
		}}
}

func sysMul() *zkSys {
	pubOf := func(r zrec) zkmul.Public {
		return zkmul.Public{X: gCt(r["X"]), Y: gCt(r["Y"]), C: gCt(r["C"]), Prover: gPk(r["Prover"])}
	}
	prfOf := func(r zrec) *zkmul.Proof {
		if _, no := r["_nocommitment"]; no {
			return &zkmul.Proof{Z: gInt(r["Z"]), U: gNat(r["U"]), V: gNat(r["V"])}
		}
		return &zkmul.Proof{Commitment: &zkmul.Commitment{A: gCt(r["A"]), B: gCt(r["B"])}, Z: gInt(r["Z"]), U: gNat(r["U"]), V: gNat(r["V"])}
	}
	return &zkSys{name: "mul", comm: []string{"A", "B"}, cost: 3,
		make: func(c *Ctx, kp, kv *zkKey, w int) (zrec, func([]TV) zrec, string, string) {
			var x *saferith.Int
			var d, class string
			switch w {
			case nLat:
				x, d, class = sInt(halfN(kp)), "(N-1)/2 (largest plaintext)", "honest"
			case nLat + 1:
				x, d, class = sInt(pow2(1850)), "2^1850", "honest"
			default:
				x, d, class = intWitness(c, params.L, w, nLat)
			}
			X, rhoX := kp.pk.Enc(x)
			yPlain, _ := latticeInt(c, params.L, (w*3+2)%nLat)
			Y, _ := kp.pk.Enc(sInt(yPlain))
			C := Y.Clone().Mul(kp.pk, x)
			rho := C.Randomize(kp.pk, nil)
			pub := zkmul.Public{X: X, Y: Y, C: C, Prover: kp.pk}
			pubRec := zrec{"X": vCt(X), "Y": vCt(Y), "C": vCt(C), "Prover": vPk(kp.pk)}
			prove := func(prefix []TV) zrec {
				p := zkmul.NewProof(zkGroup, hashOf(prefix), pub, zkmul.Private{X: x, Rho: rho, RhoX: rhoX})
				return zrec{"A": vCt(p.A), "B": vCt(p.B), "Z": vInt(p.Z), "U": vNat(p.U), "V": vNat(p.V)}
			}
			return pubRec, prove, "x=" + d, class
		},
		verify: func(h *hash.Hash, pub, r zrec) bool { return prfOf(r).Verify(zkGroup, h, pubOf(pub)) },
		wire:   func(r zrec) ([]byte, error) { return cbor.Marshal(prfOf(r)) },
		unwire: func(data []byte, h *hash.Hash, pub zrec) (bool, error) {
			p := &zkmul.Proof{}
			if err := safecbor.Unmarshal(data, p); err != nil { // the handlers decode received content with safecbor
				return false, err
			}
			return p.Verify(zkGroup, h, pubOf(pub)), nil
		},
		chal: func(h *hash.Hash, pub, r zrec) string {
			return intHex(zkmul.VerifChallenge(h, zkGroup, pubOf(pub), prfOf(r).Commitment))
		}}
}

func sysMulstar() *zkSys {
	pubOf := func(r zrec) zkmulstar.Public {
		return zkmulstar.Public{C: gCt(r["C"]), D: gCt(r["D"]), X: gPt(r["X"]), Verifier: gPk(r["Verifier"]), Aux: gPed(r["Aux"])}
	}
	prfOf := func(r zrec) *zkmulstar.Proof {
		p := zkmulstar.Empty(zkGroup)
		p.Commitment = &zkmulstar.Commitment{A: gCt(r["A"]), Bx: gPt(r["Bx"]), E: gNat(r["E"]), S: gNat(r["S"])}
		p.Z1, p.Z2, p.W = gInt(r["Z1"]), gInt(r["Z2"]), gNat(r["W"])
		return p
	}
	return &zkSys{name: "mulstar", comm: []string{"A", "Bx", "E", "S"}, cost: 2,
		make: func(c *Ctx, kp, kv *zkKey, w int) (zrec, func([]TV) zrec, string, string) {
			x, d, class := intWitness(c, params.L, w, nLat)
			cPlain, _ := latticeInt(c, params.L, (w*3+2)%nLat)
			C, _ := kv.pk.Enc(sInt(cPlain))
			D := C.Clone().Mul(kv.pk, x)
			rho := D.Randomize(kv.pk, nil)
			pub := zkmulstar.Public{C: C, D: D, X: scalarOfInt(x).ActOnBase(), Verifier: kv.pk, Aux: kv.ped}
			pubRec := zrec{"C": vCt(C), "D": vCt(D), "X": vPt(pub.X), "Verifier": vPk(kv.pk), "Aux": vPed(kv.ped)}
			prove := func(prefix []TV) zrec {
				p := zkmulstar.NewProof(zkGroup, hashOf(prefix), pub, zkmulstar.Private{X: x, Rho: rho})
				return zrec{"A": vCt(p.A), "Bx": vPt(p.Bx), "E": vNat(p.E), "S": vNat(p.S), "Z1": vInt(p.Z1), "Z2": vInt(p.Z2), "W": vNat(p.W)}
			}
			return pubRec, prove, "x=" + d, class
		},
		verify: func(h *hash.Hash, pub, r zrec) bool { return prfOf(r).Verify(zkGroup, h, pubOf(pub)) },
		wire:   func(r zrec) ([]byte, error) { return cbor.Marshal(prfOf(r)) },
		unwire: func(data []byte, h *hash.Hash, pub zrec) (bool, error) {
			p := zkmulstar.Empty(zkGroup)
			if err := safecbor.Unmarshal(data, p); err != nil { // the handlers decode received content with safecbor
				return false, err
			}
			return p.Verify(zkGroup, h, pubOf(pub)), nil
		},
		chal: func(h *hash.Hash, pub, r zrec) string {
			return intHex(zkmulstar.VerifChallenge(h, zkGroup, pubOf(pub), prfOf(r).Commitment))
		}}
}

func sysNth() *zkSys {
	pubOf := func(r zrec) zknth.Public { return zknth.Public{N: gPk(r["N"]), R: gNat(r["R"])} }
	prfOf := func(r zrec) *zknth.Proof {
		return &zknth.Proof{Commitment: zknth.Commitment{A: gNat(r["A"])}, Z: gNat(r["Z"])}
	}
	return &zkSys{name: "nth", comm: []string{"A"}, cost: 2,
		make: func(c *Ctx, kp, kv *zkKey, w int) (zrec, func([]TV) zrec, string, string) {
			N := kp.pk.N()
			var rho *saferith.Nat
			d := "random unit"
			switch w {
			case 0:
				rho, d = new(saferith.Nat).SetUint64(1).Resize(N.BitLen()), "1"
			case 1:
				rho, d = natOfBig(bigAdd(N.Big(), -1)), "N-1"
			case 2:
				rho, d = new(saferith.Nat).SetUint64(2).Resize(N.BitLen()), "2"
			default:
				rho = sample.UnitModN(c.Rng, N)
			}
			R := kp.pk.ModulusSquared().Exp(rho, N.Nat())
			class := ""
			if w == wShiftN {
				// R = Enc(1; rho0) is no N-th residue mod N^2; rho = (R mod N)^(1/N mod phi) is an N-th root of R mod N only
				one := new(saferith.Int).SetUint64(1)
				ct, _ := kp.pk.Enc(one)
				R = ct.Nat()
				phi := kp.sk.Phi().Big()
				nInv := new(big.Int).ModInverse(N.Big(), phi)
				rb := new(big.Int).Exp(new(big.Int).Mod(R.Big(), N.Big()), nInv, N.Big())
				rho, d, class = natOfBig(rb), "N-th root mod N of the non-residue Enc(1)", "false-statement"
			}
			pub := zknth.Public{N: kp.pk, R: R}
			pubRec := zrec{"N": vPk(kp.pk), "R": vNat(R)}
			prove := func(prefix []TV) zrec {
				p := zknth.NewProof(hashOf(prefix), pub, zknth.Private{Rho: rho})
				return zrec{"A": vNat(p.A), "Z": vNat(p.Z)}
			}
			return pubRec, prove, "rho=" + d, class
		},
		verify: func(h *hash.Hash, pub, r zrec) bool { return prfOf(r).Verify(h, pubOf(pub)) },
		wire:   func(r zrec) ([]byte, error) { return cbor.Marshal(prfOf(r)) },
		unwire: func(data []byte, h *hash.Hash, pub zrec) (bool, error) {
			p := &zknth.Proof{}
			if err := safecbor.Unmarshal(data, p); err != nil { // the handlers decode received content with safecbor
				return false, err
			}
			return p.Verify(h, pubOf(pub)), nil
		},
		chal: func(h *hash.Hash, pub, r zrec) string {
			return intHex(zknth.VerifChallenge(h, pubOf(pub), prfOf(r).Commitment))
		}}
}

// seededPrime: the first prime at or after a seeded odd number of exactly `bits` bits (deterministic from the seed)
func seededPrime(c *Ctx, bits int) *big.Int {
	b := c.Bytes((bits + 7) / 8)
	x := new(big.Int).SetBytes(b)
	x.SetBit(x, bits-1, 1)
	for i := x.BitLen() - 1; i >= bits; i-- {
		x.SetBit(x, i, 0)
	}
	x.SetBit(x, 0, 1)
	for !x.ProbablyPrime(20) {
		x.Add(x, big.NewInt(2))
	}
	return x
}

func sysFac() *zkSys {
	pubOf := func(r zrec) zkfac.Public { return zkfac.Public{N: gMod(r["N"]), Aux: gPed(r["Aux"])} }
	prfOf := func(r zrec) *zkfac.Proof {
		return &zkfac.Proof{Comm: zkfac.Commitment{P: gNat(r["P"]), Q: gNat(r["Q"]), A: gNat(r["A"]), B: gNat(r["B"]), T: gNat(r["T"])},
			Sigma: gInt(r["Sigma"]), Z1: gInt(r["Z1"]), Z2: gInt(r["Z2"]), W1: gInt(r["W1"]), W2: gInt(r["W2"]), V: gInt(r["V"])}
	}
	return &zkSys{name: "fac", comm: []string{"P", "Q", "A", "B", "T"}, cost: 4,
		make: func(c *Ctx, kp, kv *zkKey, w int) (zrec, func([]TV) zrec, string, string) {
			pub := zkfac.Public{N: kp.pk.N(), Aux: kv.ped}
			P, Q, d := kp.sk.P(), kp.sk.Q(), "p,q"
			if w%2 == 1 {
				P, Q, d = Q, P, "q,p (factors swapped)"
			}
			class := ""
			if w >= nLat {
				// the statement the proof exists to refuse: a modulus with a small factor (300 bits x 1748 bits). The
				// ordinary prover's response for the large factor is then out of range (~2003 bits > 1 + l + eps + 1024)
				// while every equation holds and the other response is in range: Verify must refuse it.
				small, large := seededPrime(c, 300), seededPrime(c, 1748)
				n := new(big.Int).Mul(small, large)
				pub.N = saferith.ModulusFromNat(new(saferith.Nat).SetBig(n, n.BitLen()))
				P, Q = new(saferith.Nat).SetBig(small, small.BitLen()), new(saferith.Nat).SetBig(large, large.BitLen())
				d, class = "unbalanced factors 300 x 1748 bits (z2 out of range)", "range"
				if w == nLat+1 {
					P, Q = Q, P
					d = "unbalanced factors 1748 x 300 bits (z1 out of range)"
				}
			}
			pubRec := zrec{"N": vMod(pub.N), "Aux": vPed(kv.ped)}
			prove := func(prefix []TV) zrec {
				p := zkfac.NewProof(zkfac.Private{P: P, Q: Q}, hashOf(prefix), pub)
				return zrec{"P": vNat(p.Comm.P), "Q": vNat(p.Comm.Q), "A": vNat(p.Comm.A), "B": vNat(p.Comm.B), "T": vNat(p.Comm.T),
					"Sigma": vInt(p.Sigma), "Z1": vInt(p.Z1), "Z2": vInt(p.Z2), "W1": vInt(p.W1), "W2": vInt(p.W2), "V": vInt(p.V)}
			}
			return pubRec, prove, d, class
		},
		verify: func(h *hash.Hash, pub, r zrec) bool { return prfOf(r).Verify(pubOf(pub), h) },
		wire:   func(r zrec) ([]byte, error) { return cbor.Marshal(prfOf(r)) },
		unwire: func(data []byte, h *hash.Hash, pub zrec) (bool, error) {
			p := &zkfac.Proof{}
			if err := safecbor.Unmarshal(data, p); err != nil { // the handlers decode received content with safecbor
				return false, err
			}
			return p.Verify(pubOf(pub), h), nil
		},
		chal: func(h *hash.Hash, pub, r zrec) string {
			return intHex(zkfac.VerifChallenge(h, pubOf(pub), prfOf(r).Comm))
		}}
}

func bigList(v zv) (out [params.StatParam]*big.Int) {
	l := v["v"].([]zv)
	for i := 0; i < params.StatParam && i < len(l); i++ {
		out[i] = gBig(l[i])
	}
	return
}

func sysPrm() *zkSys {
	pubOf := func(r zrec) zkprm.Public { return zkprm.Public{Aux: gPed(r["Aux"])} }
	prfOf := func(r zrec) *zkprm.Proof { return &zkprm.Proof{As: bigList(r["As"]), Zs: bigList(r["Zs"])} }
	return &zkSys{name: "prm", comm: []string{"As"}, cost: 12,
		make: func(c *Ctx, kp, kv *zkKey, w int) (zrec, func([]TV) zrec, string, string) {
			k := kv
			if k.lam == nil {
				k = kp
			}
			if k.lam == nil { // the default Pedersen parameters ship without λ: use a fixture key
				panic("harness: no key with known lambda")
			}
			pub := zkprm.Public{Aux: k.ped}
			pubRec := zrec{"Aux": vPed(k.ped)}
			prove := func(prefix []TV) zrec {
				p := zkprm.NewProof(zkprm.Private{Lambda: k.lam, Phi: k.sk.Phi(), P: k.sk.P(), Q: k.sk.Q()}, hashOf(prefix), pub, nil)
				as, zs := make([]zv, params.StatParam), make([]zv, params.StatParam)
				for i := 0; i < params.StatParam; i++ {
					as[i], zs[i] = vBig(p.As[i]), vBig(p.Zs[i])
				}
				return zrec{"As": vList(as), "Zs": vList(zs)}
			}
			return pubRec, prove, "lambda", ""
		},
		verify: func(h *hash.Hash, pub, r zrec) bool { return prfOf(r).Verify(pubOf(pub), h, nil) },
		wire:   func(r zrec) ([]byte, error) { return cbor.Marshal(prfOf(r)) },
		unwire: func(data []byte, h *hash.Hash, pub zrec) (bool, error) {
			p := &zkprm.Proof{}
			if err := safecbor.Unmarshal(data, p); err != nil { // the handlers decode received content with safecbor
				return false, err
			}
			return p.Verify(pubOf(pub), h, nil), nil
		},
		chal: func(h *hash.Hash, pub, r zrec) string {
			es, err := zkprm.VerifChallenge(h, pubOf(pub), prfOf(r).As)
			if err != nil {
				return "err"
			}
			var b strings.Builder
			for _, e := range es {
				if e {
					b.WriteByte('1')
				} else {
					b.WriteByte('0')
				}
			}
			return b.String()
		}}
}

func sysMod() *zkSys {
	pubOf := func(r zrec) zkmod.Public { return zkmod.Public{N: gMod(r["N"])} }
	prfOf := func(r zrec) *zkmod.Proof {
		p := &zkmod.Proof{W: gBig(r["W"])}
		l := r["Responses"]["v"].([]zv)
		for i := 0; i < params.StatParam && i < len(l); i++ {
			f := l[i]["v"].([]zv)
			p.Responses[i] = zkmod.Response{A: f[0]["v"].(bool), B: f[1]["v"].(bool), X: gBig(f[2]), Z: gBig(f[3])}
		}
		return p
	}
	return &zkSys{name: "mod", comm: []string{"W"}, cost: 12,
		make: func(c *Ctx, kp, kv *zkKey, w int) (zrec, func([]TV) zrec, string, string) {
			pub := zkmod.Public{N: kp.pk.N()}
			pubRec := zrec{"N": vMod(pub.N)}
			prove := func(prefix []TV) zrec {
				p := zkmod.NewProof(hashOf(prefix), zkmod.Private{P: kp.sk.P(), Q: kp.sk.Q(), Phi: kp.sk.Phi()}, pub, nil)
				rs := make([]zv, params.StatParam)
				for i, r := range p.Responses {
					rs[i] = vList([]zv{vBool(r.A), vBool(r.B), vBig(r.X), vBig(r.Z)})
				}
				return zrec{"W": vBig(p.W), "Responses": vList(rs)}
			}
			return pubRec, prove, "p,q", ""
		},
		verify: func(h *hash.Hash, pub, r zrec) bool { return prfOf(r).Verify(pubOf(pub), h, nil) },
		wire:   func(r zrec) ([]byte, error) { return cbor.Marshal(prfOf(r)) },
		unwire: func(data []byte, h *hash.Hash, pub zrec) (bool, error) {
			p := &zkmod.Proof{}
			if err := safecbor.Unmarshal(data, p); err != nil { // the handlers decode received content with safecbor
				return false, err
			}
			return p.Verify(pubOf(pub), h, nil), nil
		},
		chal: func(h *hash.Hash, pub, r zrec) string {
			ys, err := zkmod.VerifChallenge(h, pubOf(pub).N, prfOf(r).W)
			if err != nil {
				return "err"
			}
			sum := new(big.Int)
			for _, y := range ys {
				sum.Add(sum, y.Big())
			}
			return sum.Text(16)
		}}
}

// ---------------------------------------------------------------------------------------------
// perturbations

type zkCase struct {
	class, desc string
	prefix      []TV
	pub, prf    zrec
}

func sortedKeys(r zrec) []string {
	ks := make([]string, 0, len(r))
	for k := range r {
		ks = append(ks, k)
	}
	sort.Strings(ks)
	return ks
}

func hexAddBytes(h string, d int64) string {
	b := unhx(h)
	v := new(big.Int).SetBytes(b)
	v.Add(v, big.NewInt(d))
	if v.Sign() < 0 {
		v.SetInt64(1)
	}
	out := v.Bytes()
	if len(out) < len(b) {
		out = append(make([]byte, len(b)-len(out)), out...)
	}
	return hx(out)
}

func ptAddG(h string) string {
	p := gPt(zv{"k": "pt", "v": h}).Add(zkGroup.NewBasePoint())
	b, _ := p.MarshalBinary()
	return hx(b)
}

// tweak: a different valid value of the same kind ("" = kind not handled)
func tweak(c *Ctx, v zv, env *zkEnv) (zv, bool) {
	out := cloneV(v)
	if isNilV(v) {
		return out, false
	}
	switch v["k"] {
	case "nat":
		out["v"] = hexAddBytes(strV(v), 1)
	case "int", "big", "ct":
		a := bigOfHex(strings.TrimPrefix(strV(v), "-"))
		if strings.HasPrefix(strV(v), "-") {
			a.Neg(a)
		}
		out["v"] = bighex(bigAdd(a, 1))
	case "sc":
		s := gSc(v).Add(zkGroup.NewScalar().SetNat(new(saferith.Nat).SetUint64(1)))
		out = vSc(s)
	case "pt":
		out["v"] = ptAddG(strV(v))
	case "pk", "mod":
		for _, k := range env.keys {
			if k.pk.N().Big().Text(16) != strV(v) {
				out["v"] = k.pk.N().Big().Text(16)
				break
			}
		}
	case "ped":
		n := bigOfHex(v["n"].(string))
		switch c.Intn(3) {
		case 0:
			s := bigOfHex(v["s"].(string))
			out["s"] = new(big.Int).Mod(new(big.Int).Mul(s, s), n).Text(16)
		case 1:
			t := bigOfHex(v["t"].(string))
			out["t"] = new(big.Int).Mod(new(big.Int).Mul(t, t), n).Text(16)
		default:
			for _, k := range env.keys {
				if k.pk.N().Big().Cmp(n) != 0 {
					out["n"] = k.pk.N().Big().Text(16)
					break
				}
			}
		}
	case "elg":
		if c.Intn(2) == 0 {
			out["l"] = ptAddG(v["l"].(string))
		} else {
			out["m"] = ptAddG(v["m"].(string))
		}
	case "bool":
		out["v"] = !v["v"].(bool)
	case "list":
		l := out["v"].([]zv)
		i := c.Intn(len(l))
		x, ok := tweak(c, l[i], env)
		if !ok {
			return out, false
		}
		l[i] = x
	default:
		return out, false
	}
	return out, true
}

// zeroOf: the zero / identity value of the kind
func zeroOf(v zv) (zv, bool) {
	out := cloneV(v)
	if isNilV(v) {
		return out, false
	}
	switch v["k"] {
	case "nat":
		out["v"] = strings.Repeat("00", len(strV(v))/2)
	case "int", "big", "ct":
		out["v"] = "0"
	case "sc":
		out["v"] = strings.Repeat("00", 32)
	case "pt":
		out["v"] = identityHex
	default:
		return out, false
	}
	return out, true
}

func nilOf(v zv) (zv, bool) {
	switch v["k"] {
	case "nat", "int", "big", "ct":
		// pointer-typed fields: an absent / null CBOR entry leaves them nil. Interface-typed fields
		// (curve.Point, curve.Scalar) keep the value of Empty(group); a CBOR null for them panics in the decoder.
		return zv{"k": v["k"], "v": nil}, !isNilV(v)
	}
	return v, false
}

// range perturbations of one response field: values at and just beyond the coded bounds
func rangeVariants(v zv, modulusHex string) []struct {
	v zv
	d string
} {
	type rv = struct {
		v zv
		d string
	}
	out := []rv{}
	if isNilV(v) {
		return out
	}
	switch v["k"] {
	case "int":
		for _, bits := range []uint{params.LPlusEpsilon, params.LPrimePlusEpsilon, 1 + params.LPlusEpsilon + params.BitsIntModN/2} {
			b := pow2(bits)
			out = append(out, rv{zv{"k": "int", "v": bighex(b)}, fmt.Sprintf("2^%d", bits)},
				rv{zv{"k": "int", "v": bighex(bigNeg(b))}, fmt.Sprintf("-2^%d", bits)},
				rv{zv{"k": "int", "v": bighex(bigAdd(b, -1))}, fmt.Sprintf("2^%d-1", bits)})
		}
	case "nat":
		if modulusHex != "" {
			n := bigOfHex(modulusHex)
			cur := new(big.Int).SetBytes(unhx(strV(v)))
			plus := new(big.Int).Add(cur, n)
			out = append(out, rv{zv{"k": "nat", "v": hx(plus.Bytes())}, "value+N (same residue, out of [1,N-1])"},
				rv{zv{"k": "nat", "v": hx(n.Bytes())}, "N"},
				rv{zv{"k": "nat", "v": "00" + strV(v)}, "same value, one more announced byte"})
		}
	case "big":
		if modulusHex != "" {
			n := bigOfHex(modulusHex)
			cur := bigOfHex(strV(v))
			out = append(out, rv{zv{"k": "big", "v": bighex(new(big.Int).Add(cur, n))}, "value+N (same residue, out of [1,N-1])"},
				rv{zv{"k": "big", "v": bighex(new(big.Int).Sub(cur, n))}, "value-N (negative, same residue)"},
				rv{zv{"k": "big", "v": bighex(n)}, "N"})
		}
	}
	return out
}

func ctxVariants(c *Ctx, prefix []TV) []struct {
	p []TV
	d string
} {
	type pv = struct {
		p []TV
		d string
	}
	cp := func() []TV { return append([]TV{}, prefix...) }
	out := []pv{}
	out = append(out, pv{append(cp(), idTV("z")), "one more item (id z) appended"})
	if len(prefix) > 0 {
		out = append(out, pv{cp()[:len(prefix)-1], "last item dropped"})
		last := prefix[len(prefix)-1]
		if last["t"] == "id" {
			p := cp()
			p[len(p)-1] = idTV(string(unhx(last["hex"].(string))) + "'")
			out = append(out, pv{p, "other party id"})
			p2 := cp()
			p2[len(p2)-1] = TV{"t": "bytes", "hex": last["hex"]}
			out = append(out, pv{p2, "party id written as []byte (other domain tag)"})
		}
		if len(prefix) > 1 {
			p := cp()
			p[0], p[1] = p[1], p[0]
			out = append(out, pv{p, "first two items swapped"})
		}
		p := append([]TV{idTV("z")}, cp()...)
		out = append(out, pv{p, "item prepended"})
	} else {
		out = append(out, pv{[]TV{{"t": "bytes", "hex": ""}}, "empty []byte item"})
	}
	return out
}

// modulus a Nat / big response of this system is reduced by (for the +N variants)
func respModulus(sys string, field string, pub zrec) string {
	get := func(k string) string {
		if v, ok := pub[k]; ok {
			if v["k"] == "ped" {
				return v["n"].(string)
			}
			return strV(v)
		}
		return ""
	}
	switch sys {
	case "affg", "affp":
		if field == "W" {
			return get("Verifier")
		}
		return get("Prover")
	case "mulstar":
		return get("Verifier")
	case "nth", "mod":
		return get("N")
	case "prm":
		return get("Aux")
	case "fac":
		return get("Aux")
	}
	return get("Prover")
}

func perturb(c *Ctx, env *zkEnv, s *zkSys, base, second, replay, other zkCase) []zkCase {
	out := []zkCase{}
	add := func(class, desc string, prefix []TV, pub, prf zrec) {
		out = append(out, zkCase{class: class, desc: desc, prefix: prefix, pub: pub, prf: prf})
	}
	isComm := map[string]bool{}
	for _, f := range s.comm {
		isComm[f] = true
	}
	// statement fields
	for _, k := range sortedKeys(base.pub) {
		if v, ok := tweak(c, base.pub[k], env); ok {
			p := cloneRec(base.pub)
			p[k] = v
			add("stmt", "public."+k+" changed", base.prefix, p, base.prf)
		}
		if isNilV(base.pub[k]) && base.pub[k]["k"] == "pt" { // optional generator given explicitly / other generator
			p := cloneRec(base.pub)
			b, _ := zkGroup.NewBasePoint().MarshalBinary()
			p[k] = zv{"k": "pt", "v": hx(b)}
			add("neutral", "public."+k+" = nil replaced by the explicit base point", base.prefix, p, base.prf)
			p2 := cloneRec(base.pub)
			p2[k] = zv{"k": "pt", "v": ptAddG(hx(b))}
			add("stmt", "public."+k+" = nil replaced by another generator", base.prefix, p2, base.prf)
		}
	}
	// the whole statement of another valid proof
	add("stmt", "statement of another valid proof", base.prefix, other.pub, base.prf)
	// context
	for _, pv := range ctxVariants(c, base.prefix) {
		add("ctx", "hash prefix: "+pv.d, pv.p, base.pub, base.prf)
	}
	// proof fields
	for _, k := range sortedKeys(base.prf) {
		cls := "resp"
		if isComm[k] {
			cls = "commit"
		}
		if v, ok := tweak(c, base.prf[k], env); ok {
			p := cloneRec(base.prf)
			p[k] = v
			add(cls, "proof."+k+" changed", base.prefix, base.pub, p)
		}
		// an iteration-indexed verifier (zkprm, zkmod: 80 rounds) must enforce EVERY round, the boundary ones included
		// (seed C10g: the result of the last round was computed and never read): the first and the last element of a
		// list field changed / taken from a second valid proof of the same statement, everything else untouched
		if base.prf[k]["k"] == "list" {
			l := base.prf[k]["v"].([]zv)
			l2, _ := second.prf[k]["v"].([]zv)
			for _, i := range []int{0, len(l) - 1} {
				if x, ok := tweak(c, l[i], env); ok {
					p := cloneRec(base.prf)
					p[k]["v"].([]zv)[i] = x
					add(cls, fmt.Sprintf("proof.%s[%d] changed", k, i), base.prefix, base.pub, p)
				}
				if len(l2) == len(l) {
					p := cloneRec(base.prf)
					p[k]["v"].([]zv)[i] = cloneV(l2[i])
					add("splice", fmt.Sprintf("proof.%s[%d] taken from a second valid proof of the same statement", k, i), base.prefix, base.pub, p)
				}
			}
		}
		// splice from a second valid proof of the SAME statement and from a proof of ANOTHER statement
		p := cloneRec(base.prf)
		p[k] = cloneV(second.prf[k])
		add("splice", "proof."+k+" taken from a second valid proof of the same statement", base.prefix, base.pub, p)
		p = cloneRec(base.prf)
		p[k] = cloneV(other.prf[k])
		add("splice", "proof."+k+" taken from a valid proof of another statement", base.prefix, base.pub, p)
		if v, ok := zeroOf(base.prf[k]); ok {
			p := cloneRec(base.prf)
			p[k] = v
			add("malformed", "proof."+k+" = zero / identity", base.prefix, base.pub, p)
		}
		if v, ok := nilOf(base.prf[k]); ok {
			p := cloneRec(base.prf)
			p[k] = v
			add("malformed", "proof."+k+" = nil", base.prefix, base.pub, p)
		}
		target := base.prf[k]
		if target["k"] == "list" { // range variants inside one element of a list field
			l := target["v"].([]zv)
			i := c.Intn(len(l))
			el := l[i]
			if el["k"] == "list" {
				j := 2 + c.Intn(2)
				for _, rv := range rangeVariants(el["v"].([]zv)[j], respModulus(s.name, k, base.pub)) {
					p := cloneRec(base.prf)
					p[k]["v"].([]zv)[i]["v"].([]zv)[j] = rv.v
					add("range", fmt.Sprintf("proof.%s[%d].%s = %s", k, i, []string{"A", "B", "X", "Z"}[j], rv.d), base.prefix, base.pub, p)
				}
				for j := 2; j < 4; j++ {
					p := cloneRec(base.prf)
					p[k]["v"].([]zv)[i]["v"].([]zv)[j] = zv{"k": "big", "v": nil}
					add("malformed", fmt.Sprintf("proof.%s[%d].%s = nil", k, i, []string{"A", "B", "X", "Z"}[j]), base.prefix, base.pub, p)
				}
			} else {
				for _, rv := range rangeVariants(el, respModulus(s.name, k, base.pub)) {
					p := cloneRec(base.prf)
					p[k]["v"].([]zv)[i] = rv.v
					add("range", fmt.Sprintf("proof.%s[%d] = %s", k, i, rv.d), base.prefix, base.pub, p)
				}
				p := cloneRec(base.prf)
				p[k]["v"].([]zv)[i] = zv{"k": "big", "v": nil}
				add("malformed", fmt.Sprintf("proof.%s[%d] = nil", k, i), base.prefix, base.pub, p)
			}
			continue
		}
		for _, rv := range rangeVariants(target, respModulus(s.name, k, base.pub)) {
			p := cloneRec(base.prf)
			p[k] = rv.v
			cls := "range"
			if isComm[k] && !strings.HasPrefix(rv.d, "same value") {
				continue
			}
			if strings.HasPrefix(rv.d, "same value") {
				// same number, other announced length: a commitment is hashed with its announced length
				// (the challenge changes), a response is not hashed (the proof stays valid)
				cls = "neutral"
				if isComm[k] {
					cls = "commit"
				}
			}
			add(cls, "proof."+k+" = "+rv.d, base.prefix, base.pub, p)
		}
	}
	// the embedded *Commitment left nil by the decoder (no commitment field present on the wire)
	if s.name == "enc" || s.name == "affp" || s.name == "mul" {
		p := cloneRec(base.prf)
		for _, k := range s.comm {
			delete(p, k)
		}
		p["_nocommitment"] = vBool(true)
		add("malformed", "proof.Commitment = nil (no commitment field on the wire)", base.prefix, base.pub, p)
	}
	// all commitments / all responses from the second proof
	pc, pr := cloneRec(base.prf), cloneRec(base.prf)
	for _, k := range sortedKeys(base.prf) {
		if isComm[k] {
			pc[k] = cloneV(second.prf[k])
		} else {
			pr[k] = cloneV(second.prf[k])
		}
	}
	add("splice", "all commitment fields from a second valid proof of the same statement", base.prefix, base.pub, pc)
	add("splice", "all response fields from a second valid proof of the same statement", base.prefix, base.pub, pr)
	// a valid proof replayed under the hash state of another session
	add("ctx", "valid proof of the same statement made under another hash state", base.prefix, base.pub, replay.prf)
	return out
}

// ---------------------------------------------------------------------------------------------

// The systems run in parallel goroutines (saferith's constant-time arithmetic makes the Go prover and verifier the
// bottleneck). Each system has its own seeded generator — also behind crypto/rand.Reader, dispatched by goroutine —
// and collects its lines; the lines are written in the fixed system order, so the output is a function of -seed.
type zkLine struct {
	op       string
	in, impl interface{}
}

type zkRun struct {
	*Ctx  // generator and knobs only (never Emit on it)
	lines []zkLine
}

func (c *zkRun) emitZk(s *zkSys, zc zkCase) {
	in := J{"class": zc.class, "desc": zc.desc, "prefix": zc.prefix, "pub": zc.pub, "prf": zc.prf}
	e := Guard(func() interface{} { return s.chal(hashOf(zc.prefix), zc.pub, zc.prf) })
	es, ok := e.(string)
	if !ok {
		es = "panic"
	}
	res := Guard(func() interface{} { return s.verify(hashOf(zc.prefix), zc.pub, zc.prf) })
	impl := J{"viol": false, "e": es}
	if b, ok := res.(bool); ok {
		impl["ok"], impl["panic"] = b, false
	} else {
		impl["ok"], impl["panic"] = false, true
		for k, v := range res.(J) {
			impl[k] = v
		}
	}
	c.lines = append(c.lines, zkLine{s.name, in, impl})
	c.Count("zk/class/" + zc.class)
	if impl["ok"].(bool) {
		c.Count("zk/" + s.name + "/accept")
	} else if impl["panic"].(bool) {
		c.Count("zk/" + s.name + "/PANIC")
	} else {
		c.Count("zk/" + s.name + "/reject")
	}
}

// emitWire: what a receiving round does with bytes from the network. The honest proof is CBOR-encoded, one map
// entry at a time is removed ("absent") or replaced by CBOR null, the result is decoded into the empty proof
// value the protocols prepare and verified. The property demands: unmodified -> accepted; anything else ->
// refused, without a panic (in the decoder or in Verify).
func (c *zkRun) emitWire(s *zkSys, base zkCase) {
	data, err := s.wire(base.prf)
	if err != nil {
		panic(err)
	}
	run := func(desc string, expect bool, d []byte) {
		res := Guard(func() interface{} {
			ok, err := s.unwire(d, hashOf(base.prefix), base.pub)
			return J{"ok": ok, "decoded": err == nil}
		})
		impl := J{"ok": false, "panic": false}
		r := res.(J)
		if r["outcome"] == "PANIC" {
			impl["panic"] = true
			for k, v := range r {
				impl[k] = v
			}
		} else {
			impl["ok"] = r["ok"]
		}
		c.lines = append(c.lines, zkLine{"wire", J{"sys": s.name, "desc": desc, "expect": expect, "cbor": hx(d)}, impl})
		if impl["panic"].(bool) {
			c.Count("zk/wire/" + s.name + "/PANIC")
		} else {
			c.Count("zk/wire/" + s.name + "/no-panic")
		}
	}
	run("unmodified", true, data)
	var m map[string]cbor.RawMessage
	if err := cbor.Unmarshal(data, &m); err != nil {
		panic(err)
	}
	keys := []string{}
	for k := range m {
		keys = append(keys, k)
	}
	sort.Strings(keys)
	null := cbor.RawMessage{0xf6}
	remarshal := func(m map[string]cbor.RawMessage) []byte {
		d, err := cbor.Marshal(m)
		if err != nil {
			panic(err)
		}
		return d
	}
	cp := func() map[string]cbor.RawMessage {
		o := map[string]cbor.RawMessage{}
		for k, v := range m {
			o[k] = v
		}
		return o
	}
	for _, k := range keys {
		o := cp()
		delete(o, k)
		run("entry "+k+" absent", false, remarshal(o))
		o = cp()
		o[k] = null
		run("entry "+k+" = null", false, remarshal(o))
		// one level down: a nested struct (zkfac Comm) or the first element of an array of structs (zkmod Responses)
		var inner map[string]cbor.RawMessage
		var arr []cbor.RawMessage
		if cbor.Unmarshal(m[k], &inner) == nil && len(inner) > 0 {
			iks := []string{}
			for ik := range inner {
				iks = append(iks, ik)
			}
			sort.Strings(iks)
			for _, ik := range iks {
				in2 := map[string]cbor.RawMessage{}
				for a, b := range inner {
					if a != ik {
						in2[a] = b
					}
				}
				o := cp()
				o[k] = remarshal(in2)
				run("entry "+k+"."+ik+" absent", false, remarshal(o))
			}
		} else if cbor.Unmarshal(m[k], &arr) == nil && len(arr) > 0 {
			var el map[string]cbor.RawMessage
			if cbor.Unmarshal(arr[0], &el) == nil && len(el) > 0 {
				iks := []string{}
				for ik := range el {
					iks = append(iks, ik)
				}
				sort.Strings(iks)
				for _, ik := range iks {
					if len(el[ik]) == 1 && (el[ik][0] == 0xf4 || el[ik][0] == 0xf5) {
						continue // a bool: absent means false, which may well be the honest value
					}
					el2 := map[string]cbor.RawMessage{}
					for a, b := range el {
						if a != ik {
							el2[a] = b
						}
					}
					arr2 := append([]cbor.RawMessage{remarshal(el2)}, arr[1:]...)
					d, _ := cbor.Marshal(arr2)
					o := cp()
					o[k] = d
					run("entry "+k+"[0]."+ik+" absent", false, remarshal(o))
				}
			} else {
				arr2 := append([]cbor.RawMessage{null}, arr[1:]...)
				d, _ := cbor.Marshal(arr2)
				o := cp()
				o[k] = d
				run("entry "+k+"[0] = null", false, remarshal(o))
			}
		}
	}
	// no commitment entry at all
	o := cp()
	n := 0
	for _, k := range s.comm {
		if _, ok := o[k]; ok {
			delete(o, k)
			n++
		}
	}
	if n > 1 {
		run("all commitment entries absent", false, remarshal(o))
	}
	run("empty map", false, []byte{0xa0})
}

// goReader is installed as crypto/rand.Reader: every goroutine reads from the generator registered for it.
type goReader struct {
	mu sync.Mutex
	m  map[int64]*mrand.Rand
}

func zkGoid() int64 {
	var buf [64]byte
	n := runtime.Stack(buf[:], false)
	f := strings.Fields(string(buf[:n]))
	id, _ := strconv.ParseInt(f[1], 10, 64)
	return id
}

func (g *goReader) Read(p []byte) (int, error) {
	g.mu.Lock()
	r := g.m[zkGoid()]
	g.mu.Unlock()
	if r == nil {
		panic("harness: crypto/rand read from an unregistered goroutine")
	}
	return r.Read(p)
}

func (g *goReader) register(r *mrand.Rand) {
	g.mu.Lock()
	g.m[zkGoid()] = r
	g.mu.Unlock()
}

func init() {
	register("zk", func(c *Ctx) {
		gr := &goReader{m: map[int64]*mrand.Rand{}}
		gr.register(c.Rng)
		crand.Reader = gr // provers and Enc draw their masks from crypto/rand.Reader: make them reproducible
		env := newZkEnv(c, 4)
		c.Emit("selftest", J{}, J{"ok": true})
		thorough := c.Tier == "thorough"
		only := os.Getenv("ZK_ONLY") // debugging aid: comma separated system names
		runs := make([]*zkRun, len(zkSystems))
		var wg sync.WaitGroup
		sem := make(chan struct{}, runtime.GOMAXPROCS(0))
		for i, s := range zkSystems {
			if only != "" && !strings.Contains(","+only+",", ","+s.name+",") {
				continue
			}
			r := &zkRun{Ctx: &Ctx{Rng: mrand.New(mrand.NewSource(c.Seed*1000003 + int64(i))), N: c.N, Tier: c.Tier, Seed: c.Seed, Stats: map[string]int{}}}
			runs[i] = r
			wg.Add(1)
			go func(s *zkSys, r *zkRun) {
				defer wg.Done()
				sem <- struct{}{}
				defer func() { <-sem }()
				gr.register(r.Rng)
				t0 := time.Now()
				runZkSystem(r, env, s, thorough)
				if os.Getenv("ZK_TIMING") != "" {
					fmt.Fprintf(os.Stderr, "%-8s %6d ms\n", s.name, time.Since(t0).Milliseconds())
				}
			}(s, r)
		}
		wg.Wait()
		for _, r := range runs {
			if r == nil {
				continue
			}
			for _, l := range r.lines {
				c.Emit(l.op, l.in, l.impl)
			}
			for k, v := range r.Stats {
				c.Stats[k] += v
			}
		}
	})
}

func recEq(a, b zrec) bool {
	ja, _ := json.Marshal(a)
	jb, _ := json.Marshal(b)
	return string(ja) == string(jb)
}

// quick-tier budget of one system: (honest cases, perturbed cases); c.N = 60 gives the nominal sizes
func zkBudget(c *zkRun, s *zkSys) (int, int) {
	scale := func(x int) int {
		y := x * c.N / 60
		if y < 3 {
			y = 3
		}
		return y
	}
	switch s.cost {
	case 1: // curve only: cheap
		return scale(30), scale(80)
	case 12: // 80 parallel repetitions with 2048-bit exponents (one proof costs the Go prover > 1 s)
		return 3, scale(14)
	case 4, 5:
		return scale(12), scale(26)
	default:
		return scale(20), scale(40)
	}
}

func runZkSystem(c *zkRun, env *zkEnv, s *zkSys, thorough bool) {
	nHonest, nPert := zkBudget(c, s)
	if thorough {
		nHonest = 4 * (nLat + 2)
	}
	// 1. honest proofs over the witness lattice (index nLat, nLat+1: the special witnesses of the system)
	for i := 0; i < nHonest; i++ {
		kp, kv := env.pair(i)
		w := i % (nLat + 2)
		if nHonest < nLat+2 {
			// spread the few cases over the lattice; always include the two special witnesses at the end
			w = (i * nLat) / nHonest
			if i == nHonest-1 {
				w = nLat + 1
			} else if i == nHonest-2 {
				w = nLat
			}
		}
		prefix := zkPrefix(c.Ctx, i)
		pub, prove, desc, class := s.make(c.Ctx, kp, kv, w)
		if class == "" {
			class = "honest"
		}
		c.emitZk(s, zkCase{class: class, desc: "honest prover, " + desc, prefix: prefix, pub: pub, prf: prove(prefix)})
	}
	// 1b. the prover that shifts its witness by N / proves a non-residue with a root mod N (see wShiftN)
	if zkShiftSystems[s.name] {
		for i := 0; i < 2; i++ {
			kp, kv := env.pair(i)
			prefix := zkPrefix(c.Ctx, i)
			pub, prove, desc, class := s.make(c.Ctx, kp, kv, wShiftN)
			c.emitZk(s, zkCase{class: class, desc: "ordinary prover algorithm, " + desc, prefix: prefix, pub: pub, prf: prove(prefix)})
		}
	}
	// 2. perturbations of two base cases with RANDOM witnesses (a proof for a degenerate witness such as x = 0 or
	//    ρ = 1 does not depend on the challenge and would verify in any context)
	nb := 2
	if s.cost == 12 && !thorough {
		nb = 1
	}
	if thorough && s.cost != 12 {
		nb = 3
	}
	for b := 0; b < nb; b++ {
		kp, kv := env.pair(b)
		prefix := zkPrefix(c.Ctx, b+1)
		pub, prove, desc, bclass := s.make(c.Ctx, kp, kv, 12+b%2)
		if bclass != "" {
			panic("harness: base case of " + s.name + " is not an in-range honest case")
		}
		base := zkCase{class: "honest", desc: "honest prover, " + desc, prefix: prefix, pub: pub, prf: prove(prefix)}
		c.emitZk(s, base)
		// a second valid proof of the SAME statement (fresh masks) under the same hash state, and one under another
		second := zkCase{prefix: prefix, pub: pub, prf: prove(prefix)}
		replay := zkCase{prefix: zkPrefix(c.Ctx, b+2), pub: pub}
		replay.prf = prove(replay.prefix)
		// a valid proof of ANOTHER statement under the same hash state (other keys when the statement is the key)
		okp, okv := env.pair(b + 1)
		op, oprove, _, _ := s.make(c.Ctx, okp, okv, 13-b%2)
		other := zkCase{prefix: prefix, pub: op, prf: oprove(prefix)}
		if recEq(op, pub) {
			panic("harness: the 'other' statement equals the base statement for " + s.name)
		}
		if b == 0 {
			c.emitWire(s, base)
		}
		all := perturb(c.Ctx, env, s, base, second, replay, other)
		if !thorough && len(all) > nPert/nb {
			// keep a stratified, seeded selection
			perm := c.Rng.Perm(len(all))
			keep := map[int]bool{}
			seen := map[string]int{}
			for _, i := range perm {
				if seen[all[i].class] < 2 {
					keep[i] = true
					seen[all[i].class]++
				}
			}
			for _, i := range perm {
				if len(keep) >= nPert/nb {
					break
				}
				keep[i] = true
			}
			sel := []zkCase{}
			for i := range all {
				if keep[i] {
					sel = append(sel, all[i])
				}
			}
			all = sel
		}
		for _, zc := range all {
			c.emitZk(s, zc)
		}
	}
}
