//go:build verif

package main

// Suite `malform` (C05): the malformation stream. For every protocol scenario a REAL honest session is
// run once (deterministically: every party draws from its own seeded stream) and the messages delivered
// to one party (the victim) are recorded. Every prefix of that malDelivery trace is a handler state of the
// victim (each round, before and after the sender's broadcast / p2p message arrived). For every state, for
// every message still to come (type = sender x round x broadcast), for every field path of its CBOR tree x
// the malformation list, for wrong headers and for arbitrary byte strings: a FRESH victim is re-created
// from the seed, replayed to the state, and given the malformed message through the real CanAccept/Accept;
// then the honest remainder is delivered. Observed: refused / carried on / ended cleanly (channel closed,
// Result = error or value) - judged by the Lean lifecycle model - or PANIC / TIMEOUT / MEMLIMIT.
//
// Fatal runtime errors (out of memory, stack exhaustion) cannot be recovered inside a Go process: the cases
// run in a CHILD process (address-space limit + memory watchdog); the parent supervises, records the case
// the child died on with its outcome and restarts the child behind it.

import (
	"bufio"
	crand "crypto/rand"
	"encoding/json"
	"fmt"
	"github.com/cronokirby/saferith"
	"math/rand"
	"os"
	"os/exec"
	"runtime"
	"runtime/debug"
	"sort"
	"strconv"
	"strings"
	"syscall"
	"time"

	"github.com/taurusgroup/multi-party-sig/internal/round"
	"github.com/taurusgroup/multi-party-sig/pkg/math/sample"
	"github.com/taurusgroup/multi-party-sig/pkg/party"
	"github.com/taurusgroup/multi-party-sig/pkg/protocol"
	"github.com/taurusgroup/multi-party-sig/protocols/cmp"
	"github.com/taurusgroup/multi-party-sig/protocols/doerner"
	"github.com/taurusgroup/multi-party-sig/protocols/frost"
)

// ---- deterministic parties ---------------------------------------------------------------------------

type partyEnv struct {
	seed    int64
	readers map[party.ID]*seededReader
	primes  map[party.ID]int
}

func newPartyEnv(seed int64, ids []party.ID) *partyEnv {
	e := &partyEnv{seed: seed, readers: map[party.ID]*seededReader{}, primes: map[party.ID]int{}}
	for i, id := range ids {
		e.reset(id, i)
	}
	return e
}

func (e *partyEnv) reset(id party.ID, idx int) {
	e.readers[id] = &seededReader{r: rand.New(rand.NewSource(e.seed*1000003 + int64(idx)*7919 + 17))}
	e.primes[id] = (int(e.seed)%5)*2 + idx*8
}

// as runs f as party id: its own random stream and its own position in the prime fixture.
func (e *partyEnv) as(id party.ID, f func()) {
	old := crand.Reader
	crand.Reader = e.readers[id]
	if fixturePrimes != nil {
		primeCursor = e.primes[id]
	}
	defer func() {
		if fixturePrimes != nil {
			e.primes[id] = primeCursor
		}
		crand.Reader = old
	}()
	f()
}

// ---- scenarios -----------------------------------------------------------------------------------------

type scenario struct {
	name   string
	ids    []party.ID
	victim party.ID
	slow   bool
	mk     func(id party.ID) (protocol.Handler, error)
}

func malformScenarios(m *robustMaterial) []scenario {
	sid := []byte("malform-suite")
	ids := m.ids
	two := ids[:2]
	multi := func(sf func(id party.ID) protocol.StartFunc) func(id party.ID) (protocol.Handler, error) {
		return func(id party.ID) (protocol.Handler, error) {
			h, err := protocol.NewMultiHandler(sf(id), sid)
			if err != nil {
				return nil, err
			}
			return h, nil
		}
	}
	a, b := ids[0], ids[1]
	return []scenario{
		{name: "frost/keygen", ids: ids, victim: a, mk: multi(func(id party.ID) protocol.StartFunc { return frost.Keygen(m.group, id, ids, m.t) })},
		{name: "frost/sign", ids: two, victim: a, mk: multi(func(id party.ID) protocol.StartFunc { return frost.Sign(m.frost[id], two, m.sigMsg) })},
		{name: "frost/refresh", ids: ids, victim: a, mk: multi(func(id party.ID) protocol.StartFunc { return frost.Refresh(m.frost[id], ids) })},
		{name: "frost/sign-taproot", ids: two, victim: a, mk: multi(func(id party.ID) protocol.StartFunc { return frost.SignTaproot(m.tap[id], two, m.sigMsg) })},
		{name: "doerner/keygen", ids: two, victim: a, mk: func(id party.ID) (protocol.Handler, error) {
			if id == a {
				return nilIfErr(protocol.NewTwoPartyHandler(doerner.Keygen(m.group, true, a, b, nil), sid, true))
			}
			return nilIfErr(protocol.NewTwoPartyHandler(doerner.Keygen(m.group, false, b, a, nil), sid, false))
		}},
		{name: "doerner/keygen-sender", ids: two, victim: b, mk: func(id party.ID) (protocol.Handler, error) {
			if id == a {
				return nilIfErr(protocol.NewTwoPartyHandler(doerner.Keygen(m.group, true, a, b, nil), sid, true))
			}
			return nilIfErr(protocol.NewTwoPartyHandler(doerner.Keygen(m.group, false, b, a, nil), sid, false))
		}},
		{name: "doerner/sign", ids: two, victim: a, mk: func(id party.ID) (protocol.Handler, error) {
			if id == a {
				return nilIfErr(protocol.NewTwoPartyHandler(doerner.SignReceiver(m.dR, a, b, m.sigMsg, nil), sid, true))
			}
			return nilIfErr(protocol.NewTwoPartyHandler(doerner.SignSender(m.dS, b, a, m.sigMsg, nil), sid, true))
		}},
		{name: "doerner/sign-sender", ids: two, victim: b, mk: func(id party.ID) (protocol.Handler, error) {
			if id == a {
				return nilIfErr(protocol.NewTwoPartyHandler(doerner.SignReceiver(m.dR, a, b, m.sigMsg, nil), sid, true))
			}
			return nilIfErr(protocol.NewTwoPartyHandler(doerner.SignSender(m.dS, b, a, m.sigMsg, nil), sid, true))
		}},
		{name: "cmp/sign", ids: two, victim: a, slow: true, mk: multi(func(id party.ID) protocol.StartFunc { return cmp.Sign(m.cmp[id], two, m.sigMsg, nil) })},
		{name: "cmp/presign", ids: two, victim: a, slow: true, mk: multi(func(id party.ID) protocol.StartFunc { return cmp.Presign(m.cmp[id], two, nil) })},
		{name: "cmp/presign-online", ids: two, victim: a, slow: true, mk: multi(func(id party.ID) protocol.StartFunc {
			return cmp.PresignOnline(m.cmp[id], m.presig[id], m.sigMsg, nil)
		})},
		{name: "cmp/keygen", ids: two, victim: a, slow: true, mk: multi(func(id party.ID) protocol.StartFunc { return cmp.Keygen(m.group, id, two, 1, nil) })},
		{name: "cmp/refresh", ids: ids, victim: a, slow: true, mk: multi(func(id party.ID) protocol.StartFunc { return cmp.Refresh(m.cmp[id], nil) })},
	}
}

func nilIfErr(h *protocol.TwoPartyHandler, err error) (protocol.Handler, error) {
	if err != nil {
		return nil, err
	}
	return h, nil
}

// ---- recording ---------------------------------------------------------------------------------------------

type malDelivery struct {
	m  *protocol.Message
	to party.ID
}

// record runs the honest session in fifo order with per-party streams; returns what was delivered to the victim.
func (s *scenario) record(seed int64) (trace []*protocol.Message, ok bool, note string) {
	return s.recordFiltered(seed, nil)
}

// recordFiltered: as record, with every message in transit passed through `tamper` (nil: honest run).
func (s *scenario) recordFiltered(seed int64, tamper func(m *protocol.Message, to party.ID) *protocol.Message) (trace []*protocol.Message, ok bool, note string) {
	env := newPartyEnv(seed, s.ids)
	hs := map[party.ID]protocol.Handler{}
	for _, id := range s.ids {
		var err error
		env.as(id, func() { hs[id], err = s.mk(id) })
		if err != nil {
			return nil, false, "start: " + err.Error()
		}
	}
	var queue []malDelivery
	closed := map[party.ID]bool{}
	collect := func(id party.ID) {
		if closed[id] {
			return
		}
		ch := hs[id].Listen()
		for {
			select {
			case x, open := <-ch:
				if !open {
					closed[id] = true
					return
				}
				for _, to := range s.ids {
					if to != id && x.IsFor(to) {
						y := x
						if tamper != nil {
							y = tamper(x, to)
						}
						queue = append(queue, malDelivery{y, to})
					}
				}
			default:
				return
			}
		}
	}
	for _, id := range s.ids {
		collect(id)
	}
	for steps := 0; len(queue) > 0 && steps < 10000; steps++ {
		d := queue[0]
		queue = queue[1:]
		if d.to == s.victim {
			trace = append(trace, d.m)
		}
		acceptDraining(env, d.to, hs[d.to], d.m, func(x *protocol.Message) {
			for _, to := range s.ids {
				if to != d.to && x.IsFor(to) {
					y := x
					if tamper != nil {
						y = tamper(x, to)
					}
					queue = append(queue, malDelivery{y, to})
				}
			}
		}, closed)
		collect(d.to)
	}
	for _, id := range s.ids {
		if _, err := hs[id].Result(); err != nil {
			return trace, false, fmt.Sprintf("party %s: %v", id, err)
		}
	}
	return trace, true, ""
}

// acceptDraining: Accept on another goroutine while the out channel is drained (a call may emit more than the
// channel holds); runs as party `id`. Panics propagate to the caller with their stack.
func acceptDraining(env *partyEnv, id party.ID, h protocol.Handler, m *protocol.Message, route func(*protocol.Message), closed map[party.ID]bool) {
	type pan struct {
		v     interface{}
		stack string
	}
	done := make(chan *pan, 1)
	env.as(id, func() {
		go func() {
			defer func() {
				if r := recover(); r != nil {
					done <- &pan{r, string(debug.Stack())}
					return
				}
				done <- nil
			}()
			h.Accept(m)
		}()
		ch := h.Listen()
		for {
			if closed[id] {
				if p := <-done; p != nil {
					panic(panicWithStack{p.v, p.stack})
				}
				return
			}
			select {
			case x, open := <-ch:
				if !open {
					closed[id] = true
				} else if route != nil {
					route(x)
				}
			case p := <-done:
				if p != nil {
					panic(panicWithStack{p.v, p.stack})
				}
				return
			}
		}
	})
}

type panicWithStack struct {
	v     interface{}
	stack string
}

// ---- observations --------------------------------------------------------------------------------------------

type snap struct {
	Ended    bool     `json:"ended"`
	Closed   bool     `json:"closed"`
	Err      bool     `json:"err"`
	Res      bool     `json:"res"`
	Culprits []string `json:"culprits"`
	Emitted  int      `json:"emitted"`
}

type victimState struct {
	h       protocol.Handler
	closed  bool
	emitted int
}

func (v *victimState) drain() {
	if v.closed {
		return
	}
	ch := v.h.Listen()
	for {
		select {
		case _, open := <-ch:
			if !open {
				v.closed = true
				return
			}
			v.emitted++
		default:
			return
		}
	}
}

func (v *victimState) snapshot() snap {
	v.drain()
	s := snap{Closed: v.closed, Emitted: v.emitted, Culprits: []string{}}
	r, err := v.h.Result()
	switch {
	case err == nil && r != nil:
		s.Res, s.Ended = true, true
	case err != nil && !strings.Contains(err.Error(), "protocol: not finished"):
		s.Err, s.Ended = true, true
		if pe, ok := err.(protocol.Error); ok {
			for _, c := range pe.Culprits {
				s.Culprits = append(s.Culprits, hx([]byte(c)))
			}
			sort.Strings(s.Culprits)
		}
	}
	return s
}

// ---- one case ----------------------------------------------------------------------------------------------------

type malCase struct {
	Scn    string `json:"scn"`
	State  int    `json:"state"`  // number of honest messages the victim has received
	Target int    `json:"target"` // index (in the victim's trace) of the message that is malformed
	From   string `json:"from"`
	Round  int    `json:"round"`
	Bcast  bool   `json:"bcast"`
	Kind   string `json:"kind"` // data | header | bytes
	Path   string `json:"path"`
	Mal    string `json:"mal"`
	Node   string `json:"node"`
	Msg    string `json:"msg"` // the malformed protocol.Message, CBOR hex (wire form) - the failing input itself
}

type caseResult struct {
	Outcome string // "" = judged by the model
	Detail  string
	At      string
	Obs     J
}

const (
	fastTimeout = 20 * time.Second
	slowTimeout = 240 * time.Second
	memBudget   = 1 << 30 // bytes a single malDelivery may allocate before it counts as MEMLIMIT
)

// topFrame: the first frame below panic() that lies in the repository (function @ file:line, relative to the
// module root, without argument values and pc offsets, so that the same site always reads the same), preceded by
// the first frame of a dependency when the panic was raised there.
func topFrame(stack string) string {
	lines := strings.Split(stack, "\n")
	clean := func(fn, loc string) string {
		if i := strings.LastIndex(fn, "("); i > 0 {
			fn = fn[:i]
		}
		fn = strings.TrimPrefix(fn, "github.com/taurusgroup/multi-party-sig/")
		loc = strings.TrimSpace(loc)
		if i := strings.Index(loc, " +0x"); i > 0 {
			loc = loc[:i]
		}
		for _, marker := range []string{"/pkg/mod/", "/internal/", "/pkg/", "/protocols/"} {
			if i := strings.Index(loc, marker); i >= 0 {
				loc = loc[i+1:]
				break
			}
		}
		return fn + " @ " + loc
	}
	for i, l := range lines {
		if strings.HasPrefix(l, "panic(") && i+3 < len(lines) {
			dep := ""
			for k := i + 2; k+1 < len(lines); k += 2 {
				fn, loc := strings.TrimSpace(lines[k]), lines[k+1]
				if strings.Contains(loc, "/verifharness/") {
					break
				}
				inRepo := strings.HasPrefix(fn, "github.com/taurusgroup/multi-party-sig/")
				isStd := !strings.Contains(fn, ".com/") && !strings.Contains(fn, ".org/")
				if inRepo {
					if dep != "" {
						return dep + " <- " + clean(fn, loc)
					}
					return clean(fn, loc)
				}
				if !isStd && dep == "" {
					dep = clean(fn, loc)
				}
			}
			return dep
		}
	}
	return ""
}

// runCase: fresh victim at state j, malformed message, honest remainder.
func (s *scenario) runCase(seed int64, trace []*protocol.Message, state int, msg *protocol.Message, subst map[int]*protocol.Message) (res caseResult) {
	timeout := fastTimeout
	if s.slow {
		timeout = slowTimeout
	}
	type out struct {
		res caseResult
	}
	ch := make(chan caseResult, 1)
	go func() {
		var r caseResult
		defer func() {
			if p := recover(); p != nil {
				st := string(debug.Stack())
				v := p
				if ps, ok := p.(panicWithStack); ok {
					v, st = ps.v, ps.stack
				}
				r = caseResult{Outcome: "PANIC", Detail: fmt.Sprint(v), At: topFrame(st)}
			}
			ch <- r
		}()
		env := newPartyEnv(seed, s.ids)
		var h protocol.Handler
		var err error
		env.as(s.victim, func() { h, err = s.mk(s.victim) })
		if err != nil {
			r = caseResult{Outcome: "HARNESS", Detail: "victim start: " + err.Error()}
			return
		}
		v := &victimState{h: h}
		closed := map[party.ID]bool{}
		deliver := func(m *protocol.Message) {
			closed[s.victim] = v.closed
			acceptDraining(env, s.victim, h, m, func(*protocol.Message) { v.emitted++ }, closed)
			v.closed = closed[s.victim]
		}
		for _, m := range trace[:state] {
			deliver(m)
		}
		s0 := v.snapshot()
		var ms0, ms1 runtime.MemStats
		runtime.ReadMemStats(&ms0)
		var can bool
		env.as(s.victim, func() { can = h.CanAccept(msg) })
		deliver(msg)
		runtime.ReadMemStats(&ms1)
		s1 := v.snapshot()
		for i, m := range trace[state:] {
			if x, ok := subst[state+i]; ok {
				m = x
			}
			deliver(m)
		}
		s2 := v.snapshot()
		r.Obs = J{"can": can, "s0": s0, "s1": s1, "s2": s2}
		if d := ms1.TotalAlloc - ms0.TotalAlloc; d > memBudget {
			r.Outcome, r.Detail = "MEMLIMIT", fmt.Sprintf("one malDelivery allocated %d MiB", d>>20)
		}
	}()
	select {
	case res = <-ch:
	case <-time.After(timeout):
		res = caseResult{Outcome: "TIMEOUT", Detail: fmt.Sprintf("no return within %v", timeout)}
	}
	return res
}

// ---- enumeration of the cases of one scenario ---------------------------------------------------------------------

type plannedCase struct {
	c     malCase
	msg   *protocol.Message
	subst map[int]*protocol.Message // honest messages of the remainder that are replaced as well (crafted cases)
	full  func() caseResult         // crafted cases that need the whole session live (all honest parties see the same forged broadcast)
}

func malCloneMsg(m *protocol.Message) *protocol.Message {
	c := *m
	c.SSID = append([]byte{}, m.SSID...)
	c.Data = append([]byte{}, m.Data...)
	if m.BroadcastVerification != nil {
		c.BroadcastVerification = append([]byte{}, m.BroadcastVerification...)
	}
	return &c
}

func headerMutations(s *scenario, m *protocol.Message, rng *rand.Rand) map[string]*protocol.Message {
	out := map[string]*protocol.Message{}
	mut := func(name string, f func(x *protocol.Message)) {
		x := malCloneMsg(m)
		f(x)
		out[name] = x
	}
	other := party.ID("zz")
	for _, id := range s.ids {
		if id != s.victim && id != m.From {
			other = id
		}
	}
	mut("to=other", func(x *protocol.Message) { x.To = "zz" })
	mut("to=sender", func(x *protocol.Message) { x.To = x.From })
	mut("to=broadcast-flip", func(x *protocol.Message) {
		if x.To == "" {
			x.To = s.victim
		} else {
			x.To = ""
		}
	})
	mut("from=unknown", func(x *protocol.Message) { x.From = "zz" })
	mut("from=empty", func(x *protocol.Message) { x.From = "" })
	mut("from=self", func(x *protocol.Message) { x.From = s.victim })
	mut("from=other", func(x *protocol.Message) { x.From = other })
	mut("round=0", func(x *protocol.Message) { x.RoundNumber = 0 })
	mut("round+1", func(x *protocol.Message) { x.RoundNumber++ })
	mut("round-1", func(x *protocol.Message) { x.RoundNumber-- })
	mut("round=255", func(x *protocol.Message) { x.RoundNumber = 255 })
	mut("round=65535", func(x *protocol.Message) { x.RoundNumber = round.Number(65535) })
	mut("ssid=flipped", func(x *protocol.Message) { x.SSID[0] ^= 1 })
	mut("ssid=nil", func(x *protocol.Message) { x.SSID = nil })
	mut("protocol=other", func(x *protocol.Message) { x.Protocol = "cmp/other" })
	mut("protocol=empty", func(x *protocol.Message) { x.Protocol = "" })
	mut("broadcast-flag-flipped", func(x *protocol.Message) { x.Broadcast = !x.Broadcast })
	mut("bv=nil", func(x *protocol.Message) { x.BroadcastVerification = nil })
	mut("bv=wrong", func(x *protocol.Message) { x.BroadcastVerification = make([]byte, 64) })
	mut("bv=short", func(x *protocol.Message) { x.BroadcastVerification = []byte{1} })
	mut("data=nil", func(x *protocol.Message) { x.Data = nil })
	mut("data=empty", func(x *protocol.Message) { x.Data = []byte{} })
	return out
}

func byteStrings(m *protocol.Message, rng *rand.Rand) map[string][]byte {
	r := func(n int) []byte { b := make([]byte, n); rng.Read(b); return b }
	out := map[string][]byte{
		"bytes=1":            {0xa0},
		"bytes=null":         {0xf6},
		"bytes=array-2^32":   {0x9b, 0, 0, 0, 1, 0, 0, 0, 0},
		"bytes=map-2^32":     {0xbb, 0, 0, 0, 1, 0, 0, 0, 0},
		"bytes=bstr-2^32":    {0x5b, 0, 0, 0, 1, 0, 0, 0, 0, 1, 2, 3},
		"bytes=indefinite":   {0x9f, 0x01, 0x02},
		"bytes=nested-depth": append(bytesRepeat(0x81, 200), 0x01),
		"bytes=random-16":    r(16),
		"bytes=random-300":   r(300),
		"bytes=prefix-half":  append([]byte{}, m.Data[:len(m.Data)/2]...),
		"bytes=tail-random":  append(append([]byte{}, m.Data[:len(m.Data)/2]...), r(len(m.Data)-len(m.Data)/2)...),
		"bytes=doubled":      append(append([]byte{}, m.Data...), m.Data...),
		"bytes=tag-wrapped":  append([]byte{0xc1}, m.Data...),
	}
	return out
}

func bytesRepeat(b byte, n int) []byte {
	out := make([]byte, n)
	for i := range out {
		out[i] = b
	}
	return out
}

// plan lists the cases of a scenario in a fixed order. stride thins the data mutations of messages that
// are not the next one expected (delivered early).
func (s *scenario) plan(seed int64, trace []*protocol.Message, tier string) []plannedCase {
	var out []plannedCase
	rng := rand.New(rand.NewSource(seed*31 + int64(len(s.name))))
	maxArr := 3
	for state := 0; state <= len(trace); state++ {
		seenType := map[string]bool{}
		for target := state; target < len(trace); target++ {
			m := trace[target]
			ty := fmt.Sprintf("%s/%d/%v", m.From, m.RoundNumber, m.Broadcast)
			if seenType[ty] {
				continue
			}
			seenType[ty] = true
			next := target == state
			base := malCase{Scn: s.name, State: state, Target: target, From: hx([]byte(m.From)), Round: int(m.RoundNumber), Bcast: m.Broadcast}
			add := func(kind, path, mal, node string, x *protocol.Message) {
				c := base
				c.Kind, c.Path, c.Mal, c.Node = kind, path, mal, node
				out = append(out, plannedCase{c: c, msg: x})
			}
			// field paths x malformations
			k := 0
			err := mutateCBOR(m.Data, maxArr, func(path, kind, nodeKind string, mutated []byte) {
				k++
				if !next && k%5 != 0 && tier != "thorough" {
					return
				}
				x := malCloneMsg(m)
				x.Data = mutated
				add("data", path, kind, nodeKind, x)
			})
			if err != nil {
				add("data", "$", "UNPARSEABLE-ORIGINAL: "+err.Error(), "", malCloneMsg(m))
			}
			if next || tier == "thorough" {
				hm := headerMutations(s, m, rng)
				names := make([]string, 0, len(hm))
				for n := range hm {
					names = append(names, n)
				}
				sort.Strings(names)
				for _, n := range names {
					add("header", "", n, "", hm[n])
				}
				bs := byteStrings(m, rng)
				names = names[:0]
				for n := range bs {
					names = append(names, n)
				}
				sort.Strings(names)
				for _, n := range names {
					x := malCloneMsg(m)
					x.Data = bs[n]
					add("bytes", "", n, "", x)
				}
			}
		}
		// after the end of the trace (state == len(trace)): a late message to a finished party
		if state == len(trace) && len(trace) > 0 {
			m := trace[len(trace)-1]
			c := malCase{Scn: s.name, State: state, Target: len(trace) - 1, From: hx([]byte(m.From)), Round: int(m.RoundNumber), Bcast: m.Broadcast,
				Kind: "header", Mal: "replay-after-end"}
			out = append(out, plannedCase{c: c, msg: malCloneMsg(m)})
		}
	}
	return out
}

// ---- child / supervisor ---------------------------------------------------------------------------------------------

type childLine struct {
	K     int             `json:"k"`
	Begin bool            `json:"begin,omitempty"`
	Op    string          `json:"op,omitempty"`
	In    json.RawMessage `json:"in,omitempty"`
	Impl  json.RawMessage `json:"impl,omitempty"`
}

// childCtx: the case loop of a supervised child process. Every case is announced (begin line) before it runs, so
// that the parent knows which case the process died on; cases below `from` are skipped (restart behind a death).
type childCtx struct {
	w    *bufio.Writer
	k    int
	from int
}

func newChildCtx() *childCtx {
	from, _ := strconv.Atoi(os.Getenv("VERIF_CHILD_FROM"))
	cc := &childCtx{w: bufio.NewWriter(os.NewFile(3, "cases")), from: from}
	// address-space limit and a watchdog on the heap: a runaway allocation ends THIS process, not the suite
	_ = syscall.Setrlimit(syscall.RLIMIT_AS, &syscall.Rlimit{Cur: 24 << 30, Max: 24 << 30})
	debug.SetMemoryLimit(3 << 30)
	go func() {
		var ms runtime.MemStats
		for {
			time.Sleep(40 * time.Millisecond)
			runtime.ReadMemStats(&ms)
			if ms.Sys > 6<<30 {
				fmt.Fprintln(os.Stderr, "VERIF-MEMLIMIT: process memory above 6 GiB")
				os.Exit(97)
			}
		}
	}()
	return cc
}

func (cc *childCtx) line(l childLine) {
	b, _ := json.Marshal(l)
	cc.w.Write(b)
	cc.w.WriteByte('\n')
	cc.w.Flush()
}

// do runs one case unless it lies before the restart point. run returns the final `in` and `impl`;
// a returned impl outcome TIMEOUT ends the process (a goroutine is stuck), the parent restarts behind the case.
func (cc *childCtx) do(op string, in interface{}, run func() (interface{}, J)) {
	k := cc.k
	cc.k++
	if k < cc.from {
		return
	}
	ib, _ := json.Marshal(in)
	cc.line(childLine{K: k, Begin: true, Op: op, In: ib})
	in2, impl := run()
	ib2, _ := json.Marshal(in2)
	mb, _ := json.Marshal(impl)
	cc.line(childLine{K: k, Op: op, In: ib2, Impl: mb})
	if impl["outcome"] == "TIMEOUT" {
		cc.w.Flush()
		os.Exit(96)
	}
}

// supervise runs `childSuite` in child processes until all its cases are done, re-emitting their lines; a case the
// child dies on is recorded with the outcome read off the death (MEMLIMIT for out-of-memory, PANIC otherwise).
func supervise(c *Ctx, childSuite string) {
	from := 0
	exe, _ := os.Executable()
	for restarts := 0; restarts < 1000; restarts++ {
		pr, pw, err := os.Pipe()
		if err != nil {
			panic(err)
		}
		cmd := exec.Command(exe, "-suite", childSuite, "-seed", fmt.Sprint(c.Seed), "-n", fmt.Sprint(c.N), "-tier", c.Tier, "-out", os.DevNull)
		cmd.Env = append(os.Environ(), "VERIF_CHILD_FROM="+fmt.Sprint(from), "GOMEMLIMIT=3GiB")
		cmd.ExtraFiles = []*os.File{pw}
		var stderr strings.Builder
		cmd.Stderr = &stderr
		if err := cmd.Start(); err != nil {
			panic(err)
		}
		pw.Close()
		sc := bufio.NewScanner(pr)
		sc.Buffer(make([]byte, 1<<20), 256<<20)
		var pending *childLine
		last := from - 1
		for sc.Scan() {
			var l childLine
			if json.Unmarshal(sc.Bytes(), &l) != nil {
				continue
			}
			if l.Begin {
				pending = &l
				continue
			}
			pending = nil
			last = l.K
			var in, impl interface{}
			json.Unmarshal(l.In, &in)
			json.Unmarshal(l.Impl, &impl)
			c.Emit(l.Op, in, impl)
			if mm, ok := impl.(map[string]interface{}); ok && mm["outcome"] != nil {
				c.Count(c.suite + "/outcome/" + fmt.Sprint(mm["outcome"]))
			}
		}
		err = cmd.Wait()
		pr.Close()
		if pending != nil {
			outcome := "PANIC"
			se := stderr.String()
			if strings.Contains(se, "VERIF-MEMLIMIT") || strings.Contains(se, "out of memory") || strings.Contains(se, "cannot allocate memory") {
				outcome = "MEMLIMIT"
			}
			first := se
			if i := strings.Index(se, "fatal error"); i >= 0 {
				first = se[i:]
			}
			if i := strings.Index(first, "\n"); i > 0 {
				first = first[:i]
			}
			var in interface{}
			json.Unmarshal(pending.In, &in)
			c.Emit(pending.Op, in, J{"outcome": outcome, "detail": "the process running the case died: " + strings.TrimSpace(first), "at": ""})
			c.Count(c.suite + "/outcome/" + outcome)
			from = pending.K + 1
			continue
		}
		if err != nil {
			if ee, ok := err.(*exec.ExitError); ok && ee.ExitCode() == 96 {
				from = last + 1 // restart behind a timed-out case (already reported)
				continue
			}
			panic(fmt.Sprintf("%s failed outside a case: %v\n%s", childSuite, err, stderr.String()))
		}
		return
	}
}

func selectedScenarios(c *Ctx, m *robustMaterial) []scenario {
	all := malformScenarios(m)
	var out []scenario
	want := os.Getenv("VERIF_MALFORM_SCN")
	for _, s := range all {
		if want != "" {
			if strings.Contains(s.name, want) {
				out = append(out, s)
			}
			continue
		}
		out = append(out, s)
	}
	return out
}

// malformChild: the cases of suite `malform`, run in a supervised child process.
func malformChild(c *Ctx) {
	cc := newChildCtx()
	defer cc.w.Flush()
	m := getRobustMaterial(c, true)
	for _, s := range selectedScenarios(c, m) {
		s := s
		installPrimeHook(0)
		trace, ok, note := s.record(c.Seed)
		if !ok {
			cc.do("malform", J{"scn": s.name, "kind": "record"}, func() (interface{}, J) {
				return J{"scn": s.name, "kind": "record"}, J{"outcome": "HARNESS", "detail": "honest recording run failed: " + note}
			})
			continue
		}
		cases := s.plan(c.Seed, trace, c.Tier)
		crafted := craftedCases(&s, c.Seed, trace, m)
		cases = sliceCases(cases, c.Seed, s.budget(c))
		cases = append(crafted, cases...)
		for _, pc := range cases {
			pc := pc
			wire, _ := pc.msg.MarshalBinary()
			pc.c.Msg = hx(wire)
			cc.do("malform", pc.c, func() (interface{}, J) {
				var r caseResult
				if pc.full != nil {
					r = guardedFull(pc.full)
				} else {
					r = s.runCase(c.Seed, trace, pc.c.State, pc.msg, pc.subst)
				}
				b, _ := json.Marshal(pc.c)
				inJ := J{}
				json.Unmarshal(b, &inJ)
				if r.Outcome != "" {
					return inJ, J{"outcome": r.Outcome, "detail": r.Detail, "at": r.At}
				}
				inJ["obs"] = r.Obs
				return inJ, J{"ok": true}
			})
		}
	}
}

func guardedFull(f func() caseResult) (r caseResult) {
	ch := make(chan caseResult, 1)
	go func() {
		var x caseResult
		defer func() {
			if p := recover(); p != nil {
				st := string(debug.Stack())
				v := p
				if ps, ok := p.(panicWithStack); ok {
					v, st = ps.v, ps.stack
				}
				x = caseResult{Outcome: "PANIC", Detail: fmt.Sprint(v), At: topFrame(st)}
			}
			ch <- x
		}()
		x = f()
	}()
	select {
	case r = <-ch:
	case <-time.After(fastTimeout):
		r = caseResult{Outcome: "TIMEOUT", Detail: "no return"}
	}
	return r
}

// craftedCases: malformations that need two consistent messages of one sender (a single malformed field would be
// caught by a later consistency check and never reach the code behind it).
func craftedCases(s *scenario, seed int64, trace []*protocol.Message, m *robustMaterial) []plannedCase {
	if s.name != "frost/keygen" {
		return nil
	}
	// sender b deals a polynomial of degree 0 instead of t = 1 and sends shares that match it:
	// Phi_b = [a0*G] (its Schnorr proof for a0 stays valid), F_b->victim = a0.
	b := s.ids[1]
	idx := 1
	env := newPartyEnv(seed, s.ids)
	a0 := sample.Scalar(env.readers[b], m.group) // the first draw of party b in round 1
	a0b, _ := a0.MarshalBinary()
	bi, pi := -1, -1
	for i, x := range trace {
		if x.From == b && x.RoundNumber == 2 && x.Broadcast {
			bi = i
		}
		if x.From == b && x.RoundNumber == 3 && !x.Broadcast {
			pi = i
		}
	}
	_ = idx
	if bi < 0 || pi < 0 {
		return nil
	}
	root, used, err := parseCBOR(trace[bi].Data, 0)
	if err != nil || used != len(trace[bi].Data) {
		return nil
	}
	var paths []cpath
	root.walk("$", nil, 0, 8, &paths)
	okB := false
	for _, p := range paths {
		if p.path == "$.Phi_i" && p.node.embed && len(p.node.prefix) == 4 {
			for _, q := range paths {
				if q.path == "$.Phi_i<cbor>.Coefficients" && len(q.node.kids) == 2 {
					q.node.kids = q.node.kids[:1]
					p.node.prefix = []byte{0, 0, 0, 1}
					okB = true
				}
			}
		}
	}
	root3, used3, err3 := parseCBOR(trace[pi].Data, 0)
	if !okB || err3 != nil || used3 != len(trace[pi].Data) {
		return nil
	}
	var paths3 []cpath
	root3.walk("$", nil, 0, 8, &paths3)
	okP := false
	for _, p := range paths3 {
		if p.path == "$.F_li" && p.node.major == 2 {
			p.node.data = a0b
			okP = true
		}
	}
	if !okP {
		return nil
	}
	forgedB, forgedP := root.encode(), root3.encode()
	c := malCase{Scn: s.name, State: 0, Target: bi, From: hx([]byte(b)), Round: 2, Bcast: true, Kind: "crafted",
		Path: "$.Phi_i<cbor>.Coefficients + round 3 $.F_li", Mal: "degree-0-polynomial-with-matching-shares", Node: "array"}
	mb := malCloneMsg(trace[bi])
	mb.Data = forgedB
	full := func() caseResult {
		// the whole session live: b's round-2 broadcast is forged for EVERY recipient and every share b sends is the
		// matching constant. A cheating b also attaches the echo hash of the forged view to its round-3 messages: that
		// value is what the honest party c attaches (pass 1 captures it, pass 2 uses it; the runs are deterministic).
		var echo []byte
		forge := func(x *protocol.Message, to party.ID) *protocol.Message {
			if x.From != b {
				if x.RoundNumber == 3 && echo == nil && x.BroadcastVerification != nil {
					echo = append([]byte{}, x.BroadcastVerification...)
				}
				return x
			}
			y := malCloneMsg(x)
			switch {
			case x.RoundNumber == 2 && x.Broadcast:
				y.Data = forgedB
			case x.RoundNumber == 3 && !x.Broadcast:
				y.Data = forgedP
			}
			return y
		}
		s.recordFiltered(seed, forge)
		captured := echo
		_, ok, note := s.recordFiltered(seed, func(x *protocol.Message, to party.ID) *protocol.Message {
			y := forge(x, to)
			if x.From == b && x.RoundNumber == 3 && captured != nil {
				y.BroadcastVerification = captured
			}
			return y
		})
		// no panic: the honest parties either finished or ended with an error
		return caseResult{Obs: J{"can": true, "full": true, "completed": ok, "note": note,
			"s0": snap{Culprits: []string{}}, "s1": snap{Culprits: []string{}}, "s2": snap{Culprits: []string{}}}}
	}
	cases := []plannedCase{{c: c, msg: mb, full: full}}
	if hc := craftedHighDegree(s, seed, trace, m, b, bi); hc != nil {
		cases = append(cases, *hc)
	}
	return cases
}

// craftedHighDegree: sender b deals a polynomial of degree t+1 (one coefficient too many, k*G for a fixed k) and sends
// every recipient the share that matches it (honest share + k*x^2): the commitment, its Schnorr proof and every share
// check hold; only the degree is wrong. An honest party must end the session cleanly (round 2 refuses the degree).
func craftedHighDegree(s *scenario, seed int64, trace []*protocol.Message, m *robustMaterial, b party.ID, bi int) *plannedCase {
	root, used, err := parseCBOR(trace[bi].Data, 0)
	if err != nil || used != len(trace[bi].Data) {
		return nil
	}
	k := m.group.NewScalar().SetNat(new(saferith.Nat).SetUint64(0x5eed))
	kG, _ := k.ActOnBase().MarshalBinary()
	var paths []cpath
	root.walk("$", nil, 0, 8, &paths)
	okB := false
	for _, p := range paths {
		if p.path == "$.Phi_i" && p.node.embed && len(p.node.prefix) == 4 {
			for _, q := range paths {
				if q.path == "$.Phi_i<cbor>.Coefficients" && len(q.node.kids) == 2 && q.node.kids[1].major == 2 {
					extra := q.node.kids[1].clone()
					extra.data = kG
					q.node.kids = append(q.node.kids, extra)
					p.node.prefix = []byte{0, 0, 0, 3}
					okB = true
				}
			}
		}
	}
	if !okB {
		return nil
	}
	forgedB := root.encode()
	shareFor := func(x *protocol.Message, to party.ID) []byte {
		r3, u3, e3 := parseCBOR(x.Data, 0)
		if e3 != nil || u3 != len(x.Data) {
			return nil
		}
		var ps []cpath
		r3.walk("$", nil, 0, 8, &ps)
		for _, p := range ps {
			if p.path == "$.F_li" && p.node.major == 2 {
				f := m.group.NewScalar()
				if f.UnmarshalBinary(p.node.data) != nil {
					return nil
				}
				xs := to.Scalar(m.group)
				add := m.group.NewScalar().Set(xs).Mul(xs).Mul(k)
				nb, _ := f.Add(add).MarshalBinary()
				p.node.data = nb
				return r3.encode()
			}
		}
		return nil
	}
	c := malCase{Scn: s.name, State: 0, Target: bi, From: hx([]byte(b)), Round: 2, Bcast: true, Kind: "crafted",
		Path: "$.Phi_i<cbor>.Coefficients + round 3 $.F_li", Mal: "degree-t+1-polynomial-with-matching-shares", Node: "array"}
	mb := malCloneMsg(trace[bi])
	mb.Data = forgedB
	full := func() caseResult {
		var echo []byte
		forge := func(x *protocol.Message, to party.ID) *protocol.Message {
			if x.From != b {
				if x.RoundNumber == 3 && echo == nil && x.BroadcastVerification != nil {
					echo = append([]byte{}, x.BroadcastVerification...)
				}
				return x
			}
			y := malCloneMsg(x)
			switch {
			case x.RoundNumber == 2 && x.Broadcast:
				y.Data = forgedB
			case x.RoundNumber == 3 && !x.Broadcast:
				if d := shareFor(x, to); d != nil {
					y.Data = d
				}
			}
			return y
		}
		s.recordFiltered(seed, forge)
		captured := echo
		_, ok, note := s.recordFiltered(seed, func(x *protocol.Message, to party.ID) *protocol.Message {
			y := forge(x, to)
			if x.From == b && x.RoundNumber == 3 && captured != nil {
				y.BroadcastVerification = captured
			}
			return y
		})
		return caseResult{Obs: J{"can": true, "full": true, "completed": ok, "note": note,
			"s0": snap{Culprits: []string{}}, "s1": snap{Culprits: []string{}}, "s2": snap{Culprits: []string{}}}}
	}
	return &plannedCase{c: c, msg: mb, full: full}
}

// budget: how many of the planned cases of a scenario are run. The fast protocols are run in full in the thorough
// tier; the CMP scenarios cost 0.5 - 5 s per case (every case replays the victim's proofs) and get a seeded slice.
func (s *scenario) budget(c *Ctx) int {
	if !s.slow {
		if c.Tier == "thorough" {
			return 1 << 30
		}
		return 30 * c.N
	}
	if os.Getenv("VERIF_MALFORM_ALL") != "" {
		return 1 << 30
	}
	quick := map[string]int{"cmp/sign": 25, "cmp/presign": 20, "cmp/presign-online": 25, "cmp/keygen": 8, "cmp/refresh": 5}
	thorough := map[string]int{"cmp/sign": 400, "cmp/presign": 300, "cmp/presign-online": 100, "cmp/keygen": 100, "cmp/refresh": 60}
	if c.Tier == "thorough" {
		return thorough[s.name]
	}
	return quick[s.name]
}

// sliceCases keeps at most n cases: every (state, target, kind) group is represented, the rest is sampled.
func sliceCases(cases []plannedCase, seed int64, n int) []plannedCase {
	if len(cases) <= n {
		return cases
	}
	rng := rand.New(rand.NewSource(seed + 4242))
	idx := rng.Perm(len(cases))[:n]
	sort.Ints(idx)
	out := make([]plannedCase, 0, n)
	for _, i := range idx {
		out = append(out, cases[i])
	}
	return out
}

func init() {
	register("malform-child", malformChild)
	register("malform", func(c *Ctx) { supervise(c, "malform-child") })
}
