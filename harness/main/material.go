//go:build verif

package main

// Shared helpers to run REAL protocol sessions deterministically from one goroutine:
//   - a fixture of safe primes is fed to sample.Paillier through the verif hook (H1);
//   - runSessions drives any set of protocol.Handler (Multi or TwoParty) to completion with an
//     optional message filter (tampering) and a seeded delivery order.

import (
	"bufio"
	"fmt"
	"os"
	"path/filepath"
	"runtime"
	"strings"

	"github.com/cronokirby/saferith"
	"github.com/taurusgroup/multi-party-sig/pkg/math/sample"
	"github.com/taurusgroup/multi-party-sig/pkg/party"
	"github.com/taurusgroup/multi-party-sig/pkg/protocol"
)

var fixturePrimes []*saferith.Nat
var primeCursor int

func verifDir() string {
	if d := os.Getenv("VERIF_DIR"); d != "" {
		return d
	}
	return "/verif"
}

// installPrimeHook makes sample.Paillier take its primes from fixtures/safeprimes.txt (round robin from `start`).
func installPrimeHook(start int) {
	if fixturePrimes == nil {
		f, err := os.Open(filepath.Join(verifDir(), "fixtures", "safeprimes.txt"))
		if err != nil {
			panic(err)
		}
		defer f.Close()
		sc := bufio.NewScanner(f)
		sc.Buffer(make([]byte, 1<<16), 1<<16)
		for sc.Scan() {
			l := strings.TrimSpace(sc.Text())
			if l == "" {
				continue
			}
			n, err := new(saferith.Nat).SetHex(l)
			if err != nil {
				panic(err)
			}
			fixturePrimes = append(fixturePrimes, n)
		}
	}
	primeCursor = (2 * start) % len(fixturePrimes)
	sample.PaillierPrimeHook = func() (p, q *saferith.Nat) {
		p = fixturePrimes[primeCursor%len(fixturePrimes)]
		q = fixturePrimes[(primeCursor+1)%len(fixturePrimes)]
		primeCursor += 2
		return new(saferith.Nat).SetNat(p), new(saferith.Nat).SetNat(q)
	}
}

// A Filter may replace, drop (return nil) or duplicate a message in transit from `from` to `to`.
type Filter func(m *protocol.Message, to party.ID) []*protocol.Message

type sessionResult struct {
	Results map[party.ID]interface{}
	Errors  map[party.ID]error
	Steps   int
	Panic   string
}

// runSessions delivers messages until every handler has ended or nothing is left to deliver.
// order: "fifo" (in-order) or "random" (seeded shuffle with occasional duplicates).
func runSessions(c *Ctx, hs map[party.ID]protocol.Handler, order string, filter Filter) (res sessionResult) {
	res = sessionResult{Results: map[party.ID]interface{}{}, Errors: map[party.ID]error{}}
	defer func() {
		if r := recover(); r != nil {
			buf := make([]byte, 4096)
			n := runtime.Stack(buf, false)
			res.Panic = fmt.Sprint(r) + "\n" + string(buf[:n])
		}
	}()
	type item struct {
		m  *protocol.Message
		to party.ID
	}
	ids := make([]party.ID, 0, len(hs))
	for id := range hs {
		ids = append(ids, id)
	}
	ids = party.NewIDSlice(ids)
	var queue []item
	closed := map[party.ID]bool{}
	route := func(id party.ID, m *protocol.Message) {
		for _, to := range ids {
			if to == id || !m.IsFor(to) {
				continue
			}
			ms := []*protocol.Message{m}
			if filter != nil {
				ms = filter(m, to)
			}
			for _, x := range ms {
				if x != nil {
					queue = append(queue, item{x, to})
				}
			}
		}
	}
	collect := func() {
		for _, id := range ids {
			if closed[id] {
				continue
			}
			ch := hs[id].Listen()
		loop:
			for {
				select {
				case m, ok := <-ch:
					if !ok {
						closed[id] = true
						break loop
					}
					route(id, m)
				default:
					break loop
				}
			}
		}
	}
	// accept runs Accept on another goroutine and keeps that handler's out channel drained meanwhile,
	// so that a call emitting more messages than the channel holds cannot block.
	accept := func(to party.ID, m *protocol.Message) {
		done := make(chan interface{}, 1)
		go func() {
			defer func() { done <- recover() }()
			hs[to].Accept(m)
		}()
		ch := hs[to].Listen()
		for {
			if closed[to] {
				if r := <-done; r != nil {
					panic(r)
				}
				return
			}
			select {
			case x, ok := <-ch:
				if !ok {
					closed[to] = true
				} else {
					route(to, x)
				}
			case r := <-done:
				if r != nil {
					panic(r)
				}
				return
			}
		}
	}
	collect()
	for len(queue) > 0 && res.Steps < 100000 {
		res.Steps++
		k := 0
		if order == "random" {
			k = c.Intn(len(queue))
		}
		it := queue[k]
		if order == "random" && c.Intn(12) == 0 {
			// duplicate: deliver now and again later
		} else {
			queue = append(queue[:k], queue[k+1:]...)
		}
		accept(it.to, it.m)
		collect()
	}
	for _, id := range ids {
		r, err := hs[id].Result()
		if err != nil {
			res.Errors[id] = err
		} else {
			res.Results[id] = r
		}
	}
	return res
}
