//verif:requires pkg/pool/hook_verif.go
//go:build verif

package main

// Wires the scheduler of suite `pool` to the H2 yield hooks. This file is part of the harness only
// when the tree has pkg/pool/hook_verif.go (see bin/mkoverlay).

import "github.com/taurusgroup/multi-party-sig/pkg/pool"

func init() {
	poolSetYield = func(h func(string)) { pool.SetYieldHook(pool.YieldHook(h)) }
}
