//go:build verif

package main

// Suite `sig` (C16): the stand-alone signature primitives of /repo against the Lean
// transcriptions of the standards. Every case is run through the REAL code
// (curve point/scalar decoding, curve.FromHash, ecdsa.Signature.Verify / SigEthereum,
// taproot.SecretKey.Public / Sign, taproot.PublicKey.Verify). Fields:
//   go / dec / enc / sig / ...  what the implementation did (the Lean MODEL of the code must agree)
//   std / std_ok / rs / recover / lows / kept / xonly / match   property level: the implementation claims its
//        verdict is the standard's verdict; the Lean SPEC computes the standard's verdict.

import (
	"bytes"
	"math/big"

	"github.com/cronokirby/saferith"
	"github.com/taurusgroup/multi-party-sig/pkg/ecdsa"
	"github.com/taurusgroup/multi-party-sig/pkg/math/curve"
	"github.com/taurusgroup/multi-party-sig/pkg/taproot"
)

var sgrp = curve.Secp256k1{}

var secpN, _ = new(big.Int).SetString("FFFFFFFFFFFFFFFFFFFFFFFFFFFFFFFEBAAEDCE6AF48A03BBFD25E8CD0364141", 16)
var secpP, _ = new(big.Int).SetString("FFFFFFFFFFFFFFFFFFFFFFFFFFFFFFFFFFFFFFFFFFFFFFFFFFFFFFFEFFFFFC2F", 16)

func be32(x *big.Int) []byte {
	b := make([]byte, 32)
	new(big.Int).Mod(x, new(big.Int).Lsh(big.NewInt(1), 256)).FillBytes(b)
	return b
}

func scalarOfBig(x *big.Int) curve.Scalar {
	return sgrp.NewScalar().SetNat(new(saferith.Nat).SetBig(new(big.Int).Mod(x, secpN), 256))
}
func scalarBytes(s curve.Scalar) []byte { b, _ := s.MarshalBinary(); return b }
func pointBytes(p curve.Point) []byte   { b, _ := p.MarshalBinary(); return b }
func scalarBig(s curve.Scalar) *big.Int { return new(big.Int).SetBytes(scalarBytes(s)) }
func cloneScalar(s curve.Scalar) curve.Scalar {
	return sgrp.NewScalar().Set(s)
}

func (c *Ctx) randScalar() curve.Scalar {
	for {
		s := scalarOfBig(new(big.Int).SetBytes(c.Bytes(32)))
		if !s.IsZero() {
			return s
		}
	}
}

// boundary values for 32-byte fields
func lattice() []*big.Int {
	one := big.NewInt(1)
	two256 := new(big.Int).Lsh(one, 256)
	return []*big.Int{
		big.NewInt(0), big.NewInt(1), big.NewInt(2),
		new(big.Int).Sub(secpN, one), new(big.Int).Set(secpN), new(big.Int).Add(secpN, one),
		new(big.Int).Rsh(secpN, 1), new(big.Int).Add(new(big.Int).Rsh(secpN, 1), one),
		new(big.Int).Sub(secpP, one), new(big.Int).Set(secpP), new(big.Int).Add(secpP, one),
		new(big.Int).Sub(two256, one),
	}
}

var badPrefixes = []byte{0x00, 0x01, 0x04, 0x05, 0x06, 0x07, 0xff}

type ecdsaCase struct {
	X, H, R, S []byte
	Rinf       bool
	kind       string
}

// signECDSA: textbook signing done by the harness with the library's group operations
func signECDSA(x, k curve.Scalar, h []byte) (curve.Point, curve.Scalar) {
	R := k.ActOnBase()
	r := R.XScalar()
	m := curve.FromHash(sgrp, h)
	s := cloneScalar(r).Mul(x).Add(m)
	s = cloneScalar(k).Invert().Mul(s)
	return R, s
}

func runEcdsaCase(c *Ctx, ec ecdsaCase) {
	in := J{"X": hx(ec.X), "h": hx(ec.H), "R": hx(ec.R), "s": hx(ec.S), "kind": ec.kind}
	if ec.Rinf {
		in["R"] = "inf"
	}
	impl := Guard(func() interface{} {
		rej := func(d string) J { return J{"dec": d, "go": false, "std": false, "rs": false} }
		X := sgrp.NewPoint()
		if err := X.UnmarshalBinary(ec.X); err != nil {
			return rej("badX")
		}
		R := sgrp.NewPoint()
		if !ec.Rinf {
			if err := R.UnmarshalBinary(ec.R); err != nil {
				return rej("badR")
			}
		}
		S := sgrp.NewScalar()
		if err := S.UnmarshalBinary(ec.S); err != nil {
			return rej("badS")
		}
		v := ecdsa.Signature{R: R, S: S}.Verify(X, ec.H)
		// textbook ECDSA only sees r = x(R) mod n: (r, s) is valid iff (R, s) or (−R, s) is
		vn := v
		if !v && !ec.Rinf {
			vn = ecdsa.Signature{R: R.Negate(), S: S}.Verify(X, ec.H)
		}
		return J{"dec": "ok", "go": v, "std": v, "rs": vn}
	})
	if m, ok := impl.(J); ok {
		if d, ok := m["dec"].(string); ok {
			c.Count("sig/ecdsa:" + ec.kind + ":" + d)
		}
		if m["go"] == true {
			c.Count("sig/ecdsa:accepted")
		}
	}
	c.Emit("ecdsa", in, impl)
}

func runEthCase(c *Ctx, X curve.Point, h []byte, R curve.Point, S curve.Scalar, kind string) {
	in := J{"X": hx(pointBytes(X)), "h": hx(h), "R": hx(pointBytes(R)), "s": hx(scalarBytes(S)), "kind": kind}
	impl := Guard(func() interface{} {
		sig := ecdsa.Signature{R: R, S: S}
		before := sig.Verify(X, h)
		out, err := sig.SigEthereum()
		if err != nil {
			in["obs"] = nil
			return J{"eth": nil, "R_after": nil, "s_after": hx(scalarBytes(sig.S)), "still": false, "recover": before,
				"lows": false, "std_eth": nil, "kept": false}
		}
		in["obs"] = hx(out)
		still := sig.Verify(X, h)
		return J{"eth": hx(out), "R_after": hx(pointBytes(sig.R)), "s_after": hx(scalarBytes(sig.S)), "still": still,
			"recover": before, "lows": true, "std_eth": hx(out), "kept": still == before}
	})
	c.Count("sig/eth:" + kind)
	c.Emit("eth", in, impl)
}

// highXPoint: a curve point whose x coordinate lies in [n, p) (so that r = x mod n ≠ x)
func highXPoint(c *Ctx) curve.Point {
	x := new(big.Int).Add(secpN, big.NewInt(int64(c.Intn(1000))))
	for {
		b := append([]byte{byte(2 + c.Intn(2))}, be32(x)...)
		P := sgrp.NewPoint()
		if err := P.UnmarshalBinary(b); err == nil {
			return P
		}
		x.Add(x, big.NewInt(1))
	}
}

// keyFor: the public key X = r⁻¹(s·R − m·G) under which (R, s) is a valid signature of h
func keyFor(R curve.Point, s curve.Scalar, h []byte) curve.Point {
	r := R.XScalar()
	m := curve.FromHash(sgrp, h)
	T := s.Act(R).Sub(m.ActOnBase())
	return cloneScalar(r).Invert().Act(T)
}

type bipCase struct {
	pk, m, sig []byte
	kind       string
}

func taggedChallenge(rx, pk, m []byte) curve.Scalar {
	e := new(curve.Secp256k1Scalar)
	_ = e.UnmarshalBinary(taproot.TaggedHash("BIP0340/challenge", rx, pk, m))
	return e
}

// schnorrWith: a BIP-340-shaped signature made by the harness for an arbitrary public-key STRING pk
// (whose first 32 bytes / padded value is x(d·G)); evenR=false leaves an odd-Y nonce point in place.
func schnorrWith(d curve.Scalar, pk []byte, k curve.Scalar, m []byte, evenR bool) []byte {
	d = cloneScalar(d)
	k = cloneScalar(k)
	P := d.ActOnBase().(*curve.Secp256k1Point)
	if !P.HasEvenY() {
		d.Negate()
	}
	R := k.ActOnBase().(*curve.Secp256k1Point)
	if R.HasEvenY() != evenR {
		k.Negate()
		R = k.ActOnBase().(*curve.Secp256k1Point)
	}
	rx := R.XBytes()
	e := taggedChallenge(rx, pk, m)
	z := e.Mul(d).Add(k)
	return append(append([]byte{}, rx...), scalarBytes(z)...)
}

func runBipVerify(c *Ctx, bc bipCase) {
	in := J{"pk": hx(bc.pk), "m": hx(bc.m), "sig": hx(bc.sig), "kind": bc.kind}
	impl := Guard(func() interface{} {
		v := taproot.PublicKey(bc.pk).Verify(taproot.Signature(bc.sig), bc.m)
		return J{"go": v, "std": v}
	})
	if m, ok := impl.(J); ok && m["go"] == true {
		c.Count("sig/bip340-verify:accepted")
	}
	c.Count("sig/bip340-verify:" + bc.kind)
	c.Emit("bip340-verify", in, impl)
}

func runBipSign(c *Ctx, sk, aux, m []byte, kind string) []byte {
	in := J{"sk": hx(sk), "m": hx(m), "kind": kind}
	var sigOut []byte
	impl := Guard(func() interface{} {
		var sig taproot.Signature
		var err error
		if aux != nil {
			in["aux"] = hx(aux)
			sig, err = taproot.SecretKey(sk).Sign(bytes.NewReader(aux), m)
		} else {
			in["aux"] = nil
			// the counter is only touched once the key has been accepted
			in["ctr"] = new(big.Int).SetUint64(taproot.VerifSignatureCounter() + 1).Text(16)
			sig, err = taproot.SecretKey(sk).Sign(nil, m)
		}
		if err != nil {
			return J{"sig": nil, "std": nil}
		}
		sigOut = sig
		return J{"sig": hx(sig), "std": hx(sig)}
	})
	c.Count("sig/bip340-sign:" + kind)
	c.Emit("bip340-sign", in, impl)
	return sigOut
}

var bip340Vectors = [][5]string{
	{"0000000000000000000000000000000000000000000000000000000000000003",
		"f9308a019258c31049344f85f89d5229b531c845836f99b08601f113bce036f9",
		"0000000000000000000000000000000000000000000000000000000000000000",
		"0000000000000000000000000000000000000000000000000000000000000000",
		"e907831f80848d1069a5371b402410364bdf1c5f8307b0084c55f1ce2dca821525f66a4a85ea8b71e482a74f382d2ce5ebeee8fdb2172f477df4900d310536c0"},
	{"b7e151628aed2a6abf7158809cf4f3c762e7160f38b4da56a784d9045190cfef",
		"dff1d77f2a671c5f36183726db2341be58feae1da2deced843240f7b502ba659",
		"0000000000000000000000000000000000000000000000000000000000000001",
		"243f6a8885a308d313198a2e03707344a4093822299f31d0082efa98ec4e6c89",
		"6896bd60eeae296db48a229ff71dfe071bde413e6d43f917dc8dcf8c78de33418906d11ac976abccb20b091292bff4ea897efcb639ea871cfa95f6de339e4b0a"},
	{"c90fdaa22168c234c4c6628b80dc1cd129024e088a67cc74020bbea63b14e5c9",
		"dd308afec5777e13121fa72b9cc1b7cc0139715309b086c960e18fd969774eb8",
		"c87aa53824b4d7ae2eb035a2b5bbbccc080e76cdc6d1692c4b0b62d798e6d906",
		"7e2d58d8b3bcdf1abadec7829054f90dda9805aab56c77333024b9d0a508b75c",
		"5831aaeed7b44bb74e5eab94ba9d4294c49bcf2a60728d8b4c200f50dd313c1bab745879a5ad954a72c45a91c3a51d3c7adea98d82f8481e0e1e03674a6f3fb7"},
	{"0b432b2677937381aef05bb02a66ecd012773062cf3fa2549e44f58ed2401710",
		"25d1dff95105f5253c4022f628a996ad3a0d95fbf21d468a1b33f8c160d8f517",
		"ffffffffffffffffffffffffffffffffffffffffffffffffffffffffffffffff",
		"ffffffffffffffffffffffffffffffffffffffffffffffffffffffffffffffff",
		"7eb0509757e246f19449885651611cb965ecc1a187dd51b64fda1edc9637d5ec97582b9cb13db3933705b32ba982af5af25fd78881ebb32771fc5922efc66ea3"},
}

func sigMsgOfLen(c *Ctx, n int) []byte {
	b := c.Bytes(n)
	switch c.Intn(6) {
	case 0:
		for i := range b {
			b[i] = 0xff
		}
	case 1:
		for i := range b {
			b[i] = 0
		}
	}
	return b
}

var msgLens = []int{0, 1, 2, 20, 31, 32, 33, 48, 63, 64, 65, 100, 200}

func init() {
	register("sig", func(c *Ctx) {
		lat := lattice()

		// ---- 0. published BIP-340 vectors through the real Public / Sign / Verify
		for i, v := range bip340Vectors {
			sk, pk, aux, m, sig := unhx(v[0]), unhx(v[1]), unhx(v[2]), unhx(v[3]), unhx(v[4])
			impl := Guard(func() interface{} {
				gpk, err := taproot.SecretKey(sk).Public()
				if err != nil {
					return J{"pk": nil, "sig": nil, "ver": false, "match": false}
				}
				gsig, err := taproot.SecretKey(sk).Sign(bytes.NewReader(aux), m)
				if err != nil {
					return J{"pk": hx(gpk), "sig": nil, "ver": false, "match": false}
				}
				ver := taproot.PublicKey(pk).Verify(taproot.Signature(sig), m)
				return J{"pk": hx(gpk), "sig": hx(gsig), "ver": ver, "match": bytes.Equal(gpk, pk) && bytes.Equal(gsig, sig)}
			})
			c.Emit("bip340-vector", J{"index": i, "sk": v[0], "pk": v[1], "aux": v[2], "m": v[3], "sig": v[4]}, impl)
		}

		// ---- 1. curve.FromHash over many lengths
		nh := c.N / 4
		for i := 0; i < nh; i++ {
			var h []byte
			if i < 80 {
				h = sigMsgOfLen(c, i)
			} else {
				h = sigMsgOfLen(c, c.Intn(130))
			}
			if i%7 == 3 && len(h) >= 32 { // values around n in the leading 32 bytes
				copy(h, be32(lat[3+c.Intn(3)]))
			}
			impl := Guard(func() interface{} {
				b := scalarBytes(curve.FromHash(sgrp, h))
				return J{"go": hx(b), "std": hx(b)}
			})
			c.Emit("fromhash", J{"h": hx(h)}, impl)
		}

		// ---- 2. point / scalar decoding
		pdecode := func(b []byte, kind string) {
			impl := Guard(func() interface{} {
				P := sgrp.NewPoint()
				if err := P.UnmarshalBinary(b); err != nil {
					return J{"ok": false, "enc": nil, "std_ok": false}
				}
				return J{"ok": true, "enc": hx(pointBytes(P)), "std_ok": true}
			})
			c.Count("sig/pdecode:" + kind)
			c.Emit("pdecode", J{"hex": hx(b), "kind": kind}, impl)
		}
		sdecode := func(b []byte) {
			impl := Guard(func() interface{} {
				S := sgrp.NewScalar()
				if err := S.UnmarshalBinary(b); err != nil {
					return J{"ok": false, "v": nil}
				}
				return J{"ok": true, "v": hx(scalarBytes(S))}
			})
			c.Emit("sdecode", J{"hex": hx(b)}, impl)
		}
		for _, v := range lat {
			for _, pre := range []byte{2, 3, 0, 4, 7} {
				kind := "lattice"
				if pre != 2 && pre != 3 {
					kind = "prefix"
				}
				pdecode(append([]byte{pre}, be32(v)...), kind)
			}
			sdecode(be32(v))
		}
		sdecode(nil)
		sdecode(c.Bytes(31))
		sdecode(c.Bytes(33))
		pdecode(nil, "len")
		pdecode(make([]byte, 33), "zero")
		np := c.N / 8
		for i := 0; i < np; i++ {
			P := c.randScalar().ActOnBase()
			enc := pointBytes(P)
			pdecode(enc, "valid")
			flip := append([]byte{}, enc...)
			flip[0] ^= 1
			pdecode(flip, "parity")
			for _, pre := range badPrefixes {
				b := append([]byte{pre}, enc[1:]...)
				pdecode(b, "prefix")
			}
			pdecode(enc[:32], "len")
			pdecode(append(append([]byte{}, enc...), 0), "len")
			pdecode(append([]byte{4}, append(enc[1:], c.Bytes(32)...)...), "len") // uncompressed form
			pdecode(append([]byte{byte(2 + c.Intn(2))}, c.Bytes(32)...), "random")
			sdecode(c.Bytes(32))
		}

		// ---- 3. ECDSA: valid signatures and every single-field perturbation
		ne := c.N / 10
		if ne < 3 {
			ne = 3
		}
		for i := 0; i < ne; i++ {
			x := c.randScalar()
			X := x.ActOnBase()
			h := sigMsgOfLen(c, msgLens[c.Intn(len(msgLens))])
			if i == 0 {
				h = nil
			}
			R, s := signECDSA(x, c.randScalar(), h)
			if s.IsZero() {
				continue
			}
			Xb, Rb, Sb := pointBytes(X), pointBytes(R), scalarBytes(s)
			base := ecdsaCase{X: Xb, H: h, R: Rb, S: Sb, kind: "valid"}
			runEcdsaCase(c, base)
			mod := func(kind string, f func(e *ecdsaCase)) {
				e := base
				e.X, e.H, e.R, e.S = append([]byte{}, Xb...), append([]byte{}, h...), append([]byte{}, Rb...), append([]byte{}, Sb...)
				e.kind = kind
				f(&e)
				runEcdsaCase(c, e)
			}
			// the negated pair stays valid; each half alone does not
			negS := scalarBytes(cloneScalar(s).Negate())
			mod("negpair", func(e *ecdsaCase) { e.R[0] ^= 1; e.S = negS })
			mod("Rparity", func(e *ecdsaCase) { e.R[0] ^= 1 })
			mod("Sneg", func(e *ecdsaCase) { e.S = negS })
			mod("Xparity", func(e *ecdsaCase) { e.X[0] ^= 1 })
			for _, pre := range badPrefixes {
				pre := pre
				mod("Rprefix", func(e *ecdsaCase) { e.R[0] = pre })
				mod("Xprefix", func(e *ecdsaCase) { e.X[0] = pre })
			}
			for _, v := range lat {
				v := v
				mod("Rx", func(e *ecdsaCase) { copy(e.R[1:], be32(v)) })
				mod("S", func(e *ecdsaCase) { e.S = be32(v) })
			}
			mod("Splus1", func(e *ecdsaCase) { e.S = be32(new(big.Int).Add(scalarBig(s), big.NewInt(1))) })
			mod("Rinf", func(e *ecdsaCase) { e.Rinf = true })
			mod("Rinf-s0", func(e *ecdsaCase) { e.Rinf = true; e.S = make([]byte, 32) })
			mod("Rinf-m0", func(e *ecdsaCase) { e.Rinf = true; e.H = make([]byte, 32) })
			mod("msg", func(e *ecdsaCase) { e.H = append(e.H, 1) })
			mod("msgbit", func(e *ecdsaCase) {
				if len(e.H) > 0 {
					e.H[0] ^= 0x80
				} else {
					e.H = []byte{0}
				}
			})
			mod("Rlen", func(e *ecdsaCase) { e.R = e.R[:32] })
			mod("Rlen", func(e *ecdsaCase) { e.R = append(e.R, 0) })
			mod("Slen", func(e *ecdsaCase) { e.S = e.S[1:] })
			mod("Slen", func(e *ecdsaCase) { e.S = append([]byte{0}, e.S...) })
			mod("Xlen", func(e *ecdsaCase) { e.X = e.X[:32] })
			mod("otherkey", func(e *ecdsaCase) { e.X = pointBytes(c.randScalar().ActOnBase()) })
			mod("random", func(e *ecdsaCase) { e.R = pointBytes(c.randScalar().ActOnBase()); e.S = scalarBytes(c.randScalar()) })

			// Ethereum export: the valid signature in both s-halves, and an invalid one
			runEthCase(c, X, h, R, cloneScalar(s), "valid")
			Rn := R.Negate()
			runEthCase(c, X, h, Rn, cloneScalar(s).Negate(), "valid-neg")
			runEthCase(c, X, h, R, c.randScalar(), "invalid")
		}
		// messages of every length 0..70 signed and verified through FromHash
		for l := 0; l <= 70; l += 1 + c.Intn(2) {
			x := c.randScalar()
			h := sigMsgOfLen(c, l)
			R, s := signECDSA(x, c.randScalar(), h)
			runEcdsaCase(c, ecdsaCase{X: pointBytes(x.ActOnBase()), H: h, R: pointBytes(R), S: scalarBytes(s), kind: "msglen"})
		}
		// nonce points with x ≥ n (r = x − n), valid under a crafted key
		for i := 0; i < 2+c.N/200; i++ {
			R := highXPoint(c)
			s := c.randScalar()
			h := sigMsgOfLen(c, 32)
			X := keyFor(R, s, h)
			runEcdsaCase(c, ecdsaCase{X: pointBytes(X), H: h, R: pointBytes(R), S: scalarBytes(s), kind: "highx"})
			runEthCase(c, X, h, R, cloneScalar(s), "highx")
		}

		// ---- 4. BIP-340
		nb := c.N / 10
		if nb < 3 {
			nb = 3
		}
		edgeSK := [][]byte{be32(big.NewInt(0)), be32(big.NewInt(1)), be32(new(big.Int).Sub(secpN, big.NewInt(1))), be32(secpN),
			be32(new(big.Int).Add(secpN, big.NewInt(1))), be32(lat[len(lat)-1]), c.Bytes(31), c.Bytes(33), nil}
		for _, sk := range edgeSK {
			sk := sk
			impl := Guard(func() interface{} {
				pk, err := taproot.SecretKey(sk).Public()
				if err != nil {
					return J{"pk": nil, "std": nil, "xonly": false}
				}
				return J{"pk": hx(pk), "std": hx(pk), "xonly": true}
			})
			c.Emit("bip340-pub", J{"sk": hx(sk)}, impl)
			runBipSign(c, sk, c.Bytes(32), c.Bytes(32), "edge-sk")
			runBipSign(c, sk, nil, c.Bytes(32), "edge-sk-ctr")
		}
		for i := 0; i < nb; i++ {
			d := c.randScalar()
			sk := scalarBytes(d)
			impl := Guard(func() interface{} {
				pk, err := taproot.SecretKey(sk).Public()
				if err != nil {
					return J{"pk": nil, "std": nil, "xonly": false}
				}
				return J{"pk": hx(pk), "std": hx(pk), "xonly": true}
			})
			c.Emit("bip340-pub", J{"sk": hx(sk)}, impl)
			pk, _ := taproot.SecretKey(sk).Public()
			m := sigMsgOfLen(c, msgLens[c.Intn(len(msgLens))])
			var sig []byte
			if i%3 == 2 {
				sig = runBipSign(c, sk, nil, m, "ctr")
			} else {
				sig = runBipSign(c, sk, c.Bytes(32), m, "aux")
			}
			if sig == nil {
				continue
			}
			base := bipCase{pk: pk, m: m, sig: sig, kind: "valid"}
			runBipVerify(c, base)
			mod := func(kind string, f func(b *bipCase)) {
				b := bipCase{pk: append([]byte{}, pk...), m: append([]byte{}, m...), sig: append([]byte{}, sig...), kind: kind}
				f(&b)
				runBipVerify(c, b)
			}
			mod("siglen", func(b *bipCase) { b.sig = b.sig[:63] })
			mod("siglen", func(b *bipCase) { b.sig = append(b.sig, 0) })
			mod("siglen", func(b *bipCase) { b.sig = b.sig[1:] })
			mod("siglen", func(b *bipCase) { b.sig = nil })
			for _, v := range lat {
				v := v
				mod("r", func(b *bipCase) { copy(b.sig[:32], be32(v)) })
				mod("s", func(b *bipCase) { copy(b.sig[32:], be32(v)) })
				mod("pk", func(b *bipCase) { b.pk = be32(v) })
			}
			sBig := new(big.Int).SetBytes(sig[32:])
			mod("s+1", func(b *bipCase) { copy(b.sig[32:], be32(new(big.Int).Add(sBig, big.NewInt(1)))) })
			mod("s+n", func(b *bipCase) { copy(b.sig[32:], be32(new(big.Int).Add(sBig, secpN))) })
			mod("sneg", func(b *bipCase) { copy(b.sig[32:], be32(new(big.Int).Sub(secpN, sBig))) })
			rBig := new(big.Int).SetBytes(sig[:32])
			mod("r+p", func(b *bipCase) { copy(b.sig[:32], be32(new(big.Int).Add(rBig, secpP))) })
			mod("msg", func(b *bipCase) { b.m = append(b.m, 0) })
			mod("msg", func(b *bipCase) {
				if len(b.m) > 0 {
					b.m[len(b.m)-1] ^= 1
				} else {
					b.m = []byte{1}
				}
			})
			mod("pklen", func(b *bipCase) { b.pk = b.pk[:31] })
			mod("pklen", func(b *bipCase) { b.pk = b.pk[1:] })
			mod("pklen", func(b *bipCase) { b.pk = append(b.pk, 0) })
			mod("pklen", func(b *bipCase) { b.pk = append([]byte{0}, b.pk...) })
			mod("pklen", func(b *bipCase) { b.pk = nil })
			mod("otherpk", func(b *bipCase) { b.pk, _ = taproot.SecretKey(scalarBytes(c.randScalar())).Public() })
			mod("random", func(b *bipCase) { b.sig = c.Bytes(64) })
			// odd-Y nonce point left in place; R at infinity (s = e·d)
			k := c.randScalar()
			mod("oddR", func(b *bipCase) { b.sig = schnorrWith(d, pk, k, m, false) })
			mod("evenR", func(b *bipCase) { b.sig = schnorrWith(d, pk, k, m, true) })
			mod("infR", func(b *bipCase) {
				dd := cloneScalar(d)
				if !d.ActOnBase().(*curve.Secp256k1Point).HasEvenY() {
					dd.Negate()
				}
				rx := c.randScalar().ActOnBase().(*curve.Secp256k1Point).XBytes()
				e := taggedChallenge(rx, pk, m)
				b.sig = append(append([]byte{}, rx...), scalarBytes(e.Mul(dd))...)
			})
			// R at infinity AND r = 0: the identity's coordinates read as (0, 0), which passes an "even Y, x = r" test
			mod("infR0", func(b *bipCase) {
				dd := cloneScalar(d)
				if !d.ActOnBase().(*curve.Secp256k1Point).HasEvenY() {
					dd.Negate()
				}
				rx := make([]byte, 32)
				e := taggedChallenge(rx, pk, m)
				b.sig = append(append([]byte{}, rx...), scalarBytes(e.Mul(dd))...)
			})
			// a public-key STRING of 33 bytes (x ‖ extra byte): signature made for exactly that string
			pk33 := append(append([]byte{}, pk...), byte(c.Intn(256)))
			mod("pk33", func(b *bipCase) { b.pk = pk33; b.sig = schnorrWith(d, pk33, k, m, true) })
		}
		// a public key that is NOT on the curve, with a signature that needs no secret key once lift_x stops refusing it:
		// x = 0 (x^3 + 7 = 7 is no square mod p). A "point" (0, y) is 3-torsion under the a = 0 formulas, so for a challenge
		// e = 0 mod 3 the term e*P vanishes and (r, s) = (x(G), 1) passes s*G - e*P = R with R = G (even y). BIP-340: fail.
		{
			pk0 := make([]byte, 32)
			gx := sgrp.NewBasePoint().(*curve.Secp256k1Point).XBytes()
			sig := append(append([]byte{}, gx...), be32(big.NewInt(1))...)
			for tries := 0; tries < 64; tries++ {
				m := c.Bytes(32)
				e := new(big.Int).SetBytes(taproot.TaggedHash("BIP0340/challenge", gx, pk0, m))
				e.Mod(e, secpN)
				if new(big.Int).Mod(e, big.NewInt(3)).Sign() != 0 {
					continue
				}
				runBipVerify(c, bipCase{pk: pk0, m: m, sig: sig, kind: "offcurve-pk-forgery"})
				break
			}
			// and an off-curve key with an honest-looking signature (made for the even lift the inlined code would pick)
			runBipVerify(c, bipCase{pk: pk0, m: c.Bytes(32), sig: c.Bytes(64), kind: "offcurve-pk"})
		}
		// a 31-byte public-key string: a key whose x coordinate starts with a zero byte
		for tries := 0; tries < 20000; tries++ {
			d := c.randScalar()
			px := d.ActOnBase().(*curve.Secp256k1Point).XBytes()
			if px[0] != 0 {
				continue
			}
			m := c.Bytes(32)
			k := c.randScalar()
			pk31 := append([]byte{}, px[1:]...)
			runBipVerify(c, bipCase{pk: pk31, m: m, sig: schnorrWith(d, pk31, k, m, true), kind: "pk31"})
			runBipVerify(c, bipCase{pk: px, m: m, sig: schnorrWith(d, px, k, m, true), kind: "pk-leading-zero"})
			break
		}
	})
}
