//go:build verif

package main

// Suite `start` (C20): every start function of every protocol x every single bad parameter of a
// lattice of bad values, alone and in pairs. The parameters actually handed to the library are
// DESCRIBED from the Go objects (not from the mutation names) and the Lean model (Mps.Start)
// answers from that description what the property demands ({ok, err}) and what the transcription
// of the code decides ({ok, err, crash}). A start that is allowed is then run with honest peers.

import (
	"fmt"
	"os"
	"math"
	"sort"
	"strings"
	"time"

	"github.com/taurusgroup/multi-party-sig/pkg/ecdsa"
	"github.com/taurusgroup/multi-party-sig/pkg/math/curve"
	"github.com/taurusgroup/multi-party-sig/pkg/party"
	"github.com/taurusgroup/multi-party-sig/pkg/pool"
	"github.com/taurusgroup/multi-party-sig/pkg/protocol"
	"github.com/taurusgroup/multi-party-sig/protocols/cmp"
	"github.com/taurusgroup/multi-party-sig/protocols/cmp/config"
	"github.com/taurusgroup/multi-party-sig/protocols/doerner"
	"github.com/taurusgroup/multi-party-sig/protocols/frost"
)

type startParams struct {
	fn     string
	group  curve.Curve
	self   party.ID
	other  party.ID
	ids    []party.ID
	thr    int
	msg    []byte
	cmpCfg *cmp.Config
	frCfg  *frost.Config
	tapCfg *frost.TaprootConfig
	dR     *doerner.ConfigReceiver
	dS     *doerner.ConfigSender
	presig *ecdsa.PreSignature
}

// startPool stays nil: the rounds run sequentially (deterministic draw order from the seeded reader, and
// the worker pool's own liveness is property C18's business, not this suite's).
var startPool *pool.Pool

type startMut struct {
	dim, name string
	apply     func(p *startParams)
}

var startFns = []string{
	"cmp.Keygen", "cmp.Refresh", "cmp.Sign", "cmp.Presign", "cmp.PresignOnline",
	"frost.Keygen", "frost.KeygenTaproot", "frost.Refresh", "frost.RefreshTaproot", "frost.Sign", "frost.SignTaproot",
	"doerner.Keygen", "doerner.RefreshReceiver", "doerner.RefreshSender", "doerner.SignReceiver", "doerner.SignSender",
}

func fnKind(fn string) string {
	switch fn {
	case "cmp.Keygen", "frost.Keygen", "frost.KeygenTaproot":
		return "keygen"
	case "cmp.Refresh", "frost.Refresh", "frost.RefreshTaproot":
		return "refresh"
	case "cmp.Sign", "cmp.Presign", "frost.Sign", "frost.SignTaproot":
		return "sign"
	case "cmp.PresignOnline":
		return "online"
	case "doerner.Keygen":
		return "dkeygen"
	case "doerner.RefreshReceiver", "doerner.RefreshSender":
		return "drefresh"
	}
	return "dsign"
}

func cloneIDs(x []party.ID) []party.ID { return append([]party.ID{}, x...) }

func baseStart(m *robustMaterial, fn string, self party.ID) *startParams {
	p := &startParams{fn: fn, group: m.group, self: self, thr: m.t, msg: append([]byte{}, m.sigMsg...)}
	switch fnKind(fn) {
	case "keygen":
		p.ids = cloneIDs(m.ids)
	case "refresh":
		p.ids = cloneIDs(m.ids) // frost: participants argument (cmp takes them from the config)
	case "sign":
		p.ids = cloneIDs(m.ids[:2])
	case "online":
		p.ids = cloneIDs(m.psIDs)
		p.presig = m.presig[self]
	}
	if strings.HasPrefix(fn, "cmp.") && fn != "cmp.Keygen" {
		p.cmpCfg = m.cmp[self]
	}
	switch fn {
	case "frost.Refresh", "frost.Sign":
		p.frCfg = m.frost[self]
	case "frost.RefreshTaproot", "frost.SignTaproot":
		p.tapCfg = m.tap[self]
	}
	if strings.HasPrefix(fn, "doerner.") {
		a, b := m.ids[0], m.ids[1]
		if strings.HasSuffix(fn, "Sender") {
			p.self, p.other, p.dS = b, a, m.dS
		} else {
			p.self, p.other = a, b
			if fn != "doerner.Keygen" {
				p.dR = m.dR
			}
		}
		p.ids = nil
	}
	return p
}

// ---- the lattice -------------------------------------------------------------------------------

func startMuts(m *robustMaterial, fn string) []startMut {
	var out []startMut
	add := func(dim, name string, f func(p *startParams)) { out = append(out, startMut{dim, name, f}) }
	kind := fnKind(fn)
	if kind == "keygen" || kind == "dkeygen" {
		if fn != "frost.KeygenTaproot" {
			add("group", "nil", func(p *startParams) { p.group = nil })
		}
	}
	if kind == "keygen" {
		for _, t := range []int{-1, 0, 2, 3, 4, math.MaxUint32, math.MaxUint32 + 1, math.MinInt64, math.MaxInt64} {
			t := t
			add("thr", fmt.Sprint(t), func(p *startParams) { p.thr = t })
		}
		add("self", "empty", func(p *startParams) { p.self = "" })
		add("self", "foreign", func(p *startParams) { p.self = "zz" })
	}
	if kind == "dkeygen" || kind == "drefresh" || kind == "dsign" {
		add("self", "empty", func(p *startParams) { p.self = "" })
		add("self", "same-as-other", func(p *startParams) { p.self = p.other })
		add("other", "empty", func(p *startParams) { p.other = "" })
		add("other", "foreign", func(p *startParams) { p.other = "zz" }) // valid: any peer name will do
	}
	if kind == "keygen" || kind == "sign" || fn == "frost.Refresh" || fn == "frost.RefreshTaproot" {
		add("ids", "nil", func(p *startParams) { p.ids = nil })
		add("ids", "empty", func(p *startParams) { p.ids = []party.ID{} })
		add("ids", "dup-self", func(p *startParams) { p.ids = append(p.ids, p.ids[0]) })
		add("ids", "dup-other", func(p *startParams) { p.ids = append(p.ids, p.ids[1]) })
		add("ids", "unsorted", func(p *startParams) {
			for i, j := 0, len(p.ids)-1; i < j; i, j = i+1, j-1 {
				p.ids[i], p.ids[j] = p.ids[j], p.ids[i]
			}
		})
		add("ids", "no-self", func(p *startParams) { p.ids = []party.ID{m.ids[1], m.ids[2]} })
		add("ids", "only-self", func(p *startParams) { p.ids = []party.ID{m.ids[0]} })
		add("ids", "foreign", func(p *startParams) { p.ids[len(p.ids)-1] = "zz" })
		add("ids", "plus-foreign", func(p *startParams) { p.ids = append(p.ids, "zz") })
		add("ids", "plus-empty", func(p *startParams) { p.ids = append(p.ids, "") })
		add("ids", "plus-zero-scalar", func(p *startParams) { p.ids = append(p.ids, "\x00") })
		add("ids", "plus-same-scalar", func(p *startParams) { p.ids = append(p.ids, "\x00a") })
		// the same scalar image as the LAST / a middle id: in the byte-wise sorted list the two are not neighbours
		add("ids", "plus-same-scalar-far", func(p *startParams) { p.ids = append(p.ids, party.ID("\x00"+string(p.ids[len(p.ids)-1]))) })
		add("ids", "plus-same-scalar-mid", func(p *startParams) { p.ids = append(p.ids, party.ID("\x00"+string(p.ids[1]))) })
		if kind == "sign" {
			add("ids", "all", func(p *startParams) { p.ids = cloneIDs(m.ids) })
		} else {
			add("ids", "two", func(p *startParams) { p.ids = cloneIDs(m.ids[:2]) })
		}
	}
	if kind == "sign" && fn != "cmp.Presign" || kind == "online" || kind == "dsign" {
		add("msg", "nil", func(p *startParams) { p.msg = nil })
		add("msg", "empty", func(p *startParams) { p.msg = []byte{} })
		add("msg", "1-byte", func(p *startParams) { p.msg = []byte{7} })
		add("msg", "64-bytes", func(p *startParams) { p.msg = append(p.msg, p.msg...) })
	}
	// ---- key material
	if p0 := baseStart(m, fn, m.ids[0]); p0.cmpCfg != nil {
		cm := func(name string, f func(c *cmp.Config)) {
			add("cfg", name, func(p *startParams) {
				c := *p.cmpCfg
				pub := map[party.ID]*config.Public{}
				for k, v := range c.Public {
					pub[k] = v
				}
				c.Public = pub
				f(&c)
				p.cmpCfg = &c
			})
		}
		add("cfg", "nil", func(p *startParams) { p.cmpCfg = nil })
		add("cfg", "zero", func(p *startParams) { p.cmpCfg = &cmp.Config{} })
		add("cfg", "group-only", func(p *startParams) { p.cmpCfg = cmp.EmptyConfig(m.group) })
		cm("no-group", func(c *cmp.Config) { c.Group = nil })
		cm("no-secret", func(c *cmp.Config) { c.ECDSA = nil })
		cm("no-aux", func(c *cmp.Config) { c.Paillier = nil; c.ElGamal = nil })
		cm("no-shares", func(c *cmp.Config) { c.Public = nil })
		cm("shares-missing-self", func(c *cmp.Config) { delete(c.Public, c.ID) })
		cm("shares-entry-nil", func(c *cmp.Config) { c.Public[m.ids[1]] = nil })
		cm("shares-entry-empty", func(c *cmp.Config) { c.Public[m.ids[1]] = &config.Public{} })
		cm("thr=-1", func(c *cmp.Config) { c.Threshold = -1 })
		cm("thr=n", func(c *cmp.Config) { c.Threshold = 3 })
		cm("thr=2^32", func(c *cmp.Config) { c.Threshold = math.MaxUint32 + 1 })
		cm("id-empty", func(c *cmp.Config) { c.ID = "" })
		cm("id-foreign", func(c *cmp.Config) { c.ID = "zz" })
	}
	if p0 := baseStart(m, fn, m.ids[0]); p0.frCfg != nil {
		fm := func(name string, f func(c *frost.Config)) {
			add("cfg", name, func(p *startParams) {
				c := *p.frCfg
				if c.VerificationShares != nil {
					pts := map[party.ID]curve.Point{}
					for k, v := range c.VerificationShares.Points {
						pts[k] = v
					}
					c.VerificationShares = party.NewPointMap(pts)
				}
				f(&c)
				p.frCfg = &c
			})
		}
		add("cfg", "nil", func(p *startParams) { p.frCfg = nil })
		add("cfg", "zero", func(p *startParams) { p.frCfg = &frost.Config{} })
		add("cfg", "group-only", func(p *startParams) { p.frCfg = frost.EmptyConfig(m.group) })
		fm("no-group", func(c *frost.Config) { c.PublicKey = nil })
		fm("no-secret", func(c *frost.Config) { c.PrivateShare = nil })
		fm("no-shares", func(c *frost.Config) { c.VerificationShares = nil })
		fm("shares-missing-self", func(c *frost.Config) { delete(c.VerificationShares.Points, c.ID) })
		fm("shares-entry-nil", func(c *frost.Config) { c.VerificationShares.Points[m.ids[1]] = nil })
		fm("thr=-1", func(c *frost.Config) { c.Threshold = -1 })
		fm("thr=n", func(c *frost.Config) { c.Threshold = 3 })
		fm("thr=2^32", func(c *frost.Config) { c.Threshold = math.MaxUint32 + 1 })
		fm("id-empty", func(c *frost.Config) { c.ID = "" })
		fm("id-foreign", func(c *frost.Config) { c.ID = "zz" })
	}
	if p0 := baseStart(m, fn, m.ids[0]); p0.tapCfg != nil {
		tm := func(name string, f func(c *frost.TaprootConfig)) {
			add("cfg", name, func(p *startParams) {
				c := p.tapCfg.Clone()
				f(c)
				p.tapCfg = c
			})
		}
		add("cfg", "nil", func(p *startParams) { p.tapCfg = nil })
		add("cfg", "zero", func(p *startParams) { p.tapCfg = &frost.TaprootConfig{} })
		tm("no-group", func(c *frost.TaprootConfig) { c.PublicKey = nil })
		tm("pk-truncated", func(c *frost.TaprootConfig) { c.PublicKey = c.PublicKey[:31] })
		tm("pk-not-on-curve", func(c *frost.TaprootConfig) {
			for i := range c.PublicKey {
				c.PublicKey[i] = 0xff
			}
		})
		tm("no-secret", func(c *frost.TaprootConfig) { c.PrivateShare = nil })
		tm("no-shares", func(c *frost.TaprootConfig) { c.VerificationShares = nil })
		tm("shares-missing-self", func(c *frost.TaprootConfig) { delete(c.VerificationShares, c.ID) })
		tm("shares-entry-nil", func(c *frost.TaprootConfig) { c.VerificationShares[m.ids[1]] = nil })
		tm("thr=-1", func(c *frost.TaprootConfig) { c.Threshold = -1 })
		tm("thr=n", func(c *frost.TaprootConfig) { c.Threshold = 3 })
		tm("thr=2^32", func(c *frost.TaprootConfig) { c.Threshold = math.MaxUint32 + 1 })
		tm("id-empty", func(c *frost.TaprootConfig) { c.ID = "" })
		tm("id-foreign", func(c *frost.TaprootConfig) { c.ID = "zz" })
	}
	if kind == "drefresh" || kind == "dsign" {
		if strings.HasSuffix(fn, "Sender") {
			dm := func(name string, f func(c *doerner.ConfigSender)) {
				add("cfg", name, func(p *startParams) { c := *p.dS; f(&c); p.dS = &c })
			}
			add("cfg", "nil", func(p *startParams) { p.dS = nil })
			add("cfg", "zero", func(p *startParams) { p.dS = &doerner.ConfigSender{} })
			add("cfg", "group-only", func(p *startParams) { p.dS = doerner.EmptyConfigSender(m.group) })
			dm("no-group", func(c *doerner.ConfigSender) { c.Public = nil })
			dm("no-secret", func(c *doerner.ConfigSender) { c.SecretShare = nil })
			dm("no-aux", func(c *doerner.ConfigSender) { c.Setup = nil })
		} else {
			dm := func(name string, f func(c *doerner.ConfigReceiver)) {
				add("cfg", name, func(p *startParams) { c := *p.dR; f(&c); p.dR = &c })
			}
			add("cfg", "nil", func(p *startParams) { p.dR = nil })
			add("cfg", "zero", func(p *startParams) { p.dR = &doerner.ConfigReceiver{} })
			add("cfg", "group-only", func(p *startParams) { p.dR = doerner.EmptyConfigReceiver(m.group) })
			dm("no-group", func(c *doerner.ConfigReceiver) { c.Public = nil })
			dm("no-secret", func(c *doerner.ConfigReceiver) { c.SecretShare = nil })
			dm("no-aux", func(c *doerner.ConfigReceiver) { c.Setup = nil })
		}
	}
	if kind == "online" {
		pm := func(name string, f func(s *ecdsa.PreSignature)) {
			add("presig", name, func(p *startParams) {
				s := *p.presig
				cp := func(pm *party.PointMap) *party.PointMap {
					pts := map[party.ID]curve.Point{}
					for k, v := range pm.Points {
						pts[k] = v
					}
					return party.NewPointMap(pts)
				}
				s.RBar, s.S = cp(s.RBar), cp(s.S)
				f(&s)
				p.presig = &s
			})
		}
		add("presig", "nil", func(p *startParams) { p.presig = nil })
		add("presig", "zero", func(p *startParams) { p.presig = &ecdsa.PreSignature{} })
		add("presig", "empty", func(p *startParams) { p.presig = ecdsa.EmptyPreSignature(m.group) })
		pm("R-identity", func(s *ecdsa.PreSignature) { s.R = m.group.NewPoint() })
		pm("R-nil", func(s *ecdsa.PreSignature) { s.R = nil })
		pm("S-missing-signer", func(s *ecdsa.PreSignature) { delete(s.S.Points, m.ids[1]) })
		pm("S-other-signer", func(s *ecdsa.PreSignature) {
			s.S.Points["zz"] = s.S.Points[m.ids[1]]
			delete(s.S.Points, m.ids[1])
		})
		pm("S-identity", func(s *ecdsa.PreSignature) { s.S.Points[m.ids[1]] = m.group.NewPoint() })
		pm("RBar-identity", func(s *ecdsa.PreSignature) { s.RBar.Points[m.ids[1]] = m.group.NewPoint() })
		pm("RBar-nil-entry", func(s *ecdsa.PreSignature) { s.RBar.Points[m.ids[1]] = nil })
		pm("foreign-signer", func(s *ecdsa.PreSignature) {
			s.RBar.Points["zz"], s.S.Points["zz"] = s.RBar.Points[m.ids[1]], s.S.Points[m.ids[1]]
		})
		pm("not-mine", func(s *ecdsa.PreSignature) {
			s.RBar.Points[m.ids[2]], s.S.Points[m.ids[2]] = s.RBar.Points[m.ids[0]], s.S.Points[m.ids[0]]
			delete(s.RBar.Points, m.ids[0])
			delete(s.S.Points, m.ids[0])
		})
		// the R-bar table lost a signer that the S table still names (tables of different sizes; the signers left over
		// would still be enough to sign)
		pm("RBar-lost-signer", func(s *ecdsa.PreSignature) {
			s.S.Points[m.ids[2]] = s.S.Points[m.ids[1]]
		})
		pm("S-lost-signer", func(s *ecdsa.PreSignature) {
			s.RBar.Points[m.ids[2]] = s.RBar.Points[m.ids[1]]
		})
		pm("only-self", func(s *ecdsa.PreSignature) {
			delete(s.RBar.Points, m.ids[1])
			delete(s.S.Points, m.ids[1])
		})
		pm("k-zero", func(s *ecdsa.PreSignature) { s.KShare = m.group.NewScalar() })
		pm("chi-nil", func(s *ecdsa.PreSignature) { s.ChiShare = nil })
		pm("id-short", func(s *ecdsa.PreSignature) { s.ID = s.ID[:16] })
		pm("id-nil", func(s *ecdsa.PreSignature) { s.ID = nil })
		pm("maps-nil", func(s *ecdsa.PreSignature) { s.RBar, s.S = nil, nil })
	}
	return out
}

// ---- description of the parameters actually used -------------------------------------------------

func hexIDs(ids []party.ID) interface{} {
	if ids == nil {
		return nil
	}
	out := make([]string, len(ids))
	for i, id := range ids {
		out[i] = hx([]byte(id))
	}
	return out
}

func sortedShareKeys(n int, each func(f func(k party.ID, state string))) []interface{} {
	type kv struct {
		k string
		c string
	}
	var l []kv
	each(func(k party.ID, c string) { l = append(l, kv{string(k), c}) })
	sort.Slice(l, func(i, j int) bool { return l[i].k < l[j].k })
	out := make([]interface{}, 0, len(l))
	for _, e := range l {
		out = append(out, []interface{}{hx([]byte(e.k)), e.c})
		_ = n
	}
	return out
}

func scTri(x curve.Scalar) string {
	if x == nil {
		return "nil"
	}
	if x.IsZero() {
		return "zero"
	}
	return "ok"
}

func tapSecret(x *curve.Secp256k1Scalar) string {
	if x == nil {
		return "nil"
	}
	return scTri(x)
}

func describeStart(p *startParams) J {
	d := J{"group": p.group != nil, "self": hx([]byte(p.self)), "other": hx([]byte(p.other)), "ids": hexIDs(p.ids),
		"thr": p.thr, "msglen": len(p.msg), "cfg": nil, "presig": nil}
	if p.ids == nil {
		d["ids"] = nil
	}
	usesCfg := fnKind(p.fn) != "keygen" && fnKind(p.fn) != "dkeygen"
	d["usescfg"] = usesCfg
	switch {
	case p.cmpCfg != nil:
		c := p.cmpCfg
		cd := J{"group": c.Group != nil, "id": hx([]byte(c.ID)), "thr": c.Threshold, "secret": scTri(c.ECDSA),
			"aux": c.Paillier != nil && c.ElGamal != nil, "shares": nil}
		if c.Public != nil {
			cd["shares"] = sortedShareKeys(len(c.Public), func(f func(party.ID, string)) {
				for k, v := range c.Public {
					switch {
					case v == nil:
						f(k, "nil")
					case v.ECDSA != nil && v.ElGamal != nil && v.Paillier != nil && v.Pedersen != nil:
						f(k, "ok")
					default:
						f(k, "partial")
					}
				}
			})
		}
		d["cfg"] = cd
	case p.frCfg != nil:
		c := p.frCfg
		cd := J{"group": c.PublicKey != nil, "id": hx([]byte(c.ID)), "thr": c.Threshold, "secret": scTri(c.PrivateShare), "aux": true, "shares": nil}
		if c.VerificationShares != nil {
			cd["shares"] = sortedShareKeys(0, func(f func(party.ID, string)) {
				for k, v := range c.VerificationShares.Points {
					f(k, map[bool]string{true: "ok", false: "nil"}[v != nil])
				}
			})
		}
		d["cfg"] = cd
	case p.tapCfg != nil:
		c := p.tapCfg
		_, lerr := curve.Secp256k1{}.LiftX(c.PublicKey)
		cd := J{"group": lerr == nil, "id": hx([]byte(c.ID)), "thr": c.Threshold, "secret": tapSecret(c.PrivateShare), "aux": true, "shares": nil,
			"pklen": len(c.PublicKey)}
		if c.VerificationShares != nil {
			cd["shares"] = sortedShareKeys(0, func(f func(party.ID, string)) {
				for k, v := range c.VerificationShares {
					f(k, map[bool]string{true: "ok", false: "nil"}[v != nil])
				}
			})
		}
		d["cfg"] = cd
	case p.dR != nil:
		c := p.dR
		d["cfg"] = J{"group": c.Public != nil, "id": hx([]byte(p.self)), "thr": 1, "secret": scTri(c.SecretShare), "aux": c.Setup != nil, "shares": nil}
	case p.dS != nil:
		c := p.dS
		d["cfg"] = J{"group": c.Public != nil, "id": hx([]byte(p.self)), "thr": 1, "secret": scTri(c.SecretShare), "aux": c.Setup != nil, "shares": nil}
	}
	if p.presig != nil {
		s := p.presig
		pd := J{"r": "nil", "id": len(s.ID), "k": "nil", "chi": "nil", "rbar": nil, "s": nil}
		pt := func(x curve.Point) string {
			if x == nil {
				return "nil"
			}
			if x.IsIdentity() {
				return "identity"
			}
			return "ok"
		}
		sc := func(x curve.Scalar) string {
			if x == nil {
				return "nil"
			}
			if x.IsZero() {
				return "zero"
			}
			return "ok"
		}
		pd["r"], pd["k"], pd["chi"] = pt(s.R), sc(s.KShare), sc(s.ChiShare)
		pmap := func(m *party.PointMap) interface{} {
			if m == nil {
				return nil
			}
			type kv struct{ k, v string }
			var l []kv
			for k, v := range m.Points {
				l = append(l, kv{string(k), pt(v)})
			}
			sort.Slice(l, func(i, j int) bool { return l[i].k < l[j].k })
			out := []interface{}{}
			for _, e := range l {
				out = append(out, []interface{}{hx([]byte(e.k)), e.v})
			}
			return out
		}
		pd["rbar"], pd["s"] = pmap(s.RBar), pmap(s.S)
		d["presig"] = pd
	}
	return d
}

// ---- calling the real start functions ------------------------------------------------------------

func (p *startParams) startFunc() protocol.StartFunc {
	switch p.fn {
	case "cmp.Keygen":
		return cmp.Keygen(p.group, p.self, p.ids, p.thr, startPool)
	case "cmp.Refresh":
		return cmp.Refresh(p.cmpCfg, startPool)
	case "cmp.Sign":
		return cmp.Sign(p.cmpCfg, p.ids, p.msg, startPool)
	case "cmp.Presign":
		return cmp.Presign(p.cmpCfg, p.ids, startPool)
	case "cmp.PresignOnline":
		return cmp.PresignOnline(p.cmpCfg, p.presig, p.msg, startPool)
	case "frost.Keygen":
		return frost.Keygen(p.group, p.self, p.ids, p.thr)
	case "frost.KeygenTaproot":
		return frost.KeygenTaproot(p.self, p.ids, p.thr)
	case "frost.Refresh":
		return frost.Refresh(p.frCfg, p.ids)
	case "frost.RefreshTaproot":
		return frost.RefreshTaproot(p.tapCfg, p.ids)
	case "frost.Sign":
		return frost.Sign(p.frCfg, p.ids, p.msg)
	case "frost.SignTaproot":
		return frost.SignTaproot(p.tapCfg, p.ids, p.msg)
	case "doerner.Keygen":
		return doerner.Keygen(p.group, p.dSRole() == "receiver", p.self, p.other, nil)
	case "doerner.RefreshReceiver":
		return doerner.RefreshReceiver(p.dR, p.self, p.other, nil)
	case "doerner.RefreshSender":
		return doerner.RefreshSender(p.dS, p.self, p.other, nil)
	case "doerner.SignReceiver":
		return doerner.SignReceiver(p.dR, p.self, p.other, p.msg, nil)
	case "doerner.SignSender":
		return doerner.SignSender(p.dS, p.self, p.other, p.msg, nil)
	}
	panic("unknown start function " + p.fn)
}

func (p *startParams) dSRole() string {
	if strings.HasSuffix(p.fn, "Sender") {
		return "sender"
	}
	return "receiver"
}

func (p *startParams) twoParty() bool { return strings.HasPrefix(p.fn, "doerner.") }

// handler constructs the handler the way the README does; leader flags as in the repository's tests.
func (p *startParams) handler(sid []byte) (protocol.Handler, error) {
	sf := p.startFunc()
	if p.twoParty() {
		leader := p.dSRole() == "receiver" || fnKind(p.fn) == "dsign"
		h, err := protocol.NewTwoPartyHandler(sf, sid, leader)
		if err != nil {
			return nil, err
		}
		return h, nil
	}
	h, err := protocol.NewMultiHandler(sf, sid)
	if err != nil {
		return nil, err
	}
	return h, nil
}

// sessionParties: who takes part in the session as the tested party sees it.
func (p *startParams) sessionParties() []party.ID {
	var ids []party.ID
	switch {
	case p.twoParty():
		ids = []party.ID{p.self, p.other}
	case p.fn == "cmp.Refresh":
		if p.cmpCfg != nil {
			ids = p.cmpCfg.PartyIDs()
		}
	case p.fn == "cmp.PresignOnline":
		if p.presig != nil && p.presig.RBar != nil {
			ids = p.presig.SignerIDs()
		}
	default:
		ids = p.ids
	}
	seen := map[party.ID]bool{}
	out := []party.ID{}
	for _, id := range ids {
		if !seen[id] {
			seen[id] = true
			out = append(out, id)
		}
	}
	return out
}

func (p *startParams) selfID() party.ID {
	switch {
	case p.cmpCfg != nil:
		return p.cmpCfg.ID
	case p.frCfg != nil:
		return p.frCfg.ID
	case p.tapCfg != nil:
		return p.tapCfg.ID
	}
	return p.self
}

// peerParams: an honest peer `id` of the same session: the common parameters of the tested party
// (participants, threshold, message), its OWN valid key material. A name that holds no share gets
// a copy of party c's material under its name (a participant that is not a shareholder).
func peerParams(m *robustMaterial, p *startParams, id party.ID) *startParams {
	q := *p
	q.self = id
	src := id
	if _, ok := m.cmp[id]; !ok {
		src = m.ids[2]
	}
	if p.cmpCfg != nil || (strings.HasPrefix(p.fn, "cmp.") && p.fn != "cmp.Keygen") {
		c := *m.cmp[src]
		c.ID = id
		q.cmpCfg = &c
	}
	if p.fn == "frost.Refresh" || p.fn == "frost.Sign" {
		c := *m.frost[src]
		c.ID = id
		q.frCfg = &c
	}
	if p.fn == "frost.RefreshTaproot" || p.fn == "frost.SignTaproot" {
		c := m.tap[src].Clone()
		c.ID = id
		q.tapCfg = c
	}
	if p.fn == "cmp.PresignOnline" {
		if ps, ok := m.presig[id]; ok {
			q.presig = ps
		} else {
			q.presig = m.presig[m.ids[1]]
		}
	}
	if p.twoParty() {
		q.self, q.other = p.other, p.self
		q.dR, q.dS = nil, nil
		switch p.fn {
		case "doerner.Keygen":
			q.fn = "doerner.Keygen/sender"
		case "doerner.RefreshReceiver":
			q.fn, q.dS = "doerner.RefreshSender", m.dS
		case "doerner.RefreshSender":
			q.fn, q.dR = "doerner.RefreshReceiver", m.dR
		case "doerner.SignReceiver":
			q.fn, q.dS = "doerner.SignSender", m.dS
		case "doerner.SignSender":
			q.fn, q.dR = "doerner.SignReceiver", m.dR
		}
	}
	return &q
}

func (p *startParams) peerHandler(sid []byte) (protocol.Handler, error) {
	if p.fn == "doerner.Keygen/sender" {
		h, err := protocol.NewTwoPartyHandler(doerner.Keygen(p.group, false, p.self, p.other, nil), sid, false)
		if err != nil {
			return nil, err
		}
		return h, nil
	}
	return p.handler(sid)
}

type startRun struct {
	outcome string
	detail  string
}

// tryStart: construct the handler under Guard. level: "ok" | "err" | "crash".
func tryStart(p *startParams, sid []byte) (protocol.Handler, string, string) {
	var h protocol.Handler
	ch := make(chan interface{}, 1)
	go func() {
		ch <- Guard(func() interface{} {
			hh, err := p.handler(sid)
			if err != nil {
				return "err"
			}
			h = hh
			return "ok"
		})
	}()
	var res interface{}
	select {
	case res = <-ch:
	case <-time.After(20 * time.Second):
		// the constructor did not return: its goroutine stays blocked (it is left behind)
		return nil, "hang", "handler construction did not return within 20 s"
	}
	if s, ok := res.(string); ok {
		return h, s, ""
	}
	j := res.(J)
	return nil, "crash", fmt.Sprint(j["detail"]) + " @ " + fmt.Sprint(j["at"])
}

// runStarted: the tested party was allowed to start; run the session with honest peers.
func runStarted(c *Ctx, m *robustMaterial, p *startParams, h protocol.Handler, sid []byte) startRun {
	self := p.selfID()
	hs := map[party.ID]protocol.Handler{self: h}
	peers := []party.ID{}
	for _, id := range p.sessionParties() {
		if id == self {
			continue
		}
		q := peerParams(m, p, id)
		var ph protocol.Handler
		r := Guard(func() interface{} {
			x, err := q.peerHandler(sid)
			if err != nil {
				return "err"
			}
			ph = x
			return "ok"
		})
		if r == "ok" {
			hs[id] = ph
			peers = append(peers, id)
		} else if j, isJ := r.(J); isJ {
			// an honest peer given the same common parameters crashed while constructing its handler
			return startRun{"PANIC", fmt.Sprintf("peer %q (same common parameters, own valid key material): %v @ %v", string(id), j["detail"], j["at"])}
		}
	}
	done := make(chan sessionResult, 1)
	go func() { done <- runSessions(c, hs, "fifo", nil) }()
	var res sessionResult
	select {
	case res = <-done:
	case <-time.After(120 * time.Second):
		return startRun{"TIMEOUT", "session did not come to rest within 120 s"}
	}
	if res.Panic != "" {
		lines := strings.Split(res.Panic, "\n")
		at := ""
		for i, l := range lines {
			if strings.Contains(l, "panic(") && i+3 < len(lines) {
				at = strings.TrimSpace(lines[i+3])
				break
			}
		}
		return startRun{"PANIC", lines[0] + " @ " + at}
	}
	stalled := []string{}
	for _, id := range peers {
		if _, ok := res.Results[id]; ok {
			continue
		}
		if e := res.Errors[id]; e != nil && !strings.Contains(e.Error(), "not finished") {
			continue
		}
		stalled = append(stalled, string(id))
	}
	if len(stalled) > 0 {
		sort.Strings(stalled)
		errs := []string{}
		for id, e := range res.Errors {
			if !strings.Contains(e.Error(), "not finished") {
				errs = append(errs, string(id)+": "+e.Error())
			}
		}
		sort.Strings(errs)
		return startRun{"STALL-HONEST-PEERS", fmt.Sprintf("peers left without result or error: %s; started %d of %d parties; ended with error: %q",
			strings.Join(stalled, ","), len(hs), len(p.sessionParties()), errs)}
	}
	if len(res.Results) == len(hs) {
		return startRun{"ok", ""}
	}
	if _, ok := res.Results[self]; !ok {
		if e := res.Errors[self]; e != nil && strings.Contains(e.Error(), "not finished") {
			return startRun{"STALL-SELF", "the started session cannot finish (peers refused to start or are absent)"}
		}
	}
	errs := []string{}
	for id, e := range res.Errors {
		errs = append(errs, string(id)+": "+e.Error())
	}
	sort.Strings(errs)
	return startRun{"ABORTED", strings.Join(errs, "; ")}
}

func (c *Ctx) startCase(m *robustMaterial, fn string, muts []startMut, runOK bool) {
	p := baseStart(m, fn, m.ids[0])
	names := []string{}
	for _, mu := range muts {
		mu.apply(p)
		names = append(names, mu.dim+"="+mu.name)
	}
	if f := os.Getenv("VERIF_START_FILTER"); f != "" && !strings.Contains(fn+"|"+strings.Join(names, ","), f) {
		return
	}
	in := J{"fn": fn, "muts": names, "p": describeStart(p)}
	sid := []byte("start-suite")
	h, level, detail := tryStart(p, sid)
	impl := J{"coded": level}
	switch level {
	case "err":
		impl["outcome"] = "err"
	case "crash":
		impl["outcome"] = "PANIC"
		impl["detail"] = detail
	case "hang":
		impl["outcome"] = "HANG"
		impl["detail"] = detail
	default:
		impl["outcome"] = "ok"
		if runOK {
			r := runStarted(c, m, p, h, sid)
			impl["outcome"] = r.outcome
			if r.outcome != "ok" {
				impl["detail"] = r.detail
			}
			c.Count("start/run/" + r.outcome)
		}
	}
	c.Count("start/outcome/" + fmt.Sprint(impl["outcome"]))
	c.Emit("start", in, impl)
}

func init() {
	register("start", func(c *Ctx) {
		m := getRobustMaterial(c, true)
		seedCryptoRand(c.Seed + 99)
		defer restoreCryptoRand()
		installPrimeHook(int(c.Seed+3) % 40)
		for _, fn := range startFns {
			muts := startMuts(m, fn)
			slow := strings.HasPrefix(fn, "cmp.")
			// the valid call, always run to the end
			c.startCase(m, fn, nil, true)
			for _, mu := range muts {
				// scheduling hint only (no judgement): unusual-but-fine values of the slow protocols are run to
				// the end in the thorough tier; every bad value that is allowed to start is always run
				run := !slow || c.Tier == "thorough" || !harmlessMut[mu.dim+"="+mu.name]
				c.startCase(m, fn, []startMut{mu}, run)
			}
			// pairs of bad values from different dimensions
			for i := range muts {
				for j := i + 1; j < len(muts); j++ {
					if muts[i].dim == muts[j].dim {
						continue
					}
					// started pairs of the slow protocols are run to the end in the thorough tier only
					run := !slow || c.Tier == "thorough"
					c.startCase(m, fn, []startMut{muts[i], muts[j]}, run)
				}
			}
		}
		// replay of the Lean counterexample witnesses (MpsProps/C20.lean) on the real code
		for _, w := range startWitnesses {
			muts := startMuts(m, w.fn)
			sel := []startMut{}
			for _, name := range w.muts {
				for _, mu := range muts {
					if mu.dim+"="+mu.name == name {
						sel = append(sel, mu)
					}
				}
			}
			if len(sel) == len(w.muts) {
				c.startCase(m, w.fn, sel, true)
			}
		}
	})
}

var harmlessMut = map[string]bool{"thr=0": true, "thr=2": true, "ids=unsorted": true, "ids=foreign": true, "ids=plus-foreign": true,
	"ids=two": true, "ids=all": true, "msg=1-byte": true, "msg=64-bytes": true, "other=foreign": true}

type startWitness struct {
	fn   string
	muts []string
}

// the witnesses named by the `_counterexample` theorems of MpsProps/C20.lean
var startWitnesses = []startWitness{
	{"frost.Sign", []string{"msg=empty"}},
	{"frost.Sign", []string{"ids=foreign"}},
	{"frost.SignTaproot", []string{"ids=foreign"}},
	{"cmp.Refresh", []string{"cfg=nil"}},
	{"cmp.Sign", []string{"cfg=nil"}},
	{"frost.Sign", []string{"cfg=nil"}},
	{"doerner.SignReceiver", []string{"cfg=nil"}},
}
