//go:build verif

package main

// Suite `session` (C09): session tags. (1) round.NewSession on generated parameter sets and on
// pairs differing in exactly one component, SSIDs compared bit for bit with the Lean model;
// (2) a catalogue of sessions created through the REAL start functions of every protocol:
// different sessions must have different (protocol id, SSID) tags — judged by the model;
// (3) the first message of one real session offered to a handler of another one.

import (
	"fmt"
	"sort"

	"github.com/taurusgroup/multi-party-sig/internal/round"
	"github.com/taurusgroup/multi-party-sig/internal/test"
	"github.com/taurusgroup/multi-party-sig/pkg/ecdsa"
	"github.com/taurusgroup/multi-party-sig/pkg/hash"
	"github.com/taurusgroup/multi-party-sig/pkg/math/curve"
	"github.com/taurusgroup/multi-party-sig/pkg/party"
	"github.com/taurusgroup/multi-party-sig/pkg/protocol"
	"github.com/taurusgroup/multi-party-sig/protocols/cmp"
	cmppresign "github.com/taurusgroup/multi-party-sig/protocols/cmp/presign"
	"github.com/taurusgroup/multi-party-sig/protocols/doerner"
	"github.com/taurusgroup/multi-party-sig/protocols/frost"
)

type sessParams struct {
	Sid    interface{} `json:"sid"` // hex or nil
	Proto  string      `json:"proto"`
	Group  bool        `json:"group"`
	IDs    []string    `json:"ids"` // hex, as given (unsorted allowed)
	Self   string      `json:"self"`
	Thr    int         `json:"thr"`
	Aux    []TV        `json:"aux"`
}

func genSessParams(c *Ctx) sessParams {
	pool := []string{"a", "b", "c", "ab", "bc", "abc", "alice", "bob", "\xc3\xa9", "z9", "a\x00", ""}
	n := 1 + c.Intn(4)
	c.Rng.Shuffle(len(pool), func(i, j int) { pool[i], pool[j] = pool[j], pool[i] })
	ids := append([]string{}, pool[:n]...)
	if c.Intn(3) != 0 {
		sort.Strings(ids)
	}
	if c.Intn(12) == 0 && n > 1 {
		ids[1] = ids[0] // duplicate
	}
	hexids := make([]string, len(ids))
	for i, s := range ids {
		hexids[i] = hx([]byte(s))
	}
	p := sessParams{Proto: []string{"cmp/sign", "frost/keygen-threshold", "x", ""}[c.Intn(4)], Group: c.Intn(5) != 0, IDs: hexids,
		Self: hexids[c.Intn(len(hexids))], Thr: []int{0, 1, n - 1, n, -1, 2, 1 << 33}[c.Intn(7)]}
	if c.Intn(8) == 0 {
		p.Self = hx([]byte("nobody"))
	}
	switch c.Intn(4) {
	case 0:
		p.Sid = nil
	case 1:
		p.Sid = ""
	default:
		p.Sid = hx(c.smallBytes(12))
	}
	k := c.Intn(3)
	for i := 0; i < k; i++ {
		t := []string{"bytes", "sigmsg", "bwd", "rid", "ids", "thr"}[c.Intn(6)]
		v := genTV(c, t)
		p.Aux = append(p.Aux, v)
	}
	if p.Aux == nil {
		p.Aux = []TV{}
	}
	return p
}

func (p sessParams) run() J {
	ids := make([]party.ID, len(p.IDs))
	for i, x := range p.IDs {
		ids[i] = party.ID(unhx(x))
	}
	info := round.Info{ProtocolID: p.Proto, FinalRoundNumber: 3, SelfID: party.ID(unhx(p.Self)), PartyIDs: ids, Threshold: p.Thr}
	if p.Group {
		info.Group = curve.Secp256k1{}
	}
	var sid []byte
	if p.Sid != nil {
		sid = unhx(p.Sid.(string))
		if sid == nil {
			sid = []byte{}
		}
	}
	aux := []hash.WriterToWithDomain{}
	for _, v := range p.Aux {
		g := toGo(v)
		w, ok := g.(hash.WriterToWithDomain)
		if !ok {
			// []byte etc. are not WriterToWithDomain: wrap like the callers do
			if b, isb := g.([]byte); isb {
				w = &hash.BytesWithDomain{TheDomain: "aux", Bytes: b}
			} else {
				continue
			}
		}
		aux = append(aux, w)
	}
	res := Guard(func() interface{} {
		h, err := round.NewSession(info, sid, nil, aux...)
		if err != nil {
			return J{"ok": false}
		}
		return J{"ok": true, "ssid": hx(h.SSID())}
	})
	return res.(J)
}

func mutateSess(c *Ctx, p sessParams) (sessParams, string) {
	q := p
	q.IDs = append([]string{}, p.IDs...)
	q.Aux = append([]TV{}, p.Aux...)
	kind := []string{"same", "sid", "sid-nil-vs-empty", "proto", "group", "ids-regroup", "ids-add", "thr", "aux-add", "aux-change", "self"}[c.Intn(11)]
	switch kind {
	case "sid":
		q.Sid = hx(c.smallBytes(12))
	case "sid-nil-vs-empty":
		if p.Sid == nil {
			q.Sid = ""
		} else {
			q.Sid = nil
		}
	case "proto":
		q.Proto = p.Proto + "'"
	case "group":
		q.Group = !p.Group
	case "ids-regroup": // same concatenation, different boundaries
		if len(q.IDs) >= 2 {
			a, b := unhx(q.IDs[0]), unhx(q.IDs[1])
			if len(a) > 1 {
				q.IDs[0] = hx(a[:len(a)-1])
				q.IDs[1] = hx(append([]byte{a[len(a)-1]}, b...))
			} else if len(b) > 1 {
				q.IDs[0] = hx(append(append([]byte{}, a...), b[0]))
				q.IDs[1] = hx(b[1:])
			}
		}
	case "ids-add":
		q.IDs = append(q.IDs, hx([]byte("zz")))
	case "thr":
		q.Thr = p.Thr + 1
	case "aux-add":
		q.Aux = append(q.Aux, genTV(c, "sigmsg"))
	case "aux-change":
		if len(q.Aux) > 0 {
			q.Aux[0] = genTV(c, "rid")
		}
	case "self":
		q.Self = q.IDs[c.Intn(len(q.IDs))]
	}
	return q, kind
}

type catEntry struct {
	Desc J      `json:"desc"`
	Tag  string `json:"tag"`
	h    protocol.Handler
	mk   func() (protocol.Handler, error)
}

func tagOf(start protocol.StartFunc, sid []byte) (string, error) {
	r, err := start(sid)
	if err != nil {
		return "", err
	}
	return r.ProtocolID() + "|" + hx(r.SSID()), nil
}

func init() {
	register("session", func(c *Ctx) {
		for i := 0; i < c.N; i++ {
			p := genSessParams(c)
			c.Emit("ssid", p, p.run())
		}
		// the id-set pair that shared one tag before IDSlice.WriteTo was repaired
		base := sessParams{Sid: "01", Proto: "x", Group: true, IDs: []string{hx([]byte("ab")), hx([]byte("c"))}, Self: hx([]byte("c")), Thr: 1, Aux: []TV{}}
		other := base
		other.IDs = []string{hx([]byte("a")), hx([]byte("bc"))}
		other.Self = hx([]byte("a"))
		ra, rb := base.run(), other.run()
		c.Emit("ssidpair", J{"a": base, "b": other, "kind": "corpus"}, J{"a": ra, "b": rb, "same": ra["ssid"] == rb["ssid"]})
		for i := 0; i < c.N; i++ {
			p := genSessParams(c)
			q, kind := mutateSess(c, p)
			ra, rb := p.run(), q.run()
			same := ra["ok"] == true && rb["ok"] == true && ra["ssid"] == rb["ssid"]
			c.Emit("ssidpair", J{"a": p, "b": q, "kind": kind}, J{"a": ra, "b": rb, "same": same})
			c.Count("session/pairkind/" + kind)
		}
		// ---- catalogue of real sessions -----------------------------------------------------------
		rounds := 1
		if c.Tier == "thorough" {
			rounds = 6
		}
		for rr := 0; rr < rounds; rr++ {
			realCatalogue(c, rr)
		}
	})
}

func realCatalogue(c *Ctx, rr int) {
	installPrimeHook(c.Intn(40))
	group := curve.Secp256k1{}
	n, t := 3, 1
	ids := test.PartyIDs(n)
	sidA, sidB := []byte("session-A"), []byte("session-B")
	msg1, msg2 := c.Bytes(32), c.Bytes(32)
	entries := []catEntry{}
	add := func(desc J, mk func(sid []byte) protocol.StartFunc, sid []byte) {
		var e catEntry
		e.Desc = desc
		if sid == nil {
			e.Desc["sid"] = nil
		} else {
			e.Desc["sid"] = hx(sid)
		}
		res := Guard(func() interface{} {
			tag, err := tagOf(mk(sid), sid)
			if err != nil {
				return J{"outcome": "err", "detail": err.Error()}
			}
			return tag
		})
		if s, ok := res.(string); ok {
			e.Tag = s
			e.mk = func() (protocol.Handler, error) { return protocol.NewMultiHandler(mk(sid), sid) }
			entries = append(entries, e)
		} else {
			c.Emit("catalogue-start", e.Desc, res)
		}
	}
	// FROST material from a real keygen
	frostCfg := map[party.ID]*frost.Config{}
	{
		hs := map[party.ID]protocol.Handler{}
		for _, id := range ids {
			h, err := protocol.NewMultiHandler(frost.Keygen(group, id, ids, t), sidA)
			if err != nil {
				panic(err)
			}
			hs[id] = h
		}
		res := runSessions(c, hs, "fifo", nil)
		for id, r := range res.Results {
			frostCfg[id] = r.(*frost.Config)
		}
	}
	cmpCfg, _ := test.GenerateConfig(group, n, t, c.Rng, nil)
	cmpCfg2, _ := test.GenerateConfig(group, n, t, c.Rng, nil)
	me := ids[0]
	signers := ids[:t+1]
	for _, sid := range [][]byte{sidA, sidB, nil} {
		add(J{"kind": "frost/keygen", "ids": 3, "thr": t}, func(s []byte) protocol.StartFunc { return frost.Keygen(group, me, ids, t) }, sid)
		add(J{"kind": "frost/keygen-taproot", "ids": 3, "thr": t}, func(s []byte) protocol.StartFunc { return frost.KeygenTaproot(me, ids, t) }, sid)
		add(J{"kind": "frost/keygen", "ids": 3, "thr": 2}, func(s []byte) protocol.StartFunc { return frost.Keygen(group, me, ids, 2) }, sid)
		add(J{"kind": "frost/keygen", "ids": 2, "thr": t}, func(s []byte) protocol.StartFunc { return frost.Keygen(group, me, ids[:2], t) }, sid)
		add(J{"kind": "cmp/keygen", "ids": 3, "thr": t}, func(s []byte) protocol.StartFunc { return cmp.Keygen(group, me, ids, t, nil) }, sid)
		add(J{"kind": "cmp/refresh", "cfg": 1}, func(s []byte) protocol.StartFunc { return cmp.Refresh(cmpCfg[me], nil) }, sid)
		add(J{"kind": "cmp/refresh", "cfg": 2}, func(s []byte) protocol.StartFunc { return cmp.Refresh(cmpCfg2[me], nil) }, sid)
		add(J{"kind": "cmp/sign", "cfg": 1, "msg": 1}, func(s []byte) protocol.StartFunc { return cmp.Sign(cmpCfg[me], signers, msg1, nil) }, sid)
		add(J{"kind": "cmp/sign", "cfg": 1, "msg": 2}, func(s []byte) protocol.StartFunc { return cmp.Sign(cmpCfg[me], signers, msg2, nil) }, sid)
		add(J{"kind": "cmp/sign", "cfg": 2, "msg": 1}, func(s []byte) protocol.StartFunc { return cmp.Sign(cmpCfg2[me], signers, msg1, nil) }, sid)
		add(J{"kind": "cmp/sign", "cfg": 1, "msg": 1, "signers": "all"}, func(s []byte) protocol.StartFunc { return cmp.Sign(cmpCfg[me], ids, msg1, nil) }, sid)
		// the same key material except for the ECDSA shares: a BIP-32 child of config 1
		if child, err := cmpCfg[me].DeriveBIP32(7); err == nil {
			add(J{"kind": "cmp/sign", "cfg": "1/child-7", "msg": 1}, func(s []byte) protocol.StartFunc { return cmp.Sign(child, signers, msg1, nil) }, sid)
			add(J{"kind": "cmp/refresh", "cfg": "1/child-7"}, func(s []byte) protocol.StartFunc { return cmp.Refresh(child, nil) }, sid)
			add(J{"kind": "cmp/presign", "cfg": "1/child-7"}, func(s []byte) protocol.StartFunc { return cmp.Presign(child, signers, nil) }, sid)
		}
		add(J{"kind": "cmp/presign", "cfg": 1}, func(s []byte) protocol.StartFunc { return cmp.Presign(cmpCfg[me], signers, nil) }, sid)
		add(J{"kind": "cmp/presign", "cfg": 2}, func(s []byte) protocol.StartFunc { return cmp.Presign(cmpCfg2[me], signers, nil) }, sid)
		// the full variant of presigning (presign + sign in one session: the message is a session parameter)
		add(J{"kind": "cmp/presign-full", "cfg": 1, "msg": 1}, func(s []byte) protocol.StartFunc { return cmppresign.StartPresign(cmpCfg[me], signers, msg1, nil) }, sid)
		add(J{"kind": "cmp/presign-full", "cfg": 1, "msg": 2}, func(s []byte) protocol.StartFunc { return cmppresign.StartPresign(cmpCfg[me], signers, msg2, nil) }, sid)
		if frostCfg[me] != nil {
			add(J{"kind": "frost/sign", "signers": 2}, func(s []byte) protocol.StartFunc { return frost.Sign(frostCfg[me], signers, msg1) }, sid)
			add(J{"kind": "frost/sign", "signers": 3}, func(s []byte) protocol.StartFunc { return frost.Sign(frostCfg[me], ids, msg1) }, sid)
		}
	}
	// Doerner: keygen, then refresh and sign sessions between the same two parties
	{
		a, b := ids[0], ids[1]
		hs := map[party.ID]protocol.Handler{}
		hr, err1 := protocol.NewTwoPartyHandler(doerner.Keygen(group, true, a, b, nil), sidA, true)
		hsn, err2 := protocol.NewTwoPartyHandler(doerner.Keygen(group, false, b, a, nil), sidA, false)
		if err1 == nil && err2 == nil {
			hs[a], hs[b] = hr, hsn
			res := runSessions(c, hs, "fifo", nil)
			cr, ok1 := res.Results[a].(*doerner.ConfigReceiver)
			cs, ok2 := res.Results[b].(*doerner.ConfigSender)
			for _, sid := range [][]byte{sidA, sidB, nil} {
				add(J{"kind": "doerner/keygen"}, func(s []byte) protocol.StartFunc { return doerner.Keygen(group, true, a, b, nil) }, sid)
				add(J{"kind": "doerner/keygen", "role": "sender"}, func(s []byte) protocol.StartFunc { return doerner.Keygen(group, false, b, a, nil) }, sid)
				if ok1 && ok2 {
					add(J{"kind": "doerner/refresh"}, func(s []byte) protocol.StartFunc { return doerner.RefreshReceiver(cr, a, b, nil) }, sid)
					add(J{"kind": "doerner/refresh", "role": "sender"}, func(s []byte) protocol.StartFunc { return doerner.RefreshSender(cs, b, a, nil) }, sid)
					add(J{"kind": "doerner/sign"}, func(s []byte) protocol.StartFunc { return doerner.SignReceiver(cr, a, b, msg1, nil) }, sid)
					add(J{"kind": "doerner/sign", "role": "sender"}, func(s []byte) protocol.StartFunc { return doerner.SignSender(cs, b, a, msg1, nil) }, sid)
				}
			}
		}
	}
	_ = ecdsa.Signature{}
	out := make([]J, len(entries))
	for i, e := range entries {
		out[i] = J{"desc": e.Desc, "tag": e.Tag}
	}
	c.Emit("catalogue", J{"entries": out}, J{"ok": true})
	c.Count(fmt.Sprintf("session/catalogue-entries/%d", len(entries)))
	// cross-session replay: first message of X offered to Y
	for k := 0; k < 40 && len(entries) > 1; k++ {
		i, j := c.Intn(len(entries)), c.Intn(len(entries))
		if i == j || entries[i].Desc["role"] != nil || entries[j].Desc["role"] != nil {
			continue
		}
		res := Guard(func() interface{} {
			hx1, err := entries[i].mk()
			if err != nil {
				return nil
			}
			hy, err := entries[j].mk()
			if err != nil {
				return nil
			}
			var m *protocol.Message
			select {
			case m = <-hx1.Listen():
			default:
			}
			if m == nil {
				return nil
			}
			// offered to Y as if sent by another participant of Y
			can := hy.CanAccept(m)
			return J{"x": entries[i].Desc, "y": entries[j].Desc, "can": can}
		})
		if res == nil {
			continue
		}
		if r, ok := res.(J); ok && r["outcome"] == nil {
			c.Emit("replay", r, J{"ok": true})
		} else {
			c.Emit("replay", J{"x": entries[i].Desc, "y": entries[j].Desc}, res)
		}
	}
}
