//go:build verif

package main

// Suite `nonce` (C11): the nonce commitments honest signers publish, under a system random source
// that is constant, repeating or honest.
//
//   - crypto/rand.Reader (a package variable) is replaced by a recording reader for the duration of
//     each call and restored afterwards;
//   - FROST: real configs from a real frost.Keygen session (n = 4, t = 1); for every context a real
//     signer is started (protocol.NewMultiHandler(frost.Sign / frost.SignTaproot)) and the round-2
//     broadcast carrying D_i, E_i is captured from its out channel;
//   - stand-alone BIP-340: taproot.SecretKey.Sign with a reader and with rand == nil (atomic counter).
//
// The Lean driver recomputes D_i, E_i / R.x bit for bit from (share, session parameters, message, the bytes
// the reader handed out). Property field `distinct`: two contexts publish different commitments exactly
// when they differ in share, session id, signer set, variant, message or random bytes.

import (
	"testing/iotest"
	"bytes"
	crand "crypto/rand"
	"fmt"
	"io"
	"math/big"
	mrand "math/rand"

	"github.com/fxamacker/cbor/v2"
	"github.com/taurusgroup/multi-party-sig/pkg/math/curve"
	"github.com/taurusgroup/multi-party-sig/pkg/party"
	"github.com/taurusgroup/multi-party-sig/pkg/protocol"
	"github.com/taurusgroup/multi-party-sig/pkg/taproot"
	"github.com/taurusgroup/multi-party-sig/protocols/frost"
)

// recReader hands out bytes from src and records them.
type recReader struct {
	src io.Reader
	got []byte
}

func (r *recReader) Read(p []byte) (int, error) {
	n, err := r.src.Read(p)
	r.got = append(r.got, p[:n]...)
	return n, err
}

type fixedByteReader byte

func (k fixedByteReader) Read(p []byte) (int, error) {
	for i := range p {
		p[i] = byte(k)
	}
	return len(p), nil
}

// cycleReader repeats a short pattern; a fresh one (same pattern, position 0) is used for every call:
// a random source that replays the same stream.
type cycleReader struct {
	pat []byte
	pos int
}

func (r *cycleReader) Read(p []byte) (int, error) {
	for i := range p {
		p[i] = r.pat[r.pos%len(r.pat)]
		r.pos++
	}
	return len(p), nil
}

func withSystemRand(src io.Reader, f func()) []byte {
	rec := &recReader{src: src}
	old := crand.Reader
	crand.Reader = rec
	defer func() { crand.Reader = old }()
	f()
	return rec.got
}

type frostCtx struct {
	cfg     *frost.Config
	sid     []byte // nil = no session id
	taproot bool
	signers []party.ID
	m       []byte
}

func (fc frostCtx) json(a []byte) J {
	ids := party.NewIDSlice(fc.signers)
	hexIDs := []string{}
	for _, id := range ids {
		hexIDs = append(hexIDs, hx([]byte(id)))
	}
	var sid interface{}
	if fc.sid != nil {
		sid = hx(fc.sid)
	}
	return J{"share": hx(scalarBytes(fc.cfg.PrivateShare)), "sid": sid, "taproot": fc.taproot, "signers": hexIDs,
		"thr": fc.cfg.Threshold, "m": hx(fc.m), "a": hx(a), "self": hx([]byte(fc.cfg.ID))}
}

type nonceOut struct {
	D, E string
	A    []byte
	Err  string
}

// round1 starts a real signer and returns the commitments of its round-2 broadcast and the bytes
// the system random source handed out meanwhile.
func (fc frostCtx) round1(src io.Reader) (out nonceOut) {
	defer func() {
		if r := recover(); r != nil {
			out.Err = "PANIC: " + fmt.Sprint(r)
		}
	}()
	var start protocol.StartFunc
	if fc.taproot {
		vs := map[party.ID]*curve.Secp256k1Point{}
		for id, p := range fc.cfg.VerificationShares.Points {
			vs[id] = p.(*curve.Secp256k1Point)
		}
		tc := &frost.TaprootConfig{ID: fc.cfg.ID, Threshold: fc.cfg.Threshold,
			PrivateShare:       fc.cfg.PrivateShare.(*curve.Secp256k1Scalar),
			PublicKey:          taproot.PublicKey(fc.cfg.PublicKey.(*curve.Secp256k1Point).XBytes()),
			VerificationShares: vs}
		start = frost.SignTaproot(tc, fc.signers, fc.m)
	} else {
		start = frost.Sign(fc.cfg, fc.signers, fc.m)
	}
	var h *protocol.MultiHandler
	var err error
	out.A = withSystemRand(src, func() { h, err = protocol.NewMultiHandler(start, fc.sid) })
	if err != nil {
		out.Err = err.Error()
		return
	}
	select {
	case msg, ok := <-h.Listen():
		if !ok || msg == nil {
			out.Err = "no message"
			return
		}
		if !msg.Broadcast || msg.RoundNumber != 2 {
			out.Err = fmt.Sprintf("unexpected message round=%d broadcast=%v", msg.RoundNumber, msg.Broadcast)
			return
		}
		var body struct {
			D_i []byte
			E_i []byte
		}
		if err := cbor.Unmarshal(msg.Data, &body); err != nil {
			out.Err = "cbor: " + err.Error()
			return
		}
		out.D, out.E = hx(body.D_i), hx(body.E_i)
	default:
		out.Err = "no message"
	}
	return
}

func optS(s string) interface{} {
	if s == "" {
		return nil
	}
	return s
}

func cloneCfg(cfg *frost.Config) *frost.Config {
	c := *cfg
	c.PrivateShare = cloneScalar(cfg.PrivateShare)
	return &c
}

// consistentCfg makes the config's own verification share match its (changed) private share or id:
// the start functions refuse a config whose private share does not belong to its public table
func consistentCfg(cfg *frost.Config) *frost.Config {
	pts := make(map[party.ID]curve.Point, len(cfg.VerificationShares.Points))
	for id, p := range cfg.VerificationShares.Points {
		pts[id] = p
	}
	pts[cfg.ID] = cfg.PrivateShare.ActOnBase()
	cfg.VerificationShares = party.NewPointMap(pts)
	return cfg
}

type bipCtx struct {
	sk []byte
	m  []byte
}

// bipSign: src == nil means rand == nil (counter); returns R.x, and the JSON context
func bipSign(bc bipCtx, src io.Reader) (string, J) {
	in := J{"sk": hx(bc.sk), "m": hx(bc.m)}
	var sig taproot.Signature
	var err error
	if src == nil {
		in["aux"] = nil
		in["ctr"] = new(big.Int).SetUint64(taproot.VerifSignatureCounter() + 1).Text(16)
		sig, err = taproot.SecretKey(bc.sk).Sign(nil, bc.m)
	} else {
		rec := &recReader{src: src}
		sig, err = taproot.SecretKey(bc.sk).Sign(rec, bc.m)
		in["aux"] = hx(rec.got)
	}
	if err != nil || len(sig) != 64 {
		return "", in
	}
	return hx(sig[:32]), in
}

// bipSignShort: the 32 auxiliary bytes are delivered ONE BYTE PER Read call (a legitimate io.Reader: buffered, non-blocking
// and network-backed sources do that); the signer must still consume all 32 of them
func bipSignShort(bc bipCtx, aux32 []byte) (string, J) {
	stream := append(append([]byte{}, aux32...), make([]byte, 64)...)
	in := J{"sk": hx(bc.sk), "m": hx(bc.m), "auxstream": hx(stream), "chunk": 1}
	rd := iotest.OneByteReader(bytes.NewReader(stream))
	sig, err := taproot.SecretKey(bc.sk).Sign(rd, bc.m)
	if err != nil || len(sig) != 64 {
		return "", in
	}
	return hx(sig[:32]), in
}

func init() {
	register("nonce", func(c *Ctx) {
		// ---- real FROST key generation, n = 6, t = 1, deterministic from the seed. The two-letter ids exist for the signer
		// sets {a,bc,d} / {a,b,cd}: equal size, equal sorted concatenation (seed C11g: an id list hashed without the
		// per-id length gives both sets one session hash and, with a stuck random source, one pair of nonces)
		ids := []party.ID{"a", "b", "c", "d", "bc", "cd"}
		cfgs := map[party.ID]*frost.Config{}
		var res sessionResult
		withSystemRand(mrand.New(mrand.NewSource(c.Seed+77)), func() {
			hs := map[party.ID]protocol.Handler{}
			for _, id := range ids {
				h, err := protocol.NewMultiHandler(frost.Keygen(curve.Secp256k1{}, id, ids, 1), []byte("keygen"))
				if err != nil {
					panic(err)
				}
				hs[id] = h
			}
			res = runSessions(c, hs, "fifo", nil)
		})
		if res.Panic != "" || len(res.Errors) > 0 {
			c.Emit("keygen-failed", J{}, J{"outcome": "PANIC", "detail": res.Panic, "errors": fmt.Sprint(res.Errors)})
			return
		}
		for id, r := range res.Results {
			cfgs[id] = r.(*frost.Config)
		}

		honest := mrand.New(mrand.NewSource(c.Seed + 99))
		mkSrc := func(mode string) io.Reader {
			switch mode {
			case "constant":
				return fixedByteReader(0x42)
			case "zero":
				return fixedByteReader(0)
			case "repeating":
				return &cycleReader{pat: []byte{0xde, 0xad, 0xbe, 0xef, 0x01}}
			}
			return honest
		}
		modes := []string{"constant", "zero", "repeating", "honest"}
		signerSets := [][]party.ID{{"a", "b"}, {"a", "c"}, {"a", "b", "c"}, {"a", "b", "c", "d"}, {"a", "d"}, {"b", "a", "d"}, {"a", "bc", "d"}, {"a", "b", "cd"}}
		randCtx := func() frostCtx {
			fc := frostCtx{cfg: cfgs["a"], signers: signerSets[c.Intn(len(signerSets))], taproot: c.Intn(2) == 0}
			if c.Intn(4) != 0 {
				fc.sid = c.Bytes(c.Intn(20))
			}
			switch c.Intn(6) {
			case 0:
				fc.m = c.Bytes(900 + c.Intn(300)) // crosses the 1024-byte BLAKE3 chunk boundary
			case 1:
				fc.m = c.Bytes(1 + c.Intn(4)) // an empty message is refused at start (C20)
			default:
				fc.m = c.Bytes(32)
			}
			return fc
		}

		// ---- single contexts: Lean recomputes D_i, E_i
		n1 := c.N / 4
		for i := 0; i < n1; i++ {
			fc := randCtx()
			if i%5 == 4 {
				fc.cfg = cfgs[ids[c.Intn(len(ids))]]
				fc.signers = ids
			}
			mode := modes[i%len(modes)]
			o := fc.round1(mkSrc(mode))
			in := fc.json(o.A)
			in["rng"] = mode
			if o.Err != "" {
				c.Emit("frost", in, J{"outcome": "ERROR", "detail": o.Err})
				continue
			}
			c.Count("nonce/frost:" + mode)
			c.Emit("frost", in, J{"D": o.D, "E": o.E})
		}

		// ---- pairs of contexts differing in exactly one component (or in none)
		comps := []string{"none", "m", "mlen", "sid", "sidnil", "signers", "variant", "share", "sharebit", "signers-concat"}
		n2 := c.N / 3
		for i := 0; i < n2; i++ {
			mode := modes[i%len(modes)]
			comp := comps[(i/len(modes))%len(comps)]
			c1 := randCtx()
			c2 := c1
			switch comp {
			case "m":
				c2.m = append([]byte{}, c1.m...)
				if len(c2.m) == 0 {
					c2.m = []byte{0}
				} else {
					c2.m[c.Intn(len(c2.m))] ^= byte(1 << uint(c.Intn(8)))
				}
			case "mlen":
				// move the boundary between the message and the random bytes: m ‖ a  vs  (m ‖ a[0]) ‖ …
				c2.m = append(append([]byte{}, c1.m...), 0x42)
			case "sid":
				c1.sid = c.Bytes(8)
				c2.sid = append([]byte{}, c1.sid...)
				c2.sid[c.Intn(8)] ^= 1
			case "sidnil":
				c1.sid = nil
				c2.sid = []byte{}
			case "signers":
				for {
					c2.signers = signerSets[c.Intn(len(signerSets))]
					if fmt.Sprint(party.NewIDSlice(c2.signers)) != fmt.Sprint(party.NewIDSlice(c1.signers)) {
						break
					}
				}
			case "signers-concat":
				c1.signers = []party.ID{"a", "bc", "d"}
				c2.signers = []party.ID{"a", "b", "cd"}
			case "variant":
				c2.taproot = !c1.taproot
			case "share":
				c2.cfg = cfgs["b"]
				c2.cfg = cloneCfg(c2.cfg)
				c2.cfg.ID = c1.cfg.ID
				c2.cfg = consistentCfg(c2.cfg)
			case "sharebit":
				c2.cfg = cloneCfg(c1.cfg)
				c2.cfg.PrivateShare.Add(scalarOfBig(big.NewInt(1)))
				c2.cfg = consistentCfg(c2.cfg)
			}
			o1 := c1.round1(mkSrc(mode))
			o2 := c2.round1(mkSrc(mode))
			in := J{"c1": c1.json(o1.A), "c2": c2.json(o2.A), "differs": comp, "rng": mode}
			if o1.Err != "" || o2.Err != "" {
				c.Emit("frostpair", in, J{"outcome": "ERROR", "detail": o1.Err + "|" + o2.Err})
				continue
			}
			c.Count("nonce/frostpair:" + mode + ":" + comp)
			c.Emit("frostpair", in, J{"D1": o1.D, "E1": o1.E, "D2": o2.D, "E2": o2.E,
				"distinct": o1.D != o2.D || o1.E != o2.E})
		}

		// ---- stand-alone BIP-340 signing
		bmodes := []string{"constant", "repeating", "honest", "nil"}
		bsrc := func(mode string) io.Reader {
			if mode == "nil" {
				return nil
			}
			return mkSrc(mode)
		}
		n3 := c.N / 4
		for i := 0; i < n3; i++ {
			bc := bipCtx{sk: scalarBytes(c.randScalar()), m: c.Bytes([]int{0, 1, 32, 32, 32, 33, 100}[c.Intn(7)])}
			mode := bmodes[i%len(bmodes)]
			r, in := bipSign(bc, bsrc(mode))
			in["rng"] = mode
			c.Emit("bip340", in, J{"R": optS(r)})
		}
		bcomps := []string{"none", "m", "mlen", "sk", "skneg"}
		n4 := c.N / 3
		for i := 0; i < n4; i++ {
			mode := bmodes[i%len(bmodes)]
			comp := bcomps[(i/len(bmodes))%len(bcomps)]
			c1 := bipCtx{sk: scalarBytes(c.randScalar()), m: c.Bytes(32)}
			c2 := c1
			switch comp {
			case "m":
				c2.m = append([]byte{}, c1.m...)
				c2.m[c.Intn(32)] ^= 1
			case "mlen":
				c2.m = append(append([]byte{}, c1.m...), 0)
			case "sk":
				c2.sk = scalarBytes(c.randScalar())
			case "skneg":
				// sk and n − sk are the same BIP-340 key
				d := new(curve.Secp256k1Scalar)
				_ = d.UnmarshalBinary(c1.sk)
				c2.sk = scalarBytes(d.Negate())
			}
			r1, in1 := bipSign(c1, bsrc(mode))
			r2, in2 := bipSign(c2, bsrc(mode))
			c.Count("nonce/bip340pair:" + mode + ":" + comp)
			c.Emit("bip340pair", J{"c1": in1, "c2": in2, "differs": comp, "rng": mode},
				J{"R1": optS(r1), "R2": optS(r2), "distinct": r1 != r2})
		}
		// a source with short reads: single signatures, and pairs whose random bytes agree in the FIRST byte only
		for i := 0; i < 4+c.N/40; i++ {
			bc := bipCtx{sk: scalarBytes(c.randScalar()), m: c.Bytes(32)}
			a1, a2 := c.Bytes(32), c.Bytes(32)
			a2[0] = a1[0]
			r1, in1 := bipSignShort(bc, a1)
			in1["rng"] = "short-reads"
			c.Emit("bip340", in1, J{"R": optS(r1)})
			r1, in1 = bipSignShort(bc, a1)
			r2, in2 := bipSignShort(bc, a2)
			c.Count("nonce/bip340pair:short-reads:aux-tail")
			c.Emit("bip340pair", J{"c1": in1, "c2": in2, "differs": "aux-tail", "rng": "short-reads"},
				J{"R1": optS(r1), "R2": optS(r2), "distinct": r1 != r2})
		}
		_ = bytes.Equal
	})
}
