package main

import (
	"bytes"
	crand "crypto/rand"
	"math/big"

	"github.com/cronokirby/saferith"
	"github.com/taurusgroup/multi-party-sig/internal/elgamal"
	"github.com/taurusgroup/multi-party-sig/internal/round"
	"github.com/taurusgroup/multi-party-sig/internal/types"
	"github.com/taurusgroup/multi-party-sig/pkg/hash"
	"github.com/taurusgroup/multi-party-sig/pkg/math/arith"
	"github.com/taurusgroup/multi-party-sig/pkg/math/curve"
	"github.com/taurusgroup/multi-party-sig/pkg/math/sample"
	"github.com/taurusgroup/multi-party-sig/pkg/paillier"
	"github.com/taurusgroup/multi-party-sig/pkg/party"
	"github.com/taurusgroup/multi-party-sig/pkg/pedersen"
)

// A typed value is a JSON object {"t":type,...}; toGo builds the Go value handed to WriteAny.
type TV = J

var frameTypes = []string{"bytes", "bigint", "id", "ids", "rid", "thr", "rnd", "sigmsg", "bwd", "com", "decom", "point", "scalar", "ct", "pk", "ped", "elg"}

func optHex(c *Ctx, maxLen int, nilProb int) interface{} {
	if nilProb > 0 && c.Intn(nilProb) == 0 {
		return nil
	}
	return hx(c.smallBytes(maxLen))
}

// smallBytes favours short strings and bytes that look like framing ('(' ')' 0x00 length prefixes).
func (c *Ctx) smallBytes(maxLen int) []byte {
	n := c.Intn(maxLen + 1)
	if c.Intn(3) == 0 {
		n = c.Intn(4)
	}
	b := make([]byte, n)
	alphabet := []byte{0, 0, 0, 1, 8, '(', ')', 'a', 'b', 'I', 'D', 0xff}
	if c.Intn(2) == 0 {
		for i := range b {
			b[i] = alphabet[c.Intn(len(alphabet))]
		}
	} else {
		c.Rng.Read(b)
	}
	return b
}

func randBig(c *Ctx, maxBytes int) *big.Int {
	b := c.smallBytes(maxBytes)
	return new(big.Int).SetBytes(b)
}

func genTV(c *Ctx, t string) TV {
	switch t {
	case "bytes":
		return TV{"t": t, "hex": optHex(c, 40, 25)}
	case "bigint":
		if c.Intn(25) == 0 {
			return TV{"t": t, "v": nil}
		}
		v := randBig(c, 40)
		if c.Intn(2) == 0 {
			v.Neg(v)
		}
		return TV{"t": t, "v": bighex(v)}
	case "id":
		return TV{"t": t, "hex": hx(c.smallBytes(12))}
	case "ids":
		if c.Intn(25) == 0 {
			return TV{"t": t, "ids": nil}
		}
		k := c.Intn(5)
		ids := []string{}
		for i := 0; i < k; i++ {
			ids = append(ids, hx(c.smallBytes(6)))
		}
		return TV{"t": t, "ids": ids}
	case "rid", "com", "decom":
		l := []int{32, 64, 0, 5}[c.Intn(4)]
		if c.Intn(25) == 0 {
			return TV{"t": t, "hex": nil}
		}
		return TV{"t": t, "hex": hx(c.Bytes(l))}
	case "thr":
		return TV{"t": t, "n": []int{0, 1, 2, 255, 256, 65535, 1 << 20, c.Intn(1 << 30)}[c.Intn(8)]}
	case "rnd":
		return TV{"t": t, "n": []int{0, 1, 2, 7, 8, 255, 256, 65535}[c.Intn(8)]}
	case "sigmsg":
		return TV{"t": t, "hex": optHex(c, 40, 6)}
	case "bwd":
		doms := []string{"ID", "[]byte", "big.Int", "Content", "SSID", "Message", "", "Commitment", "IDSlice"}
		var d []byte
		if c.Intn(2) == 0 {
			d = []byte(doms[c.Intn(len(doms))])
		} else {
			d = c.smallBytes(10)
		}
		return TV{"t": t, "dom": hx(d), "hex": optHex(c, 40, 25)}
	case "point":
		p := sample.Scalar(c.Rng, curve.Secp256k1{}).ActOnBase()
		b, _ := p.MarshalBinary()
		return TV{"t": t, "hex": hx(b)}
	case "scalar":
		s := sample.Scalar(c.Rng, curve.Secp256k1{})
		if c.Intn(10) == 0 {
			s = curve.Secp256k1{}.NewScalar()
		}
		b, _ := s.MarshalBinary()
		return TV{"t": t, "hex": hx(b)}
	case "ct":
		return TV{"t": t, "v": bighex(randBig(c, []int{1, 40, 511, 512}[c.Intn(4)]))}
	case "pk":
		v := randBig(c, []int{1, 40, 255, 256}[c.Intn(4)])
		v.SetBit(v, 0, 1) // saferith moduli must be odd
		return TV{"t": t, "n": bighex(v)}
	case "ped":
		n := randBig(c, 256)
		n.SetBit(n, 0, 1)
		return TV{"t": t, "n": bighex(n), "s": bighex(randBig(c, 256)), "tt": bighex(randBig(c, 256))}
	case "elg":
		l, _ := sample.Scalar(c.Rng, curve.Secp256k1{}).ActOnBase().MarshalBinary()
		m, _ := sample.Scalar(c.Rng, curve.Secp256k1{}).ActOnBase().MarshalBinary()
		return TV{"t": t, "l": hx(l), "m": hx(m)}
	}
	panic("genTV: " + t)
}

func hexOrNil(v interface{}) []byte {
	if v == nil {
		return nil
	}
	b := unhx(v.(string))
	if b == nil {
		b = []byte{}
	}
	return b
}

func parseBig(s string) *big.Int {
	v, ok := new(big.Int).SetString(s, 16)
	if !ok {
		panic("bad big " + s)
	}
	return v
}

func natOf(s string) *saferith.Nat { return new(saferith.Nat).SetBig(parseBig(s), parseBig(s).BitLen()) }

func toGo(v TV) interface{} {
	switch v["t"].(string) {
	case "bytes":
		return hexOrNil(v["hex"])
	case "bigint":
		if v["v"] == nil {
			return (*big.Int)(nil)
		}
		return parseBig(v["v"].(string))
	case "id":
		return party.ID(unhx(v["hex"].(string)))
	case "ids":
		if v["ids"] == nil {
			return party.IDSlice(nil)
		}
		out := party.IDSlice{}
		for _, s := range v["ids"].([]string) {
			out = append(out, party.ID(unhx(s)))
		}
		return out
	case "rid":
		return types.RID(hexOrNil(v["hex"]))
	case "com":
		return hash.Commitment(hexOrNil(v["hex"]))
	case "decom":
		return hash.Decommitment(hexOrNil(v["hex"]))
	case "thr":
		return types.ThresholdWrapper(v["n"].(int))
	case "rnd":
		return round.Number(v["n"].(int))
	case "sigmsg":
		return types.SigningMessage(hexOrNil(v["hex"]))
	case "bwd":
		return &hash.BytesWithDomain{TheDomain: string(unhx(v["dom"].(string))), Bytes: hexOrNil(v["hex"])}
	case "point":
		p := curve.Secp256k1{}.NewPoint()
		if err := p.UnmarshalBinary(unhx(v["hex"].(string))); err != nil {
			panic(err)
		}
		return p
	case "scalar":
		s := curve.Secp256k1{}.NewScalar()
		if err := s.UnmarshalBinary(unhx(v["hex"].(string))); err != nil {
			panic(err)
		}
		return s
	case "ct":
		ct := &paillier.Ciphertext{}
		n := natOf(v["v"].(string))
		b, _ := n.MarshalBinary()
		if err := ct.UnmarshalBinary(b); err != nil {
			panic(err)
		}
		return ct
	case "pk":
		return paillier.NewPublicKey(saferith.ModulusFromNat(natOf(v["n"].(string))))
	case "ped":
		return pedersen.New(arith.ModulusFromN(saferith.ModulusFromNat(natOf(v["n"].(string)))), natOf(v["s"].(string)), natOf(v["tt"].(string)))
	case "elg":
		e := elgamal.Empty(curve.Secp256k1{})
		_ = e.L.UnmarshalBinary(unhx(v["l"].(string)))
		_ = e.M.UnmarshalBinary(unhx(v["m"].(string)))
		return e
	}
	panic("toGo")
}

func genSeq(c *Ctx, maxLen int) []TV {
	k := c.Intn(maxLen + 1)
	out := make([]TV, 0, k)
	for i := 0; i < k; i++ {
		out = append(out, genTV(c, frameTypes[c.Intn(len(frameTypes))]))
	}
	return out
}

// digestOf feeds the values one by one (as Commit/Decommit and most call sites do) and
// reports the 64-byte sum and the index of the first value WriteAny refused (-1: none).
func digestOf(seq []TV) (string, int) {
	h := hash.New()
	bad := -1
	for i, v := range seq {
		if err := h.WriteAny(toGo(v)); err != nil {
			if bad < 0 {
				bad = i
			}
		}
	}
	return hx(h.Sum()), bad
}

// digestVia: the same, but when every value is a WriterToWithDomain and viaNew is set the values are handed to
// hash.New(values...) (what protocol.Message.Hash does); New must frame them exactly as New() + WriteAny does
func digestVia(seq []TV, viaNew bool) (string, int, bool) {
	d, bad := digestOf(seq)
	if !viaNew || len(seq) == 0 {
		return d, bad, false
	}
	ws := make([]hash.WriterToWithDomain, 0, len(seq))
	for _, v := range seq {
		w, ok := toGo(v).(hash.WriterToWithDomain)
		if !ok || w == nil {
			return d, bad, false
		}
		ws = append(ws, w)
	}
	return hx(hash.New(ws...).Sum()), bad, true
}

// mutatePair derives an adversarially related sequence: shifted boundaries, merged / split
// items, retyped items with equal bytes, permutations, byte moved into the domain tag.
func mutatePair(c *Ctx, seq []TV) ([]TV, string) {
	out := make([]TV, len(seq))
	for i := range seq {
		cp := TV{}
		for k, v := range seq[i] {
			cp[k] = v
		}
		out[i] = cp
	}
	kind := []string{"same", "shift", "merge", "split", "retype", "swap", "dom-shift", "drop", "dup"}[c.Intn(9)]
	asBytes := func(v TV) ([]byte, bool) {
		switch v["t"].(string) {
		case "id":
			if len(v["hex"].(string)) <= 2 { // never mutate an ID into the (refused) empty ID by accident
				return nil, false
			}
			return unhx(v["hex"].(string)), true
		case "bytes", "rid", "com", "decom", "sigmsg", "bwd":
			if v["hex"] == nil {
				return nil, false
			}
			return unhx(v["hex"].(string)), true
		}
		return nil, false
	}
	if len(out) == 0 {
		if kind != "same" {
			out = append(out, genTV(c, "bytes"))
			kind = "append"
		}
		return out, kind
	}
	i := c.Intn(len(out))
	switch kind {
	case "shift": // move a byte from item i to item i+1 (both byte-like, same types kept)
		if i+1 < len(out) {
			a, oka := asBytes(out[i])
			b, okb := asBytes(out[i+1])
			if oka && okb && len(a) > 0 {
				out[i]["hex"] = hx(a[:len(a)-1])
				out[i+1]["hex"] = hx(append([]byte{a[len(a)-1]}, b...))
			}
		}
	case "merge":
		if i+1 < len(out) {
			a, oka := asBytes(out[i])
			b, okb := asBytes(out[i+1])
			if oka && okb {
				out[i]["hex"] = hx(append(append([]byte{}, a...), b...))
				out = append(out[:i+1], out[i+2:]...)
			}
		}
	case "split":
		a, ok := asBytes(out[i])
		if ok && len(a) > 1 {
			k := 1 + c.Intn(len(a)-1)
			second := TV{}
			for kk, v := range out[i] {
				second[kk] = v
			}
			out[i]["hex"] = hx(a[:k])
			second["hex"] = hx(a[k:])
			out = append(out[:i+1], append([]TV{second}, out[i+1:]...)...)
		}
	case "retype":
		a, ok := asBytes(out[i])
		if ok {
			nt := []string{"bytes", "id", "rid", "com", "decom", "sigmsg"}[c.Intn(6)]
			out[i] = TV{"t": nt, "hex": hx(a)}
		}
	case "swap":
		j := c.Intn(len(out))
		out[i], out[j] = out[j], out[i]
	case "dom-shift": // BytesWithDomain: move the first data byte to the end of the domain
		if out[i]["t"] == "bwd" && out[i]["hex"] != nil {
			a := unhx(out[i]["hex"].(string))
			if len(a) > 0 {
				d := unhx(out[i]["dom"].(string))
				out[i]["dom"] = hx(append(d, a[0]))
				out[i]["hex"] = hx(a[1:])
			}
		}
	case "drop":
		out = append(out[:i], out[i+1:]...)
	case "dup":
		out = append(out[:i+1], out[i:]...)
	}
	return out, kind
}

type constReader struct{ b []byte }

func (r *constReader) Read(p []byte) (int, error) {
	for i := range p {
		p[i] = r.b[i%len(r.b)]
	}
	return len(p), nil
}

func init() {
	register("frame", func(c *Ctx) {
		// corpus first: the known id-slice boundary pairs
		corpus := [][2][]TV{
			{{TV{"t": "ids", "ids": []string{hx([]byte("ab")), hx([]byte("c"))}}}, {TV{"t": "ids", "ids": []string{hx([]byte("a")), hx([]byte("bc"))}}}},
			{{TV{"t": "bytes", "hex": "6162"}, TV{"t": "bytes", "hex": "63"}}, {TV{"t": "bytes", "hex": "61"}, TV{"t": "bytes", "hex": "6263"}}},
			{{TV{"t": "id", "hex": "6162"}}, {TV{"t": "bytes", "hex": "6162"}}},
		}
		for _, p := range corpus {
			a, ba := digestOf(p[0])
			b, bb := digestOf(p[1])
			c.Emit("pair", J{"a": p[0], "b": p[1], "kind": "corpus"}, J{"da": a, "db": b, "ea": ba, "eb": bb, "same": a == b})
			if a2, _, via := digestVia(p[0], true); via {
				if b2, _, via2 := digestVia(p[1], true); via2 {
					c.Emit("pair", J{"a": p[0], "b": p[1], "kind": "corpus", "via": "hash.New(items...)"}, J{"da": a2, "db": b2, "ea": ba, "eb": bb, "same": a2 == b2})
					c.Count("frame/via-new")
				}
			}
		}
		for i := 0; i < c.N; i++ {
			seq := genSeq(c, 6)
			d, bad, via := digestVia(seq, i%2 == 1)
			in := J{"items": seq}
			if via {
				in["via"] = "hash.New(items...)"
				c.Count("frame/via-new")
			}
			c.Emit("digest", in, J{"sum": d, "bad": bad})
			c.Count("frame/len/" + string(rune('0'+len(seq))))
			if bad >= 0 {
				c.Count("frame/refused")
			}
		}
		for i := 0; i < c.N; i++ {
			a := genSeq(c, 5)
			b, kind := mutatePair(c, a)
			da, ba, viaA := digestVia(a, i%2 == 1)
			db, bb, viaB := digestVia(b, viaA)
			in := J{"a": a, "b": b, "kind": kind}
			if viaA && viaB {
				in["via"] = "hash.New(items...)"
				c.Count("frame/via-new")
			} else if viaA {
				da, ba = digestOf(a)
			}
			c.Emit("pair", in, J{"da": da, "db": db, "ea": ba, "eb": bb, "same": da == db})
			c.Count("frame/pairkind/" + kind)
		}
		// commitments
		old := crand.Reader
		defer func() { crand.Reader = old }()
		for i := 0; i < c.N/2; i++ {
			seq := genSeq(c, 4)
			ctx := genSeq(c, 2)
			var nonce []byte
			switch c.Intn(8) {
			case 0:
				nonce = make([]byte, 32) // all-zero decommitment produced by a broken RNG
			default:
				nonce = c.Bytes(32)
			}
			crand.Reader = &constReader{nonce}
			h := hash.New()
			okctx := true
			for _, v := range ctx {
				if h.WriteAny(toGo(v)) != nil {
					okctx = false
				}
			}
			if !okctx {
				continue
			}
			vals := make([]interface{}, len(seq))
			for k, v := range seq {
				vals[k] = toGo(v)
			}
			com, decom, err := h.Commit(vals...)
			res := J{"err": err != nil}
			if err == nil {
				res["c"] = hx(com)
				res["d"] = hx(decom)
			}
			c.Emit("commit", J{"ctx": ctx, "items": seq, "nonce": hx(nonce)}, res)
			if err != nil {
				continue
			}
			// decommit decisions: the honest opening and mutated ones
			for m := 0; m < 8; m++ {
				c2, d2, seq2, kind := []byte(com), []byte(decom), seq, "honest"
				switch m {
				case 1:
					seq2, kind = mutatePair(c, seq)
				case 2:
					d2 = c.Bytes(32)
					kind = "other-decommitment"
				case 3:
					c2 = bytes.Repeat([]byte{0}, []int{64, 32, 0}[c.Intn(3)])
					kind = "zero-or-short-commitment"
				case 4:
					d2 = bytes.Repeat([]byte{0}, []int{32, 16, 0}[c.Intn(3)])
					kind = "zero-or-short-decommitment"
				case 5:
					c2 = append(append([]byte{}, com...), 0)
					if c.Intn(2) == 0 {
						c2 = com[:63]
					}
					kind = "wrong-length-commitment"
				case 6, 7:
					// a decommitment of the wrong length (or all zero) together with the commitment that
					// really is H(ctx, items, d): only the length / zero rule can refuse it
					l := []int{0, 1, 16, 31, 33, 64}[c.Intn(6)]
					d2 = c.Bytes(l)
					kind = "forged-wrong-length-decommitment"
					if m == 7 {
						d2 = make([]byte, 32)
						kind = "forged-zero-decommitment"
					}
					hh := h.Clone()
					for _, v := range seq {
						_ = hh.WriteAny(toGo(v))
					}
					_ = hh.WriteAny(hash.Decommitment(d2))
					c2 = hh.Sum()
				}
				vals2 := make([]interface{}, len(seq2))
				for k, v := range seq2 {
					vals2[k] = toGo(v)
				}
				ok := h.Decommit(c2, d2, vals2...)
				c.Emit("decommit", J{"ctx": ctx, "items": seq2, "c": hx(c2), "d": hx(d2), "kind": kind}, J{"ok": ok})
				c.Count("frame/decommit/" + kind)
			}
		}
	})
}
