package main

// Suite `twopartyconc` (C17, race build): a scripted two-party session through the REAL protocol.TwoPartyHandler
// in which, at one seeded step, the pending Accept and a Stop of the same handler are released together from two
// goroutines (and CanAccept / Result / Listen are called from a third). The run must not panic, must not trip the
// race detector, and each handler must end up in a state the lifecycle invariant allows: still running with an
// open channel, or ended with the channel closed and a result or an error (judged by the model: Mps.Drv.TwoParty
// op conc2). The step is drawn so that the session-ending Accept is raced in a good share of the trials.

import (
	"fmt"
	"sync"
	"time"

	"github.com/taurusgroup/multi-party-sig/pkg/protocol"
)

func runTwoPartyConc(c *Ctx, base string) {
	sa, sb := genScript2(c)
	sa.FinErrAt, sb.FinErrAt = 0, 0
	nodes := []*tnode{}
	type dl struct {
		m  *protocol.Message
		to int
	}
	var pending []dl
	for i, sc := range []*script2{sa, sb} {
		var sess []byte
		if sc.SessionID != "" {
			sess = unhx(sc.SessionID)
		}
		h, err := protocol.NewTwoPartyHandler(script2Start(sc), sess, sc.Leader)
		if err != nil {
			return
		}
		nd := &tnode{sid: fmt.Sprintf("%s/%d", base, i), sc: sc, h: h}
		nd.ch = h.Listen()
		nd.drainNow()
		nd.observe()
		nodes = append(nodes, nd)
		for _, m := range nd.last {
			pending = append(pending, dl{m, 1 - i})
		}
		nd.last = nil
	}
	total := sa.Final - 1 // messages of an honest in-order run
	raceAt := 1 + c.Intn(total)
	if c.Intn(2) == 0 {
		raceAt = total // the session-ending Accept
	}
	var mu sync.Mutex
	panics := []string{}
	guard := func(f func()) {
		defer func() {
			if r := recover(); r != nil {
				mu.Lock()
				panics = append(panics, fmt.Sprint(r))
				mu.Unlock()
			}
		}()
		f()
	}
	raced := -1
	step := 0
	for len(pending) > 0 && step < 40 {
		step++
		d := pending[0]
		pending = pending[1:]
		nd := nodes[d.to]
		if step == raceAt {
			raced = d.to
			start := make(chan struct{})
			var wg sync.WaitGroup
			wg.Add(3)
			go func() { defer wg.Done(); <-start; guard(func() { nd.h.Accept(d.m) }) }()
			go func() { defer wg.Done(); <-start; guard(func() { nd.h.Stop() }) }()
			go func() {
				defer wg.Done()
				<-start
				guard(func() { nd.h.CanAccept(d.m); _, _ = nd.h.Result(); _ = nd.h.Listen() })
			}()
			guard(func() {
				nd.call(func() {
					time.Sleep(time.Duration(c.Intn(3)) * 20 * time.Microsecond)
					close(start)
					wg.Wait()
				})
			})
		} else {
			guard(func() { nd.call(func() { nd.h.Accept(d.m) }) })
		}
		nd.observe()
		for _, m := range nd.last {
			pending = append(pending, dl{m, 1 - d.to})
		}
		nd.last = nil
		// abort notices are forwarded too
		for _, m := range nd.got {
			_ = m
		}
	}
	terms, closed := []string{}, []bool{}
	for _, nd := range nodes {
		var o J
		guard(func() { nd.drainNow(); o = nd.observe() })
		if o == nil {
			o = J{"term": "unobservable", "closed": false}
		}
		terms = append(terms, o["term"].(string))
		closed = append(closed, o["closed"].(bool))
	}
	var impl interface{} = J{"ok": true}
	if len(panics) > 0 {
		impl = J{"outcome": "PANIC", "detail": panics[0]}
	}
	c.Emit("conc2", J{"scripts": []*script2{sa, sb}, "terms": terms, "closed": closed, "raced": raced, "raceAt": raceAt, "total": total}, impl)
	if raceAt == total {
		c.Count("twopartyconc/raced-final-accept")
	} else {
		c.Count("twopartyconc/raced-earlier-accept")
	}
}

func init() {
	register("twopartyconc", func(c *Ctx) {
		for i := 0; i < c.N; i++ {
			runTwoPartyConc(c, fmt.Sprintf("tc%d", i))
		}
	})
}
