//go:build verif

package main

// Suite `pool` (property C18): the REAL pkg/pool worker pool is driven, through the yield hooks
// (H2, hooks/pool_hooks.diff), by a scheduler that decides at every synchronisation point which
// goroutine moves next — exhaustively over all interleavings for small worker/task counts, at
// random beyond, with zero-duration and long tasks, as hundreds of consecutive calls on one pool.
// What is written out is the OBSERVATION: the sequence of (actor, yield point) arrivals, the
// returned slice and the number of idle workers measured after the call (W blocking probe commands
// with a timeout). The Lean model (Mps.Drv.Pool) judges it: the trace must be a path of the
// transition system, the results correct, all workers idle. impl {"ok":true} vs model {"ok":…}.
// Second detector without hooks: plain stress (W workers × n instant tasks × many calls, watchdog).

import (
	"fmt"
	"runtime"
	"sort"
	"strconv"
	"sync"
	"sync/atomic"
	"time"

	"github.com/taurusgroup/multi-party-sig/pkg/math/sample"
	"github.com/taurusgroup/multi-party-sig/pkg/pool"
)

// poolSetYield is set by suite_pool_hooks.go when the tree has the H2 hooks (pkg/pool/hook_verif.go).
var poolSetYield func(func(string))

func goid() int64 {
	var buf [64]byte
	n := runtime.Stack(buf[:], false)
	// "goroutine 123 [running]:..."
	s := buf[10:n]
	i := 0
	for i < len(s) && s[i] >= '0' && s[i] <= '9' {
		i++
	}
	id, _ := strconv.ParseInt(string(s[:i]), 10, 64)
	return id
}

const (
	pmOff int32 = iota
	pmRun
	pmDrain
)

type pev struct {
	actor int // job ordinal (the k-th command of this call), -1 = caller
	point string
	val   int // oracle answer carried by workerSearch.beforeDec / beforeLoad after an evaluation (0 = nil)
}

type pgor struct {
	id      int64
	job     int
	point   string
	parked  bool
	wake    chan struct{}
	evs     []pev
	ans     int
	lastAns int
}

type parrival struct {
	g     *pgor
	epoch int
}

type psched struct {
	mu       sync.Mutex
	mode     int32
	creating bool
	epoch    int
	entry    string
	gs       map[int64]*pgor
	arrive   chan parrival
	callerID int64
	caller   *pgor
	idle     []*pgor
	jobs     map[int]*pgor
	cmdCount int
	nextVal  int
	nils     int
}

var curSched atomic.Value // *psched

var callerPark = map[string]bool{
	"Parallelize.beforeSelect": true, "Parallelize.beforeLoad": true, "Parallelize.beforeRecv": true,
	"Search.beforeSelect": true, "Search.beforeLoad": true, "Search.beforeRecv": true,
}
var workerPark = map[string]bool{
	"worker.gotCmd": true, "worker.beforeDec": true, "worker.beforeNotify": true,
	"workerSearch.beforeLoad": true, "workerSearch.beforeEval": true, "workerSearch.beforeDec": true,
	"workerSearch.beforeWrite": true, "workerSearch.beforeNotify": true,
}

func poolHook(point string) {
	if s, _ := curSched.Load().(*psched); s != nil {
		s.hook(point)
	}
}

func (s *psched) hook(point string) {
	id := goid()
	s.mu.Lock()
	if s.mode == pmOff {
		s.mu.Unlock()
		return
	}
	g := s.gs[id]
	if g == nil {
		if !s.creating {
			s.mu.Unlock()
			return
		}
		g = &pgor{id: id, job: -1, wake: make(chan struct{}, 1)}
		s.gs[id] = g
	}
	if s.mode == pmDrain {
		s.mu.Unlock()
		return
	}
	isCaller := id == s.callerID
	park := false
	switch {
	case isCaller:
		park = callerPark[point]
	case point == "worker.idle":
		park = true
	case g.job < 0:
		park = point == s.entry
	default:
		park = workerPark[point]
	}
	if isCaller || g.job >= 0 || (park && point != "worker.idle") {
		g.evs = append(g.evs, pev{point: point, val: g.lastAns})
		g.lastAns = 0
	}
	if !park {
		s.mu.Unlock()
		return
	}
	g.point = point
	g.parked = true
	ep := s.epoch
	s.mu.Unlock()
	s.arrive <- parrival{g, ep}
	<-g.wake
}

// oracle is the f handed to Search: the scheduler decided the answer of this goroutine's next call.
func (s *psched) oracle() interface{} {
	id := goid()
	s.mu.Lock()
	defer s.mu.Unlock()
	g := s.gs[id]
	if s.mode != pmRun || g == nil || g.job < 0 {
		return 999999 // stragglers of a call that has already returned (code before the repair)
	}
	g.lastAns = g.ans
	if g.ans == 0 {
		return nil
	}
	return g.ans
}

func (s *psched) release(g *pgor) {
	g.parked = false
	g.wake <- struct{}{}
}

// drain lets every parked goroutine run freely (hooks pass through) and invalidates old arrivals.
func (s *psched) drain() {
	s.mu.Lock()
	s.mode = pmDrain
	s.epoch++
	var ws []*pgor
	for _, g := range s.gs {
		if g.parked {
			ws = append(ws, g)
		}
		g.job = -1
		g.evs = nil
	}
	s.idle = nil
	s.jobs = map[int]*pgor{}
	s.mu.Unlock()
	for _, g := range ws {
		s.release(g)
	}
}

func (s *psched) setMode(m int32) {
	s.mu.Lock()
	s.mode = m
	s.mu.Unlock()
}

// await waits for one arrival of the current epoch.
func (s *psched) await(d time.Duration) *pgor {
	t := time.NewTimer(d)
	defer t.Stop()
	for {
		select {
		case a := <-s.arrive:
			s.mu.Lock()
			ok := a.epoch == s.epoch
			s.mu.Unlock()
			if ok {
				return a.g
			}
		case <-t.C:
			return nil
		}
	}
}

// collectIdle waits until k workers are parked at worker.idle.
func (s *psched) collectIdle(k int) bool {
	for len(s.idle) < k {
		g := s.await(5 * time.Second)
		if g == nil {
			return false
		}
		s.idle = append(s.idle, g)
	}
	return true
}

type ppool struct {
	p     *pool.Pool
	s     *psched
	W     int
	calls int
	dead  bool
}

func newSchedPool(W int) *ppool {
	s := &psched{mode: pmRun, creating: true, gs: map[int64]*pgor{}, arrive: make(chan parrival, 4*W+16), jobs: map[int]*pgor{}}
	curSched.Store(s)
	p := pool.NewPool(W)
	ok := s.collectIdle(W)
	s.mu.Lock()
	s.creating = false
	s.mu.Unlock()
	if !ok {
		panic("pool suite: workers did not reach worker.idle — yield hooks not wired?")
	}
	return &ppool{p: p, s: s, W: W}
}

func (pp *ppool) discard() {
	if pp.dead {
		return
	}
	pp.dead = true
	pp.s.drain()
	pp.s.setMode(pmOff)
	pp.p.TearDown()
}

type pmove struct {
	kind string // solo | eval | notify | cmd | caller
	job  int
	ans  int
}

func (s *psched) moves(maxNil int) []pmove {
	var ms []pmove
	jobs := make([]int, 0, len(s.jobs))
	for j := range s.jobs {
		jobs = append(jobs, j)
	}
	sort.Ints(jobs)
	cp := ""
	if s.caller != nil {
		cp = s.caller.point
	}
	canRecv := cp == "Parallelize.beforeSelect" || cp == "Parallelize.beforeRecv" || cp == "Search.beforeSelect" || cp == "Search.beforeRecv"
	for _, j := range jobs {
		switch s.jobs[j].point {
		case "worker.gotCmd", "worker.beforeDec", "workerSearch.beforeLoad", "workerSearch.beforeDec", "workerSearch.beforeWrite":
			ms = append(ms, pmove{"solo", j, 0})
		case "workerSearch.beforeEval":
			ms = append(ms, pmove{"eval", j, 1})
			if s.nils < maxNil {
				ms = append(ms, pmove{"eval", j, 0})
			}
		case "worker.beforeNotify", "workerSearch.beforeNotify":
			if canRecv {
				ms = append(ms, pmove{"notify", j, 0})
			}
		}
	}
	if (cp == "Parallelize.beforeSelect" || cp == "Search.beforeSelect") && len(s.idle) > 0 {
		ms = append(ms, pmove{"cmd", -1, 0})
	}
	if cp == "Parallelize.beforeLoad" || cp == "Search.beforeLoad" {
		ms = append(ms, pmove{"caller", -1, 0})
	}
	return ms
}

type pcall struct {
	kind   string // par | search
	n      int
	base   int
	long   bool
	maxNil int
}

type presult struct {
	events   [][]interface{}
	results  []interface{}
	returned bool
	hang     string
	idle     int
	choices  []int
	counts   []int
}

func (s *psched) flush(out *[][]interface{}, g *pgor, actor int) {
	for _, e := range g.evs {
		*out = append(*out, []interface{}{actor, e.point, e.val})
	}
	g.evs = nil
}

// runCall runs one Parallelize/Search call on the pool under the scheduler; choose picks one of the
// enabled moves at every step.
func (pp *ppool) runCall(pc pcall, choose func(step, n int) int) presult {
	s := pp.s
	res := presult{idle: -1}
	s.mu.Lock()
	s.entry = "worker.gotCmd"
	if pc.kind == "search" {
		s.entry = "workerSearch.beforeLoad"
	}
	s.cmdCount, s.nextVal, s.nils = 0, 0, 0
	s.jobs = map[int]*pgor{}
	s.caller = nil
	s.callerID = 0
	s.mu.Unlock()
	done := make(chan []interface{}, 1)
	go func() {
		id := goid()
		g := &pgor{id: id, job: -2, wake: make(chan struct{}, 1)}
		s.mu.Lock()
		s.callerID = id
		s.gs[id] = g
		s.caller = g
		s.mu.Unlock()
		var r []interface{}
		if pc.kind == "par" {
			r = pp.p.Parallelize(pc.n, func(i int) interface{} {
				if pc.long {
					time.Sleep(200 * time.Microsecond)
				}
				return pc.base + i
			})
		} else {
			r = pp.p.Search(pc.n, func() interface{} {
				if pc.long {
					time.Sleep(200 * time.Microsecond)
				}
				return s.oracle()
			})
		}
		r = append([]interface{}{}, r...) // what the caller sees AT return (workers still running are parked now)
		s.mu.Lock()
		g.point = "returned"
		ep := s.epoch
		delete(s.gs, id)
		s.mu.Unlock()
		done <- r
		s.arrive <- parrival{g, ep}
	}()
	if g := s.await(10 * time.Second); g == nil {
		res.hang = "caller never reached its first yield point"
		return res
	}
	s.flush(&res.events, s.caller, -1)
	for step := 0; s.caller.point != "returned"; step++ {
		ms := s.moves(pc.maxNil)
		if len(ms) == 0 {
			res.hang = "deadlock: no goroutine can move and the caller has not returned"
			break
		}
		k := choose(step, len(ms))
		res.choices = append(res.choices, k)
		res.counts = append(res.counts, len(ms))
		m := ms[k]
		var rel []*pgor
		switch m.kind {
		case "solo":
			rel = []*pgor{s.jobs[m.job]}
		case "eval":
			g := s.jobs[m.job]
			s.mu.Lock()
			if m.ans == 0 {
				g.ans = 0
				s.nils++
			} else {
				s.nextVal++
				g.ans = s.nextVal
			}
			s.mu.Unlock()
			rel = []*pgor{g}
		case "notify":
			rel = []*pgor{s.jobs[m.job], s.caller}
		case "cmd":
			w := s.idle[len(s.idle)-1]
			s.idle = s.idle[:len(s.idle)-1]
			rel = []*pgor{w, s.caller}
		case "caller":
			rel = []*pgor{s.caller}
		}
		for _, g := range rel {
			s.release(g)
		}
		for range rel {
			if g := s.await(10 * time.Second); g == nil {
				res.hang = fmt.Sprintf("a goroutine released for move %v did not reach its next yield point", m)
				break
			}
		}
		if res.hang != "" {
			break
		}
		// book-keeping + log, workers first, then the caller
		for _, g := range rel {
			if g == s.caller {
				continue
			}
			s.mu.Lock()
			if g.job < 0 { // took the command
				g.job = s.cmdCount
				s.cmdCount++
				s.jobs[g.job] = g
			}
			s.flush(&res.events, g, g.job)
			if g.point == "worker.idle" {
				delete(s.jobs, g.job)
				g.job = -1
				s.idle = append(s.idle, g)
			}
			s.mu.Unlock()
		}
		s.mu.Lock()
		s.flush(&res.events, s.caller, -1)
		s.mu.Unlock()
	}
	if res.hang == "" {
		res.returned = true
		res.results = <-done
	}
	// let everything run freely, then measure the idle workers
	s.drain()
	if res.hang == "" {
		res.idle = pp.p.VerifIdleWorkers(time.Second, func() { s.setMode(pmRun) })
		if res.idle == pp.W {
			if !s.collectIdle(pp.W) {
				res.idle = -2
			}
		}
	}
	pp.calls++
	return res
}

func jsonResults(r []interface{}) []interface{} {
	out := make([]interface{}, len(r))
	for i, x := range r {
		if x == nil {
			out[i] = nil
		} else {
			out[i] = x.(int)
		}
	}
	return out
}

// one scheduled execution, emitted; returns false when the pool must be replaced
func (c *Ctx) poolExec(pp *ppool, pc pcall, choose func(step, n int) int, tag string) (presult, bool) {
	call := pp.calls
	r := pp.runCall(pc, choose)
	in := J{"kind": pc.kind, "W": pp.W, "n": pc.n, "base": pc.base, "long": pc.long, "call": call, "mode": tag,
		"events": r.events, "returned": r.returned, "results": jsonResults(r.results), "idle": r.idle}
	if r.events == nil {
		in["events"] = []interface{}{}
	}
	var impl interface{} = J{"ok": true}
	good := true
	switch {
	case r.hang != "":
		impl = J{"outcome": "HANG", "detail": r.hang, "schedule": r.choices}
		good = false
	default:
		nilSlot, wrong := false, false
		if len(r.results) != pc.n {
			wrong = true
		}
		for i, x := range r.results {
			if x == nil {
				nilSlot = true
			} else if pc.kind == "par" && x.(int) != pc.base+i {
				wrong = true
			}
		}
		switch {
		case nilSlot:
			impl = J{"outcome": "NIL-RESULT", "idle": r.idle, "W": pp.W, "schedule": r.choices}
			good = false
		case wrong:
			impl = J{"outcome": "WRONG-RESULT", "idle": r.idle, "W": pp.W, "schedule": r.choices}
			good = false
		case r.idle != pp.W:
			impl = J{"outcome": "LOST-WORKER", "idle": r.idle, "W": pp.W, "schedule": r.choices}
			good = false
		}
	}
	c.Emit(pc.kind, in, impl)
	if !good {
		c.Count("pool/failing-" + pc.kind)
	}
	return r, good
}

// exhaustive: all interleavings (all choice vectors) of one call configuration, as consecutive calls on one pool.
// Returns the number of executions and whether the enumeration completed within the budget.
func (c *Ctx) poolExhaustive(W int, pc pcall, budget int, maxFail int) (int, bool) {
	pp := newSchedPool(W)
	defer func() { pp.discard() }()
	var prefix []int
	execs, fails := 0, 0
	for {
		pc.base = 100 * (execs%50 + 1)
		r, good := c.poolExec(pp, pc, func(step, n int) int {
			if step < len(prefix) {
				if prefix[step] < n {
					return prefix[step]
				}
				return n - 1
			}
			return 0
		}, "exhaustive")
		execs++
		if !good {
			fails++
			pp.discard()
			if fails >= maxFail {
				return execs, false
			}
			pp = newSchedPool(W)
		}
		// next choice vector
		p := len(r.choices) - 1
		for p >= 0 && r.choices[p]+1 >= r.counts[p] {
			p--
		}
		if p < 0 {
			return execs, true
		}
		prefix = append(append([]int{}, r.choices[:p]...), r.choices[p]+1)
		if execs >= budget {
			return execs, false
		}
	}
}

func (c *Ctx) poolRandom(W int, calls int, maxFail int) {
	pp := newSchedPool(W)
	defer func() { pp.discard() }()
	fails := 0
	for k := 0; k < calls; k++ {
		pc := pcall{kind: "par", n: c.Intn(2*W + 3), base: 100 * (k%50 + 1), long: c.Intn(8) == 0}
		if c.Intn(3) == 0 {
			pc.kind = "search"
			pc.n = c.Intn(4)
			pc.maxNil = c.Intn(6)
		}
		_, good := c.poolExec(pp, pc, func(step, n int) int { return c.Intn(n) }, "random")
		if !good {
			fails++
			pp.discard()
			if fails >= maxFail {
				return
			}
			pp = newSchedPool(W)
		}
	}
}

// stress: no scheduler, hooks (if any) pass through. W workers × n tasks × calls, with a watchdog.
func (c *Ctx) poolStress(W, n, calls int, dur string) {
	curSched.Store((*psched)(nil))
	p := pool.NewPool(W)
	var prog int64
	var bad int64 = -1
	fin := make(chan struct{})
	go func() {
		defer close(fin)
		for k := 0; k < calls; k++ {
			base := k * 16
			r := p.Parallelize(n, func(i int) interface{} {
				if dur == "mixed" && (i+k)%5 == 0 {
					time.Sleep(time.Duration((i*37+k)%150) * time.Microsecond)
				}
				return base + i
			})
			for i, x := range r {
				if x == nil || x.(int) != base+i {
					atomic.CompareAndSwapInt64(&bad, -1, int64(k))
				}
			}
			if k%4 == 3 {
				var cnt int64
				s := p.Search(2, func() interface{} {
					if atomic.AddInt64(&cnt, 1)%3 == 0 {
						return nil
					}
					return int(atomic.LoadInt64(&cnt))
				})
				if len(s) != 2 || s[0] == nil || s[1] == nil {
					atomic.CompareAndSwapInt64(&bad, -1, int64(k))
				}
			}
			atomic.AddInt64(&prog, 1)
		}
	}()
	in := J{"W": W, "n": n, "calls": calls, "dur": dur}
	last := int64(-1)
	for {
		select {
		case <-fin:
			idle := p.VerifIdleWorkers(time.Second, nil)
			switch {
			case atomic.LoadInt64(&bad) >= 0:
				c.Emit("stress", in, J{"outcome": "NIL-RESULT", "firstBadCall": atomic.LoadInt64(&bad), "idle": idle})
			case idle != W:
				c.Emit("stress", in, J{"outcome": "LOST-WORKER", "idle": idle, "W": W, "afterCalls": calls})
			default:
				c.Emit("stress", in, J{"ok": true})
			}
			p.TearDown()
			return
		case <-time.After(3 * time.Second):
			v := atomic.LoadInt64(&prog)
			if v == last {
				c.Emit("stress", in, J{"outcome": "HANG", "detail": "no progress for 3 s: every worker of the pool is blocked in a notification send of an earlier call", "afterCalls": v})
				return
			}
			last = v
		}
	}
}

// nil pool: same results on the calling goroutine (compared exactly with the model's loops)
func (c *Ctx) poolNil(k int) {
	var np *pool.Pool
	n := c.Intn(7)
	base := c.Intn(1000)
	r := np.Parallelize(n, func(i int) interface{} { return base + i })
	c.Emit("nilpar", J{"n": n, "base": base}, J{"results": jsonResults(r)})
	m := c.Intn(4)
	answers := []interface{}{}
	succ := 0
	for succ < m || c.Intn(3) != 0 {
		if c.Intn(2) == 0 {
			answers = append(answers, nil)
		} else {
			succ++
			answers = append(answers, 1+c.Intn(1000))
		}
		if len(answers) > 40 {
			break
		}
	}
	for succ < m {
		succ++
		answers = append(answers, 1+c.Intn(1000))
	}
	pos := 0
	s := np.Search(m, func() interface{} {
		a := answers[pos]
		pos++
		return a
	})
	c.Emit("nilsearch", J{"n": m, "answers": answers}, J{"results": jsonResults(s)})
}

// default-sized pools (NewPool(0), NewPool(-1)) under every CPU allowance from 1 up: the pool must have at least one
// worker, Parallelize must return [f(0..n-1)] and Search n non-nil results - also when the process may use ONE CPU
func (c *Ctx) poolDefault() {
	old := runtime.GOMAXPROCS(0)
	defer runtime.GOMAXPROCS(old)
	for _, procs := range []int{1, 2, 3, old} {
		for _, arg := range []int{0, -1} {
			runtime.GOMAXPROCS(procs)
			n := 1 + c.Intn(6)
			base := c.Intn(1000)
			type out struct {
				par    []interface{}
				search []interface{}
			}
			done := make(chan out, 1)
			go func() {
				p := pool.NewPool(arg)
				defer p.TearDown()
				var o out
				o.par = p.Parallelize(n, func(i int) interface{} { return base + i })
				var ctr int64
				o.search = p.Search(n, func() interface{} { return int(atomic.AddInt64(&ctr, 1)) })
				done <- o
			}()
			in := J{"procs": procs, "arg": arg, "n": n, "base": base}
			select {
			case o := <-done:
				nonnil := 0
				for _, x := range o.search {
					if x != nil {
						nonnil++
					}
				}
				c.Emit("defaultpool", in, J{"returned": true, "results": jsonResults(o.par), "searchLen": len(o.search), "searchNonNil": nonnil})
			case <-time.After(5 * time.Second):
				c.Emit("defaultpool", in, J{"outcome": "HANG", "detail": "a default-sized pool did not finish Parallelize + Search within 5 s"})
			}
		}
	}
}

// overlapReader: a deterministic random stream that is NOT safe for concurrent use and notices when two Read calls
// overlap. Each Read hands out the next block (a safe Blum prime of the fixture, so the search that reads it ends at once).
type overlapReader struct {
	blocks  [][]byte
	next    int
	active  int32
	overlap int32
	mu      sync.Mutex
	served  []int
}

func (r *overlapReader) Read(p []byte) (int, error) {
	if atomic.AddInt32(&r.active, 1) > 1 {
		atomic.StoreInt32(&r.overlap, 1)
	}
	time.Sleep(3 * time.Millisecond) // a slow source: concurrent callers are inside Read together unless serialised
	r.mu.Lock()
	i := r.next % len(r.blocks)
	r.next++
	r.served = append(r.served, i)
	n := copy(p, r.blocks[i])
	r.mu.Unlock()
	atomic.AddInt32(&r.active, -1)
	return n, nil
}

// sample.Paillier draws its two primes through pool.Search from ONE caller-supplied reader: whatever the interleaving of the
// workers, their reads must be serialised (pool.LockedReader), so a reader that is not safe for concurrent use sees no
// overlapping calls and the two primes come from two different blocks of the stream
func (c *Ctx) poolPrimeSearch() {
	installPrimeHook(0)
	sample.PaillierPrimeHook = nil
	for _, W := range []int{2, 4, 8} {
		start := c.Intn(len(fixturePrimes))
		rd := &overlapReader{}
		for k := 0; k < 24; k++ {
			rd.blocks = append(rd.blocks, fixturePrimes[(start+k)%len(fixturePrimes)].Bytes())
		}
		in := J{"W": W, "start": start}
		type out struct{ p, q string }
		done := make(chan out, 1)
		go func() {
			pl := pool.NewPool(W)
			defer pl.TearDown()
			p, q := sample.Paillier(rd, pl)
			done <- out{hx(p.Bytes()), hx(q.Bytes())}
		}()
		select {
		case o := <-done:
			from := 0
			for _, b := range rd.blocks {
				if hx(b) == o.p || hx(b) == o.q {
					from++
				}
			}
			c.Emit("primesearch", in, J{"overlap": atomic.LoadInt32(&rd.overlap) == 1, "distinct": o.p != o.q, "fromStream": from == 2})
		case <-time.After(60 * time.Second):
			c.Emit("primesearch", in, J{"outcome": "HANG", "detail": "sample.Paillier did not return within 60 s on a stream of safe primes"})
		}
	}
}

func init() {
	register("pool", func(c *Ctx) {
		thorough := c.Tier == "thorough"
		// 0. default-sized pools; the prime search through the pool
		c.poolDefault()
		c.poolPrimeSearch()
		// 1. nil pool
		for k := 0; k < 40; k++ {
			c.poolNil(k)
		}
		// 2. scheduled exploration through the hooks
		if poolSetYield == nil {
			c.Emit("hooks", J{}, J{"present": false, "note": "pkg/pool has no yield hooks (hooks/pool_hooks.diff not applied): interleavings cannot be driven"})
		} else {
			c.Emit("hooks", J{}, J{"present": true})
			poolSetYield(poolHook)
			maxW := 2
			if thorough {
				maxW = 3
			}
			for W := 1; W <= maxW; W++ {
				for n := 0; n <= maxW; n++ {
					for _, kind := range []string{"par", "search"} {
						// Search: the number of interleavings explodes with the oracle's nil answers; one nil answer
						// per call where the whole space still fits the tier, none otherwise
						pc := pcall{kind: kind, n: n, maxNil: 1}
						budget := 20000
						if thorough {
							budget = 300000
						}
						if kind == "search" {
							switch {
							case W == 2 && n == 2 && !thorough, W == 2 && n == 3, W == 3:
								pc.maxNil = 0
							}
							if W == 3 && n > 0 {
								budget = 30000 // 33 million interleavings already for n = 1: a DFS prefix, random schedules below
							}
						}
						ex, complete := c.poolExhaustive(W, pc, budget, 3)
						key := fmt.Sprintf("pool/exhaustive-%s-W%d-n%d", kind, W, n)
						c.Stats[key] = ex
						if complete {
							c.Stats[key+"-complete"] = 1
							// all interleavings were enumerated: their number must be the model's number of maximal schedules
							c.Emit("count", J{"kind": kind, "W": W, "n": n, "maxNil": pc.maxNil}, J{"paths": ex})
						}
					}
				}
			}
			// long tasks along all interleavings of a small configuration
			c.poolExhaustive(2, pcall{kind: "par", n: 2, long: true}, 300, 3)
			// random schedules beyond, hundreds of consecutive calls on one pool
			for _, W := range []int{3, 4, 8} {
				c.poolRandom(W, c.N, 3)
			}
			curSched.Store((*psched)(nil))
			poolSetYield(nil)
		}
		// 3. plain stress, no scheduler
		calls := 30000
		if thorough {
			calls = 300000
		}
		c.poolStress(8, 8, calls, "zero")
		c.poolStress(4, 16, calls/10, "mixed")
		c.poolStress(1, 1, calls, "zero")
	})
}
