package main

import (
	"crypto/rand"
	"fmt"
	"os"

	"github.com/taurusgroup/multi-party-sig/pkg/math/sample"
	"github.com/taurusgroup/multi-party-sig/pkg/pool"
)

// `genprimes` is not a check: it (re)creates fixtures/safeprimes.txt with the library's own sampler.
func init() {
	register("genprimes", func(c *Ctx) {
		pl := pool.NewPool(0)
		defer pl.TearDown()
		for i := 0; i < c.N; i++ {
			p, q := sample.Paillier(rand.Reader, pl)
			fmt.Fprintf(os.Stderr, "%s\n%s\n", p.Hex(), q.Hex())
		}
	})
}
