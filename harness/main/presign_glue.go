//go:build verif

package main

import (
	"github.com/taurusgroup/multi-party-sig/pkg/party"
	"github.com/taurusgroup/multi-party-sig/pkg/protocol"
	"github.com/taurusgroup/multi-party-sig/protocols/cmp"
	"github.com/taurusgroup/multi-party-sig/protocols/cmp/presign"
)

// presignFull: the "full" variant (presign and sign in one session)
func presignFull(cfg *cmp.Config, signers []party.ID, msg []byte) protocol.StartFunc {
	return presign.StartPresign(cfg, signers, msg, nil)
}

func presignDeviate(st protocol.StartFunc, kind string) protocol.StartFunc {
	return protocol.StartFunc(presign.VerifDeviate(st, kind))
}
