//go:build verif

package main

// Suite `sess-deviate` (C14, C08, C05): two deviations that need the deviating party's own state (white-box overlays /
// a crafted config), each judged by the Lean side on the honest parties' outcome:
//
//   - FROST key generation in which one party commits to and reveals a chain-key contribution of the WRONG LENGTH
//     (31, 1, 33 or 64 bytes; commitment and opening consistent): the honest parties must refuse it naming that party -
//     in particular they must not panic in round 3 - or end with an agreed 32-byte chain key (op `tamper`).
//   - Doerner refresh in which the Sender enters with a secret share shifted by a scalar of its choice (a valid Schnorr
//     proof for the shifted public share): the honest Receiver refuses, or keeps the group public key (op `keykept`).

import (
	"fmt"

	"github.com/taurusgroup/multi-party-sig/pkg/party"
	"github.com/taurusgroup/multi-party-sig/pkg/protocol"
	"github.com/taurusgroup/multi-party-sig/protocols/doerner"
	"github.com/taurusgroup/multi-party-sig/protocols/frost"
	frostkeygen "github.com/taurusgroup/multi-party-sig/protocols/frost/keygen"
)

func frostShortChainKey(c *Ctx, kind string, nbytes int) {
	n := 3 + c.Intn(2)
	t := 1 + c.Intn(n-1)
	ids := genIDs(c, n)
	cheater := ids[c.Intn(n)]
	sid := c.Bytes(8)
	hs := map[party.ID]protocol.Handler{}
	for _, id := range ids {
		var st protocol.StartFunc
		if kind == "frost" {
			st = frost.Keygen(secp, id, ids, t)
		} else {
			st = frost.KeygenTaproot(id, ids, t)
		}
		if id == cheater {
			st = frostkeygen.VerifShortChainKeyStart(st, nbytes)
		}
		h, err := protocol.NewMultiHandler(st, sid)
		if err != nil {
			return
		}
		hs[id] = h
	}
	res := runSessions(c, hs, randOrder(c), nil)
	honest := []party.ID{}
	parties := []J{}
	for _, id := range ids {
		if id == cheater {
			continue
		}
		honest = append(honest, id)
		switch v := res.Results[id].(type) {
		case *frost.Config:
			parties = append(parties, frostCfgJ(v))
		case *frost.TaprootConfig:
			parties = append(parties, taprootCfgJ(v))
		}
	}
	in := J{"phase": "keygen", "kind": kind, "n": n, "t": t, "ids": idsHex(ids), "cheater": hx([]byte(cheater)),
		"tampering": []string{fmt.Sprintf("the party's chain-key contribution has %d bytes (commitment and opening consistent with it)", nbytes)},
		"parties": parties, "blame": culpritsJ(res, honest), "honest": idsHex(honest), "expect_named": true, "expect_no_result": true}
	var impl interface{} = J{"ok": true}
	if res.Panic != "" {
		impl = J{"outcome": "PANIC", "detail": res.Panic}
	}
	c.Emit("tamper", in, impl)
	c.Count(fmt.Sprintf("sess/deviate/short-chainkey/%s/%d", kind, nbytes))
}

func doernerPair(c *Ctx, ids []party.ID, r, s protocol.StartFunc, sid []byte) (sessionResult, bool) {
	hr, err1 := protocol.NewTwoPartyHandler(r, sid, true)
	hsn, err2 := protocol.NewTwoPartyHandler(s, sid, false)
	if err1 != nil || err2 != nil {
		return sessionResult{}, false
	}
	return runSessions(c, map[party.ID]protocol.Handler{ids[0]: hr, ids[1]: hsn}, "fifo", nil), true
}

func doernerShiftedSenderRefresh(c *Ctx) {
	ids := genIDs(c, 2)
	recv, send := ids[0], ids[1]
	pair := []party.ID{recv, send}
	res, ok := doernerPair(c, pair, doerner.Keygen(secp, true, recv, send, nil), doerner.Keygen(secp, false, send, recv, nil), c.Bytes(8))
	cr, ok1 := res.Results[recv].(*doerner.ConfigReceiver)
	cs, ok2 := res.Results[send].(*doerner.ConfigSender)
	if !ok || !ok1 || !ok2 {
		c.Emit("keykept", J{"stage": "keygen", "errors": errsJ(res)}, J{"ok": true})
		return
	}
	if c.Intn(2) == 0 { // an honest refresh first
		res, ok = doernerPair(c, pair, doerner.RefreshReceiver(cr, recv, send, nil), doerner.RefreshSender(cs, send, recv, nil), c.Bytes(8))
		cr1, ok1 := res.Results[recv].(*doerner.ConfigReceiver)
		cs1, ok2 := res.Results[send].(*doerner.ConfigSender)
		if !ok || !ok1 || !ok2 {
			c.Emit("keykept", J{"stage": "honest refresh", "errors": errsJ(res)}, J{"ok": true})
			return
		}
		cr, cs = cr1, cs1
	}
	shift := c.randScalar()
	cheating := &doerner.ConfigSender{Setup: cs.Setup, SecretShare: secp.NewScalar().Set(cs.SecretShare).Add(shift), Public: cs.Public, ChainKey: cs.ChainKey}
	res, ok = doernerPair(c, pair, doerner.RefreshReceiver(cr, recv, send, nil), doerner.RefreshSender(cheating, send, recv, nil), c.Bytes(8))
	in := J{"stage": "refresh with a shifted sender share", "old_pub": ptHex(cr.Public), "new_pub": nil, "started": ok, "errors": errsJ(res)}
	if v, isCfg := res.Results[recv].(*doerner.ConfigReceiver); isCfg {
		in["new_pub"] = ptHex(v.Public)
	}
	var impl interface{} = J{"ok": true}
	if res.Panic != "" {
		impl = J{"outcome": "PANIC", "detail": res.Panic}
	}
	c.Emit("keykept", in, impl)
	c.Count("sess/deviate/doerner-shifted-sender")
}

func init() {
	register("sess-deviate", func(c *Ctx) {
		seedCryptoRand(c.Seed*7919 + 4242)
		defer restoreCryptoRand()
		lens := []int{31, 1, 33, 64}
		for i := 0; i < 4+c.N/4; i++ {
			frostShortChainKey(c, []string{"frost", "frost-taproot"}[i%2], lens[(i/2)%len(lens)])
		}
		for i := 0; i < 2+c.N/8; i++ {
			doernerShiftedSenderRefresh(c)
		}
	})
}
