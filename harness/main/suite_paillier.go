//go:build verif

package main

// Suite `paillier` (property C12): bit-exact differential Go vs Lean on
//   EncWithNonce / Dec / DecWithRandomness / Add / Mul / ValidateCiphertexts / arith.Modulus.Exp / ExpI
// over the boundary lattice of plaintexts, ciphertext candidates around 0, N, N² and multiples of
// p or q, several key pairs; and the MtA share computation (newMta white-box, ProveAffG, ProveAffP
// + receiver decryption).  The Lean side (lean/Mps/Drv/Paillier.lean) is an independent big-integer
// implementation; it also JUDGES α + β = a·b over ℤ and mod q.

import (
	"bufio"
	"bytes"
	crand "crypto/rand"
	"errors"
	"fmt"
	"io"
	"math/big"
	"os"
	"path/filepath"
	"strings"

	"github.com/cronokirby/saferith"
	"github.com/taurusgroup/multi-party-sig/internal/mta"
	"github.com/taurusgroup/multi-party-sig/internal/params"
	"github.com/taurusgroup/multi-party-sig/pkg/hash"
	"github.com/taurusgroup/multi-party-sig/pkg/math/arith"
	"github.com/taurusgroup/multi-party-sig/pkg/math/curve"
	"github.com/taurusgroup/multi-party-sig/pkg/math/sample"
	"github.com/taurusgroup/multi-party-sig/pkg/paillier"
	"github.com/taurusgroup/multi-party-sig/pkg/zk"
	zkaffg "github.com/taurusgroup/multi-party-sig/pkg/zk/affg"
	zkaffp "github.com/taurusgroup/multi-party-sig/pkg/zk/affp"
)

type pkey struct {
	name       string
	p, q       *big.Int
	sk         *paillier.SecretKey
	pkOnly     *paillier.PublicKey // NewPublicKey(N): no factorisation, plain exponentiation
	N, N2, hlf *big.Int            // hlf = (N-1)/2
	phi        *big.Int
}

func plNat(x *big.Int) *saferith.Nat { return new(saferith.Nat).SetBig(x, x.BitLen()) }

func newPKey(name string, p, q *big.Int) *pkey {
	k := &pkey{name: name, p: p, q: q}
	k.sk = paillier.NewSecretKeyFromPrimes(plNat(p), plNat(q))
	k.N = new(big.Int).Mul(p, q)
	k.N2 = new(big.Int).Mul(k.N, k.N)
	k.hlf = new(big.Int).Rsh(k.N, 1)
	k.phi = new(big.Int).Mul(new(big.Int).Sub(p, big.NewInt(1)), new(big.Int).Sub(q, big.NewInt(1)))
	k.pkOnly = paillier.NewPublicKey(saferith.ModulusFromNat(plNat(k.N)))
	return k
}

func (k *pkey) J() J { return J{"p": bighex(k.p), "q": bighex(k.q)} }

func paillierFixturePrimes() []*big.Int {
	dirs := []string{}
	if d := os.Getenv("VERIF_DIR"); d != "" {
		dirs = append(dirs, d)
	}
	if exe, err := os.Executable(); err == nil {
		dirs = append(dirs, filepath.Dir(filepath.Dir(exe))) // <verif>/.build/harness
	}
	dirs = append(dirs, "/verif")
	for _, d := range dirs {
		f, err := os.Open(filepath.Join(d, "fixtures", "safeprimes.txt"))
		if err != nil {
			continue
		}
		defer f.Close()
		var out []*big.Int
		sc := bufio.NewScanner(f)
		sc.Buffer(make([]byte, 1<<16), 1<<16)
		for sc.Scan() {
			l := strings.TrimSpace(sc.Text())
			if l == "" {
				continue
			}
			v, ok := new(big.Int).SetString(l, 16)
			if !ok {
				panic("bad fixture prime")
			}
			out = append(out, v)
		}
		return out
	}
	panic("fixtures/safeprimes.txt not found")
}

func paillierKeys(c *Ctx) []*pkey {
	keys := []*pkey{
		newPKey("zk-prover", zk.ProverPaillierSecret.P().Big(), zk.ProverPaillierSecret.Q().Big()),
		newPKey("zk-verifier", zk.VerifierPaillierSecret.P().Big(), zk.VerifierPaillierSecret.Q().Big()),
	}
	fp := paillierFixturePrimes()
	nfix := 1
	if c.Tier == "thorough" {
		nfix = 6
	}
	start := int(c.Seed) % (len(fp) / 2)
	for i := 0; i < nfix; i++ {
		j := (2*(start+i) + 0) % len(fp)
		keys = append(keys, newPKey(fmt.Sprintf("fixture-%d", j/2), fp[j], fp[(j+1)%len(fp)]))
	}
	return keys
}

// plSInt builds a saferith.Int; the announced size is sometimes larger than the true size.
func plSInt(c *Ctx, x *big.Int) *saferith.Int {
	bits := x.BitLen()
	if c.Intn(4) == 0 {
		bits += 8 * c.Intn(40)
	}
	return new(saferith.Int).SetBig(x, bits)
}

func plSNat(c *Ctx, x *big.Int) *saferith.Nat {
	bits := x.BitLen()
	if c.Intn(4) == 0 {
		bits += 8 * c.Intn(40)
	}
	return new(saferith.Nat).SetBig(x, bits)
}

func plCtOf(c *Ctx, x *big.Int) *paillier.Ciphertext {
	b := x.Bytes()
	if c.Intn(4) == 0 { // leading zero bytes: a larger announced length
		b = append(make([]byte, c.Intn(9)), b...)
	}
	ct := new(paillier.Ciphertext)
	if err := ct.UnmarshalBinary(b); err != nil {
		panic(err)
	}
	return ct
}

func plCtBig(ct *paillier.Ciphertext) *big.Int { return ct.Nat().Big() }

func plRndBelow(c *Ctx, n *big.Int) *big.Int {
	if n.Sign() <= 0 {
		return new(big.Int)
	}
	return new(big.Int).Rand(c.Rng, n)
}

func plRndUnit(c *Ctx, k *pkey) *big.Int {
	for {
		r := plRndBelow(c, k.N)
		if new(big.Int).GCD(nil, nil, r, k.N).Cmp(big.NewInt(1)) == 0 {
			return r
		}
	}
}

func plPow2(k uint) *big.Int { return new(big.Int).Lsh(big.NewInt(1), k) }
func plBi(x int64) *big.Int  { return big.NewInt(x) }
func plAdd(a, b *big.Int) *big.Int { return new(big.Int).Add(a, b) }
func plSub(a, b *big.Int) *big.Int { return new(big.Int).Sub(a, b) }
func plMul(a, b *big.Int) *big.Int { return new(big.Int).Mul(a, b) }
func plNeg(a *big.Int) *big.Int    { return new(big.Int).Neg(a) }

// plaintextLattice: 0, ±1, ±2, ±(N-1)/2, ±((N-1)/2 ∓ 1), ±2^k, ±(N-1), ±N, ±(N+1), random in / just out of range
func plaintextLattice(c *Ctx, k *pkey) []*big.Int {
	h := k.hlf
	base := []*big.Int{plBi(0), plBi(1), plBi(2), h, plSub(h, plBi(1)), plAdd(h, plBi(1)), plAdd(h, plBi(2)),
		plSub(k.N, plBi(1)), k.N, plAdd(k.N, plBi(1)), plMul(k.N, plBi(2)), k.p, k.q}
	for _, e := range []uint{1, 8, 63, 64, 65, 255, 256, 257, 1279, 1280, 1281, 2045, 2046, 2047, 2048, 2049, 4095, 4097} {
		base = append(base, plPow2(e))
	}
	for i := 0; i < 4; i++ {
		base = append(base, plRndBelow(c, plAdd(h, plBi(1))))                       // in range
		base = append(base, plAdd(h, plAdd(plBi(1), plRndBelow(c, plPow2(uint(8*c.Intn(20))))))) // just out of range
		base = append(base, plRndBelow(c, plPow2(uint(1+c.Intn(300)))))
	}
	out := []*big.Int{}
	for _, b := range base {
		out = append(out, b, plNeg(b))
	}
	return out
}

func plInRange(k *pkey, m *big.Int) bool { return new(big.Int).Abs(m).Cmp(k.hlf) <= 0 }

const encRefusal = "paillier.Encrypt: tried to encrypt message outside of range"

// plEncGuard: EncWithNonce with the documented refusal (a panic with the package's message) mapped
// to outcome "refused"; any other panic is a PANIC.
func plEncGuard(pk *paillier.PublicKey, m *saferith.Int, nonce *saferith.Nat) (ct *paillier.Ciphertext, outcome J) {
	defer func() {
		if r := recover(); r != nil {
			if s, ok := r.(string); ok && strings.HasPrefix(s, encRefusal) {
				ct, outcome = nil, J{"outcome": "refused"}
				return
			}
			ct, outcome = nil, J{"outcome": "PANIC", "detail": fmt.Sprint(r)}
		}
	}()
	ct = pk.EncWithNonce(m, nonce)
	return ct, J{"outcome": "ok", "c": bighex(plCtBig(ct))}
}

func plIntSA(x *saferith.Int) (bool, *big.Int) { return x.IsNegative() == 1, x.Abs().Big() }

func plDecJ(sk *paillier.SecretKey, ct *paillier.Ciphertext) (J, *big.Int) {
	var val *big.Int
	r := Guard(func() interface{} {
		m, err := sk.Dec(ct)
		if err != nil {
			return J{"outcome": "err"}
		}
		ng, ab := plIntSA(m)
		val = m.Big()
		return J{"outcome": "ok", "neg": ng, "abs": bighex(ab)}
	})
	return r.(J), val
}

func (k *pkey) pkFor(mode string) *paillier.PublicKey {
	if mode == "pk" {
		return k.pkOnly
	}
	return k.sk.PublicKey
}

func paillierSuite(c *Ctx) {
	keys := paillierKeys(c)
	group := curve.Secp256k1{}
	qOrd := group.Order().Big()
	one := plBi(1)
	modes := []string{"sk", "pk"}
	budget := c.N // number of generated cases per key and category
	thorough := c.Tier == "thorough"
	nk := len(keys)
	// quick tier: every lattice point is covered on one key (rotating), the core boundary points on
	// every key; thorough tier: the full product.
	take := func(i, ki int) bool { return thorough || i%nk == ki }

	for ki, k := range keys {
		c.Count("paillier/key/" + k.name)
		// ---- key derivation (white-box): N, φ, φ⁻¹ mod N, CRT constants
		{
			p1, q1, pinv1, _ := k.sk.Modulus().VerifCRT()
			p2, q2, pinv2, _ := k.sk.ModulusSquared().VerifCRT()
			c.Emit("key", k.J(), J{
				"n": bighex(k.sk.N().Big()), "n2": bighex(k.sk.ModulusSquared().Big()), "phi": bighex(k.sk.Phi().Big()),
				"phiinv": bighex(k.sk.VerifPhiInv().Big()),
				"p1": bighex(p1.Big()), "q1": bighex(q1.Big()), "pinv1": bighex(pinv1.Big()),
				"p2": bighex(p2.Big()), "q2": bighex(q2.Big()), "pinv2": bighex(pinv2.Big()),
				"validn": validateNCode(k.sk.N()),
			})
		}

		// ---- enc / dec / decWithRandomness / re-encryption over the plaintext lattice
		lat := plaintextLattice(c, k)
		for li, m := range lat {
			if li >= 14 && !take(li/2, ki) { // the first 14 = 0, ±1, ±2, ±h, ±(h−1), ±(h+1), ±(h+2)
				continue
			}
			mode := modes[(li+ki)%2]
			var nonce *big.Int
			kind := "unit"
			switch c.Intn(10) {
			case 0:
				nonce, kind = plBi(1), "one"
			case 1:
				nonce, kind = plSub(k.N, one), "n-1"
			case 2:
				nonce, kind = plAdd(k.N, plAdd(one, plRndUnit(c, k))), "unreduced" // ≥ N
				if new(big.Int).GCD(nil, nil, nonce, k.N).Cmp(one) != 0 {
					nonce, kind = plRndUnit(c, k), "unit"
				}
			default:
				nonce = plRndUnit(c, k)
			}
			ct, res := plEncGuard(k.pkFor(mode), plSInt(c, m), plSNat(c, nonce))
			in := J{"key": k.J(), "m": bighex(m), "nonce": bighex(nonce), "mode": mode}
			if ct == nil {
				c.Emit("encdec", in, res)
				c.Count("paillier/enc/" + res["outcome"].(string))
				if plInRange(k, m) {
					c.Count("paillier/enc/REFUSED-IN-RANGE")
				}
				continue
			}
			c.Count("paillier/enc/ok/" + kind)
			dj, dv := plDecJ(k.sk, ct)
			res["dec"] = dj
			res["roundtrip"] = dv != nil && dv.Cmp(m) == 0
			rr := Guard(func() interface{} {
				m2, r, err := k.sk.DecWithRandomness(ct)
				if err != nil {
					return J{"outcome": "err"}
				}
				ct2, o2 := plEncGuard(k.pkFor(mode), m2, r)
				same := ct2 != nil && ct2.Equal(ct)
				return J{"outcome": "ok", "m": bighex(m2.Big()), "r": bighex(r.Big()), "reenc": o2["outcome"], "same": same}
			})
			res["rand"] = rr
			c.Emit("encdec", in, res)
		}

		// ---- refusals must not depend on the nonce or on the announced size; also degenerate nonces
		for i := 0; i < 6; i++ {
			m := []*big.Int{plBi(0), k.hlf, plNeg(k.hlf), plAdd(k.hlf, one), plNeg(plAdd(k.hlf, one)), plRndBelow(c, k.hlf)}[i]
			for ni, nn := range []*big.Int{plBi(0), k.p, plMul(k.q, plBi(3)), k.N} {
				if !thorough && (i+ki)%4 != ni {
					continue
				}
				mode := modes[i%2]
				_, res := plEncGuard(k.pkFor(mode), plSInt(c, m), plSNat(c, nn))
				c.Emit("enc", J{"key": k.J(), "m": bighex(m), "nonce": bighex(nn), "mode": mode}, res)
				c.Count("paillier/enc-degenerate-nonce")
			}
		}

		// ---- homomorphic addition: pairs whose sum is in / just out of range
		h := k.hlf
		pairs := [][2]*big.Int{
			{plBi(0), plBi(0)}, {h, plBi(0)}, {h, one}, {h, plNeg(one)}, {plNeg(h), plNeg(one)}, {plNeg(h), one}, {h, plNeg(h)}, {h, h}, {plNeg(h), plNeg(h)},
			{plSub(h, one), one}, {plSub(h, one), plBi(2)}, {plNeg(plSub(h, one)), plNeg(plBi(2))}, {one, plNeg(one)},
		}
		for i := 0; i < budget; i++ {
			a := plRndBelow(c, plAdd(h, one))
			if c.Intn(2) == 0 {
				a = plNeg(a)
			}
			var b *big.Int
			switch c.Intn(4) {
			case 0: // sum exactly on a boundary or one beyond
				tgt := []*big.Int{h, plNeg(h), plAdd(h, one), plNeg(plAdd(h, one))}[c.Intn(4)]
				b = plSub(tgt, a)
			case 1:
				b = plRndBelow(c, plPow2(uint(1+c.Intn(2047))))
				if c.Intn(2) == 0 {
					b = plNeg(b)
				}
			default:
				b = plRndBelow(c, plAdd(h, one))
				if c.Intn(2) == 0 {
					b = plNeg(b)
				}
			}
			if !plInRange(k, b) {
				continue
			}
			pairs = append(pairs, [2]*big.Int{a, b})
		}
		for pi, pr := range pairs {
			if pi < 13 && !take(pi, ki) {
				continue
			}
			mode := modes[pi%2]
			pk := k.pkFor(mode)
			r1, r2 := plRndUnit(c, k), plRndUnit(c, k)
			res := Guard(func() interface{} {
				c1 := pk.EncWithNonce(plSInt(c, pr[0]), plNat(r1))
				c2 := pk.EncWithNonce(plSInt(c, pr[1]), plNat(r2))
				s := c1.Clone().Add(pk, c2)
				dj, dv := plDecJ(k.sk, s)
				return J{"c": bighex(plCtBig(s)), "dec": dj, "hom": dv != nil && dv.Cmp(plAdd(pr[0], pr[1])) == 0}
			})
			if plInRange(k, plAdd(pr[0], pr[1])) {
				c.Count("paillier/add/in-range")
			} else {
				c.Count("paillier/add/out-of-range")
			}
			c.Emit("add", J{"key": k.J(), "m1": bighex(pr[0]), "r1": bighex(r1), "m2": bighex(pr[1]), "r2": bighex(r2), "mode": mode}, res)
		}

		// ---- scalar multiplication: products in / just out of range, signed scalars
		mpairs := [][2]*big.Int{
			{plBi(0), plBi(0)}, {plBi(0), plBi(5)}, {plBi(7), plBi(0)}, {h, one}, {h, plNeg(one)}, {plNeg(h), plNeg(one)}, {h, plBi(2)}, {h, plNeg(plBi(2))},
			{one, h}, {one, plNeg(h)}, {one, plAdd(h, one)}, {plNeg(one), plAdd(h, one)}, {plBi(2), h}, {one, k.N}, {one, plNeg(k.N)}, {plBi(3), k.phi},
			{plSub(qOrd, one), plSub(qOrd, one)}, {plSub(qOrd, one), plNeg(plSub(qOrd, one))},
		}
		for i := 0; i < budget; i++ {
			var m, s *big.Int
			switch c.Intn(4) {
			case 0: // |m·s| around (N-1)/2:  s small, m ≈ h/s
				s = plAdd(plBi(2), plRndBelow(c, plPow2(uint(1+c.Intn(200)))))
				m = new(big.Int).Div(h, s)
				m = plAdd(m, plBi(int64(c.Intn(3)-1)))
			case 1:
				m = plRndBelow(c, qOrd)
				s = plRndBelow(c, qOrd)
			case 2:
				m = plRndBelow(c, plPow2(uint(1+c.Intn(1024))))
				s = plRndBelow(c, plPow2(uint(1+c.Intn(1030))))
			default:
				m = plRndBelow(c, plAdd(h, one))
				s = plBi(int64(c.Intn(5) - 2))
			}
			if c.Intn(2) == 0 {
				m = plNeg(m)
			}
			if c.Intn(2) == 0 {
				s = plNeg(s)
			}
			if !plInRange(k, m) {
				continue
			}
			mpairs = append(mpairs, [2]*big.Int{m, s})
		}
		for pi, pr := range mpairs {
			if pi < 18 && !take(pi, ki) {
				continue
			}
			mode := modes[pi%2]
			pk := k.pkFor(mode)
			r1 := plRndUnit(c, k)
			res := Guard(func() interface{} {
				c1 := pk.EncWithNonce(plSInt(c, pr[0]), plNat(r1))
				s := c1.Clone().Mul(pk, plSInt(c, pr[1]))
				dj, dv := plDecJ(k.sk, s)
				return J{"c": bighex(plCtBig(s)), "dec": dj, "hom": dv != nil && dv.Cmp(plMul(pr[0], pr[1])) == 0}
			})
			if plInRange(k, plMul(pr[0], pr[1])) {
				c.Count("paillier/mul/in-range")
			} else {
				c.Count("paillier/mul/out-of-range")
			}
			c.Emit("mul", J{"key": k.J(), "m": bighex(pr[0]), "r": bighex(r1), "k": bighex(pr[1]), "mode": mode}, res)
		}

		// ---- ciphertext validation / decryption of arbitrary candidates
		cands := []*big.Int{plBi(0), one, plBi(2), plSub(k.N, one), k.N, plAdd(k.N, one), plSub(k.N2, one), k.N2, plAdd(k.N2, one),
			plMul(k.N2, plBi(2)), plAdd(plMul(k.N2, plBi(2)), one), k.p, k.q, plMul(k.p, k.p), plMul(k.q, k.q), plMul(k.p, k.N), plSub(k.N2, k.p), plSub(k.N2, k.q),
			plSub(k.N2, k.N), plPow2(4095), plPow2(4096), plAdd(plPow2(4096), one), plSub(k.N2, plBi(2))}
		for i := 0; i < 2*budget; i++ {
			var x *big.Int
			switch c.Intn(8) {
			case 0:
				x = plMul(k.p, plRndBelow(c, plMul(k.q, k.N)))
			case 1:
				x = plMul(k.q, plRndBelow(c, plMul(k.p, k.N)))
			case 2:
				x = plAdd(k.N2, plRndBelow(c, plPow2(uint(1+c.Intn(4000)))))
			case 3:
				x = plMul(k.N, plRndBelow(c, k.N))
			case 4:
				x = plRndBelow(c, plPow2(uint(1+c.Intn(4096))))
			default:
				x = plRndBelow(c, k.N2)
			}
			cands = append(cands, x)
		}
		for ci, x := range cands {
			mode := modes[ci%2]
			ct := plCtOf(c, x)
			ok := Guard(func() interface{} { return J{"ok": k.pkFor(mode).ValidateCiphertexts(ct)} })
			c.Emit("validate", J{"key": k.J(), "c": bighex(x), "mode": mode}, ok)
			if o, _ := ok.(J)["ok"].(bool); o {
				c.Count("paillier/validate/accepted")
			} else {
				c.Count("paillier/validate/rejected")
			}
			if (ci%3 == 0 && take(ci/3, ki)) || (ci < 23 && thorough) {
				// Dec / DecWithRandomness of the candidate (valid ones: every unit below N² is an encryption)
				rr := Guard(func() interface{} {
					m2, r, err := k.sk.DecWithRandomness(ct)
					if err != nil {
						return J{"outcome": "err"}
					}
					ng, ab := plIntSA(m2)
					ct2, o2 := plEncGuard(k.sk.PublicKey, m2, r)
					same := ct2 != nil && ct2.Equal(ct)
					return J{"outcome": "ok", "neg": ng, "abs": bighex(ab), "r": bighex(r.Big()), "reenc": o2["outcome"], "same": same}
				})
				c.Emit("decrand", J{"key": k.J(), "c": bighex(x)}, rr)
			}
		}
		c.Emit("validate_nil", J{"key": k.J()}, Guard(func() interface{} { return J{"ok": k.sk.ValidateCiphertexts(nil)} }))
		// batches (the protocols validate several ciphertexts in one call): valid exactly when EVERY member is, whatever its position
		for bi := 0; bi < len(cands) && bi < 23+budget; bi++ {
			x := cands[bi]
			good1, good2 := plRndBelow(c, k.N2), plBi(1)
			var batch []*big.Int
			switch bi % 4 {
			case 0:
				batch = []*big.Int{x, good1}
			case 1:
				batch = []*big.Int{good1, x}
			case 2:
				batch = []*big.Int{x, good1, good2}
			default:
				batch = []*big.Int{good2, x, good1}
			}
			mode := modes[bi%2]
			cts := make([]*paillier.Ciphertext, len(batch))
			hexes := make([]string, len(batch))
			for i, b := range batch {
				cts[i] = plCtOf(c, b)
				hexes[i] = bighex(b)
			}
			c.Emit("validate_batch", J{"key": k.J(), "cs": hexes, "mode": mode},
				Guard(func() interface{} { return J{"ok": k.pkFor(mode).ValidateCiphertexts(cts...)} }))
		}

		// ---- arith.Modulus.Exp / ExpI: CRT against plain, both against the model
		for _, sq := range []bool{false, true} {
			P, Q := k.p, k.q
			if sq {
				P, Q = plMul(k.p, k.p), plMul(k.q, k.q)
			}
			n := plMul(P, Q)
			mCRT := arith.ModulusFromFactors(plNat(P), plNat(Q))
			mPlain := arith.ModulusFromN(saferith.ModulusFromNat(plNat(n)))
			xs := []*big.Int{plBi(0), one, plBi(2), k.p, k.q, P, Q, plSub(n, one), n, plAdd(n, one), plAdd(k.N, one), plMul(k.p, plBi(6))}
			es := []*big.Int{plBi(0), one, plBi(2), plBi(3), k.phi, k.N, plSub(k.N, one), plPow2(64), plPow2(2048)}
			type xe struct{ x, e *big.Int }
			cases := []xe{}
			for xi, x := range xs {
				for ei, e := range es[:5] {
					if thorough || (xi+ki)%5 == ei {
						cases = append(cases, xe{x, e}, xe{x, plNeg(e)})
					}
				}
			}
			for ei, e := range es {
				if take(ei, ki) {
					cases = append(cases, xe{plRndBelow(c, n), e}, xe{plRndBelow(c, n), plNeg(e)})
				}
			}
			for i := 0; i < budget; i++ {
				x := plRndBelow(c, n)
				switch c.Intn(6) {
				case 0:
					x = plMul(k.p, plRndBelow(c, k.q))
				case 1:
					x = plAdd(n, plRndBelow(c, n))
				}
				e := plRndBelow(c, plPow2(uint(1+c.Intn(2100))))
				if c.Intn(2) == 0 {
					e = plNeg(e)
				}
				cases = append(cases, xe{x, e})
			}
			for _, t := range cases {
				unit := new(big.Int).GCD(nil, nil, new(big.Int).Mod(t.x, n), n).Cmp(one) == 0
				in := J{"p": bighex(P), "q": bighex(Q), "x": bighex(t.x), "e": bighex(t.e)}
				if t.e.Sign() >= 0 {
					res := Guard(func() interface{} {
						a := mCRT.Exp(plNat(t.x), plNat(t.e))
						b := mPlain.Exp(plNat(t.x), plNat(t.e))
						return J{"crt": bighex(a.Big()), "plain": bighex(b.Big())}
					})
					c.Emit("exp", in, res)
					continue
				}
				ei := new(saferith.Int).SetBig(t.e, t.e.BitLen())
				var a, b *big.Int
				res := Guard(func() interface{} {
					a = mCRT.ExpI(plNat(t.x), ei).Big()
					b = mPlain.ExpI(plNat(t.x), ei).Big()
					return J{"crt": bighex(a), "plain": bighex(b)}
				})
				if unit {
					c.Emit("expi", in, res)
					c.Count("paillier/expi/unit")
				} else {
					// saferith leaves ModInverse of a non-unit unspecified: the model only judges
					// that both code paths agree and that the value is below the modulus.
					c.Count("paillier/expi/non-unit")
					if j, ok := res.(J); ok && a != nil {
						in["crt"], in["plain"] = j["crt"], j["plain"]
						// observed: saferith returns v with y·v ≡ gcd(y, n) (mod n) for y = x^|e|
						y := new(big.Int).Exp(t.x, new(big.Int).Abs(t.e), n)
						g := new(big.Int).GCD(nil, nil, y, n)
						yv := new(big.Int).Mod(plMul(y, a), n)
						// claims (judged by the Lean side on the observation) + Go's own evaluation
						res = J{"agree": true, "reduced": true, "bezout": true,
							"go": a.Cmp(b) == 0 && a.Cmp(n) < 0 && yv.Cmp(g.Mod(g, n)) == 0}
					}
					c.Emit("expi_nonunit", in, res)
				}
			}
		}
	}

	// ---- paillier.ValidateN: bit length exactly BitsPaillier and odd
	{
		N := keys[0].N
		for _, n := range []*big.Int{N, plAdd(N, one), plSub(N, one), new(big.Int).Rsh(N, 1), new(big.Int).Lsh(N, 1), plAdd(new(big.Int).Lsh(N, 1), one),
			plPow2(2047), plAdd(plPow2(2047), one), plSub(plPow2(2048), one), plPow2(2048), plAdd(plPow2(2048), one), plSub(plPow2(2047), one), plBi(3), plBi(1)} {
			c.Emit("validaten", J{"n": bighex(n)}, Guard(func() interface{} {
				return J{"code": validateNCode(saferith.ModulusFromNat(plNat(n)))}
			}))
		}
		c.Emit("validaten_nil", J{}, Guard(func() interface{} { return J{"code": validateNCode(nil)} }))
	}

	// ---- sample.sampleNeg (IntervalLPrime etc.) on supplied bytes
	for i := 0; i < 12; i++ {
		buf := c.Bytes(params.LPrime/8 + 1)
		switch i {
		case 0:
			for j := range buf {
				buf[j] = 0xff
			}
		case 1:
			for j := range buf {
				buf[j] = 0xff
			}
			buf[0] = 0xfe
		case 2:
			for j := range buf {
				buf[j] = 0
			}
		case 3:
			for j := range buf {
				buf[j] = 0
			}
			buf[0] = 1
		}
		v := sample.IntervalLPrime(bytes.NewReader(buf))
		ng, ab := plIntSA(v)
		c.Emit("sampleneg", J{"buf": hx(buf), "bits": params.LPrime}, J{"neg": ng, "abs": bighex(ab), "inrange": true})
	}

	// ---- MtA
	old := crand.Reader
	defer func() { crand.Reader = old }()
	scalarLattice := func() []*big.Int {
		return []*big.Int{plBi(0), one, plBi(2), plSub(qOrd, one), plSub(qOrd, plBi(2)), plRndBelow(c, qOrd), plRndBelow(c, qOrd), plPow2(255), plRndBelow(c, plPow2(128))}
	}
	nm := len(keys)
	type ab struct{ a, b *big.Int }
	var sc []ab
	la, lb := scalarLattice(), scalarLattice()
	for _, a := range la[:6] {
		for _, b := range lb[:6] {
			sc = append(sc, ab{a, b})
		}
	}
	for i := 0; i < c.N; i++ {
		sc = append(sc, ab{plRndBelow(c, qOrd), plRndBelow(c, qOrd)})
	}
	betaBytes := func(i int) []byte {
		buf := c.Bytes(params.LPrime/8 + 1)
		switch i % 5 {
		case 0: // β′ = −(2^LPrime − 1)
			for j := range buf {
				buf[j] = 0xff
			}
		case 1: // β′ = +(2^LPrime − 1)
			for j := range buf {
				buf[j] = 0xff
			}
			buf[0] = 0xfe
		case 2: // β′ = −0
			for j := range buf {
				buf[j] = 0
			}
			buf[0] = 1
		}
		return buf
	}
	scalarOf := func(x *big.Int) curve.Scalar { return group.NewScalar().SetNat(plNat(x)) }
	for i, t := range sc {
		snd, rcv := keys[i%nm], keys[(i+1+i/nm)%nm]
		if snd == rcv {
			rcv = keys[(i+1)%nm]
		}
		aS, bS := scalarOf(t.a), scalarOf(t.b)
		aI, bI := curve.MakeInt(aS), curve.MakeInt(bS)
		bNonce := plRndUnit(c, rcv)
		B := rcv.sk.PublicKey.EncWithNonce(bI, plNat(bNonce))
		in := J{"sender": snd.J(), "receiver": rcv.J(), "a": bighex(aI.Big()), "b": bighex(bI.Big()), "bnonce": bighex(bNonce), "q": bighex(qOrd)}
		judge := func(D, F *paillier.Ciphertext, beta *big.Int) J {
			out := J{}
			alpha, err := rcv.sk.Dec(D)
			if err != nil {
				return J{"outcome": "err"}
			}
			out["alpha"] = bighex(alpha.Big())
			fd, err := snd.sk.Dec(F)
			if err != nil {
				return J{"outcome": "err-f"}
			}
			out["fdec"] = bighex(fd.Big())
			sum := plAdd(alpha.Big(), beta)
			prod := plMul(t.a, t.b)
			// CLAIMS of the property (the Lean side evaluates them on the observation) ...
			out["exact"], out["exactq"], out["fok"] = true, true, true
			// ... and Go's own evaluation of the same identities (the Lean side answers `true`)
			out["go_exact"] = sum.Cmp(prod) == 0
			// what the protocol does with the shares: reduce each mod q
			aq := group.NewScalar().SetNat(alpha.Mod(group.Order()))
			bq := group.NewScalar().SetNat(new(saferith.Int).SetBig(beta, beta.BitLen()).Mod(group.Order()))
			out["go_exactq"] = aq.Add(bq).Equal(group.NewScalar().Set(aS).Mul(bS))
			out["go_fok"] = fd.Big().Cmp(plNeg(beta)) == 0
			return out
		}
		switch i % 3 {
		case 0: // newMta white-box: all sampled values are observed, the model recomputes D and F bit-exactly
			crand.Reader = io.MultiReader(bytes.NewReader(betaBytes(i/3)), c.Rng)
			var res interface{}
			res = Guard(func() interface{} {
				D, F, S, R, BetaNeg := mta.VerifNewMta(aI, B, snd.sk, rcv.sk.PublicKey)
				in["betaneg"], in["s"], in["r"] = bighex(BetaNeg.Big()), bighex(S.Big()), bighex(R.Big())
				beta := plNeg(BetaNeg.Big())
				out := judge(D, F, beta)
				out["d"], out["f"], out["beta"] = bighex(plCtBig(D)), bighex(plCtBig(F)), bighex(beta)
				return out
			})
			c.Emit("mta_new", in, res)
		case 1:
			crand.Reader = io.MultiReader(bytes.NewReader(betaBytes(i/3)), c.Rng)
			res := Guard(func() interface{} {
				A := aS.ActOnBase()
				Beta, D, F, proof := mta.ProveAffG(group, hash.New(), aI, A, B, snd.sk, rcv.sk.PublicKey, zk.Pedersen)
				in["beta"], in["d"], in["f"] = bighex(Beta.Big()), bighex(plCtBig(D)), bighex(plCtBig(F))
				if proof.Verify(hash.New(), zkaffg.Public{Kv: B, Dv: D, Fp: F, Xp: A, Prover: snd.sk.PublicKey, Verifier: rcv.sk.PublicKey, Aux: zk.Pedersen}) {
					c.Count("paillier/mta/affg-proof-verified")
				} else {
					c.Count("paillier/mta/affg-proof-REJECTED")
				}
				return judge(D, F, Beta.Big())
			})
			c.Emit("mta_affg", in, res)
		default:
			crand.Reader = io.MultiReader(bytes.NewReader(betaBytes(i/3)), c.Rng)
			res := Guard(func() interface{} {
				aNonce := plRndUnit(c, snd)
				A := snd.sk.PublicKey.EncWithNonce(aI, plNat(aNonce))
				Beta, D, F, proof := mta.ProveAffP(group, hash.New(), aI, A, plNat(aNonce), B, snd.sk, rcv.sk.PublicKey, zk.Pedersen)
				in["beta"], in["d"], in["f"] = bighex(Beta.Big()), bighex(plCtBig(D)), bighex(plCtBig(F))
				if proof.Verify(group, hash.New(), zkaffp.Public{Kv: B, Dv: D, Fp: F, Xp: A, Prover: snd.sk.PublicKey, Verifier: rcv.sk.PublicKey, Aux: zk.Pedersen}) {
					c.Count("paillier/mta/affp-proof-verified")
				} else {
					c.Count("paillier/mta/affp-proof-REJECTED")
				}
				return judge(D, F, Beta.Big())
			})
			c.Emit("mta_affp", in, res)
		}
		crand.Reader = old
	}
}

// validateNCode: 0 = accepted, 1 = wrong bit length, 2 = even, 3 = nil
func validateNCode(n *saferith.Modulus) int {
	err := paillier.ValidateN(n)
	switch {
	case err == nil:
		return 0
	case errors.Is(err, paillier.ErrPaillierLength):
		return 1
	case errors.Is(err, paillier.ErrPaillierEven):
		return 2
	case errors.Is(err, paillier.ErrPaillierNil):
		return 3
	}
	return -1
}

func init() { register("paillier", paillierSuite) }
