//go:build verif

package main

// Suite `alg` — function-level differentials for the ALGEBRA layer (M2): the real Go functions vs the
// Lean transcriptions of lean/Mps/Algebra.lean executed with `secpOps` (bit-exact).
//
//	polynomial.Lagrange / LagrangeFor / LagrangeSingle, party.ID.Scalar, Polynomial.Evaluate,
//	NewPolynomialExponent, Exponent.Evaluate (both representations, + evaluateClassic), polynomial.Sum,
//	curve.FromHash (digest lengths 0…80), ecdsa.PreSignature.SignatureShare / Signature /
//	VerifySignatureShares, ecdsa.Signature.Verify, cmp Config.PublicPoint, bip32.DeriveScalar (+ the
//	BIP-32 test vectors), the Derive / DeriveBIP32 / DeriveChild functions of cmp, frost and doerner.
//
// Scalars: 64 hex digits; points: "inf" or 66 hex digits (SEC1 compressed); ids: hex of the id bytes.

import (
	"sort"

	"github.com/cronokirby/saferith"
	"github.com/taurusgroup/multi-party-sig/internal/bip32"
	"github.com/taurusgroup/multi-party-sig/internal/types"
	"github.com/taurusgroup/multi-party-sig/pkg/ecdsa"
	"github.com/taurusgroup/multi-party-sig/pkg/math/curve"
	"github.com/taurusgroup/multi-party-sig/pkg/math/polynomial"
	"github.com/taurusgroup/multi-party-sig/pkg/math/sample"
	"github.com/taurusgroup/multi-party-sig/pkg/party"
	cmpconfig "github.com/taurusgroup/multi-party-sig/protocols/cmp/config"
	doernerkeygen "github.com/taurusgroup/multi-party-sig/protocols/doerner/keygen"
	frostkeygen "github.com/taurusgroup/multi-party-sig/protocols/frost/keygen"
)



var secpOrderHex = "fffffffffffffffffffffffffffffffebaaedce6af48a03bbfd25e8cd0364141"

func algScHex(s curve.Scalar) string {
	b, _ := s.MarshalBinary()
	return hx(b)
}

func algPtHex(p curve.Point) string {
	if p == nil || p.IsIdentity() {
		return "inf"
	}
	b, _ := p.MarshalBinary()
	return hx(b)
}

func scOf(h string) curve.Scalar {
	s := secp.NewScalar()
	if err := s.UnmarshalBinary(unhx(h)); err != nil {
		panic(err)
	}
	return s
}

func ptOf(h string) curve.Point {
	p := secp.NewPoint()
	if h == "inf" {
		return p
	}
	if err := p.UnmarshalBinary(unhx(h)); err != nil {
		panic(err)
	}
	return p
}

func (c *Ctx) scalar() curve.Scalar {
	switch c.Intn(12) {
	case 0:
		return secp.NewScalar()
	case 1:
		return secp.NewScalar().SetNat(new(saferith.Nat).SetUint64(uint64(c.Intn(4))))
	case 2: // n-1, n-2 …
		return secp.NewScalar().SetNat(new(saferith.Nat).SetUint64(uint64(1 + c.Intn(3)))).Negate()
	}
	return sample.Scalar(c.Rng, secp)
}

func (c *Ctx) nzScalar() curve.Scalar {
	for {
		s := c.scalar()
		if !s.IsZero() {
			return s
		}
	}
}

func (c *Ctx) point() curve.Point {
	if c.Intn(12) == 0 {
		return secp.NewPoint()
	}
	return c.scalar().ActOnBase()
}

// guardP maps any panic to the bare outcome {"outcome":"PANIC"} (the model predicts panics exactly).
func guardP(f func() interface{}) interface{} {
	r := Guard(f)
	if m, ok := r.(J); ok && m["outcome"] == "PANIC" {
		return J{"outcome": "PANIC"}
	}
	return r
}

// genID: short / long (> 32 bytes: reduced mod q) / non-ASCII / leading-zero / zero-scalar ids.
func genID(c *Ctx) []byte {
	switch c.Intn(10) {
	case 0, 1, 2:
		return []byte{byte('a' + c.Intn(6))}
	case 3:
		return []byte([]string{"alice", "bob", "carol", "dave", "erin", "frank"}[c.Intn(6)])
	case 4:
		return []byte([]string{"žluťoučký", "节点一", "узел-2", "ノード3", "🦀", "né"}[c.Intn(6)])
	case 5:
		return c.Bytes(33 + c.Intn(40)) // longer than a scalar
	case 6:
		b := c.Bytes(1 + c.Intn(32))
		return b
	case 7: // leading zero bytes: same scalar as the id without them
		return append(make([]byte, 1+c.Intn(2)), byte('a'+c.Intn(3)))
	case 8: // scalar image 0 (the group order itself) or tiny
		if c.Intn(2) == 0 {
			return unhx(secpOrderHex)
		}
		return []byte{byte(c.Intn(3))}
	default:
		return []byte{0xff, byte(c.Intn(256)), 0xfe}
	}
}

func genIDSet(c *Ctx, max int) []string {
	pool := map[string]bool{}
	n := 1 + c.Intn(max)
	out := []string{}
	for len(out) < n {
		id := genID(c)
		if len(id) == 0 {
			continue
		}
		h := hx(id)
		if pool[h] && c.Intn(8) != 0 { // a repeated id now and then
			continue
		}
		pool[h] = true
		out = append(out, h)
	}
	return out
}

func idsOf(hs []string) []party.ID {
	out := make([]party.ID, len(hs))
	for i, h := range hs {
		out[i] = party.ID(unhx(h))
	}
	return out
}

func coefMap(m map[party.ID]curve.Scalar) map[string]string {
	out := map[string]string{}
	for k, v := range m {
		out[hx([]byte(k))] = algScHex(v)
	}
	return out
}

func scalarsHex(c *Ctx, n int) []string {
	out := make([]string, n)
	for i := range out {
		out[i] = algScHex(c.scalar())
	}
	return out
}

type expJ = J

func genExp(c *Ctx, isConst bool, n int) (expJ, *polynomial.Exponent) {
	pts := make([]curve.Point, n)
	hs := make([]string, n)
	for i := range pts {
		pts[i] = c.point()
		hs[i] = algPtHex(pts[i])
	}
	return expJ{"c": isConst, "p": hs}, polynomial.VerifNewExponent(secp, isConst, pts)
}

func expOut(e *polynomial.Exponent) J {
	cs := polynomial.VerifExpCoefficients(e)
	hs := make([]string, len(cs))
	for i, p := range cs {
		hs[i] = algPtHex(p)
	}
	return J{"isConstant": e.IsConstant, "coeffs": hs}
}

var bip32Vectors = []J{
	// BIP-32 test vector 1, the three non-hardened steps (keys / chain codes decoded from the xpubs of the standard)
	{"name": "tv1 m/0H -> m/0H/1",
		"pub": "035a784662a4a20a65bf6aab9ae98a6c068a81c52e4b032c0fb5400c706cfccc56", "chain": "47fdacbd0f1097043b78c63c20c34ef4ed9a111d980047ad16282c7ae6236141", "i": 1,
		"child": "03501e454bf00751f24b1b489aa925215d66af2234e3891c3b21a52bedb3cd711c", "childChain": "2a7857631386ba23dacac34180dd1983734e444fdbf774041578e9b6adb37c19"},
	{"name": "tv1 m/0H/1/2H -> m/0H/1/2H/2",
		"pub": "0357bfe1e341d01c69fe5654309956cbea516822fba8a601743a012a7896ee8dc2", "chain": "04466b9cc8e161e966409ca52986c584f07e9dc81f735db683c3ff6ec7b1503f", "i": 2,
		"child": "02e8445082a72f29b75ca48748a914df60622a609cacfce8ed0e35804560741d29", "childChain": "cfb71883f01676f587d023cc53a35bc7f88f724b1f8c2892ac1275ac822a3edd"},
	{"name": "tv1 m/0H/1/2H/2 -> m/0H/1/2H/2/1000000000",
		"pub": "02e8445082a72f29b75ca48748a914df60622a609cacfce8ed0e35804560741d29", "chain": "cfb71883f01676f587d023cc53a35bc7f88f724b1f8c2892ac1275ac822a3edd", "i": 1000000000,
		"child": "022a471424da5e657499d1ff51cb43c47481a03b1e77f951fe64cec9f5a48f7011", "childChain": "c783e67b921d2beb8f6b389cc646d7263b4145701dadd2161548a8b078e65e9e"},
}

func bip32Call(pub curve.Point, chain []byte, i uint32) interface{} {
	return guardP(func() interface{} {
		sc, ck, err := bip32.DeriveScalar(pub.(*curve.Secp256k1Point), chain, i)
		if err != nil {
			return J{"outcome": "badIndex"}
		}
		return J{"outcome": "ok", "scalar": algScHex(sc), "chain": hx(ck), "child": algPtHex(sc.ActOnBase().Add(pub))}
	})
}

func chainOpt(b []byte) interface{} {
	if b == nil {
		return nil
	}
	return hx(b)
}

func genChain(c *Ctx) []byte {
	switch c.Intn(8) {
	case 0:
		return nil
	case 1:
		return c.Bytes(c.Intn(40)) // wrong length (possibly 0)
	}
	return c.Bytes(32)
}

func pubsOut(m map[party.ID]curve.Point) map[string]string {
	out := map[string]string{}
	for k, v := range m {
		out[hx([]byte(k))] = algPtHex(v)
	}
	return out
}

func init() {
	register("alg", func(c *Ctx) {
		// fixed cases first
		for _, v := range bip32Vectors {
			res := bip32Call(ptOf(v["pub"].(string)), unhx(v["chain"].(string)), uint32(v["i"].(int)))
			if m, ok := res.(J); ok && m["outcome"] == "ok" {
				m["match"] = m["child"] == v["child"] && m["chain"] == v["childChain"]
			}
			c.Emit("bip32vec", v, res)
		}
		for l := 0; l <= 80; l++ {
			h := c.Bytes(l)
			if l > 0 && c.Intn(3) == 0 {
				for i := range h {
					h[i] = 0xff
				}
			}
			c.Emit("fromHash", J{"h": hx(h)}, J{"m": algScHex(curve.FromHash(secp, h))})
		}
		for it := 0; it < c.N; it++ {
			if it%14 == 0 { // keygen's chain key: EmptyRID() XOR-ed with every contribution, in list order
				k := c.Intn(6)
				cs := make([]string, k)
				ck := types.EmptyRID()
				for i := range cs {
					b := c.Bytes(32)
					cs[i] = hx(b)
					ck.XOR(types.RID(b))
				}
				c.Emit("chainKeyXor", J{"contribs": cs}, J{"chain": hx(ck)})
			}
			switch it % 14 {
			case 0: // ID.Scalar
				id := genID(c)
				c.Emit("idScalar", J{"id": hx(id)}, J{"x": algScHex(party.ID(id).Scalar(secp))})
			case 1: // Lagrange on a (non-prefix, unordered) id set
				ids := genIDSet(c, 7)
				c.Emit("lagrange", J{"ids": ids}, guardP(func() interface{} {
					return J{"coef": coefMap(polynomial.Lagrange(secp, idsOf(ids)))}
				}))
			case 2: // LagrangeFor: subset of the domain (now and then an id outside of it)
				ids := genIDSet(c, 7)
				sub := []string{}
				for _, id := range ids {
					if c.Intn(2) == 0 {
						sub = append(sub, id)
					}
				}
				if c.Intn(10) == 0 {
					sub = append(sub, hx(append([]byte("zz"), c.Bytes(2)...)))
				}
				c.Emit("lagrangeFor", J{"ids": ids, "subset": sub}, guardP(func() interface{} {
					return J{"coef": coefMap(polynomial.LagrangeFor(secp, idsOf(ids), idsOf(sub)...))}
				}))
			case 3: // LagrangeSingle
				ids := genIDSet(c, 7)
				j := ids[c.Intn(len(ids))]
				c.Emit("lagrangeSingle", J{"ids": ids, "j": j}, guardP(func() interface{} {
					return J{"c": algScHex(polynomial.LagrangeSingle(secp, idsOf(ids), party.ID(unhx(j))))}
				}))
			case 4: // Polynomial.Evaluate (Horner; panics at 0)
				cs := scalarsHex(c, 1+c.Intn(7))
				x := algScHex(c.scalar())
				c.Emit("polyEval", J{"coeffs": cs, "x": x}, guardP(func() interface{} {
					sc := make([]curve.Scalar, len(cs))
					for i := range cs {
						sc[i] = scOf(cs[i])
					}
					return J{"y": algScHex(polynomial.VerifNewPolynomial(secp, sc).Evaluate(scOf(x)))}
				}))
			case 5: // NewPolynomialExponent: representation, degree, constant; Evaluate = Evaluate·G
				cs := scalarsHex(c, 1+c.Intn(6))
				x := algScHex(c.scalar())
				c.Emit("expOfPoly", J{"coeffs": cs, "x": x}, guardP(func() interface{} {
					sc := make([]curve.Scalar, len(cs))
					for i := range cs {
						sc[i] = scOf(cs[i])
					}
					e := polynomial.NewPolynomialExponent(polynomial.VerifNewPolynomial(secp, sc))
					o := expOut(e)
					o["degree"] = e.Degree()
					o["constant"] = algPtHex(e.Constant())
					o["y"] = algPtHex(e.Evaluate(scOf(x)))
					return o
				}))
			case 6: // Exponent.Evaluate on arbitrary coefficients, both representations
				ej, e := genExp(c, c.Intn(2) == 0, c.Intn(7))
				x := algScHex(c.scalar())
				c.Emit("expEval", J{"e": ej, "x": x}, guardP(func() interface{} {
					return J{"y": algPtHex(e.Evaluate(scOf(x))), "classic": algPtHex(polynomial.VerifEvaluateClassic(e, scOf(x))),
						"degree": e.Degree()}
				}))
			case 7: // polynomial.Sum
				k := c.Intn(5)
				n := c.Intn(5)
				isc := c.Intn(2) == 0
				js := []expJ{}
				es := []*polynomial.Exponent{}
				for i := 0; i < k; i++ {
					ni, ci := n, isc
					if c.Intn(12) == 0 {
						ni = c.Intn(5)
					}
					if c.Intn(12) == 0 {
						ci = !ci
					}
					j, e := genExp(c, ci, ni)
					js = append(js, j)
					es = append(es, e)
				}
				c.Emit("expSum", J{"polys": js}, guardP(func() interface{} {
					s, err := polynomial.Sum(es)
					if err != nil {
						return J{"err": true}
					}
					o := expOut(s)
					o["err"] = false
					return o
				}))
			case 8: // the online phase of a presignature: SignatureShare, Signature, Verify, VerifySignatureShares
				n := 1 + c.Intn(4)
				ks, chis := make([]curve.Scalar, n), make([]curve.Scalar, n)
				ksum := secp.NewScalar()
				for i := 0; i < n; i++ {
					ks[i] = c.nzScalar()
					ksum.Add(ks[i])
				}
				if ksum.IsZero() {
					continue
				}
				x := c.nzScalar()
				// additive shares of k·x
				kx := secp.NewScalar().Set(ksum).Mul(x)
				rest := secp.NewScalar().Set(kx)
				for i := 0; i < n-1; i++ {
					chis[i] = c.nzScalar()
					rest.Sub(chis[i])
				}
				chis[n-1] = rest
				if rest.IsZero() {
					continue
				}
				tamper := -1
				if c.Intn(3) == 0 {
					tamper = c.Intn(n)
				}
				h := c.Bytes(1 + c.Intn(64))
				X := x.ActOnBase()
				R := secp.NewScalar().Set(ksum).Invert().ActOnBase()
				ksH, chisH := make([]string, n), make([]string, n)
				ids := make([]party.ID, n)
				for i := 0; i < n; i++ {
					ksH[i], chisH[i] = algScHex(ks[i]), algScHex(chis[i])
					ids[i] = party.ID([]byte{byte('a' + i)})
				}
				in := J{"ks": ksH, "chis": chisH, "X": algPtHex(X), "R": algPtHex(R), "h": hx(h), "tamper": tamper}
				c.Emit("presigOnline", in, guardP(func() interface{} {
					rbar, ss := map[party.ID]curve.Point{}, map[party.ID]curve.Point{}
					for i := 0; i < n; i++ {
						rbar[ids[i]] = ks[i].Act(R)
						ss[ids[i]] = chis[i].Act(R)
					}
					shares := map[party.ID]ecdsa.SignatureShare{}
					sig := []string{}
					for i := 0; i < n; i++ {
						ps := &ecdsa.PreSignature{ID: types.RID(c.Bytes(32)), R: R, RBar: party.NewPointMap(rbar), S: party.NewPointMap(ss),
							KShare: secp.NewScalar().Set(ks[i]), ChiShare: secp.NewScalar().Set(chis[i])}
						sh := ps.SignatureShare(h)
						if i == tamper {
							sh = secp.NewScalar().Set(sh).Add(secp.NewScalar().SetNat(new(saferith.Nat).SetUint64(1)))
						}
						shares[ids[i]] = sh
						sig = append(sig, algScHex(sh))
					}
					ps := &ecdsa.PreSignature{R: R, RBar: party.NewPointMap(rbar), S: party.NewPointMap(ss), KShare: ks[0], ChiShare: chis[0]}
					s := ps.Signature(shares)
					culprits := []string{}
					for _, id := range ps.VerifySignatureShares(shares, h) {
						culprits = append(culprits, hx([]byte(id)))
					}
					sort.Strings(culprits)
					return J{"sigmas": sig, "s": algScHex(s.S), "ok": s.Verify(X, h), "culprits": culprits}
				}))
			case 9: // ecdsa.Signature.Verify on arbitrary / edge inputs
				X, R := c.point(), c.point()
				s := c.scalar()
				h := c.Bytes(c.Intn(70))
				c.Emit("verify", J{"X": algPtHex(X), "R": algPtHex(R), "s": algScHex(s), "h": hx(h)}, guardP(func() interface{} {
					return J{"ok": ecdsa.Signature{R: R, S: s}.Verify(X, h)}
				}))
			case 10: // cmp Config.PublicPoint: Lagrange over ALL parties of the table
				ids := genIDSet(c, 6)
				pubs := [][]string{}
				seen := map[string]bool{}
				public := map[party.ID]*cmpconfig.Public{}
				for _, id := range ids {
					if seen[id] {
						continue
					}
					seen[id] = true
					p := c.point()
					pubs = append(pubs, []string{id, algPtHex(p)})
					public[party.ID(unhx(id))] = &cmpconfig.Public{ECDSA: p}
				}
				c.Emit("cmpPublicPoint", J{"pubs": pubs}, guardP(func() interface{} {
					return J{"pk": algPtHex((&cmpconfig.Config{Group: secp, Public: public}).PublicPoint())}
				}))
			case 11: // bip32.DeriveScalar
				pub := c.nzScalar().ActOnBase()
				chain := c.Bytes([]int{32, 32, 32, 0, 1, 31, 64}[c.Intn(7)])
				i := uint32([]int{0, 1, 2, 1<<31 - 1, c.Intn(1 << 31), c.Intn(1 << 31), 1 << 31, 1<<31 + c.Intn(1<<30)}[c.Intn(8)])
				c.Emit("bip32", J{"pub": algPtHex(pub), "chain": hx(chain), "i": i}, bip32Call(pub, chain, i))
			case 12: // Derive / DeriveBIP32 / DeriveChild of the Shamir-shared configs (cmp, frost)
				kind := []string{"cmp", "frost"}[c.Intn(2)]
				ids := genIDSet(c, 5)
				share := c.scalar()
				pk := c.nzScalar().ActOnBase()
				pubs := [][]string{}
				pm := map[party.ID]curve.Point{}
				for _, id := range ids {
					if _, ok := pm[party.ID(unhx(id))]; ok {
						continue
					}
					p := c.point()
					pm[party.ID(unhx(id))] = p
					pubs = append(pubs, []string{id, algPtHex(p)})
				}
				chain, newChain := genChain(c), genChain(c)
				adjust := c.scalar()
				useBip := c.Intn(2) == 0
				idx := uint32([]int{0, 1, 1<<31 - 1, c.Intn(1 << 31)}[c.Intn(4)])
				in := J{"kind": kind, "share": algScHex(share), "pk": algPtHex(pk), "pubs": pubs, "chain": chainOpt(chain),
					"newChain": chainOpt(newChain), "adjust": algScHex(adjust), "bip32": useBip, "i": idx}
				c.Emit("derive", in, guardP(func() interface{} {
					if kind == "cmp" {
						public := map[party.ID]*cmpconfig.Public{}
						for k, v := range pm {
							public[k] = &cmpconfig.Public{ECDSA: v}
						}
						cfg := &cmpconfig.Config{Group: secp, ID: party.ID(unhx(ids[0])), Threshold: 1, ECDSA: share, ChainKey: chain, Public: public}
						var out *cmpconfig.Config
						var err error
						if useBip {
							// DeriveBIP32 derives from PublicPoint(); the harness reports it so that the model can use it
							out, err = cfg.DeriveBIP32(idx)
						} else {
							out, err = cfg.Derive(adjust, newChain)
						}
						if err != nil {
							return J{"err": true}
						}
						op := map[party.ID]curve.Point{}
						for k, v := range out.Public {
							op[k] = v.ECDSA
						}
						first := J{"err": false, "share": algScHex(out.ECDSA), "pubs": pubsOut(op), "pk": algPtHex(out.PublicPoint()), "chain": chainOpt(out.ChainKey),
							"oldShare": algScHex(cfg.ECDSA)}
						// a sibling derived afterwards from the SAME parent object must be the same child (property-level observation)
						var again *cmpconfig.Config
						if useBip {
							again, err = cfg.DeriveBIP32(idx)
						} else {
							again, err = cfg.Derive(adjust, newChain)
						}
						first["valid"] = err == nil && again.ECDSA.Equal(out.ECDSA) && again.PublicPoint().Equal(out.PublicPoint()) &&
							algScHex(out.ECDSA) == first["share"]
						return first
					}
					cfg := &frostkeygen.Config{ID: party.ID(unhx(ids[0])), Threshold: 1, PrivateShare: share, PublicKey: pk, ChainKey: chain,
						VerificationShares: party.NewPointMap(pm)}
					var out *frostkeygen.Config
					var err error
					if useBip {
						out, err = cfg.DeriveChild(idx)
					} else {
						out, err = cfg.Derive(adjust, newChain)
					}
					if err != nil {
						return J{"err": true}
					}
					first := J{"err": false, "share": algScHex(out.PrivateShare), "pubs": pubsOut(out.VerificationShares.Points), "pk": algPtHex(out.PublicKey),
						"chain": chainOpt(out.ChainKey), "oldShare": algScHex(cfg.PrivateShare)}
					// a sibling derived afterwards from the SAME parent object must be the same child (property-level observation)
					var again *frostkeygen.Config
					if useBip {
						again, err = cfg.DeriveChild(idx)
					} else {
						again, err = cfg.Derive(adjust, newChain)
					}
					first["valid"] = err == nil && again.PrivateShare.Equal(out.PrivateShare) && again.PublicKey.Equal(out.PublicKey) &&
						algScHex(out.PrivateShare) == first["share"]
					return first
				}))
			case 13: // Doerner: Derive on BOTH configs of one key. `valid` is the property-level observation:
				// the derived additive shares still open the derived public key AND both carry a 32-byte chain key.
				skR, skS := c.nzScalar(), c.nzScalar()
				pk := secp.NewScalar().Set(skR).Add(skS).ActOnBase()
				chain := c.Bytes(32)
				adjust := c.scalar()
				useBip := c.Intn(2) == 0
				idx := uint32([]int{0, 1, 1<<31 - 1, c.Intn(1 << 31)}[c.Intn(4)])
				var newChain []byte
				if c.Intn(2) == 0 {
					newChain = c.Bytes(32)
				}
				in := J{"skR": algScHex(skR), "skS": algScHex(skS), "pk": algPtHex(pk), "chain": hx(chain), "newChain": chainOpt(newChain),
					"adjust": algScHex(adjust), "bip32": useBip, "i": idx}
				c.Emit("doernerDerive", in, guardP(func() interface{} {
					cr := &doernerkeygen.ConfigReceiver{SecretShare: skR, Public: pk, ChainKey: chain}
					cs := &doernerkeygen.ConfigSender{SecretShare: skS, Public: pk, ChainKey: chain}
					var dr *doernerkeygen.ConfigReceiver
					var ds *doernerkeygen.ConfigSender
					var e1, e2 error
					if useBip {
						dr, e1 = cr.DeriveBIP32(idx)
						ds, e2 = cs.DeriveBIP32(idx)
					} else {
						dr, e1 = cr.Derive(adjust, newChain)
						ds, e2 = cs.Derive(adjust, newChain)
					}
					if e1 != nil || e2 != nil {
						return J{"err": true}
					}
					sum := secp.NewScalar().Set(dr.SecretShare).Add(ds.SecretShare)
					valid := sum.ActOnBase().Equal(dr.Public) && dr.Public.Equal(ds.Public) && len(dr.ChainKey) == 32 && len(ds.ChainKey) == 32
					return J{"err": false, "shareR": algScHex(dr.SecretShare), "shareS": algScHex(ds.SecretShare), "pkR": algPtHex(dr.Public), "pkS": algPtHex(ds.Public),
						"chainR": chainOpt(dr.ChainKey), "chainS": chainOpt(ds.ChainKey), "valid": valid}
				}))
			}
		}
	})
}
