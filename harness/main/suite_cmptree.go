package main

// Suite `cmptree` (C15): the predictive differential that ties the Lean decision model of
// cmp Config.UnmarshalBinary (Mps.Codec.cmpRestore) to the real decoder. A real config is encoded with the
// documented encoder, parsed into a generic CBOR tree, and every field is put into one of the classes the model
// knows - good / absent (key deleted) / null / bad (decodes but breaks the field's rule) - plus list-level
// changes (duplicate, missing or anonymous party records, thresholds around 0, n, 2^32). The described tree goes
// to the model, the bytes to the real UnmarshalBinary; the outcomes (ok / err / crash) must agree.

import (
	"fmt"
	"math/big"
	"sort"

	"github.com/fxamacker/cbor/v2"
	cmpconfig "github.com/taurusgroup/multi-party-sig/protocols/cmp/config"
)

var fvNames = []string{"good", "absent", "null", "bad"}

func pickFV(c *Ctx, pBad int) string {
	if c.Intn(100) < pBad {
		return fvNames[1+c.Intn(3)]
	}
	return "good"
}

// setField puts the field `key` of the CBOR map `m` into class `cls`; `bad` is the rule-breaking value
func setField(m map[interface{}]interface{}, key, cls string, bad interface{}) {
	switch cls {
	case "absent":
		delete(m, key)
	case "null":
		m[key] = nil
	case "bad":
		m[key] = bad
	}
}

func asMap(x interface{}) map[interface{}]interface{} {
	m, _ := x.(map[interface{}]interface{})
	return m
}

func cloneTree(x interface{}) interface{} {
	switch v := x.(type) {
	case map[interface{}]interface{}:
		o := map[interface{}]interface{}{}
		for k, e := range v {
			o[k] = cloneTree(e)
		}
		return o
	case []interface{}:
		o := make([]interface{}, len(v))
		for i, e := range v {
			o[i] = cloneTree(e)
		}
		return o
	case []byte:
		return append([]byte{}, v...)
	}
	return x
}

func flipLast(b interface{}, mask byte) []byte {
	o := append([]byte{}, b.([]byte)...)
	if len(o) > 0 {
		o[len(o)-1] ^= mask
	}
	return o
}

var compositeCache = map[string][]byte{}

// compositeWithPrimeHalf: a one-bit corruption p' of the prime p (same size, still 3 mod 4) such that (p'-1)/2 is prime
// while p' itself is composite (about 1 in 350 bit flips); nil when none is found
func compositeWithPrimeHalf(p []byte) []byte {
	if v, ok := compositeCache[string(p)]; ok {
		return v
	}
	x := new(big.Int).SetBytes(p)
	var found []byte
	for bit := 2; bit < x.BitLen()-1; bit++ {
		if x.Bit(bit) == 1 {
			continue // set a bit: the modulus grows and the stored Pedersen parameters stay below it
		}
		y := new(big.Int).Set(x)
		y.SetBit(y, bit, 1)
		h := new(big.Int).Rsh(y, 1)
		if h.ProbablyPrime(8) && !y.ProbablyPrime(8) {
			found = y.FillBytes(make([]byte, len(p)))
			break
		}
	}
	compositeCache[string(p)] = found
	return found
}

func init() {
	register("cmptree", func(c *Ctx) {
		m := getRobustMaterial(c, false)
		ids := make([]string, 0, len(m.cmp))
		for id := range m.cmp {
			ids = append(ids, string(id))
		}
		sort.Strings(ids)
		em, _ := cbor.CanonicalEncOptions().EncMode()
		zero32 := make([]byte, 32)
		for i := 0; i < c.N; i++ {
			cfg := m.cmp[m.ids[i%len(m.ids)]]
			enc, err := cfg.MarshalBinary()
			if err != nil {
				panic(err)
			}
			var top interface{}
			if err := cbor.Unmarshal(enc, &top); err != nil {
				panic(err)
			}
			tm := asMap(cloneTree(top))
			pBad := []int{0, 4, 10, 25}[i%4]
			pure := i%20 == 8 // a config whose ONLY flaw is a composite P (or Q)
			if pure {
				pBad = 0
			}
			desc := J{"topNull": false, "id": hx([]byte(cfg.ID))}
			// scalars
			for _, k := range []string{"ECDSA", "ElGamal"} {
				cls := pickFV(c, pBad)
				setField(tm, k, cls, zero32)
				desc[k] = cls
			}
			for _, k := range []string{"P", "Q"} {
				cls := pickFV(c, pBad)
				bad := flipLast(tm[k], 2) // no longer 3 mod 4
				if pure && k == []string{"P", "Q"}[(i/20)%2] {
					cls = "bad"
				}
				if cls == "bad" && (pure || c.Intn(2) == 0) {
					// a COMPOSITE of the right size, 3 mod 4, whose half (p-1)/2 is prime: not a safe prime, not even a prime
					if cp := compositeWithPrimeHalf(tm[k].([]byte)); cp != nil {
						bad = cp
						desc[k+"note"] = "composite, (p-1)/2 prime"
						c.Count("cmptree/composite-prime-candidate")
					}
				}
				setField(tm, k, cls, bad)
				desc[k] = cls
			}
			{
				cls := pickFV(c, pBad)
				bad := interface{}(zero32)
				if c.Intn(2) == 0 {
					bad = flipLast(tm["RID"], 0)[:31]
				}
				setField(tm, "RID", cls, bad)
				desc["RID"] = cls
				cls = pickFV(c, pBad)
				if cls == "bad" && tm["ChainKey"] == nil {
					cls = "good"
				}
				bad = zero32
				if b, ok := tm["ChainKey"].([]byte); ok && c.Intn(2) == 0 && len(b) > 0 {
					bad = b[:len(b)-1]
				}
				setField(tm, "ChainKey", cls, bad)
				if ck, ok := tm["ChainKey"].([]byte); cls == "good" && (!ok || len(ck) == 0) {
					cls = "absent" // this config carries no chain key
				}
				desc["ChainKey"] = cls
			}
			if c.Intn(100) < pBad {
				tm["ID"] = ""
				desc["id"] = ""
			}
			thr := cfg.Threshold
			if c.Intn(100) < 2*pBad {
				thr = []int{-1, 0, 1, 2, 3, 4, 1 << 32}[c.Intn(7)]
			}
			tm["Threshold"] = thr
			desc["thr"] = thr
			// party records
			recs, _ := tm["Public"].([]interface{})
			switch {
			case c.Intn(100) < pBad && len(recs) > 0: // a record twice
				recs = append(recs, cloneTree(recs[c.Intn(len(recs))]))
			case c.Intn(100) < pBad && len(recs) > 0: // a record less (possibly this party's)
				k := c.Intn(len(recs))
				recs = append(append([]interface{}{}, recs[:k]...), recs[k+1:]...)
			}
			pubDesc := []J{}
			for _, r := range recs {
				rm := asMap(r)
				pd := J{}
				if c.Intn(100) < pBad/2 {
					rm["ID"] = ""
				}
				idv, _ := rm["ID"].(string)
				pd["id"] = hx([]byte(idv))
				for _, k := range []string{"ECDSA", "ElGamal"} {
					cls := pickFV(c, pBad)
					bad := append([]byte{5}, zero32...) // not a point encoding
					setField(rm, k, cls, bad)
					pd[k] = cls
				}
				cls := pickFV(c, pBad)
				badN := flipLast(rm["N"], 1) // even
				var shortN *big.Int
				if nb, ok := rm["N"].([]byte); ok && len(nb) > 0 && cls == "bad" && c.Intn(2) == 0 {
					// odd, one bit short of the required size (top bit cleared, the next one set); S and T are reduced below
					// so that the size of N is the ONLY flaw of the record
					sn := append([]byte{}, nb...)
					sn[0] = (sn[0] & 0x7f) | 0x40
					badN, shortN = sn, new(big.Int).SetBytes(sn)
					c.Count("cmptree/N-one-bit-short")
				}
				setField(rm, "N", cls, badN)
				pd["N"] = cls
				cls = pickFV(c, pBad)
				setField(rm, "S", cls, []byte{}) // zero is no unit
				pd["S"] = cls
				cls = pickFV(c, pBad)
				badT := interface{}([]byte{})
				if s, ok := rm["S"].([]byte); ok && len(s) > 0 && c.Intn(2) == 0 {
					badT = append([]byte{}, s...) // t = s
				}
				setField(rm, "T", cls, badT)
				pd["T"] = cls
				if shortN != nil {
					for _, k := range []string{"S", "T"} {
						if b, ok := rm[k].([]byte); ok && len(b) > 0 {
							rm[k] = new(big.Int).Mod(new(big.Int).SetBytes(b), shortN).Bytes()
						}
					}
				}
				pubDesc = append(pubDesc, pd)
			}
			tm["Public"] = recs
			desc["pub"] = pubDesc
			data, err := em.Marshal(tm)
			if err != nil {
				panic(err)
			}
			if i%40 == 39 {
				data = []byte{0xf6} // the whole item is null
				desc = J{"topNull": true, "id": "", "thr": 0, "ECDSA": "good", "ElGamal": "good", "P": "good", "Q": "good", "RID": "good", "ChainKey": "good", "pub": []J{}}
			}
			impl := Guard(func() interface{} {
				x := cmpconfig.EmptyConfig(secp)
				if err := x.UnmarshalBinary(data); err != nil {
					return J{"outcome": "err"}
				}
				return J{"outcome": "ok"}
			})
			o := impl.(J)["outcome"]
			c.Count(fmt.Sprintf("cmptree/%v/pBad=%d", o, pBad))
			c.Emit("cmptree", J{"tree": desc, "len": len(data)}, impl)
		}
	})
}
