//go:build verif

package main

// Real key material of every protocol for the robustness suites (start / codec / malform):
// produced by REAL protocol runs (CMP configs through test.GenerateConfig + the prime hook),
// deterministic from the seed (crypto/rand.Reader is replaced by a seeded stream while the
// material is produced and whenever a suite asks for reproducible sessions).

import (
	crand "crypto/rand"
	"io"
	"math/rand"
	"sync"

	"github.com/taurusgroup/multi-party-sig/internal/test"
	"github.com/taurusgroup/multi-party-sig/pkg/ecdsa"
	"github.com/taurusgroup/multi-party-sig/pkg/math/curve"
	"github.com/taurusgroup/multi-party-sig/pkg/party"
	"github.com/taurusgroup/multi-party-sig/pkg/protocol"
	"github.com/taurusgroup/multi-party-sig/pkg/taproot"
	"github.com/taurusgroup/multi-party-sig/protocols/cmp"
	"github.com/taurusgroup/multi-party-sig/protocols/doerner"
	"github.com/taurusgroup/multi-party-sig/protocols/frost"
)

type seededReader struct {
	mu sync.Mutex
	r  *rand.Rand
}

func (s *seededReader) Read(p []byte) (int, error) {
	s.mu.Lock()
	defer s.mu.Unlock()
	return s.r.Read(p)
}

var origRandReader io.Reader

// seedCryptoRand makes crypto/rand.Reader a deterministic stream (the library draws all its
// randomness from that variable); restoreCryptoRand puts the system source back.
func seedCryptoRand(seed int64) {
	if origRandReader == nil {
		origRandReader = crand.Reader
	}
	crand.Reader = &seededReader{r: rand.New(rand.NewSource(seed))}
}

func restoreCryptoRand() {
	if origRandReader != nil {
		crand.Reader = origRandReader
	}
}

type robustMaterial struct {
	group  curve.Curve
	ids    party.IDSlice // a, b, c
	t      int
	cmp    map[party.ID]*cmp.Config
	frost  map[party.ID]*frost.Config
	tap    map[party.ID]*frost.TaprootConfig
	dR     *doerner.ConfigReceiver // party a
	dS     *doerner.ConfigSender   // party b
	presig map[party.ID]*ecdsa.PreSignature
	psIDs  party.IDSlice // signers of the presignature (a, b)
	sig    *ecdsa.Signature
	sigMsg []byte
	fsig   frost.Signature
	tsig   taproot.Signature
	wire   []*protocol.Message // real wire messages seen while producing the material
}

var robustCache = map[int64]*robustMaterial{}

func multiHandlers(ids []party.ID, mk func(id party.ID) protocol.StartFunc, sid []byte) (map[party.ID]protocol.Handler, error) {
	hs := map[party.ID]protocol.Handler{}
	for _, id := range ids {
		h, err := protocol.NewMultiHandler(mk(id), sid)
		if err != nil {
			return nil, err
		}
		hs[id] = h
	}
	return hs, nil
}

// getRobustMaterial: n = 3, t = 1. withPresig also runs a real CMP presign between a and b.
func getRobustMaterial(c *Ctx, withPresig bool) *robustMaterial {
	if m, ok := robustCache[c.Seed]; ok && (!withPresig || m.presig != nil) {
		return m
	}
	seedCryptoRand(c.Seed*7919 + 11)
	defer restoreCryptoRand()
	installPrimeHook(int(c.Seed % 40))
	m := robustCache[c.Seed]
	if m == nil {
		m = &robustMaterial{group: curve.Secp256k1{}, ids: test.PartyIDs(3), t: 1}
		tap := func(x *protocol.Message, to party.ID) []*protocol.Message {
			if len(m.wire) < 400 {
				m.wire = append(m.wire, x)
			}
			return []*protocol.Message{x}
		}
		sid := []byte("robust-material")
		m.cmp, _ = test.GenerateConfig(m.group, 3, m.t, rand.New(rand.NewSource(c.Seed+5)), nil)
		// FROST
		hs, err := multiHandlers(m.ids, func(id party.ID) protocol.StartFunc { return frost.Keygen(m.group, id, m.ids, m.t) }, sid)
		if err != nil {
			panic(err)
		}
		res := runSessions(c, hs, "fifo", tap)
		m.frost = map[party.ID]*frost.Config{}
		for id, r := range res.Results {
			m.frost[id] = r.(*frost.Config)
		}
		hs, err = multiHandlers(m.ids, func(id party.ID) protocol.StartFunc { return frost.KeygenTaproot(id, m.ids, m.t) }, sid)
		if err != nil {
			panic(err)
		}
		res = runSessions(c, hs, "fifo", tap)
		m.tap = map[party.ID]*frost.TaprootConfig{}
		for id, r := range res.Results {
			m.tap[id] = r.(*frost.TaprootConfig)
		}
		if len(m.frost) != 3 || len(m.tap) != 3 {
			panic("robust material: frost keygen did not complete: " + res.Panic)
		}
		// FROST signatures
		m.sigMsg = []byte("robust material message 32 bytes")
		signers := m.ids[:2]
		hs, _ = multiHandlers(signers, func(id party.ID) protocol.StartFunc { return frost.Sign(m.frost[id], signers, m.sigMsg) }, sid)
		res = runSessions(c, hs, "fifo", tap)
		if r, ok := res.Results[signers[0]].(frost.Signature); ok {
			m.fsig = r
		}
		hs, _ = multiHandlers(signers, func(id party.ID) protocol.StartFunc { return frost.SignTaproot(m.tap[id], signers, m.sigMsg) }, sid)
		res = runSessions(c, hs, "fifo", tap)
		if r, ok := res.Results[signers[0]].(taproot.Signature); ok {
			m.tsig = r
		}
		// Doerner
		a, b := m.ids[0], m.ids[1]
		hr, err1 := protocol.NewTwoPartyHandler(doerner.Keygen(m.group, true, a, b, nil), sid, true)
		hsn, err2 := protocol.NewTwoPartyHandler(doerner.Keygen(m.group, false, b, a, nil), sid, false)
		if err1 != nil || err2 != nil {
			panic("robust material: doerner keygen start failed")
		}
		res = runSessions(c, map[party.ID]protocol.Handler{a: hr, b: hsn}, "fifo", tap)
		m.dR, _ = res.Results[a].(*doerner.ConfigReceiver)
		m.dS, _ = res.Results[b].(*doerner.ConfigSender)
		if m.dR == nil || m.dS == nil {
			panic("robust material: doerner keygen did not complete: " + res.Panic)
		}
		robustCache[c.Seed] = m
	}
	if withPresig && m.presig == nil {
		sid := []byte("robust-material")
		m.psIDs = m.ids[:2]
		tap := func(x *protocol.Message, to party.ID) []*protocol.Message {
			if len(m.wire) < 400 {
				m.wire = append(m.wire, x)
			}
			return []*protocol.Message{x}
		}
		hs, err := multiHandlers(m.psIDs, func(id party.ID) protocol.StartFunc { return cmp.Presign(m.cmp[id], m.psIDs, nil) }, sid)
		if err != nil {
			panic(err)
		}
		res := runSessions(c, hs, "fifo", tap)
		m.presig = map[party.ID]*ecdsa.PreSignature{}
		for id, r := range res.Results {
			m.presig[id] = r.(*ecdsa.PreSignature)
		}
		if len(m.presig) != 2 {
			panic("robust material: cmp presign did not complete: " + res.Panic)
		}
		hs, err = multiHandlers(m.psIDs, func(id party.ID) protocol.StartFunc {
			return cmp.PresignOnline(m.cmp[id], m.presig[id], m.sigMsg, nil)
		}, sid)
		if err != nil {
			panic(err)
		}
		res = runSessions(c, hs, "fifo", tap)
		m.sig, _ = res.Results[m.psIDs[0]].(*ecdsa.Signature)
		if m.sig == nil {
			panic("robust material: cmp presign-online did not complete: " + res.Panic)
		}
	}
	return m
}
