//go:build verif

package main

// Suite `sess-tamper` (C03, C04): ONE participant deviates in the content of the messages it sends —
// a field of the CBOR tree altered (boundary value, re-randomised, bit flipped, truncated, copied from
// another message), or a whole message substituted by one meant for another recipient or round — in
// REAL sessions through the real handlers. What every HONEST party ends with (result or error with
// culprits) is judged by the Lean side: a finished honest party holds a correct result (valid signature
// for the agreed message and key / key material consistent with the other honest finishers), and an
// honest party never names another honest party.

import (
	"bytes"
	"errors"
	"fmt"
	"math/big"
	"sort"

	"github.com/cronokirby/saferith"
	"github.com/fxamacker/cbor/v2"
	"github.com/taurusgroup/multi-party-sig/pkg/ecdsa"
	"github.com/taurusgroup/multi-party-sig/pkg/math/curve"
	"github.com/taurusgroup/multi-party-sig/pkg/party"
	"github.com/taurusgroup/multi-party-sig/pkg/protocol"
	"github.com/taurusgroup/multi-party-sig/pkg/taproot"
	"github.com/taurusgroup/multi-party-sig/protocols/cmp"
	cmpkeygen "github.com/taurusgroup/multi-party-sig/protocols/cmp/keygen"
	frostkeygen "github.com/taurusgroup/multi-party-sig/protocols/frost/keygen"
	"github.com/taurusgroup/multi-party-sig/protocols/doerner"
	"github.com/taurusgroup/multi-party-sig/protocols/frost"
)

type path []interface{}

// leaves lists the paths of all leaves (byte strings, integers, bools, text) of a decoded CBOR tree.
func leaves(v interface{}, p path, out *[]path) {
	switch t := v.(type) {
	case map[interface{}]interface{}:
		keys := make([]string, 0, len(t))
		km := map[string]interface{}{}
		for k := range t {
			s := fmt.Sprint(k)
			keys = append(keys, s)
			km[s] = k
		}
		sort.Strings(keys)
		for _, s := range keys {
			leaves(t[km[s]], append(append(path{}, p...), km[s]), out)
		}
	case []interface{}:
		for i, x := range t {
			leaves(x, append(append(path{}, p...), i), out)
		}
	default:
		*out = append(*out, append(path{}, p...))
	}
}

func getAt(v interface{}, p path) interface{} {
	for _, k := range p {
		switch t := v.(type) {
		case map[interface{}]interface{}:
			v = t[k]
		case []interface{}:
			v = t[k.(int)]
		}
	}
	return v
}

func setAt(v interface{}, p path, nv interface{}) {
	for i, k := range p {
		last := i == len(p)-1
		switch t := v.(type) {
		case map[interface{}]interface{}:
			if last {
				t[k] = nv
			} else {
				v = t[k]
			}
		case []interface{}:
			if last {
				t[k.(int)] = nv
			} else {
				v = t[k.(int)]
			}
		}
	}
}

type tamperer struct {
	c       *Ctx
	cheater party.ID
	seen    []*protocol.Message // messages of the cheater seen so far (donors for substitution)
	others  []*protocol.Message // messages of other parties (donors for copied values)
	applied []string
	budget  int
	// forceHow > 0: the byte-string malformation is fixed (case number of the switch in mutate) and no content is
	// substituted wholesale - used where the scenario needs a well-formed but WRONG value
	forceHow int
	// impersonateRound > 0: the cheater's broadcast of that round is replaced, for every recipient, by the whole content
	// of ANOTHER party's broadcast of the same round (a proof-carrying message replayed under another sender's name)
	impersonateRound int
	donor            *protocol.Message
	impersonated     int
}

func pathStr(p path) string {
	s := ""
	for _, k := range p {
		s += fmt.Sprintf("/%v", k)
	}
	return s
}

// mutate returns a tampered copy of m (or nil when nothing applicable was found).
func (t *tamperer) mutate(m *protocol.Message, to party.ID) *protocol.Message {
	c := t.c
	cp := *m
	kind := c.Intn(10)
	if kind == 0 && len(t.seen) > 0 && t.forceHow == 0 { // a message meant for another recipient or round
		d := t.seen[c.Intn(len(t.seen))]
		if !bytes.Equal(d.Data, m.Data) {
			cp.Data = append([]byte{}, d.Data...)
			t.applied = append(t.applied, fmt.Sprintf("r%d->%s: content substituted by that of r%d to %q", m.RoundNumber, to, d.RoundNumber, d.To))
			return &cp
		}
	}
	var tree interface{}
	if err := cbor.Unmarshal(m.Data, &tree); err != nil {
		return nil
	}
	var ls []path
	leaves(tree, nil, &ls)
	if len(ls) == 0 {
		return nil
	}
	p := ls[c.Intn(len(ls))]
	old := getAt(tree, p)
	var nv interface{}
	how := ""
	switch o := old.(type) {
	case []byte:
		b := append([]byte{}, o...)
		how7 := c.Intn(7)
		if t.forceHow > 0 {
			how7 = t.forceHow
		}
		switch how7 {
		case 0:
			for i := range b {
				b[i] = 0
			}
			how = "zeroed"
		case 1:
			c.Rng.Read(b)
			how = "re-randomised"
		case 2:
			if len(b) > 0 {
				b[c.Intn(len(b))] ^= 1 << uint(c.Intn(8))
			}
			how = "bit flipped"
		case 3:
			if len(b) > 0 {
				b = b[:len(b)-1]
			}
			how = "truncated"
		case 4:
			if len(b) > 0 {
				b[len(b)-1]++
			}
			how = "last byte +1"
		case 5:
			b = append(b, 0)
			how = "extended"
		default: // the same field copied from another party's / round's message
			donors := append(append([]*protocol.Message{}, t.others...), t.seen...)
			for tries := 0; tries < 8 && len(donors) > 0; tries++ {
				d := donors[c.Intn(len(donors))]
				var dt interface{}
				if cbor.Unmarshal(d.Data, &dt) != nil {
					continue
				}
				var dls []path
				leaves(dt, nil, &dls)
				for _, dp := range dls {
					if db, ok := getAt(dt, dp).([]byte); ok && len(db) == len(o) && !bytes.Equal(db, o) {
						b = append([]byte{}, db...)
						how = fmt.Sprintf("copied from %s r%d %s", d.From, d.RoundNumber, pathStr(dp))
						break
					}
				}
				if how != "" {
					break
				}
			}
			if how == "" {
				c.Rng.Read(b)
				how = "re-randomised"
			}
		}
		nv = b
	case uint64:
		nv = o + 1
		how = "+1"
	case int64:
		nv = o - 1
		how = "-1"
	case bool:
		nv = !o
		how = "negated"
	case string:
		nv = o + "x"
		how = "text changed"
	default:
		return nil
	}
	setAt(tree, p, nv)
	data, err := cbor.Marshal(tree)
	if err != nil {
		return nil
	}
	cp.Data = data
	t.applied = append(t.applied, fmt.Sprintf("r%d->%s: %s %s", m.RoundNumber, to, pathStr(p), how))
	return &cp
}

func (t *tamperer) filter(m *protocol.Message, to party.ID) []*protocol.Message {
	if m.From != t.cheater || m.RoundNumber == 0 {
		if m.RoundNumber != 0 {
			t.others = append(t.others, m)
		}
		return []*protocol.Message{m}
	}
	t.seen = append(t.seen, m)
	if t.impersonateRound > 0 && m.Broadcast && int(m.RoundNumber) == t.impersonateRound {
		if t.donor == nil {
			for _, o := range t.others {
				if o.Broadcast && o.RoundNumber == m.RoundNumber && o.From != t.cheater {
					t.donor = o
					break
				}
			}
		}
		if t.donor != nil {
			cp := *m
			cp.Data = append([]byte{}, t.donor.Data...)
			if t.impersonated == 0 {
				t.applied = append(t.applied, fmt.Sprintf("r%d: whole broadcast content replaced by that of %s (impersonation)", m.RoundNumber, t.donor.From))
			}
			t.impersonated = t.impersonateRound
			return []*protocol.Message{&cp}
		}
	}
	if t.budget <= 0 || t.c.Intn(3) != 0 {
		return []*protocol.Message{m}
	}
	if x := t.mutate(m, to); x != nil {
		t.budget--
		return []*protocol.Message{x}
	}
	return []*protocol.Message{m}
}

func culpritsJ(res sessionResult, honest []party.ID) J {
	out := J{}
	for _, id := range honest {
		err, ok := res.Errors[id]
		if !ok {
			continue
		}
		var pe protocol.Error
		cul := []string{}
		if errors.As(err, &pe) {
			for _, c := range pe.Culprits {
				cul = append(cul, hx([]byte(c)))
			}
		}
		out[hx([]byte(id))] = J{"culprits": cul, "err": err.Error()}
	}
	return out
}

func tamperKeygen(c *Ctx, kind string) { tamperKeygenX(c, kind, false) }

// tamperKeygenX: forceImp = always the impersonation deviation (suite sess-impersonate)
func tamperKeygenX(c *Ctx, kind string, forceImp bool) {
	n := 3 + c.Intn(2)
	t := 1 + c.Intn(n-1)
	ids := genIDs(c, n)
	if kind == "doerner" {
		n, t = 2, 1
		ids = ids[:2]
	}
	if kind == "cmp" {
		n, ids = 3, ids[:3]
		t = 1 + c.Intn(2)
	}
	cheater := ids[c.Intn(n)]
	tm := &tamperer{c: c, cheater: cheater, budget: 1 + c.Intn(2)}
	if (kind == "frost" || kind == "frost-taproot") && (forceImp || c.Intn(3) == 0) {
		// FROST keygen round 2 carries a proof of knowledge bound to its sender: replay another party's broadcast under
		// the cheater's name (the cheater is the last party in id order, so the others' broadcasts are known when its own is routed)
		sorted := party.NewIDSlice(ids)
		cheater = sorted[len(sorted)-1]
		tm = &tamperer{c: c, cheater: cheater, budget: 0, impersonateRound: 2}
	}
	sid := c.Bytes(8)
	hs := map[party.ID]protocol.Handler{}
	for i, id := range ids {
		var h protocol.Handler
		var err error
		switch kind {
		case "frost":
			h, err = protocol.NewMultiHandler(frost.Keygen(secp, id, ids, t), sid)
		case "frost-taproot":
			h, err = protocol.NewMultiHandler(frost.KeygenTaproot(id, ids, t), sid)
		case "cmp":
			h, err = protocol.NewMultiHandler(cmp.Keygen(secp, id, ids, t, nil), sid)
		case "doerner":
			if i == 0 {
				h, err = protocol.NewTwoPartyHandler(doerner.Keygen(secp, true, ids[0], ids[1], nil), sid, true)
			} else {
				h, err = protocol.NewTwoPartyHandler(doerner.Keygen(secp, false, ids[1], ids[0], nil), sid, false)
			}
		}
		if err != nil {
			return
		}
		hs[id] = h
	}
	res := runSessions(c, hs, "random", tm.filter)
	honest := []party.ID{}
	for _, id := range ids {
		if id != cheater {
			honest = append(honest, id)
		}
	}
	parties := []J{}
	for _, id := range honest {
		switch v := res.Results[id].(type) {
		case *frost.Config:
			parties = append(parties, frostCfgJ(v))
		case *frost.TaprootConfig:
			parties = append(parties, taprootCfgJ(v))
		case *cmp.Config:
			parties = append(parties, cmpCfgJ(v))
		case *doerner.ConfigReceiver:
			parties = append(parties, J{"id": hx([]byte(id)), "role": "receiver", "share": scHex(v.SecretShare), "pub": ptHex(v.Public), "chain": hx(v.ChainKey)})
		case *doerner.ConfigSender:
			parties = append(parties, J{"id": hx([]byte(id)), "role": "sender", "share": scHex(v.SecretShare), "pub": ptHex(v.Public), "chain": hx(v.ChainKey)})
		}
	}
	in := J{"phase": "keygen", "kind": kind, "n": n, "t": t, "ids": idsHex(ids), "cheater": hx([]byte(cheater)), "tampering": tm.applied,
		"parties": parties, "blame": culpritsJ(res, honest), "honest": idsHex(honest)}
	if tm.impersonated > 0 {
		in["impersonated_round"] = tm.impersonated
		c.Count("sess/tamper/impersonation")
	}
	var impl interface{} = J{"ok": true}
	if res.Panic != "" {
		impl = J{"outcome": "PANIC", "detail": res.Panic}
	}
	c.Emit("tamper", in, impl)
	c.Count("sess/tamper/keygen/" + kind)
	if len(tm.applied) > 0 {
		c.Count("sess/tamper/applied")
	}
}

func tamperSign(c *Ctx, kind string) {
	n := 3 + c.Intn(2)
	t := 1 + c.Intn(n-1)
	if kind == "doerner" {
		n, t = 2, 1
	}
	if kind == "cmp" || kind == "cmp-presign" {
		n = 3
		t = 1 + c.Intn(2)
	}
	base := kind
	if kind == "cmp-presign" {
		base = "cmp"
	}
	m0, _ := newMaterial(c, base, n, t, c.Bytes(8))
	if !m0.complete() {
		return
	}
	ids := m0.ids
	signers := subset(c, ids, t+1+c.Intn(n-t))
	if kind == "doerner" {
		signers = ids
	}
	if len(signers) < 2 {
		return
	}
	cheater := signers[c.Intn(len(signers))]
	tm := &tamperer{c: c, cheater: cheater, budget: 1 + c.Intn(2)}
	msg := msgOfLen(c)
	sid := c.Bytes(8)
	hs := map[party.ID]protocol.Handler{}
	for i, id := range signers {
		var h protocol.Handler
		var err error
		switch kind {
		case "frost":
			h, err = protocol.NewMultiHandler(frost.Sign(m0.fr[id], signers, msg), sid)
		case "frost-taproot":
			h, err = protocol.NewMultiHandler(frost.SignTaproot(m0.tp[id], signers, msg), sid)
		case "cmp":
			h, err = protocol.NewMultiHandler(cmp.Sign(m0.cm[id], signers, msg, nil), sid)
		case "cmp-presign":
			h, err = protocol.NewMultiHandler(cmp.Presign(m0.cm[id], signers, nil), sid)
		case "doerner":
			if i == 0 {
				h, err = protocol.NewTwoPartyHandler(doerner.SignReceiver(m0.dr, signers[0], signers[1], msg, nil), sid, true)
			} else {
				h, err = protocol.NewTwoPartyHandler(doerner.SignSender(m0.ds, signers[1], signers[0], msg, nil), sid, false)
			}
		}
		if err != nil {
			return
		}
		hs[id] = h
	}
	res := runSessions(c, hs, "random", tm.filter)
	honest := []party.ID{}
	for _, id := range signers {
		if id != cheater {
			honest = append(honest, id)
		}
	}
	sigs := []J{}
	presigs := []J{}
	pres := 0
	for _, id := range honest {
		switch v := res.Results[id].(type) {
		case frost.Signature:
			sigs = append(sigs, J{"id": hx([]byte(id)), "R": ptHex(v.R), "z": scHex(frostSigZ(v))})
		case taproot.Signature:
			sigs = append(sigs, J{"id": hx([]byte(id)), "sig": hx(v)})
		case *ecdsa.Signature:
			sigs = append(sigs, J{"id": hx([]byte(id)), "R": ptHex(v.R), "s": scHex(v.S)})
		case *ecdsa.PreSignature:
			pres++
			presigs = append(presigs, J{"id": hx([]byte(id)), "psid": hx(v.ID), "R": ptHex(v.R)})
		}
	}
	in := J{"phase": "sign", "kind": kind, "n": n, "t": t, "ids": idsHex(ids), "signers": idsHex(signers), "cheater": hx([]byte(cheater)),
		"tampering": tm.applied, "msg": hx(msg), "sigs": sigs, "presignatures": pres, "presigs": presigs, "blame": culpritsJ(res, honest), "honest": idsHex(honest)}
	switch base {
	case "frost":
		in["pub"] = ptHex(m0.fr[signers[0]].PublicKey)
	case "frost-taproot":
		in["xonly"] = hx(m0.tp[signers[0]].PublicKey)
	case "cmp":
		in["pub"] = ptHex(m0.cm[signers[0]].PublicPoint())
	case "doerner":
		in["pub"] = ptHex(m0.dr.Public)
	}
	var impl interface{} = J{"ok": true}
	if res.Panic != "" {
		impl = J{"outcome": "PANIC", "detail": res.Panic}
	}
	c.Emit("tamper", in, impl)
	c.Count("sess/tamper/sign/" + kind)
	if len(tm.applied) > 0 {
		c.Count("sess/tamper/applied")
	}
}

// tamperPresignOnline: honest offline presigning, every presignature stored and reloaded with the documented
// encoders, then the online signing round with one deviating signer (wrong sigma share through tampering).
func tamperPresignOnline(c *Ctx) {
	n := 3
	t := 1 + c.Intn(2)
	if c.Intn(3) != 0 {
		t = 1 // mostly MORE than t+1 signers (all three sign)
	}
	m0, _ := newMaterial(c, "cmp", n, t, c.Bytes(8))
	if !m0.complete() {
		return
	}
	signers := subset(c, m0.ids, t+1+c.Intn(n-t))
	if len(signers) < 3 {
		signers = m0.ids
	}
	sid := c.Bytes(8)
	hs := map[party.ID]protocol.Handler{}
	for _, id := range signers {
		h, err := protocol.NewMultiHandler(cmp.Presign(m0.cm[id], signers, nil), sid)
		if err != nil {
			return
		}
		hs[id] = h
	}
	res := runSessions(c, hs, "random", nil)
	pres := map[party.ID]*ecdsa.PreSignature{}
	for _, id := range signers {
		p, ok := res.Results[id].(*ecdsa.PreSignature)
		if !ok {
			c.Emit("tamper", J{"phase": "sign", "kind": "cmp-presign-online", "tampering": []string{}, "blame": culpritsJ(res, signers), "sigs": []J{},
				"signers": idsHex(signers), "cheater": "", "honest": idsHex(signers), "msg": "", "note": "honest presign did not complete"}, J{"ok": true})
			return
		}
		// store and reload
		b, err := cbor.Marshal(p)
		if err != nil {
			return
		}
		q := ecdsa.EmptyPreSignature(secp)
		if err := cbor.Unmarshal(b, q); err != nil {
			c.Emit("tamper", J{"phase": "sign", "kind": "cmp-presign-online", "note": "reload failed: " + err.Error()}, J{"ok": true})
			return
		}
		pres[id] = q
	}
	// one online signing per kind of deviation: any malformation (0), then two well-formed but wrong sigma shares
	// (last byte +1, one bit flipped): those reach the share verification that uses the RELOADED presignature
	for _, how := range []int{0, 4, 2} {
		tamperOnlineRun(c, m0, signers, pres, sid, n, t, how)
	}
}

func tamperOnlineRun(c *Ctx, m0 *material, signers []party.ID, pres map[party.ID]*ecdsa.PreSignature, sid []byte, n, t, how int) {
	cheater := signers[c.Intn(len(signers))]
	if how == 4 {
		// the LAST signer of the list: beyond position t when more than t+1 parties sign
		cheater = party.NewIDSlice(signers)[len(signers)-1]
	}
	tm := &tamperer{c: c, cheater: cheater, budget: 1, forceHow: how}
	msg := msgOfLen(c)
	hs2 := map[party.ID]protocol.Handler{}
	for _, id := range signers {
		h, err := protocol.NewMultiHandler(cmp.PresignOnline(m0.cm[id], pres[id], msg, nil), sid)
		if err != nil {
			return
		}
		hs2[id] = h
	}
	// the cheater always deviates in its (single) online message
	force := func(m *protocol.Message, to party.ID) []*protocol.Message {
		if m.From == cheater && m.RoundNumber != 0 && tm.budget > 0 {
			for tries := 0; tries < 20; tries++ {
				if x := tm.mutate(m, to); x != nil {
					tm.budget--
					tm.seen = append(tm.seen, m)
					return []*protocol.Message{x}
				}
			}
		}
		return tm.filter(m, to)
	}
	res2 := runSessions(c, hs2, "random", force)
	honest := []party.ID{}
	for _, id := range signers {
		if id != cheater {
			honest = append(honest, id)
		}
	}
	sigs := []J{}
	for _, id := range honest {
		if v, ok := res2.Results[id].(*ecdsa.Signature); ok {
			sigs = append(sigs, J{"id": hx([]byte(id)), "R": ptHex(v.R), "s": scHex(v.S)})
		}
	}
	in := J{"phase": "sign", "kind": "cmp-presign-online", "n": n, "t": t, "ids": idsHex(m0.ids), "signers": idsHex(signers), "cheater": hx([]byte(cheater)),
		"tampering": tm.applied, "msg": hx(msg), "sigs": sigs, "blame": culpritsJ(res2, honest), "honest": idsHex(honest),
		"pub": ptHex(m0.cm[signers[0]].PublicPoint())}
	if how > 0 && len(tm.applied) > 0 {
		// a well-formed but wrong sigma share is provable from the presignature (VerifySignatureShares): whoever reaches a
		// verdict of its own names exactly the deviating signer - wherever it stands in the signer list
		in["expect_named"] = true
	}
	var impl interface{} = J{"ok": true}
	if res2.Panic != "" {
		impl = J{"outcome": "PANIC", "detail": res2.Panic}
	}
	c.Emit("tamper", in, impl)
	c.Count("sess/tamper/sign/cmp-presign-online")
}

// tamperCmpKeygenShare: CMP key generation in which one dealer sends one recipient a WELL-FORMED encryption of a value
// outside [0, q) instead of its share (-5, q+5, share+q ...): the plaintext is what the recipient's range / VSS checks
// are for. An honest recipient must not finish with a share that does not match the public table.
func tamperCmpKeygenShare(c *Ctx) {
	n, t := 3, 1+c.Intn(2)
	ids := genIDs(c, n)
	sorted := party.NewIDSlice(ids)
	cheater, victim := sorted[n-1], sorted[c.Intn(n-1)]
	q := new(big.Int).SetBytes(secp.Order().Bytes())
	var pt *big.Int
	switch c.Intn(3) {
	case 0:
		pt = big.NewInt(-5)
	case 1:
		pt = new(big.Int).Add(q, big.NewInt(5))
	default:
		pt = new(big.Int).Add(new(big.Int).Mul(q, big.NewInt(int64(2+c.Intn(5)))), new(big.Int).SetBytes(c.Bytes(31)))
	}
	plaintext := new(saferith.Int).SetBig(pt, pt.BitLen()+1)
	sid := c.Bytes(8)
	hs := map[party.ID]protocol.Handler{}
	for _, id := range ids {
		h, err := protocol.NewMultiHandler(cmp.Keygen(secp, id, ids, t, nil), sid)
		if err != nil {
			return
		}
		hs[id] = h
	}
	var victimN *saferith.Modulus
	applied := []string{}
	filter := func(m *protocol.Message, to party.ID) []*protocol.Message {
		if m.From == victim && m.Broadcast && m.RoundNumber == 3 && victimN == nil {
			victimN = cmpkeygen.VerifBroadcast3N(secp, m.Data)
		}
		if m.From == cheater && !m.Broadcast && m.RoundNumber == 4 && to == victim {
			if d := cmpkeygen.VerifReencryptShare(m.Data, victimN, plaintext); d != nil {
				cp := *m
				cp.Data = d
				applied = append(applied, fmt.Sprintf("r4->%s: /Share = Enc(%s) (outside [0,q))", to, pt.Text(16)))
				return []*protocol.Message{&cp}
			}
		}
		return []*protocol.Message{m}
	}
	res := runSessions(c, hs, "fifo", filter)
	honest := []party.ID{}
	parties := []J{}
	for _, id := range ids {
		if id == cheater {
			continue
		}
		honest = append(honest, id)
		if v, ok := res.Results[id].(*cmp.Config); ok {
			parties = append(parties, cmpCfgJ(v))
		}
	}
	in := J{"phase": "keygen", "kind": "cmp", "n": n, "t": t, "ids": idsHex(ids), "cheater": hx([]byte(cheater)), "tampering": applied,
		"parties": parties, "blame": culpritsJ(res, honest), "honest": idsHex(honest)}
	var impl interface{} = J{"ok": true}
	if res.Panic != "" {
		impl = J{"outcome": "PANIC", "detail": res.Panic}
	}
	c.Emit("tamper", in, impl)
	c.Count("sess/tamper/keygen/cmp-share-range")
}

// frostLateBadResponse: FROST signing by MORE than t+1 signers in which one signer's response z_i is wrong (+1) and
// reaches every honest signer AFTER all honest responses. The wrong response is provable (it fails its own
// verification-share equation): every honest signer that reaches a verdict of its own must name exactly that signer.
func frostLateBadResponse(c *Ctx, kind string) {
	n := 4 + c.Intn(2)
	t := 1 + c.Intn(n-2) // t+1 < n
	m0, _ := newMaterial(c, kind, n, t, c.Bytes(8))
	if !m0.complete() {
		return
	}
	signers := m0.ids
	cheater := signers[c.Intn(n)]
	msg := msgOfLen(c)
	sid := c.Bytes(8)
	hs := map[party.ID]protocol.Handler{}
	for _, id := range signers {
		var h protocol.Handler
		var err error
		if kind == "frost" {
			h, err = protocol.NewMultiHandler(frost.Sign(m0.fr[id], signers, msg), sid)
		} else {
			h, err = protocol.NewMultiHandler(frost.SignTaproot(m0.tp[id], signers, msg), sid)
		}
		if err != nil {
			return
		}
		hs[id] = h
	}
	applied := []string{}
	stash := map[party.ID]*protocol.Message{}
	cnt := map[party.ID]int{}
	need := func(to party.ID) int { return n - 2 } // honest signers other than `to`
	bad := func(m *protocol.Message) *protocol.Message {
		var tree interface{}
		if cbor.Unmarshal(m.Data, &tree) != nil {
			return nil
		}
		var ls []path
		leaves(tree, nil, &ls)
		for _, p := range ls {
			if b, ok := getAt(tree, p).([]byte); ok && len(b) == 32 {
				nb := append([]byte{}, b...)
				nb[31]++
				setAt(tree, p, nb)
				d, err := cbor.Marshal(tree)
				if err != nil {
					return nil
				}
				cp := *m
				cp.Data = d
				if len(applied) == 0 {
					applied = append(applied, fmt.Sprintf("r3: %s last byte +1 for every recipient, delivered after all honest responses", pathStr(p)))
				}
				return &cp
			}
		}
		return nil
	}
	filter := func(m *protocol.Message, to party.ID) []*protocol.Message {
		if m.RoundNumber != 3 || !m.Broadcast || to == cheater {
			return []*protocol.Message{m}
		}
		if m.From == cheater {
			x := bad(m)
			if x == nil {
				return []*protocol.Message{m}
			}
			if cnt[to] >= need(to) {
				return []*protocol.Message{x}
			}
			stash[to] = x
			return nil
		}
		cnt[to]++
		out := []*protocol.Message{m}
		if cnt[to] >= need(to) && stash[to] != nil {
			out = append(out, stash[to])
			stash[to] = nil
		}
		return out
	}
	res := runSessions(c, hs, "fifo", filter)
	honest := []party.ID{}
	for _, id := range signers {
		if id != cheater {
			honest = append(honest, id)
		}
	}
	sigs := []J{}
	for _, id := range honest {
		switch v := res.Results[id].(type) {
		case frost.Signature:
			sigs = append(sigs, J{"id": hx([]byte(id)), "R": ptHex(v.R), "z": scHex(frostSigZ(v))})
		case taproot.Signature:
			sigs = append(sigs, J{"id": hx([]byte(id)), "sig": hx(v)})
		}
	}
	in := J{"phase": "sign", "kind": kind, "n": n, "t": t, "ids": idsHex(m0.ids), "signers": idsHex(signers), "cheater": hx([]byte(cheater)),
		"tampering": applied, "msg": hx(msg), "sigs": sigs, "blame": culpritsJ(res, honest), "honest": idsHex(honest),
		"expect_named": len(applied) > 0}
	switch kind {
	case "frost":
		in["pub"] = ptHex(m0.fr[signers[0]].PublicKey)
	case "frost-taproot":
		in["xonly"] = hx(m0.tp[signers[0]].PublicKey)
	}
	var impl interface{} = J{"ok": true}
	if res.Panic != "" {
		impl = J{"outcome": "PANIC", "detail": res.Panic}
	}
	c.Emit("tamper", in, impl)
	c.Count("sess/tamper/sign/" + kind + "-late-bad-response")
}

// frostLowDegreeDealer: FROST key generation in which one dealer's polynomial has degree t-1 and everything it sends is
// consistent with it. The deviation is provable from its round-2 broadcast alone (the commitment has t coefficients):
// every honest party that reaches a verdict of its own must name exactly the dealer - and never itself.
func frostLowDegreeDealer(c *Ctx, kind string) {
	n := 3 + c.Intn(2)
	t := 1 + c.Intn(n-1)
	ids := genIDs(c, n)
	cheater := ids[c.Intn(n)]
	sid := c.Bytes(8)
	hs := map[party.ID]protocol.Handler{}
	for _, id := range ids {
		var st protocol.StartFunc
		if kind == "frost" {
			st = frost.Keygen(secp, id, ids, t)
		} else {
			st = frost.KeygenTaproot(id, ids, t)
		}
		if id == cheater {
			st = frostkeygen.VerifLowDegreeStart(st)
		}
		h, err := protocol.NewMultiHandler(st, sid)
		if err != nil {
			return
		}
		hs[id] = h
	}
	res := runSessions(c, hs, randOrder(c), nil)
	honest := []party.ID{}
	parties := []J{}
	for _, id := range ids {
		if id == cheater {
			continue
		}
		honest = append(honest, id)
		switch v := res.Results[id].(type) {
		case *frost.Config:
			parties = append(parties, frostCfgJ(v))
		case *frost.TaprootConfig:
			parties = append(parties, taprootCfgJ(v))
		}
	}
	in := J{"phase": "keygen", "kind": kind, "n": n, "t": t, "ids": idsHex(ids), "cheater": hx([]byte(cheater)),
		"tampering": []string{"the dealer's polynomial has degree t-1 (commitment, proof and shares consistent with it)"},
		"parties": parties, "blame": culpritsJ(res, honest), "honest": idsHex(honest), "expect_named": true}
	var impl interface{} = J{"ok": true}
	if res.Panic != "" {
		impl = J{"outcome": "PANIC", "detail": res.Panic}
	}
	c.Emit("tamper", in, impl)
	c.Count("sess/tamper/keygen/" + kind + "-low-degree-dealer")
}

// presignIDEquivocation: offline CMP presigning in which one signer's LAST broadcast (round 7, after which no echo is
// compared) carries, for ONE honest recipient, another well-formed presignature-ID contribution than the one it committed
// to. Honest signers that finish must hold the same presignature (ID and R).
func presignIDEquivocation(c *Ctx) {
	n, t := 3, 1+c.Intn(2)
	m0, _ := newMaterial(c, "cmp", n, t, c.Bytes(8))
	if !m0.complete() {
		return
	}
	signers := m0.ids
	cheater := signers[c.Intn(n)]
	honest := []party.ID{}
	for _, id := range signers {
		if id != cheater {
			honest = append(honest, id)
		}
	}
	victim := honest[c.Intn(len(honest))]
	sid := c.Bytes(8)
	hs := map[party.ID]protocol.Handler{}
	for _, id := range signers {
		h, err := protocol.NewMultiHandler(cmp.Presign(m0.cm[id], signers, nil), sid)
		if err != nil {
			return
		}
		hs[id] = h
	}
	applied := []string{}
	filter := func(m *protocol.Message, to party.ID) []*protocol.Message {
		if m.From != cheater || m.RoundNumber != 7 || !m.Broadcast || to != victim {
			return []*protocol.Message{m}
		}
		var tree interface{}
		if cbor.Unmarshal(m.Data, &tree) != nil {
			return []*protocol.Message{m}
		}
		mm, ok := tree.(map[interface{}]interface{})
		if !ok {
			return []*protocol.Message{m}
		}
		old, ok := mm["PresignatureID"].([]byte)
		if !ok {
			return []*protocol.Message{m}
		}
		nb := c.Bytes(len(old))
		nb[0] |= 1
		mm["PresignatureID"] = nb
		d, err := cbor.Marshal(mm)
		if err != nil {
			return []*protocol.Message{m}
		}
		cp := *m
		cp.Data = d
		applied = append(applied, fmt.Sprintf("r7->%s: /PresignatureID replaced by another well-formed value (the other signers get the committed one)", to))
		return []*protocol.Message{&cp}
	}
	res := runSessions(c, hs, "random", filter)
	presigs := []J{}
	for _, id := range honest {
		if v, ok := res.Results[id].(*ecdsa.PreSignature); ok {
			presigs = append(presigs, J{"id": hx([]byte(id)), "psid": hx(v.ID), "R": ptHex(v.R)})
		}
	}
	in := J{"phase": "sign", "kind": "cmp-presign", "n": n, "t": t, "ids": idsHex(m0.ids), "signers": idsHex(signers), "cheater": hx([]byte(cheater)),
		"tampering": applied, "msg": "", "sigs": []J{}, "presignatures": len(presigs), "presigs": presigs, "blame": culpritsJ(res, honest),
		"honest": idsHex(honest), "pub": ptHex(m0.cm[signers[0]].PublicPoint())}
	var impl interface{} = J{"ok": true}
	if res.Panic != "" {
		impl = J{"outcome": "PANIC", "detail": res.Panic}
	}
	c.Emit("tamper", in, impl)
	c.Count("sess/tamper/sign/cmp-presign-id-equivocation")
}

// cmpSignRushing: CMP signing in which one signer RUSHES in round `rnd`: it holds its broadcast back until it has seen
// every other signer's, then replaces the scalar field `field` of its own by craft(own value, sum of ALL values).
func cmpSignRushing(c *Ctx, label string, rnd int, field string, craft func(own, total curve.Scalar) curve.Scalar, what string) {
	n, t := 3, 1+c.Intn(2)
	m0, _ := newMaterial(c, "cmp", n, t, c.Bytes(8))
	if !m0.complete() {
		return
	}
	signers := m0.ids
	if t == 1 && c.Intn(2) == 0 {
		signers = party.NewIDSlice(subset(c, m0.ids, 2))
	}
	cheater := signers[c.Intn(len(signers))]
	msg := msgOfLen(c)
	sid := c.Bytes(8)
	hs := map[party.ID]protocol.Handler{}
	closed := map[party.ID]bool{}
	for _, id := range signers {
		h, err := protocol.NewMultiHandler(cmp.Sign(m0.cm[id], signers, msg, nil), sid)
		if err != nil {
			return
		}
		hs[id] = h
	}
	type item struct {
		m  *protocol.Message
		to party.ID
	}
	var queue []item
	var held *protocol.Message
	vals := map[party.ID]curve.Scalar{}
	applied := []string{}
	panicMsg := ""
	getVal := func(m *protocol.Message) curve.Scalar {
		var tree interface{}
		if cbor.Unmarshal(m.Data, &tree) != nil {
			return nil
		}
		mm, ok := tree.(map[interface{}]interface{})
		if !ok {
			return nil
		}
		b, ok := mm[field].([]byte)
		if !ok {
			return nil
		}
		x := secp.NewScalar()
		if x.UnmarshalBinary(b) != nil {
			return nil
		}
		return x
	}
	release := func() {
		if held == nil || len(vals) != len(signers) {
			return
		}
		total := secp.NewScalar()
		for _, x := range vals {
			total.Add(x)
		}
		bad := craft(secp.NewScalar().Set(vals[cheater]), total)
		b, _ := bad.MarshalBinary()
		var tree interface{}
		if cbor.Unmarshal(held.Data, &tree) != nil {
			return
		}
		mm := tree.(map[interface{}]interface{})
		mm[field] = b
		d, err := cbor.Marshal(mm)
		if err != nil {
			return
		}
		cp := *held
		cp.Data = d
		applied = append(applied, fmt.Sprintf("r%d: %s", rnd, what))
		for _, to := range signers {
			if to != cheater {
				queue = append(queue, item{&cp, to})
			}
		}
		held = nil
	}
	collect := func() {
		for _, id := range signers {
			if closed[id] {
				continue
			}
		loop:
			for {
				select {
				case m, ok := <-hs[id].Listen():
					if !ok {
						closed[id] = true
						break loop
					}
					if int(m.RoundNumber) == rnd && m.Broadcast {
						if x := getVal(m); x != nil {
							vals[id] = x
							if id == cheater {
								held = m
								release()
								continue
							}
						}
					}
					for _, to := range signers {
						if to != id && m.IsFor(to) {
							queue = append(queue, item{m, to})
						}
					}
					release()
				default:
					break loop
				}
			}
		}
	}
	collect()
	for steps := 0; len(queue) > 0 && steps < 20000 && panicMsg == ""; steps++ {
		it := queue[0]
		queue = queue[1:]
		done := make(chan interface{}, 1)
		go func() {
			defer func() { done <- recover() }()
			hs[it.to].Accept(it.m)
		}()
	wait:
		for {
			select {
			case r := <-done:
				if r != nil {
					panicMsg = fmt.Sprint(r)
				}
				break wait
			default:
				collect()
			}
		}
		collect()
	}
	res := sessionResult{Results: map[party.ID]interface{}{}, Errors: map[party.ID]error{}}
	honest := []party.ID{}
	sigs := []J{}
	for _, id := range signers {
		if id == cheater {
			continue
		}
		honest = append(honest, id)
		r, err := hs[id].Result()
		if err != nil {
			res.Errors[id] = err
		} else {
			res.Results[id] = r
			if v, ok := r.(*ecdsa.Signature); ok {
				sigs = append(sigs, J{"id": hx([]byte(id)), "R": ptHex(v.R), "s": scHex(v.S)})
			}
		}
	}
	in := J{"phase": "sign", "kind": "cmp", "n": n, "t": t, "ids": idsHex(m0.ids), "signers": idsHex(signers), "cheater": hx([]byte(cheater)),
		"tampering": applied, "msg": hx(msg), "sigs": sigs, "blame": culpritsJ(res, honest), "honest": idsHex(honest),
		"pub": ptHex(m0.cm[signers[0]].PublicPoint())}
	var impl interface{} = J{"ok": true}
	if panicMsg != "" {
		impl = J{"outcome": "PANIC", "detail": panicMsg}
	}
	c.Emit("tamper", in, impl)
	c.Count("sess/tamper/sign/cmp-rushing-" + label)
}

// cmpSignRushingNegation: the rushing signer broadcasts sigma_c - 2*(sum of all shares) in the last round, so that the shares
// add up to -s. (R, -s) has the right x-coordinate but is not a valid signature for the library's format (R is transmitted
// as a point): honest signers must abort ("failed to validate signature"), never output it.
func cmpSignRushingNegation(c *Ctx) {
	cmpSignRushing(c, "negation", 5, "SigmaShare", func(own, total curve.Scalar) curve.Scalar {
		return own.Sub(total).Sub(total)
	}, "the cheater waits for every other sigma share and broadcasts sigma_c - 2*sum (the shares add up to -s)")
}

// cmpSignRushingZeroDelta: the rushing signer broadcasts delta_c - sum in round 4, so that the delta shares add up to ZERO
// (its point and proofs stay the honest ones). The honest signers must end without naming an honest party - in particular
// not themselves.
func cmpSignRushingZeroDelta(c *Ctx) {
	cmpSignRushing(c, "zero-delta", 4, "DeltaShare", func(own, total curve.Scalar) curve.Scalar {
		return own.Sub(total)
	}, "the cheater waits for every other delta share and broadcasts delta_c - sum (the shares add up to 0)")
}

// doernerKeygenCommitTamper: Doerner key generation in which one party opens something else than it is bound to:
// the Receiver changes ONE committed value of its round-2 message (chain key contribution or refresh scalar), or the
// Sender sends a chain-key contribution of the wrong length. The honest party must not finish.
func doernerKeygenCommitTamper(c *Ctx, variant int) {
	ids := genIDs(c, 2)
	recv, send := ids[0], ids[1]
	if c.Intn(2) == 0 {
		recv, send = send, recv
	}
	sid := c.Bytes(8)
	hr, err1 := protocol.NewTwoPartyHandler(doerner.Keygen(secp, true, recv, send, nil), sid, true)
	hsn, err2 := protocol.NewTwoPartyHandler(doerner.Keygen(secp, false, send, recv, nil), sid, false)
	if err1 != nil || err2 != nil {
		return
	}
	cheater, honest := recv, send
	if variant == 2 {
		cheater, honest = send, recv
	}
	applied := []string{}
	filter := func(m *protocol.Message, to party.ID) []*protocol.Message {
		if m.From != cheater || len(applied) > 0 {
			return []*protocol.Message{m}
		}
		var tree interface{}
		if cbor.Unmarshal(m.Data, &tree) != nil {
			return []*protocol.Message{m}
		}
		mm, ok := tree.(map[interface{}]interface{})
		if !ok {
			return []*protocol.Message{m}
		}
		what := ""
		switch variant {
		case 0: // Receiver, message2R: another chain key than the committed one
			if _, is2R := mm["ChainKeyDecommit"]; is2R {
				if b, ok := mm["ChainKey"].([]byte); ok && len(b) > 0 {
					nb := append([]byte{}, b...)
					nb[c.Intn(len(nb))] ^= 1 << uint(c.Intn(8))
					mm["ChainKey"] = nb
					what = "message2R /ChainKey one bit flipped (not the committed value)"
				}
			}
		case 1: // Receiver, message2R: another refresh scalar than the committed one
			if _, is2R := mm["RefreshDecommit"]; is2R {
				if b, ok := mm["RefreshScalar"].([]byte); ok && len(b) == 32 {
					nb := append([]byte{}, b...)
					nb[31] ^= 1
					mm["RefreshScalar"] = nb
					what = "message2R /RefreshScalar changed (not the committed value)"
				}
			}
		case 2: // Sender, message1S: a chain-key contribution that is too long
			if _, is1S := mm["Proof"]; is1S {
				if b, ok := mm["ChainKey"].([]byte); ok && len(b) == 32 {
					mm["ChainKey"] = append(append([]byte{}, b...), c.Bytes(1+31*c.Intn(2))...)
					what = fmt.Sprintf("message1S /ChainKey extended to %d bytes", len(mm["ChainKey"].([]byte)))
				}
			}
		}
		if what == "" {
			return []*protocol.Message{m}
		}
		d, err := cbor.Marshal(mm)
		if err != nil {
			return []*protocol.Message{m}
		}
		cp := *m
		cp.Data = d
		applied = append(applied, fmt.Sprintf("r%d->%s: %s", m.RoundNumber, to, what))
		return []*protocol.Message{&cp}
	}
	res := runSessions(c, map[party.ID]protocol.Handler{recv: hr, send: hsn}, "fifo", filter)
	parties := []J{}
	switch v := res.Results[honest].(type) {
	case *doerner.ConfigReceiver:
		parties = append(parties, J{"id": hx([]byte(honest)), "role": "receiver", "share": scHex(v.SecretShare), "pub": ptHex(v.Public), "chain": hx(v.ChainKey)})
	case *doerner.ConfigSender:
		parties = append(parties, J{"id": hx([]byte(honest)), "role": "sender", "share": scHex(v.SecretShare), "pub": ptHex(v.Public), "chain": hx(v.ChainKey)})
	}
	in := J{"phase": "keygen", "kind": "doerner", "n": 2, "t": 1, "ids": idsHex(ids), "cheater": hx([]byte(cheater)), "tampering": applied,
		"parties": parties, "blame": culpritsJ(res, []party.ID{honest}), "honest": idsHex([]party.ID{honest}), "expect_no_result": len(applied) > 0}
	var impl interface{} = J{"ok": true}
	if res.Panic != "" {
		impl = J{"outcome": "PANIC", "detail": res.Panic}
	}
	c.Emit("tamper", in, impl)
	c.Count(fmt.Sprintf("sess/tamper/keygen/doerner-commit-tamper-%d", variant))
}

// equivocateKeygen: the deviating party runs TWO well-formed executions of a key generation (same id, independent
// randomness): one faces the first honest party, the other the second. Each honest party sees only valid messages, but
// the two see different broadcasts of the deviating party. Both executions hear every honest message. The honest parties
// must not both finish (C06), and whoever finishes holds a consistent result (C03); nobody honest may be blamed (C04).
func equivocateKeygen(c *Ctx, kind string) {
	n, t := 3, 1+c.Intn(2)
	ids := party.NewIDSlice(genIDs(c, n))
	cheater := ids[c.Intn(n)]
	honest := []party.ID{}
	for _, id := range ids {
		if id != cheater {
			honest = append(honest, id)
		}
	}
	sid := c.Bytes(8)
	mk := func(id party.ID) protocol.Handler {
		var h protocol.Handler
		var err error
		switch kind {
		case "frost":
			h, err = protocol.NewMultiHandler(frost.Keygen(secp, id, ids, t), sid)
		case "frost-taproot":
			h, err = protocol.NewMultiHandler(frost.KeygenTaproot(id, ids, t), sid)
		case "cmp":
			h, err = protocol.NewMultiHandler(cmp.Keygen(secp, id, ids, t, nil), sid)
		}
		if err != nil {
			return nil
		}
		return h
	}
	type node struct {
		h      protocol.Handler
		id     party.ID
		faces  map[party.ID]bool // whom this execution's messages reach
		closed bool
	}
	nodes := []*node{}
	all := map[party.ID]bool{}
	for _, id := range ids {
		all[id] = true
	}
	for _, id := range honest {
		nodes = append(nodes, &node{h: mk(id), id: id, faces: all})
	}
	nodes = append(nodes, &node{h: mk(cheater), id: cheater, faces: map[party.ID]bool{honest[0]: true}})
	nodes = append(nodes, &node{h: mk(cheater), id: cheater, faces: map[party.ID]bool{honest[1]: true}})
	for _, nd := range nodes {
		if nd.h == nil {
			return
		}
	}
	type item struct {
		m  *protocol.Message
		to *node
	}
	var queue []item
	panicMsg := ""
	collect := func() {
		for _, nd := range nodes {
			if nd.closed {
				continue
			}
		loop:
			for {
				select {
				case m, ok := <-nd.h.Listen():
					if !ok {
						nd.closed = true
						break loop
					}
					for _, to := range nodes {
						if to == nd || to.id == nd.id || !m.IsFor(to.id) || !nd.faces[to.id] {
							continue
						}
						queue = append(queue, item{m, to})
					}
				default:
					break loop
				}
			}
		}
	}
	accept := func(it item) {
		done := make(chan interface{}, 1)
		go func() {
			defer func() { done <- recover() }()
			it.to.h.Accept(it.m)
		}()
		for {
			select {
			case r := <-done:
				if r != nil {
					panicMsg = fmt.Sprint(r)
				}
				return
			default:
				collect()
			}
		}
	}
	collect()
	for steps := 0; len(queue) > 0 && steps < 20000 && panicMsg == ""; steps++ {
		k := c.Intn(len(queue))
		it := queue[k]
		queue = append(queue[:k], queue[k+1:]...)
		accept(it)
		collect()
	}
	res := sessionResult{Results: map[party.ID]interface{}{}, Errors: map[party.ID]error{}}
	for _, nd := range nodes[:len(honest)] {
		r, err := nd.h.Result()
		if err != nil {
			res.Errors[nd.id] = err
		} else {
			res.Results[nd.id] = r
		}
	}
	parties := []J{}
	for _, id := range honest {
		switch v := res.Results[id].(type) {
		case *frost.Config:
			parties = append(parties, frostCfgJ(v))
		case *frost.TaprootConfig:
			parties = append(parties, taprootCfgJ(v))
		case *cmp.Config:
			parties = append(parties, cmpCfgJ(v))
		}
	}
	in := J{"phase": "keygen", "kind": kind, "n": n, "t": t, "ids": idsHex(ids), "cheater": hx([]byte(cheater)),
		"tampering": []string{"equivocation: two well-formed executions of the deviating party, one facing each honest party"},
		"parties": parties, "blame": culpritsJ(res, honest), "honest": idsHex(honest), "equivocated": true}
	var impl interface{} = J{"ok": true}
	if panicMsg != "" {
		impl = J{"outcome": "PANIC", "detail": panicMsg}
	}
	c.Emit("tamper", in, impl)
	c.Count("sess/tamper/keygen/" + kind + "-equivocation")
}

func init() {
	// C09: every proof-carrying message replayed under another sender's name (FROST keygen round 2: the only broadcast
	// of the shipped protocols whose proof would verify for another party if it were not bound to its maker)
	register("sess-impersonate", func(c *Ctx) {
		seedCryptoRand(c.Seed*7919 + 4242)
		defer restoreCryptoRand()
		for i := 0; i < c.N; i++ {
			tamperKeygenX(c, []string{"frost", "frost-taproot"}[i%2], true)
		}
	})
	// C06 on the real protocols: equivocation by two well-formed executions of one party
	register("sess-equivocate", func(c *Ctx) {
		seedCryptoRand(c.Seed*7919 + 6006)
		defer restoreCryptoRand()
		installPrimeHook(c.Intn(40))
		for i := 0; i < c.N; i++ {
			equivocateKeygen(c, []string{"frost", "frost-taproot"}[i%2])
		}
		if c.Tier == "thorough" {
			equivocateKeygen(c, "cmp")
		}
	})
	register("sess-tamper", func(c *Ctx) {
		// all protocol randomness comes from crypto/rand.Reader: a seeded stream makes the sessions (and with them every
		// later seeded choice of the generator) reproducible
		seedCryptoRand(c.Seed*7919 + 1140)
		defer restoreCryptoRand()
		installPrimeHook(c.Intn(40))
		fast := []string{"frost", "frost-taproot", "doerner"}
		for i := 0; i < c.N; i++ {
			k := fast[i%3]
			if i%2 == 0 {
				tamperSign(c, k)
			} else {
				tamperKeygen(c, k)
			}
		}
		// Doerner key generation: a committed value opened differently / a contribution of the wrong length
		for v := 0; v < 3; v++ {
			doernerKeygenCommitTamper(c, v)
		}
		// a dealer whose polynomial has the wrong degree, consistently
		for i := 0; i < 2+c.N/15; i++ {
			frostLowDegreeDealer(c, []string{"frost", "frost-taproot"}[i%2])
		}
		// a provably wrong FROST response delivered after all honest ones, with more than t+1 signers
		for i := 0; i < 2+c.N/15; i++ {
			frostLateBadResponse(c, []string{"frost", "frost-taproot"}[i%2])
		}
		// equivocation by two well-formed executions of the deviating party (fast protocols; CMP in the thorough tier)
		for i := 0; i < 2+c.N/15; i++ {
			equivocateKeygen(c, []string{"frost", "frost-taproot"}[i%2])
		}
		if c.Tier == "thorough" {
			equivocateKeygen(c, "cmp")
		}
		// CMP signing with a rushing signer that negates the sum of the sigma shares (once per run)
		cmpSignRushingNegation(c)
		cmpSignRushingZeroDelta(c)
		// offline presigning with an equivocated presignature-ID contribution in the last broadcast (once per run)
		presignIDEquivocation(c)
		// CMP keygen with a well-formed encryption of an out-of-range share (once per run: ~10 s)
		tamperCmpKeygenShare(c)
		// a slice of CMP (sign, presign, keygen): seconds per session
		cmpRuns := c.N / 25
		if c.Tier == "thorough" {
			cmpRuns = c.N / 6
		}
		for i := 0; i < cmpRuns+1; i++ {
			switch i % 4 {
			case 3:
				tamperSign(c, "cmp")
			case 0:
				tamperPresignOnline(c)
			case 1:
				tamperSign(c, "cmp-presign")
			case 2:
				tamperKeygen(c, "cmp")
			}
		}
	})
}

// ---- CMP presigning: a signer whose delta / chi / sigma contribution is inconsistent (C04) ------------------

func presignAbort(c *Ctx, variant, deviation string, cheaterIdx int) {
	n := 3
	t := 2
	m0, _ := newMaterial(c, "cmp", n, t, c.Bytes(8))
	if !m0.complete() {
		return
	}
	signers := m0.ids
	cheater := signers[cheaterIdx%len(signers)]
	msg := c.Bytes(32)
	sid := c.Bytes(8)
	mkStart := func(id party.ID, pre *ecdsa.PreSignature) protocol.StartFunc {
		var st protocol.StartFunc
		switch variant {
		case "offline":
			st = cmp.Presign(m0.cm[id], signers, nil)
		case "full":
			st = presignFull(m0.cm[id], signers, msg)
		case "online":
			st = cmp.PresignOnline(m0.cm[id], pre, msg, nil)
		}
		if id == cheater {
			st = protocol.StartFunc(presignDeviate(st, deviation))
		}
		return st
	}
	pres := map[party.ID]*ecdsa.PreSignature{}
	if variant == "online" {
		hs := map[party.ID]protocol.Handler{}
		for _, id := range signers {
			h, err := protocol.NewMultiHandler(cmp.Presign(m0.cm[id], signers, nil), sid)
			if err != nil {
				return
			}
			hs[id] = h
		}
		res := runSessions(c, hs, "fifo", nil)
		for _, id := range signers {
			p, ok := res.Results[id].(*ecdsa.PreSignature)
			if !ok {
				return
			}
			pres[id] = p
		}
	}
	hs := map[party.ID]protocol.Handler{}
	for _, id := range signers {
		h, err := protocol.NewMultiHandler(mkStart(id, pres[id]), sid)
		if err != nil {
			c.Emit("tamper", J{"phase": "sign", "kind": "cmp-presign-" + variant, "note": "start failed: " + err.Error(), "tampering": []string{},
				"blame": J{}, "sigs": []J{}, "signers": idsHex(signers), "cheater": hx([]byte(cheater)), "honest": []string{}, "msg": ""}, J{"ok": true})
			return
		}
		hs[id] = h
	}
	// abort notices are not forwarded: every honest signer has to reach its own verdict
	dropNotices := func(m *protocol.Message, to party.ID) []*protocol.Message {
		if m.RoundNumber == 0 {
			return nil
		}
		return []*protocol.Message{m}
	}
	res := runSessions(c, hs, "random", dropNotices)
	honest := []party.ID{}
	for _, id := range signers {
		if id != cheater {
			honest = append(honest, id)
		}
	}
	sigs := []J{}
	npre := 0
	for _, id := range honest {
		switch v := res.Results[id].(type) {
		case *ecdsa.Signature:
			sigs = append(sigs, J{"id": hx([]byte(id)), "R": ptHex(v.R), "s": scHex(v.S)})
		case *ecdsa.PreSignature:
			npre++
		}
	}
	in := J{"phase": "sign", "kind": "cmp-presign-" + variant, "n": n, "t": t, "ids": idsHex(m0.ids), "signers": idsHex(signers),
		"cheater": hx([]byte(cheater)), "tampering": []string{"state-level deviation: " + deviation}, "msg": hx(msg), "sigs": sigs,
		"presignatures": npre, "blame": culpritsJ(res, honest), "honest": idsHex(honest), "pub": ptHex(m0.cm[signers[0]].PublicPoint()),
		"expect_identified": true}
	var impl interface{} = J{"ok": true}
	if res.Panic != "" {
		impl = J{"outcome": "PANIC", "detail": res.Panic}
	}
	c.Emit("tamper", in, impl)
	c.Count("sess/presign-abort/" + variant + "/" + deviation)
}

func init() {
	register("sess-presign-abort", func(c *Ctx) {
		// all protocol randomness comes from crypto/rand.Reader: a seeded stream makes the sessions (and with them every
		// later seeded choice of the generator) reproducible
		seedCryptoRand(c.Seed*7919 + 1832)
		defer restoreCryptoRand()
		installPrimeHook(c.Intn(40))
		type combo struct{ v, d string }
		all := []combo{{"offline", "delta-share"}, {"full", "chi-x"}, {"full", "gamma"}, {"online", "sigma"}, {"offline", "chi-x"}, {"offline", "gamma"},
			{"full", "delta-share"}, {"full", "sigma"}}
		k := c.N
		if k > len(all)*3 {
			k = len(all) * 3
		}
		for i := 0; i < k; i++ {
			cb := all[i%len(all)]
			presignAbort(c, cb.v, cb.d, c.Intn(3))
		}
	})
}
