package main

// A small, self-contained CBOR tree (definite lengths, as fxamacker/cbor emits them) with byte-exact
// re-encoding, used to malform ONE field path of a real encoding and leave every other byte alone.
// Byte strings whose content is itself one CBOR item (MarshalBinary types that call cbor.Marshal, e.g.
// party.PointMap), possibly behind a 4-byte big-endian count (polynomial.Exponent), are descended into.
// Independent of the decoder under test.

import (
	"encoding/binary"
	"errors"
	"fmt"
	"sort"
)

type cnode struct {
	major  byte    // 0..7
	arg    uint64  // value / length / tag number / simple value
	ai     byte    // additional info as encoded (keeps the width of the header)
	data   []byte  // content of byte / text strings (when not embedded)
	kids   []*cnode // array elements; map: k0,v0,k1,v1,...; tag: 1 kid; embedded bstr: 1 kid
	prefix []byte  // embedded bstr: raw bytes before the embedded item (nil or 4 bytes)
	embed  bool    // bstr whose content is prefix ++ encode(kids[0])
	// rawHeader, when set, replaces the computed header (used for lying length prefixes)
	rawHeader []byte
}

var errCBOR = errors.New("cbor: malformed")

// cborHeader: initial byte + argument; `ai` (24..27) asks for at least that width, otherwise the shortest form.
func cborHeader(major byte, ai byte, arg uint64) []byte {
	width := 0
	switch ai {
	case 24:
		width = 1
	case 25:
		width = 2
	case 26:
		width = 4
	case 27:
		width = 8
	}
	min := 8
	switch {
	case arg < 24:
		min = 0
	case arg < 1<<8:
		min = 1
	case arg < 1<<16:
		min = 2
	case arg < 1<<32:
		min = 4
	}
	if width < min {
		width = min
	}
	switch width {
	case 0:
		return []byte{major<<5 | byte(arg)}
	case 1:
		return []byte{major<<5 | 24, byte(arg)}
	case 2:
		b := []byte{major<<5 | 25, 0, 0}
		binary.BigEndian.PutUint16(b[1:], uint16(arg))
		return b
	case 4:
		b := []byte{major<<5 | 26, 0, 0, 0, 0}
		binary.BigEndian.PutUint32(b[1:], uint32(arg))
		return b
	}
	b := make([]byte, 9)
	b[0] = major<<5 | 27
	binary.BigEndian.PutUint64(b[1:], arg)
	return b
}

// minimal header (shortest form)
func cborMinHeader(major byte, arg uint64) []byte { return cborHeader(major, 0, arg) }

func parseCBOR(b []byte, depth int) (*cnode, int, error) {
	if len(b) == 0 || depth > 64 {
		return nil, 0, errCBOR
	}
	major, ai := b[0]>>5, b[0]&31
	var arg uint64
	n := 1
	switch {
	case ai < 24:
		arg = uint64(ai)
	case ai == 24:
		if len(b) < 2 {
			return nil, 0, errCBOR
		}
		arg, n = uint64(b[1]), 2
	case ai == 25:
		if len(b) < 3 {
			return nil, 0, errCBOR
		}
		arg, n = uint64(binary.BigEndian.Uint16(b[1:])), 3
	case ai == 26:
		if len(b) < 5 {
			return nil, 0, errCBOR
		}
		arg, n = uint64(binary.BigEndian.Uint32(b[1:])), 5
	case ai == 27:
		if len(b) < 9 {
			return nil, 0, errCBOR
		}
		arg, n = binary.BigEndian.Uint64(b[1:]), 9
	default:
		return nil, 0, errCBOR // indefinite lengths are not produced by the encoder
	}
	nd := &cnode{major: major, arg: arg, ai: ai}
	switch major {
	case 0, 1, 7:
		return nd, n, nil
	case 2, 3:
		if arg > uint64(len(b)-n) {
			return nil, 0, errCBOR
		}
		nd.data = append([]byte{}, b[n:n+int(arg)]...)
		n += int(arg)
		if major == 2 {
			nd.tryEmbed(depth)
		}
		return nd, n, nil
	case 4, 5:
		cnt := arg
		if major == 5 {
			cnt *= 2
		}
		if cnt > uint64(len(b)) {
			return nil, 0, errCBOR
		}
		for i := uint64(0); i < cnt; i++ {
			k, m, err := parseCBOR(b[n:], depth+1)
			if err != nil {
				return nil, 0, err
			}
			nd.kids = append(nd.kids, k)
			n += m
		}
		return nd, n, nil
	case 6:
		k, m, err := parseCBOR(b[n:], depth+1)
		if err != nil {
			return nil, 0, err
		}
		nd.kids = []*cnode{k}
		return nd, n + m, nil
	}
	return nil, 0, errCBOR
}

// tryEmbed: the content is one CBOR array/map (optionally after a 4-byte count) => descend.
func (nd *cnode) tryEmbed(depth int) {
	for _, off := range []int{0, 4} {
		if len(nd.data) <= off+1 {
			continue
		}
		m := nd.data[off] >> 5
		if m != 4 && m != 5 {
			continue
		}
		k, used, err := parseCBOR(nd.data[off:], depth+1)
		if err == nil && used == len(nd.data)-off && len(k.kids) > 0 {
			nd.embed, nd.kids, nd.prefix = true, []*cnode{k}, append([]byte{}, nd.data[:off]...)
			nd.data = nil
			return
		}
	}
}

func (nd *cnode) encode() []byte {
	var body []byte
	switch nd.major {
	case 0, 1, 7:
		if nd.rawHeader != nil {
			return nd.rawHeader
		}
		return cborHeader(nd.major, nd.ai, nd.arg)
	case 2, 3:
		if nd.embed {
			body = append(append([]byte{}, nd.prefix...), nd.kids[0].encode()...)
		} else {
			body = nd.data
		}
		h := nd.rawHeader
		if h == nil {
			h = cborMinHeader(nd.major, uint64(len(body)))
		}
		return append(append([]byte{}, h...), body...)
	case 4, 5:
		for _, k := range nd.kids {
			body = append(body, k.encode()...)
		}
		cnt := uint64(len(nd.kids))
		if nd.major == 5 {
			cnt /= 2
		}
		h := nd.rawHeader
		if h == nil {
			h = cborMinHeader(nd.major, cnt)
		}
		return append(append([]byte{}, h...), body...)
	case 6:
		return append(cborHeader(6, nd.ai, nd.arg), nd.kids[0].encode()...)
	}
	return nil
}

func (nd *cnode) clone() *cnode {
	c := *nd
	c.data = append([]byte{}, nd.data...)
	c.prefix = append([]byte{}, nd.prefix...)
	if nd.prefix == nil {
		c.prefix = nil
	}
	c.rawHeader = append([]byte{}, nd.rawHeader...)
	if nd.rawHeader == nil {
		c.rawHeader = nil
	}
	c.kids = make([]*cnode, len(nd.kids))
	for i, k := range nd.kids {
		c.kids[i] = k.clone()
	}
	return &c
}

func (nd *cnode) kindName() string {
	switch nd.major {
	case 0:
		return "uint"
	case 1:
		return "nint"
	case 2:
		if nd.embed {
			return "bstr-cbor"
		}
		return "bstr"
	case 3:
		return "tstr"
	case 4:
		return "array"
	case 5:
		return "map"
	case 6:
		return "tag"
	}
	switch nd.arg {
	case 20:
		return "false"
	case 21:
		return "true"
	case 22:
		return "null"
	}
	return "simple"
}

// ---- paths ---------------------------------------------------------------------------------------

type cpath struct {
	path   string
	node   *cnode
	parent *cnode
	idx    int // index of the node in parent.kids (value index for maps)
}

func keyName(k *cnode) string {
	switch k.major {
	case 3:
		return string(k.data)
	case 2:
		return "h'" + hx(k.data) + "'"
	case 0:
		return fmt.Sprint(k.arg)
	}
	return k.kindName()
}

// walk lists every node with its path. Arrays longer than maxArr (and maps with more than 16 entries) are sampled
// (first, second, last).
func (nd *cnode) walk(path string, parent *cnode, idx int, maxArr int, out *[]cpath) {
	*out = append(*out, cpath{path, nd, parent, idx})
	switch {
	case nd.major == 4:
		n := len(nd.kids)
		for i, k := range nd.kids {
			if n > maxArr && !(i < 2 || i == n-1) {
				continue
			}
			k.walk(fmt.Sprintf("%s[%d]", path, i), nd, i, maxArr, out)
		}
	case nd.major == 5:
		n := len(nd.kids) / 2
		type kv struct {
			name string
			i    int
		}
		var l []kv
		for i := 0; i < n; i++ {
			l = append(l, kv{keyName(nd.kids[2*i]), 2*i + 1})
		}
		sort.SliceStable(l, func(a, b int) bool { return l[a].name < l[b].name })
		for j, e := range l {
			// a map is a struct (every field is a path of its own) or a small table keyed by party: only tables with
			// more than 16 entries are sampled
			if n > 16 && n > maxArr && !(j < 2 || j == n-1) {
				continue
			}
			nd.kids[e.i].walk(path+"."+e.name, nd, e.i, maxArr, out)
		}
	case nd.major == 6 || nd.embed:
		nd.kids[0].walk(path+"<cbor>", nd, 0, maxArr, out)
	}
}

// ---- malformations ---------------------------------------------------------------------------------

var malformations = []string{"absent", "null", "type-uint", "type-array", "type-tstr", "empty", "zero", "negative",
	"oversize-2^32", "oversize-2^63", "uint+1", "uint+2", "len-prefix-2^32", "len-prefix+1", "truncated-half", "truncated-1", "extended",
	"inner-count-2^32", "inner-count-2^27", "inner-count-0", "inner-count+1", "dup-last", "drop-last", "copy-sibling", "key-rename", "bitflip", "all-ff"}

// applyMalformation mutates the tree in place (call it on a clone); false = not applicable to this node.
func applyMalformation(p cpath, kind string) bool {
	nd, par := p.node, p.parent
	replace := func(n *cnode) bool {
		if par == nil {
			*nd = *n
			return true
		}
		par.kids[p.idx] = n
		return true
	}
	content := func() []byte {
		if nd.embed {
			return append(append([]byte{}, nd.prefix...), nd.kids[0].encode()...)
		}
		return nd.data
	}
	switch kind {
	case "absent":
		if par == nil {
			return false
		}
		switch {
		case par.major == 5:
			par.kids = append(par.kids[:p.idx-1], par.kids[p.idx+1:]...)
		case par.major == 4:
			par.kids = append(par.kids[:p.idx], par.kids[p.idx+1:]...)
		default:
			return false
		}
		return true
	case "null":
		return replace(&cnode{major: 7, arg: 22, ai: 22})
	case "type-uint":
		if nd.major == 0 {
			return false
		}
		return replace(&cnode{major: 0, arg: 7})
	case "type-array":
		if nd.major == 4 {
			return false
		}
		return replace(&cnode{major: 4, kids: []*cnode{{major: 0, arg: 1}}})
	case "type-tstr":
		if nd.major == 3 {
			return false
		}
		return replace(&cnode{major: 3, data: []byte("x")})
	case "empty":
		switch nd.major {
		case 2, 3:
			if len(content()) == 0 {
				return false
			}
			return replace(&cnode{major: nd.major})
		case 4, 5:
			if len(nd.kids) == 0 {
				return false
			}
			return replace(&cnode{major: nd.major})
		}
		return false
	case "zero":
		switch nd.major {
		case 0, 1:
			if nd.major == 0 && nd.arg == 0 {
				return false
			}
			return replace(&cnode{major: 0, arg: 0})
		case 2:
			c := content()
			if len(c) == 0 {
				return false
			}
			return replace(&cnode{major: 2, data: make([]byte, len(c))})
		}
		return false
	case "negative":
		if nd.major != 0 {
			return false
		}
		return replace(&cnode{major: 1, arg: nd.arg})
	case "uint+1", "uint+2": // a count / threshold moved to the next values (t -> n-1, n, ...)
		if nd.major != 0 {
			return false
		}
		add := uint64(1)
		if kind == "uint+2" {
			add = 2
		}
		return replace(&cnode{major: 0, arg: nd.arg + add})
	case "oversize-2^32":
		if nd.major != 0 && nd.major != 1 {
			return false
		}
		return replace(&cnode{major: nd.major, arg: 1 << 32, ai: 27})
	case "oversize-2^63":
		if nd.major != 0 && nd.major != 1 {
			return false
		}
		return replace(&cnode{major: nd.major, arg: 1<<63 + 5, ai: 27})
	case "len-prefix-2^32":
		if nd.major < 2 || nd.major > 5 {
			return false
		}
		c := nd.clone()
		c.rawHeader = cborHeader(nd.major, 27, 1<<32-1)
		return replace(c)
	case "len-prefix+1":
		if nd.major < 2 || nd.major > 5 {
			return false
		}
		c := nd.clone()
		n := uint64(len(content()))
		if nd.major == 4 {
			n = uint64(len(nd.kids))
		} else if nd.major == 5 {
			n = uint64(len(nd.kids) / 2)
		}
		c.rawHeader = cborMinHeader(nd.major, n+1)
		return replace(c)
	case "truncated-half", "truncated-1", "extended", "bitflip", "all-ff", "inner-count-2^32", "inner-count-2^27", "inner-count-0", "inner-count+1":
		if nd.major != 2 && nd.major != 3 {
			return false
		}
		c := append([]byte{}, content()...)
		switch kind {
		case "truncated-half":
			if len(c) < 2 {
				return false
			}
			c = c[:len(c)/2]
		case "truncated-1":
			if len(c) < 3 {
				return false
			}
			c = c[:1]
		case "extended":
			c = append(c, 0x01)
		case "bitflip":
			if len(c) == 0 {
				return false
			}
			c[len(c)/2] ^= 0x40
		case "all-ff":
			if len(c) == 0 {
				return false
			}
			for i := range c {
				c[i] = 0xff
			}
		case "inner-count-2^32":
			if len(c) < 5 || nd.major != 2 {
				return false
			}
			copy(c, []byte{0xff, 0xff, 0xff, 0xff})
		case "inner-count-2^27": // the count at which a 32-bit `32*count` wraps to zero
			if len(c) < 5 || nd.major != 2 || !nd.embed || len(nd.prefix) != 4 {
				return false
			}
			copy(c, []byte{0x08, 0, 0, 0})
		case "inner-count-0":
			if len(c) < 5 || nd.major != 2 {
				return false
			}
			copy(c, []byte{0, 0, 0, 0})
		case "inner-count+1":
			if len(c) < 5 || nd.major != 2 || !nd.embed || len(nd.prefix) != 4 {
				return false
			}
			binary.BigEndian.PutUint32(c, binary.BigEndian.Uint32(c)+1)
		}
		return replace(&cnode{major: nd.major, data: c})
	case "dup-last":
		if (nd.major != 4 && nd.major != 5) || len(nd.kids) == 0 {
			return false
		}
		c := nd.clone()
		if nd.major == 4 {
			c.kids = append(c.kids, c.kids[len(c.kids)-1].clone())
		} else {
			c.kids = append(c.kids, c.kids[len(c.kids)-2].clone(), c.kids[len(c.kids)-1].clone())
		}
		return replace(c)
	case "drop-last":
		if (nd.major != 4 && nd.major != 5) || len(nd.kids) == 0 {
			return false
		}
		c := nd.clone()
		if nd.major == 4 {
			c.kids = c.kids[:len(c.kids)-1]
		} else {
			c.kids = c.kids[:len(c.kids)-2]
		}
		return replace(c)
	case "copy-sibling":
		if par == nil || (par.major != 4 && par.major != 5) {
			return false
		}
		step := 1
		if par.major == 5 {
			step = 2
		}
		j := p.idx + step
		if j >= len(par.kids) {
			j = p.idx - step
		}
		if j < 0 || j >= len(par.kids) || j == p.idx {
			return false
		}
		return replace(par.kids[j].clone())
	case "key-rename":
		// the entry of a map filed under another key (a table keyed by party: the value of one party under an unknown
		// id, with the number of entries unchanged; a struct: an unknown field in the place of a known one)
		if par == nil || par.major != 5 || p.idx < 1 {
			return false
		}
		k := par.kids[p.idx-1]
		if (k.major != 2 && k.major != 3) || k.embed || k.rawHeader != nil {
			return false
		}
		nk := k.clone()
		nk.data = append(append([]byte{}, k.data...), 'x')
		nk.arg = uint64(len(nk.data))
		par.kids[p.idx-1] = nk
		return true
	}
	return false
}

// mutateCBOR: every (path, malformation) of one encoding: calls f with the malformed bytes.
func mutateCBOR(enc []byte, maxArr int, f func(path, kind, nodeKind string, mutated []byte)) error {
	root, used, err := parseCBOR(enc, 0)
	if err != nil || used != len(enc) {
		return fmt.Errorf("cbormut: cannot parse the original encoding (%d of %d bytes): %v", used, len(enc), err)
	}
	if re := root.encode(); string(re) != string(enc) {
		return fmt.Errorf("cbormut: re-encoding differs from the original")
	}
	var paths []cpath
	root.walk("$", nil, 0, maxArr, &paths)
	for pi := range paths {
		for _, kind := range malformations {
			// fresh clone per mutation; locate the same node in the clone by walking again
			cl := root.clone()
			var cps []cpath
			cl.walk("$", nil, 0, maxArr, &cps)
			cp := cps[pi]
			nk := cp.node.kindName()
			if !applyMalformation(cp, kind) {
				continue
			}
			out := cl.encode()
			if string(out) == string(enc) {
				continue
			}
			f(cp.path, kind, nk, out)
		}
	}
	return nil
}
