"""bin/check configuration of property C13 (see bin/props.py)."""

PROP = {'lean': 'MpsProps.C13',
 'theorems': ['Mps.C13.bitat_spec',
              'Mps.C13.transpose_spec',
              'Mps.C13.accumulate_is_gf2_product',
              'Mps.C13.clmul_bilinear',
              'Mps.C13.random_ot_pad_agree',
              'Mps.C13.random_ot_response_complete',
              'Mps.C13.corre_setup_rel',
              'Mps.C13.corre_relation',
              'Mps.C13.kos_check_complete',
              'Mps.C13.ext_ot_choice',
              'Mps.C13.additive_sum',
              'Mps.C13.gadget_encode_sum',
              'Mps.C13.multiply_correct_of_setup',
              'Mps.C13.multiply_correct',
              'Mps.C13.multiply_single_alteration',
              'Mps.C13.additive_mask_loop_in_range',
              'Mps.C13.additive_mask_loop_range_old'],
 'generated': ['Mps.C13.gen_params',
               'Mps.C13.gen_extConsts',
               'Mps.C13.gen_bitAt',
               'Mps.C13.gen_transposeBits',
               'Mps.C13.gen_shl1',
               'Mps.C13.gen_accumulate',
               'Mps.C13.gen_rotSetupSend',
               'Mps.C13.gen_rotRecvRound1',
               'Mps.C13.gen_rotRecvRound2',
               'Mps.C13.gen_rotRecvRound3',
               'Mps.C13.gen_rotSendRound1',
               'Mps.C13.gen_rotSendRound2',
               'Mps.C13.gen_correSetupSenderRound1',
               'Mps.C13.gen_correSetupSenderRound3',
               'Mps.C13.gen_correSetupReceiverRound3',
               'Mps.C13.gen_correSend',
               'Mps.C13.gen_correReceive',
               'Mps.C13.gen_extSend',
               'Mps.C13.gen_extReceive',
               'Mps.C13.gen_additiveSend',
               'Mps.C13.gen_additiveRecv',
               'Mps.C13.gen_scalarBytes',
               'Mps.C13.gen_encode',
               'Mps.C13.gen_makeGadget',
               'Mps.C13.gen_newMultiplySender',
               'Mps.C13.gen_newMultiplyReceiver',
               'Mps.C13.gen_mulSendRound1',
               'Mps.C13.gen_mulRecvRound2',
               'Mps.C13.gen_forkDomains',
               'Mps.C13.gen_bwdWriteTo',
               'Mps.C13.gen_fork',
               'Mps.C13.gen_sampleScalar',
               'Mps.C13.gen_schChallenge'],
 'suites': [{'name': 'ot', 'quick': 40, 'thorough': 1500, 'shards': 8}],
 'propfields': {'ot': ['ok', 'agree', 'rel', 'check', 'choice', 'sum']},
 'level_text': 'Proof: for ALL scalars alpha, beta (any commutative ring; the alteration theorem any integral domain), all choice / noise / extra '
               "bits and ANY hash and PRG outputs: the random OT gives the receiver the sender's pad for its choice bit in any group satisfying the "
               'module laws (random_ot_pad_agree, random_ot_response_complete, corre_setup_rel); transposeBits transposes (transpose_spec); the '
               'coded 4x64-bit accumulate loop is multiplication in GF(2)[X] (accumulate_is_gf2_product, clmul_bilinear); q_j = t_j xor x_j*Delta '
               "for every row (corre_relation); an honest extended OT passes the sender's check and its pads follow the choice bits "
               "(kos_check_complete, ext_ot_choice); recv_i + send_i = c_i*alpha (additive_sum); sum c_i*g_i = beta in the code's bit order for "
               'every gamma (gadget_encode_sum); hence the multiplication never aborts and share_S + share_R = alpha*beta, from the random-OT setup '
               "up (multiply_correct); a message of the sender changed in one field ends in 'integrity check failed' or in the unchanged share given "
               'chi_0 != 0 (multiply_single_alteration). Tied to the code by kernel-checked obligations over the regenerated statement lists of '
               'every transcribed function of internal/ot (32 tables incl. the constants and every hash-domain literal) and by suite ot: every layer '
               'of the real code (bitAt, transposeBits, accumulate, makeGadget, encode, one random OT, the 128-instance setup, correlated / extended '
               '/ additive OT, the multiplication on the scalar lattice {0,1,q-1,q-2,2^128,random}^2) recomputed BIT-EXACTLY by the Lean model '
               '(BLAKE3 + secp256k1 in Lean) from the logged random stream, the relations judged on the dumped values, and every single-field '
               'alteration of each of the seven OT messages judged {error | still-correct product}.',
 'level_note': 'Trusted: Lean kernel; translator; harness+diff. Modelled not verified: Go semantics of the transcribed loops (tied by the statement '
               'tables and the bit-exact differential); the Schnorr proof of the setup message (C10); statistical soundness of the KOS check against '
               'multi-field cheating is not claimed. Repaired by /repo commit eab5a8f (found by this check): AdditiveOTReceiver.Round2 mis-indexed its masking '
               'loops (honest batches <= 32 and truncated / nil pads panicked; witness additive_mask_loop_range_old), RCheck / CombinedPads lengths and nil message parts were used '
               'unchecked. Observation (documented in DESIGN.md, not a C13 violation): every Fork of package ot passes Bytes: nil, which BytesWithDomain.WriteTo refuses, so none of the four '
               'domain strings is ever hashed (the model transcribes this; bit-exact agreement confirms it).'}
