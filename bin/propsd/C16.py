"""bin/check configuration of property C16 (see bin/props.py)."""

PROP = {'lean': 'MpsProps.C16',
 'theorems': ['Mps.C16.ecdsa_verify_iff',
              'Mps.C16.ecdsa_sign_verify',
              'Mps.C16.ecdsa_rs_of_valid',
              'Mps.C16.ecdsa_valid_of_rs',
              'Mps.C16.neg_pair_valid_iff',
              'Mps.C16.eth_low_s',
              'Mps.C16.eth_recover',
              'Mps.C16.eth_recover_iff',
              'Mps.C16.bip340_sign_verify',
              'Mps.C16.from_hash_conforms',
              'Mps.C16.ecdsa_verify_iff_secp',
              'Mps.C16.point_decode_strict_partial',
              'Mps.C16.point_decode_prefix_ignored',
              'Mps.C16.point_decode_not_strict',
              'Mps.C16.point_decode_strict_fixed',
              'Mps.C16.point_decode_strict',
              'Mps.C16.bip340_verify_iff_spec_partial',
              'Mps.C16.bip340_verify_iff_spec',
              'Mps.C16.eth_export_fixed_conforms',
              'Mps.C16.bip340_verify_pklen_unchecked',
              'Mps.C16.eth_export_highx'],
 'generated': ['Mps.C16.gen_point_unmarshal',
               'Mps.C16.gen_point_marshal',
               'Mps.C16.gen_scalar_unmarshal',
               'Mps.C16.gen_liftx',
               'Mps.C16.gen_point_queries',
               'Mps.C16.gen_from_hash',
               'Mps.C16.gen_ecdsa_verify',
               'Mps.C16.gen_sig_ethereum',
               'Mps.C16.gen_tagged_hash',
               'Mps.C16.gen_taproot_verify',
               'Mps.C16.gen_taproot_public',
               'Mps.C16.gen_taproot_sign_hashes'],
 'suites': [{'name': 'sig', 'quick': 150, 'thorough': 3000, 'shards': 8}],
 'propfields': {'sig': ['std', 'std_ok', 'rs', 'recover', 'lows', 'kept', 'xonly', 'match', 'ver', 'std_eth']},
 'level_text': 'Proof + independent oracles: over ANY field of scalars and module of points the model of ecdsa.Signature.Verify accepts iff r,s != 0 and '
               's^-1(mG + rX) = R (ecdsa_verify_iff), textbook signatures verify, (R,s) and textbook (r,s) verification agree, (-R,-s) is valid iff (R,s) '
               'is (what SigEthereum does to the caller\'s signature), low-s normalisation keeps validity, standard recovery returns X exactly for valid '
               'signatures, and BIP-340 default signing verifies in every group with a parity predicate flipping under negation; curve.FromHash equals SEC 1 '
               'bits2int for hashes of every length. The same definitions are executed on secp256k1 and compared with the real code on valid inputs and '
               'every single-field perturbation; BIP-340 test vectors 0-3 are reproduced by Go Sign/Public/Verify and by the Lean specification.',
 'level_note': 'Where the code does not conform the full statement is false and its NEGATION is proved with a kernel-decided witness: point_decode_not_strict '
               '(any prefix byte other than 03 decodes as even), bip340_verify_pklen_unchecked (33/31-byte public keys accepted), eth_export_highx '
               '(x(R) >= n exported un-reduced; standard recovery refuses it). point_decode_strict holds for the patched decoder (point_decode_strict_fixed). '
               'bip340_verify_iff_spec is proved for 32-byte keys (bip340_verify_iff_spec_partial) and, for the working tree, for all inputs once LiftX checks the length; the patched SigEthereum is proved to write the standard export (eth_export_fixed_conforms). secp256k1 arithmetic of the Lean model satisfying '
               'the module laws is in the trusted base (differentially tested against dcrd on every run).'}
