"""bin/check configuration of property C05 (see bin/props.py)."""

PROP = {
    "lean": "MpsProps.C05",
    "theorems": [
        "Mps.C05.accept_total", "Mps.C05.refused_or_late_is_ignored", "Mps.C05.model_behaviours_accepted",
        "Mps.C05.snapGood_of_good",
    ],
    "generated": ["Mps.HandlerSrc.gen_handler_source_0", "Mps.HandlerSrc.gen_handler_source_1", "Mps.HandlerSrc.gen_handler_source_2", "Mps.HandlerSrc.gen_handler_source_3", "Mps.HandlerSrc.gen_handler_source_4", "Mps.HandlerSrc.gen_handler_source_5", "Mps.C05.gen_decode_calls", "Mps.C05.gen_exponent_guards", "Mps.C05.gen_zk_guards", "Mps.C05.gen_round_guards"],
    "suites": [{"name": "malform", "quick": 20, "thorough": 100}, {"name": "codec", "quick": 1, "thorough": 4},
               # the zk verifiers on perturbed / forged / out-of-range proofs (shared with C10): here only `panic` is the property
               {"name": "zk", "quick": 90, "thorough": 90},
               # deviations that need the deviating party's own state (a chain-key contribution of the wrong length, ...)
               {"name": "sess-deviate", "quick": 8, "thorough": 200, "shards": 8}],
    "propfields": {"malform": ["ok"], "codec": ["ok", "outcome"], "zk": ["panic"], "sess-deviate": ["ok"]},
    "level": "proof",
    "level_text": "Proof (partial for the runtime part): for EVERY script, EVERY history of calls and EVERY message - any header, any content, "
                  "decodable or not - an Accept of the handler model (transcription of MultiHandler) has exactly one of three outcomes: ignored "
                  "(nothing changes), carried on, ended cleanly (channel closed once, Result = error xor value); refused and late messages are "
                  "no-ops (accept_total, refused_or_late_is_ignored, on top of C17's lifecycle invariant). The judgement the driver applies to "
                  "the observations made on the real handlers accepts every behaviour of the model (model_behaviours_accepted), so a PANIC, "
                  "TIMEOUT or MEMLIMIT is by construction outside the model. Tied to the code by (T) kernel-checked obligations over "
                  "regenerated guard-before-use tables: every nil-able field of every zk proof and of every round message content with "
                  "whether its first occurrence is a guard or a use, the guards before Exponent's allocation, and the decode call of both "
                  "handlers; and (C) the malformation stream: real sessions of every protocol, every handler state of the victim (every "
                  "prefix of its delivery trace), every message still to come, every field path of its CBOR tree x 26 malformations, wrong "
                  "headers, arbitrary byte strings, plus crafted two-message cases, through the real CanAccept/Accept in a supervised "
                  "child process (address-space limit, memory watchdog, per-case timeout).",
    "level_note": "Suite sess-deviate (sampled, judged): deviations that need the deviating party's own state (a FROST chain-key contribution of the wrong length, committed and opened consistently) must not panic an honest party. PARTIAL: Go panics, time and allocation are runtime behaviour that the Lean model cannot exhibit; the runtime claim is "
                  "carried by the stream (exhaustive over field paths x malformations for FROST and Doerner, a seeded slice for CMP: every "
                  "case replays the victim's proofs, 0.5-5 s each) and by the syntactic guard tables. Third-party decoder internals "
                  "(fxamacker/cbor) are exercised, not modelled. The TwoPartyHandler is judged with the same lifecycle predicate.",
}
