"""bin/check configuration of property C15 (see bin/props.py)."""

PROP = {
    "lean": "MpsProps.C15",
    "theorems": [
        "Mps.C15.restore_ok_imp_wellformed", "Mps.C15.restore_total", "Mps.C15.restore_never_silent_empty",
        "Mps.C15.message_never_silent_empty", "Mps.C15.alloc_linear_in_input", "Mps.C15.exponent_ok_imp_wellformed",
        "Mps.C15.descOk_iff", "Mps.C15.descOk_nodup",
        "Mps.C15.unchecked_fields_counterexample", "Mps.C15.null_crash_counterexample",
        "Mps.C15.silent_empty_counterexample", "Mps.C15.alloc_unbounded_counterexample",
    ],
    "generated": ["Mps.C15.gen_restore_tables", "Mps.C15.gen_validators", "Mps.C15.validatePrime_head_lacks_primality"],
    "suites": [{"name": "codec", "quick": 1, "thorough": 4}, {"name": "cmptree", "quick": 400, "thorough": 20000, "shards": 8}],
    "propfields": {"codec": ["ok", "outcome"], "cmptree": ["outcome"]},
    "level": "proof",
    "level_text": "Proof about the decision logic of the restore paths over a field-tree abstraction of the encoding (field: absent / null / "
                  "degenerate / good): the guarded cmp Config.UnmarshalBinary restores only well-formed configs (non-zero secrets, valid "
                  "primes and RID, complete records with 2048-bit odd moduli and Pedersen parameters, no duplicate / empty / missing party, "
                  "0 <= t < n) and has no crashing path; the guarded default decoders and Message.UnmarshalBinary never yield the untouched "
                  "template; Exponent.UnmarshalBinary allocates at most as many points as the input has bytes - for ALL field trees / inputs. "
                  "For the tree as found each statement is refuted by decided witnesses (..._counterexample) that the harness replays on the "
                  "real decoders. Which variant the tree is in is read off regenerated tables of every restore path (kernel-checked to be one "
                  "of the two pinned variants). Round trip and corruption are correspondence: every result type produced by REAL runs "
                  "(cmp.Config both ways, frost.Config, TaprootConfig, Doerner sender/receiver, PreSignature, Signature, wire messages, "
                  "Exponent) is encoded with the documented encoder, restored, compared up to map order, judged rule by rule (Go predicate "
                  "and Lean judgement descOk) and used in a follow-up signing session with the other parties' originals; every field path x "
                  "23 malformations, truncations and seeded random corruptions are restored in a supervised child process.",
    "level_note": "PARTIAL: the CBOR byte syntax belongs to the third-party decoder and is exercised, not modelled; the tree-level model of "
                  "cmp Config.UnmarshalBinary is tied predictively (suite cmptree: every field of a real encoding put into the classes "
                  "good / absent / null / degenerate, duplicate / missing / anonymous records, thresholds around 0, n, 2^32 - the model's "
                  "ok / err must equal the decoder's); the plain-decoder and message models are tied by the guard tables only. n = 3, t = 1 material; "
                  "other (n, t) are covered by the model's quantification, not by the round trips.",
}
