"""bin/check configuration of property C02 (see bin/props.py)."""

PROP = {
    "lean": "MpsProps.C02",
    "theorems": [],
    "generated": [],
    "suites": [{"name": "sess-keygen", "quick": 12, "thorough": 200}],
    "propfields": {"sess-keygen": ["ok"]},
    "level_text": "Proof + judged sessions: the algebra behind the property is a set of Lean theorems over an arbitrary field / module (see theorem list); key material returned by real key generations (FROST, FROST-Taproot, Doerner, CMP) over random n, every threshold, short/long/non-ASCII ids and delivery orders is judged in Lean: same group key and table everywhere, own share matches own entry, EVERY (t+1)-subset reconstructs one key whose public key is the group key (shares and table entries).",
    "level_note": "Real sessions are sampled (they cost up to seconds each); universality comes from the theorems about the formulas plus the per-function differentials (suite alg) showing that the code computes those formulas.",
}
