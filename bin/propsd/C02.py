"""bin/check configuration of property C02 (see bin/props.py)."""

PROP = {'lean': 'MpsProps.C02',
 'theorems': ['Mps.C02alg.keygen_consistent',
              'Mps.C02alg.keygen_consistent_honest',
              'Mps.C02alg.reconstruct_any_subset',
              'Mps.C02alg.reconstruct_any_subset_keygen',
              'Mps.C02alg.reconstruct_any_subset_public',
              'Mps.C02alg.reconstruct_keypair',
              'Mps.C02alg.reconstruct_fails_degree_succ',
              'Mps.C02alg.doerner_keygen_consistent'],
 'generated': ['Mps.Src.SrcCmpKeygen.gen_source', 'Mps.Src.SrcFrostKeygen.gen_source', 'Mps.Src.SrcDoernerKeygen.gen_source', 'Mps.Src.SrcCmpConfig.gen_source', 'Mps.AlgGen.gen_cmpKeygenChecks',
               'Mps.AlgGen.gen_cmpKeygenFinal',
               'Mps.AlgGen.gen_cmpKeygenVss',
               'Mps.AlgGen.gen_cmpPublicPoint',
               'Mps.AlgGen.gen_expAdd',
               'Mps.AlgGen.gen_expConstant',
               'Mps.AlgGen.gen_expDegree',
               'Mps.AlgGen.gen_expEvaluate',
               'Mps.AlgGen.gen_expSum',
               'Mps.AlgGen.gen_frostKeygenChecks',
               'Mps.AlgGen.gen_frostKeygenFinal',
               'Mps.AlgGen.gen_frostKeygenVss',
               'Mps.AlgGen.gen_newPolynomialExponent',
               'Mps.AlgGen.gen_polyEvaluate'],
 'suites': [{'name': 'sess-keygen', 'quick': 12, 'thorough': 200, 'shards': 8}, {'name': 'alg', 'quick': 600, 'thorough': 28000, 'shards': 8}],
 'propfields': {'sess-keygen': ['ok'], 'alg': ['valid', 'match', 'ok']},
 'level_text': 'Proof + judged sessions: the algebra behind the property is a set of Lean theorems over an arbitrary field / module (see theorem '
               'list); key material returned by real key generations (FROST, FROST-Taproot, Doerner, CMP) over random n, every threshold, '
               'short/long/non-ASCII ids and delivery orders is judged in Lean: same group key and table everywhere, own share matches own entry, '
               'EVERY (t+1)-subset reconstructs one key whose public key is the group key (shares and table entries).',
 'level_note': 'Real sessions are sampled (they cost up to seconds each); universality comes from the theorems about the formulas plus the '
               'per-function differentials (suite alg) showing that the code computes those formulas.'}
