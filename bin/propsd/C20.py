"""bin/check configuration of property C20 (see bin/props.py)."""

PROP = {
    "lean": "MpsProps.C20",
    "theorems": [
        "Mps.C20.startSpec_iff_valid", "Mps.C20.startSpec_err_iff_invalid", "Mps.C20.start_total",
        "Mps.C20.start_ok_imp_valid", "Mps.C20.start_refuses_invalid", "Mps.C20.start_ok_imp_valid_current",
        "Mps.C20.start_ok_imp_core_partial", "Mps.C20.canSign_iff", "Mps.C20.canSign_nodup", "Mps.C20.presig_validate_iff",
        "Mps.C20.frost_sign_foreign_signer_counterexample", "Mps.C20.frost_sign_taproot_foreign_signer_counterexample",
        "Mps.C20.frost_sign_empty_message_counterexample", "Mps.C20.doerner_sign_empty_message_counterexample",
        "Mps.C20.nil_config_crash_counterexample", "Mps.C20.nil_group_crash_counterexample",
        "Mps.C20.zero_scalar_id_counterexample", "Mps.C20.same_scalar_ids_counterexample",
        "Mps.C20.incomplete_config_counterexample", "Mps.C20.presig_validate_crash_counterexample",
    ],
    "generated": ["Mps.C20.gen_current_code", "Mps.C20.gen_start_tables_cmp", "Mps.C20.gen_start_tables_frost", "Mps.C20.gen_start_tables_doerner"],
    "suites": [{"name": "start", "quick": 1, "thorough": 1}],
    "propfields": {"start": ["outcome"]},
    "level_text": "Proof about the decision logic of all 16 start functions (+ round.NewSession, Config.CanSign, ValidThreshold, "
                  "PreSignature.Validate and the key-material uses of the first round, which runs during handler construction), transcribed "
                  "guard by guard as total functions from an abstract parameter description to {ok, err, crash}: the demanded decision is ok "
                  "exactly on valid parameters and never crashes (startSpec_iff_valid, start_total); the code with every proposed guard "
                  "accepts only valid parameters and cannot crash (start_ok_imp_valid, start_refuses_invalid) - for ALL parameter "
                  "descriptions. For the tree without a group of guards the full statement is refuted in Lean by decided witnesses "
                  "(..._counterexample) that the harness replays on the real code, next to what holds on every tree "
                  "(start_ok_imp_core_partial). Which guards the tree has is read off guard tables regenerated from the source "
                  "(kernel-checked to be one of the two pinned variants); the transcription is tied to the real start functions by a "
                  "differential over every start function x every single bad parameter of the lattice, alone and in pairs (field `coded`), "
                  "and every start that is allowed is run with honest peers to its end.",
    "level_note": "Modelled, not verified: that the described parameter classes (absent / degenerate / good values) determine the Go "
                  "decision - tied by the differential on the lattice only. A Go map is walked in unspecified order; PreSignature.Validate "
                  "is transcribed over the sorted entry list (same outcome whenever at most one entry is defective). Late crashes are "
                  "searched by running the started sessions (runtime behaviour, not proved).",
}
