"""bin/check configuration of property C07 (see bin/props.py)."""

PROP = {
    "lean": "MpsProps.C07",
    "theorems": [
        "Mps.C07.refused_noop", "Mps.C07.duplicate_noop", "Mps.C07.stale_refused", "Mps.C07.foreign_refused",
        "Mps.C07.after_end_noop", "Mps.C07.early_message_is_only_queued",
        "Mps.C07.order_independent", "Mps.C07.order_independent_queues", "Mps.C07.sim_congruence",
        "Mps.C07.redelivery_irrelevant", "Mps.C07.schedule_gives_reference_outcome",
        "Mps.C07.honest_delivery_never_blames",
        "Mps.C07.Ex.honest", "Mps.C07.Ex.sched_sub", "Mps.C07.Ex.sched_all", "Mps.C07.Ex.sched_ne",
        "Mps.C07.Ex.still_running",
    ],
    "generated": [],
    "suites": [{"name": "handler", "quick": 500, "thorough": 15000}, {"name": "twoparty", "quick": 200, "thorough": 5000}],
    "propfields": {"handler": ["ok", "term", "closed", "can"], "twoparty": ["term", "closed", "can"]},
    "level_text": "Proof: order_independent is a kernel-checked theorem about the handler model (the Lean transcription of protocol.MultiHandler that the suite `handler` ties to the Go code step by step): for EVERY hash H, EVERY script sc and EVERY finite message set M with Honest H sc M (decidable: party ids distinct, first round number 1, round numbers increasing; every message addressed to this party in this session by a known other party, round in 2..final, of the kind its round expects, decodable with no failure flags, carrying the session's echo hash expBh of the preceding round - a closed form computed from M and this party's own broadcast; no two different messages for one (round, sender, kind)), ANY two delivery sequences l1, l2 over M with the same SET of delivered messages - any order, any repetitions, later rounds arbitrarily early, p2p before broadcast, not necessarily all of M - end in states that agree in err, result, cur, acc, out (all emitted messages, in order), closes, idx, reached, echo-hash table and accused, i.e. in every field except the two internal queues; while the session is running the queues hold the same entries too (order_independent_queues) and such states stay equivalent under every further call (sim_congruence). Corollaries: redelivery_irrelevant, schedule_gives_reference_outcome (any permutation-with-repetition of the in-order schedule gives the in-order outcome). honest_delivery_never_blames: the common outcome is never msgFail / echoMismatch / protoAbort / peerAbort, and every echo hash the handler computes equals expBh (so the echo hypothesis of Honest is the handler's own value, not an extra assumption about it). Non-vacuity: a concrete 3-party, 4-round session (broadcast, broadcast+p2p, p2p rounds) with Honest decided by the kernel, a reversed schedule with repetitions, and its completed run (result, err = none, echo table) evaluated by the kernel. For arbitrary (also dishonest) messages: stale, duplicated, foreign and post-completion messages provably change nothing (whole-state equality) and a message for a later round is only queued. The real handler is compared with the model on generated schedules (any order, duplicates, replays, early arrival, p2p before broadcast).",
    "level_note": "The theorem is about one party's handler fed with honest peers' messages (the multi-party composition - that the peers' messages form an Honest set - is what the session suites check, not a Lean theorem); map-iteration order in the replay of queued messages is modelled as id order (for honest sets the theorem shows the replay outcome is a commutative sum, so the order cannot matter); script side conditions (distinct ids, rounds numbered increasingly from 1) are those of every protocol in the library.",
}
