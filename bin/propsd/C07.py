"""bin/check configuration of property C07 (see bin/props.py)."""

PROP = {
    "lean": "MpsProps.C07",
    "theorems": [
        "Mps.C07.refused_noop", "Mps.C07.duplicate_noop", "Mps.C07.stale_refused", "Mps.C07.foreign_refused",
        "Mps.C07.after_end_noop", "Mps.C07.early_message_is_only_queued",
    ],
    "generated": [],
    "suites": [{"name": "handler", "quick": 500, "thorough": 15000}, {"name": "twoparty", "quick": 200, "thorough": 5000}],
    "propfields": {"handler": ["ok", "term", "closed", "can"], "twoparty": ["term", "closed", "can"]},
    "level_text": "Proof (partial): stale, duplicated, foreign and post-completion messages provably change nothing (whole-state equality, all scripts, all states); a message for a later round is only queued. The headline claim (any schedule delivering every honest message at least once gives the in-order result) is checked against the model: the real handler's result under generated schedules (any order, duplicates, replays, early arrival, p2p before broadcast) is compared with the model's IN-ORDER run, and the model itself follows the real handler step by step on the same schedule.",
    "level_note": "PARTIAL: order_independent is not yet a kernel-checked theorem (statement kept in MpsProps/C07.lean); map-iteration order in the replay of queued messages is modelled as id order (sound for one deviating party).",
}
