"""bin/check configuration of property C08 (see bin/props.py)."""

PROP = {'lean': 'MpsProps.C08',
 'theorems': ['Mps.C08alg.refresh_preserves_key',
              'Mps.C08alg.refresh_preserves_group_key',
              'Mps.C08alg.refresh_preserves_cmp_public_point',
              'Mps.C08alg.refreshes_preserve_key',
              'Mps.C08alg.refreshes_consistent',
              'Mps.C08alg.refresh_mixed_eq',
              'Mps.C08alg.refresh_mixed_iff',
              'Mps.C08alg.refresh_mixed_fails_exists',
              "Mps.C08alg.refresh_mixed_fails_exists'",
              'Mps.C08alg.share_changes_iff',
              'Mps.C08alg.doerner_refresh_preserves_sum',
              'Mps.C08alg.doerner_refreshes_preserve_sum'],
 'generated': ['Mps.Src.SrcCmpKeygen.gen_source', 'Mps.Src.SrcFrostKeygen.gen_source', 'Mps.Src.SrcDoernerKeygen.gen_source', 'Mps.AlgGen.gen_doernerKeygenShares', 'Mps.AlgGen.gen_frostRefreshStart'],
 'suites': [{'name': 'sess-refresh', 'quick': 12, 'thorough': 200, 'shards': 8}, {'name': 'alg', 'quick': 600, 'thorough': 28000, 'shards': 8},
            {'name': 'sess-deviate', 'quick': 8, 'thorough': 200, 'shards': 8}],
 'propfields': {'sess-refresh': ['ok'], 'sess-deviate': ['ok'], 'alg': ['valid', 'match', 'ok']},
 'level_text': 'Proof + judged sessions: the algebra behind the property is a set of Lean theorems over an arbitrary field / module (see theorem '
               'list); histories keygen -> refresh* -> sign for FROST, FROST-Taproot, Doerner, CMP: key unchanged, consistency again, every share '
               'changed (t>0), no old/new mixture of a (t+1)-set reconstructs the key, old objects untouched, signing with refreshed material '
               'succeeds, a session with a stale signer yields no signature.',
 'level_note': 'Suite sess-deviate (sampled, judged): a Doerner refresh whose Sender enters with a share shifted by a scalar of its choice leaves the honest Receiver with a refusal or with the same group key (op keykept). Real sessions are sampled (they cost up to seconds each); universality comes from the theorems about the formulas plus the '
               'per-function differentials (suite alg) showing that the code computes those formulas.'}
