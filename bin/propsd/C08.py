"""bin/check configuration of property C08 (see bin/props.py)."""

PROP = {
    "lean": "MpsProps.C08",
    "theorems": [],
    "generated": [],
    "suites": [{"name": "sess-refresh", "quick": 12, "thorough": 200}],
    "propfields": {"sess-refresh": ["ok"]},
    "level_text": "Proof + judged sessions: the algebra behind the property is a set of Lean theorems over an arbitrary field / module (see theorem list); histories keygen -> refresh* -> sign for FROST, FROST-Taproot, Doerner, CMP: key unchanged, consistency again, every share changed (t>0), no old/new mixture of a (t+1)-set reconstructs the key, old objects untouched, signing with refreshed material succeeds, a session with a stale signer yields no signature.",
    "level_note": "Real sessions are sampled (they cost up to seconds each); universality comes from the theorems about the formulas plus the per-function differentials (suite alg) showing that the code computes those formulas.",
}
