"""bin/check configuration of property C11 (see bin/props.py)."""

PROP = {'lean': 'MpsProps.C11',
 'theorems': ['Mps.C11.aux_independent_of_read_chunking',
              'Mps.C11.bip340_nonce_independent_of_read_chunking',
              'Mps.C11.single_read_loses_randomness',
              'Mps.C11.frost_nonce_input_injective',
              'Mps.C11.frost_ssid_injective',
              'Mps.C11.frost_nonce_context_separation',
              'Mps.C11.frost_nonces_differ',
              'Mps.C11.frost_nonce_rng_sensitive',
              'Mps.C11.nonce_hash_input_eq',
              'Mps.C11.bip340_nonce_input_injective',
              'Mps.C11.bip340_nonce_separation',
              'Mps.C11.bip340_counter_distinct'],
 'generated': ['Mps.C11.gen_frost_round1',
               'Mps.C11.gen_digest_len',
               'Mps.C11.gen_frost_consts',
               'Mps.C11.gen_frost_session',
               'Mps.C11.gen_sample',
               'Mps.C11.gen_taproot_sign_hashes',
               'Mps.C11.gen_taproot_sign'],
 'suites': [{'name': 'nonce', 'quick': 240, 'thorough': 6000, 'shards': 8}],
 'propfields': {'nonce': ['distinct']},
 'level_text': 'Proof: the arguments of the hash functions in the FROST round-1 nonce derivation (key = KDF(share); data = ssidDigest(64) || m || a(32)) '
               'and in taproot.Sign (t(32) || P(32) || m with t = d xor hash_aux(a); a = reader bytes or atomic counter) are injective functions of '
               '(share, session id, variant, signer set, threshold, message, random bytes) resp. (P, m, a): Lean theorems for ALL contexts and ALL '
               'values of the random bytes, equal ones included; equal nonces therefore force an explicit collision of one of the (abstract) hash '
               'functions, stated as a disjunct. Counter distinctness for rand == nil is proved for any two of fewer than 2^64 calls. The model is '
               'tied to the code by kernel-checked obligations over regenerated tables (ordered writes of round1.Finalize, context string, protocol '
               'ids, session parameters, ScalarUnit read pattern, TaggedHash argument lists) and by a correspondence run in which crypto/rand.Reader '
               'is replaced by constant / repeating / honest sources, real FROST signers (configs from a real keygen) and taproot.Sign are run, and '
               'Lean (BLAKE3, SHA-256, secp256k1 re-implemented) recomputes D_i, E_i and R.x bit for bit; pairs of contexts differing in exactly one '
               'component must publish different commitments.',
 'level_note': 'Random sources with short reads (one byte per Read call) are part of the suite: the signer must consume all 32 auxiliary bytes. Hash-dependent conclusions are of the form "... or an explicit collision of H/KDF/KH on these two inputs" (no hash assumption). The '
               'message is hashed without a length prefix; injectivity rests on the fixed widths 64 and 32 of its neighbours (hypotheses hH / alen, '
               'met by hash.Sum and the 32-byte buffer; tied by gen_frost_round1). Modelled, not verified: zeebo/blake3 and dcrd secp256k1 (exercised '
               'bit for bit by the correspondence run).'}
