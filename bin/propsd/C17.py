"""bin/check configuration of property C17 (see bin/props.py)."""

PROP = {'lean': 'MpsProps.C17',
 'theorems': ['Mps.C17.lifecycle', 'Mps.C17.replay_order_alternatives_are_the_model',
              'Mps.C17.close_at_most_once',
              'Mps.C17.closed_iff_ended',
              'Mps.C17.result_xor_error',
              'Mps.C17.ended_is_final',
              'Mps.C17.stop_running_errors',
              'Mps.C17.stop_finished_noop',
              'Mps.C17.not_canAccept_noop',
              'Mps.C17.duplicate_noop',
              'Mps.C17.twoparty_lifecycle', 'Mps.C17.twoparty_close_at_most_once', 'Mps.C17.twoparty_closed_iff_ended',
              'Mps.C17.twoparty_ended_is_final', 'Mps.C17.twoparty_stop_running_errors'],
 'generated': ['Mps.HandlerSrc.gen_handler_source_0', 'Mps.HandlerSrc.gen_handler_source_1', 'Mps.HandlerSrc.gen_handler_source_2', 'Mps.HandlerSrc.gen_handler_source_3', 'Mps.HandlerSrc.gen_handler_source_4', 'Mps.HandlerSrc.gen_handler_source_5', 'Mps.C17.gen_lock_discipline', 'Mps.C17.gen_stop', 'Mps.C17.gen_out_capacity'],
 'suites': [{'name': 'handler', 'quick': 250, 'thorough': 6000}, {'name': 'twoparty', 'quick': 200, 'thorough': 5000}, {'name': 'handlerconc', 'quick': 60, 'thorough': 1500, 'race': True},
            {'name': 'twopartyconc', 'quick': 150, 'thorough': 4000, 'race': True}],
 'race': True,
 'propfields': {'handler': ['closed', 'term', 'can'], 'twoparty': ['closed', 'term', 'can'], 'handlerconc': ['ok'], 'twopartyconc': ['ok']},
 'level_text': 'Proof (partial for the runtime part): the lifecycle invariant (channel closed at most once and exactly when ended; result xor error; '
               'ended state absorbing; Stop ends a running session and is a no-op on an ended one; refused and duplicate messages are no-ops) is a '
               'Lean theorem over ALL scripts and ALL sequences of API calls of the handler model, which transcribes MultiHandler field by field. '
               'Serialisability of concurrent calls is reduced to a kernel-checked obligation over the regenerated lock table (every exported method '
               'takes the mutex first and defers the unlock). The model is tied to the real MultiHandler by a scripted protocol run through the real '
               'handler under generated schedules (all observables compared, echo hashes bit for bit) and by concurrent runs under the race '
               'detector.',
 'level_note': 'PARTIAL: the Go memory model / scheduler are not modelled — data-race freedom is derived from the extracted lock discipline and '
               'searched with -race, not proved about the runtime; blocking on the bounded out channel is excluded by a concurrent drainer in the '
               'harness (the property grants draining). The TwoPartyHandler is covered by the lock/Stop tables and suite twoparty, its lifecycle '
               'theorem is the analogue over Mps.TwoParty.'}
