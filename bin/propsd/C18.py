"""bin/check configuration of property C18 (see bin/props.py)."""

PROP = {'lean': 'MpsProps.C18',
 'theorems': ['Mps.C18.locked_reader_block',
              'Mps.C18.locked_reader_consumes_prefix',
              'Mps.C18.parallelize_returns_results',
              'Mps.C18.workers_all_idle_at_return',
              'Mps.C18.no_deadlock',
              'Mps.C18.steps_bounded',
              'Mps.C18.parallelize_always_returns',
              'Mps.C18.search_returns_count_nonnil',
              'Mps.C18.search_results_from_oracle',
              'Mps.C18.search_workers_all_idle_at_return',
              'Mps.C18.search_no_deadlock',
              'Mps.C18.search_steps_bounded',
              'Mps.C18.search_always_returns',
              'Mps.C18.pool_reusable',
              'Mps.C18.nil_pool_same_results',
              'Mps.C18.nil_pool_search',
              'Mps.C18.lost_worker_witness',
              'Mps.C18.lost_worker_then_deadlock',
              'Mps.C18.lost_two_workers_witness',
              'Mps.C18.search_nil_result_witness',
              'Mps.C18.search_lost_worker_witness'],
 'generated': ['Mps.C18.gen_worker',
               'Mps.C18.gen_workerSearch',
               'Mps.C18.gen_parallelize',
               'Mps.C18.gen_search',
               'Mps.C18.gen_alone_and_newPool',
               'Mps.C18.gen_yield_points',
               'Mps.C18.gen_locked_reader'],
 'suites': [{'name': 'pool', 'quick': 150, 'thorough': 3000}],
 'propfields': {'pool': ['ok', 'results', 'returned', 'searchLen', 'searchNonNil', 'overlap', 'distinct', 'fromStream']},
 'level_text': 'Proof: the pool is modelled as a transition system (caller + W workers, program counters at every channel send/receive, atomic '
               'counter operation and result write; a rendezvous on an unbuffered channel is one step). For the handshake that is in /repo after '
               'the repair (one notification per command, sent after the last result write; the caller counts notifications) Lean proves, for '
               'EVERY worker count W >= 1, EVERY task count n >= 0, every f / every oracle and EVERY interleaving: Parallelize returns exactly '
               '[f 0..f(n-1)]; Search returns n non-nil slots; at return all workers are idle, hence (induction over calls) after any number of '
               'consecutive calls all W workers are available (pool_reusable); every non-returned reachable state has an enabled step '
               '(no_deadlock); no schedule is longer than 3n+1 steps (Parallelize) / 7W+4n+1+2*(nil answers) steps (Search) - termination without '
               'fairness; a nil pool yields the same slice. By invariant + ranking function over a counting abstraction. The model is tied to '
               'pool.go by the regenerated synchronisation skeleton of worker, workerSearch, Parallelize, Search (kernel-checked equalities) '
               'and by driving the REAL pool through yield hooks along all interleavings for W,n <= 2 (<= 3 thorough) and random ones beyond, as '
               'consecutive calls on one pool: every observed arrival trace must be a path of the Lean transition system with the model program '
               'counters matching, the returned slice must be the model\'s, and the idle workers measured by W blocking probe commands must be W. '
               'A hook-free stress run (8 workers x 8 instant tasks x 30 000 calls, watchdog) is a second detector.',
 'level_note': 'Op primesearch (sampled, not proved): sample.Paillier over 2/4/8 workers on a deterministic, non-concurrency-safe stream of safe primes must show no overlapping Read calls and use two different blocks (the one pool.LockedReader of the call). The Go memory model and scheduler are not modelled: the granularity of the interleaving semantics (sequentially consistent '
               'atomics, channel rendezvous as one step, result write before/after the notification) is the model\'s; the tie is the extracted '
               'skeleton plus the hook-driven correspondence. Search termination is relative to the oracle (number of nil answers is the fuel). '
               'For pool.go as it stood before the repair the same statements are false: lost_worker_witness / search_nil_result_witness are '
               'kernel-evaluated schedules, and the correspondence suite reproduces them on the real code (LOST-WORKER / NIL-RESULT / HANG).'}
