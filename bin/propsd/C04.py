"""bin/check configuration of property C04 (see bin/props.py)."""

PROP = {
    "lean": "MpsProps.C04",
    "theorems": [
        "Mps.C04.blame_provenance", "Mps.C04.honest_never_witness", "Mps.C04.notice_names_its_sender",
        "Mps.C04.culprits_table", "Mps.C04.blamed_only_under_same_view",
    ],
    "generated": ["Mps.C04.gen_echo_before_verify"],
    "suites": [{"name": "handler", "quick": 400, "thorough": 12000}, {"name": "sess-tamper", "quick": 45, "thorough": 900, "shards": 8}, {"name": "sess-presign-abort", "quick": 5, "thorough": 24}],
    "propfields": {"handler": ["term", "closed", "ok"], "sess-tamper": ["ok"], "sess-presign-abort": ["ok"]},
    "level_text": "Proof (handler level): for ALL scripts and ALL call histories, a Result() error that blames f for a failed message is backed by a message from f, stored for the round the handler is in, that violates the protocol in that round (wrong kind, undecodable, failing verification/storing) - blame_provenance; no message an honest handler of the script ever emits can be such a witness - honest_never_witness; an abort notice names exactly its sender - notice_names_its_sender. Culprit sets of every kind of error are compared with the real MultiHandler under generated single-cheater schedules (all cheater positions, tamper kinds, orders).",
    "level_note": "PARTIAL: the protocol-specific half of the property (CMP presign abort identification; blame when verification depends on an equivocated view) is decided by the real-protocol suites listed in DESIGN.md for C04, not by the scripted model: in the scripted protocol verification does not depend on earlier views.",
}
