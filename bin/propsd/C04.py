"""bin/check configuration of property C04 (see bin/props.py)."""

PROP = {
    "lean": "MpsProps.C04",
    "theorems": [
        "Mps.C04.blame_provenance", "Mps.C04.honest_never_witness", "Mps.C04.notice_names_its_sender",
        "Mps.C04.culprits_table", "Mps.C04.blamed_only_under_same_view",
    
        "Mps.C04Byz.honest_emissions", "Mps.C04Byz.honest_never_named_directly", "Mps.C04Byz.relayed_notice_chain", "Mps.C04Byz.primary_names_only_x", "Mps.C04Byz.honest_never_blamed", "Mps.C04Byz.abort_root_cause",
    ],
    "generated": ["Mps.Src.SrcCmpKeygen.gen_source", "Mps.Src.SrcCmpSign.gen_source", "Mps.Src.SrcCmpPresign.gen_source", "Mps.Src.SrcFrostKeygen.gen_source", "Mps.Src.SrcFrostSign.gen_source", "Mps.HandlerSrc.gen_handler_source_0", "Mps.HandlerSrc.gen_handler_source_1", "Mps.HandlerSrc.gen_handler_source_2", "Mps.HandlerSrc.gen_handler_source_3", "Mps.HandlerSrc.gen_handler_source_4", "Mps.HandlerSrc.gen_handler_source_5", "Mps.C04.gen_echo_before_verify"],
    "suites": [{"name": "handler", "quick": 400, "thorough": 12000}, {"name": "sess-tamper", "quick": 45, "thorough": 900, "shards": 8}, {"name": "sess-presign-abort", "quick": 5, "thorough": 24}],
    "propfields": {"handler": ["term", "closed", "ok"], "sess-tamper": ["ok"], "sess-presign-abort": ["ok"]},
    "level_text": "Proof (handler level): for ALL scripts and ALL call histories, a Result() error that blames f for a failed message is backed by a message from f, stored for the round the handler is in, that violates the protocol in that round (wrong kind, undecodable, failing verification/storing) - blame_provenance; no message an honest handler of the script ever emits can be such a witness - honest_never_witness; an abort notice names exactly its sender - notice_names_its_sender. Culprit sets of every kind of error are compared with the real MultiHandler under generated single-cheater schedules (all cheater positions, tamper kinds, orders). System level, one Byzantine participant (Mps/Byz.lean, MpsProofs/Byz.lean): for every H, every session script, every cheater id and every Byzantine schedule an honest party's verdict is never a message failure of an honest party, never a protocol abort naming one, never its own Finalize failure or a stop; its culprit list contains an honest id only as the sender of a RELAYED notice of a party that has itself aborted (honest_never_blamed, honest_never_named_directly); every verdict is one's own naming nobody but the cheater, or none (echo mismatch), or such a relayed notice (relayed_notice_chain); whenever an honest party has aborted some honest party holds a verdict of its own that names only the cheater (abort_root_cause).",
    "level_note": "PARTIAL: the protocol-specific half of the property (CMP presign abort identification; blame when verification depends on an equivocated view) is decided by the real-protocol suites listed in DESIGN.md for C04, not by the scripted model: in the scripted protocol verification does not depend on earlier views.",
}
