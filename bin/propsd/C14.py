"""bin/check configuration of property C14 (see bin/props.py)."""

PROP = {
    "lean": "MpsProps.C14",
    "theorems": [],
    "generated": [],
    "suites": [{"name": "sess-derive", "quick": 12, "thorough": 200}],
    "propfields": {"sess-derive": ["ok"]},
    "level_text": "Proof + judged sessions: the algebra behind the property is a set of Lean theorems over an arbitrary field / module (see theorem list); after key generation all parties hold one 32-byte chain key; BIP-32 children (indices 0, 1, 2, 2^31-1, random; paths up to 3) computed by every party equal the Lean CKDpub (HMAC-SHA512) of (parent key, chain key, index); derived material is a consistent sharing and signs.",
    "level_note": "Real sessions are sampled (they cost up to seconds each); universality comes from the theorems about the formulas plus the per-function differentials (suite alg) showing that the code computes those formulas.",
}
