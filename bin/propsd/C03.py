"""bin/check configuration of property C03 (see bin/props.py)."""

PROP = {'lean': 'MpsProps.C03',
 'theorems': ['Mps.C01alg.frost_share_check_sound',
              'Mps.C01alg.frost_share_check_complete',
              'Mps.C01alg.ecdsa_s_unique',
              'Mps.C01alg.schnorr_z_unique',
              'Mps.C02alg.keygen_consistent',
              'Mps.C02alg.reconstruct_any_subset_public'],
 'generated': ['Mps.Src.SrcCmpKeygen.gen_source', 'Mps.Src.SrcCmpSign.gen_source', 'Mps.Src.SrcCmpPresign.gen_source', 'Mps.Src.SrcFrostKeygen.gen_source', 'Mps.Src.SrcFrostSign.gen_source', 'Mps.Src.SrcDoernerKeygen.gen_source', 'Mps.Src.SrcDoernerSign.gen_source', 'Mps.AlgGen.gen_frostKeygenVss',
               'Mps.AlgGen.gen_cmpKeygenVss',
               'Mps.AlgGen.gen_frostSignRound3',
               'Mps.AlgGen.gen_cmpSignRound5',
               'Mps.AlgGen.gen_frostKeygenChecks',
               'Mps.AlgGen.gen_cmpKeygenChecks'],
 'suites': [{'name': 'sess-tamper', 'quick': 45, 'thorough': 900, 'shards': 8}],
 'propfields': {'sess-tamper': ['ok']},
 'level_text': 'Proof + judged sessions: outputs are verify-guarded and Feldman/decommit/echo-protected (theorem list); a tamper catalogue generated '
               'from the real wire messages (every CBOR field: zeroed, re-randomised, bit-flipped, truncated, extended, copied from another message; '
               'whole contents substituted) is applied by one deviating participant in REAL sessions of FROST, FROST-Taproot, Doerner and (a slice '
               'of) CMP keygen/sign/presign through the real handlers, and what every honest party ends with is judged in Lean by independent '
               'verifiers: a finished honest party holds a valid signature for the agreed message and key, or key material consistent with the other '
               'honest finishers.',
 'level_note': 'Secrecy / zero-knowledge and the soundness of the sigma protocols themselves are not claimed (the property is about integrity of the '
               'result). Sessions are sampled; CMP sessions cost seconds each and form a seeded slice in the quick tier.'}
