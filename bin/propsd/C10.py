"""bin/check configuration of property C10 (see bin/props.py)."""

_SYS = ["sch", "mod", "prm", "fac", "enc", "encelg", "affg", "affp", "logstar", "elog", "log", "nth", "dec", "mul", "mulstar"]
_SHARED = ["mod_response_verify", "sch_proof_verify", "sch_proof_isvalid", "sampleNeg", "sampleIntervals", "sampleModN",
           "sampleScalar", "mustReadBits", "prmChallenge", "modChallenge", "curveScalarSizes", "rangePredicates",
           "isValidNatModN", "isValidBigModN", "pedersenVerify", "pedersenValidate", "paillierEncWithNonce",
           "paillierValidateCiphertexts", "ciphertextOps", "params"]

PROP = {
    "lean": "MpsProps.C10",
    "theorems": [
        # (a) completeness of the verification equations
        "Mps.C10.sigma_complete", "Mps.C10.sigma_complete_mul",
        "Mps.C10.sch_complete", "Mps.C10.log_complete", "Mps.C10.elog_complete", "Mps.C10.pedersen_complete",
        "Mps.C10.paillier_enc_complete", "Mps.C10.enc_complete", "Mps.C10.logstar_complete", "Mps.C10.affg_complete",
        "Mps.C10.affp_complete", "Mps.C10.encelg_complete", "Mps.C10.mul_complete", "Mps.C10.mulstar_complete",
        "Mps.C10.dec_complete", "Mps.C10.nth_complete", "Mps.C10.prm_complete", "Mps.C10.fac_complete",
        "Mps.C10.mod_complete", "Mps.C10.zsmul_emod_order", "Mps.C10.nonce_response_reduced", "Mps.C10.nonce_inverse_pow_N",
        # (b) range checks
        "Mps.C10.range_check_iff", "Mps.C10.honest_response_bound", "Mps.C10.honest_response_bound_LEps",
        "Mps.C10.honest_response_bound_LPrimeEps", "Mps.C10.honest_response_triangle", "Mps.C10.out_of_range_rejected",
        "Mps.C10.unchecked_response_panics", "Mps.C10.plaintext_reduced",
        # (c) binding of the challenge input
        "Mps.C10.challenge_input_injective", "Mps.C10.challenge_binds_statement", "Mps.C10.selected_fields_equal",
        "Mps.C10.hv_encode_injective", "Mps.C10.toHV_injective",
        # (d) uniqueness of the response
        "Mps.C10.response_unique_mod_kernel", "Mps.C10.response_accepted_of_kernel",
        "Mps.C10.response_unique_mod_kernel_mul", "Mps.C10.response_unique_of_injective",
    ],
    "generated": [
        "Mps.C10.challenge_covers_all_fields", "Mps.C10.gen_systems", "Mps.C10.gen_selectors",
        "Mps.C10.range_checks_match_paper", "Mps.C10.gen_proof_fields", "Mps.C10.gen_first_flow_hashed",
        "Mps.C10.gen_first_flow_unhashed", "Mps.C10.gen_isvalid_presence", "Mps.C10.params_values",
    ] + ["Mps.C10.gen_" + s for s in _SYS] + ["Mps.C10.gen_" + s for s in _SHARED],
    "suites": [{"name": "zk", "quick": 90, "thorough": 90}],
    "propfields": {"zk": ["ok", "panic", "viol"]},
    "rule": "cases are generated from VERIF_SEED by the Go harness (one seeded generator per proof system, also behind "
            "crypto/rand.Reader): honest proofs by the Go prover over the witness lattice, then perturbed (statement, "
            "context, proof) triples; distinct = distinct (op, input) JSON; the model judges every case: ok/panic/e must "
            "equal the Go verifier's, viol = the verdict contradicts what the property demands for the case's class",
    "level_text": "Proof: completeness of the verification EQUATIONS of all 15 proof systems for every witness, mask and challenge "
                  "(generic sigma_complete for any group homomorphism and 17 instance theorems incl. the Paillier nonce reduction "
                  "mod N vs mod N^2 and the Blum fourth-root algebra of zkmod); what the range predicates compute (strict |z| < 2^bound) "
                  "and completeness of the range part outside an explicitly stated 2^-256 tail event; every verifier with a range "
                  "check accepts only in-range, non-nil responses (theorem about the transcribed verifiers); over tables regenerated "
                  "from the source on every run, kernel-checked: every Public and Commitment field and every bare parameter of all 15 "
                  "challenge() functions is hashed, the selector lists are the ones the executable verifiers hash, the range-checked "
                  "responses are those of the paper; the hash input of a challenge determines (context items, statement and commitment "
                  "values) or is an explicit collision (abstract H); accepted responses are unique modulo the kernel. The executable Lean "
                  "verifiers (own bigint-modular toolkit, Paillier/Pedersen, secp256k1, framing + BLAKE3 + the sample.* read patterns) "
                  "recompute the Fiat-Shamir challenge bit for bit and must agree with the Go verifier on accept / reject / panic on "
                  "every honest and perturbed case.",
    "level_note": "NOT a theorem: the random-oracle step 'a changed challenge makes the old response fail except with negligible "
                  "probability' (only the deterministic structure around it is proved: binding of the challenge input, uniqueness of the "
                  "response given the challenge); soundness and zero-knowledge are outside the property. Instance completeness theorems "
                  "are stated in abstract commutative groups (units mod N^2 / N-hat, a curve group of order q), not about the executable "
                  "bigint code, which is tied by the correspondence run only. big.Int.ProbablyPrime(20) is modelled by Miller-Rabin to 20 "
                  "fixed bases. Modelled, not verified: saferith / dcrd secp256k1 / zeebo blake3. Findings are recorded in "
                  "known-findings.jsonl (panics on nil proof fields, zkdec/zkmul unchecked responses, zkmod out-of-range responses).",
}
