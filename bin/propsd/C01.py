"""bin/check configuration of property C01 (see bin/props.py)."""

PROP = {
    "lean": "MpsProps.C01",
    "theorems": [],
    "generated": [],
    "suites": [{"name": "sess-sign", "quick": 20, "thorough": 300}],
    "propfields": {"sess-sign": ["ok"]},
    "level_text": "Proof + judged sessions: the algebra behind the property is a set of Lean theorems over an arbitrary field / module (see theorem list); signatures returned by real sessions of every protocol (CMP sign, CMP presign+online, FROST, FROST-Taproot, Doerner) over random (n, t), non-prefix signer subsets, message-hash lengths 1..80 and delivery orders are judged by independent Lean verifiers (ECDSA, Schnorr with the library challenge, BIP-340); all signers must complete and agree.",
    "level_note": "Real sessions are sampled (they cost up to seconds each); universality comes from the theorems about the formulas plus the per-function differentials (suite alg) showing that the code computes those formulas.",
}
