"""bin/check configuration of property C09 (see bin/props.py)."""

PROP = {
    "lean": "MpsProps.C09",
    "theorems": [
        "Mps.C09.sessionItems_injective", "Mps.C09.ssid_injective", "Mps.C09.hashForID_separates",
        "Mps.C09.foreign_ssid_refused", "Mps.C09.foreign_protocol_refused", "Mps.C09.wrong_recipient_refused",
        "Mps.C09.own_message_refused", "Mps.C09.unknown_sender_refused", "Mps.C09.beyond_final_round_refused",
        "Mps.C09.stale_round_refused", "Mps.C09.refused_is_noop", "Mps.C09.cross_session_noop",
    ],
    "generated": ["Mps.Src.SrcCmpKeygen.gen_source", "Mps.Src.SrcCmpSign.gen_source", "Mps.Src.SrcCmpPresign.gen_source", "Mps.Src.SrcFrostKeygen.gen_source", "Mps.Src.SrcFrostSign.gen_source", "Mps.Src.SrcDoernerKeygen.gen_source", "Mps.Src.SrcDoernerSign.gen_source", "Mps.HandlerSrc.gen_handler_source_0", "Mps.HandlerSrc.gen_handler_source_1", "Mps.HandlerSrc.gen_handler_source_2", "Mps.HandlerSrc.gen_handler_source_3", "Mps.HandlerSrc.gen_handler_source_4", "Mps.HandlerSrc.gen_handler_source_5", 
        "Mps.C09.gen_session_layout", "Mps.C09.gen_hash_for_id", "Mps.C09.gen_can_accept", "Mps.C09.gen_protocol_ids",
        "Mps.C09.gen_protocol_ids_nodup", "Mps.C09.gen_cmp_aux",
    ],
    "suites": [
        {"name": "session", "quick": 300, "thorough": 8000},
        {"name": "handler", "quick": 120, "thorough": 3000},
        {"name": "sess-impersonate", "quick": 30, "thorough": 2000, "shards": 8},
        {"name": "twoparty", "quick": 100, "thorough": 3000},
    ],
    "propfields": {"session": ["same", "ok"], "handler": ["can", "term", "closed"], "sess-impersonate": ["ok"], "twoparty": ["can", "term", "closed"]},
    "level_text": "Proof: the items written into the session hash determine every session parameter (sessionItems_injective: session id incl. absent vs present, protocol id, group, participant list with adversarial boundaries, threshold, auxiliary items), equal SSIDs imply equal parameters or an explicit hash collision (ssid_injective), the handler refuses every message whose tag / protocol / recipient / sender / round is foreign and a refused message is a no-op, and - by an invariant over ALL call histories - no message ever emitted by a session is accepted at any point of a session with another tag or protocol id (cross_session_noop). Tied to the code by the regenerated NewSession layout, CanAccept guards, protocol-id table (pairwise distinct, kernel-checked) and CMP aux-info lists, by bit-exact SSID differentials on generated / adversarially related parameter pairs, and by a catalogue of sessions created through the real start functions of all protocols whose tags must be pairwise different.",
    "level_note": "Suite twoparty (foreign-session messages and abort notices at the two-party handler) runs under this property too. The binding of proofs and commitments to the per-party hash context is covered structurally (hashForID_separates + C10 challenge coverage); replays of a proof-carrying broadcast under another sender's name in the real protocols are run by suite sess-impersonate (FROST keygen round 2, the only shipped broadcast whose proof could verify for another party: it must be refused in the round it arrives in) and by C03's tamper catalogue; sampled, not proved. CMP config bytes inside the SSID are treated as one opaque item (its WriteTo layout is a regenerated fact).",
}
