"""bin/check configuration of property C12 (see bin/props.py)."""

PROP = {'lean': 'MpsProps.C12',
 'theorems': ['Mps.C12.dec_enc',
              'Mps.C12.enc_refuses_iff',
              'Mps.C12.enc_refuses_iff_odd',
              'Mps.C12.enc_refuses_iff_sk',
              'Mps.C12.enc_sk_eq_enc',
              'Mps.C12.enc_validates',
              'Mps.C12.add_hom',
              'Mps.C12.add_hom_only_in_range',
              'Mps.C12.mul_hom',
              'Mps.C12.mul_hom_only_in_range',
              'Mps.C12.dec_with_randomness_enc',
              'Mps.C12.dec_with_randomness_reencrypts',
              'Mps.C12.validate_iff_unit_lt',
              'Mps.C12.validate_iff_coprime_N',
              'Mps.C12.validate_sk_eq',
              'Mps.C12.dec_refuses_iff',
              'Mps.C12.dec_zero_sign',
              'Mps.C12.crt_exp_eq',
              'Mps.C12.crt_expI_eq',
              'Mps.C12.expI_unit',
              'Mps.C12.mta_exact',
              'Mps.C12.mta_range',
              'Mps.C12.mta_exact_params',
              'Mps.C12.sampleNeg_range',
              'Mps.C12.keyOK_2048'],
 'generated': ['Mps.C12.gen_params',
               'Mps.C12.gen_modulus',
               'Mps.C12.gen_keys',
               'Mps.C12.gen_enc',
               'Mps.C12.gen_validate',
               'Mps.C12.gen_dec',
               'Mps.C12.gen_add_mul',
               'Mps.C12.gen_mta'],
 'suites': [{'name': 'paillier', 'quick': 4, 'thorough': 120, 'shards': 8}],
 'propfields': {'paillier': ['outcome', 'roundtrip', 'dec', 'rand', 'hom', 'ok', 'same', 'reenc', 'exact', 'exactq', 'fok', 'alpha',
                             'fdec', 'c', 'crt', 'plain', 'agree', 'reduced', 'bezout', 'neg', 'abs', 'r', 'd', 'f', 'beta', 'inrange', 'code', 'go', 'go_exact', 'go_exactq', 'go_fok']},
 'level_text': 'Proof: for ALL key pairs of distinct primes with gcd(pq,(p-1)(q-1))=1, all plaintexts, nonces, ciphertexts and signed scalars, Lean '
               'theorems about an executable big-integer model of pkg/paillier, arith.Modulus and internal/mta state that decryption inverts '
               'encryption on [-(N-1)/2,(N-1)/2] endpoints included (dec_enc), encryption refuses exactly outside (enc_refuses_iff), Add/Mul agree '
               'with integer arithmetic iff the result is in range (add_hom, mul_hom and the *_only_in_range converses, signed scalars through '
               'ModInverse), validation accepts exactly the units below N^2 (validate_iff_unit_lt), DecWithRandomness of EVERY accepted ciphertext '
               're-encrypts to it (dec_with_randomness_reencrypts; every unit below N^2 is a ciphertext), CRT Exp/ExpI equal plain modular '
               'exponentiation for every base and signed exponent (crt_exp_eq, crt_expI_eq), and newMta yields alpha+beta=a*b over Z '
               '(mta_exact), with the range side condition discharged from the regenerated params constants for curve scalars, |beta\'|<2^LPrime '
               'and a BitsPaillier-bit modulus (mta_exact_params; a proved 2048-bit-plus key instance keyOK_2048 shows the hypotheses are '
               'satisfiable). Both code paths (key derived from a secret key: CRT; NewPublicKey: plain) are covered and proved equal. The model is '
               'tied to the code by kernel-checked obligations over the regenerated function bodies and evaluated constants, and by a bit-exact '
               'Go-vs-Lean differential over the boundary lattice, several real 2048-bit keys, and real ProveAffG/ProveAffP runs.',
 'level_note': 'Trusted: Lean kernel; translator; harness+diff. Modelled, not verified: saferith (constant-time big-integer library) is '
               'exercised through the differential only; its ModInverse on a NON-unit is unspecified by saferith and is only judged (both code '
               'paths agree, y*v = gcd(y,n) mod n), the theorems never use that value. Primality of the 2048-bit keys used by the harness is not '
               're-proved in Lean (the theorems take primality as a hypothesis; the library itself assumes it in NewSecretKeyFromPrimes). The ZK '
               'proofs attached by ProveAffG/ProveAffP belong to C10.'}
