"""bin/check configuration of property C06 (see bin/props.py)."""

PROP = {
    "lean": "MpsProps.C06",
    "theorems": [
        "Mps.C06.msg_hash_input_injective", "Mps.C06.echo_hash_agree", "Mps.C06.leaves_round_only_if_echo_ok",
        "Mps.C06.echo_agreement", "Mps.C06.runs_are_reachable",
    
        "Mps.C06Byz.byz_delivery_iff", "Mps.C06Byz.stored_under_honest_name_was_emitted", "Mps.C06Byz.honest_views_agree", "Mps.C06Byz.equivocation_cannot_split", "Mps.C06Byz.no_split_completion",
    ],
    "generated": ["Mps.C06.gen_message_hash", "Mps.C06.gen_echo"],
    "suites": [{"name": "handler", "quick": 400, "thorough": 12000}],
    "propfields": {"handler": ["ok", "term", "closed"]},
    "level_text": "Proof: for ALL scripts and EVERY state two handlers of one session can pass through (including inside a call), if A passes the echo check of round r+1 holding a round-(r+1) message stamped by B, then A and B hold byte-identical copies of every participant's round-r broadcast, or the runs exhibit an explicit hash collision (echo_agreement); a round is left only after that check (leaves_round_only_if_echo_ok); Message.Hash covers every wire field (msg_hash_input_injective). Invariants (stored echo hash = hash of stored view; every emitted message stamped with the sender's own echo hash) are proved over all elementary transitions of the handler model. Tied to the code by the regenerated Message.Hash item list, receivedAll / checkBroadcastHash / finalize call and range tables, by bit-exact comparison of every emitted BroadcastVerification with the model under equivocation schedules, and by a model-independent judgement of the observed views of completed honest parties. System level, one Byzantine participant (Mps/Byz.lean, MpsProofs/Byz.lean): for every H with bounded output, every session script (SessionOk, SizesOk), every cheater id and every Byzantine schedule - the cheater's messages arbitrary (wire-representable), honest traffic in any order with repetition and delay, authenticated channels - an honest party that is past the round after a broadcast round r holds byte-identical copies of every participant's round-r broadcast as every other honest party, or H collides on two stated inputs (honest_views_agree, equivocation_cannot_split); two honest parties holding different round-r payloads from one sender never complete (no_split_completion). A concrete equivocation schedule, decided by the kernel, ends in echoMismatch at both honest parties.",
    "level_note": "Holds for a broadcast round r whose successor has number r+1 inside the handler's round window (the hash is looked up under number-1): for a numbering jump (presign online 1 -> 8) or a successor beyond FinalRoundNumber there is no echo protection - reported under C04/C05 where it matters. Real protocols are covered through the scripted instance + sampled real sessions in C03.",
}
