"""bin/check configuration of property C19 (see bin/props.py)."""

PROP = {'lean': 'MpsProps.C19',
 'theorems': ['Mps.C19.transcript_injective',
              'Mps.C19.distinct_items_distinct_streams',
              'Mps.C19.transcript_prefix_free',
              'Mps.C19.digest_eq_imp',
              'Mps.C19.encode_injective',
              'Mps.C19.encode_wf',
              'Mps.C19.encodeList_injective',
              'Mps.C19.decommit_validates',
              'Mps.C19.commit_binding',
              'Mps.C19.commit_binding_values',
              'Mps.C19.commit_then_decommit',
              'Mps.idsDataOld_collision'],
 'generated': ['Mps.C19.gen_framing',
               'Mps.C19.gen_prefix',
               'Mps.C19.gen_cases',
               'Mps.C19.gen_case_domains',
               'Mps.C19.gen_domains',
               'Mps.C19.gen_domain_literals_nodup',
               'Mps.C19.gen_commit',
               'Mps.C19.gen_decommit',
               'Mps.C19.gen_validate',
               'Mps.C19.gen_writers'],
 'suites': [{'name': 'frame', 'quick': 400, 'thorough': 20000}],
 'propfields': {'frame': ['same', 'ok']},
 'level_text': "Proof: framing injectivity (transcript_injective, prefix-freeness), per-type encoder injectivity on each type's validity domain "
               '(encode_injective, all fixed-domain Go types incl. cross-type), digest_eq_imp (equal digests imply equal item sequences or an '
               'explicit hash collision) and commitment binding/validation are Lean theorems for ALL item sequences and values. The model is tied to '
               'the code by kernel-checked obligations over tables regenerated from the source (framing writes, switch order, every Domain() '
               'literal, every WriteTo body, Commit/Decommit/Validate) and by a bit-exact Go-vs-Lean differential (BLAKE3 re-implemented in Lean) '
               'over generated and adversarially related sequences.',
 'level_note': 'Trusted: Lean kernel; translator; harness+diff; BLAKE3 collision resistance is NOT assumed (collisions appear as an explicit '
               "disjunct). Modelled not verified: that Go's WriteAny/WriteTo do what the extracted call sequences say (tied by the differential); "
               'CBOR-encoded payloads (Exponent, cmp Config) are treated as opaque byte strings.'}
