"""Per-property configuration of bin/check. One file per property in bin/propsd/<id>.py defining

PROP = {
  "lean":       theorem module of the property (MpsProps.Cxx),
  "theorems":   fully qualified names of the property theorems (audited with #print axioms),
  "generated":  obligations over the regenerated tables (also audited),
  "suites":     [{"name": suite, "quick": n, "thorough": n, "race": bool}],   correspondence suites
  "propfields": {suite: [field, ...]}  fields whose disagreement is a failure of the PROPERTY itself
  "level_text", "level_note": for MANIFEST.json
}
"""
import importlib.util, os

_D = os.path.join(os.path.dirname(os.path.abspath(__file__)), "propsd")
PROPS = {}
for _f in sorted(os.listdir(_D)):
    if _f.endswith(".py"):
        _spec = importlib.util.spec_from_file_location("propsd_" + _f[:-3], os.path.join(_D, _f))
        _m = importlib.util.module_from_spec(_spec)
        _spec.loader.exec_module(_m)
        PROPS[_f[:-3]] = _m.PROP

# properties that are not claimed, with the reason (default text in bin/mkmanifest)
NOT_APPLICABLE = {}

# the per-file source pins of the files each property's anchors name (bin/mkanchors -> bin/anchors.json)
import json as _json
_A = os.path.join(os.path.dirname(os.path.abspath(__file__)), "anchors.json")
if os.path.exists(_A):
    for _id, _obs in _json.load(open(_A)).items():
        if _id in PROPS:
            _g = PROPS[_id].setdefault("generated", [])
            for _o in _obs:
                _whole = _o.rsplit(".", 1)[0] + ".gen_source"
                if _o not in _g and _whole not in _g:
                    _g.append(_o)
