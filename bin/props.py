"""Per-property configuration of bin/check: theorem module, audited theorem names, generated-table
obligations (proved inside the module; listed here for the evidence), correspondence suites."""

PROPS = {
    "C19": {
        "lean": "MpsProps.C19",
        "theorems": [
            "Mps.C19.transcript_injective", "Mps.C19.distinct_items_distinct_streams",
            "Mps.C19.transcript_prefix_free", "Mps.C19.digest_eq_imp",
            "Mps.C19.encode_injective", "Mps.C19.encode_wf", "Mps.C19.encodeList_injective",
            "Mps.C19.decommit_validates", "Mps.C19.commit_binding", "Mps.C19.commit_binding_values",
            "Mps.C19.commit_then_decommit", "Mps.idsDataOld_collision",
        ],
        "generated": [
            "Mps.C19.gen_framing", "Mps.C19.gen_prefix", "Mps.C19.gen_cases", "Mps.C19.gen_case_domains",
            "Mps.C19.gen_domains", "Mps.C19.gen_domain_literals_nodup", "Mps.C19.gen_commit",
            "Mps.C19.gen_decommit", "Mps.C19.gen_validate", "Mps.C19.gen_writers",
        ],
        "suites": [{"name": "frame", "quick": 400, "thorough": 20000}],
        # fields whose disagreement is a failure of the property itself (not only of the tie)
        "propfields": {"frame": ["same", "ok"]},
        "level_text": "Proof: framing injectivity (transcript_injective, prefix-freeness), per-type encoder injectivity on each type's validity domain (encode_injective, all fixed-domain Go types incl. cross-type), digest_eq_imp (equal digests imply equal item sequences or an explicit hash collision) and commitment binding/validation are Lean theorems for ALL item sequences and values. The model is tied to the code by kernel-checked obligations over tables regenerated from the source (framing writes, switch order, every Domain() literal, every WriteTo body, Commit/Decommit/Validate) and by a bit-exact Go-vs-Lean differential (BLAKE3 re-implemented in Lean) over generated and adversarially related sequences.",
        "level_note": "Trusted: Lean kernel; translator; harness+diff; BLAKE3 collision resistance is NOT assumed (collisions appear as an explicit disjunct). Modelled not verified: that Go's WriteAny/WriteTo do what the extracted call sequences say (tied by the differential); CBOR-encoded payloads (Exponent, cmp Config) are treated as opaque byte strings.",
    },
}

PROPS["C17"] = {
    "lean": "MpsProps.C17",
    "theorems": [
        "Mps.C17.lifecycle", "Mps.C17.close_at_most_once", "Mps.C17.closed_iff_ended", "Mps.C17.result_xor_error",
        "Mps.C17.ended_is_final", "Mps.C17.stop_running_errors", "Mps.C17.stop_finished_noop",
        "Mps.C17.not_canAccept_noop", "Mps.C17.duplicate_noop",
    ],
    "generated": ["Mps.C17.gen_lock_discipline", "Mps.C17.gen_stop"],
    "suites": [
        {"name": "handler", "quick": 250, "thorough": 6000},
        {"name": "handlerconc", "quick": 60, "thorough": 1500, "race": True},
    ],
    "race": True,
    "propfields": {"handler": ["closed", "term", "can"], "handlerconc": ["ok"]},
    "level_text": "Proof (partial for the runtime part): the lifecycle invariant (channel closed at most once and exactly when ended; result xor error; ended state absorbing; Stop ends a running session and is a no-op on an ended one; refused and duplicate messages are no-ops) is a Lean theorem over ALL scripts and ALL sequences of API calls of the handler model, which transcribes MultiHandler field by field. Serialisability of concurrent calls is reduced to a kernel-checked obligation over the regenerated lock table (every exported method takes the mutex first and defers the unlock). The model is tied to the real MultiHandler by a scripted protocol run through the real handler under generated schedules (all observables compared, echo hashes bit for bit) and by concurrent runs under the race detector.",
    "level_note": "PARTIAL: the Go memory model / scheduler are not modelled — data-race freedom is derived from the extracted lock discipline and searched with -race, not proved about the runtime; blocking on the bounded out channel is excluded by a concurrent drainer in the harness (the property grants draining). The TwoPartyHandler is covered by the lock/Stop tables and suite twoparty, its lifecycle theorem is the analogue over Mps.TwoParty.",
}

# properties that are not (yet) claimed, with the reason
NOT_APPLICABLE = {}
