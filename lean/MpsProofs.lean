import MpsProofs.Frame
