import MpsProofs.Frame
import MpsProofs.Typed
import MpsProofs.Session
import MpsProofs.Handler
import MpsProofs.Echo
import MpsProofs.Blame
import MpsProofs.TwoParty
import MpsProofs.Pool
