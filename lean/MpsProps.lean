import MpsProps.C19
