import MpsProofs.Typed
import Mps.Nonce
/-
  Lemmas for C11 (nonce derivation inputs). Core-only: list / append reasoning as in
  MpsProofs/Frame.lean.
-/
namespace Mps.Nonce
open Mps

/-! ### the keyed-hash input ssidDigest(64) ‖ m ‖ a(32) -/

theorem frostNonceInput_inj (sd sd' m m' a a' : Bytes) (hs : sd.length = sd'.length) (ha : a.length = a'.length)
    (h : frostNonceInput sd m a = frostNonceInput sd' m' a') : sd = sd' ∧ m = m' ∧ a = a' := by
  unfold frostNonceInput at h
  have h1 := List.append_inj' h ha
  have h2 := List.append_inj h1.1 hs
  exact ⟨h2.1, h2.2, h1.2⟩

/-! ### the session items of a FROST signing session determine its parameters -/

theorem dom_sid_ne_proto : str "Session ID" ≠ str "Protocol ID" := by decide
theorem proto_ne : str protocolID ≠ str protocolIDTaproot := by decide

theorem proto_inj (t t' : Bool)
    (h : str (if t then protocolIDTaproot else protocolID) = str (if t' then protocolIDTaproot else protocolID)) :
    t = t' := by
  cases t <;> cases t' <;> simp only [Bool.false_eq_true, if_false, if_true] at h
  · rfl
  · exact absurd h proto_ne
  · exact absurd h.symm proto_ne
  · rfl

/-- validity domain of the session parameters: what `round.NewSession` and Go's types guarantee -/
structure SessionWF (signers : List Bytes) (thr : Nat) : Prop where
  count : signers.length < 2 ^ 64
  each  : ∀ i ∈ signers, i.length < 2 ^ 64
  thr   : thr < 256 ^ 4

theorem frostSession_items_inj (sid sid' : Option Bytes) (t t' : Bool) (ids ids' : List Bytes) (thr thr' : Nat)
    (w : SessionWF ids thr) (w' : SessionWF ids' thr')
    (h : sessionItems (frostSession sid t ids thr) = sessionItems (frostSession sid' t' ids' thr')) :
    sid = sid' ∧ t = t' ∧ ids = ids' ∧ thr = thr' := by
  have key : ∀ (p p' d d' e e' : Bytes),
      ([⟨str "Protocol ID", p⟩, ⟨str "Group Name", str "secp256k1"⟩, ⟨str "IDSlice", d⟩, ⟨str "Threshold", e⟩] : List Item)
        = [⟨str "Protocol ID", p'⟩, ⟨str "Group Name", str "secp256k1"⟩, ⟨str "IDSlice", d'⟩, ⟨str "Threshold", e'⟩] →
      p = p' ∧ d = d' ∧ e = e' := by
    intro p p' d d' e e' hh
    simp only [List.cons.injEq, Item.mk.injEq, true_and, and_true] at hh
    exact ⟨hh.1, hh.2.1, hh.2.2⟩
  have fin : ∀ (p p' d d' e e' : Bytes), p = str (if t then protocolIDTaproot else protocolID) →
      p' = str (if t' then protocolIDTaproot else protocolID) → d = idsData ids → d' = idsData ids' →
      e = be32 thr → e' = be32 thr' → p = p' ∧ d = d' ∧ e = e' → t = t' ∧ ids = ids' ∧ thr = thr' := by
    intro p p' d d' e e' hp hp' hd hd' he he' ⟨h1, h2, h3⟩
    subst hp hp' hd hd' he he'
    exact ⟨proto_inj t t' h1, idsData_inj ids ids' w.count w'.count w.each w'.each h2,
      beN_inj 4 thr thr' w.thr w'.thr h3⟩
  cases sid with
  | none =>
    cases sid' with
    | none =>
      simp only [sessionItems, frostSession, List.nil_append, List.append_nil, List.cons_append] at h
      exact ⟨rfl, fin _ _ _ _ _ _ rfl rfl rfl rfl rfl rfl (key _ _ _ _ _ _ h)⟩
    | some s' =>
      simp only [sessionItems, frostSession, List.nil_append, List.append_nil, List.cons_append,
        List.cons.injEq, Item.mk.injEq] at h
      exact absurd h.1.1.symm dom_sid_ne_proto
  | some s =>
    cases sid' with
    | none =>
      simp only [sessionItems, frostSession, List.nil_append, List.append_nil, List.cons_append,
        List.cons.injEq, Item.mk.injEq] at h
      exact absurd h.1.1 dom_sid_ne_proto
    | some s' =>
      simp only [sessionItems, frostSession, List.nil_append, List.append_nil, List.cons_append] at h
      have h0 := List.cons.inj h
      have hs : s = s' := by
        have := h0.1
        simp only [Item.mk.injEq, true_and] at this
        exact this
      exact ⟨by rw [hs], fin _ _ _ _ _ _ rfl rfl rfl rfl rfl rfl (key _ _ _ _ _ _ h0.2)⟩

/-! ### BIP-340 nonce input t(32) ‖ P(32) ‖ m with t = d ⊕ hash_aux(a) -/

theorem bytesXor_length (a b : Bytes) : (Sig.bytesXor a b).length = min a.length b.length := by
  simp [Sig.bytesXor]

theorem bytesXor_cancel (d h h' : Bytes) (hl : h.length = h'.length) (hd : h.length ≤ d.length)
    (e : Sig.bytesXor d h = Sig.bytesXor d h') : h = h' := by
  induction d generalizing h h' with
  | nil =>
    cases h with
    | nil => cases h' with
      | nil => rfl
      | cons _ _ => simp at hl
    | cons _ _ => simp at hd
  | cons x d ih =>
    cases h with
    | nil => cases h' with
      | nil => rfl
      | cons _ _ => simp at hl
    | cons y h =>
      cases h' with
      | nil => simp at hl
      | cons y' h' =>
        simp only [Sig.bytesXor, List.zipWith_cons_cons, List.cons.injEq] at e
        have e1 : y = y' := (UInt8.xor_right_inj x).mp e.1
        have e2 := ih h h' (by simpa using hl) (by simpa using hd) e.2
        rw [e1, e2]

theorem nonceInput_inj (d d' h h' P P' m m' : Bytes)
    (hd : d.length = 32) (hd' : d'.length = 32) (hh : h.length = 32) (hh' : h'.length = 32)
    (hP : P.length = 32) (hP' : P'.length = 32)
    (e : Sig.Bip340.nonceInput d h P m = Sig.Bip340.nonceInput d' h' P' m') :
    Sig.bytesXor d h = Sig.bytesXor d' h' ∧ P = P' ∧ m = m' := by
  unfold Sig.Bip340.nonceInput at e
  rw [List.append_assoc, List.append_assoc] at e
  have l1 : (Sig.bytesXor d h).length = (Sig.bytesXor d' h').length := by
    rw [bytesXor_length, bytesXor_length, hd, hd', hh, hh']
  have e1 := List.append_inj e l1
  have e2 := List.append_inj e1.2 (by rw [hP, hP'])
  exact ⟨e1.1, e2.1, e2.2⟩

/-! ### the counter used when rand == nil -/

theorem auxOf_counter_inj (c c' : Nat)
    (e : Sig.Bip340.auxOf (.counter c) = Sig.Bip340.auxOf (.counter c')) : c % 2 ^ 64 = c' % 2 ^ 64 := by
  simp only [Sig.Bip340.auxOf] at e
  have e1 := (List.append_inj e (by rw [beN_length, beN_length])).1
  have := congrArg unbe e1
  rw [unbe_beN, unbe_beN] at this
  exact this

end Mps.Nonce
