import Mps.Start
/-
  Lemmas for C20 (start validation). Core-only.
-/
namespace Mps.Start
open Mps

/-! ### sorting keeps the elements -/

theorem mem_insertId (x y : Bytes) (l : List Bytes) : y ∈ insertId x l ↔ y = x ∨ y ∈ l := by
  induction l with
  | nil => simp [insertId]
  | cons a as ih =>
    unfold insertId
    split
    · simp only [List.mem_cons, ih]
      constructor
      · rintro (h | h | h)
        · exact Or.inr (Or.inl h)
        · exact Or.inl h
        · exact Or.inr (Or.inr h)
      · rintro (h | h | h)
        · exact Or.inr (Or.inl h)
        · exact Or.inl h
        · exact Or.inr (Or.inr h)
    · simp only [List.mem_cons]

theorem mem_sortIds (y : Bytes) (l : List Bytes) : y ∈ sortIds l ↔ y ∈ l := by
  induction l with
  | nil => simp [sortIds]
  | cons a as ih =>
    have : sortIds (a :: as) = insertId a (sortIds as) := rfl
    rw [this, mem_insertId, ih, List.mem_cons]

theorem length_insertId (x : Bytes) (l : List Bytes) : (insertId x l).length = l.length + 1 := by
  induction l with
  | nil => rfl
  | cons a as ih =>
    unfold insertId
    split
    · simp [ih]
    · simp

theorem length_sortIds (l : List Bytes) : (sortIds l).length = l.length := by
  induction l with
  | nil => rfl
  | cons a as ih =>
    have : sortIds (a :: as) = insertId a (sortIds as) := rfl
    rw [this, length_insertId, ih, List.length_cons]

theorem distinctNat_iff (l : List Nat) : distinctNat l = true ↔ l.Nodup := by
  induction l with
  | nil => simp [distinctNat]
  | cons a as ih =>
    simp only [distinctNat, Bool.and_eq_true, Bool.not_eq_true', List.nodup_cons, ih]
    constructor
    · rintro ⟨h1, h2⟩
      exact ⟨by simpa using h1, h2⟩
    · rintro ⟨h1, h2⟩
      exact ⟨by simpa using h1, h2⟩

theorem nodup_of_map_nodup {α β : Type} (f : α → β) : ∀ (l : List α), (l.map f).Nodup → l.Nodup
  | [], _ => List.nodup_nil
  | a :: as, h => by
    rw [List.map_cons, List.nodup_cons] at h
    rw [List.nodup_cons]
    exact ⟨fun hm => h.1 (List.mem_map_of_mem hm), nodup_of_map_nodup f as h.2⟩

/-! ### executable validity = validity -/

theorem idsOkB_iff (ids : List Bytes) (self : Bytes) : idsOkB ids self = true ↔ IdsOk ids self := by
  simp only [idsOkB, IdsOk, Bool.and_eq_true, distinctNat_iff, List.contains_iff_mem, List.all_eq_true,
    bne_iff_ne, ne_eq]
  constructor
  · rintro ⟨⟨h1, h2⟩, h3⟩
    exact ⟨nodup_of_map_nodup _ _ h1, h2, h3, h1⟩
  · rintro ⟨_, h2, h3, h4⟩
    exact ⟨⟨h4, h2⟩, h3⟩

theorem validThreshold_iff (t : Int) (n : Nat) : validThreshold t n = true ↔ 0 ≤ t ∧ t ≤ 4294967295 ∧ t < n := by
  simp only [validThreshold, Bool.and_eq_true, decide_eq_true_eq]
  omega

theorem cfgValidB_iff (cf : Cfg) : cfgValidB cf = true ↔ CfgValid cf := by
  simp only [cfgValidB, CfgValid, Bool.and_eq_true, beq_iff_eq, List.all_eq_true, List.contains_iff_mem,
    bne_iff_ne, ne_eq, validThreshold_iff]
  constructor
  · rintro ⟨⟨⟨⟨⟨⟨⟨h1, h2⟩, h3⟩, h4⟩, h5⟩, h6⟩, h7⟩, h8, h9, h10⟩
    exact ⟨h1, h2, h3, h4, h5, h6, h7, h8, h9, h10⟩
  · rintro ⟨h1, h2, h3, h4, h5, h6, h7, h8, h9, h10⟩
    exact ⟨⟨⟨⟨⟨⟨⟨h1, h2⟩, h3⟩, h4⟩, h5⟩, h6⟩, h7⟩, h8, h9, h10⟩

theorem dcfgValidB_iff (cf : Cfg) : dcfgValidB cf = true ↔ DCfgValid cf := by
  simp only [dcfgValidB, DCfgValid, Bool.and_eq_true, beq_iff_eq, and_assoc]

end Mps.Start

namespace Mps.Start
open Mps

theorem signersOkB_iff (cf : Cfg) (signers : List Bytes) : signersOkB cf signers = true ↔ SignersOk cf signers := by
  simp only [signersOkB, SignersOk, Bool.and_eq_true, idsOkB_iff, List.all_eq_true, List.contains_iff_mem,
    decide_eq_true_eq, and_assoc]

theorem presigValidB_iff (ps : Presig) : presigValidB ps = true ↔ PresigValid ps := by
  obtain ⟨r, k, chi, idLen, rbar, s⟩ := ps
  simp only [presigValidB, PresigValid, Bool.and_eq_true, beq_iff_eq]
  cases rbar <;> cases s <;> simp [and_assoc]

theorem validB_iff (fn : Fn) (p : Params) : validB fn p = true ↔ Valid fn p := by
  cases fn <;> simp only [validB, Valid]
  all_goals first
    | (cases hc : p.cfg <;> cases hp : p.presig <;>
        simp [Bool.and_eq_true, cfgValidB_iff, dcfgValidB_iff, idsOkB_iff, signersOkB_iff, presigValidB_iff,
          validThreshold_iff, and_assoc])


theorem perm_insertId (x : Bytes) (l : List Bytes) : (insertId x l).Perm (x :: l) := by
  induction l with
  | nil => exact List.Perm.refl _
  | cons a as ih =>
    unfold insertId
    split
    · exact (List.Perm.cons a ih).trans (List.Perm.swap x a as)
    · exact List.Perm.refl _

theorem perm_sortIds (l : List Bytes) : (sortIds l).Perm l := by
  induction l with
  | nil => exact List.Perm.refl _
  | cons a as ih =>
    have : sortIds (a :: as) = insertId a (sortIds as) := rfl
    rw [this]
    exact (perm_insertId a _).trans (List.Perm.cons a ih)

theorem IdsOk_perm {l₁ l₂ : List Bytes} (h : l₁.Perm l₂) (self : Bytes) : IdsOk l₁ self ↔ IdsOk l₂ self := by
  unfold IdsOk
  rw [h.nodup_iff, h.mem_iff, (h.map idScalar).nodup_iff]
  constructor
  · rintro ⟨a, b, c, d⟩; exact ⟨a, b, fun i hi => c i (h.mem_iff.2 hi), d⟩
  · rintro ⟨a, b, c, d⟩; exact ⟨a, b, fun i hi => c i (h.mem_iff.1 hi), d⟩

/-- the fixed NewSession: what an accepted (participants, self, threshold) triple satisfies -/
theorem newSession_fixed (ids : List Bytes) (self : Bytes) (thr : Int) (h : newSession Code.fixed ids self thr = true) :
    idsOkB ids self = true ∧ validThreshold thr ids.length = true := by
  simp only [newSession, newSessionOk, Code.fixed, Bool.not_true, Bool.false_or, Bool.and_eq_true,
    decide_eq_true_eq, List.contains_iff_mem, length_sortIds] at h
  obtain ⟨⟨⟨⟨⟨⟨_, hs⟩, h0⟩, hm⟩, hn⟩, ht⟩, hsc⟩ := h
  simp only [scalarsOk, Bool.and_eq_true] at hsc
  refine ⟨?_, ?_⟩
  · rw [idsOkB_iff, ← IdsOk_perm (perm_sortIds ids), ← idsOkB_iff]
    simp only [idsOkB, Bool.and_eq_true, List.contains_iff_mem]
    exact ⟨⟨hsc.2, hs⟩, hsc.1⟩
  · rw [validThreshold_iff]; omega

/-- any NewSession (with or without the id guard): participants and threshold -/
theorem newSession_core (c : Code) (ids : List Bytes) (self : Bytes) (thr : Int) (h : newSession c ids self thr = true) :
    self ∈ ids ∧ 0 ≤ thr ∧ thr ≤ 4294967295 ∧ thr < ids.length := by
  simp only [newSession, newSessionOk, Bool.and_eq_true, decide_eq_true_eq, List.contains_iff_mem,
    length_sortIds, mem_sortIds] at h
  obtain ⟨⟨⟨⟨⟨⟨_, hs⟩, h0⟩, hm⟩, hn⟩, ht⟩, _⟩ := h
  exact ⟨hs, h0, hm, by omega⟩

theorem canSign_members (cf : Cfg) (ids : List Bytes) (h : canSign cf (sortIds ids) = true) :
    ids.all (fun j => (keys cf.shares).contains j) = true := by
  simp only [canSign, Bool.and_eq_true, List.all_eq_true, mem_sortIds] at h
  simp only [List.all_eq_true]
  exact h.2

end Mps.Start

namespace Mps.Start
open Mps

/-! ### reading a guard chain -/

theorem ite_err_ok (b : Prop) [Decidable b] (k : Out) : (if b then Out.err else k) = Out.ok ↔ ¬b ∧ k = Out.ok := by
  split <;> simp_all
theorem ite_crash_ok (b : Prop) [Decidable b] (k : Out) : (if b then Out.crash else k) = Out.ok ↔ ¬b ∧ k = Out.ok := by
  split <;> simp_all
theorem andThen_ok (o k : Out) : andThen o k = Out.ok ↔ o = Out.ok ∧ k = Out.ok := by
  cases o <;> simp [andThen]
theorem ite_err_crash (b : Prop) [Decidable b] (k : Out) : (if b then Out.err else k) = Out.crash ↔ ¬b ∧ k = Out.crash := by
  split <;> simp_all
theorem ite_crash_crash (b : Prop) [Decidable b] (k : Out) : (if b then Out.crash else k) = Out.crash ↔ b ∨ k = Out.crash := by
  split <;> simp_all
theorem andThen_crash (o k : Out) : andThen o k = Out.crash ↔ o = Out.crash ∨ (o = Out.ok ∧ k = Out.crash) := by
  cases o <;> simp [andThen]

end Mps.Start

namespace Mps.Start
open Mps

theorem presigLoop_ok (s : List (Bytes × Tri)) (rb : List (Bytes × Tri)) :
    presigLoop true s rb = Out.ok ↔ ∀ e ∈ rb, e.2 = Tri.good ∧ lookup s e.1 = some Tri.good := by
  induction rb with
  | nil => simp [presigLoop]
  | cons e rest ih =>
    obtain ⟨id, r⟩ := e
    simp only [presigLoop, List.mem_cons, forall_eq_or_imp]
    cases hl : lookup s id with
    | none => simp
    | some t =>
      cases t <;> cases r <;> simp [ih]

theorem triCheck_ok (t : Tri) (k : Out) : triCheck true t k = Out.ok ↔ t = Tri.good ∧ k = Out.ok := by
  cases t <;> simp [triCheck]

/-- `PreSignature.Validate` with the nil guards: ok exactly on well-formed presignatures -/
theorem presigValidate_ok_iff (ps : Presig) : presigValidate true ps = Out.ok ↔ PresigValid ps := by
  obtain ⟨r, k, chi, idLen, rbar, s⟩ := ps
  cases rbar <;> cases s <;>
    simp only [presigValidate, PresigValid, reduceCtorEq, if_true, false_and, exists_false, and_false]
  rename_i rb s
  simp only [Option.some.injEq, ite_err_ok, andThen_ok, presigLoop_ok, triCheck_ok, bne_iff_ne, ne_eq, Decidable.not_not,
    and_true]
  constructor
  · rintro ⟨hl, hloop, hr, hid, hchi, hk⟩
    exact ⟨hr, hk, hchi, hid, rb, s, rfl, rfl, hl, hloop⟩
  · rintro ⟨hr, hk, hchi, hid, rb', s', h1, h2, hl, hloop⟩
    subst h1; subst h2
    exact ⟨hl, hloop, hr, hid, hchi, hk⟩

end Mps.Start

namespace Mps.Start
open Mps

/-! ### strictly sorted lists have no duplicates -/

theorem bytesLt_irrefl : ∀ a : Bytes, bytesLt a a = false
  | [] => rfl
  | x :: xs => by
    simp only [bytesLt, Bool.or_eq_false_iff, decide_eq_false_iff_not, UInt8.lt_irrefl, not_false_eq_true, beq_self_eq_true,
      Bool.true_and, true_and]
    exact bytesLt_irrefl xs

theorem bytesLt_trans : ∀ a b c : Bytes, bytesLt a b = true → bytesLt b c = true → bytesLt a c = true
  | [], [], _, h, _ => by simp [bytesLt] at h
  | [], _ :: _, [], _, h => by simp [bytesLt] at h
  | [], _ :: _, _ :: _, _, _ => rfl
  | _ :: _, [], _, h, _ => by simp [bytesLt] at h
  | _ :: _, _ :: _, [], _, h => by simp [bytesLt] at h
  | x :: xs, y :: ys, z :: zs, h1, h2 => by
    simp only [bytesLt, Bool.or_eq_true, decide_eq_true_eq, Bool.and_eq_true, beq_iff_eq] at h1 h2 ⊢
    rcases h1 with h1 | ⟨rfl, h1⟩ <;> rcases h2 with h2 | ⟨rfl, h2⟩
    · exact Or.inl (UInt8.lt_trans h1 h2)
    · exact Or.inl h1
    · exact Or.inl h2
    · exact Or.inr ⟨rfl, bytesLt_trans xs ys zs h1 h2⟩

theorem idsValid_pairwise : ∀ l : List Bytes, idsValid l = true → l.Pairwise (fun a b => bytesLt a b = true)
  | [], _ => List.Pairwise.nil
  | [_], _ => List.pairwise_singleton _ _
  | a :: b :: rest, h => by
    simp only [idsValid, Bool.and_eq_true] at h
    have ih := idsValid_pairwise (b :: rest) h.2
    rw [List.pairwise_cons]
    refine ⟨?_, ih⟩
    intro c hc
    rcases List.mem_cons.1 hc with rfl | hc
    · exact h.1
    · exact bytesLt_trans a b c h.1 ((List.pairwise_cons.1 ih).1 c hc)

theorem idsValid_nodup (l : List Bytes) (h : idsValid l = true) : l.Nodup := by
  refine (idsValid_pairwise l h).imp ?_
  intro a b hab heq
  subst heq
  rw [bytesLt_irrefl] at hab
  cases hab

/-! ### the code with every guard in place: ok implies valid -/

macro "chain" "[" ts:Lean.Parser.Tactic.simpLemma,* "]" " at " h:ident : tactic =>
  `(tactic| simp only [startAsCoded, keygenLike, cmpLike, Code.fixed, ite_err_ok, ite_crash_ok, andThen_ok, Bool.true_and, Bool.and_true,
      Bool.not_eq_true', Bool.not_eq_false', Bool.not_eq_false, Bool.not_true, Bool.false_and, Bool.and_eq_true, Bool.or_eq_true, beq_iff_eq, bne_iff_ne, Nat.beq_eq_true_eq, and_true, true_and,
      Bool.false_eq_true, not_false_eq_true, if_false, ne_eq, reduceCtorEq, not_true_eq_false, false_and, and_false, $ts,*] at $h:ident)

theorem fixed_ok_imp_validB (fn : Fn) (p : Params) (h : startAsCoded Code.fixed fn p = Out.ok) : validB fn p = true := by
  cases fn
  case cmpKeygen =>
    chain [] at h
    obtain ⟨hg, hn, _⟩ := h
    have := newSession_fixed _ _ _ hn
    simp [validB, hg, this.1, this.2]
  case frostKeygen =>
    chain [] at h
    obtain ⟨hg, hn, _⟩ := h
    have := newSession_fixed _ _ _ hn
    simp [validB, hg, this.1, this.2]
  case frostKeygenTaproot =>
    chain [] at h
    have := newSession_fixed _ _ _ h
    simp [validB, this.1, this.2]
  case cmpRefresh =>
    cases hc : p.cfg with
    | none => simp [startAsCoded, hc, Code.fixed] at h
    | some cf =>
      chain [hc] at h
      obtain ⟨hv, hn, _⟩ := h
      have := newSession_fixed _ _ _ hn
      simp [validB, hc, hv, this.1]
  case cmpSign =>
    cases hc : p.cfg with
    | none => simp [startAsCoded, hc, Code.fixed] at h
    | some cf =>
      chain [hc] at h
      obtain ⟨hv, hm, hn, _, hcs, _⟩ := h
      have hs := newSession_fixed _ _ _ hn
      have hmem := canSign_members cf p.ids hcs
      have hthr := (validThreshold_iff _ _).1 hs.2
      simp only [validB, hc, signersOkB, hv, hs.1, hmem, Bool.true_and, Bool.and_eq_true, decide_eq_true_eq]
      exact ⟨hthr.2.2, by omega⟩
  case cmpPresign =>
    cases hc : p.cfg with
    | none => simp [startAsCoded, hc, Code.fixed] at h
    | some cf =>
      chain [hc] at h
      obtain ⟨hv, hn, _, hcs, _⟩ := h
      have hs := newSession_fixed _ _ _ hn
      have hmem := canSign_members cf p.ids hcs
      have hthr := (validThreshold_iff _ _).1 hs.2
      simp only [validB, hc, signersOkB, hv, hs.1, hmem, Bool.true_and, Bool.and_eq_true, decide_eq_true_eq]
      exact hthr.2.2
  case frostRefresh =>
    cases hc : p.cfg with
    | none => simp [startAsCoded, hc, Code.fixed] at h
    | some cf =>
      chain [hc] at h
      obtain ⟨⟨hv, hmem⟩, _, _, hn⟩ := h
      have hs := newSession_fixed _ _ _ hn
      have hthr := (validThreshold_iff _ _).1 hs.2
      simp only [validB, hc, signersOkB, hv, hs.1, hmem, Bool.true_and, decide_eq_true_eq]
      exact hthr.2.2
  case frostRefreshTaproot =>
    cases hc : p.cfg with
    | none => simp [startAsCoded, hc, Code.fixed] at h
    | some cf =>
      chain [hc] at h
      obtain ⟨⟨hv, hmem⟩, _, hn, _⟩ := h
      have hs := newSession_fixed _ _ _ hn
      have hthr := (validThreshold_iff _ _).1 hs.2
      simp only [validB, hc, signersOkB, hv, hs.1, hmem, Bool.true_and, decide_eq_true_eq]
      exact hthr.2.2
  case frostSign =>
    cases hc : p.cfg with
    | none => simp [startAsCoded, hc, Code.fixed] at h
    | some cf =>
      chain [hc] at h
      obtain ⟨⟨⟨hv, hm⟩, hmem⟩, _, hn, _⟩ := h
      have hs := newSession_fixed _ _ _ hn
      have hthr := (validThreshold_iff _ _).1 hs.2
      simp only [validB, hc, signersOkB, hv, hs.1, hmem, Bool.true_and, Bool.and_eq_true, decide_eq_true_eq]
      exact ⟨hthr.2.2, by omega⟩
  case frostSignTaproot =>
    cases hc : p.cfg with
    | none => simp [startAsCoded, hc, Code.fixed] at h
    | some cf =>
      chain [hc] at h
      obtain ⟨⟨⟨hv, hm⟩, hmem⟩, _, hn, _⟩ := h
      have hs := newSession_fixed _ _ _ hn
      have hthr := (validThreshold_iff _ _).1 hs.2
      simp only [validB, hc, signersOkB, hv, hs.1, hmem, Bool.true_and, Bool.and_eq_true, decide_eq_true_eq]
      exact ⟨hthr.2.2, by omega⟩
  case doernerKeygen =>
    chain [] at h
    obtain ⟨hg, _, hn⟩ := h
    have := newSession_fixed _ _ _ hn
    simp [validB, hg, this.1]
  case doernerRefreshReceiver =>
    cases hc : p.cfg with
    | none => simp [startAsCoded, hc, Code.fixed] at h
    | some cf =>
      chain [hc] at h
      obtain ⟨hv, _, hn, _⟩ := h
      have := newSession_fixed _ _ _ hn
      simp [validB, hc, hv, this.1]
  case doernerRefreshSender =>
    cases hc : p.cfg with
    | none => simp [startAsCoded, hc, Code.fixed] at h
    | some cf =>
      chain [hc] at h
      obtain ⟨hv, _, hn, _⟩ := h
      have := newSession_fixed _ _ _ hn
      simp [validB, hc, hv, this.1]
  case doernerSignReceiver =>
    cases hc : p.cfg with
    | none => simp [startAsCoded, hc, Code.fixed] at h
    | some cf =>
      chain [hc] at h
      obtain ⟨⟨hv, hm⟩, _, hn, _⟩ := h
      have := newSession_fixed _ _ _ hn
      simp only [validB, hc, hv, this.1, Bool.true_and, decide_eq_true_eq]
      omega
  case doernerSignSender =>
    cases hc : p.cfg with
    | none => simp [startAsCoded, hc, Code.fixed] at h
    | some cf =>
      chain [hc] at h
      obtain ⟨⟨hv, hm⟩, _, hn⟩ := h
      have := newSession_fixed _ _ _ hn
      simp only [validB, hc, hv, this.1, Bool.true_and, decide_eq_true_eq]
      omega
  case cmpPresignOnline =>
    cases hc : p.cfg with
    | none => simp [startAsCoded, hc, Code.fixed] at h
    | some cf =>
      cases hp : p.presig with
      | none => simp [startAsCoded, hc, hp, Code.fixed] at h
      | some ps =>
        chain [hc, hp] at h
        obtain ⟨hv, hm, hps, hcs, hn, _⟩ := h
        have hs := newSession_fixed _ _ _ hn
        have hmem := canSign_members cf _ hcs
        have hthr := (validThreshold_iff _ _).1 hs.2
        rw [length_sortIds] at hthr
        have hids : idsOkB (keys ps.rbar) cf.id = true := by
          rw [idsOkB_iff, ← IdsOk_perm (perm_sortIds _), ← idsOkB_iff]; exact hs.1
        have hmem' : (keys ps.rbar).all (fun j => (keys cf.shares).contains j) = true := by
          simp only [List.all_eq_true, mem_sortIds] at hmem ⊢; exact hmem
        have hpv : presigValidB ps = true := (presigValidB_iff ps).2 ((presigValidate_ok_iff ps).1 hps)
        simp only [validB, hc, hp, signersOkB, hv, hpv, hids, hmem', Bool.true_and, Bool.and_eq_true, decide_eq_true_eq]
        exact ⟨hthr.2.2, by omega⟩

end Mps.Start

namespace Mps.Start
open Mps

/-! ### the code with every guard in place never crashes -/

macro "chainc" "[" ts:Lean.Parser.Tactic.simpLemma,* "]" " at " h:ident : tactic =>
  `(tactic| simp only [startAsCoded, keygenLike, cmpLike, Code.fixed, ite_err_crash, ite_crash_crash, andThen_crash, andThen_ok, ite_err_ok, ite_crash_ok, Bool.true_and, Bool.and_true,
      Bool.not_eq_true', Bool.not_eq_false', Bool.not_eq_false, Bool.not_true, Bool.false_and, Bool.and_eq_true, Bool.or_eq_true, beq_iff_eq, bne_iff_ne, Nat.beq_eq_true_eq, and_true, true_and,
      Bool.false_eq_true, not_false_eq_true, if_false, ne_eq, reduceCtorEq, not_true_eq_false, false_and, and_false, or_false, false_or, $ts,*] at $h:ident)

theorem cfgValidB_facts (cf : Cfg) (h : cfgValidB cf = true) :
    cf.group = true ∧ cf.secret = Tri.good ∧ cf.aux = true ∧ cf.shares.isNone = false ∧ cfgWrite cf = Out.ok := by
  have hv := (cfgValidB_iff cf).1 h
  obtain ⟨h1, h2, h3, h4, h5, _⟩ := hv
  refine ⟨h1, h2, h3, ?_, ?_⟩
  · cases hs : cf.shares <;> simp_all
  · unfold cfgWrite
    have : (cf.shares.getD []).find? (fun e => e.2 != Tri.good) = none := by
      rw [List.find?_eq_none]
      intro e he
      simp [h5 e he]
    rw [this]

theorem fixed_self_scalar (ids : List Bytes) (self : Bytes) (thr : Int) (h : newSession Code.fixed ids self thr = true) :
    (idScalar self == 0) = false := by
  have := (idsOkB_iff _ _).1 (newSession_fixed ids self thr h).1
  have := (this.2.2.1 self this.2.1).2
  simpa using this

theorem presigLoop_true_ne_crash (s rb : List (Bytes × Tri)) : presigLoop true s rb ≠ Out.crash := by
  induction rb with
  | nil => simp [presigLoop]
  | cons e rest ih =>
    obtain ⟨id, r⟩ := e
    simp only [presigLoop]
    cases lookup s id with
    | none => simp
    | some t => cases t <;> cases r <;> simp [ih]

theorem triCheck_true_crash (t : Tri) (k : Out) : triCheck true t k = Out.crash ↔ t = Tri.good ∧ k = Out.crash := by
  cases t <;> simp [triCheck]

theorem presigValidate_true_ne_crash (ps : Presig) : presigValidate true ps ≠ Out.crash := by
  obtain ⟨r, k, chi, idLen, rbar, s⟩ := ps
  cases rbar <;> cases s <;> simp only [presigValidate, reduceCtorEq, if_true, ne_eq, not_false_eq_true]
  rename_i rb s
  intro h
  split at h
  · cases h
  · rw [andThen_crash] at h
    rcases h with h | ⟨_, h⟩
    · exact presigLoop_true_ne_crash _ _ h
    · rw [triCheck_true_crash] at h
      obtain ⟨_, h⟩ := h
      split at h
      · cases h
      · rw [triCheck_true_crash] at h
        obtain ⟨_, h⟩ := h
        rw [triCheck_true_crash] at h
        cases h.2

theorem fixed_ne_crash (fn : Fn) (p : Params) : startAsCoded Code.fixed fn p ≠ Out.crash := by
  intro h
  cases fn
  case cmpKeygen =>
    chainc [] at h
    obtain ⟨hg, hn, hz⟩ := h
    rcases hz with hz | hz
    · simp [hg] at hz
    · have := fixed_self_scalar _ _ _ hn
      simp_all
  case frostKeygen =>
    chainc [] at h
    obtain ⟨hg, _, hz⟩ := h
    simp [hg] at hz
  case frostKeygenTaproot =>
    chainc [] at h
  case cmpRefresh =>
    cases hc : p.cfg with
    | none => simp [startAsCoded, hc, Code.fixed] at h
    | some cf =>
      chainc [hc] at h
      obtain ⟨hv, hn, hz⟩ := h
      have hf := cfgValidB_facts cf hv
      have := fixed_self_scalar _ _ _ hn
      simp_all
  case cmpSign =>
    cases hc : p.cfg with
    | none => simp [startAsCoded, hc, Code.fixed] at h
    | some cf =>
      chainc [hc] at h
      obtain ⟨hv, _, _, hz⟩ := h
      have hf := cfgValidB_facts cf hv
      simp_all
  case cmpPresign =>
    cases hc : p.cfg with
    | none => simp [startAsCoded, hc, Code.fixed] at h
    | some cf =>
      chainc [hc] at h
      obtain ⟨hv, _, hz⟩ := h
      have hf := cfgValidB_facts cf hv
      simp_all
  case cmpPresignOnline =>
    cases hc : p.cfg with
    | none => simp [startAsCoded, hc, Code.fixed] at h
    | some cf =>
      cases hp : p.presig with
      | none => simp [startAsCoded, hc, hp, Code.fixed] at h
      | some ps =>
        chainc [hc, hp] at h
        obtain ⟨hv, _, hz⟩ := h
        have hf := cfgValidB_facts cf hv
        have := presigValidate_true_ne_crash ps
        simp_all
  case frostRefresh =>
    cases hc : p.cfg with
    | none => simp [startAsCoded, hc, Code.fixed] at h
    | some cf =>
      chainc [hc] at h
      obtain ⟨⟨hv, _⟩, hz⟩ := h
      have hf := cfgValidB_facts cf hv
      simp_all
  case frostRefreshTaproot =>
    cases hc : p.cfg with
    | none => simp [startAsCoded, hc, Code.fixed] at h
    | some cf =>
      chainc [hc] at h
      obtain ⟨⟨hv, _⟩, hz⟩ := h
      have hf := cfgValidB_facts cf hv
      simp_all
  case frostSign =>
    cases hc : p.cfg with
    | none => simp [startAsCoded, hc, Code.fixed] at h
    | some cf =>
      chainc [hc] at h
      obtain ⟨⟨⟨hv, _⟩, _⟩, hz⟩ := h
      have hf := cfgValidB_facts cf hv
      simp_all
  case frostSignTaproot =>
    cases hc : p.cfg with
    | none => simp [startAsCoded, hc, Code.fixed] at h
    | some cf =>
      chainc [hc] at h
      obtain ⟨⟨⟨hv, _⟩, _⟩, hz⟩ := h
      have hf := cfgValidB_facts cf hv
      simp_all
  case doernerKeygen =>
    chainc [] at h
    simp_all
  case doernerRefreshReceiver =>
    cases hc : p.cfg with
    | none => simp [startAsCoded, hc, Code.fixed] at h
    | some cf =>
      chainc [hc] at h
      obtain ⟨hv, hz⟩ := h
      have hf := (dcfgValidB_iff cf).1 hv
      obtain ⟨h1, h2, h3⟩ := hf
      simp_all
  case doernerRefreshSender =>
    cases hc : p.cfg with
    | none => simp [startAsCoded, hc, Code.fixed] at h
    | some cf =>
      chainc [hc] at h
      obtain ⟨hv, hz⟩ := h
      have hf := (dcfgValidB_iff cf).1 hv
      obtain ⟨h1, h2, h3⟩ := hf
      simp_all
  case doernerSignReceiver =>
    cases hc : p.cfg with
    | none => simp [startAsCoded, hc, Code.fixed] at h
    | some cf =>
      chainc [hc] at h
      obtain ⟨⟨hv, _⟩, hz⟩ := h
      have hf := (dcfgValidB_iff cf).1 hv
      obtain ⟨h1, h2, h3⟩ := hf
      simp_all
  case doernerSignSender =>
    cases hc : p.cfg with
    | none => simp [startAsCoded, hc, Code.fixed] at h
    | some cf =>
      chainc [hc] at h
      obtain ⟨⟨hv, _⟩, hz⟩ := h
      have hf := (dcfgValidB_iff cf).1 hv
      obtain ⟨h1, h2, h3⟩ := hf
      simp_all

/-! ### what holds on every tree -/

theorem newSession_nodup (c : Code) (ids : List Bytes) (self : Bytes) (thr : Int) (h : newSession c ids self thr = true) :
    ids.Nodup := by
  simp only [newSession, newSessionOk, Bool.and_eq_true] at h
  exact (perm_sortIds ids).nodup_iff.1 (idsValid_nodup _ h.1.1.1.1.1.1)

macro "chaing" "[" ts:Lean.Parser.Tactic.simpLemma,* "]" " at " h:ident : tactic =>
  `(tactic| simp only [startAsCoded, keygenLike, cmpLike, ite_err_ok, ite_crash_ok, andThen_ok, Bool.true_and, Bool.and_true,
      Bool.not_eq_true', Bool.not_eq_false', Bool.not_eq_false, Bool.not_true, Bool.false_and, Bool.and_eq_true, Bool.or_eq_true, beq_iff_eq, bne_iff_ne, Nat.beq_eq_true_eq, and_true, true_and,
      Bool.false_eq_true, not_false_eq_true, if_false, ne_eq, reduceCtorEq, not_true_eq_false, false_and, and_false, $ts,*] at $h:ident)

theorem pair_ne (a b : Bytes) (h : [a, b].Nodup) : a ≠ b := by
  intro e; subst e; simp at h

theorem ok_imp_core (c : Code) (fn : Fn) (p : Params) (h : startAsCoded c fn p = Out.ok) : Core fn p := by
  cases fn
  case cmpKeygen =>
    chaing [] at h
    obtain ⟨_, hn, _⟩ := h
    exact ⟨newSession_nodup _ _ _ _ hn, newSession_core _ _ _ _ hn⟩
  case frostKeygen =>
    chaing [] at h
    obtain ⟨_, hn, _⟩ := h
    exact ⟨newSession_nodup _ _ _ _ hn, newSession_core _ _ _ _ hn⟩
  case frostKeygenTaproot =>
    chaing [] at h
    exact ⟨newSession_nodup _ _ _ _ h, newSession_core _ _ _ _ h⟩
  case cmpRefresh =>
    cases hc : p.cfg with
    | none => simp only [startAsCoded, hc] at h; split at h <;> cases h
    | some cf =>
      chaing [hc] at h
      obtain ⟨_, hn, _⟩ := h
      have := newSession_core _ _ _ _ hn
      exact ⟨cf, hc, newSession_nodup _ _ _ _ hn, this.1, this.2.1, this.2.2.2⟩
  case cmpSign =>
    cases hc : p.cfg with
    | none => simp only [startAsCoded, hc] at h; split at h <;> cases h
    | some cf =>
      chaing [hc] at h
      obtain ⟨_, hm, hn, _, hcs, _⟩ := h
      have := newSession_core _ _ _ _ hn
      have hmem := canSign_members cf p.ids hcs
      simp only [List.all_eq_true, List.contains_iff_mem] at hmem
      exact ⟨cf, hc, newSession_nodup _ _ _ _ hn, this.1, this.2.1, this.2.2.2, hmem, by omega⟩
  case cmpPresign =>
    cases hc : p.cfg with
    | none => simp only [startAsCoded, hc] at h; cases h
    | some cf =>
      chaing [hc] at h
      obtain ⟨_, hn, _, hcs, _⟩ := h
      have := newSession_core _ _ _ _ hn
      have hmem := canSign_members cf p.ids hcs
      simp only [List.all_eq_true, List.contains_iff_mem] at hmem
      exact ⟨cf, hc, newSession_nodup _ _ _ _ hn, this.1, this.2.1, this.2.2.2, hmem⟩
  case cmpPresignOnline =>
    cases hc : p.cfg with
    | none => simp only [startAsCoded, hc] at h; cases h
    | some cf =>
      cases hp : p.presig with
      | none => simp only [startAsCoded, hc, hp] at h; cases h
      | some ps =>
        chaing [hc, hp] at h
        obtain ⟨_, hm, _, hcs, hn, _⟩ := h
        have := newSession_core _ _ _ _ hn
        rw [mem_sortIds, length_sortIds] at this
        have hmem := canSign_members cf _ hcs
        simp only [List.all_eq_true, List.contains_iff_mem] at hmem
        exact ⟨cf, ps, hc, hp, this.1, this.2.1, this.2.2.2, hmem, by omega⟩
  case frostRefresh =>
    cases hc : p.cfg with
    | none => simp only [startAsCoded, hc] at h; split at h <;> cases h
    | some cf =>
      chaing [hc] at h
      obtain ⟨_, _, _, hn⟩ := h
      have := newSession_core _ _ _ _ hn
      exact ⟨cf, hc, newSession_nodup _ _ _ _ hn, this.1, this.2.1, this.2.2.2⟩
  case frostRefreshTaproot =>
    cases hc : p.cfg with
    | none => simp only [startAsCoded, hc] at h; split at h <;> cases h
    | some cf =>
      chaing [hc] at h
      obtain ⟨_, _, hn, _⟩ := h
      have := newSession_core _ _ _ _ hn
      exact ⟨cf, hc, newSession_nodup _ _ _ _ hn, this.1, this.2.1, this.2.2.2⟩
  case frostSign =>
    cases hc : p.cfg with
    | none => simp only [startAsCoded, hc] at h; split at h <;> cases h
    | some cf =>
      chaing [hc] at h
      obtain ⟨_, _, hn, _⟩ := h
      have := newSession_core _ _ _ _ hn
      exact ⟨cf, hc, newSession_nodup _ _ _ _ hn, this.1, this.2.1, this.2.2.2⟩
  case frostSignTaproot =>
    cases hc : p.cfg with
    | none => simp only [startAsCoded, hc] at h; split at h <;> cases h
    | some cf =>
      chaing [hc] at h
      obtain ⟨_, _, hn, _⟩ := h
      have := newSession_core _ _ _ _ hn
      exact ⟨cf, hc, newSession_nodup _ _ _ _ hn, this.1, this.2.1, this.2.2.2⟩
  case doernerKeygen =>
    chaing [] at h
    obtain ⟨_, _, hn⟩ := h
    exact pair_ne _ _ (newSession_nodup _ _ _ _ hn)
  case doernerRefreshReceiver =>
    cases hc : p.cfg with
    | none => simp only [startAsCoded, hc] at h; split at h <;> cases h
    | some cf =>
      chaing [hc] at h
      obtain ⟨_, _, hn, _⟩ := h
      exact ⟨cf, hc, pair_ne _ _ (newSession_nodup _ _ _ _ hn)⟩
  case doernerRefreshSender =>
    cases hc : p.cfg with
    | none => simp only [startAsCoded, hc] at h; split at h <;> cases h
    | some cf =>
      chaing [hc] at h
      obtain ⟨_, _, hn, _⟩ := h
      exact ⟨cf, hc, pair_ne _ _ (newSession_nodup _ _ _ _ hn)⟩
  case doernerSignReceiver =>
    cases hc : p.cfg with
    | none => simp only [startAsCoded, hc] at h; split at h <;> cases h
    | some cf =>
      chaing [hc] at h
      obtain ⟨_, _, hn, _⟩ := h
      exact ⟨cf, hc, pair_ne _ _ (newSession_nodup _ _ _ _ hn)⟩
  case doernerSignSender =>
    cases hc : p.cfg with
    | none => simp only [startAsCoded, hc] at h; split at h <;> cases h
    | some cf =>
      chaing [hc] at h
      obtain ⟨_, _, hn⟩ := h
      exact ⟨cf, hc, pair_ne _ _ (newSession_nodup _ _ _ _ hn)⟩

end Mps.Start
