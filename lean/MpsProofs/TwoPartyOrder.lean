import MpsProofs.TwoParty
/-
  Lemmas for C07 on the two-party handler model (Mps/TwoParty.lean): the outcome of a handler that is only
  given honest messages does not depend on the order, repetition, earliness or lateness of the deliveries.
  Core-only.
-/
namespace Mps.TwoParty
open Mps Mps.Handler

/-! ## Part 1: `advanceStep` in pieces; the message store only matters through `lookup2` at the current round -/

/-- the `verifyMessage` / `StoreMessage` part of one iteration of `advance`, given the looked-up message -/
def storeL (s : State2) (lk : Option Msg) : Option State2 :=
  match lk with
  | none => some s
  | some m =>
    if !(curRound s).recv then none
    else match m.dec with
      | none => none
      | some c =>
        if hasFlag c.f fFailVerify || hasFlag c.f fFailStore then none
        else some { s with acc := s.acc + c.v, accuse := s.accuse || hasFlag c.f fAccuse }

/-- the messages round `r` sends when it is finalized -/
def emit2 (r : Round2) (s1 : State2) : List Msg :=
  if r.send then
    let c : Content := ⟨honestV { ids := s1.sc.ids, self := s1.sc.self, final := 0, rounds := [], proto := [], ssid := [],
                                  sess := [], finErrAt := 0 } s1.sc.self s1.sc.peer r.sendNum, 0⟩
    [{ ssid := some s1.sc.ssid, frm := s1.sc.self, to := s1.sc.peer, proto := s1.sc.proto, rnd := r.sendNum,
       data := some (cborContent c), bcast := false, bv := none, dec := some c }]
  else []

/-- the `Finalize` part of one iteration of `advance` -/
def finish (r : Round2) (s1 : State2) : Step2 :=
  if s1.sc.finErrAt != 0 && s1.sc.finErrAt == s1.cur then .halt (abort2 s1 (some .finalizeErr))
  else if s1.accuse then .halt (abort2 { s1 with ended := true, cur := 0 } (some .protoAbort))
  else match s1.sc.rounds[s1.idx + 1]? with
    | none => .halt (abort2 { s1 with ended := true, cur := 0, result := some s1.acc } none)
    | some nx => .more { s1 with out := s1.out ++ emit2 r s1, idx := s1.idx + 1, cur := nx.num }

theorem advanceStep_eq (s : State2) :
    advanceStep s = if !canAdvance s then .halt s else
      match storeL s (lookup2 s.msgs s.cur) with
      | none => .halt (abort2 s (some .msgFail))
      | some s1 => finish (curRound s) s1 := rfl

def setMsgs (s : State2) (q : List (Nat × Msg)) : State2 := { s with msgs := q }

def Step2.setMsgs : Step2 → List (Nat × Msg) → Step2
  | .halt s, q => .halt (TwoParty.setMsgs s q)
  | .more s, q => .more (TwoParty.setMsgs s q)

theorem setMsgs_self (s : State2) : setMsgs s s.msgs = s := rfl
theorem setMsgs_setMsgs (s : State2) (q q' : List (Nat × Msg)) : setMsgs (setMsgs s q) q' = setMsgs s q' := rfl

theorem abort2_setMsgs (s : State2) (q : List (Nat × Msg)) (e : Option Err2) :
    abort2 (setMsgs s q) e = setMsgs (abort2 s e) q := by
  cases e <;> rfl

theorem storeL_setMsgs (s : State2) (q : List (Nat × Msg)) (lk : Option Msg) :
    storeL (setMsgs s q) lk = (storeL s lk).map (setMsgs · q) := by
  unfold storeL
  cases lk with
  | none => rfl
  | some m =>
    simp only
    have : curRound (setMsgs s q) = curRound s := rfl
    rw [this]
    split
    · rfl
    · cases m.dec with
      | none => rfl
      | some c =>
        simp only
        split <;> rfl

theorem finish_setMsgs (r : Round2) (s : State2) (q : List (Nat × Msg)) :
    finish r (setMsgs s q) = (finish r s).setMsgs q := by
  unfold finish
  by_cases h1 : (s.sc.finErrAt != 0 && s.sc.finErrAt == s.cur) = true
  · simp only [setMsgs, h1, if_true]; rfl
  · by_cases h2 : s.accuse = true
    · simp only [setMsgs, h1, h2, if_true]; rfl
    · cases h3 : s.sc.rounds[s.idx + 1]? with
      | none => simp only [setMsgs, h1, h2, h3]; rfl
      | some nx => simp only [setMsgs, h1, h2, h3]; rfl

theorem advanceStep_setMsgs (s : State2) (q : List (Nat × Msg)) (h : lookup2 q s.cur = lookup2 s.msgs s.cur) :
    advanceStep (setMsgs s q) = (advanceStep s).setMsgs q := by
  rw [advanceStep_eq, advanceStep_eq]
  have e1 : canAdvance (setMsgs s q) = canAdvance s := by
    unfold canAdvance
    simp only [setMsgs, h]
    rfl
  have e2 : (setMsgs s q).msgs = q := rfl
  have e3 : (setMsgs s q).cur = s.cur := rfl
  have e4 : curRound (setMsgs s q) = curRound s := rfl
  rw [e1, e2, e3, e4, h, storeL_setMsgs]
  split
  · rfl
  · cases storeL s (lookup2 s.msgs s.cur) with
    | none => exact congrArg Step2.halt (abort2_setMsgs s q _)
    | some s1 => exact finish_setMsgs _ s1 q

theorem lookup2_put2 (q : List (Nat × Msg)) (r r' : Nat) (m : Msg) :
    lookup2 (put2 q r m) r' = if r' = r then some m else lookup2 q r' := by
  unfold lookup2 put2
  by_cases h : r' = r
  · subst h; simp
  · have h' : (r == r') = false := by simpa using (Ne.symm h)
    simp only [List.find?_cons, h', h, if_false]
    congr 1
    rw [List.find?_filter]
    congr 1
    funext e
    by_cases he : e.1 = r'
    · have : e.1 ≠ r := fun x => h (he.symm.trans x)
      simp [he, h]
    · simp [he]

/-! ### what one iteration does to the fields -/

theorem storeL_some (s s1 : State2) (lk : Option Msg) (h : storeL s lk = some s1) :
    ∃ a b, s1 = { s with acc := a, accuse := b } := by
  unfold storeL at h
  cases lk with
  | none => simp only [Option.some.injEq] at h; subst h; exact ⟨s.acc, s.accuse, rfl⟩
  | some m =>
    simp only at h
    split at h
    · simp at h
    · cases hd : m.dec with
      | none => simp [hd] at h
      | some c =>
        simp only [hd] at h
        split at h
        · simp at h
        · simp only [Option.some.injEq] at h; subst h; exact ⟨_, _, rfl⟩

theorem finish_more (r : Round2) (s1 s' : State2) (h : finish r s1 = .more s') :
    s1.accuse = false ∧ ∃ nx, s1.sc.rounds[s1.idx + 1]? = some nx ∧
      s' = { s1 with out := s1.out ++ emit2 r s1, idx := s1.idx + 1, cur := nx.num } := by
  unfold finish at h
  split at h
  · simp at h
  · split at h
    · simp at h
    · next h2 =>
      split at h
      · simp at h
      · next nx hn =>
        simp only [Step2.more.injEq] at h
        exact ⟨by simpa using h2, nx, hn, h.symm⟩

theorem finish_halt (r : Round2) (s1 s' : State2) (h : finish r s1 = .halt s') : terminal2 s' = true := by
  unfold finish at h
  split at h
  · simp only [Step2.halt.injEq] at h; subst h; simp [terminal2, abort2]
  · split at h
    · simp only [Step2.halt.injEq] at h; subst h; simp [terminal2, abort2]
    · split at h
      · simp only [Step2.halt.injEq] at h; subst h; simp [terminal2, abort2]
      · simp at h

/-- an iteration that goes on: the next round of the script is entered, the store is untouched -/
theorem advanceStep_more (s s' : State2) (h : advanceStep s = .more s') :
    s'.sc = s.sc ∧ s'.idx = s.idx + 1 ∧ s'.msgs = s.msgs ∧ s'.err = s.err ∧ s'.result = s.result ∧
    s'.ended = s.ended ∧ s'.accuse = false ∧ (s.sc.rounds[s.idx + 1]?).map (·.num) = some s'.cur := by
  rw [advanceStep_eq] at h
  split at h
  · simp at h
  · cases hs : storeL s (lookup2 s.msgs s.cur) with
    | none => simp [hs] at h
    | some s1 =>
      simp only [hs] at h
      obtain ⟨a, b, e⟩ := storeL_some _ _ _ hs
      obtain ⟨hacc, nx, hn, e'⟩ := finish_more _ _ _ h
      subst e
      subst e'
      simp only at hn hacc
      exact ⟨rfl, rfl, rfl, rfl, rfl, rfl, hacc, by simp [hn]⟩

/-- an iteration that stops: either nothing happened (the round waits for its message) or the handler is done -/
theorem advanceStep_halt (s s' : State2) (h : advanceStep s = .halt s') :
    (s' = s ∧ canAdvance s = false) ∨ terminal2 s' = true := by
  rw [advanceStep_eq] at h
  split at h
  · next hc => simp only [Step2.halt.injEq] at h; exact Or.inl ⟨h.symm, by simpa using hc⟩
  · cases hs : storeL s (lookup2 s.msgs s.cur) with
    | none => simp only [hs, Step2.halt.injEq] at h; subst h; right; simp [terminal2, abort2]
    | some s1 => simp only [hs] at h; exact Or.inr (finish_halt _ _ _ h)

theorem advanceStep_stuck (s : State2) (h : canAdvance s = false) : advanceStep s = .halt s := by
  rw [advanceStep_eq]; simp [h]

/-! ### `advance` and the store -/

theorem advance_setMsgs (f : Nat) (s : State2) (q : List (Nat × Msg)) (h : ∀ r, lookup2 q r = lookup2 s.msgs r) :
    advance f (setMsgs s q) = setMsgs (advance f s) q := by
  induction f generalizing s with
  | zero => rfl
  | succ f ih =>
    unfold advance
    rw [advanceStep_setMsgs s q (h s.cur)]
    cases hs : advanceStep s with
    | halt s' => rfl
    | more s' =>
      simp only [Step2.setMsgs]
      exact ih s' (by rw [(advanceStep_more s s' hs).2.2.1]; exact h)

theorem advance_msgs (f : Nat) (s : State2) : (advance f s).msgs = s.msgs := by
  have := advance_setMsgs f s s.msgs (fun _ => rfl)
  rw [setMsgs_self] at this
  rw [this]; rfl

/-! ### fuel -/

/-- `f` iterations suffice to run `advance` from `s` to its end -/
def Enough (f : Nat) (s : State2) : Prop := s.sc.rounds.length ≤ f + s.idx ∧ 1 ≤ f

theorem advance_fuel (f f' : Nat) (s : State2) (h : Enough f s) (h' : Enough f' s) : advance f s = advance f' s := by
  induction f generalizing f' s with
  | zero => exact absurd h.2 (by omega)
  | succ f ih =>
    cases f' with
    | zero => exact absurd h'.2 (by omega)
    | succ f' =>
      unfold advance
      cases hs : advanceStep s with
      | halt s' => rfl
      | more s' =>
        simp only
        obtain ⟨e1, e2, -, -, -, -, -, e3⟩ := advanceStep_more s s' hs
        have hlt : s.idx + 1 < s.sc.rounds.length := by
          cases hg : s.sc.rounds[s.idx + 1]? with
          | none => simp [hg] at e3
          | some nx => exact (List.getElem?_eq_some_iff.mp hg).1
        have h1 := h.1
        have h2 := h'.1
        apply ih
        · unfold Enough; rw [e1, e2]; omega
        · unfold Enough; rw [e1, e2]; omega

theorem enough_full (s : State2) : Enough (s.sc.rounds.length + 1) s := by unfold Enough; omega

/-! ## Part 2: states that differ only in how the store is laid out -/

/-- all fields except the store agree -/
def FEq2 (a b : State2) : Prop := setMsgs a [] = setMsgs b []

/-- … and the two stores answer every lookup alike -/
def Sim2 (a b : State2) : Prop := FEq2 a b ∧ ∀ r, lookup2 a.msgs r = lookup2 b.msgs r

theorem FEq2.refl (a : State2) : FEq2 a a := rfl
theorem FEq2.symm {a b : State2} (h : FEq2 a b) : FEq2 b a := Eq.symm h
theorem FEq2.trans {a b c : State2} (h : FEq2 a b) (h' : FEq2 b c) : FEq2 a c := Eq.trans h h'
theorem Sim2.refl (a : State2) : Sim2 a a := ⟨rfl, fun _ => rfl⟩
theorem Sim2.symm {a b : State2} (h : Sim2 a b) : Sim2 b a := ⟨h.1.symm, fun r => (h.2 r).symm⟩
theorem Sim2.trans {a b c : State2} (h : Sim2 a b) (h' : Sim2 b c) : Sim2 a c :=
  ⟨h.1.trans h'.1, fun r => (h.2 r).trans (h'.2 r)⟩

theorem FEq2.eq {a b : State2} (h : FEq2 a b) : b = setMsgs a b.msgs := by
  have := congrArg (setMsgs · b.msgs) h
  simp only [setMsgs_setMsgs] at this
  exact this.symm

theorem setMsgs_feq (a : State2) (q : List (Nat × Msg)) : FEq2 a (setMsgs a q) := rfl

theorem terminal2_feq {a b : State2} (h : FEq2 a b) : terminal2 a = terminal2 b := by
  rw [h.eq]; rfl

theorem accept2_sim {a b : State2} (h : Sim2 a b) (m : Msg) : Sim2 (accept2 a m) (accept2 b m) := by
  obtain ⟨hf, hl⟩ := h
  generalize hq : b.msgs = q at hl
  have hb := hf.eq
  rw [hq] at hb
  subst hb
  unfold accept2
  have e1 : canAccept2 (setMsgs a q) m = canAccept2 a m := rfl
  have e2 : terminal2 (setMsgs a q) = terminal2 a := rfl
  rw [e1, e2]
  split
  · exact ⟨rfl, hl⟩
  · split
    · rw [abort2_setMsgs]
      exact ⟨rfl, fun r => by cases a; exact hl r⟩
    · have e3 : ({ setMsgs a q with msgs := put2 (setMsgs a q).msgs m.rnd m } : State2) =
          setMsgs (setMsgs a (put2 a.msgs m.rnd m)) (put2 q m.rnd m) := rfl
      have e4 : ({ a with msgs := put2 a.msgs m.rnd m } : State2) = setMsgs a (put2 a.msgs m.rnd m) := rfl
      have e5 : (setMsgs a q).sc = a.sc := rfl
      rw [e3, e4, e5]
      have hl' : ∀ r, lookup2 (put2 q m.rnd m) r = lookup2 (setMsgs a (put2 a.msgs m.rnd m)).msgs r := by
        intro r
        show lookup2 (put2 q m.rnd m) r = lookup2 (put2 a.msgs m.rnd m) r
        rw [lookup2_put2, lookup2_put2, hl r]
      rw [advance_setMsgs _ _ _ hl']
      refine ⟨rfl, fun r => ?_⟩
      rw [advance_msgs]
      exact (hl' r).symm

/-- same store content, or finished with the same outcome (a finished handler no longer stores anything) -/
def Out2 (a b : State2) : Prop := Sim2 a b ∨ (terminal2 a = true ∧ FEq2 a b)

theorem Out2.feq {a b : State2} (h : Out2 a b) : FEq2 a b := h.elim (·.1) (·.2)
theorem Out2.refl (a : State2) : Out2 a a := Or.inl (Sim2.refl a)
theorem Out2.symm {a b : State2} (h : Out2 a b) : Out2 b a := by
  rcases h with h | ⟨ht, hf⟩
  · exact Or.inl h.symm
  · exact Or.inr ⟨by rw [← terminal2_feq hf]; exact ht, hf.symm⟩
theorem Out2.trans {a b c : State2} (h : Out2 a b) (h' : Out2 b c) : Out2 a c := by
  rcases h with h | ⟨ht, hf⟩
  · rcases h' with h' | ⟨ht', hf'⟩
    · exact Or.inl (h.trans h')
    · exact Or.inr ⟨by rw [terminal2_feq h.1]; exact ht', h.1.trans hf'⟩
  · exact Or.inr ⟨ht, hf.trans h'.feq⟩

theorem accept2_out {a b : State2} (h : Out2 a b) (m : Msg) : Out2 (accept2 a m) (accept2 b m) := by
  rcases h with h | ⟨ht, hf⟩
  · exact Or.inl (accept2_sim h m)
  · have hb : terminal2 b = true := by rw [← terminal2_feq hf]; exact ht
    rw [accept2_terminal a m ht, accept2_terminal b m hb]
    exact Or.inr ⟨ht, hf⟩

/-! ## Part 3: honest message sets -/

/-- `m` is what the honest peer sends to the party running `sc` -/
structure HonestMsg2 (sc : Script2) (m : Msg) : Prop where
  fromPeer : m.frm = sc.peer
  known : m.frm ∈ sc.ids
  notSelf : m.frm ≠ sc.self
  toMe : m.to = [] ∨ m.to = sc.self
  proto : m.proto = sc.proto
  ssid : m.ssid.getD [] = sc.ssid
  data : m.data.isSome = true
  rndPos : 1 ≤ m.rnd
  rndLe : m.rnd ≤ sc.final
  p2p : m.bcast = false
  kind : ∃ sp ∈ sc.rounds, sp.num = m.rnd ∧ sp.recv = true
  content : m.dec.map (·.f) = some 0

instance (sc : Script2) (m : Msg) : Decidable (HonestMsg2 sc m) :=
  decidable_of_iff (m.frm = sc.peer ∧ m.frm ∈ sc.ids ∧ m.frm ≠ sc.self ∧ (m.to = [] ∨ m.to = sc.self) ∧
      m.proto = sc.proto ∧ m.ssid.getD [] = sc.ssid ∧ m.data.isSome = true ∧ 1 ≤ m.rnd ∧ m.rnd ≤ sc.final ∧
      m.bcast = false ∧ (∃ sp ∈ sc.rounds, sp.num = m.rnd ∧ sp.recv = true) ∧ m.dec.map (·.f) = some 0)
    ⟨fun h => ⟨h.1, h.2.1, h.2.2.1, h.2.2.2.1, h.2.2.2.2.1, h.2.2.2.2.2.1, h.2.2.2.2.2.2.1, h.2.2.2.2.2.2.2.1,
        h.2.2.2.2.2.2.2.2.1, h.2.2.2.2.2.2.2.2.2.1, h.2.2.2.2.2.2.2.2.2.2.1, h.2.2.2.2.2.2.2.2.2.2.2⟩,
     fun h => ⟨h.1, h.2, h.3, h.4, h.5, h.6, h.7, h.8, h.9, h.10, h.11, h.12⟩⟩

/-- `M` is a set of messages the honest peer sends to the party running `sc` in one session: the rounds of the
    script have pairwise different numbers (see the counterexample in MpsProps/C07TwoParty.lean), every message is
    well-formed for the session, point-to-point, for a round of the script that expects input, decodable without
    flags, and there are no two different messages for one round number -/
structure Honest2 (sc : Script2) (M : List Msg) : Prop where
  script : sc.rounds.Pairwise (fun a b => a.num ≠ b.num)
  msgs : ∀ m ∈ M, HonestMsg2 sc m
  uniq : ∀ m ∈ M, ∀ m' ∈ M, m.rnd = m'.rnd → m = m'

instance (sc : Script2) (M : List Msg) : Decidable (Honest2 sc M) :=
  decidable_of_iff (sc.rounds.Pairwise (fun a b => a.num ≠ b.num) ∧ (∀ m ∈ M, HonestMsg2 sc m) ∧
      ∀ m ∈ M, ∀ m' ∈ M, m.rnd = m'.rnd → m = m')
    ⟨fun h => ⟨h.1, h.2.1, h.2.2⟩, fun h => ⟨h.1, h.2, h.3⟩⟩

theorem round_unique (l : List Round2) (hp : l.Pairwise (fun a b => a.num ≠ b.num)) (a b : Round2)
    (ha : a ∈ l) (hb : b ∈ l) (h : a.num = b.num) : a = b := by
  induction l with
  | nil => cases ha
  | cons x l ih =>
    rw [List.pairwise_cons] at hp
    rcases List.mem_cons.mp ha with rfl | ha'
    · rcases List.mem_cons.mp hb with rfl | hb'
      · rfl
      · exact absurd h (hp.1 b hb')
    · rcases List.mem_cons.mp hb with rfl | hb'
      · exact absurd h.symm (hp.1 a ha')
      · exact ih hp.2 ha' hb'

variable {sc : Script2} {M : List Msg}

theorem canAccept2_honest {s : State2} {m : Msg} (hs : s.sc = sc) (hh : HonestMsg2 sc m) : canAccept2 s m = true := by
  unfold canAccept2 isFor
  rw [hs]
  have h1 : (m.frm == sc.self) = false := by simpa using hh.notSelf
  have h3 : (m.rnd > sc.final) = False := by simpa using hh.rndLe
  simp [h1, hh.toMe, hh.proto, hh.ssid, hh.known, hh.data, h3]

/-- the invariant of a running handler that has only been given messages of an honest set -/
structure Inv2 (sc : Script2) (M : List Msg) (s : State2) : Prop where
  hsc : s.sc = sc
  ended : s.ended = false
  err : s.err = none
  result : s.result = none
  accuse : s.accuse = false
  cur : s.cur = (curRound s).num
  idx : sc.rounds ≠ [] → s.idx < sc.rounds.length
  stored : ∀ r x, lookup2 s.msgs r = some x → x ∈ M ∧ x.rnd = r

theorem Inv2.curRound_mem {s : State2} (inv : Inv2 sc M s) (hne : sc.rounds ≠ []) : curRound s ∈ sc.rounds := by
  have h := inv.idx hne
  unfold curRound
  rw [inv.hsc]
  have : sc.rounds.getD s.idx default = sc.rounds[s.idx] := by simp [List.getD, h]
  rw [this]
  exact List.getElem_mem h

/-- the round the handler is in expects the message of `M` that carries its number -/
theorem Inv2.recv {s : State2} (hM : Honest2 sc M) (inv : Inv2 sc M s) (x : Msg) (hx : x ∈ M) (hr : x.rnd = s.cur) :
    (curRound s).recv = true := by
  obtain ⟨sp, hsp, hn, hrecv⟩ := (hM.msgs x hx).kind
  have hc := inv.curRound_mem (List.ne_nil_of_mem hsp)
  have : sp = curRound s := round_unique _ hM.script _ _ hsp hc (by rw [hn, hr, inv.cur])
  rw [← this]; exact hrecv

theorem Inv2.not_terminal {s : State2} (inv : Inv2 sc M s) : terminal2 s = false := by
  simp [terminal2, inv.err, inv.result]

theorem Inv2.put {s : State2} (inv : Inv2 sc M s) (m : Msg) (hm : m ∈ M) :
    Inv2 sc M (setMsgs s (put2 s.msgs m.rnd m)) := by
  refine ⟨inv.hsc, inv.ended, inv.err, inv.result, inv.accuse, inv.cur, inv.idx, fun r x h => ?_⟩
  have h' : lookup2 (put2 s.msgs m.rnd m) r = some x := h
  rw [lookup2_put2] at h'
  split at h'
  · next e => simp only [Option.some.injEq] at h'; subst h'; exact ⟨hm, e.symm⟩
  · exact inv.stored r x h'

/-- the `verifyMessage` / `StoreMessage` part never fails on honest input -/
theorem storeL_honest {s : State2} (hM : Honest2 sc M) (inv : Inv2 sc M s) :
    ∃ a, storeL s (lookup2 s.msgs s.cur) = some { s with acc := a } := by
  unfold storeL
  cases hl : lookup2 s.msgs s.cur with
  | none => exact ⟨s.acc, rfl⟩
  | some x =>
    obtain ⟨hx, hr⟩ := inv.stored _ _ hl
    have hrecv := inv.recv hM x hx hr
    have hc := (hM.msgs x hx).content
    cases hd : x.dec with
    | none => simp [hd] at hc
    | some c =>
      simp only [hd, Option.map_some, Option.some.injEq] at hc
      refine ⟨s.acc + c.v, ?_⟩
      simp [hrecv, hasFlag, inv.accuse]
      cases s; simp_all

theorem Inv2.more {s s' : State2} (inv : Inv2 sc M s) (h : advanceStep s = .more s') : Inv2 sc M s' := by
  obtain ⟨e1, e2, e3, e4, e5, e6, e7, e8⟩ := advanceStep_more s s' h
  cases hg : s.sc.rounds[s.idx + 1]? with
  | none => simp [hg] at e8
  | some nx =>
    simp only [hg, Option.map_some, Option.some.injEq] at e8
    have hlt := (List.getElem?_eq_some_iff.mp hg).1
    refine ⟨e1.trans inv.hsc, e6.trans inv.ended, e4.trans inv.err, e5.trans inv.result, e7, ?_, ?_, ?_⟩
    · unfold curRound
      rw [e1, e2]
      simp [List.getD, hg, e8]
    · intro _; rw [e2, ← inv.hsc]; exact hlt
    · rw [e3]; exact inv.stored

theorem Enough.more {f : Nat} {s s' : State2} (h : Enough (f + 1) s) (hs : advanceStep s = .more s') : Enough f s' := by
  obtain ⟨e1, e2, -, -, -, -, -, e3⟩ := advanceStep_more s s' hs
  have hlt : s.idx + 1 < s.sc.rounds.length := by
    cases hg : s.sc.rounds[s.idx + 1]? with
    | none => simp [hg] at e3
    | some nx => exact (List.getElem?_eq_some_iff.mp hg).1
  have h1 := h.1
  unfold Enough; rw [e1, e2]; omega

/-- an honest delivery to a running handler: the message is stored and `advance` runs -/
theorem accept2_live {s : State2} (hM : Honest2 sc M) (inv : Inv2 sc M s) (m : Msg) (hm : m ∈ M) :
    accept2 s m = advance (s.sc.rounds.length + 1) (setMsgs s (put2 s.msgs m.rnd m)) := by
  have hh := hM.msgs m hm
  have h0 : (m.rnd == 0) = false := by
    have := hh.rndPos
    simp; omega
  unfold accept2
  simp [canAccept2_honest inv.hsc hh, inv.not_terminal, h0]
  rfl

/-- the only error a handler fed with honest messages can end with is its own `Finalize` failure -/
theorem advanceStep_clean {s s' : State2} (hM : Honest2 sc M) (inv : Inv2 sc M s) (h : advanceStep s = .halt s') :
    s'.err = none ∨ s'.err = some .finalizeErr := by
  rw [advanceStep_eq] at h
  split at h
  · simp only [Step2.halt.injEq] at h; subst h; exact Or.inl inv.err
  · obtain ⟨a, ha⟩ := storeL_honest hM inv
    simp only [ha] at h
    unfold finish at h
    split at h
    · simp only [Step2.halt.injEq] at h; subst h; right; rfl
    · split at h
      · next hacc => simp [inv.accuse] at hacc
      · split at h
        · simp only [Step2.halt.injEq] at h; subst h; left; exact inv.err
        · simp at h

theorem advance_clean (hM : Honest2 sc M) (f : Nat) (s : State2) (inv : Inv2 sc M s) :
    (advance f s).err = none ∨ (advance f s).err = some .finalizeErr := by
  induction f generalizing s with
  | zero => exact Or.inl inv.err
  | succ f ih =>
    unfold advance
    cases hs : advanceStep s with
    | halt s' => exact advanceStep_clean hM inv hs
    | more s' => exact ih s' (inv.more hs)

/-! ## Part 4: a message that sits in the store while `advance` cascades gives the same state as delivering it
    afterwards (early, in time, or late) -/

theorem insert2 (hM : Honest2 sc M) (m : Msg) (hm : m ∈ M) (f : Nat) (s : State2) (inv : Inv2 sc M s)
    (hf : Enough f s) :
    Out2 (accept2 (advance f s) m) (advance f (setMsgs s (put2 s.msgs m.rnd m))) := by
  induction f generalizing s with
  | zero => exact absurd hf.2 (by omega)
  | succ f ih =>
    by_cases hc : canAdvance s = false
    · -- the handler waits: delivering `m` now is the cascade with `m` in the store
      have e1 : advance (f + 1) s = s := by
        unfold advance; rw [advanceStep_stuck s hc]
      rw [e1, accept2_live hM inv m hm]
      rw [advance_fuel (s.sc.rounds.length + 1) (f + 1) (setMsgs s (put2 s.msgs m.rnd m)) (enough_full _) hf]
      exact Out2.refl _
    · have hc' : canAdvance s = true := by simpa using hc
      -- the step the handler takes does not see the difference
      have hl : lookup2 (put2 s.msgs m.rnd m) s.cur = lookup2 s.msgs s.cur := by
        rw [lookup2_put2]
        split
        · next e =>
          have hrecv := inv.recv hM m hm e.symm
          unfold canAdvance at hc'
          simp only [inv.ended, hrecv] at hc'
          cases hx : lookup2 s.msgs s.cur with
          | none => simp [hx] at hc'
          | some x =>
            obtain ⟨hxM, hxr⟩ := inv.stored _ _ hx
            rw [hM.uniq x hxM m hm (hxr.trans e)]
        · rfl
      have hstep := advanceStep_setMsgs s _ hl
      unfold advance
      rw [hstep]
      cases hs : advanceStep s with
      | halt s' =>
        simp only [Step2.setMsgs]
        rcases advanceStep_halt s s' hs with ⟨-, h⟩ | h
        · exact absurd h hc
        · rw [accept2_terminal s' m h]
          exact Or.inr ⟨h, setMsgs_feq _ _⟩
      | more s' =>
        simp only [Step2.setMsgs]
        have := ih s' (inv.more hs) (hf.more hs)
        rw [(advanceStep_more s s' hs).2.2.1] at this
        exact this

/-! ## Part 5: every delivery sequence reaches the canonical state of its set of messages -/

/-- the handler before the leader's first `advance` -/
def state0 (sc : Script2) : State2 :=
  { sc := sc, idx := 0, cur := (sc.rounds.getD 0 default).num, ended := false, msgs := [], err := none, result := none,
    out := [], closes := 0, acc := 0, accuse := false }

theorem init2_eq (sc : Script2) :
    init2 sc = if sc.leader then advance (sc.rounds.length + 1) (state0 sc) else state0 sc := rfl

/-- the store after putting the messages of `l` into an empty one -/
def preQ (l : List Msg) : List (Nat × Msg) := l.foldl (fun q m => put2 q m.rnd m) []

/-- all of `l` in the store of the fresh handler -/
def preload2 (sc : Script2) (l : List Msg) : State2 := setMsgs (state0 sc) (preQ l)

/-- canonical form: all of `l` stored first, then one run of `advance` -/
def canon2 (sc : Script2) (l : List Msg) : State2 := advance (sc.rounds.length + 1) (preload2 sc l)

theorem preQ_snoc (l : List Msg) (m : Msg) : preQ (l ++ [m]) = put2 (preQ l) m.rnd m := by
  simp [preQ, List.foldl_append]

theorem state0_inv (sc : Script2) (M : List Msg) : Inv2 sc M (state0 sc) :=
  ⟨rfl, rfl, rfl, rfl, rfl, rfl, fun h => List.length_pos_iff.mpr h, fun r x h => by simp [state0, lookup2] at h⟩

theorem foldl_put_stored (l : List Msg) (q : List (Nat × Msg)) (r : Nat) (x : Msg)
    (h : lookup2 (l.foldl (fun q m => put2 q m.rnd m) q) r = some x) : (x ∈ l ∧ x.rnd = r) ∨ lookup2 q r = some x := by
  induction l generalizing q with
  | nil => exact Or.inr h
  | cons m l ih =>
    rcases ih _ h with ⟨h1, h2⟩ | h'
    · exact Or.inl ⟨List.mem_cons_of_mem _ h1, h2⟩
    · rw [lookup2_put2] at h'
      split at h'
      · next e => simp only [Option.some.injEq] at h'; subst h'; exact Or.inl ⟨List.mem_cons_self, e.symm⟩
      · exact Or.inr h'

theorem preQ_stored (l : List Msg) (r : Nat) (x : Msg) (h : lookup2 (preQ l) r = some x) : x ∈ l ∧ x.rnd = r := by
  rcases foldl_put_stored l [] r x h with h | h
  · exact h
  · simp [lookup2] at h

theorem foldl_put_mono (l : List Msg) (q : List (Nat × Msg)) (r : Nat) (h : (lookup2 q r).isSome = true) :
    (lookup2 (l.foldl (fun q m => put2 q m.rnd m) q) r).isSome = true := by
  induction l generalizing q with
  | nil => exact h
  | cons m l ih =>
    apply ih
    rw [lookup2_put2]
    split
    · rfl
    · exact h

theorem foldl_put_has (l : List Msg) (q : List (Nat × Msg)) (x : Msg) (hx : x ∈ l) :
    (lookup2 (l.foldl (fun q m => put2 q m.rnd m) q) x.rnd).isSome = true := by
  induction l generalizing q with
  | nil => cases hx
  | cons m l ih =>
    rcases List.mem_cons.mp hx with rfl | h
    · exact foldl_put_mono l (put2 q x.rnd x) x.rnd (by rw [lookup2_put2]; simp)
    · exact ih _ h

theorem preload2_inv (l : List Msg) (hl : ∀ x ∈ l, x ∈ M) : Inv2 sc M (preload2 sc l) := by
  have h0 := state0_inv sc M
  exact ⟨h0.hsc, h0.ended, h0.err, h0.result, h0.accuse, h0.cur, h0.idx,
    fun r x h => let ⟨h1, h2⟩ := preQ_stored l r x h; ⟨hl x h1, h2⟩⟩

/-- the preloaded store depends only on the SET of messages -/
theorem preQ_congr (hM : Honest2 sc M) (l1 l2 : List Msg) (h1 : ∀ m ∈ l1, m ∈ M) (h2 : ∀ m ∈ l2, m ∈ M)
    (hsame : ∀ m, m ∈ l1 ↔ m ∈ l2) (r : Nat) : lookup2 (preQ l1) r = lookup2 (preQ l2) r := by
  have key : ∀ (l l' : List Msg), (∀ m ∈ l, m ∈ M) → (∀ m ∈ l', m ∈ M) → (∀ m, m ∈ l → m ∈ l') → ∀ x,
      lookup2 (preQ l) r = some x → lookup2 (preQ l') r = some x := by
    intro l l' hl hl' hsub x hx
    obtain ⟨hxl, hxr⟩ := preQ_stored l r x hx
    have := foldl_put_has l' [] x (hsub x hxl)
    rw [hxr] at this
    cases hy : lookup2 (preQ l') r with
    | none => unfold preQ at hy; simp [hy] at this
    | some y =>
      obtain ⟨hyl, hyr⟩ := preQ_stored l' r y hy
      rw [hM.uniq y (hl' y hyl) x (hl x hxl) (hyr.trans hxr.symm)]
  cases hx : lookup2 (preQ l1) r with
  | some x => exact (key l1 l2 h1 h2 (fun m => (hsame m).mp) x hx).symm
  | none =>
    cases hy : lookup2 (preQ l2) r with
    | none => rfl
    | some y =>
      have := key l2 l1 h2 h1 (fun m => (hsame m).mpr) y hy
      rw [hx] at this; cases this

theorem canon2_sim (hM : Honest2 sc M) (l1 l2 : List Msg) (h1 : ∀ m ∈ l1, m ∈ M) (h2 : ∀ m ∈ l2, m ∈ M)
    (hsame : ∀ m, m ∈ l1 ↔ m ∈ l2) : Sim2 (canon2 sc l1) (canon2 sc l2) := by
  have hl : ∀ r, lookup2 (preQ l2) r = lookup2 (preload2 sc l1).msgs r :=
    fun r => (preQ_congr hM l1 l2 h1 h2 hsame r).symm
  have e : preload2 sc l2 = setMsgs (preload2 sc l1) (preQ l2) := rfl
  unfold canon2
  rw [e, advance_setMsgs _ _ _ hl]
  refine ⟨rfl, fun r => ?_⟩
  rw [advance_msgs]
  exact (hl r).symm

theorem run2_snoc (sc : Script2) (l : List Msg) (m : Msg) :
    run2 sc ((l ++ [m]).map Call2.accept) = accept2 (run2 sc (l.map Call2.accept)) m := by
  simp [run2, List.foldl_append, apply2]

/-- every non-empty delivery sequence of honest messages reaches the canonical state of its set -/
theorem run2_canon_rev (hM : Honest2 sc M) (l : List Msg) (hl : ∀ m ∈ l, m ∈ M) (hne : l ≠ []) :
    Out2 (run2 sc (l.reverse.map Call2.accept)) (canon2 sc l.reverse) := by
  induction l with
  | nil => exact absurd rfl hne
  | cons m l ih =>
    have hm : m ∈ M := hl m List.mem_cons_self
    have hl' : ∀ x ∈ l, x ∈ M := fun x hx => hl x (List.mem_cons_of_mem _ hx)
    rw [List.reverse_cons, run2_snoc]
    have ecanon : canon2 sc (l.reverse ++ [m]) =
        advance (sc.rounds.length + 1) (setMsgs (preload2 sc l.reverse) (put2 (preload2 sc l.reverse).msgs m.rnd m)) := by
      unfold canon2 preload2
      rw [preQ_snoc]; rfl
    rw [ecanon]
    have hinv : Inv2 sc M (preload2 sc l.reverse) :=
      preload2_inv l.reverse (fun x hx => hl' x (List.mem_reverse.mp hx))
    have hins := insert2 hM m hm (sc.rounds.length + 1) _ hinv (enough_full (preload2 sc l.reverse))
    by_cases hnil : l = []
    · subst hnil
      simp only [List.reverse_nil, List.map_nil] at *
      have e0 : run2 sc [] = init2 sc := rfl
      rw [e0, init2_eq]
      split
      · exact hins
      · have := accept2_live hM (state0_inv sc M) m hm
        rw [this]
        exact Out2.refl _
    · exact (accept2_out (ih hl' hnil) m).trans hins

theorem run2_canon (hM : Honest2 sc M) (l : List Msg) (hl : ∀ m ∈ l, m ∈ M) (hne : l ≠ []) :
    Out2 (run2 sc (l.map Call2.accept)) (canon2 sc l) := by
  have := run2_canon_rev hM l.reverse (fun m hm => hl m (List.mem_reverse.mp hm)) (by simpa using hne)
  rwa [List.reverse_reverse] at this

theorem run2_out (hM : Honest2 sc M) (l1 l2 : List Msg) (h1 : ∀ m ∈ l1, m ∈ M) (h2 : ∀ m ∈ l2, m ∈ M)
    (hsame : ∀ m, m ∈ l1 ↔ m ∈ l2) :
    Out2 (run2 sc (l1.map Call2.accept)) (run2 sc (l2.map Call2.accept)) := by
  by_cases hne : l1 = []
  · subst hne
    have : l2 = [] := List.eq_nil_iff_forall_not_mem.mpr fun m hm => by simpa using (hsame m).mpr hm
    subst this
    exact Out2.refl _
  · have hne2 : l2 ≠ [] := by
      intro h; subst h
      exact hne (List.eq_nil_iff_forall_not_mem.mpr fun m hm => by simpa using (hsame m).mp hm)
    exact ((run2_canon hM l1 h1 hne).trans (Or.inl (canon2_sim hM l1 l2 h1 h2 hsame))).trans
      (run2_canon hM l2 h2 hne2).symm

theorem FEq2.fields {a b : State2} (h : FEq2 a b) :
    a.sc = b.sc ∧ a.idx = b.idx ∧ a.cur = b.cur ∧ a.ended = b.ended ∧ a.err = b.err ∧ a.result = b.result ∧
    a.out = b.out ∧ a.closes = b.closes ∧ a.acc = b.acc ∧ a.accuse = b.accuse := by
  rw [h.eq]
  exact ⟨rfl, rfl, rfl, rfl, rfl, rfl, rfl, rfl, rfl, rfl⟩

/-- while the session is still running the two stores answer every lookup alike, too -/
theorem run2_sim (hM : Honest2 sc M) (l1 l2 : List Msg) (h1 : ∀ m ∈ l1, m ∈ M) (h2 : ∀ m ∈ l2, m ∈ M)
    (hsame : ∀ m, m ∈ l1 ↔ m ∈ l2) (hrun : terminal2 (run2 sc (l1.map Call2.accept)) = false) :
    Sim2 (run2 sc (l1.map Call2.accept)) (run2 sc (l2.map Call2.accept)) := by
  rcases run2_out hM l1 l2 h1 h2 hsame with h | ⟨ht, -⟩
  · exact h
  · rw [hrun] at ht; cases ht

/-- honest deliveries never make the handler blame anybody -/
theorem run2_clean (hM : Honest2 sc M) (l : List Msg) (hl : ∀ m ∈ l, m ∈ M) :
    (run2 sc (l.map Call2.accept)).err = none ∨ (run2 sc (l.map Call2.accept)).err = some .finalizeErr := by
  by_cases hne : l = []
  · subst hne
    have e0 : run2 sc ([].map Call2.accept) = init2 sc := rfl
    rw [e0, init2_eq]
    split
    · exact advance_clean hM _ _ (state0_inv sc M)
    · exact Or.inl rfl
  · have := ((run2_canon hM l hl hne).feq.fields).2.2.2.2.1
    rw [this]
    exact advance_clean hM _ _ (preload2_inv l hl)

end Mps.TwoParty
