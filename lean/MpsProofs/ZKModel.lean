import Mathlib.Tactic.Ring
import MpsProps.C19
import Mps.ZK.Paillier
import Mps.ZK.Blum
/-
  Lemmas about the executable ZK model (M3): what the range predicates compute, injectivity of the
  values hashed by the `challenge()` functions, and the step from "equal hash input" to "equal
  (context, statement, commitment)". Core-only.
-/
namespace Mps.ZK
open Mps

/-! ## range predicates: `TrueLen(|z|) ≤ bound`, i.e. `|z| < 2^bound` (STRICT: `±2^bound` is refused) -/

theorem bitLen_le_iff (n k : Nat) : bitLen n ≤ k ↔ n < 2 ^ k := by
  unfold bitLen
  split
  · next h => subst h; simp [Nat.two_pow_pos]
  · next h => rw [Nat.add_one_le_iff, Nat.log2_lt h]

theorem inBits_iff (bound : Nat) (z : Int) : inBits bound (some z) = true ↔ z.natAbs < 2 ^ bound := by
  simp [inBits, bitLen_le_iff]

theorem inBits_nil (bound : Nat) : inBits bound none = false := rfl

theorem LPlusEpsilon_eq : LPlusEpsilon = 768 := by decide
theorem LPrimePlusEpsilon_eq : LPrimePlusEpsilon = 1792 := by decide
theorem LEpsPlus1RootN_eq : 1 + LPlusEpsilon + BitsIntModN / 2 = 1793 := by decide

theorem inBits_true_iff (bound : Nat) (o : Option Int) :
    inBits bound o = true ↔ ∃ z, o = some z ∧ z.natAbs < 2 ^ bound := by
  cases o with
  | none => simp [inBits]
  | some z => simp [inBits_iff]

/-! ## verifiers with a range check accept only in-range responses (nil included) -/

/-- peel the guards of a transcribed `Verify` once its range check is known to fail -/
macro "reject_by_range" hr:ident hacc:ident : tactic =>
  `(tactic| (simp only [$hr:ident, bind, Except.bind, pure, Except.pure, Bool.not_false, ite_true,
               Bool.and_false, Bool.false_and] at $hacc:ident
             repeat (split at $hacc:ident; · simp at $hacc:ident)
             try (simp at $hacc:ident)))

theorem enc_accept_range (pre : List Item) (pub prf : Rec) (hacc : Enc.verify pre pub prf = .ok true) :
    isInIntervalLEps (prf.intV "Z1") = true := by
  cases hr : isInIntervalLEps (prf.intV "Z1") with
  | true => rfl
  | false => unfold Enc.verify at hacc; reject_by_range hr hacc

theorem logstar_accept_range (pre : List Item) (pub prf : Rec) (hacc : Logstar.verify pre pub prf = .ok true) :
    isInIntervalLEps (prf.intV "Z1") = true := by
  cases hr : isInIntervalLEps (prf.intV "Z1") with
  | true => rfl
  | false => unfold Logstar.verify at hacc; reject_by_range hr hacc

theorem affg_accept_range (pre : List Item) (pub prf : Rec) (hacc : Affg.verify pre pub prf = .ok true) :
    isInIntervalLEps (prf.intV "Z1") = true ∧ isInIntervalLPrimeEps (prf.intV "Z2") = true := by
  constructor
  · cases hr : isInIntervalLEps (prf.intV "Z1") with
    | true => rfl
    | false => unfold Affg.verify at hacc; reject_by_range hr hacc
  · cases hr : isInIntervalLPrimeEps (prf.intV "Z2") with
    | true => rfl
    | false => unfold Affg.verify at hacc; reject_by_range hr hacc

theorem affp_accept_range (pre : List Item) (pub prf : Rec) (hacc : Affp.verify pre pub prf = .ok true) :
    isInIntervalLEps (prf.intV "Z1") = true ∧ isInIntervalLPrimeEps (prf.intV "Z2") = true := by
  constructor
  · cases hr : isInIntervalLEps (prf.intV "Z1") with
    | true => rfl
    | false => unfold Affp.verify at hacc; reject_by_range hr hacc
  · cases hr : isInIntervalLPrimeEps (prf.intV "Z2") with
    | true => rfl
    | false => unfold Affp.verify at hacc; reject_by_range hr hacc

theorem encelg_accept_range (pre : List Item) (pub prf : Rec) (hacc : Encelg.verify pre pub prf = .ok true) :
    isInIntervalLEps (prf.intV "Z1") = true := by
  cases hr : isInIntervalLEps (prf.intV "Z1") with
  | true => rfl
  | false => unfold Encelg.verify at hacc; reject_by_range hr hacc

theorem mulstar_accept_range (pre : List Item) (pub prf : Rec) (hacc : Mulstar.verify pre pub prf = .ok true) :
    isInIntervalLEps (prf.intV "Z1") = true := by
  cases hr : isInIntervalLEps (prf.intV "Z1") with
  | true => rfl
  | false => unfold Mulstar.verify at hacc; reject_by_range hr hacc

theorem fac_accept_range (pre : List Item) (pub prf : Rec) (hacc : Fac.verify pre pub prf = .ok true) :
    isInIntervalLEpsPlus1RootN (prf.intV "Z1") = true ∧ isInIntervalLEpsPlus1RootN (prf.intV "Z2") = true := by
  constructor
  · cases hr : isInIntervalLEpsPlus1RootN (prf.intV "Z1") with
    | true => rfl
    | false => unfold Fac.verify at hacc; reject_by_range hr hacc
  · cases hr : isInIntervalLEpsPlus1RootN (prf.intV "Z2") with
    | true => rfl
    | false => unfold Fac.verify at hacc; reject_by_range hr hacc

theorem intMod_lt (z : Int) (n : Nat) (hn : 0 < n) : intMod z n < n := by
  unfold intMod
  have h1 : z % (n : Int) < n := Int.emod_lt_of_pos _ (by exact_mod_cast hn)
  have h0 : 0 ≤ z % (n : Int) := Int.emod_nonneg _ (by omega)
  omega

theorem intMod_cast (z : Int) (n : Nat) (hn : 0 < n) : ((intMod z n : Nat) : Int) = z % (n : Int) := by
  unfold intMod
  have h0 : 0 ≤ z % (n : Int) := Int.emod_nonneg _ (by omega)
  omega

/-- the representative `SetModSymmetric` picks lies in the plaintext range … -/
theorem symMod_natAbs_le (z : Int) (n : Nat) (hn : 0 < n) : (symMod z n).natAbs ≤ n / 2 := by
  unfold symMod
  have hr := intMod_lt z n hn
  generalize intMod z n = r at hr ⊢
  by_cases h0 : r = 0
  · subst h0; simp
  · have hneg : (n - r) % n = n - r := Nat.mod_eq_of_lt (by omega)
    simp only [hneg]
    split <;> omega

/-- … and is congruent to the response mod N -/
theorem symMod_congr (z : Int) (n : Nat) (hn : 0 < n) : (symMod z n - z) % (n : Int) = 0 := by
  unfold symMod
  have hr := intMod_lt z n hn
  have hc := intMod_cast z n hn
  generalize intMod z n = r at hr hc ⊢
  have hz : z = (n : Int) * (z / n) + r := by rw [hc]; exact (Int.mul_ediv_add_emod z n).symm
  by_cases h0 : r = 0
  · subst h0
    simp only [Nat.sub_zero, Nat.mod_self, Nat.lt_irrefl, ↓reduceIte]
    rw [hz]; simp
  · have hneg : (n - r) % n = n - r := Nat.mod_eq_of_lt (by omega)
    simp only [hneg]
    split
    · have e : (-((n - r : Nat) : Int) - z) = (n : Int) * (-1 - z / n) := by
        have : ((n - r : Nat) : Int) = (n : Int) - r := by omega
        rw [this]; conv_lhs => rw [hz]
        ring
      rw [e]; simp
    · have e : ((r : Int) - z) = (n : Int) * (- (z / n)) := by
        conv_lhs => rw [hz]
        ring
      rw [e]; simp

/-- … so zkdec / zkmul, which encrypt the reduced response, cannot make `EncWithNonce` panic -/
theorem encWithNonce_symMod_ok (n : Nat) (z : Int) (nonce : Nat) (hn : 0 < n) :
    ∃ c, encWithNonce n (symMod z n) nonce = .ok c := by
  have h := symMod_natAbs_le z n hn
  have : ¬ (symMod z n).natAbs > n / 2 := by omega
  refine ⟨expI (n + 1) (symMod z n) (n * n) * powMod nonce n (n * n) % (n * n), ?_⟩
  simp [encWithNonce, this]

/-- `EncWithNonce` panics on a plaintext beyond `⌊N/2⌋`: zkdec and zkmul reached it with an unchecked response
    before they reduced it (`symMod`) -/
theorem encWithNonce_panics (n : Nat) (m : Int) (nonce : Nat) (h : n / 2 < m.natAbs) :
    ∃ w, encWithNonce n m nonce = .error w := by
  unfold encWithNonce
  simp [h]

/-! ## the values written by `challenge()` are determined by their items -/

/-- validity domain of a hashed value -/
def HV.WF : HV → Prop
  | .tv v => v.WF ∧ v.fixed = true
  | .nat none => True
  | .nat (some b) => b.length < 2 ^ 64
  | .modulus n => (natBytes n).length < 2 ^ 64

theorem natDomain_lit : natDomain = [42, 115, 97, 102, 101, 114, 105, 116, 104, 46, 78, 97, 116] := by decide
theorem modulusDomain_lit :
    modulusDomain = [42, 115, 97, 102, 101, 114, 105, 116, 104, 46, 77, 111, 100, 117, 108, 117, 115] := by decide

/-- no fixed-domain typed value of `Mps.Typed` uses the domain tag of `*saferith.Nat` / `*saferith.Modulus` -/
theorem tv_dom_ne (v : TVal) (hf : v.fixed = true) (i : Item) (e : encode v = some i) :
    i.dom ≠ natDomain ∧ i.dom ≠ modulusDomain := by
  rw [natDomain_lit, modulusDomain_lit]
  cases v <;> simp only [TVal.fixed, Bool.false_eq_true] at hf <;>
    simp only [encode, reduceCtorEq, Option.some.injEq] at e <;> subst e <;>
    simp only [C19.s1, C19.s2, C19.s3, C19.s4, C19.s5, C19.s6, C19.s7, C19.s8, C19.s9, C19.s10, C19.s11,
      C19.s12, C19.s13, C19.s14, C19.s15, C19.s16, C19.s17] <;>
    constructor <;> decide

/-- two valid hashed values written as the same (domain, data) item are the same value -/
theorem hv_encode_injective (a b : HV) (ha : a.WF) (hb : b.WF) (i : Item)
    (ea : a.encode = some i) (eb : b.encode = some i) : a = b := by
  cases a with
  | tv v =>
    cases b with
    | tv w =>
      simp only [HV.encode] at ea eb
      rw [C19.encode_injective v w ha.1 hb.1 ha.2 hb.2 i ea eb]
    | nat o =>
      cases o with
      | none => simp [HV.encode] at eb
      | some c =>
        simp only [HV.encode, Option.some.injEq] at ea eb
        have := (tv_dom_ne v ha.2 i ea).1
        rw [← eb] at this; exact absurd rfl this
    | modulus n =>
      simp only [HV.encode, Option.some.injEq] at ea eb
      have := (tv_dom_ne v ha.2 i ea).2
      rw [← eb] at this; exact absurd rfl this
  | nat o =>
    cases o with
    | none => simp [HV.encode] at ea
    | some c =>
      cases b with
      | tv w =>
        simp only [HV.encode, Option.some.injEq] at ea eb
        have := (tv_dom_ne w hb.2 i eb).1
        rw [← ea] at this; exact absurd rfl this
      | nat o' =>
        cases o' with
        | none => simp [HV.encode] at eb
        | some c' =>
          simp only [HV.encode, Option.some.injEq] at ea eb
          rw [← eb] at ea
          injection ea with _ h2
          rw [h2]
      | modulus n =>
        simp only [HV.encode, Option.some.injEq] at ea eb
        rw [← eb] at ea
        injection ea with h1 _
        rw [natDomain_lit, modulusDomain_lit] at h1
        exact absurd h1 (by decide)
  | modulus n =>
    cases b with
    | tv w =>
      simp only [HV.encode, Option.some.injEq] at ea eb
      have := (tv_dom_ne w hb.2 i eb).2
      rw [← ea] at this; exact absurd rfl this
    | nat o' =>
      cases o' with
      | none => simp [HV.encode] at eb
      | some c' =>
        simp only [HV.encode, Option.some.injEq] at ea eb
        rw [← eb] at ea
        injection ea with h1 _
        rw [natDomain_lit, modulusDomain_lit] at h1
        exact absurd h1 (by decide)
    | modulus m =>
      simp only [HV.encode, Option.some.injEq] at ea eb
      rw [← eb] at ea
      injection ea with _ h2
      rw [natBytes_inj _ _ h2]

theorem hv_encode_wf (a : HV) (ha : a.WF) (i : Item) (ea : a.encode = some i) : i.WF := by
  cases a with
  | tv v => exact C19.encode_wf v ha.1 i ea
  | nat o =>
    cases o with
    | none => simp [HV.encode] at ea
    | some c =>
      simp only [HV.encode, Option.some.injEq] at ea; subst ea
      exact ⟨by show natDomain.length < 2 ^ 64; rw [natDomain_lit]; decide, ha⟩
  | modulus n =>
    simp only [HV.encode, Option.some.injEq] at ea; subst ea
    exact ⟨by show modulusDomain.length < 2 ^ 64; rw [modulusDomain_lit]; decide, ha⟩

/-- all values accepted: the item list `writeAll` produces -/
def encodeHVs : List HV → Option (List Item)
  | [] => some []
  | v :: vs =>
    match v.encode, encodeHVs vs with
    | some i, some is => some (i :: is)
    | _, _ => none

theorem encodeHVs_length (vs : List HV) (is : List Item) (e : encodeHVs vs = some is) : is.length = vs.length := by
  induction vs generalizing is with
  | nil => simp [encodeHVs] at e; subst e; rfl
  | cons v vs ih =>
    simp only [encodeHVs] at e
    split at e
    · next i is' _ h2 => simp only [Option.some.injEq] at e; subst e; simp [ih is' h2]
    · simp at e

theorem encodeHVs_wf (vs : List HV) (hv : ∀ v ∈ vs, v.WF) (is : List Item) (e : encodeHVs vs = some is) :
    ∀ i ∈ is, i.WF := by
  induction vs generalizing is with
  | nil => simp [encodeHVs] at e; subst e; simp
  | cons v vs ih =>
    simp only [encodeHVs] at e
    split at e
    · next i is' h1 h2 =>
      simp only [Option.some.injEq] at e; subst e
      intro j hj
      rcases List.mem_cons.mp hj with rfl | hj
      · exact hv_encode_wf v (hv v (by simp)) _ h1
      · exact ih (fun x hx => hv x (by simp [hx])) is' h2 j hj
    · simp at e

theorem encodeHVs_injective (vs ws : List HV) (hv : ∀ v ∈ vs, v.WF) (hw : ∀ v ∈ ws, v.WF) (is : List Item)
    (e1 : encodeHVs vs = some is) (e2 : encodeHVs ws = some is) : vs = ws := by
  induction vs generalizing ws is with
  | nil =>
    cases ws with
    | nil => rfl
    | cons w ws =>
      simp only [encodeHVs, Option.some.injEq] at e1 e2; subst e1
      split at e2 <;> simp at e2
  | cons v vs ih =>
    cases ws with
    | nil =>
      simp only [encodeHVs, Option.some.injEq] at e1 e2; subst e2
      split at e1 <;> simp at e1
    | cons w ws =>
      simp only [encodeHVs] at e1 e2
      split at e1
      · next i is1 h1 h2 =>
        split at e2
        · next j is2 h3 h4 =>
          simp only [Option.some.injEq] at e1 e2
          subst e1
          injection e2 with hj his
          subst hj his
          have hvw := hv_encode_injective v w (hv v (by simp)) (hw w (by simp)) _ h1 h3
          rw [hvw, ih ws (fun x hx => hv x (by simp [hx])) (fun x hx => hw x (by simp [hx])) _ h2 h4]
        · simp at e2
      · simp at e1

/-- `writeAll` succeeds exactly with the items of `encodeHVs` -/
theorem writeAll_eq (vs : List HV) (is : List Item) (h : writeAll vs = .ok (some is)) : encodeHVs vs = some is := by
  induction vs generalizing is with
  | nil => simp [writeAll] at h; subst h; rfl
  | cons v vs ih =>
    simp only [writeAll] at h
    cases hv : v.write with
    | panic w => rw [hv] at h; simp at h
    | err => rw [hv] at h; simp at h
    | item i =>
      rw [hv] at h
      simp only at h
      cases hr : writeAll vs with
      | error w => rw [hr] at h; simp at h
      | ok o =>
        rw [hr] at h
        cases o with
        | none => simp at h
        | some is' =>
          simp only [Except.ok.injEq, Option.some.injEq] at h
          subst h
          have hi : v.encode = some i := by
            cases v with
            | tv t =>
              simp only [HV.write] at hv
              simp only [HV.encode]
              split at hv <;> simp_all
            | nat o =>
              cases o with
              | none => simp [HV.write] at hv
              | some b => simp only [HV.write, WriteRes.item.injEq] at hv; simp [HV.encode, hv]
            | modulus n => simp only [HV.write, WriteRes.item.injEq] at hv; simp [HV.encode, hv]
          simp [encodeHVs, hi, ih is' hr]

/-! ## from equal hash input to equal (context, statement and commitment values) -/

/-- The byte stream hashed by a `challenge()` that writes `k` values on top of a context determines the
    context items and the `k` values — or the two inputs are an explicit collision of `H`. -/
theorem challenge_input_injective (H : Bytes → Bytes) (pre pre' : List Item) (vs vs' : List HV)
    (is is' : List Item) (hpre : ∀ i ∈ pre, i.WF) (hpre' : ∀ i ∈ pre', i.WF)
    (hv : ∀ v ∈ vs, v.WF) (hv' : ∀ v ∈ vs', v.WF) (hlen : vs.length = vs'.length)
    (e : encodeHVs vs = some is) (e' : encodeHVs vs' = some is')
    (h : H (transcript (pre ++ is)) = H (transcript (pre' ++ is'))) :
    (pre = pre' ∧ vs = vs') ∨
    (transcript (pre ++ is) ≠ transcript (pre' ++ is') ∧ H (transcript (pre ++ is)) = H (transcript (pre' ++ is'))) := by
  have wf1 : ∀ i ∈ pre ++ is, i.WF := by
    intro i hi
    rcases List.mem_append.mp hi with hi | hi
    · exact hpre i hi
    · exact encodeHVs_wf vs hv is e i hi
  have wf2 : ∀ i ∈ pre' ++ is', i.WF := by
    intro i hi
    rcases List.mem_append.mp hi with hi | hi
    · exact hpre' i hi
    · exact encodeHVs_wf vs' hv' is' e' i hi
  rcases C19.digest_eq_imp H _ _ wf1 wf2 h with heq | hcol
  · left
    have hl : is.length = is'.length := by
      rw [encodeHVs_length vs is e, encodeHVs_length vs' is' e', hlen]
    have hsplit := List.append_inj' heq hl
    refine ⟨hsplit.1, ?_⟩
    have e2 : encodeHVs vs' = some is := by rw [hsplit.2]; exact e'
    exact encodeHVs_injective vs vs' hv hv' is e e2
  · right; exact hcol

/-! ## selector lists: the hashed value list determines every selected field -/

/-- for selector lists without bare parameters the selected values are a plain `map` -/
def pick (pub prf : Rec) (s : Sel) : Val := if s.1 == "public" then pub.get s.2 else prf.get s.2

def structOnly (sel : List Sel) : Bool := sel.all fun s => s.1 == "public" || s.1 == "commitment"

theorem selectVals_eq_map (sel : List Sel) (pub prf : Rec) (param : String → List Val)
    (h : structOnly sel = true) : selectVals sel pub prf param = sel.map (pick pub prf) := by
  induction sel with
  | nil => rfl
  | cons s ss ih =>
    simp only [structOnly, List.all_cons, Bool.and_eq_true] at h
    have ih' := ih (by simpa [structOnly] using h.2)
    simp only [selectVals, List.flatMap_cons, List.map_cons] at ih' ⊢
    rw [ih']
    simp only [pick]
    rcases Bool.or_eq_true _ _ |>.mp h.1 with h1 | h1
    · simp [h1]
    · by_cases hp : (s.1 == "public") = true
      · simp [hp]
      · simp [hp, h1]

/-- equal selected value lists: every selected field has the same value in both (statement, proof) pairs -/
theorem selected_fields_equal (sel : List Sel) (pub prf pub' prf' : Rec) (param param' : String → List Val)
    (hs : structOnly sel = true)
    (h : selectVals sel pub prf param = selectVals sel pub' prf' param') :
    ∀ s ∈ sel, pick pub prf s = pick pub' prf' s := by
  rw [selectVals_eq_map sel pub prf param hs, selectVals_eq_map sel pub' prf' param' hs] at h
  intro s hs'
  exact List.map_inj_left.mp h s hs'

/-- field values that are actually written (non-nil values of a hashed Go type) -/
def Val.hashed : Val → Bool
  | .nat (some _) => true
  | .big (some _) => true
  | .pt (some _) => true
  | .sc (some _) => true
  | .ct (some _) => true
  | .pk _ => true
  | .ped _ => true
  | .modulus _ => true
  | .elg _ _ => true
  | _ => false

/-- reading a field value back from the argument handed to `hash.WriteAny` -/
def ofHV : HV → Option Val
  | .nat b => some (.nat b)
  | .modulus n => some (.modulus n)
  | .tv (.bigint neg a) => some (.big (some (if neg then -(a : Int) else (a : Int))))
  | .tv (.point b) => some (.pt (some b))
  | .tv (.scalar b) => some (.sc (some b))
  | .tv (.ct c) => some (.ct (some c))
  | .tv (.pk n) => some (.pk n)
  | .tv (.ped n s t) => some (.ped ⟨n, s, t⟩)
  | .tv (.elg l m) => some (.elg l m)
  | _ => none

theorem ofHV_toHV (v : Val) (hv : v.hashed = true) : ofHV v.toHV = some v := by
  cases v with
  | nat b => cases b <;> simp_all [Val.hashed, Val.toHV, ofHV]
  | int z => simp [Val.hashed] at hv
  | big z =>
    cases z with
    | none => simp [Val.hashed] at hv
    | some z =>
      simp only [Val.toHV, ofHV, Option.some.injEq, Val.big.injEq]
      split
      · next h => have : z < 0 := by simpa using h
                  omega
      · next h => have : ¬ z < 0 := by simpa using h
                  omega
  | pt b => cases b <;> simp_all [Val.hashed, Val.toHV, ofHV]
  | sc b => cases b <;> simp_all [Val.hashed, Val.toHV, ofHV]
  | ct b => cases b <;> simp_all [Val.hashed, Val.toHV, ofHV]
  | pk n => rfl
  | ped p => rfl
  | modulus n => rfl
  | elg l m => rfl
  | bool b => simp [Val.hashed] at hv
  | list l => simp [Val.hashed] at hv
  | missing => simp [Val.hashed] at hv

/-- on hashed values the translation to `hash.WriteAny` arguments loses nothing -/
theorem toHV_injective (v w : Val) (hv : v.hashed = true) (hw : w.hashed = true) (h : v.toHV = w.toHV) : v = w := by
  have := ofHV_toHV v hv
  rw [h, ofHV_toHV w hw] at this
  exact (Option.some.inj this).symm

/-- Binding of a verification to (context, statement, commitment): if two challenge computations — selector list
    `sel` over (pub, prf) on context `pre`, and over (pub', prf') on `pre'` — both succeed and feed `H` with inputs
    of equal digest, then the contexts are equal and every selected `Public` / `Commitment` field is written as the
    same `WriteAny` argument; or the two inputs are an explicit collision. -/
theorem challenge_binds_statement (H : Bytes → Bytes) (sel : List Sel) (hs : structOnly sel = true)
    (pre pre' : List Item) (pub prf pub' prf' : Rec) (param param' : String → List Val) (is is' : List Item)
    (hpre : ∀ i ∈ pre, i.WF) (hpre' : ∀ i ∈ pre', i.WF)
    (hv : ∀ v ∈ (selectVals sel pub prf param).map Val.toHV, v.WF)
    (hv' : ∀ v ∈ (selectVals sel pub' prf' param').map Val.toHV, v.WF)
    (e : writeAll ((selectVals sel pub prf param).map Val.toHV) = .ok (some is))
    (e' : writeAll ((selectVals sel pub' prf' param').map Val.toHV) = .ok (some is'))
    (h : H (transcript (pre ++ is)) = H (transcript (pre' ++ is'))) :
    (pre = pre' ∧ ∀ s ∈ sel, (pick pub prf s).toHV = (pick pub' prf' s).toHV) ∨
    (transcript (pre ++ is) ≠ transcript (pre' ++ is') ∧ H (transcript (pre ++ is)) = H (transcript (pre' ++ is'))) := by
  have hlen : ((selectVals sel pub prf param).map Val.toHV).length = ((selectVals sel pub' prf' param').map Val.toHV).length := by
    rw [selectVals_eq_map sel pub prf param hs, selectVals_eq_map sel pub' prf' param' hs]; simp
  rcases challenge_input_injective H pre pre' _ _ is is' hpre hpre' hv hv' hlen (writeAll_eq _ _ e) (writeAll_eq _ _ e') h with
    ⟨h1, h2⟩ | hc
  · left
    refine ⟨h1, ?_⟩
    rw [selectVals_eq_map sel pub prf param hs, selectVals_eq_map sel pub' prf' param' hs, List.map_map, List.map_map] at h2
    intro s hs'
    exact List.map_inj_left.mp h2 s hs'
  · right; exact hc

end Mps.ZK
