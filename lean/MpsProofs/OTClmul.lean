import Mathlib.Algebra.Polynomial.Coeff
import Mathlib.Data.ZMod.Basic
import Mathlib.Algebra.CharP.Two
import Mathlib.Tactic.Ring
import Mps.OT.Clmul
/-
  extended.go `accumulate`: the coded double-lane shift-and-xor loop on four 64-bit words computes
  the product of its two 128-bit arguments in GF(2)[X] (never reduced). Bit vectors are mapped to
  polynomials over `ZMod 2`; bilinearity and commutativity are then ring facts.
-/
namespace Mps.OT
open Polynomial

/-- the polynomial over GF(2) whose coefficient `k` is bit `k` of `n` -/
noncomputable def toPoly (n : Nat) : (ZMod 2)[X] :=
  ∑ i ∈ Finset.range (n + 1), if n.testBit i then X ^ i else 0

theorem testBit_lt_succ (n k : Nat) (h : n.testBit k = true) : k < n + 1 := by
  by_contra hk
  have : n < 2 ^ k := Nat.lt_of_lt_of_le Nat.lt_two_pow_self (Nat.pow_le_pow_right (by decide) (by omega))
  rw [Nat.testBit_lt_two_pow this] at h
  exact Bool.false_ne_true h

theorem coeff_toPoly (n k : Nat) : (toPoly n).coeff k = if n.testBit k then 1 else 0 := by
  unfold toPoly
  rw [finsetSum_coeff]
  have : ∀ i ∈ Finset.range (n + 1),
      ((if n.testBit i then (X : (ZMod 2)[X]) ^ i else 0).coeff k) = if k = i then (if n.testBit k then 1 else 0) else 0 := by
    intro i _
    by_cases h : n.testBit i
    · by_cases e : k = i
      · subst e; simp [h]
      · simp [h, e, coeff_X_pow]
    · by_cases e : k = i
      · subst e; simp [h]
      · simp [h, e]
  rw [Finset.sum_congr rfl this, Finset.sum_ite_eq]
  by_cases h : n.testBit k
  · simp [h, testBit_lt_succ n k h]
  · simp [h]

theorem toPoly_inj {a b : Nat} (h : toPoly a = toPoly b) : a = b := by
  apply Nat.eq_of_testBit_eq
  intro i
  have := congrArg (fun p => p.coeff i) h
  simp only [coeff_toPoly] at this
  by_cases ha : a.testBit i <;> by_cases hb : b.testBit i <;> simp_all

@[simp] theorem toPoly_zero : toPoly 0 = 0 := by
  ext k; simp [coeff_toPoly]

theorem toPoly_xor (a b : Nat) : toPoly (a ^^^ b) = toPoly a + toPoly b := by
  ext k
  rw [coeff_add, coeff_toPoly, coeff_toPoly, coeff_toPoly, Nat.testBit_xor]
  cases a.testBit k <;> cases b.testBit k <;> simp
  decide

theorem toPoly_shiftLeft (a k : Nat) : toPoly (a <<< k) = X ^ k * toPoly a := by
  ext d
  rw [coeff_X_pow_mul', coeff_toPoly, coeff_toPoly, Nat.testBit_shiftLeft]
  by_cases h : k ≤ d <;> simp [h]

theorem toPoly_maskBit (c : Bool) (v : Nat) : toPoly (maskBit c v) = if c then toPoly v else 0 := by
  cases c <;> simp [maskBit]

theorem toPoly_mod_succ (a n : Nat) :
    toPoly (a % 2 ^ (n + 1)) = toPoly (a % 2 ^ n) + if a.testBit n then X ^ n else 0 := by
  ext k
  rw [coeff_add, coeff_toPoly, coeff_toPoly, Nat.testBit_mod_two_pow, Nat.testBit_mod_two_pow]
  by_cases hk : k < n
  · have : k < n + 1 := by omega
    have hne : k ≠ n := by omega
    by_cases ha : a.testBit n <;> simp [hk, this, ha, coeff_X_pow, hne]
  · by_cases e : k = n
    · subst e
      by_cases ha : a.testBit k <;> simp [ha]
    · have : ¬ (k < n + 1) := by omega
      by_cases ha : a.testBit n <;> simp [hk, this, ha, coeff_X_pow, e]

/-- the specification sum is the polynomial product with the low `n` bits of `a` -/
theorem toPoly_clSum (a b n : Nat) : toPoly (clSum a b n) = toPoly (a % 2 ^ n) * toPoly b := by
  induction n with
  | zero => simp [clSum, Nat.mod_one]
  | succ n ih =>
    rw [clSum, toPoly_xor, ih, toPoly_maskBit, toPoly_shiftLeft, toPoly_mod_succ]
    by_cases ha : a.testBit n <;> simp [ha] ; ring

theorem toPoly_split64 (a : Nat) : toPoly a = toPoly (a % 2 ^ 64) + X ^ 64 * toPoly (a >>> 64) := by
  ext k
  rw [coeff_add, coeff_X_pow_mul', coeff_toPoly, coeff_toPoly, coeff_toPoly, Nat.testBit_mod_two_pow,
    Nat.testBit_shiftRight]
  by_cases h : k < 64
  · have : ¬ (64 ≤ k) := by omega
    simp [h, this]
  · have h' : 64 ≤ k := by omega
    have e : 64 + (k - 64) = k := by omega
    simp [h, h', e]

/-! ### the coded loop -/

/-- what the two lanes of the loop have accumulated after the bit indices `< n` -/
def lanes (a b n : Nat) : Nat := clSum a b n ^^^ clSum (a >>> 64) (b <<< 64) n

theorem clSum_lt (a b m : Nat) (hb : b < 2 ^ m) (n : Nat) : clSum a b n < 2 ^ (m + n) := by
  induction n with
  | zero => simp [clSum]
  | succ n ih =>
    rw [clSum]
    apply Nat.xor_lt_two_pow
    · exact Nat.lt_of_lt_of_le ih (Nat.pow_le_pow_right (by decide) (by omega))
    · cases a.testBit n
      · simp [maskBit]
      · simp only [maskBit, if_true]
        rw [Nat.shiftLeft_eq]
        calc b * 2 ^ n < 2 ^ m * 2 ^ n := Nat.mul_lt_mul_of_pos_right hb (Nat.two_pow_pos _)
          _ = 2 ^ (m + n) := (Nat.pow_add 2 m n).symm
          _ ≤ 2 ^ (m + (n + 1)) := Nat.pow_le_pow_right (by decide) (by omega)

theorem shiftLeft_lt_of_lt (x m k : Nat) (h : x < 2 ^ m) : x <<< k < 2 ^ (m + k) := by
  rw [Nat.shiftLeft_eq, Nat.pow_add]
  exact Nat.mul_lt_mul_of_pos_right h (Nat.two_pow_pos _)

theorem maskBit_lt (c : Bool) (v m : Nat) (h : v < 2 ^ m) : maskBit c v < 2 ^ m := by
  cases c
  · simp [maskBit]
  · simpa [maskBit] using h

theorem maskBit_shiftLeft (c : Bool) (v k : Nat) : maskBit c v <<< k = maskBit c (v <<< k) := by
  cases c <;> simp [maskBit]

theorem shiftLeft_shiftLeft' (x a b : Nat) : (x <<< a) <<< b = x <<< (a + b) := by
  rw [Nat.shiftLeft_eq, Nat.shiftLeft_eq, Nat.shiftLeft_eq, Nat.pow_add, Nat.mul_assoc]

theorem lanes_succ (a b n : Nat) :
    lanes a b (n + 1) = lanes a b n ^^^
      ((maskBit (a.testBit n) b ^^^ maskBit (a.testBit (64 + n)) (b <<< 64)) <<< n) := by
  unfold lanes
  rw [clSum, clSum, Nat.shiftLeft_xor_distrib, maskBit_shiftLeft, maskBit_shiftLeft, Nat.testBit_shiftRight]
  ac_rfl

/-- the loop, started with `n + 1` iterations to go from scratch value `s`, returns
    `s·X^n + lanes(n+1)`; the 256-bit truncation of `shl1` never drops a set bit. -/
theorem accLoop_eq (a b : Nat) (hb : b < 2 ^ 128) (n : Nat) (hn : n ≤ 63) (s : Nat) (hs : s < 2 ^ (255 - n)) :
    accLoop a b (n + 1) s = (s <<< n) ^^^ lanes a b (n + 1) := by
  induction n generalizing s with
  | zero =>
    simp only [accLoop, accStep, lanes, clSum]
    simp
    ac_rfl
  | succ n ih =>
    have hlane : (maskBit (a.testBit (n + 1)) b ^^^ maskBit (a.testBit (64 + (n + 1))) (b <<< 64)) < 2 ^ 192 := by
      apply Nat.xor_lt_two_pow
      · exact maskBit_lt _ _ _ (Nat.lt_of_lt_of_le hb (Nat.pow_le_pow_right (by decide) (by decide)))
      · exact maskBit_lt _ _ _ (shiftLeft_lt_of_lt b 128 64 hb)
    have hs' : s ^^^ maskBit (a.testBit (n + 1)) b ^^^ maskBit (a.testBit (64 + (n + 1))) (b <<< 64)
        < 2 ^ (255 - (n + 1)) := by
      rw [Nat.xor_assoc]
      apply Nat.xor_lt_two_pow hs
      exact Nat.lt_of_lt_of_le hlane (Nat.pow_le_pow_right (by decide) (by omega))
    have hstep : accStep a b (n + 1) s =
        (s ^^^ maskBit (a.testBit (n + 1)) b ^^^ maskBit (a.testBit (64 + (n + 1))) (b <<< 64)) <<< 1 := by
      simp only [accStep, shl1]
      rw [if_pos (by omega)]
      apply Nat.mod_eq_of_lt
      have := shiftLeft_lt_of_lt _ _ 1 hs'
      exact Nat.lt_of_lt_of_le this (Nat.pow_le_pow_right (by decide) (by omega))
    have hbound : accStep a b (n + 1) s < 2 ^ (255 - n) := by
      rw [hstep]
      have := shiftLeft_lt_of_lt _ _ 1 hs'
      have e : 255 - (n + 1) + 1 = 255 - n := by omega
      rwa [e] at this
    rw [accLoop, ih (by omega) _ hbound, hstep, shiftLeft_shiftLeft', lanes_succ a b (n + 1),
      Nat.shiftLeft_xor_distrib, Nat.shiftLeft_xor_distrib, Nat.shiftLeft_xor_distrib, Nat.add_comm 1 n]
    ac_rfl

theorem clmulCoded_eq_lanes (a b : Nat) (hb : b < 2 ^ 128) : clmulCoded a b = lanes a b 64 := by
  unfold clmulCoded
  rw [accLoop_eq a b hb 63 (by decide) 0 (Nat.two_pow_pos _)]
  simp

/-- **accumulate computes the GF(2)[X] product**: for 128-bit `a`, `b` the scratch value of the
    coded loop is the polynomial product (255 bits, no reduction). -/
theorem clmulCoded_poly (a b : Nat) (ha : a < 2 ^ 128) (hb : b < 2 ^ 128) :
    toPoly (clmulCoded a b) = toPoly a * toPoly b := by
  rw [clmulCoded_eq_lanes a b hb]
  unfold lanes
  rw [toPoly_xor, toPoly_clSum, toPoly_clSum, toPoly_shiftLeft, toPoly_split64 a]
  have : (a >>> 64) % 2 ^ 64 = a >>> 64 := by
    apply Nat.mod_eq_of_lt
    rw [Nat.shiftRight_eq_div_pow]
    apply Nat.div_lt_of_lt_mul
    calc a < 2 ^ 128 := ha
      _ = 2 ^ 64 * 2 ^ 64 := by decide
  rw [this]
  ring

theorem clmulCoded_eq_clmul (a b : Nat) (ha : a < 2 ^ 128) (hb : b < 2 ^ 128) :
    clmulCoded a b = clmul a b := by
  apply toPoly_inj
  rw [clmulCoded_poly a b ha hb]
  unfold clmul
  rw [toPoly_clSum, Nat.mod_eq_of_lt ha]

/-- **clmul_bilinear** (and commutative): on 128-bit vectors the coded carry-less multiply is
    additive (XOR-linear) in each argument and symmetric. -/
theorem clmul_bilinear (a a' b b' : Nat) (ha : a < 2 ^ 128) (ha' : a' < 2 ^ 128) (hb : b < 2 ^ 128)
    (hb' : b' < 2 ^ 128) :
    clmulCoded (a ^^^ a') b = clmulCoded a b ^^^ clmulCoded a' b ∧
    clmulCoded a (b ^^^ b') = clmulCoded a b ^^^ clmulCoded a b' ∧
    clmulCoded a b = clmulCoded b a := by
  refine ⟨?_, ?_, ?_⟩ <;> apply toPoly_inj
  · rw [toPoly_xor, clmulCoded_poly _ _ (Nat.xor_lt_two_pow ha ha') hb, clmulCoded_poly _ _ ha hb,
      clmulCoded_poly _ _ ha' hb, toPoly_xor]; ring
  · rw [toPoly_xor, clmulCoded_poly _ _ ha (Nat.xor_lt_two_pow hb hb'), clmulCoded_poly _ _ ha hb,
      clmulCoded_poly _ _ ha hb', toPoly_xor]; ring
  · rw [clmulCoded_poly _ _ ha hb, clmulCoded_poly _ _ hb ha]; ring

theorem clmulCoded_zero_left (b : Nat) (hb : b < 2 ^ 128) : clmulCoded 0 b = 0 := by
  apply toPoly_inj
  rw [clmulCoded_poly 0 b (Nat.two_pow_pos _) hb]; simp

theorem clmulCoded_lt (a b : Nat) (ha : a < 2 ^ 128) (hb : b < 2 ^ 128) : clmulCoded a b < 2 ^ 256 := by
  rw [clmulCoded_eq_clmul a b ha hb]
  exact clSum_lt a b 128 hb 128

end Mps.OT
