import Mps.Pool
/-
  Proofs for M6 (worker pool): invariants and ranking functions of the repaired transition
  systems `Pool.Fixed.Par` and `Pool.Fixed.Search`, for every number of workers, every task
  count and every schedule. Core-only.
-/
namespace Mps.Pool

/-! ### generic lemmas -/

theorem wsum_set {α : Type} (g : α → Nat) : ∀ (l : List α) (w : Nat) (a b : α), l[w]? = some a →
    wsum g (l.set w b) + g a = wsum g l + g b := by
  intro l
  induction l with
  | nil => intro w a b h; simp at h
  | cons x l ih =>
    intro w a b h
    cases w with
    | zero =>
      simp at h; subst h
      simp [wsum]; omega
    | succ w =>
      simp at h
      have := ih w a b h
      simp [wsum]; omega

theorem wsum_le_of_get {α : Type} (g : α → Nat) : ∀ (l : List α) (w : Nat) (a : α), l[w]? = some a → g a ≤ wsum g l := by
  intro l
  induction l with
  | nil => intro w a h; simp at h
  | cons x l ih =>
    intro w a h
    cases w with
    | zero => simp at h; subst h; simp [wsum]
    | succ w => simp at h; have := ih w a h; simp [wsum]; omega

theorem wsum_eq_zero {α : Type} (g : α → Nat) : ∀ (l : List α), (∀ (w : Nat) (a : α), l[w]? = some a → g a = 0) → wsum g l = 0 := by
  intro l
  induction l with
  | nil => intro _; rfl
  | cons x l ih =>
    intro h
    have h0 := h 0 x (by simp)
    have := ih (fun w a hw => h (w + 1) a (by simpa using hw))
    simp [wsum, h0, this]

theorem wsum_mono {α : Type} (g g' : α → Nat) (hg : ∀ a, g' a ≤ g a) : ∀ (l : List α), wsum g' l ≤ wsum g l := by
  intro l
  induction l with
  | nil => exact Nat.le_refl _
  | cons x l ih => have := hg x; simp [wsum]; omega

/-- a list all of whose entries are `a` is `replicate` -/
theorem eq_replicate_of_get {α : Type} (a : α) : ∀ (l : List α), (∀ (w : Nat) (b : α), l[w]? = some b → b = a) → l = List.replicate l.length a := by
  intro l
  induction l with
  | nil => intro _; rfl
  | cons x l ih =>
    intro h
    have h0 := h 0 x (by simp)
    have := ih (fun w b hw => h (w + 1) b (by simpa using hw))
    subst h0
    simp [List.replicate_succ]
    exact this

theorem get_replicate {α : Type} (a : α) (n w : Nat) (b : α) (h : (List.replicate n a)[w]? = some b) : b = a := by
  rw [List.getElem?_replicate] at h
  split at h
  · exact (Option.some.inj h).symm
  · cases h

theorem getElem?_set' {α : Type} (l : List α) (w w' : Nat) (b : α) :
    (l.set w b)[w']? = if w = w' then (if w < l.length then some b else none) else l[w']? := by
  rw [List.getElem?_set]

/-- run-induction: an invariant preserved by every step holds along every schedule -/
theorem run_inv {σ L : Type} (step : σ → L → Option σ) (P : σ → Prop)
    (hstep : ∀ s l s', P s → step s l = some s' → P s') :
    ∀ (ls : List L) (s s' : σ), P s → run step s ls = some s' → P s' := by
  intro ls
  induction ls with
  | nil => intro s s' hp h; simp [run] at h; subst h; exact hp
  | cons l ls ih =>
    intro s s' hp h
    simp only [run] at h
    cases hs : step s l with
    | none => simp [hs] at h
    | some s1 => simp only [hs] at h; exact ih s1 s' (hstep s l s1 hp hs) h

theorem run_append {σ L : Type} (step : σ → L → Option σ) :
    ∀ (ls ls' : List L) (s s' : σ), run step s ls = some s' → run step s (ls ++ ls') = run step s' ls' := by
  intro ls
  induction ls with
  | nil => intro ls' s s' h; simp [run] at h; subst h; rfl
  | cons l ls ih =>
    intro ls' s s' h
    simp only [run, List.cons_append] at h ⊢
    cases hs : step s l with
    | none => simp [hs] at h
    | some s1 => simp only [hs] at h ⊢; exact ih ls' s1 s' h


theorem get_set_self {α : Type} (l : List α) (w : Nat) (a b : α) (h : l[w]? = some a) : (l.set w b)[w]? = some b := by
  have hl : w < l.length := by
    rcases List.getElem?_eq_some_iff.mp h with ⟨hl, _⟩; exact hl
  rw [getElem?_set']; simp [hl]

/-- a worker `w'` in state `c` is not disturbed by a step of a worker `w` that was in a different state -/
theorem get_set_keep {α : Type} (l : List α) (w w' : Nat) (a b c : α) (h : l[w]? = some a) (hne : a ≠ c)
    (h' : l[w']? = some c) : (l.set w b)[w']? = some c := by
  have : w ≠ w' := by
    intro e; subst e; rw [h] at h'; exact hne (Option.some.inj h')
  rw [List.getElem?_set_ne this]; exact h'

/-- conversely, what is seen after the step at another index was there before -/
theorem get_set_inv {α : Type} (l : List α) (w w' : Nat) (b c : α) (h : (l.set w b)[w']? = some c) :
    (w = w' ∧ c = b) ∨ (w ≠ w' ∧ l[w']? = some c) := by
  rw [getElem?_set'] at h
  by_cases e : w = w'
  · left; simp [e] at h; exact ⟨e, h.2.symm⟩
  · right; simp [e] at h; exact ⟨e, h⟩

/-! ### nil pool -/

theorem parallelizeAloneLoop_get (f : Nat → Val) : ∀ (k i : Nat) (res : List (Option Val)), i + k ≤ res.length →
    ∀ j : Nat, (parallelizeAloneLoop f k i res)[j]? = if i ≤ j ∧ j < i + k then some (some (f j)) else res[j]? := by
  intro k
  induction k with
  | zero => intro i res _ j; simp [parallelizeAloneLoop]; omega
  | succ k ih =>
    intro i res h j
    simp only [parallelizeAloneLoop]
    rw [ih (i + 1) _ (by simp; omega) j]
    by_cases e : i = j
    · subst e
      have : i < res.length := by omega
      simp [this]
    · rw [List.getElem?_set_ne e]
      by_cases h1 : i + 1 ≤ j ∧ j < i + 1 + k
      · rw [if_pos h1, if_pos (by omega)]
      · rw [if_neg h1, if_neg (by omega)]

theorem parallelizeAloneLoop_length (f : Nat → Val) : ∀ (k i : Nat) (res : List (Option Val)),
    (parallelizeAloneLoop f k i res).length = res.length := by
  intro k
  induction k with
  | zero => intro i res; rfl
  | succ k ih => intro i res; simp [parallelizeAloneLoop, ih]

theorem parallelizeAlone_eq (f : Nat → Val) (n : Nat) :
    parallelizeAlone f n = (List.range n).map (fun i => some (f i)) := by
  apply List.ext_getElem?
  intro j
  unfold parallelizeAlone
  rw [parallelizeAloneLoop_get f n 0 _ (by simp) j]
  by_cases h : j < n
  · simp [h]
  · simp [h]

theorem searchAloneLoop_eq : ∀ (answers : List (Option Val)) (k : Nat) (acc : List (Option Val)),
    searchAloneLoop answers k acc =
      if k ≤ (answers.filter Option.isSome).length then some (acc.reverse ++ (answers.filter Option.isSome).take k) else none := by
  intro answers
  induction answers with
  | nil =>
    intro k acc
    cases k with
    | zero => simp [searchAloneLoop]
    | succ k => simp [searchAloneLoop]
  | cons a rest ih =>
    intro k acc
    cases k with
    | zero => simp [searchAloneLoop]
    | succ k =>
      cases a with
      | none => simp only [searchAloneLoop]; rw [ih]; simp
      | some v =>
        simp only [searchAloneLoop]; rw [ih]
        simp only [List.filter_cons, Option.isSome_some, if_true, List.length_cons, List.take_succ_cons,
          List.reverse_cons, List.append_assoc, List.singleton_append]
        by_cases h : k ≤ (List.filter Option.isSome rest).length
        · rw [if_pos h, if_pos (by omega)]
        · rw [if_neg h, if_neg (by omega)]

/-! ### Parallelize, repaired -/
namespace Fixed.Par

/-- the invariant (counting abstraction + result bookkeeping) -/
structure Inv (W n : Nat) (f : Nat → Val) (s : State) : Prop where
  /-- every command sent is held by exactly one busy worker or has been acknowledged -/
  count : wsum busy s.ws + s.recvd = s.cmdI
  le : s.cmdI ≤ n
  ret : s.ret = true → s.cmdI = n ∧ s.recvd = n
  len : s.res.length = n
  wlen : s.ws.length = W
  gotlt : ∀ (w i : Nat), s.ws[w]? = some (.got i) → i < s.cmdI
  /-- the result of a command sent is written unless a worker still holds the command -/
  done : ∀ i, i < s.cmdI → (∃ w : Nat, s.ws[w]? = some (.got i)) ∨ s.res[i]? = some (some (f i))

theorem inv_init (W n : Nat) (f : Nat → Val) : Inv W n f (init (List.replicate W .idle) n) := by
  refine ⟨?_, Nat.zero_le _, ?_, ?_, ?_, ?_, ?_⟩
  · simp only [init]
    rw [wsum_eq_zero]
    intro w a h; rw [get_replicate _ _ _ _ h]; rfl
  · intro h; cases h
  · simp [init]
  · simp [init]
  · intro w i h; have := get_replicate _ _ _ _ h; cases this
  · intro i h; cases h

theorem inv_step (W n : Nat) (f : Nat → Val) (s : State) (l : Label) (s' : State)
    (I : Inv W n f s) (h : step n f s l = some s') : Inv W n f s' := by
  cases l with
  | cmd w =>
    simp only [step] at h
    split at h
    · rename_i hc
      obtain ⟨hr, hlt, hw⟩ := hc
      cases h
      refine ⟨?_, ?_, ?_, I.len, ?_, ?_, ?_⟩
      · have := wsum_set busy s.ws w .idle (.got s.cmdI) hw
        have := I.count
        simp [busy] at *; omega
      · simp; omega
      · intro h; simp [hr] at h
      · simp [I.wlen]
      · intro w' i hg
        rcases get_set_inv _ _ _ _ _ hg with ⟨_, e⟩ | ⟨_, e⟩
        · cases e; simp
        · have := I.gotlt w' i e; simp; omega
      · intro i hi
        by_cases e : i = s.cmdI
        · left; exact ⟨w, by rw [e]; exact get_set_self _ _ _ _ hw⟩
        · rcases I.done i (by simp at hi; omega) with ⟨w', hw'⟩ | hres
          · left; exact ⟨w', get_set_keep _ _ _ _ _ _ hw (by simp) hw'⟩
          · right; exact hres
    · cases h
  | write w =>
    simp only [step] at h
    split at h
    · rename_i i hw
      cases h
      have hi := I.gotlt w i hw
      refine ⟨?_, I.le, I.ret, ?_, ?_, ?_, ?_⟩
      · have := wsum_set busy s.ws w (.got i) .notify hw
        have := I.count
        simp [busy] at *; omega
      · simp [I.len]
      · simp [I.wlen]
      · intro w' j hg
        rcases get_set_inv _ _ _ _ _ hg with ⟨_, e⟩ | ⟨_, e⟩
        · cases e
        · exact I.gotlt w' j e
      · intro j hj
        by_cases e : j = i
        · right; subst e
          have : j < s.res.length := by rw [I.len]; have := I.le; omega
          simp [this]
        · rcases I.done j hj with ⟨w', hw'⟩ | hres
          · left; exact ⟨w', get_set_keep _ _ _ _ _ _ hw (by simp; omega) hw'⟩
          · right; simp only []; rw [List.getElem?_set_ne (by omega)]; exact hres
    · cases h
  | notify w =>
    simp only [step] at h
    split at h
    · rename_i hc
      obtain ⟨hr, hw, _⟩ := hc
      cases h
      refine ⟨?_, I.le, ?_, I.len, ?_, ?_, ?_⟩
      · have := wsum_set busy s.ws w .notify .idle hw
        have := I.count
        simp [busy] at *; omega
      · intro h; simp [hr] at h
      · simp [I.wlen]
      · intro w' j hg
        rcases get_set_inv _ _ _ _ _ hg with ⟨_, e⟩ | ⟨_, e⟩
        · cases e
        · exact I.gotlt w' j e
      · intro j hj
        rcases I.done j hj with ⟨w', hw'⟩ | hres
        · left; exact ⟨w', get_set_keep _ _ _ _ _ _ hw (by simp) hw'⟩
        · right; exact hres
    · cases h
  | ret =>
    simp only [step] at h
    split at h
    · rename_i hc
      obtain ⟨hr, h1, h2⟩ := hc
      cases h
      have hcnt := I.count
      have hle := I.le
      refine ⟨I.count, I.le, ?_, I.len, I.wlen, I.gotlt, I.done⟩
      intro _
      simp at *
      omega
    · cases h


theorem inv_run (W n : Nat) (f : Nat → Val) (ls : List Label) (s : State)
    (h : run (step n f) (init (List.replicate W .idle) n) ls = some s) : Inv W n f s :=
  run_inv (step n f) (Inv W n f) (fun s l s' => inv_step W n f s l s') ls _ s (inv_init W n f) h

/-- at return no worker holds a command and every command has been acknowledged -/
theorem idle_of_ret (W n : Nat) (f : Nat → Val) (s : State) (I : Inv W n f s) (hr : s.ret = true) :
    s.ws = List.replicate W .idle := by
  obtain ⟨h1, h2⟩ := I.ret hr
  have hc := I.count
  have h0 : wsum busy s.ws = 0 := by omega
  have hall : ∀ (w : Nat) (b : Par.W), s.ws[w]? = some b → b = .idle := by
    intro w b hb
    have := wsum_le_of_get busy s.ws w b hb
    cases b with
    | idle => rfl
    | got i => simp [busy] at this; omega
    | notify => simp [busy] at this; omega
  have := eq_replicate_of_get Par.W.idle s.ws hall
  rw [I.wlen] at this; exact this

theorem results_of_ret (W n : Nat) (f : Nat → Val) (s : State) (I : Inv W n f s) (hr : s.ret = true) :
    s.res = (List.range n).map (fun i => some (f i)) := by
  have hidle := idle_of_ret W n f s I hr
  have h1 := (I.ret hr).1
  have hlen := I.len
  apply List.ext_getElem?
  intro i
  by_cases hi : i < n
  · rcases I.done i (by omega) with ⟨w, hw⟩ | hres
    · rw [hidle] at hw; have := get_replicate _ _ _ _ hw; cases this
    · rw [hres]; simp [hi]
  · have : s.res.length ≤ i := by omega
    rw [List.getElem?_eq_none this]
    have : (List.range n).length ≤ i := by simp; omega
    rw [List.getElem?_eq_none (by simpa using this)]

/-- every state that has not returned has an enabled step -/
theorem enabled_of_not_ret (W n : Nat) (hW : 0 < W) (f : Nat → Val) (s : State) (I : Inv W n f s)
    (hr : s.ret = false) : ∃ l s', step n f s l = some s' := by
  by_cases hg : ∃ (w i : Nat), s.ws[w]? = some (.got i)
  · obtain ⟨w, i, hw⟩ := hg
    exact ⟨.write w, { s with res := s.res.set i (some (f i)), ws := s.ws.set w .notify }, by simp only [step, hw]⟩
  by_cases hn : ∃ w : Nat, s.ws[w]? = some .notify
  · obtain ⟨w, hw⟩ := hn
    have h1 := wsum_le_of_get busy s.ws w _ hw
    have h2 := I.count
    have h3 := I.le
    simp [busy] at h1
    have : s.cmdI < n ∨ s.recvd < n := by omega
    exact ⟨.notify w, _, by simp only [step]; rw [if_pos ⟨hr, hw, this⟩]⟩
  -- every worker is idle
  have hall : ∀ (w : Nat) (b : Par.W), s.ws[w]? = some b → b = .idle := by
    intro w b hb
    cases b with
    | idle => rfl
    | got i => exact absurd ⟨w, i, hb⟩ hg
    | notify => exact absurd ⟨w, hb⟩ hn
  have h0 : wsum busy s.ws = 0 := wsum_eq_zero busy s.ws (fun w a h => by rw [hall w a h]; rfl)
  have hc := I.count
  by_cases hlt : s.cmdI < n
  · have hw0 : s.ws[0]? = some .idle := by
      have hl : 0 < s.ws.length := by rw [I.wlen]; exact hW
      have : s.ws[0]? = some s.ws[0] := List.getElem?_eq_getElem hl
      rw [this, hall 0 _ this]
    exact ⟨.cmd 0, _, by simp only [step]; rw [if_pos ⟨hr, hlt, hw0⟩]⟩
  · have : ¬ s.recvd < n := by have := I.le; omega
    exact ⟨.ret, _, by simp only [step]; rw [if_pos ⟨hr, hlt, this⟩]⟩

/-- the ranking function drops by exactly one with every step -/
theorem rank_step (n : Nat) (f : Nat → Val) (s : State) (l : Label) (s' : State)
    (h : step n f s l = some s') : rank n s' + 1 = rank n s := by
  cases l with
  | cmd w =>
    simp only [step] at h
    split at h
    · rename_i hc
      obtain ⟨hr, hlt, hw⟩ := hc
      cases h
      have := wsum_set togo s.ws w .idle (.got s.cmdI) hw
      simp [rank, togo] at *; omega
    · cases h
  | write w =>
    simp only [step] at h
    split at h
    · rename_i i hw
      cases h
      have := wsum_set togo s.ws w (.got i) .notify hw
      simp [rank, togo] at *; omega
    · cases h
  | notify w =>
    simp only [step] at h
    split at h
    · rename_i hc
      obtain ⟨hr, hw, _⟩ := hc
      cases h
      have := wsum_set togo s.ws w .notify .idle hw
      simp [rank, togo] at *; omega
    · cases h
  | ret =>
    simp only [step] at h
    split at h
    · rename_i hc
      obtain ⟨hr, _, _⟩ := hc
      cases h
      simp [rank, hr]; omega
    · cases h

theorem rank_run (n : Nat) (f : Nat → Val) : ∀ (ls : List Label) (s s' : State),
    run (step n f) s ls = some s' → rank n s' + ls.length = rank n s := by
  intro ls
  induction ls with
  | nil => intro s s' h; simp [run] at h; subst h; rfl
  | cons l ls ih =>
    intro s s' h
    simp only [run] at h
    cases hs : step n f s l with
    | none => simp [hs] at h
    | some s1 =>
      simp only [hs] at h
      have := ih s1 s' h
      have := rank_step n f s l s1 hs
      simp; omega

theorem rank_init (W n : Nat) : rank n (init (List.replicate W .idle) n) = 3 * n + 1 := by
  have : wsum togo (List.replicate W Par.W.idle) = 0 :=
    wsum_eq_zero _ _ (fun w a h => by rw [get_replicate _ _ _ _ h]; rfl)
  simp [rank, init, this]; omega

end Fixed.Par


/-! ### Search, repaired -/
namespace Fixed.Search

structure Inv (W n : Nat) (s : State) : Prop where
  /-- every command sent is held by exactly one busy worker or has been acknowledged -/
  count : wsum busy s.ws + s.recvd = s.cmdI
  le : s.cmdI ≤ W
  ret : s.ret = true → s.cmdI = W ∧ s.recvd = W
  len : s.res.length = n
  wlen : s.ws.length = W
  ctrle : s.ctr ≤ n
  /-- a worker leaves the search loop only when the counter is exhausted -/
  fin : (0 < s.recvd ∨ ∃ w : Nat, s.ws[w]? = some .done) → s.ctr ≤ 0
  wr : ∀ (w : Nat) (i : Int) (v : Val), s.ws[w]? = some (.write i v) → i < n ∧ s.ctr ≤ i
  /-- a claimed slot is written unless the claiming worker is still about to write it -/
  slot : ∀ i : Nat, i < n → s.ctr ≤ (i : Int) →
    (∃ (w : Nat) (v : Val), s.ws[w]? = some (.write i v)) ∨ (∃ v, s.res[i]? = some (some v))

theorem inv_init (W n : Nat) : Inv W n (init (List.replicate W .idle) n) := by
  refine ⟨?_, Nat.zero_le _, ?_, ?_, ?_, ?_, ?_, ?_, ?_⟩
  · simp only [init]
    rw [wsum_eq_zero]
    intro w a h; rw [get_replicate _ _ _ _ h]; rfl
  · intro h; cases h
  · simp [init]
  · simp [init]
  · simp [init]
  · intro h
    rcases h with h | ⟨w, h⟩
    · simp [init] at h
    · have := get_replicate _ _ _ _ h; cases this
  · intro w i v h; have := get_replicate _ _ _ _ h; cases this
  · intro i hi hc; simp [init] at hc; omega

/-- a step of worker `w` from a non-`done`, non-`write` state to a non-`done`, non-`write` state
    keeps the worker-dependent parts of the invariant -/
theorem inv_local (W n : Nat) (s : State) (I : Inv W n s) (w : Nat) (a b : Search.W)
    (hw : s.ws[w]? = some a) (ha : ∀ i v, a ≠ .write i v) (hb : b ≠ .done) (hb' : ∀ i v, b ≠ .write i v)
    (hbusy : busy a = busy b) :
    Inv W n { s with ws := s.ws.set w b } := by
  refine ⟨?_, I.le, I.ret, I.len, ?_, I.ctrle, ?_, ?_, ?_⟩
  · have := wsum_set busy s.ws w a b hw
    have := I.count
    simp only []; omega
  · simp [I.wlen]
  · intro h
    apply I.fin
    rcases h with h | ⟨w', h⟩
    · left; exact h
    · right
      rcases get_set_inv _ _ _ _ _ h with ⟨_, e⟩ | ⟨_, e⟩
      · exact absurd e.symm hb
      · exact ⟨w', e⟩
  · intro w' i v h
    rcases get_set_inv _ _ _ _ _ h with ⟨_, e⟩ | ⟨_, e⟩
    · exact absurd e.symm (hb' i v)
    · exact I.wr w' i v e
  · intro i hi hc
    rcases I.slot i hi hc with ⟨w', v, h⟩ | h
    · left; exact ⟨w', v, get_set_keep _ _ _ _ _ _ hw (ha _ _) h⟩
    · right; exact h

theorem inv_step (W n : Nat) (s : State) (l : Label) (s' : State)
    (I : Inv W n s) (h : step s l = some s') : Inv W n s' := by
  cases l with
  | cmd w =>
    simp only [step] at h
    split at h
    · rename_i hc
      obtain ⟨hr, hlt, hw⟩ := hc
      cases h
      refine ⟨?_, ?_, ?_, I.len, ?_, I.ctrle, ?_, ?_, ?_⟩
      · have := wsum_set busy s.ws w .idle .load hw
        have := I.count
        simp [busy] at *; omega
      · have := I.wlen; simp; omega
      · intro h; simp [hr] at h
      · simp [I.wlen]
      · intro h
        apply I.fin
        rcases h with h | ⟨w', h⟩
        · left; exact h
        · right
          rcases get_set_inv _ _ _ _ _ h with ⟨_, e⟩ | ⟨_, e⟩
          · cases e
          · exact ⟨w', e⟩
      · intro w' i v h
        rcases get_set_inv _ _ _ _ _ h with ⟨_, e⟩ | ⟨_, e⟩
        · cases e
        · exact I.wr w' i v e
      · intro i hi hc
        rcases I.slot i hi hc with ⟨w', v, h⟩ | h
        · left; exact ⟨w', v, get_set_keep _ _ _ _ _ _ hw (by simp) h⟩
        · right; exact h
    · cases h
  | load w =>
    simp only [step] at h
    split at h
    · rename_i hw
      cases h
      by_cases hc : s.ctr > 0
      · simp only [if_pos hc]
        exact inv_local W n s I w .load .eval hw (by simp) (by simp) (by simp) rfl
      · simp only [if_neg hc]
        refine ⟨?_, I.le, I.ret, I.len, ?_, I.ctrle, ?_, ?_, ?_⟩
        · have := wsum_set busy s.ws w .load .done hw
          have := I.count
          simp [busy] at *; omega
        · simp [I.wlen]
        · intro _; simp only []; omega
        · intro w' i v h
          rcases get_set_inv _ _ _ _ _ h with ⟨_, e⟩ | ⟨_, e⟩
          · cases e
          · exact I.wr w' i v e
        · intro i hi hc
          rcases I.slot i hi hc with ⟨w', v, h⟩ | h
          · left; exact ⟨w', v, get_set_keep _ _ _ _ _ _ hw (by simp) h⟩
          · right; exact h
    · cases h
  | eval w r =>
    simp only [step] at h
    split at h
    · rename_i hw
      cases h
      cases r with
      | none => exact inv_local W n s I w .eval .load hw (by simp) (by simp) (by simp) rfl
      | some v => exact inv_local W n s I w .eval (.dec v) hw (by simp) (by simp) (by simp) rfl
    · cases h
  | dec w =>
    simp only [step] at h
    split at h
    · rename_i v hw
      cases h
      have hcl := I.ctrle
      refine ⟨?_, I.le, I.ret, I.len, ?_, ?_, ?_, ?_, ?_⟩
      · have := wsum_set busy s.ws w (.dec v) (.write (s.ctr - 1) v) hw
        have := I.count
        simp [busy] at *; omega
      · simp [I.wlen]
      · simp only []; omega
      · intro h
        have : s.ctr ≤ 0 := by
          apply I.fin
          rcases h with h | ⟨w', h⟩
          · left; exact h
          · right
            rcases get_set_inv _ _ _ _ _ h with ⟨_, e⟩ | ⟨_, e⟩
            · cases e
            · exact ⟨w', e⟩
        simp only []; omega
      · intro w' i v' h
        rcases get_set_inv _ _ _ _ _ h with ⟨_, e⟩ | ⟨_, e⟩
        · cases e; simp only []; omega
        · have := I.wr w' i v' e; simp only []; omega
      · intro i hi hc
        simp only [] at hc
        by_cases e : s.ctr ≤ (i : Int)
        · rcases I.slot i hi e with ⟨w', v', h⟩ | h
          · left; exact ⟨w', v', get_set_keep _ _ _ _ _ _ hw (by simp) h⟩
          · right; exact h
        · left
          have : (i : Int) = s.ctr - 1 := by omega
          exact ⟨w, v, by rw [this]; exact get_set_self _ _ _ _ hw⟩
    · cases h
  | write w =>
    simp only [step] at h
    split at h
    · rename_i i v hw
      cases h
      have hin := (I.wr w i v hw).1
      refine ⟨?_, I.le, I.ret, ?_, ?_, I.ctrle, ?_, ?_, ?_⟩
      · have := wsum_set busy s.ws w (.write i v) .load hw
        have := I.count
        simp [busy] at *; omega
      · simp only []; split <;> simp [I.len]
      · simp [I.wlen]
      · intro h
        apply I.fin
        rcases h with h | ⟨w', h⟩
        · left; exact h
        · right
          rcases get_set_inv _ _ _ _ _ h with ⟨_, e⟩ | ⟨_, e⟩
          · cases e
          · exact ⟨w', e⟩
      · intro w' i' v' h
        rcases get_set_inv _ _ _ _ _ h with ⟨_, e⟩ | ⟨_, e⟩
        · cases e
        · exact I.wr w' i' v' e
      · intro j hj hc
        simp only [] at hc
        have hlen := I.len
        by_cases e : i = (j : Int)
        · right
          refine ⟨v, ?_⟩
          have h0 : 0 ≤ i := by omega
          have hj' : i.toNat = j := by omega
          simp only [if_pos h0, hj']
          have : j < s.res.length := by omega
          simp [this]
        · rcases I.slot j hj hc with ⟨w', v', h⟩ | ⟨v', h⟩
          · left
            refine ⟨w', v', get_set_keep _ _ _ _ _ _ hw ?_ h⟩
            intro e'; cases e'; exact e rfl
          · right
            refine ⟨v', ?_⟩
            simp only []
            split
            · rw [List.getElem?_set_ne (by omega)]; exact h
            · exact h
    · cases h
  | notify w =>
    simp only [step] at h
    split at h
    · rename_i hc
      obtain ⟨hr, hw, _⟩ := hc
      cases h
      have hfin : s.ctr ≤ 0 := I.fin (Or.inr ⟨w, hw⟩)
      refine ⟨?_, I.le, ?_, I.len, ?_, I.ctrle, ?_, ?_, ?_⟩
      · have := wsum_set busy s.ws w .done .idle hw
        have := I.count
        simp [busy] at *; omega
      · intro h; simp [hr] at h
      · simp [I.wlen]
      · intro _; exact hfin
      · intro w' i v h
        rcases get_set_inv _ _ _ _ _ h with ⟨_, e⟩ | ⟨_, e⟩
        · cases e
        · exact I.wr w' i v e
      · intro i hi hc
        rcases I.slot i hi hc with ⟨w', v, h⟩ | h
        · left; exact ⟨w', v, get_set_keep _ _ _ _ _ _ hw (by simp) h⟩
        · right; exact h
    · cases h
  | ret =>
    simp only [step] at h
    split at h
    · rename_i hc
      obtain ⟨hr, h1, h2⟩ := hc
      cases h
      have hcnt := I.count
      have hle := I.le
      have hwl := I.wlen
      refine ⟨I.count, I.le, ?_, I.len, I.wlen, I.ctrle, I.fin, I.wr, I.slot⟩
      intro _
      simp only [] at *
      omega
    · cases h


theorem inv_run (W n : Nat) (ls : List Label) (s : State)
    (h : run step (init (List.replicate W .idle) n) ls = some s) : Inv W n s :=
  run_inv step (Inv W n) (fun s l s' => inv_step W n s l s') ls _ s (inv_init W n) h

theorem idle_of_ret (W n : Nat) (s : State) (I : Inv W n s) (hr : s.ret = true) :
    s.ws = List.replicate W .idle := by
  obtain ⟨h1, h2⟩ := I.ret hr
  have hc := I.count
  have h0 : wsum busy s.ws = 0 := by omega
  have hall : ∀ (w : Nat) (b : Search.W), s.ws[w]? = some b → b = .idle := by
    intro w b hb
    have := wsum_le_of_get busy s.ws w b hb
    cases b <;> first | rfl | (simp [busy] at this; omega)
  have := eq_replicate_of_get Search.W.idle s.ws hall
  rw [I.wlen] at this; exact this

theorem results_of_ret (W n : Nat) (hW : 0 < W) (s : State) (I : Inv W n s) (hr : s.ret = true) :
    s.res.length = n ∧ ∀ i, i < n → ∃ v, s.res[i]? = some (some v) := by
  refine ⟨I.len, ?_⟩
  intro i hi
  have hidle := idle_of_ret W n s I hr
  obtain ⟨_, h2⟩ := I.ret hr
  have hctr : s.ctr ≤ 0 := I.fin (Or.inl (by omega))
  rcases I.slot i hi (by omega) with ⟨w, v, hw⟩ | h
  · rw [hidle] at hw; have := get_replicate _ _ _ _ hw; cases this
  · exact h

theorem enabled_of_not_ret (W n : Nat) (hW : 0 < W) (s : State) (I : Inv W n s)
    (hr : s.ret = false) : ∃ l s', step s l = some s' := by
  by_cases hb : ∃ (w : Nat) (a : Search.W), s.ws[w]? = some a ∧ a ≠ .idle ∧ a ≠ .done
  · obtain ⟨w, a, hw, h1, h2⟩ := hb
    cases a with
    | idle => exact absurd rfl h1
    | done => exact absurd rfl h2
    | load => exact ⟨.load w, _, by simp only [step]; rw [if_pos hw]⟩
    | eval => exact ⟨.eval w none, _, by simp only [step]; rw [if_pos hw]⟩
    | dec v => exact ⟨.dec w, { s with ctr := s.ctr - 1, ws := s.ws.set w (.write (s.ctr - 1) v) }, by simp only [step, hw]⟩
    | write i v =>
      exact ⟨.write w, { s with res := if 0 ≤ i then s.res.set i.toNat (some v) else s.res, ws := s.ws.set w .load },
        by simp only [step, hw]⟩
  by_cases hn : ∃ w : Nat, s.ws[w]? = some .done
  · obtain ⟨w, hw⟩ := hn
    have h1 := wsum_le_of_get busy s.ws w _ hw
    have h2 := I.count
    have h3 := I.le
    have h4 := I.wlen
    simp [busy] at h1
    have : s.cmdI < s.ws.length ∨ s.recvd < s.ws.length := by omega
    exact ⟨.notify w, _, by simp only [step]; rw [if_pos ⟨hr, hw, this⟩]⟩
  have hall : ∀ (w : Nat) (b : Search.W), s.ws[w]? = some b → b = .idle := by
    intro w b hb'
    by_cases e : b = .idle
    · exact e
    · by_cases e' : b = .done
      · subst e'; exact absurd ⟨w, hb'⟩ hn
      · exact absurd ⟨w, b, hb', e, e'⟩ hb
  have h0 : wsum busy s.ws = 0 := wsum_eq_zero busy s.ws (fun w a h => by rw [hall w a h]; rfl)
  have hc := I.count
  have hwl := I.wlen
  by_cases hlt : s.cmdI < s.ws.length
  · have hw0 : s.ws[0]? = some .idle := by
      have hl : 0 < s.ws.length := by omega
      have : s.ws[0]? = some s.ws[0] := List.getElem?_eq_getElem hl
      rw [this, hall 0 _ this]
    exact ⟨.cmd 0, _, by simp only [step]; rw [if_pos ⟨hr, hlt, hw0⟩]⟩
  · have : ¬ s.recvd < s.ws.length := by have := I.le; omega
    exact ⟨.ret, _, by simp only [step]; rw [if_pos ⟨hr, hlt, this⟩]⟩

theorem pot_mono (c c' : Int) (h : c' ≤ c) (a : Search.W) : pot c' a ≤ pot c a := by
  cases a <;> simp [pot]
  split <;> split <;> omega

/-- credit of a label: an oracle answer `nil` may raise the potential -/
def credit : Label → Nat
  | .eval _ none => 2
  | _ => 0

/-- every step lowers the potential by at least one, up to the credit of a nil answer -/
theorem rank_step (W n : Nat) (s : State) (I : Inv W n s) (l : Label) (s' : State) (h : step s l = some s') :
    rank s' + 1 ≤ rank s + credit l := by
  cases l with
  | cmd w =>
    simp only [step] at h
    split at h
    · rename_i hc
      obtain ⟨hr, hlt, hw⟩ := hc
      cases h
      have := wsum_set (pot s.ctr) s.ws w .idle .load hw
      simp only [rank, credit, List.length_set]
      simp only [pot] at this
      split at this <;> omega
    · cases h
  | load w =>
    simp only [step] at h
    split at h
    · rename_i hw
      cases h
      by_cases hc : s.ctr > 0
      · have := wsum_set (pot s.ctr) s.ws w .load .eval hw
        simp only [rank, credit, List.length_set, if_pos hc]
        simp only [pot, if_pos hc] at this
        omega
      · have := wsum_set (pot s.ctr) s.ws w .load .done hw
        simp only [rank, credit, List.length_set, if_neg hc]
        simp only [pot, if_neg hc] at this
        omega
    · cases h
  | eval w r =>
    simp only [step] at h
    split at h
    · rename_i hw
      cases h
      cases r with
      | none =>
        have := wsum_set (pot s.ctr) s.ws w .eval .load hw
        simp only [rank, credit, List.length_set]
        simp only [pot] at this
        split at this <;> omega
      | some v =>
        have := wsum_set (pot s.ctr) s.ws w .eval (.dec v) hw
        simp only [rank, credit, List.length_set]
        simp only [pot] at this
        omega
    · cases h
  | dec w =>
    simp only [step] at h
    split at h
    · rename_i v hw
      cases h
      have h1 := wsum_set (pot (s.ctr - 1)) s.ws w (.dec v) (.write (s.ctr - 1) v) hw
      have h2 := wsum_mono (pot s.ctr) (pot (s.ctr - 1)) (pot_mono s.ctr (s.ctr - 1) (by omega)) s.ws
      simp only [rank, credit, List.length_set]
      simp only [pot] at h1
      split at h1 <;> omega
    · cases h
  | write w =>
    simp only [step] at h
    split at h
    · rename_i i v hw
      cases h
      have := wsum_set (pot s.ctr) s.ws w (.write i v) .load hw
      have hci := (I.wr w i v hw).2
      simp only [rank, credit, List.length_set]
      simp only [pot] at this
      split at this <;> split at this <;> omega
    · cases h
  | notify w =>
    simp only [step] at h
    split at h
    · rename_i hc
      obtain ⟨hr, hw, _⟩ := hc
      cases h
      have := wsum_set (pot s.ctr) s.ws w .done .idle hw
      simp only [rank, credit, List.length_set]
      simp only [pot] at this
      omega
    · cases h
  | ret =>
    simp only [step] at h
    split at h
    · rename_i hc
      obtain ⟨hr, _, _⟩ := hc
      cases h
      simp [rank, credit, hr]; omega
    · cases h

theorem nils_cons (l : Label) (ls : List Label) : 2 * nils (l :: ls) = credit l + 2 * nils ls := by
  cases l with
  | eval w r => cases r <;> simp [nils, credit]; omega
  | _ => simp [nils, credit]

theorem rank_run (W n : Nat) : ∀ (ls : List Label) (s s' : State), Inv W n s →
    run step s ls = some s' → rank s' + ls.length ≤ rank s + 2 * nils ls := by
  intro ls
  induction ls with
  | nil => intro s s' _ h; simp [run] at h; subst h; simp [nils]
  | cons l ls ih =>
    intro s s' I h
    simp only [run] at h
    cases hs : step s l with
    | none => simp [hs] at h
    | some s1 =>
      simp only [hs] at h
      have := ih s1 s' (inv_step W n s l s1 I hs) h
      have := rank_step W n s I l s1 hs
      have := nils_cons l ls
      simp only [List.length_cons]; omega

theorem rank_init (W n : Nat) : rank (init (List.replicate W .idle) n) = 7 * W + 4 * n + 1 := by
  have : wsum (pot (n : Int)) (List.replicate W Search.W.idle) = 0 :=
    wsum_eq_zero _ _ (fun w a h => by rw [get_replicate _ _ _ _ h]; rfl)
  simp [rank, init, this]; omega


/-! provenance: every value in the result slice is an answer of the oracle -/

/-- all non-nil oracle answers in a schedule satisfy `P` -/
def answersOk (P : Val → Prop) : List Label → Prop
  | [] => True
  | .eval _ (some v) :: ls => P v ∧ answersOk P ls
  | _ :: ls => answersOk P ls

def labelOk (P : Val → Prop) : Label → Prop
  | .eval _ (some v) => P v
  | _ => True

theorem answersOk_cons (P : Val → Prop) (l : Label) (ls : List Label) :
    answersOk P (l :: ls) ↔ labelOk P l ∧ answersOk P ls := by
  cases l with
  | eval w r => cases r <;> simp [answersOk, labelOk]
  | _ => simp [answersOk, labelOk]

structure Prov (P : Val → Prop) (s : State) : Prop where
  dec : ∀ (w : Nat) (v : Val), s.ws[w]? = some (.dec v) → P v
  wr : ∀ (w : Nat) (i : Int) (v : Val), s.ws[w]? = some (.write i v) → P v
  res : ∀ (i : Nat) (v : Val), s.res[i]? = some (some v) → P v

theorem prov_init (P : Val → Prop) (W n : Nat) : Prov P (init (List.replicate W .idle) n) := by
  refine ⟨?_, ?_, ?_⟩
  · intro w v h; have := get_replicate _ _ _ _ h; cases this
  · intro w i v h; have := get_replicate _ _ _ _ h; cases this
  · intro i v h
    simp only [init] at h
    have := get_replicate _ _ _ _ h; cases this

/-- a step of worker `w` to a state that is neither `dec` nor `write` keeps the provenance -/
theorem prov_local (P : Val → Prop) (s : State) (I : Prov P s) (w : Nat) (b : Search.W)
    (hb : ∀ v, b ≠ .dec v) (hb' : ∀ i v, b ≠ .write i v) : Prov P { s with ws := s.ws.set w b } := by
  refine ⟨?_, ?_, I.res⟩
  · intro w' v h
    rcases get_set_inv _ _ _ _ _ h with ⟨_, e⟩ | ⟨_, e⟩
    · exact absurd e.symm (hb v)
    · exact I.dec w' v e
  · intro w' i v h
    rcases get_set_inv _ _ _ _ _ h with ⟨_, e⟩ | ⟨_, e⟩
    · exact absurd e.symm (hb' i v)
    · exact I.wr w' i v e

theorem prov_step (P : Val → Prop) (s : State) (l : Label) (s' : State) (I : Prov P s) (hl : labelOk P l)
    (h : step s l = some s') : Prov P s' := by
  cases l with
  | cmd w =>
    simp only [step] at h
    split at h
    · cases h
      have := prov_local P s I w .load (by simp) (by simp)
      exact ⟨this.dec, this.wr, this.res⟩
    · cases h
  | load w =>
    simp only [step] at h
    split at h
    · cases h
      by_cases hc : s.ctr > 0
      · simp only [if_pos hc]; exact prov_local P s I w .eval (by simp) (by simp)
      · simp only [if_neg hc]; exact prov_local P s I w .done (by simp) (by simp)
    · cases h
  | eval w r =>
    simp only [step] at h
    split at h
    · cases h
      cases r with
      | none => exact prov_local P s I w .load (by simp) (by simp)
      | some v =>
        refine ⟨?_, ?_, I.res⟩
        · intro w' v' h
          rcases get_set_inv _ _ _ _ _ h with ⟨_, e⟩ | ⟨_, e⟩
          · cases e; exact hl
          · exact I.dec w' v' e
        · intro w' i v' h
          rcases get_set_inv _ _ _ _ _ h with ⟨_, e⟩ | ⟨_, e⟩
          · cases e
          · exact I.wr w' i v' e
    · cases h
  | dec w =>
    simp only [step] at h
    split at h
    · rename_i v hw
      cases h
      refine ⟨?_, ?_, I.res⟩
      · intro w' v' h
        rcases get_set_inv _ _ _ _ _ h with ⟨_, e⟩ | ⟨_, e⟩
        · cases e
        · exact I.dec w' v' e
      · intro w' i v' h
        rcases get_set_inv _ _ _ _ _ h with ⟨_, e⟩ | ⟨_, e⟩
        · cases e; exact I.dec w v hw
        · exact I.wr w' i v' e
    · cases h
  | write w =>
    simp only [step] at h
    split at h
    · rename_i i v hw
      cases h
      have hv := I.wr w i v hw
      refine ⟨?_, ?_, ?_⟩
      · intro w' v' h
        rcases get_set_inv _ _ _ _ _ h with ⟨_, e⟩ | ⟨_, e⟩
        · cases e
        · exact I.dec w' v' e
      · intro w' i' v' h
        rcases get_set_inv _ _ _ _ _ h with ⟨_, e⟩ | ⟨_, e⟩
        · cases e
        · exact I.wr w' i' v' e
      · intro j v' h
        simp only [] at h
        split at h
        · rcases get_set_inv _ _ _ _ _ h with ⟨_, e⟩ | ⟨_, e⟩
          · cases e; exact hv
          · exact I.res j v' e
        · exact I.res j v' h
    · cases h
  | notify w =>
    simp only [step] at h
    split at h
    · cases h
      have := prov_local P s I w .idle (by simp) (by simp)
      exact ⟨this.dec, this.wr, this.res⟩
    · cases h
  | ret =>
    simp only [step] at h
    split at h
    · cases h; exact ⟨I.dec, I.wr, I.res⟩
    · cases h

theorem prov_run (P : Val → Prop) : ∀ (ls : List Label) (s s' : State), Prov P s → answersOk P ls →
    run step s ls = some s' → Prov P s' := by
  intro ls
  induction ls with
  | nil => intro s s' I _ h; simp [run] at h; subst h; exact I
  | cons l ls ih =>
    intro s s' I ha h
    rw [answersOk_cons] at ha
    simp only [run] at h
    cases hs : step s l with
    | none => simp [hs] at h
    | some s1 =>
      simp only [hs] at h
      exact ih s1 s' (prov_step P s l s1 I ha.1 hs) ha.2 h

end Fixed.Search

end Mps.Pool
