import MpsProofs.System
import Mps.Byz
/-
  A session with one deviating participant (C06 / C04 at system level). Core-only.

  Part 1 (namespace Mps.Handler): a context-rich variant of `Preserved`: the invariants of ONE honest handler in an
          ARBITRARY environment (any sequence of `Accept` calls with any messages) that need to know in which
          situation an elementary transition happens (`PresC`), with the induction through `finalize` / `Accept`.
  Part 2: the invariants themselves (position, shape of the emitted messages, history of the rounds passed, accusation
          witnesses, provenance of the queue entries).
  Part 3 (namespace Mps.System): Byzantine schedules; what is delivered under an honest name was emitted.
-/
namespace Mps.Handler
open Mps

/-! ## Part 1: invariants with context -/

/-- the situation in which the protocol's `Finalize` of the current round is called: everything was received and
    the echo check passed -/
structure Leaving (H : Bytes → Bytes) (s : State) : Prop where
  recv : receivedAllB H s = true
  check : checkBroadcastHash (fillBh H s) = true

/-- `m` sits in the queue slot of the current round it belongs to -/
def InQueue (s : State) (m : Msg) : Prop :=
  (m.bcast = true → lookup s.bc s.cur m.frm = some m) ∧ (m.bcast = false → lookup s.msgs s.cur m.frm = some m)

/-- the error kinds that `Accept` raises outside the protocol's `Finalize` -/
def plainErr : ErrKind → Prop
  | .msgFail _ => True
  | .peerAbort _ => True
  | .echoMismatch => True
  | _ => False

/-- A predicate `P` that survives every transition a handler of script `sc` makes inside `Accept`, each transition
    taken in its context; `B` is a background invariant that may be assumed wherever `P` is. -/
structure PresC (H : Bytes → Bytes) (sc : Script) (B P : State → Prop) : Prop where
  onFill : ∀ s, Reach H sc s → Live s → B s → P s → P (fillBh H s)
  onErr : ∀ s k, Reach H sc s → Live s → plainErr k → B s → P s → P (abort s (some k))
  onFinErr : ∀ s, Reach H sc s → Live s → Leaving H s → protoFinalize (fillBh H s) = .error →
    B (fillBh H s) → P (fillBh H s) → P (abort (fillBh H s) (some .finalizeErr))
  onProtoAbort : ∀ s cs, Reach H sc s → Live s → Leaving H s → protoFinalize (fillBh H s) = .abortRound cs →
    B (fillBh H s) → P (fillBh H s) → P (abort (enter0 (fillBh H s)) (some (.protoAbort cs)))
  onOutput : ∀ s v, Reach H sc s → Live s → Leaving H s → protoFinalize (fillBh H s) = .output v →
    B (fillBh H s) → P (fillBh H s) → P (abort { enter0 (fillBh H s) with result := some v } none)
  onSend : ∀ s i nx, Reach H sc s → Live s → Leaving H s → protoFinalize (fillBh H s) = .round i nx →
    B (fillBh H s) → P (fillBh H s) → P (sendAll (fillBh H s) (emitFor (fillBh H s) nx))
  onEnter : ∀ s i nx, Reach H sc s → Live s → Leaving H s → protoFinalize (fillBh H s) = .round i nx →
    B (sendAll (fillBh H s) (emitFor (fillBh H s) nx)) → P (sendAll (fillBh H s) (emitFor (fillBh H s) nx)) →
    P (enter (sendAll (fillBh H s) (emitFor (fillBh H s) nx)) i nx)
  onReplay : ∀ s s5 f, Reach H sc s → Live s → replayQueued s = (s5, f) → B s → P s → P s5
  onVerify : ∀ s s' m, Reach H sc s → Live s → InQueue s m →
    (if m.bcast then verifyBroadcastMessage s m else verifyMessage s m) = .ok s' → B s → P s → P s'

def TT : State → Prop := fun _ => True

section
variable {H : Bytes → Bytes} {sc : Script} {B P : State → Prop}

theorem PresC.and (hb : PresC H sc TT B) (hp : PresC H sc B P) : PresC H sc TT (fun s => B s ∧ P s) where
  onFill := fun s r l _ o => ⟨hb.onFill s r l trivial o.1, hp.onFill s r l o.1 o.2⟩
  onErr := fun s k r l hk _ o => ⟨hb.onErr s k r l hk trivial o.1, hp.onErr s k r l hk o.1 o.2⟩
  onFinErr := fun s r l lv h _ o => ⟨hb.onFinErr s r l lv h trivial o.1, hp.onFinErr s r l lv h o.1 o.2⟩
  onProtoAbort := fun s cs r l lv h _ o => ⟨hb.onProtoAbort s cs r l lv h trivial o.1, hp.onProtoAbort s cs r l lv h o.1 o.2⟩
  onOutput := fun s v r l lv h _ o => ⟨hb.onOutput s v r l lv h trivial o.1, hp.onOutput s v r l lv h o.1 o.2⟩
  onSend := fun s i nx r l lv h _ o => ⟨hb.onSend s i nx r l lv h trivial o.1, hp.onSend s i nx r l lv h o.1 o.2⟩
  onEnter := fun s i nx r l lv h _ o => ⟨hb.onEnter s i nx r l lv h trivial o.1, hp.onEnter s i nx r l lv h o.1 o.2⟩
  onReplay := fun s s5 f r l h _ o => ⟨hb.onReplay s s5 f r l h trivial o.1, hp.onReplay s s5 f r l h o.1 o.2⟩
  onVerify := fun s s' m r l q h _ o => ⟨hb.onVerify s s' m r l q h trivial o.1, hp.onVerify s s' m r l q h o.1 o.2⟩

theorem SameCore.symm' {a b : State} (h : SameCore a b) : SameCore b a := by
  obtain ⟨a1, a2, a3, a4, a5, a6, a7, a8, a9, a10, a11⟩ := h
  exact ⟨a1.symm, a2.symm, a3.symm, a4.symm, a5.symm, a6.symm, a7.symm, a8.symm, a9.symm, a10.symm, a11.symm⟩

theorem replay_core {s s5 : State} {f : Option Fail} (h : replayQueued s = (s5, f)) : SameCore s s5 := by
  have := replayQueued_sameCore s
  rw [h] at this
  exact this

theorem verify_core {s s' : State} {m : Msg}
    (h : (if m.bcast then verifyBroadcastMessage s m else verifyMessage s m) = .ok s') : SameCore s s' := by
  split at h
  · exact verifyBroadcastMessage_sameCore _ _ _ h
  · exact verifyMessage_sameCore _ _ _ h

theorem plainErr_errOf (f : Fail) : plainErr (errOf f) := by
  cases f <;> exact trivial

theorem finalizeStep_presC (hp : PresC H sc TT P) (s : State) (r : Reach H sc s) (l : Live s) (o : P s) :
    P (finalizeStep H s).st := by
  have r1 : Reach H sc (fillBh H s) := Reach.fill r
  have l1 : Live (fillBh H s) := l.of_sameLife (fillBh_sameLife H s)
  have o1 : P (fillBh H s) := hp.onFill s r l trivial o
  unfold finalizeStep
  simp only
  split
  · (simp only [Step.st]; exact o1)
  · next hrv =>
    have hrv' : receivedAllB H s = true := by simpa using hrv
    split
    · (simp only [Step.st]; exact hp.onErr _ _ r1 l1 trivial trivial o1)
    · next hck =>
      have lv : Leaving H s := ⟨hrv', by simpa using hck⟩
      split
      · next hpf => (simp only [Step.st]; exact hp.onFinErr s r l lv hpf trivial o1)
      · next cs hpf =>
        split
        · (simp only [Step.st]; exact o1)
        · (simp only [Step.st]; exact hp.onProtoAbort s cs r l lv hpf trivial o1)
      · next v hpf =>
        split
        · (simp only [Step.st]; exact o1)
        · (simp only [Step.st]; exact hp.onOutput s v r l lv hpf trivial o1)
      · next i nx hpf =>
        have o3 := hp.onSend s i nx r l lv hpf trivial o1
        have hr := protoFinalize_round _ i nx hpf
        have hsc : (sendAll (fillBh H s) (emitFor (fillBh H s) nx)).sc = (fillBh H s).sc :=
          (sendAll_frame _ _).2.2.2.1
        have hidx : (sendAll (fillBh H s) (emitFor (fillBh H s) nx)).idx = (fillBh H s).idx := sendAll_idx _ _
        have l3 := sendAll_live (fillBh H s) (emitFor (fillBh H s) nx) l1
        split
        · (simp only [Step.st]; exact o3)
        · have o4 := hp.onEnter s i nx r l lv hpf trivial o3
          have r4 : Reach H sc (enter (sendAll (fillBh H s) (emitFor (fillBh H s) nx)) i nx) :=
            Reach.enter i nx (hsc ▸ hr.1) (hidx ▸ hr.2) (Reach.send nx r1)
          have l4 := l3.of_sameLife (enter_sameLife _ i nx)
          split
          · next s5 fl hq =>
            have o5 := hp.onReplay _ s5 (some fl) r4 l4 hq trivial o4
            have c5 := replay_core hq
            simp only [Step.st]
            exact hp.onErr s5 _ (Reach.core r4 c5) (l4.of_sameLife c5.toSameLife) (plainErr_errOf fl) trivial o5
          · next s5 hq =>
            simp only [Step.st]
            exact hp.onReplay _ s5 none r4 l4 hq trivial o4

theorem finalize_presC (hp : PresC H sc TT P) (fuel : Nat) (s : State) (r : Reach H sc s) (l : Live s) (o : P s) :
    P (finalize H fuel s) := by
  induction fuel generalizing s with
  | zero => exact o
  | succ fuel ih =>
    unfold finalize
    have h1 := finalizeStep_presC hp s r l o
    have h2 := finalizeStep_pres (reach_preserved H sc) s r
    have h3 := finalizeStep_good H s l
    split
    · next s' h => rw [h] at h1; exact h1
    · next s' h => rw [h] at h1 h2 h3; exact ih s' h2 h3 h1

/-- the situation in which `Accept` stores a message -/
structure Storing (s : State) (m : Msg) : Prop where
  can : canAccept s m = true
  live : Live s
  fresh : duplicate s m = false
  rnd : m.rnd ≠ 0

theorem accept_presC (hp : PresC H sc TT P) (s : State) (m : Msg) (r : Reach H sc s) (g : Good s) (o : P s)
    (hst : Storing s m → P (store s m)) : P (accept H s m) := by
  unfold accept
  split
  · exact o
  · next hc =>
    simp only [Bool.or_eq_true, not_or, Bool.not_eq_true, Bool.not_eq_eq_eq_not, Bool.not_true] at hc
    have hl : Live s := by
      rcases g with l | d
      · exact l
      · rw [terminal_of_done d] at hc; exact absurd hc.1.2 (by simp)
    split
    · exact hp.onErr _ _ r hl trivial trivial o
    · next h0 =>
      have h0' : (m.rnd == 0) = false := by simpa using h0
      have st : Storing s m := ⟨by simpa using hc.1.1, hl, hc.2, by simpa using h0⟩
      have o1 := hst st
      have r1 : Reach H sc (store s m) := Reach.store m r
      have l1 := hl.of_sameLife (store_sameLife s m)
      have sl := store_lookup s m hc.2 h0'
      unfold acceptStored
      split
      · exact o1
      · next hcur =>
        have hcur' : (store s m).cur = m.rnd := by simpa using hcur
        split
        · exact hp.onErr _ _ r1 l1 trivial trivial o1
        · exact hp.onErr _ _ r1 l1 trivial trivial o1
        · next s2 hv =>
          have iq : InQueue (store s m) m := by
            rw [InQueue, hcur']; exact sl
          have o2 := hp.onVerify (store s m) s2 m r1 l1 iq hv trivial o1
          have c2 := verify_core hv
          exact finalize_presC hp _ s2 (Reach.core r1 c2) (l1.of_sameLife c2.toSameLife) o2

/-- an invariant that survives storing the acceptable messages among `L` holds after every sequence of `Accept`
    calls with messages of `L` -/
theorem run_presC (hp : PresC H sc TT P) (h0 : P (state0 sc)) (L : List Msg)
    (hst : ∀ s m, m ∈ L → Reach H sc s → Storing s m → P s → P (store s m)) (l : List Msg) (hl : ∀ m ∈ l, m ∈ L) :
    P (run H sc (l.map Call.accept)) := by
  have hi : Reach H sc (init H sc) ∧ Good (init H sc) ∧ P (init H sc) := by
    refine ⟨init_reach H sc, init_good H sc, ?_⟩
    unfold init
    exact finalize_presC hp _ _ Reach.start ⟨rfl, rfl, rfl⟩ h0
  unfold run
  generalize init H sc = s at hi
  induction l generalizing s with
  | nil => exact hi.2.2
  | cons m l ih =>
    obtain ⟨r, g, o⟩ := hi
    apply ih (fun x hx => hl x (by simp [hx]))
    exact ⟨accept_pres (reach_preserved H sc) _ _ r, accept_good H _ _ g,
      accept_presC hp _ m r g o (fun st => hst _ m (hl m (by simp)) r st o)⟩

end

/-! ## Part 2: the invariants of an honest handler in an arbitrary environment -/

section
open Mps.System
variable {H : Bytes → Bytes} {sc : Script}

theorem reach_idxOk (s : State) (r : Reach H sc s) : IdxOk s := by
  apply reach_pres (idxOk_preserved H) sc _ s r
  unfold IdxOk state0
  simp only
  cases hr : sc.rounds with
  | nil => left; rfl
  | cons a t => right; exact ⟨a, by simp, by simp⟩

theorem reach_queueKeys (s : State) (r : Reach H sc s) : QueueKeys s :=
  reach_pres (queueKeys_preserved H) sc ⟨by simp [state0], by simp [state0]⟩ s r

theorem sendAll_cur (s : State) (ems : List Msg) : (sendAll s ems).cur = s.cur := by
  unfold sendAll
  simp only
  induction ems generalizing s with
  | nil => rfl
  | cons m ms ih =>
    rw [List.foldl_cons]
    split
    · rw [ih, (store_idx s m).2]
    · exact ih _

theorem num_lt_of_idx_lt (ok : ScriptOk sc) (i j : Nat) (a b : RoundSpec) (ha : sc.rounds[i]? = some a)
    (hb : sc.rounds[j]? = some b) (h : i < j) : a.num < b.num := by
  have hp := List.pairwise_iff_getElem.mp ok.incr
  obtain ⟨hi, ea⟩ := List.getElem?_eq_some_iff.mp ha
  obtain ⟨hj, eb⟩ := List.getElem?_eq_some_iff.mp hb
  have := hp i j hi hj h
  rw [ea, eb] at this
  exact this

/-- a running handler is in a round of the script -/
def CurPos (s : State) : Prop := Live s → s.cur ≠ 0

theorem curPos_presC (H : Bytes → Bytes) (sc : Script) (ok : SessionOk sc) : PresC H sc TT CurPos where
  onFill := fun s _ l _ o _ => by rw [fillBh_cur]; exact o l
  onErr := fun s k _ _ _ _ _ l' => by have := l'.1; simp [abort] at this
  onFinErr := fun s _ _ _ _ _ _ l' => by have := l'.1; simp [abort] at this
  onProtoAbort := fun s cs _ _ _ _ _ _ l' => by have := l'.1; simp [abort] at this
  onOutput := fun s v _ _ _ _ _ _ l' => by have := l'.1; simp [abort] at this
  onSend := fun s i nx _ l _ _ _ o _ => by
    rw [sendAll_cur]
    exact o (l.of_sameLife (fillBh_sameLife H s))
  onEnter := fun s i nx r _ _ hpf _ _ _ => by
    have hr := protoFinalize_round _ i nx hpf
    rw [reach_sc H sc _ (Reach.fill r)] at hr
    have := round_ge_two ok.script i nx (by omega) hr.1
    show nx.num ≠ 0
    omega
  onReplay := fun s s5 f _ l h _ o _ => by rw [← (replay_core h).2.2.1]; exact o l
  onVerify := fun s s' m _ l _ h _ o _ => by rw [← (verify_core h).2.2.1]; exact o l

/-- where a running handler stands in the script -/
theorem pos_of (s : State) (r : Reach H sc s) (l : Live s) (c : CurPos s) :
    ∃ spec, sc.rounds[s.idx]? = some spec ∧ spec.num = s.cur ∧ curSpec s = spec := by
  have hsc := reach_sc H sc s r
  rcases reach_idxOk s r with h | ⟨spec, h1, h2⟩
  · exact absurd h (c l)
  · rw [hsc] at h1
    refine ⟨spec, h1, h2, ?_⟩
    unfold curSpec
    rw [hsc]
    simp [List.getD, h1]

/-- the round entered next has a larger number -/
theorem next_of (ok : SessionOk sc) (s : State) (r : Reach H sc s) (l : Live s) (c : CurPos s) (i : Nat) (nx : RoundSpec)
    (h : protoFinalize (fillBh H s) = .round i nx) :
    i = s.idx + 1 ∧ sc.rounds[s.idx + 1]? = some nx ∧ s.cur < nx.num ∧ 2 ≤ nx.num ∧ hasSlot sc nx.num = true := by
  have hr := protoFinalize_round _ i nx h
  rw [reach_sc H sc _ (Reach.fill r), fillBh_idx] at hr
  obtain ⟨hr1, rfl⟩ := hr
  obtain ⟨spec, h1, h2, _⟩ := pos_of s r l c
  have := num_lt_of_idx_lt ok.script s.idx (s.idx + 1) spec nx h1 hr1 (by omega)
  exact ⟨rfl, hr1, by omega, round_ge_two ok.script _ nx (by omega) hr1, hasSlot_round ok _ nx (by omega) hr1⟩

/-- a result is produced in the last round of the script only -/
def Final (s : State) : Prop := s.result.isSome = true → s.sc.rounds[s.idx + 1]? = none

theorem final_presC (H : Bytes → Bytes) (sc : Script) : PresC H sc TT Final where
  onFill := fun s _ l _ _ h => by
    have := (l.of_sameLife (fillBh_sameLife H s)).2.2
    rw [this] at h; cases h
  onErr := fun s k _ l _ _ _ h => by
    have : (abort s (some k)).result = none := l.2.2
    rw [this] at h; cases h
  onFinErr := fun s _ l _ _ _ _ h => by
    have : (abort (fillBh H s) (some .finalizeErr)).result = none := (l.of_sameLife (fillBh_sameLife H s)).2.2
    rw [this] at h; cases h
  onProtoAbort := fun s cs _ l _ _ _ _ h => by
    have : (abort (enter0 (fillBh H s)) (some (.protoAbort cs))).result = none :=
      (l.of_sameLife (fillBh_sameLife H s)).2.2
    rw [this] at h; cases h
  onOutput := fun s v _ _ _ hpf _ _ _ => by
    show (fillBh H s).sc.rounds[(fillBh H s).idx + 1]? = none
    unfold protoFinalize at hpf
    split at hpf
    · cases hpf
    · split at hpf
      · cases hpf
      · split at hpf
        · cases hpf
        · next hn => exact hn
  onSend := fun s i nx _ l _ _ _ _ h => by
    have := (sendAll_live _ (emitFor (fillBh H s) nx) (l.of_sameLife (fillBh_sameLife H s))).2.2
    rw [this] at h; cases h
  onEnter := fun s i nx _ l _ _ _ _ h => by
    have : (enter (sendAll (fillBh H s) (emitFor (fillBh H s) nx)) i nx).result = none :=
      (sendAll_live _ (emitFor (fillBh H s) nx) (l.of_sameLife (fillBh_sameLife H s))).2.2
    rw [this] at h; cases h
  onReplay := fun s s5 f _ l hq _ _ h => by
    have := (l.of_sameLife (replay_core hq).toSameLife).2.2
    rw [this] at h; cases h
  onVerify := fun s s' m _ l _ hv _ _ h => by
    have := (l.of_sameLife (verify_core hv).toSameLife).2.2
    rw [this] at h; cases h

/-! ### shape of the emitted messages -/

/-- every emitted message is the abort notice (sent together with the error) or a scripted message of a round of
    the script after the first -/
def OutShape (s : State) : Prop :=
  ∀ m ∈ s.out, (m.rnd = 0 ∧ s.err.isSome = true ∧ m = noticeOf s.sc) ∨
    (∃ s' nx i, 1 ≤ i ∧ s.sc.rounds[i]? = some nx ∧ s'.sc = s.sc ∧ m ∈ emitFor s' nx)

theorem OutShape.of_sameLife {s s' : State} (h : SameLife s s') (o : OutShape s) : OutShape s' := by
  intro m hm
  rw [← h.2.2.2.2] at hm
  rw [← h.1, ← h.2.2.2.1]
  exact o m hm

theorem OutShape.abort {s : State} (k : ErrKind) (o : OutShape s) : OutShape (abort s (some k)) := by
  intro m hm
  simp only [Handler.abort, List.mem_append, List.mem_singleton] at hm
  rcases hm with hm | rfl
  · rcases o m hm with ⟨h1, _, h3⟩ | h
    · exact Or.inl ⟨h1, rfl, h3⟩
    · exact Or.inr h
  · exact Or.inl ⟨rfl, rfl, rfl⟩

theorem outShape_presC (H : Bytes → Bytes) (sc : Script) : PresC H sc TT OutShape where
  onFill := fun s _ _ _ o => o.of_sameLife (fillBh_sameLife H s)
  onErr := fun s k _ _ _ _ o => o.abort k
  onFinErr := fun s _ _ _ _ _ o => o.abort _
  onProtoAbort := fun s cs _ _ _ _ _ o => OutShape.abort (s := enter0 (fillBh H s)) _ o
  onOutput := fun s v _ _ _ _ _ o => o
  onSend := fun s i nx _ _ _ hpf _ o => by
    have hr := protoFinalize_round _ i nx hpf
    have f := sendAll_frame (fillBh H s) (emitFor (fillBh H s) nx)
    intro m hm
    rw [f.2.2.2.2] at hm
    rw [f.1, f.2.2.2.1]
    rcases List.mem_append.mp hm with hm | hm
    · exact o m hm
    · exact Or.inr ⟨fillBh H s, nx, i, by omega, hr.1, rfl, hm⟩
  onEnter := fun s i nx _ _ _ _ _ o => o
  onReplay := fun s s5 f _ _ h _ o => o.of_sameLife (replay_core h).toSameLife
  onVerify := fun s s' m _ _ _ h _ o => o.of_sameLife (verify_core h).toSameLife

/-- a message for the round after a broadcast round carries an echo stamp -/
def BvSome (s : State) : Prop :=
  ∀ m ∈ s.out, ∀ j sp, 1 ≤ j → s.sc.rounds[j]? = some sp → sp.recvB = true → m.rnd = sp.num + 1 → m.bv.isSome = true

theorem BvSome.of_sameLife {s s' : State} (h : SameLife s s') (o : BvSome s) : BvSome s' := by
  intro m hm
  rw [← h.2.2.2.2] at hm
  rw [← h.2.2.2.1]
  exact o m hm

theorem BvSome.abort {s : State} (k : ErrKind) (o : BvSome s) : BvSome (abort s (some k)) := by
  intro m hm j sp hj hsp hB hr
  simp only [Handler.abort, List.mem_append, List.mem_singleton] at hm
  rcases hm with hm | rfl
  · exact o m hm j sp hj hsp hB hr
  · simp at hr

theorem emitFor_fields (s : State) (nx : RoundSpec) (m : Msg) (hm : m ∈ emitFor s nx) :
    m.rnd = nx.num ∧ m.bv = bhLookup s.bh (nx.num - 1) ∧ m.frm = s.sc.self ∧ (∃ c, m.dec = some c ∧ c.f = 0) ∧
    (m.bcast = true → nx.recvB = true) ∧ (m.bcast = false → nx.recvP = true) := by
  rw [emitFor_eq] at hm
  rcases (mem_emitW _ _ _ _).mp hm with ⟨hb, rfl⟩ | ⟨hp, id, _, rfl⟩
  · exact ⟨rfl, rfl, rfl, ⟨_, rfl, rfl⟩, fun _ => hb, fun h => by simp [mkMsg] at h⟩
  · exact ⟨rfl, rfl, rfl, ⟨_, rfl, rfl⟩, fun h => by simp [mkMsg] at h, fun _ => hp⟩

theorem bvSome_presC (H : Bytes → Bytes) (sc : Script) (ok : SessionOk sc) : PresC H sc CurPos BvSome where
  onFill := fun s _ _ _ o => o.of_sameLife (fillBh_sameLife H s)
  onErr := fun s k _ _ _ _ o => o.abort k
  onFinErr := fun s _ _ _ _ _ o => o.abort _
  onProtoAbort := fun s cs _ _ _ _ _ o => BvSome.abort (s := enter0 (fillBh H s)) _ o
  onOutput := fun s v _ _ _ _ _ o => o
  onSend := fun s i nx r l lv hpf b o => by
    have c : CurPos s := fun l' => by have := b (l'.of_sameLife (fillBh_sameLife H s)); rwa [fillBh_cur] at this
    obtain ⟨_, hn, hlt, _, _⟩ := next_of ok s r l c i nx hpf
    obtain ⟨spec, h1, h2, h3⟩ := pos_of s r l c
    have hsc := reach_sc H sc s r
    have f := sendAll_frame (fillBh H s) (emitFor (fillBh H s) nx)
    intro m hm j sp hj hsp hB hr
    rw [f.2.2.2.2] at hm
    rw [f.2.2.2.1] at hsp
    rcases List.mem_append.mp hm with hm | hm
    · exact o m hm j sp hj hsp hB hr
    · obtain ⟨e1, e2, _⟩ := emitFor_fields _ _ _ hm
      rw [reach_sc H sc _ (Reach.fill r)] at hsp
      -- the round numbered nx.num - 1 is the current one
      have hj' : j = s.idx := by
        rcases Nat.lt_trichotomy j s.idx with g | g | g
        · have := num_lt_of_idx_lt ok.script j s.idx sp spec hsp h1 g
          omega
        · exact g
        · rcases Nat.lt_or_eq_of_le (Nat.succ_le_of_lt g) with g' | g'
          · have := num_lt_of_idx_lt ok.script (s.idx + 1) j nx sp hn hsp g'
            omega
          · rw [← g', hn] at hsp
            have : nx = sp := Option.some.inj hsp
            subst this
            omega
      subst hj'
      rw [h1] at hsp
      have : spec = sp := Option.some.inj hsp
      subst this
      have hc : ((curSpec s).recvB && hasSlot s.sc s.cur) = true := by
        rw [h3, hB, hsc, ← h2, hasSlot_round ok _ spec hj h1]; rfl
      have := fillBh_filled H s hc lv.recv
      have hk : nx.num - 1 = s.cur := by omega
      rw [e2, hk]
      exact this
  onEnter := fun s i nx _ _ _ _ _ o => o
  onReplay := fun s s5 f _ _ h _ o => o.of_sameLife (replay_core h).toSameLife
  onVerify := fun s s' m _ _ _ h _ o => o.of_sameLife (verify_core h).toSameLife

/-- a handler whose scripted `Finalize` never fails and that is never stopped does not blame itself -/
def NoSelfErr (s : State) : Prop := s.err ≠ some .finalizeErr ∧ s.err ≠ some .stopped

theorem noSelfErr_presC (H : Bytes → Bytes) (sc : Script) (ok : SessionOk sc) : PresC H sc TT NoSelfErr where
  onFill := fun s _ _ _ o => by
    unfold NoSelfErr; rw [← (fillBh_sameLife H s).1]; exact o
  onErr := fun s k _ _ hk _ _ => by
    cases k <;> first | exact absurd hk id | simp [NoSelfErr, abort]
  onFinErr := fun s r _ _ hpf _ _ => by
    exfalso
    unfold protoFinalize at hpf
    split at hpf
    · next hc =>
      rw [reach_sc H sc _ (Reach.fill r), ok.noFinErr] at hc
      simp at hc
    · split at hpf
      · cases hpf
      · split at hpf <;> cases hpf
  onProtoAbort := fun s cs _ _ _ _ _ _ => by simp [NoSelfErr, abort]
  onOutput := fun s v _ _ _ _ _ o => o
  onSend := fun s i nx _ _ _ _ _ o => by
    unfold NoSelfErr; rw [(sendAll_frame _ _).1]; exact o
  onEnter := fun s i nx _ _ _ _ _ o => o
  onReplay := fun s s5 f _ _ h _ o => by
    unfold NoSelfErr; rw [← (replay_core h).toSameLife.1]; exact o
  onVerify := fun s s' m _ _ _ h _ o => by
    unfold NoSelfErr; rw [← (verify_core h).toSameLife.1]; exact o

/-! ### who can be named by the protocol's abort round -/

/-- the decoded content of `m` accuses its sender -/
def Flagged (m : Msg) : Prop := ∃ c, m.dec = some c ∧ hasFlag c.f fAccuse = true

/-- a stored message of `f` whose content carries the accusation flag -/
def AccW (s : State) (f : Bytes) : Prop := ∃ m, Stored s m ∧ m.frm = f ∧ Flagged m

/-- whoever is accused, and whoever a protocol abort names, has sent a message with the accusation flag -/
def AccOk (s : State) : Prop :=
  (∀ f ∈ s.accused, AccW s f) ∧ (∀ cs, s.err = some (.protoAbort cs) → ∀ f ∈ cs, AccW s f)

theorem AccW.mono {s s' : State} {f : Bytes} (h1 : ∀ e ∈ s.msgs, e ∈ s'.msgs) (h2 : ∀ e ∈ s.bc, e ∈ s'.bc)
    (w : AccW s f) : AccW s' f := by
  obtain ⟨m, hs, hf, hfl⟩ := w
  refine ⟨m, ?_, hf, hfl⟩
  rcases hs with ⟨e, he, h⟩ | ⟨e, he, h⟩
  · exact Or.inl ⟨e, h1 e he, h⟩
  · exact Or.inr ⟨e, h2 e he, h⟩

theorem AccOk.congr {s s' : State} (h1 : s'.msgs = s.msgs) (h2 : s'.bc = s.bc) (h3 : s'.accused = s.accused)
    (h4 : s'.err = s.err) (o : AccOk s) : AccOk s' := by
  have hm : ∀ f, AccW s f → AccW s' f := fun f w => w.mono (by rw [h1]; exact fun _ h => h) (by rw [h2]; exact fun _ h => h)
  constructor
  · intro f hf; rw [h3] at hf; exact hm f (o.1 f hf)
  · intro cs hcs f hf; rw [h4] at hcs; exact hm f (o.2 cs hcs f hf)

theorem roundStoreP2P_accused (s s' : State) (m : Msg) (h : roundStoreP2P s m = some s') :
    ∀ f ∈ s'.accused, f ∈ s.accused ∨ (f = m.frm ∧ Flagged m) := by
  unfold roundStoreP2P at h
  split at h
  · cases h
  · next c hd =>
    split at h
    · cases h
    · simp only [Option.some.injEq] at h
      subst h
      intro f hf
      simp only at hf
      split at hf
      · next hfl =>
        rcases List.mem_append.mp hf with hf | hf
        · exact Or.inl hf
        · exact Or.inr ⟨by simpa using hf, c, hd, hfl⟩
      · exact Or.inl hf

theorem roundStoreBcast_accused (s s' : State) (m : Msg) (h : roundStoreBcast s m = some s') :
    ∀ f ∈ s'.accused, f ∈ s.accused ∨ (f = m.frm ∧ Flagged m) := by
  unfold roundStoreBcast at h
  split at h
  · cases h
  · next c hd =>
    split at h
    · cases h
    · simp only [Option.some.injEq] at h
      subst h
      intro f hf
      simp only at hf
      split at hf
      · next hfl =>
        rcases List.mem_append.mp hf with hf | hf
        · exact Or.inl hf
        · exact Or.inr ⟨by simpa using hf, c, hd, hfl⟩
      · exact Or.inl hf

theorem verifyMessage_accused (s s' : State) (m : Msg) (h : verifyMessage s m = .ok s') :
    ∀ f ∈ s'.accused, f ∈ s.accused ∨ (f = m.frm ∧ Flagged m) := by
  unfold verifyMessage at h
  split at h
  · simp at h; subst h; exact fun f hf => Or.inl hf
  · split at h
    · simp at h; subst h; exact fun f hf => Or.inl hf
    · split at h
      · simp at h
      · split at h
        · simp at h
        · split at h
          · simp at h
          · next s2 hs =>
            simp at h; subst h
            exact roundStoreP2P_accused s _ m hs

theorem verifyBroadcastMessage_accused (s s' : State) (m : Msg) (h : verifyBroadcastMessage s m = .ok s') :
    ∀ f ∈ s'.accused, f ∈ s.accused ∨ (f = m.frm ∧ Flagged m) ∨
      ∃ p, lookup s.msgs m.rnd m.frm = some p ∧ f = p.frm ∧ Flagged p := by
  unfold verifyBroadcastMessage at h
  split at h
  · simp at h; subst h; exact fun f hf => Or.inl hf
  · split at h
    · simp at h
    · split at h
      · simp at h
      · split at h
        · simp at h
        · next s1 h1 =>
          have a1 := roundStoreBcast_accused s s1 m h1
          have c1 := roundStoreBcast_sameCore s s1 m h1
          have lift : ∀ f ∈ s1.accused, f ∈ s.accused ∨ (f = m.frm ∧ Flagged m) ∨
              ∃ p, lookup s.msgs m.rnd m.frm = some p ∧ f = p.frm ∧ Flagged p := by
            intro f hf
            rcases a1 f hf with g | g
            · exact Or.inl g
            · exact Or.inr (Or.inl g)
          split at h
          · simp at h; subst h; exact lift
          · split at h
            · simp at h; subst h; exact lift
            · next p hl =>
              intro f hf
              rcases verifyMessage_accused s1 s' p h f hf with g | g
              · exact lift f g
              · right; right
                exact ⟨p, by rw [c1.2.2.2.2.1]; exact hl, g.1, g.2⟩

theorem stored_of_lookup_bc (s : State) (r : Nat) (id : Bytes) (m : Msg) (h : lookup s.bc r id = some m) : Stored s m := by
  obtain ⟨e, he, h2⟩ := lookup_mem _ _ _ _ h
  exact Or.inr ⟨e, he, h2⟩

theorem stored_of_lookup_msgs (s : State) (r : Nat) (id : Bytes) (m : Msg) (h : lookup s.msgs r id = some m) : Stored s m := by
  obtain ⟨e, he, h2⟩ := lookup_mem _ _ _ _ h
  exact Or.inl ⟨e, he, h2⟩

/-- one verification step accuses only senders of stored, flagged messages -/
theorem verify_accW (s : State) (m : Msg) (s' : State)
    (hq : (m.bcast = true → Stored s m) ∧ (m.bcast = false → Stored s m))
    (h : (if m.bcast then verifyBroadcastMessage s m else verifyMessage s m) = .ok s') :
    ∀ f ∈ s'.accused, f ∈ s.accused ∨ AccW s f := by
  have hst : Stored s m := by
    cases hb : m.bcast with
    | true => exact hq.1 hb
    | false => exact hq.2 hb
  intro f hf
  split at h
  · rcases verifyBroadcastMessage_accused s s' m h f hf with g | ⟨g1, g2⟩ | ⟨p, hp, g1, g2⟩
    · exact Or.inl g
    · exact Or.inr ⟨m, hst, g1.symm, g2⟩
    · exact Or.inr ⟨p, stored_of_lookup_msgs _ _ _ _ hp, g1.symm, g2⟩
  · rcases verifyMessage_accused s s' m h f hf with g | ⟨g1, g2⟩
    · exact Or.inl g
    · exact Or.inr ⟨m, hst, g1.symm, g2⟩

theorem AccW.of_sameCore {s s' : State} (h : SameCore s s') {f : Bytes} (w : AccW s f) : AccW s' f :=
  w.mono (by rw [← h.2.2.2.2.1]; exact fun _ h => h) (by rw [← h.2.2.2.2.2.1]; exact fun _ h => h)

theorem replayStep_accW (s : State) (qk : QueueKeys s) (sp : RoundSpec) (n : Nat) (acc : State × Option Fail) (id : Bytes)
    (hc : SameCore s acc.1) (ha : ∀ f ∈ acc.1.accused, AccW s f) :
    ∀ f ∈ (replayStep sp n acc id).1.accused, AccW s f := by
  obtain ⟨st, c⟩ := acc
  have qk' : QueueKeys st := (queueKeys_preserved (fun x => x)).onCore hc qk
  cases c with
  | some c => exact ha
  | none =>
    simp only [replayStep]
    split
    · split
      · exact ha
      · split
        · exact ha
        · next m hl =>
          have hb : m.bcast = true := by
            obtain ⟨e, he, rfl, _, _⟩ := lookup_keys _ _ _ _ hl
            exact (qk'.2 e he).2.2
          cases hv : verifyBroadcastMessage st m with
          | bad => exact ha
          | echo => exact ha
          | ok st' =>
            simp only [failOf]
            intro f hf
            have hst : Stored st m := stored_of_lookup_bc _ _ _ _ hl
            rcases verify_accW st m st' ⟨fun _ => hst, fun _ => hst⟩ (by rw [hb]; exact hv) f hf with g | g
            · exact ha f g
            · exact g.of_sameCore (SameCore.symm' hc)
    · split
      · exact ha
      · next m hl =>
        have hb : m.bcast = false := by
          obtain ⟨e, he, rfl, _, _⟩ := lookup_keys _ _ _ _ hl
          exact (qk'.1 e he).2.2
        cases hv : verifyMessage st m with
        | bad => exact ha
        | echo => exact ha
        | ok st' =>
          simp only [failOf]
          intro f hf
          have hst : Stored st m := stored_of_lookup_msgs _ _ _ _ hl
          rcases verify_accW st m st' ⟨fun _ => hst, fun _ => hst⟩ (by rw [hb]; exact hv) f hf with g | g
          · exact ha f g
          · exact g.of_sameCore (SameCore.symm' hc)

theorem replayQueued_accW (s : State) (qk : QueueKeys s) (ha : ∀ f ∈ s.accused, AccW s f) :
    ∀ f ∈ (replayQueued s).1.accused, AccW s f := by
  unfold replayQueued
  generalize s.sc.ids = ids
  suffices h : ∀ (acc : State × Option Fail), SameCore s acc.1 → (∀ f ∈ acc.1.accused, AccW s f) →
      ∀ f ∈ (List.foldl (replayStep (curSpec s) s.cur) acc ids).1.accused, AccW s f from
    h (s, none) (SameCore.refl s) ha
  induction ids with
  | nil => intro acc _ h; exact h
  | cons id ids ih =>
    intro acc hc h
    rw [List.foldl_cons]
    exact ih _ (replayStep_sameCore _ _ acc id s hc) (replayStep_accW s qk _ _ acc id hc h)

theorem store_accused (s : State) (m : Msg) : (store s m).accused = s.accused := by
  unfold store; split
  · rfl
  · split <;> split <;> rfl

theorem store_err (s : State) (m : Msg) : (store s m).err = s.err := (store_sameLife s m).1.symm

theorem store_msgs_mono (s : State) (m : Msg) : ∀ e ∈ s.msgs, e ∈ (store s m).msgs :=
  fun e he => (mem_store_msgs s m e).mpr (Or.inl he)
theorem store_bc_mono (s : State) (m : Msg) : ∀ e ∈ s.bc, e ∈ (store s m).bc :=
  fun e he => (mem_store_bc s m e).mpr (Or.inl he)

theorem AccOk.store {s : State} (m : Msg) (o : AccOk s) : AccOk (store s m) := by
  constructor
  · intro f hf; rw [store_accused] at hf
    exact (o.1 f hf).mono (store_msgs_mono s m) (store_bc_mono s m)
  · intro cs hcs f hf; rw [store_err] at hcs
    exact (o.2 cs hcs f hf).mono (store_msgs_mono s m) (store_bc_mono s m)

theorem AccOk.send {s : State} (nx : RoundSpec) (o : AccOk s) : AccOk (sendAll s (emitFor s nx)) := by
  rw [sendAll_eq]
  split
  · exact (o.store _).congr rfl rfl rfl rfl
  · exact o.congr rfl rfl rfl rfl

theorem accOk_presC (H : Bytes → Bytes) (sc : Script) : PresC H sc TT AccOk where
  onFill := fun s _ _ _ o => by
    have e := fillBh_eq H s
    exact o.congr (by rw [e]) (by rw [e]) (by rw [e]) (by rw [e])
  onErr := fun s k _ _ hk _ o => by
    refine ⟨fun f hf => (o.1 f hf).mono (fun _ h => h) (fun _ h => h), ?_⟩
    intro cs hcs
    simp only [abort, Option.some.injEq] at hcs
    subst hcs
    exact absurd hk id
  onFinErr := fun s _ _ _ _ _ o => by
    refine ⟨fun f hf => (o.1 f hf).mono (fun _ h => h) (fun _ h => h), ?_⟩
    intro cs hcs
    simp [abort] at hcs
  onProtoAbort := fun s cs _ _ _ hpf _ o => by
    have hcs : cs = (fillBh H s).accused := by
      unfold protoFinalize at hpf
      split at hpf
      · cases hpf
      · split at hpf
        · simp only [Next.abortRound.injEq] at hpf; exact hpf.symm
        · split at hpf <;> cases hpf
    refine ⟨fun f hf => (o.1 f hf).mono (fun _ h => h) (fun _ h => h), ?_⟩
    intro cs' hcs' f hf
    simp only [abort, enter0, Option.some.injEq, ErrKind.protoAbort.injEq] at hcs'
    subst hcs'
    rw [hcs] at hf
    exact (o.1 f hf).mono (fun _ h => h) (fun _ h => h)
  onOutput := fun s v _ _ _ _ _ o => o.congr rfl rfl rfl rfl
  onSend := fun s i nx _ _ _ _ _ o => o.send nx
  onEnter := fun s i nx _ _ _ _ _ o => o.congr rfl rfl rfl rfl
  onReplay := fun s s5 f r _ h _ o => by
    have c := replay_core h
    have a := replayQueued_accW s (reach_queueKeys s r) o.1
    rw [h] at a
    constructor
    · intro g hg; exact (a g hg).of_sameCore c
    · intro cs hcs g hg
      rw [← c.2.2.2.2.2.2.2.1] at hcs
      exact (o.2 cs hcs g hg).of_sameCore c
  onVerify := fun s s' m r _ iq h _ o => by
    have c := verify_core h
    have hq : (m.bcast = true → Stored s m) ∧ (m.bcast = false → Stored s m) :=
      ⟨fun hb => stored_of_lookup_bc _ _ _ _ (iq.1 hb), fun hb => stored_of_lookup_msgs _ _ _ _ (iq.2 hb)⟩
    have a := verify_accW s m s' hq h
    constructor
    · intro g hg
      rcases a g hg with k | k
      · exact (o.1 g k).of_sameCore c
      · exact k.of_sameCore c
    · intro cs hcs g hg
      rw [← c.2.2.2.2.2.2.2.1] at hcs
      exact (o.2 cs hcs g hg).of_sameCore c

/-! ### provenance of the queue entries -/

/-- every queue entry has a slot and a known sender; the p2p queue holds delivered messages only, the broadcast
    queue delivered messages and the handler's own emitted broadcasts -/
def QOk (sc : Script) (L : List Msg) (s : State) : Prop :=
  (∀ e ∈ s.msgs, e.2.2 ∈ L ∧ hasSlot sc e.2.2.rnd = true ∧ e.2.2.frm ∈ sc.ids) ∧
  (∀ e ∈ s.bc, (e.2.2 ∈ L ∨ (e.2.2 ∈ s.out ∧ e.2.2.frm = sc.self)) ∧ hasSlot sc e.2.2.rnd = true ∧ e.2.2.frm ∈ sc.ids)

theorem QOk.congr {sc : Script} {L : List Msg} {s s' : State} (o : QOk sc L s) (h1 : s'.msgs = s.msgs) (h2 : s'.bc = s.bc)
    (h3 : ∀ m ∈ s.out, m ∈ s'.out) : QOk sc L s' := by
  constructor
  · intro e he; rw [h1] at he; exact o.1 e he
  · intro e he; rw [h2] at he
    obtain ⟨a, b⟩ := o.2 e he
    exact ⟨a.elim Or.inl (fun a => Or.inr ⟨h3 _ a.1, a.2⟩), b⟩

theorem QOk.store {sc : Script} {L : List Msg} {s : State} (o : QOk sc L s) (hsc : s.sc = sc) (m : Msg)
    (hm : m ∈ L) (hf : m.frm ∈ sc.ids) : QOk sc L (Handler.store s m) := by
  have ho : (Handler.store s m).out = s.out := store_out s m
  constructor
  · intro e he
    rcases (mem_store_msgs s m e).mp he with he | ⟨h1, _, _, rfl⟩
    · exact o.1 e he
    · exact ⟨hm, hsc ▸ h1, hf⟩
  · intro e he
    rw [ho]
    rcases (mem_store_bc s m e).mp he with he | ⟨h1, _, _, rfl⟩
    · exact o.2 e he
    · exact ⟨Or.inl hm, hsc ▸ h1, hf⟩

theorem QOk.storeOwn {sc : Script} {L : List Msg} {s : State} (o : QOk sc L s) (hsc : s.sc = sc) (m : Msg)
    (hb : m.bcast = true) (hf : m.frm = sc.self) (hself : sc.self ∈ sc.ids) (ems : List Msg) (hm : m ∈ ems) :
    QOk sc L { Handler.store s m with out := (Handler.store s m).out ++ ems } := by
  constructor
  · intro e he
    rcases (mem_store_msgs s m e).mp he with he | ⟨_, h2, _, _⟩
    · exact o.1 e he
    · rw [hb] at h2; cases h2
  · intro e he
    show (e.2.2 ∈ L ∨ (e.2.2 ∈ (Handler.store s m).out ++ ems ∧ e.2.2.frm = sc.self)) ∧ _
    rw [store_out]
    rcases (mem_store_bc s m e).mp he with he | ⟨h1, _, _, rfl⟩
    · obtain ⟨a, b⟩ := o.2 e he
      exact ⟨a.elim Or.inl (fun a => Or.inr ⟨List.mem_append_left _ a.1, a.2⟩), b⟩
    · exact ⟨Or.inr ⟨List.mem_append_right _ hm, hf⟩, hsc ▸ h1, hf ▸ hself⟩

theorem qOk_presC (H : Bytes → Bytes) (sc : Script) (hself : sc.self ∈ sc.ids) (L : List Msg) :
    PresC H sc TT (QOk sc L) where
  onFill := fun s _ _ _ o => by
    have e := fillBh_eq H s
    exact o.congr (by rw [e]) (by rw [e]) (by rw [e]; exact fun _ h => h)
  onErr := fun s k _ _ _ _ o => o.congr rfl rfl (fun m h => List.mem_append_left _ h)
  onFinErr := fun s _ _ _ _ _ o => o.congr rfl rfl (fun m h => List.mem_append_left _ h)
  onProtoAbort := fun s cs _ _ _ _ _ o => o.congr rfl rfl (fun m h => List.mem_append_left _ h)
  onOutput := fun s v _ _ _ _ _ o => o.congr rfl rfl (fun m h => h)
  onSend := fun s i nx r _ _ _ _ o => by
    have hsc := reach_sc H sc _ (Reach.fill r)
    rw [sendAll_eq]
    split
    · next hb =>
      have hown : ownB (fillBh H s).sc nx.num (bhLookup (fillBh H s).bh (nx.num - 1)) ∈ emitFor (fillBh H s) nx := by
        rw [emitFor_eq, ownB_eq]
        exact (mem_emitW _ _ _ _).mpr (Or.inl ⟨hb, rfl⟩)
      exact o.storeOwn hsc _ rfl (by rw [hsc]; rfl) hself _ hown
    · exact o.congr rfl rfl (fun m h => List.mem_append_left _ h)
  onEnter := fun s i nx _ _ _ _ _ o => o.congr rfl rfl (fun m h => h)
  onReplay := fun s s5 f _ _ h _ o => by
    have c := replay_core h
    exact o.congr c.2.2.2.2.1.symm c.2.2.2.2.2.1.symm (by rw [c.2.2.2.2.2.2.2.2.2.1]; exact fun _ h => h)
  onVerify := fun s s' m _ _ _ h _ o => by
    have c := verify_core h
    exact o.congr c.2.2.2.2.1.symm c.2.2.2.2.2.1.symm (by rw [c.2.2.2.2.2.2.2.2.2.1]; exact fun _ h => h)

/-- after any sequence of deliveries, the queues hold delivered messages and own broadcasts only -/
theorem run_qOk (H : Bytes → Bytes) (sc : Script) (hself : sc.self ∈ sc.ids) (l : List Msg) :
    QOk sc l (run H sc (l.map Call.accept)) := by
  apply run_presC (qOk_presC H sc hself l) ⟨by simp [state0], by simp [state0]⟩ l _ l (fun _ h => h)
  intro s m hm r st o
  have hsc := reach_sc H sc s r
  have hc := st.can
  unfold canAccept at hc
  simp only [Bool.and_eq_true, List.contains_iff_mem] at hc
  exact o.store hsc m hm (by rw [← hsc]; exact hc.1.1.1.2)

/-! ### what a handler knows about the rounds it has passed -/

/-- the facts established when the round `sp` was left through the protocol's `Finalize`: its echo hash is in the
    table (broadcast rounds); every stored message of the round carries the echo hash of the preceding round
    number; a p2p message of every other party is stored (rounds with p2p messages) -/
def RoundFacts (s : State) (sp : RoundSpec) : Prop :=
  (sp.recvB = true → (bhLookup s.bh sp.num).isSome = true) ∧
  (∀ prev, bhLookup s.bh (sp.num - 1) = some prev →
    (∀ e ∈ s.msgs, e.1 = sp.num → e.2.2.bv.getD [] = prev) ∧ (∀ e ∈ s.bc, e.1 = sp.num → e.2.2.bv.getD [] = prev)) ∧
  (sp.recvP = true → ∀ id ∈ others s.sc, (lookup s.msgs sp.num id).isSome = true)

/-- the round at index `j` of the script was left through the protocol's `Finalize` -/
def Passed (s : State) (j : Nat) : Prop := j < s.idx ∨ (s.result.isSome = true ∧ j ≤ s.idx)

def Hist (s : State) : Prop := ∀ j sp, 1 ≤ j → s.sc.rounds[j]? = some sp → Passed s j → RoundFacts s sp

theorem RoundFacts.congr {s s' : State} {sp : RoundSpec} (f : RoundFacts s sp) (h1 : s'.bh = s.bh)
    (h2 : s'.msgs = s.msgs) (h3 : s'.bc = s.bc) (h4 : s'.sc = s.sc) : RoundFacts s' sp := by
  unfold RoundFacts
  rw [h1, h2, h3, h4]
  exact f

theorem fillBh_lookup_ne (H : Bytes → Bytes) (s : State) (r : Nat) (h : r ≠ s.cur) :
    bhLookup (fillBh H s).bh r = bhLookup s.bh r := by
  unfold fillBh
  split
  · split
    · split
      · simp only
        rw [bhLookup_append]
        have : (s.cur == r) = false := by simp; omega
        simp [this]
      · rfl
    · rfl
  · rfl

theorem RoundFacts.fill {s : State} {sp : RoundSpec} (H : Bytes → Bytes) (f : RoundFacts s sp) (hlt : sp.num < s.cur) :
    RoundFacts (fillBh H s) sp := by
  have e := fillBh_eq H s
  refine ⟨?_, ?_, ?_⟩
  · intro hb
    obtain ⟨x, hx⟩ := Option.isSome_iff_exists.mp (f.1 hb)
    rw [bhLookup_mono_fill H s _ x hx]; rfl
  · intro prev hp
    rw [fillBh_lookup_ne H s _ (by omega)] at hp
    have := f.2.1 prev hp
    rw [e]; exact this
  · have := f.2.2
    rw [e]; exact this

theorem RoundFacts.store {s : State} {sp : RoundSpec} (f : RoundFacts s sp) (m : Msg) (hne : m.rnd ≠ sp.num) :
    RoundFacts (Handler.store s m) sp := by
  refine ⟨?_, ?_, ?_⟩
  · rw [store_bh]; exact f.1
  · intro prev hp
    rw [store_bh] at hp
    obtain ⟨a, b⟩ := f.2.1 prev hp
    constructor
    · intro e he hr
      rcases (mem_store_msgs s m e).mp he with he | ⟨_, _, _, rfl⟩
      · exact a e he hr
      · exact absurd hr hne
    · intro e he hr
      rcases (mem_store_bc s m e).mp he with he | ⟨_, _, _, rfl⟩
      · exact b e he hr
      · exact absurd hr hne
  · intro hp id hid
    rw [store_sc] at hid
    rw [lookup_store_msgs']
    obtain ⟨x, hx⟩ := Option.isSome_iff_exists.mp (f.2.2 hp id hid)
    rw [hx]; rfl

theorem RoundFacts.send {s : State} {sp : RoundSpec} (f : RoundFacts s sp) (nx : RoundSpec) (hne : nx.num ≠ sp.num) :
    RoundFacts (sendAll s (emitFor s nx)) sp := by
  rw [sendAll_eq]
  split
  · exact (f.store _ (by exact hne)).congr rfl rfl rfl rfl
  · exact f.congr rfl rfl rfl rfl

theorem p2pAll_of_receivedAll (H : Bytes → Bytes) (s : State) (h : receivedAllB H s = true) (hs : hasSlot s.sc s.cur = true) :
    p2pAll s = true := by
  unfold receivedAllB at h
  split at h
  · simp only [hs, Bool.not_true, Bool.false_eq_true, if_false] at h
    split at h
    · cases h
    · exact h
  · exact h

/-- the facts about the current round at the moment it is left -/
theorem leaving_facts (ok : SessionOk sc) (s : State) (r : Reach H sc s) (l : Live s) (c : CurPos s)
    (lv : Leaving H s) (h1 : 1 ≤ s.idx) : ∃ spec, sc.rounds[s.idx]? = some spec ∧ RoundFacts (fillBh H s) spec := by
  obtain ⟨spec, hs1, hs2, hs3⟩ := pos_of s r l c
  have hsc := reach_sc H sc s r
  have hslot : hasSlot s.sc s.cur = true := by rw [hsc, ← hs2]; exact hasSlot_round ok _ spec h1 hs1
  have e := fillBh_eq H s
  refine ⟨spec, hs1, ?_, ?_, ?_⟩
  · intro hb
    rw [hs2]
    exact fillBh_filled H s (by rw [hs3, hb, hslot]; rfl) lv.recv
  · intro prev hp
    have hcur : (fillBh H s).cur = spec.num := by rw [fillBh_cur, hs2]
    rw [← hcur] at hp ⊢
    exact check_passes_imp_bv _ prev hp lv.check
  · intro hp id hid
    have hall := p2pAll_of_receivedAll H s lv.recv hslot
    unfold p2pAll at hall
    rw [hs3, hp] at hall
    simp only [if_true, hslot, Bool.not_true, Bool.false_eq_true, if_false, List.all_eq_true] at hall
    have hid' : id ∈ others s.sc := by rw [e] at hid; exact hid
    have := hall id hid'
    rw [hs2.symm] at this
    rw [e]; exact this

theorem RoundFacts.of_sameCore {s s' : State} {sp : RoundSpec} (f : RoundFacts s sp) (c : SameCore s s') : RoundFacts s' sp :=
  f.congr c.2.2.2.2.2.2.1.symm c.2.2.2.2.1.symm c.2.2.2.2.2.1.symm c.1.symm

theorem hist_presC (H : Bytes → Bytes) (sc : Script) (ok : SessionOk sc) : PresC H sc CurPos Hist where
  onFill := fun s r l c o => by
    intro j sp hj hsp hp
    have e := fillBh_eq H s
    have hsp' : s.sc.rounds[j]? = some sp := by rw [e] at hsp; exact hsp
    have hp' : j < s.idx := by
      rcases hp with hp | hp
      · rw [fillBh_idx] at hp; exact hp
      · have := (l.of_sameLife (fillBh_sameLife H s)).2.2
        rw [this] at hp; exact absurd hp.1 (by simp)
    obtain ⟨spec, hs1, hs2, _⟩ := pos_of s r l c
    have hlt := num_lt_of_idx_lt ok.script j s.idx sp spec (reach_sc H sc s r ▸ hsp') hs1 hp'
    exact (o j sp hj hsp' (Or.inl hp')).fill H (by omega)
  onErr := fun s k _ _ _ _ o => fun j sp hj hsp hp => o j sp hj hsp hp
  onFinErr := fun s _ _ _ _ _ o => fun j sp hj hsp hp => o j sp hj hsp hp
  onProtoAbort := fun s cs _ _ _ _ _ o => fun j sp hj hsp hp => o j sp hj hsp hp
  onOutput := fun s v r l lv _ c o => by
    intro j sp hj hsp hp
    have c' : CurPos s := fun l' => by have := c (l'.of_sameLife (fillBh_sameLife H s)); rwa [fillBh_cur] at this
    have hle : j ≤ s.idx := by
      rcases hp with hp | hp
      · have : j < (fillBh H s).idx := hp
        rw [fillBh_idx] at this; omega
      · have : j ≤ (fillBh H s).idx := hp.2
        rw [fillBh_idx] at this; exact this
    have hsp' : (fillBh H s).sc.rounds[j]? = some sp := hsp
    show RoundFacts (fillBh H s) sp
    rcases Nat.lt_or_eq_of_le hle with g | g
    · exact o j sp hj hsp' (Or.inl (by rw [fillBh_idx]; exact g))
    · subst g
      obtain ⟨spec, hs1, hf⟩ := leaving_facts ok s r l c' lv hj
      rw [reach_sc H sc _ (Reach.fill r), hs1] at hsp'
      rw [← Option.some.inj hsp']; exact hf
  onSend := fun s i nx r l lv hpf c o => by
    have c' : CurPos s := fun l' => by have := c (l'.of_sameLife (fillBh_sameLife H s)); rwa [fillBh_cur] at this
    obtain ⟨_, hn, hlt, _, _⟩ := next_of ok s r l c' i nx hpf
    obtain ⟨spec, hs1, hs2, _⟩ := pos_of s r l c'
    have fr := sendAll_frame (fillBh H s) (emitFor (fillBh H s) nx)
    intro j sp hj hsp hp
    rw [fr.2.2.2.1] at hsp
    have hp' : j < s.idx := by
      rcases hp with hp | hp
      · rw [sendAll_idx, fillBh_idx] at hp; exact hp
      · have := (sendAll_live _ (emitFor (fillBh H s) nx) (l.of_sameLife (fillBh_sameLife H s))).2.2
        rw [this] at hp; exact absurd hp.1 (by simp)
    have hnum := num_lt_of_idx_lt ok.script j s.idx sp spec (reach_sc H sc _ (Reach.fill r) ▸ hsp) hs1 hp'
    exact (o j sp hj hsp (Or.inl (by rw [fillBh_idx]; exact hp'))).send nx (by omega)
  onEnter := fun s i nx r l lv hpf c o => by
    have l1 := l.of_sameLife (fillBh_sameLife H s)
    have l3 := sendAll_live _ (emitFor (fillBh H s) nx) l1
    have c' : CurPos s := fun l' => by
      have := c l3
      rw [sendAll_cur, fillBh_cur] at this; exact this
    obtain ⟨hi, hn, hlt, _, _⟩ := next_of ok s r l c' i nx hpf
    obtain ⟨spec, hs1, hs2, _⟩ := pos_of s r l c'
    have fr := sendAll_frame (fillBh H s) (emitFor (fillBh H s) nx)
    intro j sp hj hsp hp
    have hsp' : (sendAll (fillBh H s) (emitFor (fillBh H s) nx)).sc.rounds[j]? = some sp := hsp
    show RoundFacts (sendAll (fillBh H s) (emitFor (fillBh H s) nx)) sp
    have hle : j ≤ s.idx := by
      rcases hp with hp | hp
      · have : j < i := hp
        omega
      · have : (sendAll (fillBh H s) (emitFor (fillBh H s) nx)).result.isSome = true := hp.1
        rw [l3.2.2] at this; cases this
    rcases Nat.lt_or_eq_of_le hle with g | g
    · exact o j sp hj hsp' (Or.inl (by rw [sendAll_idx, fillBh_idx]; exact g))
    · subst g
      obtain ⟨spec', hs1', hf⟩ := leaving_facts ok s r l c' lv hj
      rw [fr.2.2.2.1, reach_sc H sc _ (Reach.fill r), hs1'] at hsp'
      rw [← Option.some.inj hsp']
      rw [hs1] at hs1'
      have : spec = spec' := Option.some.inj hs1'
      subst this
      exact hf.send nx (by omega)
  onReplay := fun s s5 f _ _ h _ o => by
    have c := replay_core h
    intro j sp hj hsp hp
    rw [← c.1] at hsp
    have hp' : Passed s j := by
      unfold Passed at hp ⊢
      rw [c.2.1, c.2.2.2.2.2.2.2.2.1]; exact hp
    exact (o j sp hj hsp hp').of_sameCore c
  onVerify := fun s s' m _ _ _ h _ o => by
    have c := verify_core h
    intro j sp hj hsp hp
    rw [← c.1] at hsp
    have hp' : Passed s j := by
      unfold Passed at hp ⊢
      rw [c.2.1, c.2.2.2.2.2.2.2.2.1]; exact hp
    exact (o j sp hj hsp hp').of_sameCore c

/-- storing an acceptable message does not touch the rounds already passed -/
theorem Hist.store (ok : SessionOk sc) {s : State} (r : Reach H sc s) (c : CurPos s) (o : Hist s) (m : Msg)
    (st : Storing s m) : Hist (Handler.store s m) := by
  intro j sp hj hsp hp
  rw [store_sc] at hsp
  have hp' : j < s.idx := by
    rcases hp with hp | hp
    · rw [(store_idx s m).1] at hp; exact hp
    · have := (st.live.of_sameLife (store_sameLife s m)).2.2
      rw [this] at hp; exact absurd hp.1 (by simp)
  obtain ⟨spec, hs1, hs2, _⟩ := pos_of s r st.live c
  have hnum := num_lt_of_idx_lt ok.script j s.idx sp spec (reach_sc H sc s r ▸ hsp) hs1 hp'
  have hc := st.can
  unfold canAccept at hc
  simp only [Bool.and_eq_true] at hc
  have h7 := hc.2
  have hge : s.cur ≤ m.rnd := by
    have h0 := st.rnd
    by_cases hlt : m.rnd < s.cur
    · simp [hlt, Nat.pos_of_ne_zero h0] at h7
    · omega
  exact (o j sp hj hsp (Or.inl hp')).store m (by omega)

/-! ### the invariants after any sequence of deliveries of any messages -/

theorem sessionOk_self (ok : SessionOk sc) : (sc.rounds.map (·.num)).Nodup := by
  have := ok.script.incr
  rw [List.Nodup, List.pairwise_map]
  exact this.imp (fun h => by omega)

theorem run_curPos (ok : SessionOk sc) (l : List Msg) : CurPos (run H sc (l.map Call.accept)) := by
  apply run_presC (curPos_presC H sc ok) _ l _ l (fun _ h => h)
  · intro _
    have hf := ok.script.first
    cases h0 : sc.rounds[0]? with
    | none => rw [h0] at hf; cases hf
    | some r1 =>
      rw [h0] at hf
      simp only [Option.map_some, Option.some.injEq] at hf
      have hg : sc.rounds.getD 0 default = r1 := by simp [List.getD, h0]
      show (sc.rounds.getD 0 default).num ≠ 0
      rw [hg, hf]; decide
  · intro s m _ _ st c _
    rw [(store_idx s m).2]; exact c st.live

theorem run_final (l : List Msg) : Final (run H sc (l.map Call.accept)) := by
  apply run_presC (final_presC H sc) _ l _ l (fun _ h => h)
  · intro h; cases h
  · intro s m _ _ st _ h
    have := (st.live.of_sameLife (store_sameLife s m)).2.2
    rw [this] at h; cases h

theorem run_outShape (l : List Msg) : OutShape (run H sc (l.map Call.accept)) := by
  apply run_presC (outShape_presC H sc) _ l _ l (fun _ h => h)
  · intro m hm; simp [state0] at hm
  · intro s m _ _ _ o; exact o.of_sameLife (store_sameLife s m)

theorem run_bvSome (ok : SessionOk sc) (l : List Msg) : BvSome (run H sc (l.map Call.accept)) := by
  have := run_presC ((curPos_presC H sc ok).and (bvSome_presC H sc ok)) (P := fun s => CurPos s ∧ BvSome s) ?_ l ?_ l
    (fun _ h => h)
  · exact this.2
  · refine ⟨?_, fun m hm => by simp [state0] at hm⟩
    intro _
    have hf := ok.script.first
    cases h0 : sc.rounds[0]? with
    | none => rw [h0] at hf; cases hf
    | some r1 =>
      rw [h0] at hf
      simp only [Option.map_some, Option.some.injEq] at hf
      have hg : sc.rounds.getD 0 default = r1 := by simp [List.getD, h0]
      show (sc.rounds.getD 0 default).num ≠ 0
      rw [hg, hf]; decide
  · intro s m _ _ st o
    exact ⟨fun _ => by rw [(store_idx s m).2]; exact o.1 st.live, o.2.of_sameLife (store_sameLife s m)⟩

theorem run_noSelfErr (ok : SessionOk sc) (l : List Msg) : NoSelfErr (run H sc (l.map Call.accept)) := by
  apply run_presC (noSelfErr_presC H sc ok) _ l _ l (fun _ h => h)
  · simp [NoSelfErr, state0]
  · intro s m _ _ _ o
    unfold NoSelfErr; rw [store_err]; exact o

theorem run_accOk (l : List Msg) : AccOk (run H sc (l.map Call.accept)) := by
  apply run_presC (accOk_presC H sc) _ l _ l (fun _ h => h)
  · exact ⟨fun f hf => by simp [state0] at hf, fun cs h => by simp [state0] at h⟩
  · intro s m _ _ _ o; exact o.store m

theorem run_hist (ok : SessionOk sc) (l : List Msg) : Hist (run H sc (l.map Call.accept)) := by
  have := run_presC ((curPos_presC H sc ok).and (hist_presC H sc ok)) (P := fun s => CurPos s ∧ Hist s) ?_ l ?_ l
    (fun _ h => h)
  · exact this.2
  · refine ⟨?_, ?_⟩
    · intro _
      have hf := ok.script.first
      cases h0 : sc.rounds[0]? with
      | none => rw [h0] at hf; cases hf
      | some r1 =>
        rw [h0] at hf
        simp only [Option.map_some, Option.some.injEq] at hf
        have hg : sc.rounds.getD 0 default = r1 := by simp [List.getD, h0]
        show (sc.rounds.getD 0 default).num ≠ 0
        rw [hg, hf]; decide
    · intro j sp hj _ hp
      rcases hp with hp | hp
      · have : j < 0 := hp
        omega
      · have : j ≤ 0 := hp.2
        omega
  · intro s m _ r st o
    exact ⟨fun _ => by rw [(store_idx s m).2]; exact o.1 st.live, o.2.store ok r o.1 m st⟩

/-- a message failure is blamed on the sender of a stored, deviating message of the current round -/
theorem run_blameOk (l : List Msg) : BlameOk (run H sc (l.map Call.accept)) := by
  unfold run
  have h0 : Good (init H sc) ∧ QueueKeys (init H sc) ∧ BlameOk (init H sc) := by
    refine ⟨init_good H sc, ?_, ?_⟩
    · unfold init
      exact finalize_pres (queueKeys_preserved H) _ _ ⟨by simp [state0], by simp [state0]⟩
    · unfold init
      exact finalize_blameOk H _ _ ⟨rfl, rfl, rfl⟩ ⟨by simp [state0], by simp [state0]⟩
  generalize init H sc = s at h0
  induction l generalizing s with
  | nil => exact h0.2.2
  | cons m l ih =>
    apply ih
    obtain ⟨g, qk, b⟩ := h0
    refine ⟨accept_good H s _ g, accept_pres (queueKeys_preserved H) s _ qk, ?_⟩
    rcases g with l | d
    · exact accept_blameOk H s _ l qk
    · show BlameOk (accept H s m)
      rw [accept_terminal H s _ (terminal_of_done d)]; exact b

/-- the verdict `peerAbort f` can only come from a round-0 message whose sender field is `f` -/
theorem accept_peerAbort (H : Bytes → Bytes) (s : State) (m : Msg) (l : Live s) (f : Bytes)
    (h : (accept H s m).err = some (.peerAbort f)) : m.rnd = 0 ∧ m.frm = f := by
  unfold accept at h
  split at h
  · rw [l.2.1] at h; cases h
  · split at h
    · next h0 =>
      simp only [abort, Option.some.injEq, ErrKind.peerAbort.injEq] at h
      exact ⟨by simpa using h0, h⟩
    · exfalso
      have l1 := l.of_sameLife (store_sameLife s m)
      unfold acceptStored at h
      split at h
      · rw [l1.2.1] at h; cases h
      · split at h
        · simp [abort] at h
        · simp [abort] at h
        · next s2 hv =>
          have l2 : Live s2 := by
            split at hv
            · exact l1.of_sameLife (verifyBroadcastMessage_sameLife _ _ _ hv)
            · exact l1.of_sameLife (verifyMessage_sameLife _ _ _ hv)
          exact (finalize_noPeerStop H _ s2 l2).1 f h

theorem run_peerAbort (l : List Msg) (f : Bytes) (h : (run H sc (l.map Call.accept)).err = some (.peerAbort f)) :
    ∃ m ∈ l, m.rnd = 0 ∧ m.frm = f := by
  have hinit : Good (init H sc) ∧ ((init H sc).err = some (.peerAbort f) → ∃ m ∈ l, m.rnd = 0 ∧ m.frm = f) := by
    refine ⟨init_good H sc, fun h => ?_⟩
    exfalso
    unfold init at h
    exact (finalize_noPeerStop H _ _ ⟨rfl, rfl, rfl⟩).1 f h
  unfold run at h
  generalize init H sc = s at hinit h
  suffices hs : ∀ (l' : List Msg) (s : State), (∀ m ∈ l', m ∈ l) → Good s →
      (s.err = some (.peerAbort f) → ∃ m ∈ l, m.rnd = 0 ∧ m.frm = f) →
      (List.foldl (apply H) s (l'.map Call.accept)).err = some (.peerAbort f) → ∃ m ∈ l, m.rnd = 0 ∧ m.frm = f from
    hs l s (fun _ h => h) hinit.1 hinit.2 h
  intro l'
  induction l' with
  | nil => intro s _ _ h1 h2; exact h1 h2
  | cons m l' ih =>
    intro s hsub g h1 h2
    apply ih (accept H s m) (fun x hx => hsub x (by simp [hx])) (accept_good H s m g) _ h2
    intro he
    rcases g with lv | d
    · obtain ⟨a, b⟩ := accept_peerAbort H s m lv f he
      exact ⟨m, hsub m (by simp), a, b⟩
    · rw [accept_terminal H s _ (terminal_of_done d)] at he
      exact h1 he

/-- a scripted message does not deviate in its round -/
theorem emitted_not_deviates (s' : State) (nx : RoundSpec) (m : Msg) (hm : m ∈ emitFor s' nx) : ¬ Deviates nx m := by
  obtain ⟨_, _, _, ⟨c, hc1, hc2⟩, hb1, hb2⟩ := emitFor_fields s' nx m hm
  have hfl : ∀ b, hasFlag c.f b = false := by intro b; rw [hc2]; exact hasFlag_zero b
  rintro (⟨hb, hbad⟩ | ⟨hb, hbad⟩)
  · rcases hbad with h | h | ⟨c', hc', h⟩
    · rw [hb2 hb] at h; cases h
    · rw [hc1] at h; cases h
    · rw [hc1] at hc'; cases hc'
      rcases h with h | h <;> (rw [hfl] at h; cases h)
  · rcases hbad with h | h | ⟨c', hc', h⟩
    · rw [hb1 hb] at h; cases h
    · rw [hc1] at h; cases h
    · rw [hc1] at hc'; cases hc'
      rw [hfl] at h; cases h

/-! ### emitted messages fit the wire format -/

theorem cborUint_length (n : Nat) : (cborUint n).length ≤ 9 := by
  unfold cborUint
  split
  · simp
  · split
    · simp
    · split
      · simp [beN_length]
      · split
        · simp [beN_length]
        · simp [beN_length]

theorem msgOk_of (m : Msg) (h1 : m.frm ≠ []) (h2 : m.rnd < 256 ^ 8) (h3 : ∀ b, m.ssid = some b → b.length < 2 ^ 64)
    (h4 : m.frm.length < 2 ^ 64) (h5 : m.to.length < 2 ^ 64) (h6 : m.proto.length < 2 ^ 64)
    (h7 : ∀ b, m.data = some b → b.length < 2 ^ 64) (h8 : ∀ b, m.bv = some b → b.length < 2 ^ 64) : MsgOk m := by
  refine ⟨h1, h2, ?_⟩
  intro i hi
  have dl : ∀ d ∈ [str "SSID", str "ID", str "Protocol", str "Round Number", str "Content", str "Broadcast",
      str "BroadcastVerification"], d.length < 2 ^ 64 := by
    intro d hd
    simp only [e_ssid, e_id, e_proto, e_rn, e_content, e_bcast, e_bv, List.mem_cons, List.not_mem_nil, or_false] at hd
    rcases hd with rfl | rfl | rfl | rfl | rfl | rfl | rfl <;> decide
  unfold msgHashItems at hi
  simp only [List.mem_append] at hi
  have mk : ∀ (d b : Bytes), d ∈ [str "SSID", str "ID", str "Protocol", str "Round Number", str "Content", str "Broadcast",
      str "BroadcastVerification"] → b.length < 2 ^ 64 → i = ⟨d, b⟩ → i.WF := by
    intro d b hd hb e; subst e; exact ⟨dl d hd, hb⟩
  rcases hi with (((((hi | hi) | hi) | hi) | hi) | hi) | hi
  · split at hi
    · cases hi
    · next b hb => exact mk (str "SSID") b (by simp) (h3 b hb) (by simpa using hi)
  · split at hi
    · cases hi
    · exact mk (str "ID") _ (by simp) h4 (by simpa using hi)
  · split at hi
    · cases hi
    · exact mk (str "ID") _ (by simp) h5 (by simpa using hi)
  · simp only [List.mem_cons, List.not_mem_nil, or_false] at hi
    rcases hi with hi | hi
    · exact mk (str "Protocol") _ (by simp) h6 hi
    · exact mk (str "Round Number") _ (by simp) (by rw [be64_length]; decide) hi
  · split at hi
    · cases hi
    · next b hb => exact mk (str "Content") b (by simp) (h7 b hb) (by simpa using hi)
  · exact mk (str "Broadcast") [if m.bcast = true then 1 else 0] (by simp) (by simp) (by simpa using hi)
  · split at hi
    · cases hi
    · next b hb => exact mk (str "BroadcastVerification") b (by simp) (h8 b hb) (by simpa using hi)

theorem emitFor_wire (s : State) (nx : RoundSpec) (m : Msg) (hm : m ∈ emitFor s nx) :
    (m.to = [] ∨ m.to ∈ s.sc.ids) ∧ ∃ c, m.data = some (cborContent c) := by
  rw [emitFor_eq] at hm
  rcases (mem_emitW _ _ _ _).mp hm with ⟨_, rfl⟩ | ⟨_, id, hid, rfl⟩
  · exact ⟨Or.inl rfl, _, rfl⟩
  · exact ⟨Or.inr (mem_others.mp hid).1, _, rfl⟩

theorem cborContent_length (c : Content) : (cborContent c).length < 2 ^ 64 := by
  unfold cborContent
  have h1 := cborUint_length c.v
  have h2 := cborUint_length c.f
  simp only [List.length_cons, List.length_append]
  have : (2 : Nat) ^ 64 = 18446744073709551616 := by decide
  omega

end

end Mps.Handler

/-! ## Part 3: sessions with one deviating participant -/

namespace Mps.System
open Mps Mps.Handler

theorem mem_honestIds {base : Script} {x p : Bytes} : p ∈ honestIds base x ↔ p ∈ base.ids ∧ p ≠ x := by
  unfold honestIds
  simp [List.mem_filter]

theorem sessionOk_for {base : Script} (ok : SessionOk base) (p : Bytes) : SessionOk (scriptFor base p) :=
  ⟨scriptOk_for ok.script p, ok.noEmptyId, ok.inRange, ok.twoParties, ok.noFinErr⟩

theorem byzCanDeliver_iff (base : Script) (x : Bytes) (σ : Sys) (p : Bytes) (m : Msg) :
    σ.byzCanDeliver base x p m = true ↔
      p ∈ honestIds base x ∧ (m.frm = x ∨ (m.frm ∈ honestIds base x ∧ isFor m p = true ∧ m ∈ (σ m.frm).out)) := by
  unfold Sys.byzCanDeliver
  simp only [Bool.and_eq_true, Bool.or_eq_true, List.contains_iff_mem, beq_iff_eq, and_assoc]

/-- what a Byzantine schedule delivers to `p`: `p` is honest, and the message is the adversary's or was emitted by
    the honest party it names -/
theorem byz_delivered (H : Bytes → Bytes) (base : Script) (x : Bytes) (sched : Sched) (p : Bytes) :
    ∀ σ : Sys, byzCausalFrom H base x σ sched = true →
      ∀ m ∈ delivered sched p, p ∈ honestIds base x ∧
        (m.frm = x ∨ (m.frm ∈ honestIds base x ∧ isFor m p = true ∧ m ∈ ((σ.runFrom H sched) m.frm).out)) := by
  induction sched with
  | nil => intro σ _ m hm; cases hm
  | cons e rest ih =>
    intro σ hc m hm
    simp only [byzCausalFrom, Bool.and_eq_true] at hc
    rw [delivered_cons] at hm
    have hrest : ∀ y ∈ delivered rest p, p ∈ honestIds base x ∧
        (y.frm = x ∨ (y.frm ∈ honestIds base x ∧ isFor y p = true ∧ y ∈ ((Sys.runFrom H σ (e :: rest)) y.frm).out)) :=
      ih _ hc.2
    by_cases h : e.1 = p
    · rw [if_pos h] at hm
      rcases List.mem_cons.mp hm with rfl | hm
      · obtain ⟨hp, hk⟩ := (byzCanDeliver_iff base x σ e.1 e.2).mp hc.1
        rw [h] at hp hk
        refine ⟨hp, hk.imp id ?_⟩
        rintro ⟨a, b, c⟩
        exact ⟨a, b, runFrom_out_mono H (e :: rest) _ _ σ c⟩
      · exact hrest m hm
    · rw [if_neg h] at hm; exact hrest m hm

section
variable {H : Bytes → Bytes} {base : Script} {x : Bytes}

theorem scriptFor_self_mem {p : Bytes} (hp : p ∈ base.ids) : (scriptFor base p).self ∈ (scriptFor base p).ids := hp

/-- AUTHENTICITY: whatever an honest party has stored under the name of an honest party was emitted by that party -/
theorem stored_honest_emitted (sched : Sched) (hc : ByzCausal H base x sched = true) (p q : Bytes)
    (hp : p ∈ honestIds base x) (hq : q ∈ honestIds base x) (m : Msg) (hs : Stored ((Sys.run H base sched) p) m)
    (hf : m.frm = q) : m ∈ ((Sys.run H base sched) q).out := by
  have hpi := (mem_honestIds.mp hp).1
  have hqx := (mem_honestIds.mp hq).2
  have qo := run_qOk H (scriptFor base p) (scriptFor_self_mem hpi) (delivered sched p)
  rw [← run_apply] at qo
  have key : (m ∈ delivered sched p ∨ (m ∈ ((Sys.run H base sched) p).out ∧ m.frm = p)) := by
    rcases hs with ⟨e, he, rfl⟩ | ⟨e, he, rfl⟩
    · exact Or.inl (qo.1 e he).1
    · exact (qo.2 e he).1
  rcases key with hd | ⟨ho, hfp⟩
  · obtain ⟨_, hk⟩ := byz_delivered H base x sched p _ hc m hd
    rcases hk with hk | ⟨_, _, hk⟩
    · exact absurd (hf ▸ hk) hqx
    · rw [hf] at hk; exact hk
  · rw [hf] at hfp; subst hfp; exact ho

/-- the stored messages of an honest party have a queue slot and a known sender -/
theorem stored_slot (sched : Sched) (p : Bytes) (hp : p ∈ base.ids) (m : Msg)
    (hs : Stored ((Sys.run H base sched) p) m) : hasSlot base m.rnd = true ∧ m.frm ∈ base.ids := by
  have qo := run_qOk H (scriptFor base p) (scriptFor_self_mem hp) (delivered sched p)
  rw [← run_apply] at qo
  rcases hs with ⟨e, he, rfl⟩ | ⟨e, he, rfl⟩
  · exact (qo.1 e he).2
  · exact (qo.2 e he).2

/-- what an honest party has emitted: its abort notice (then it has an error) or scripted messages -/
theorem honest_out (ok : SessionOk base) (sched : Sched) (q : Bytes) (m : Msg)
    (hm : m ∈ ((Sys.run H base sched) q).out) :
    (m.rnd = 0 ∧ ((Sys.run H base sched) q).err.isSome = true ∧ m = noticeOf (scriptFor base q)) ∨
    (∃ s' nx i, 1 ≤ i ∧ base.rounds[i]? = some nx ∧ 2 ≤ nx.num ∧ m ∈ emitFor s' nx ∧ s'.sc = scriptFor base q) := by
  have o := run_outShape (H := H) (sc := scriptFor base q) (delivered sched q)
  rw [← run_apply] at o
  have hsc : ((Sys.run H base sched) q).sc = scriptFor base q := by rw [run_apply]; exact run_sc H _ _
  rcases o m hm with h | ⟨s', nx, i, hi, hnx, hs', hmem⟩
  · rw [hsc] at h; exact Or.inl h
  · rw [hsc] at hnx hs'
    exact Or.inr ⟨s', nx, i, hi, hnx, round_ge_two ok.script i nx hi hnx, hmem, hs'⟩

/-- an honest party is never blamed for a failed message -/
theorem honest_not_msgFail (ok : SessionOk base) (sched : Sched) (hc : ByzCausal H base x sched = true) (p q : Bytes)
    (hp : p ∈ honestIds base x) (hq : q ∈ honestIds base x) :
    ((Sys.run H base sched) p).err ≠ some (.msgFail q) := by
  intro he
  have hpi := (mem_honestIds.mp hp).1
  have b := run_blameOk (H := H) (sc := scriptFor base p) (delivered sched p)
  rw [← run_apply] at b
  obtain ⟨m, hst, hf, hr, hd⟩ := b q he
  have hout := stored_honest_emitted sched hc p q hp hq m hst hf
  have hslot := (stored_slot sched p hpi m hst).1
  have h2 : 2 ≤ m.rnd := by
    simp only [hasSlot, Bool.and_eq_true, decide_eq_true_eq] at hslot; exact hslot.1
  rcases honest_out ok sched q m hout with ⟨h0, _⟩ | ⟨s', nx, i, hi, hnx, _, hmem, _⟩
  · omega
  · have hrn := (emitFor_fields s' nx m hmem).1
    have hsc : ((Sys.run H base sched) p).sc = scriptFor base p := by rw [run_apply]; exact run_sc H _ _
    have ix : IdxOk ((Sys.run H base sched) p) := by
      rw [run_apply]; exact reach_idxOk _ (run_reach H _ _)
    obtain ⟨hnum, hin⟩ := curSpec_of_idxOk _ ix (by omega)
    rw [hsc] at hin
    have hsame : nx = curSpec ((Sys.run H base sched) p) :=
      nodup_map_inj (·.num) _ (sessionOk_self ok) _ _ (List.mem_of_getElem? hnx) hin (by rw [hnum, ← hr, hrn])
    rw [← hsame] at hd
    exact emitted_not_deviates s' nx m hmem hd

/-- an honest party is never named by the protocol's abort round -/
theorem honest_not_accused (ok : SessionOk base) (sched : Sched) (hc : ByzCausal H base x sched = true) (p q : Bytes)
    (hp : p ∈ honestIds base x) (hq : q ∈ honestIds base x) (cs : List Bytes)
    (he : ((Sys.run H base sched) p).err = some (.protoAbort cs)) : q ∉ cs := by
  intro hmem
  have a := run_accOk (H := H) (sc := scriptFor base p) (delivered sched p)
  rw [← run_apply] at a
  obtain ⟨m, hst, hf, c, hc1, hc2⟩ := a.2 cs he q hmem
  have hout := stored_honest_emitted sched hc p q hp hq m hst hf
  rcases honest_out ok sched q m hout with ⟨_, _, h3⟩ | ⟨s', nx, i, _, _, _, hm, _⟩
  · rw [h3] at hc1; cases hc1
  · obtain ⟨_, _, _, ⟨c', h1, h2⟩, _⟩ := emitFor_fields s' nx m hm
    rw [hc1] at h1; cases h1
    rw [h2, hasFlag_zero] at hc2; cases hc2

/-- the notice of an honest party is relayed only after that party has aborted itself -/
theorem honest_peerAbort (ok : SessionOk base) (sched : Sched) (hc : ByzCausal H base x sched = true) (p f : Bytes)
    (he : ((Sys.run H base sched) p).err = some (.peerAbort f)) :
    f = x ∨ (f ∈ honestIds base x ∧ f ≠ p ∧ noticeOf (scriptFor base f) ∈ ((Sys.run H base sched) f).out ∧
      ((Sys.run H base sched) f).err.isSome = true) := by
  rw [run_apply] at he
  obtain ⟨m, hm, h0, hf⟩ := run_peerAbort _ f he
  obtain ⟨_, hk⟩ := byz_delivered H base x sched p _ hc m hm
  rcases hk with hk | ⟨h1, h2, h3⟩
  · exact Or.inl (hf ▸ hk)
  · right
    rw [hf] at h1 h3
    have hne : f ≠ p := by
      intro e
      unfold isFor at h2
      rw [hf, e] at h2
      simp at h2
    rcases honest_out ok sched f m h3 with ⟨_, h5, h6⟩ | ⟨s', nx, i, _, _, h2', hmem, _⟩
    · exact ⟨h1, hne, h6 ▸ h3, h5⟩
    · have := (emitFor_fields s' nx m hmem).1
      omega

/-- the kinds of error an honest party can end with: a verdict against `x` only, the culprit-less echo mismatch,
    or the relayed notice of another honest party that has aborted -/
theorem honest_error_kinds (ok : SessionOk base) (sched : Sched) (hc : ByzCausal H base x sched = true) (p : Bytes)
    (hp : p ∈ honestIds base x) (e : ErrKind) (he : ((Sys.run H base sched) p).err = some e) :
    primaryErr x e = true ∨
    ∃ q ∈ honestIds base x, q ≠ p ∧ e = .peerAbort q ∧ noticeOf (scriptFor base q) ∈ ((Sys.run H base sched) q).out ∧
      ((Sys.run H base sched) q).err.isSome = true := by
  have hpi := (mem_honestIds.mp hp).1
  have notHonest : ∀ f, f ∈ base.ids → f ∉ honestIds base x → f = x := by
    intro f hf hn
    apply Classical.byContradiction
    intro hne
    exact hn (mem_honestIds.mpr ⟨hf, hne⟩)
  cases e with
  | msgFail f =>
    left
    have b := run_blameOk (H := H) (sc := scriptFor base p) (delivered sched p)
    rw [← run_apply] at b
    obtain ⟨m, hst, hf, _, _⟩ := b f he
    have hfi := (stored_slot sched p hpi m hst).2
    rw [hf] at hfi
    have := notHonest f hfi (fun hq => honest_not_msgFail ok sched hc p f hp hq he)
    simp [primaryErr, this]
  | peerAbort f =>
    rcases honest_peerAbort ok sched hc p f he with h | ⟨h1, h2, h3, h4⟩
    · left; simp [primaryErr, h]
    · exact Or.inr ⟨f, h1, h2, rfl, h3, h4⟩
  | echoMismatch => left; rfl
  | finalizeErr =>
    have := run_noSelfErr (H := H) (sessionOk_for ok p) (delivered sched p)
    rw [← run_apply] at this
    exact absurd he this.1
  | stopped =>
    have := run_noSelfErr (H := H) (sessionOk_for ok p) (delivered sched p)
    rw [← run_apply] at this
    exact absurd he this.2
  | protoAbort cs =>
    left
    have a := run_accOk (H := H) (sc := scriptFor base p) (delivered sched p)
    rw [← run_apply] at a
    simp only [primaryErr, List.all_eq_true, beq_iff_eq]
    intro f hf
    obtain ⟨m, hst, hfm, _⟩ := a.2 cs he f hf
    have hfi := (stored_slot sched p hpi m hst).2
    rw [hfm] at hfi
    exact notHonest f hfi (fun hq => honest_not_accused ok sched hc p f hp hq cs he hf)

/-! ### the chain of relayed notices ends at a verdict that names nobody honest -/

theorem list_snoc_induction {α : Type} {P : List α → Prop} (h0 : P []) (hs : ∀ l a, P l → P (l ++ [a])) : ∀ l, P l := by
  suffices h : ∀ l : List α, P l.reverse from fun l => by simpa using h l.reverse
  intro l
  induction l with
  | nil => exact h0
  | cons a l ih => rw [List.reverse_cons]; exact hs _ a ih

theorem byzCausalFrom_append (H : Bytes → Bytes) (base : Script) (x : Bytes) (s1 s2 : Sched) :
    ∀ σ : Sys, byzCausalFrom H base x σ (s1 ++ s2) =
      (byzCausalFrom H base x σ s1 && byzCausalFrom H base x (σ.runFrom H s1) s2) := by
  induction s1 with
  | nil => intro σ; simp [byzCausalFrom, Sys.runFrom]
  | cons e rest ih =>
    intro σ
    simp only [List.cons_append, byzCausalFrom, ih, Bool.and_assoc]
    rfl

theorem run_snoc_sys (H : Bytes → Bytes) (base : Script) (pre : Sched) (e : Bytes × Msg) :
    Sys.run H base (pre ++ [e]) = (Sys.run H base pre).deliver H e.1 e.2 := by
  unfold Sys.run Sys.runFrom
  rw [List.foldl_append]; rfl

theorem deliver_err_keep (H : Bytes → Bytes) (σ : Sys) (p : Bytes) (m : Msg) (q : Bytes) (e : ErrKind)
    (h : (σ q).err = some e) : ((σ.deliver H p m) q).err = some e := by
  by_cases hq : q = p
  · subst hq
    rw [deliver_self, accept_terminal H _ _ (by simp [terminal, h])]; exact h
  · rw [deliver_other H σ p q m hq]; exact h

/-- ROOT CAUSE: if any honest party has aborted, some honest party has aborted with a verdict of its own that
    names nobody but `x` (or names nobody): every chain of relayed notices starts there -/
theorem abort_root (ok : SessionOk base) : ∀ sched : Sched, ByzCausal H base x sched = true →
    (∃ p ∈ honestIds base x, ((Sys.run H base sched) p).err.isSome = true) →
    ∃ p ∈ honestIds base x, ∃ e, ((Sys.run H base sched) p).err = some e ∧ primaryErr x e = true := by
  intro sched
  induction sched using list_snoc_induction with
  | h0 =>
    intro _ ⟨p, hp, he⟩
    exfalso
    rw [no_honest_abort (H := H) ok [] rfl p (mem_honestIds.mp hp).1] at he
    cases he
  | hs pre a ih =>
    intro hc ⟨p, hp, he⟩
    have hc' : ByzCausal H base x pre = true := by
      unfold ByzCausal at hc ⊢
      rw [byzCausalFrom_append] at hc
      simp only [Bool.and_eq_true] at hc
      exact hc.1
    have keep : (∃ p ∈ honestIds base x, ((Sys.run H base pre) p).err.isSome = true) →
        ∃ p ∈ honestIds base x, ∃ e, ((Sys.run H base (pre ++ [a])) p).err = some e ∧ primaryErr x e = true := by
      intro h
      obtain ⟨p', hp', e', he', hpr⟩ := ih hc' h
      exact ⟨p', hp', e', by rw [run_snoc_sys]; exact deliver_err_keep H _ _ _ _ _ he', hpr⟩
    obtain ⟨e, he⟩ := Option.isSome_iff_exists.mp he
    by_cases hpa : p = a.1
    · rcases honest_error_kinds ok _ hc p hp e he with h | ⟨q, hq, hqp, _, _, hqe⟩
      · exact ⟨p, hp, e, he, h⟩
      · apply keep
        refine ⟨q, hq, ?_⟩
        rw [run_snoc_sys, deliver_other H _ _ _ _ (by rw [← hpa]; exact hqp)] at hqe
        exact hqe
    · apply keep
      refine ⟨p, hp, ?_⟩
      rw [run_snoc_sys, deliver_other H _ _ _ _ hpa] at he
      rw [he]; rfl

/-! ### agreement on the views of a broadcast round (C06) -/

theorem passed_of_past {sc : Script} (ok : SessionOk sc) (s : State) (r : Reach H sc s) (fin : Final s) (j : Nat)
    (nx : RoundSpec) (hnx : sc.rounds[j]? = some nx) (h : pastRound s nx.num = true) : Passed s j := by
  have hsc := reach_sc H sc s r
  unfold pastRound at h
  simp only [Bool.or_eq_true, decide_eq_true_eq] at h
  rcases h with h | h
  · right
    refine ⟨h, ?_⟩
    have := fin h
    rw [hsc] at this
    have h1 := List.getElem?_eq_none_iff.mp this
    obtain ⟨h2, _⟩ := List.getElem?_eq_some_iff.mp hnx
    omega
  · left
    rcases reach_idxOk s r with h0 | ⟨spec, h1, h2⟩
    · omega
    · rw [hsc] at h1
      exact idx_lt_of_num_lt sc ok.script j s.idx nx spec hnx h1 (by omega)

theorem echoHash_script_congr (H : Bytes → Bytes) (sc sc' : Script) (bc : List (Nat × Bytes × Msg)) (r : Nat)
    (h1 : sc.ids = sc'.ids) (h2 : sc.sess = sc'.sess) : echoHash H sc bc r = echoHash H sc' bc r := by
  unfold echoHash
  rw [h1, h2]

/-- ONE-SIDED AGREEMENT. An honest party `p` that has passed the round after the broadcast round `sp` holds the
    same view of round `sp` as EVERY other honest party `q` (and `q` holds a complete view) — or `H` collides.
    The evidence is `q`'s own message of the next round in `p`'s queue: it is authentic, `q` stamped it with the hash
    of its view, and `p` left the round only after comparing the stamp with the hash of its own view. -/
theorem view_agreement (hH : ∀ b, (H b).length < 2 ^ 64) (ok : SessionOk base) (hsw : ∀ i ∈ base.sess, i.WF)
    (sched : Sched) (hc : ByzCausal H base x sched = true) (p q : Bytes) (hp : p ∈ honestIds base x)
    (hq : q ∈ honestIds base x) (hpq : p ≠ q) (j : Nat) (sp nx : RoundSpec) (hj : 1 ≤ j)
    (hsp : base.rounds[j]? = some sp) (hnx : base.rounds[j + 1]? = some nx) (hnum : nx.num = sp.num + 1)
    (hB : sp.recvB = true) (hK : nx.recvB = true ∨ nx.recvP = true)
    (hpass : Passed ((Sys.run H base sched) p) (j + 1))
    (wfp : ∀ e ∈ ((Sys.run H base sched) p).bc, MsgOk e.2.2) (wfq : ∀ e ∈ ((Sys.run H base sched) q).bc, MsgOk e.2.2) :
    (∀ id ∈ base.ids, ∃ mp mq, lookup ((Sys.run H base sched) p).bc sp.num id = some mp ∧
        lookup ((Sys.run H base sched) q).bc sp.num id = some mq ∧ wire mp = wire mq) ∨
    (∃ a b : Bytes, a ≠ b ∧ H a = H b) := by
  have hpi := (mem_honestIds.mp hp).1
  have hqi := (mem_honestIds.mp hq).1
  have okp := sessionOk_for ok p
  have okq := sessionOk_for ok q
  -- the facts about p's state
  have rp : Reach H (scriptFor base p) ((Sys.run H base sched) p) := by rw [run_apply]; exact run_reach H _ _
  have rq : Reach H (scriptFor base q) ((Sys.run H base sched) q) := by rw [run_apply]; exact run_reach H _ _
  have hh : Hist ((Sys.run H base sched) p) := by rw [run_apply]; exact run_hist okp _
  have hscp := reach_sc H _ _ rp
  have hscq := reach_sc H _ _ rq
  have fnx := hh (j + 1) nx (by omega) (by rw [hscp]; exact hnx) hpass
  have hpass' : Passed ((Sys.run H base sched) p) j := by
    rcases hpass with h | h
    · exact Or.inl (by omega)
    · exact Or.inr ⟨h.1, by omega⟩
  have fsp := hh j sp hj (by rw [hscp]; exact hsp) hpass'
  obtain ⟨hP, hbhP⟩ := Option.isSome_iff_exists.mp (fsp.1 hB)
  have hstamp := fnx.2.1 hP (by rw [hnum]; simpa using hbhP)
  -- q's message of round nx in p's queue
  have qkp := reach_queueKeys _ rp
  have bhokp := reach_bhOk H _ _ rp
  have hqoth : q ∈ others ((Sys.run H base sched) p).sc := by
    rw [hscp]; exact mem_others.mpr ⟨hqi, fun e => hpq e.symm⟩
  obtain ⟨mq, hst, hfrm, hrnd, hbv⟩ : ∃ mq, Stored ((Sys.run H base sched) p) mq ∧ mq.frm = q ∧ mq.rnd = nx.num ∧
      mq.bv.getD [] = hP := by
    rcases hK with hb | hpp
    · obtain ⟨y, hy⟩ := Option.isSome_iff_exists.mp (fnx.1 hb)
      have := (echoHash_some H _ _ _ y (bhokp _ _ hy)).1 q (by rw [hscp]; exact hqi)
      obtain ⟨mq, hmq⟩ := Option.isSome_iff_exists.mp this
      obtain ⟨e, he, rfl, h1, h2⟩ := lookup_keys _ _ _ _ hmq
      have k := qkp.2 e he
      exact ⟨e.2.2, Or.inr ⟨e, he, rfl⟩, by rw [← k.2.1, h2], by rw [← k.1, h1], hstamp.2 e he h1⟩
    · obtain ⟨mq, hmq⟩ := Option.isSome_iff_exists.mp (fnx.2.2 hpp q hqoth)
      obtain ⟨e, he, rfl, h1, h2⟩ := lookup_keys _ _ _ _ hmq
      have k := qkp.1 e he
      exact ⟨e.2.2, Or.inl ⟨e, he, rfl⟩, by rw [← k.2.1, h2], by rw [← k.1, h1], hstamp.1 e he h1⟩
  -- it is q's own, stamped with q's hash of its view of round sp
  have hout := stored_honest_emitted sched hc p q hp hq mq hst hfrm
  have bs : BvSome ((Sys.run H base sched) q) := by rw [run_apply]; exact run_bvSome okq _
  obtain ⟨hQ, hbvq⟩ := Option.isSome_iff_exists.mp (bs mq hout j sp hj (by rw [hscq]; exact hsp) hB (by rw [hrnd, hnum]))
  have hbhQ := reach_outBv H _ _ rq mq hout hQ hbvq
  rw [hrnd, hnum] at hbhQ
  simp only [Nat.add_sub_cancel] at hbhQ
  have heq : hQ = hP := by rw [hbvq] at hbv; exact hbv
  subst heq
  -- both hashes are hashes of the stored views
  have eP := bhokp _ _ hbhP
  have eQ := reach_bhOk H _ _ rq _ _ hbhQ
  rw [hscp, echoHash_script_congr H (scriptFor base p) base _ _ rfl rfl] at eP
  rw [hscq, echoHash_script_congr H (scriptFor base q) base _ _ rfl rfl] at eQ
  exact echoHash_agree H hH base _ _ sp.num hQ hsw wfp wfq eP eQ

/-! ### the stored broadcasts fit the wire format -/

/-- lengths and numbers of the common script fit the 8-byte fields of the wire format -/
structure SizesOk (base : Script) : Prop where
  ssid : base.ssid.length < 2 ^ 64
  proto : base.proto.length < 2 ^ 64
  ids : ∀ id ∈ base.ids, id.length < 2 ^ 64
  final : base.final < 256 ^ 8

instance (base : Script) : Decidable (SizesOk base) :=
  decidable_of_iff (base.ssid.length < 2 ^ 64 ∧ base.proto.length < 2 ^ 64 ∧ (∀ id ∈ base.ids, id.length < 2 ^ 64) ∧
      base.final < 256 ^ 8)
    ⟨fun h => ⟨h.1, h.2.1, h.2.2.1, h.2.2.2⟩, fun h => ⟨h.1, h.2, h.3, h.4⟩⟩

instance (i : Item) : Decidable i.WF := by unfold Item.WF; infer_instance

instance (m : Msg) : Decidable (MsgOk m) :=
  decidable_of_iff (m.frm ≠ [] ∧ m.rnd < 256 ^ 8 ∧ ∀ i ∈ msgHashItems m, i.WF)
    ⟨fun h => ⟨h.1, h.2.1, h.2.2⟩, fun h => ⟨h.1, h.2, h.3⟩⟩

theorem mem_delivered (sched : Sched) (p : Bytes) (m : Msg) (h : m ∈ delivered sched p) : (p, m) ∈ sched := by
  unfold delivered at h
  obtain ⟨e, he, rfl⟩ := List.mem_map.mp h
  obtain ⟨h1, h2⟩ := List.mem_filter.mp he
  have : e.1 = p := by simpa using h2
  rw [← this]; exact h1

/-- everything an honest party emits fits the wire format -/
theorem honest_out_msgOk (hH : ∀ b, (H b).length < 2 ^ 64) (ok : SessionOk base) (sz : SizesOk base) (sched : Sched)
    (q : Bytes) (hq : q ∈ base.ids) (m : Msg) (hm : m ∈ ((Sys.run H base sched) q).out) : MsgOk m := by
  have rq : Reach H (scriptFor base q) ((Sys.run H base sched) q) := by rw [run_apply]; exact run_reach H _ _
  have hsc := reach_sc H _ _ rq
  have oo : OutOk ((Sys.run H base sched) q) := by rw [run_apply]; exact run_outOk H _ _
  obtain ⟨h1, h2, h3⟩ := oo m hm
  rw [hsc] at h1 h2 h3
  have hbv : ∀ b, m.bv = some b → b.length < 2 ^ 64 := by
    intro b hb
    have := reach_bhOk H _ _ rq _ _ (reach_outBv H _ _ rq m hm b hb)
    rw [(echoHash_some H _ _ _ _ this).2]
    exact hH _
  have hfrm : m.frm ≠ [] := by
    rw [h3]; intro e
    exact ok.noEmptyId (by rw [← e]; exact hq)
  apply msgOk_of m hfrm _ (fun b hb => by rw [h1] at hb; cases hb; exact sz.ssid) (by rw [h3]; exact sz.ids q hq) _
    (by rw [h2]; exact sz.proto) _ hbv
  · rcases honest_out ok sched q m hm with ⟨h0, _⟩ | ⟨s', nx, i, _, hnx, _, hmem, _⟩
    · rw [h0]; decide
    · rw [(emitFor_fields s' nx m hmem).1]
      exact Nat.lt_of_le_of_lt (ok.inRange nx (List.mem_of_getElem? hnx)) sz.final
  · rcases honest_out ok sched q m hm with ⟨_, _, h0⟩ | ⟨s', nx, i, _, _, _, hmem, hs'⟩
    · rw [h0]; show ([] : Bytes).length < 2 ^ 64; decide
    · rcases (emitFor_wire s' nx m hmem).1 with h | h
      · rw [h]; decide
      · rw [hs'] at h; exact sz.ids _ h
  · intro b hb
    rcases honest_out ok sched q m hm with ⟨_, _, h0⟩ | ⟨s', nx, i, _, _, _, hmem, _⟩
    · rw [h0] at hb; cases hb; decide
    · obtain ⟨c, hc⟩ := (emitFor_wire s' nx m hmem).2
      rw [hc] at hb; cases hb
      exact cborContent_length c

/-- every broadcast an honest party has stored fits the wire format, provided the adversary's messages do -/
theorem stored_msgOk (hH : ∀ b, (H b).length < 2 ^ 64) (ok : SessionOk base) (sz : SizesOk base) (sched : Sched)
    (hc : ByzCausal H base x sched = true) (hadv : ∀ e ∈ sched, e.2.frm = x → MsgOk e.2) (p : Bytes)
    (hp : p ∈ honestIds base x) : ∀ e ∈ ((Sys.run H base sched) p).bc, MsgOk e.2.2 := by
  intro e he
  have hpi := (mem_honestIds.mp hp).1
  have qo := run_qOk H (scriptFor base p) (scriptFor_self_mem hpi) (delivered sched p)
  rw [← run_apply] at qo
  rcases (qo.2 e he).1 with hd | ⟨ho, _⟩
  · obtain ⟨_, hk⟩ := byz_delivered H base x sched p _ hc _ hd
    rcases hk with hk | ⟨h1, _, h3⟩
    · exact hadv (p, e.2.2) (mem_delivered sched p _ hd) hk
    · exact honest_out_msgOk hH ok sz sched _ (mem_honestIds.mp h1).1 _ h3
  · exact honest_out_msgOk hH ok sz sched p hpi _ ho

/-- the wire fields determine the hash input of a message -/
theorem wire_items (m m' : Msg) (h : wire m = wire m') : msgHashItems m = msgHashItems m' ∧ m.data = m'.data := by
  obtain ⟨ssid, frm, to, proto, rnd, data, bcast, bv, dec⟩ := m
  obtain ⟨ssid', frm', to', proto', rnd', data', bcast', bv', dec'⟩ := m'
  simp only [wire, Prod.mk.injEq] at h
  obtain ⟨rfl, rfl, rfl, rfl, rfl, rfl, rfl, rfl⟩ := h
  exact ⟨rfl, rfl⟩

/-- `view_agreement` with the hypotheses on the inputs: sizes of the script, wire-representable adversarial messages,
    and `p` past the round after the broadcast round -/
theorem honest_views_agree (hH : ∀ b, (H b).length < 2 ^ 64) (ok : SessionOk base) (sz : SizesOk base)
    (hsw : ∀ i ∈ base.sess, i.WF) (sched : Sched) (hc : ByzCausal H base x sched = true)
    (hadv : ∀ e ∈ sched, e.2.frm = x → MsgOk e.2) (p q : Bytes) (hp : p ∈ honestIds base x)
    (hq : q ∈ honestIds base x) (hpq : p ≠ q) (j : Nat) (sp nx : RoundSpec) (hj : 1 ≤ j)
    (hsp : base.rounds[j]? = some sp) (hnx : base.rounds[j + 1]? = some nx) (hnum : nx.num = sp.num + 1)
    (hB : sp.recvB = true) (hK : nx.recvB = true ∨ nx.recvP = true)
    (hpast : pastRound ((Sys.run H base sched) p) nx.num = true) :
    (∀ id ∈ base.ids, ∃ mp mq, lookup ((Sys.run H base sched) p).bc sp.num id = some mp ∧
        lookup ((Sys.run H base sched) q).bc sp.num id = some mq ∧ wire mp = wire mq) ∨
    (∃ a b : Bytes, a ≠ b ∧ H a = H b) := by
  have rp : Reach H (scriptFor base p) ((Sys.run H base sched) p) := by rw [run_apply]; exact run_reach H _ _
  have fin : Final ((Sys.run H base sched) p) := by rw [run_apply]; exact run_final _
  exact view_agreement hH ok hsw sched hc p q hp hq hpq j sp nx hj hsp hnx hnum hB hK
    (passed_of_past (sessionOk_for ok p) _ rp fin (j + 1) nx hnx hpast)
    (stored_msgOk hH ok sz sched hc hadv p hp) (stored_msgOk hH ok sz sched hc hadv q hq)

end

end Mps.System
