import MpsProofs.OTBits
import MpsProofs.OTClmul
import Mps.OT.Extend
/-
  correlated.go / extended.go: the correlated-OT relation for every row, the extended-OT pads
  agree with the receiver's choice, and an honest receiver always passes the sender's (KOS-style)
  consistency check — for ANY PRG / hash outputs.
-/
namespace Mps.OT
open Polynomial

variable {F : Type}

theorem forRange_succ {α : Type} (n : Nat) (init : α) (body : α → Nat → α) :
    forRange (n + 1) init body = body (forRange n init body) n := by
  simp [forRange, List.range_succ, List.foldl_append]

theorem testBit_maskBit (c : Bool) (v k : Nat) : (maskBit c v).testBit k = (c && v.testBit k) := by
  cases c <;> simp [maskBit]

/-! ### correlated OT -/

/-- column `k` of the sender's matrix: Q[k] = T0[k] ⊕ (Δ_k · x) -/
theorem correSend_col (h : OTHash F) (ss : CorreSendSetup) (rs : CorreRecvSetup) (hrel : SetupRel ss rs)
    (l x k : Nat) (hk : k < otParam) :
    h.prg (ss.kDelta.getD k 0) l ^^^ maskBit (bitAt k ss.delta) ((correReceive h rs l x).1.getD k 0)
      = h.prg (rs.k0.getD k 0) l ^^^ maskBit (ss.delta.testBit k) x := by
  unfold correReceive
  simp only [getD_map_range _ _ _ _ hk, hrel.2 k hk, bitAt]
  cases ss.delta.testBit k
  · simp [maskBit]
  · simp only [maskBit, if_true]
    rw [Nat.xor_comm (h.prg (rs.k0.getD k 0) l) (h.prg (rs.k1.getD k 0) l), Nat.xor_assoc,
      ← Nat.xor_assoc (h.prg (rs.k1.getD k 0) l), Nat.xor_self, Nat.zero_xor]

/-- **corre_relation**: for every row `j` of the batch, q_j = t_j ⊕ (x_j · Δ) -/
theorem corre_relation (h : OTHash F) (ss : CorreSendSetup) (rs : CorreRecvSetup) (hrel : SetupRel ss rs)
    (l x j : Nat) (hj : j < l) :
    (correSend h ss l (correReceive h rs l x).1).getD j 0
      = (correReceive h rs l x).2.getD j 0 ^^^ maskBit (x.testBit j) ss.delta := by
  have hT : (correReceive h rs l x).2
      = transposeBits l ((List.range otParam).map fun i => h.prg (rs.k0.getD i 0) l) := rfl
  unfold correSend
  rw [hT, transposeBits_getD _ _ _ hj, transposeBits_getD _ _ _ hj]
  apply Nat.eq_of_testBit_eq
  intro k
  rw [Nat.testBit_xor, transposeRow_testBit, transposeRow_testBit, testBit_maskBit]
  by_cases hk : k < otParam
  · simp only [hk, decide_true, Bool.true_and, getD_map_range _ _ _ _ hk]
    rw [correSend_col h ss rs hrel l x k hk, Nat.testBit_xor, testBit_maskBit]
    cases ss.delta.testBit k <;> cases x.testBit j <;> simp
  · have hd : ss.delta.testBit k = false :=
      Nat.testBit_lt_two_pow (Nat.lt_of_lt_of_le hrel.1 (Nat.pow_le_pow_right (by decide) (by omega)))
    simp [hk, hd]

theorem correSend_getD_lt (h : OTHash F) (ss : CorreSendSetup) (l : Nat) (U : List Nat) (j : Nat) :
    (correSend h ss l U).getD j 0 < 2 ^ otParam := by
  unfold correSend
  by_cases hj : j < l
  · rw [transposeBits_getD _ _ _ hj]; exact transposeRow_lt _ _
  · unfold transposeBits
    rw [getD_map_range_ge _ _ _ _ (by omega)]; exact Nat.two_pow_pos _

theorem correReceive_getD_lt (h : OTHash F) (rs : CorreRecvSetup) (l x : Nat) (j : Nat) :
    (correReceive h rs l x).2.getD j 0 < 2 ^ otParam := by
  unfold correReceive
  by_cases hj : j < l
  · simp only; rw [transposeBits_getD _ _ _ hj]; exact transposeRow_lt _ _
  · simp only; unfold transposeBits
    rw [getD_map_range_ge _ _ _ _ (by omega)]; exact Nat.two_pow_pos _

/-! ### extended OT -/

theorem inflated_testBit_lt (l choices extra i : Nat) (hi : i < l) :
    (inflatedChoices l choices extra).testBit i = choices.testBit i := by
  unfold inflatedChoices
  rw [Nat.testBit_or, Nat.testBit_shiftLeft]
  have : ¬ (i ≥ l) := by omega
  simp [this]

/-- the pads the sender would compute (after its check) -/
def senderPads (h : OTHash F) (ss : CorreSendSetup) (l : Nat) (U : List Nat) : List Nat × List Nat :=
  let Q := correSend h ss (inflate l) U
  ((List.range l).map fun i => h.pad i (Q.getD i 0),
   (List.range l).map fun i => h.pad i (Q.getD i 0 ^^^ ss.delta))

theorem extSend_cases (h : OTHash F) (ss : CorreSendSetup) (l : Nat) (msg : ExtMsg) :
    extSend h ss l msg = none ∨ extSend h ss l msg = some (senderPads h ss l msg.U) := by
  unfold extSend senderPads
  simp only
  split
  · left; rfl
  · right; rfl

/-- **ext_ot_choice**: for every `i` of the batch the receiver's pad `VChoice[i]` is the sender's
    `V1[i]` if its choice bit is set and `V0[i]` otherwise. -/
theorem ext_ot_choice (h : OTHash F) (ss : CorreSendSetup) (rs : CorreRecvSetup) (hrel : SetupRel ss rs)
    (l choices extra i : Nat) (hi : i < l) :
    let r := extReceive h rs l choices extra
    let sp := senderPads h ss l r.1.U
    r.2.getD i 0 = if choices.testBit i then sp.2.getD i 0 else sp.1.getD i 0 := by
  intro r sp
  have hU : r.1.U = (correReceive h rs (inflate l) (inflatedChoices l choices extra)).1 := rfl
  have hV : r.2 = (List.range l).map fun i =>
      h.pad i ((correReceive h rs (inflate l) (inflatedChoices l choices extra)).2.getD i 0) := rfl
  have hil : i < inflate l := by unfold inflate; omega
  have hq := corre_relation h ss rs hrel (inflate l) (inflatedChoices l choices extra) i hil
  rw [inflated_testBit_lt _ _ _ _ hi] at hq
  show r.2.getD i 0 = if choices.testBit i then (senderPads h ss l r.1.U).2.getD i 0
    else (senderPads h ss l r.1.U).1.getD i 0
  unfold senderPads
  simp only
  rw [hV, getD_map_range _ _ _ _ hi, getD_map_range _ _ _ _ hi, getD_map_range _ _ _ _ hi, hU, hq]
  cases choices.testBit i
  · simp [maskBit]
  · simp only [maskBit, if_true]
    rw [Nat.xor_assoc, Nat.xor_self, Nat.xor_zero]

/-! ### the consistency check -/

theorem toPoly_accumulate (f a b : Nat) (ha : a < 2 ^ 128) (hb : b < 2 ^ 128) :
    toPoly (accumulate f a b) = toPoly f + toPoly a * toPoly b := by
  unfold accumulate
  rw [toPoly_xor, clmulCoded_poly a b ha hb]

theorem toPoly_accFold (R C : Nat → Nat) (n : Nat) (hR : ∀ i, R i < 2 ^ 128) (hC : ∀ i, C i < 2 ^ 128) :
    toPoly (forRange n 0 fun acc i => accumulate acc (R i) (C i))
      = ∑ i ∈ Finset.range n, toPoly (R i) * toPoly (C i) := by
  induction n with
  | zero => simp [forRange]
  | succ n ih => rw [forRange_succ, toPoly_accumulate _ _ _ (hR n) (hC n), ih, Finset.sum_range_succ]

theorem toPoly_selFold (x : Nat) (C : Nat → Nat) (n : Nat) :
    toPoly (forRange n 0 fun acc i => acc ^^^ maskBit (bitAt i x) (C i))
      = ∑ i ∈ Finset.range n, if x.testBit i then toPoly (C i) else 0 := by
  induction n with
  | zero => simp [forRange]
  | succ n ih => rw [forRange_succ, toPoly_xor, ih, toPoly_maskBit, Finset.sum_range_succ]; rfl

theorem selFold_lt (x : Nat) (C : Nat → Nat) (n : Nat) (hC : ∀ i, C i < 2 ^ 128) :
    (forRange n 0 fun acc i => acc ^^^ maskBit (bitAt i x) (C i)) < 2 ^ 128 := by
  induction n with
  | zero => simp [forRange]
  | succ n ih =>
    rw [forRange_succ]
    exact Nat.xor_lt_two_pow ih (maskBit_lt _ _ _ (hC n))

theorem poly_add_self (p : (ZMod 2)[X]) : p + p = 0 := by
  ext k
  rw [coeff_add, coeff_zero]
  exact CharTwo.add_self_eq_zero _

/-- the check weights are 128-bit blocks (they are read into `[params.OTBytes]byte`) -/
def ChiOK (h : OTHash F) : Prop := ∀ U n i, (h.chis U n).getD i 0 < 2 ^ otParam

/-- **kos_check_complete**: on the message of an honest receiver (any choices, any extra bits, any
    hash outputs) the sender's check `q == T` passes: the extended OT does not abort. -/
theorem kos_check_complete (h : OTHash F) (hchi : ChiOK h) (ss : CorreSendSetup) (rs : CorreRecvSetup)
    (hrel : SetupRel ss rs) (l choices extra : Nat) :
    let r := extReceive h rs l choices extra
    extSend h ss l r.1 = some (senderPads h ss l r.1.U) := by
  intro r
  rcases extSend_cases h ss l r.1 with hnone | hsome
  swap
  · exact hsome
  exfalso
  -- unfold the check and show q = T
  set x := inflatedChoices l choices extra with hx
  set n := inflate l with hn
  have hU : r.1.U = (correReceive h rs n x).1 := rfl
  set chi := h.chis r.1.U n with hchi'
  have hX : r.1.X = forRange n 0 fun acc i => acc ^^^ maskBit (bitAt i x) (chi.getD i 0) := rfl
  have hT : r.1.T = forRange n 0 fun acc i =>
      accumulate acc ((correReceive h rs n x).2.getD i 0) (chi.getD i 0) := rfl
  have hC : ∀ i, chi.getD i 0 < 2 ^ 128 := fun i => hchi _ _ i
  have hq : accumulate (forRange n 0 fun acc i =>
        accumulate acc ((correSend h ss n r.1.U).getD i 0) (chi.getD i 0)) r.1.X ss.delta = r.1.T := by
    apply toPoly_inj
    rw [toPoly_accumulate _ _ _ (by rw [hX]; exact selFold_lt _ _ _ hC) hrel.1,
      toPoly_accFold _ _ _ (fun i => correSend_getD_lt h ss n _ i) hC, hT,
      toPoly_accFold _ _ _ (fun i => correReceive_getD_lt h rs n x i) hC, hX, toPoly_selFold,
      Finset.sum_mul, ← Finset.sum_add_distrib]
    apply Finset.sum_congr rfl
    intro i hi
    have hi' := Finset.mem_range.mp hi
    rw [hU, corre_relation h ss rs hrel n x i hi', toPoly_xor, toPoly_maskBit]
    by_cases hb : x.testBit i
    · simp only [hb, if_true]
      have := poly_add_self (toPoly ss.delta * toPoly (chi.getD i 0))
      calc (toPoly ((correReceive h rs n x).2.getD i 0) + toPoly ss.delta) * toPoly (chi.getD i 0)
            + toPoly (chi.getD i 0) * toPoly ss.delta
          = toPoly ((correReceive h rs n x).2.getD i 0) * toPoly (chi.getD i 0)
            + (toPoly ss.delta * toPoly (chi.getD i 0) + toPoly ss.delta * toPoly (chi.getD i 0)) := by ring
        _ = _ := by rw [this, add_zero]
    · simp [hb]
  unfold extSend at hnone
  simp only at hnone
  rw [if_neg (by rw [hq]; simp)] at hnone
  simp at hnone

end Mps.OT
