import Mps.Handler
/-
  Lemmas for M5 (handler lifecycle). Core-only.
-/
namespace Mps.Handler

/-- the lifecycle-relevant part of the state is unchanged -/
def SameLife (a b : State) : Prop :=
  a.err = b.err ∧ a.result = b.result ∧ a.closes = b.closes ∧ a.sc = b.sc ∧ a.out = b.out

theorem SameLife.refl (a : State) : SameLife a a := ⟨rfl, rfl, rfl, rfl, rfl⟩
theorem SameLife.trans {a b c : State} (h1 : SameLife a b) (h2 : SameLife b c) : SameLife a c :=
  ⟨h1.1.trans h2.1, h1.2.1.trans h2.2.1, h1.2.2.1.trans h2.2.2.1, h1.2.2.2.1.trans h2.2.2.2.1,
   h1.2.2.2.2.trans h2.2.2.2.2⟩

theorem store_sameLife (s : State) (m : Msg) : SameLife s (store s m) := by
  unfold store
  split
  · exact SameLife.refl s
  · split <;> split <;> simp [SameLife]

/-- everything except the protocol-local accumulators is unchanged -/
def SameCore (a b : State) : Prop :=
  a.sc = b.sc ∧ a.idx = b.idx ∧ a.cur = b.cur ∧ a.reached = b.reached ∧ a.msgs = b.msgs ∧ a.bc = b.bc ∧ a.bh = b.bh ∧
  a.err = b.err ∧ a.result = b.result ∧ a.out = b.out ∧ a.closes = b.closes

theorem SameCore.refl (a : State) : SameCore a a := ⟨rfl, rfl, rfl, rfl, rfl, rfl, rfl, rfl, rfl, rfl, rfl⟩
theorem SameCore.trans {a b c : State} (h1 : SameCore a b) (h2 : SameCore b c) : SameCore a c := by
  obtain ⟨a1, a2, a3, a4, a5, a6, a7, a8, a9, a10, a11⟩ := h1
  obtain ⟨b1, b2, b3, b4, b5, b6, b7, b8, b9, b10, b11⟩ := h2
  exact ⟨a1.trans b1, a2.trans b2, a3.trans b3, a4.trans b4, a5.trans b5, a6.trans b6, a7.trans b7, a8.trans b8,
    a9.trans b9, a10.trans b10, a11.trans b11⟩
theorem SameCore.toSameLife {a b : State} (h : SameCore a b) : SameLife a b :=
  ⟨h.2.2.2.2.2.2.2.1, h.2.2.2.2.2.2.2.2.1, h.2.2.2.2.2.2.2.2.2.2, h.1, h.2.2.2.2.2.2.2.2.2.1⟩

theorem roundStoreP2P_sameCore (s s' : State) (m : Msg) (h : roundStoreP2P s m = some s') : SameCore s s' := by
  unfold roundStoreP2P at h
  split at h
  · simp at h
  · split at h
    · simp at h
    · simp at h; subst h; simp [SameCore]

theorem roundStoreBcast_sameCore (s s' : State) (m : Msg) (h : roundStoreBcast s m = some s') : SameCore s s' := by
  unfold roundStoreBcast at h
  split at h
  · simp at h
  · split at h
    · simp at h
    · simp at h; subst h; simp [SameCore]

theorem verifyMessage_sameCore (s s' : State) (m : Msg) (h : verifyMessage s m = .ok s') : SameCore s s' := by
  unfold verifyMessage at h
  split at h
  · simp at h; subst h; exact SameCore.refl _
  · split at h
    · simp at h; subst h; exact SameCore.refl _
    · split at h
      · simp at h
      · split at h
        · simp at h
        · split at h
          · simp at h
          · next s2 hs =>
            simp at h; subst h
            exact roundStoreP2P_sameCore s _ m hs

theorem verifyBroadcastMessage_sameCore (s s' : State) (m : Msg) (h : verifyBroadcastMessage s m = .ok s') :
    SameCore s s' := by
  unfold verifyBroadcastMessage at h
  split at h
  · simp at h; subst h; exact SameCore.refl _
  · split at h
    · simp at h
    · split at h
      · simp at h
      · split at h
        · simp at h
        · next s1 h1 =>
          have l1 := roundStoreBcast_sameCore s s1 m h1
          split at h
          · simp at h; subst h; exact l1
          · split at h
            · simp at h; subst h; exact l1
            · exact l1.trans (verifyMessage_sameCore s1 s' _ h)

theorem roundStoreP2P_sameLife (s s' : State) (m : Msg) (h : roundStoreP2P s m = some s') : SameLife s s' :=
  (roundStoreP2P_sameCore s s' m h).toSameLife
theorem roundStoreBcast_sameLife (s s' : State) (m : Msg) (h : roundStoreBcast s m = some s') : SameLife s s' :=
  (roundStoreBcast_sameCore s s' m h).toSameLife
theorem verifyMessage_sameLife (s s' : State) (m : Msg) (h : verifyMessage s m = .ok s') : SameLife s s' :=
  (verifyMessage_sameCore s s' m h).toSameLife
theorem verifyBroadcastMessage_sameLife (s s' : State) (m : Msg) (h : verifyBroadcastMessage s m = .ok s') :
    SameLife s s' := (verifyBroadcastMessage_sameCore s s' m h).toSameLife

theorem fillBh_sameLife (H : Bytes → Bytes) (s : State) : SameLife s (fillBh H s) := by
  unfold fillBh
  split
  · split
    · split <;> simp [SameLife]
    · exact SameLife.refl s
  · exact SameLife.refl s

theorem failOf_sameCore (r : VRes) (frm : Bytes) (st s0 : State) (h : SameCore s0 st)
    (hr : ∀ st', r = .ok st' → SameCore st st') : SameCore s0 (failOf r frm st).1 := by
  cases r with
  | ok st' => exact h.trans (hr st' rfl)
  | bad => exact h
  | echo => exact h

theorem replayStep_sameCore (sp : RoundSpec) (n : Nat) (acc : State × Option Fail) (id : Bytes) (s0 : State)
    (h : SameCore s0 acc.1) : SameCore s0 (replayStep sp n acc id).1 := by
  obtain ⟨st, c⟩ := acc
  cases c with
  | some c => exact h
  | none =>
    simp only [replayStep]
    split
    · split
      · exact h
      · split
        · exact h
        · next m _ => exact failOf_sameCore _ _ _ _ h (fun st' hv => verifyBroadcastMessage_sameCore _ _ _ hv)
    · split
      · exact h
      · next m _ => exact failOf_sameCore _ _ _ _ h (fun st' hv => verifyMessage_sameCore _ _ _ hv)

theorem replayQueued_sameCore (s : State) : SameCore s (replayQueued s).1 := by
  unfold replayQueued
  generalize s.sc.ids = ids
  suffices h : ∀ (acc : State × Option Fail), SameCore s acc.1 →
      SameCore s (List.foldl (replayStep (curSpec s) s.cur) acc ids).1 from h (s, none) (SameCore.refl s)
  induction ids with
  | nil => intro acc h; exact h
  | cons id ids ih =>
    intro acc h
    rw [List.foldl_cons]
    exact ih _ (replayStep_sameCore (curSpec s) s.cur acc id s h)

theorem replayQueued_sameLife (s : State) : SameLife s (replayQueued s).1 := (replayQueued_sameCore s).toSameLife

/-- running: channel open, neither result nor error -/
def Live (s : State) : Prop := s.closes = 0 ∧ s.err = none ∧ s.result = none
/-- ended: channel closed exactly once, and exactly one of result / error is set -/
def Done (s : State) : Prop :=
  s.closes = 1 ∧ ((s.err.isSome = true ∧ s.result = none) ∨ (s.err = none ∧ s.result.isSome = true))
def Good (s : State) : Prop := Live s ∨ Done s

theorem Live.of_sameLife {s s' : State} (h : SameLife s s') (l : Live s) : Live s' :=
  ⟨h.2.2.1 ▸ l.1, h.1 ▸ l.2.1, h.2.1 ▸ l.2.2⟩

theorem abort_some_done (s : State) (k : ErrKind) (l : Live s) : Done (abort s (some k)) := by
  obtain ⟨h1, h2, h3⟩ := l
  simp [abort, Done, h1, h3]

theorem terminal_of_done {s : State} (d : Done s) : terminal s = true := by
  rcases d.2 with ⟨h, _⟩ | ⟨_, h⟩ <;> simp [terminal, h]

theorem not_terminal_of_live {s : State} (l : Live s) : terminal s = false := by
  simp [terminal, l.2.1, l.2.2]

theorem foldStore_sameLife (ems : List Msg) (s : State) :
    SameLife s (ems.foldl (fun st m => if m.bcast then store st m else st) s) := by
  induction ems generalizing s with
  | nil => exact SameLife.refl s
  | cons m ms ih =>
    rw [List.foldl_cons]
    split
    · exact (store_sameLife s m).trans (ih _)
    · exact ih _

/-- `sendAll` appends to `out` and changes nothing else of the lifecycle -/
theorem sendAll_frame (s : State) (ems : List Msg) :
    (sendAll s ems).err = s.err ∧ (sendAll s ems).result = s.result ∧ (sendAll s ems).closes = s.closes ∧
    (sendAll s ems).sc = s.sc ∧ (sendAll s ems).out = s.out ++ ems := by
  unfold sendAll
  have := foldStore_sameLife ems s
  exact ⟨this.1.symm, this.2.1.symm, this.2.2.1.symm, this.2.2.2.1.symm, by simp [this.2.2.2.2]⟩

theorem store_idx (s : State) (m : Msg) : (store s m).idx = s.idx ∧ (store s m).cur = s.cur := by
  unfold store
  split
  · exact ⟨rfl, rfl⟩
  · split <;> split <;> exact ⟨rfl, rfl⟩

theorem sendAll_idx (s : State) (ems : List Msg) : (sendAll s ems).idx = s.idx := by
  unfold sendAll
  simp only
  induction ems generalizing s with
  | nil => rfl
  | cons m ms ih =>
    rw [List.foldl_cons]
    split
    · rw [ih, (store_idx s m).1]
    · exact ih _

theorem sendAll_live (s : State) (ems : List Msg) (l : Live s) : Live (sendAll s ems) := by
  have f := sendAll_frame s ems
  exact ⟨f.2.2.1 ▸ l.1, f.1 ▸ l.2.1, f.2.1 ▸ l.2.2⟩

theorem enter_sameLife (s : State) (i : Nat) (nx : RoundSpec) : SameLife s (enter s i nx) := ⟨rfl, rfl, rfl, rfl, rfl⟩
theorem enter0_sameLife (s : State) : SameLife s (enter0 s) := ⟨rfl, rfl, rfl, rfl, rfl⟩

/-- one pass of `finalize` from a running state: it either returns in a good state, or continues running -/
def Step.ok : Step → Prop
  | .halt s' => Good s'
  | .more s' => Live s'

theorem finalizeStep_good (H : Bytes → Bytes) (s : State) (l : Live s) : (finalizeStep H s).ok := by
  have l1 : Live (fillBh H s) := l.of_sameLife (fillBh_sameLife H s)
  unfold finalizeStep
  simp only
  split
  · exact Or.inl l1
  · split
    · exact Or.inr (abort_some_done _ _ l1)
    · split
      · exact Or.inr (abort_some_done _ _ l1)
      · split
        · exact Or.inl l1
        · exact Or.inr (abort_some_done _ _ (l1.of_sameLife (enter0_sameLife _)))
      · split
        · exact Or.inl l1
        · right
          obtain ⟨h1, h2, h3⟩ := l1
          simp [abort, Done, enter0, h1, h2]
      · next i nx _ =>
        have l3 := sendAll_live (fillBh H s) (emitFor (fillBh H s) nx) l1
        split
        · exact Or.inl l3
        · have l4 := l3.of_sameLife (enter_sameLife _ i nx)
          split
          · next s5 culprit hq =>
            have := replayQueued_sameLife (enter (sendAll (fillBh H s) (emitFor (fillBh H s) nx)) i nx)
            rw [hq] at this
            exact Or.inr (abort_some_done _ _ (l4.of_sameLife this))
          · next s5 hq =>
            have := replayQueued_sameLife (enter (sendAll (fillBh H s) (emitFor (fillBh H s) nx)) i nx)
            rw [hq] at this
            exact l4.of_sameLife this

theorem finalize_good (H : Bytes → Bytes) (fuel : Nat) (s : State) (l : Live s) : Good (finalize H fuel s) := by
  induction fuel generalizing s with
  | zero => exact Or.inl l
  | succ fuel ih =>
    unfold finalize
    have := finalizeStep_good H s l
    split
    · next s' h => rw [h] at this; exact this
    · next s' h => rw [h] at this; exact ih s' this

theorem init_good (H : Bytes → Bytes) (sc : Script) : Good (init H sc) := by
  unfold init
  exact finalize_good H _ _ ⟨rfl, rfl, rfl⟩

theorem accept_good (H : Bytes → Bytes) (s : State) (m : Msg) (g : Good s) : Good (accept H s m) := by
  unfold accept
  split
  · exact g
  · next hc =>
    have hl : Live s := by
      rcases g with l | d
      · exact l
      · simp [terminal_of_done d] at hc
    split
    · exact Or.inr (abort_some_done _ _ hl)
    · have l1 := hl.of_sameLife (store_sameLife s m)
      unfold acceptStored
      split
      · exact Or.inl l1
      · split
        · exact Or.inr (abort_some_done _ _ l1)
        · exact Or.inr (abort_some_done _ _ l1)
        · next s2 hv =>
          apply finalize_good
          split at hv
          · exact l1.of_sameLife (verifyBroadcastMessage_sameLife _ _ _ hv)
          · exact l1.of_sameLife (verifyMessage_sameLife _ _ _ hv)

theorem stop_good (s : State) (g : Good s) : Good (stop s) := by
  unfold stop
  split
  · exact g
  · next hc =>
    rcases g with l | d
    · exact Or.inr (abort_some_done _ _ l)
    · simp [terminal_of_done d] at hc

/-- once ended, every further call leaves the whole state unchanged -/
theorem accept_terminal (H : Bytes → Bytes) (s : State) (m : Msg) (h : terminal s = true) : accept H s m = s := by
  simp [accept, h]

theorem stop_terminal (s : State) (h : terminal s = true) : stop s = s := by simp [stop, h]

/-! ### every message a handler emits carries its own session tag, protocol id and sender -/

def HeaderOk (sc : Script) (m : Msg) : Prop := m.ssid = some sc.ssid ∧ m.proto = sc.proto ∧ m.frm = sc.self

def OutOk (s : State) : Prop := ∀ m ∈ s.out, HeaderOk s.sc m

theorem OutOk.of_sameLife {s s' : State} (h : SameLife s s') (o : OutOk s) : OutOk s' := by
  intro m hm
  rw [← h.2.2.2.2] at hm
  rw [← h.2.2.2.1]
  exact o m hm

theorem abort_outOk (s : State) (e : Option ErrKind) (o : OutOk s) : OutOk (abort s e) := by
  cases e with
  | none => exact o
  | some k =>
    intro m hm
    simp only [abort, List.mem_append, List.mem_singleton] at hm
    rcases hm with hm | rfl
    · exact o m hm
    · exact ⟨rfl, rfl, rfl⟩

theorem emitFor_header (s : State) (nx : RoundSpec) : ∀ m ∈ emitFor s nx, HeaderOk s.sc m := by
  intro m hm
  simp only [emitFor, List.mem_append] at hm
  rcases hm with hm | hm
  · split at hm
    · simp only [List.mem_singleton] at hm; subst hm; exact ⟨rfl, rfl, rfl⟩
    · simp at hm
  · split at hm
    · simp only [List.mem_map] at hm
      obtain ⟨id, _, rfl⟩ := hm
      exact ⟨rfl, rfl, rfl⟩
    · simp at hm

theorem sendAll_outOk (s : State) (nx : RoundSpec) (o : OutOk s) : OutOk (sendAll s (emitFor s nx)) := by
  have f := sendAll_frame s (emitFor s nx)
  intro m hm
  rw [f.2.2.2.2] at hm
  rw [f.2.2.2.1]
  rcases List.mem_append.mp hm with hm | hm
  · exact o m hm
  · exact emitFor_header s nx m hm

/-- a state predicate that survives every elementary transition of the handler -/
structure Preserved (H : Bytes → Bytes) (P : State → Prop) : Prop where
  onCore : ∀ {s s' : State}, SameCore s s' → P s → P s'
  onStore : ∀ (s : State) (m : Msg), P s → P (store s m)
  onFill : ∀ (s : State), P s → P (fillBh H s)
  onAbort : ∀ (s : State) (e : Option ErrKind), P s → P (abort s e)
  onSend : ∀ (s : State) (nx : RoundSpec), P s → P (sendAll s (emitFor s nx))
  onEnter : ∀ (s : State) (i : Nat) (nx : RoundSpec), s.sc.rounds[i]? = some nx → i = s.idx + 1 → P s → P (enter s i nx)
  onEnter0 : ∀ (s : State), P s → P (enter0 s)
  onOutput : ∀ (s : State) (v : Nat), P s → P { enter0 s with result := some v }

def Step.st : Step → State
  | .halt s => s
  | .more s => s

theorem protoFinalize_round (s : State) (i : Nat) (nx : RoundSpec) (h : protoFinalize s = .round i nx) :
    s.sc.rounds[i]? = some nx ∧ i = s.idx + 1 := by
  unfold protoFinalize at h
  split at h
  · simp at h
  · split at h
    · simp at h
    · split at h
      · next nx' hnx =>
        simp only [Next.round.injEq] at h
        obtain ⟨rfl, rfl⟩ := h
        exact ⟨hnx, rfl⟩
      · simp at h

theorem finalizeStep_pres {H : Bytes → Bytes} {P : State → Prop} (hp : Preserved H P) (s : State) (o : P s) :
    P (finalizeStep H s).st := by
  have o1 : P (fillBh H s) := hp.onFill s o
  unfold finalizeStep
  simp only
  split
  · (simp only [Step.st]; exact o1)
  · split
    · (simp only [Step.st]; exact hp.onAbort _ _ o1)
    · split
      · (simp only [Step.st]; exact hp.onAbort _ _ o1)
      · split
        · (simp only [Step.st]; exact o1)
        · (simp only [Step.st]; exact hp.onAbort _ _ (hp.onEnter0 _ o1))
      · split
        · (simp only [Step.st]; exact o1)
        · (simp only [Step.st]; exact hp.onAbort _ _ (hp.onOutput _ _ o1))
      · next i nx hpf =>
        have o3 := hp.onSend (fillBh H s) nx o1
        have hr := protoFinalize_round _ i nx hpf
        have hsc : (sendAll (fillBh H s) (emitFor (fillBh H s) nx)).sc = (fillBh H s).sc :=
          (sendAll_frame _ _).2.2.2.1
        have hidx : (sendAll (fillBh H s) (emitFor (fillBh H s) nx)).idx = (fillBh H s).idx := sendAll_idx _ _
        split
        · (simp only [Step.st]; exact o3)
        · have o4 := hp.onEnter _ i nx (hsc ▸ hr.1) (hidx ▸ hr.2) o3
          split
          · next s5 culprit hq =>
            have := replayQueued_sameCore (enter (sendAll (fillBh H s) (emitFor (fillBh H s) nx)) i nx)
            rw [hq] at this
            simp only [Step.st]; exact hp.onAbort _ _ (hp.onCore this o4)
          · next s5 hq =>
            have := replayQueued_sameCore (enter (sendAll (fillBh H s) (emitFor (fillBh H s) nx)) i nx)
            rw [hq] at this
            simp only [Step.st]; exact hp.onCore this o4

theorem finalize_pres {H : Bytes → Bytes} {P : State → Prop} (hp : Preserved H P) (fuel : Nat) (s : State) (o : P s) :
    P (finalize H fuel s) := by
  induction fuel generalizing s with
  | zero => exact o
  | succ fuel ih =>
    unfold finalize
    have := finalizeStep_pres hp s o
    split
    · next s' h => rw [h] at this; exact this
    · next s' h => rw [h] at this; exact ih s' this

theorem accept_pres {H : Bytes → Bytes} {P : State → Prop} (hp : Preserved H P) (s : State) (m : Msg) (o : P s) :
    P (accept H s m) := by
  unfold accept
  split
  · exact o
  · split
    · exact hp.onAbort _ _ o
    · have o1 := hp.onStore s m o
      unfold acceptStored
      split
      · exact o1
      · split
        · exact hp.onAbort _ _ o1
        · exact hp.onAbort _ _ o1
        · next s2 hv =>
          apply finalize_pres hp
          split at hv
          · exact hp.onCore (verifyBroadcastMessage_sameCore _ _ _ hv) o1
          · exact hp.onCore (verifyMessage_sameCore _ _ _ hv) o1

theorem stop_pres {H : Bytes → Bytes} {P : State → Prop} (hp : Preserved H P) (s : State) (o : P s) : P (stop s) := by
  unfold stop
  split
  · exact o
  · exact hp.onAbort _ _ o

/-- predicates that only look at the lifecycle part are preserved as soon as they survive the
    transitions that change it -/
theorem preserved_of_sameLife (H : Bytes → Bytes) (P : State → Prop)
    (hl : ∀ {s s' : State}, SameLife s s' → P s → P s')
    (ha : ∀ (s : State) (e : Option ErrKind), P s → P (Handler.abort s e))
    (hs : ∀ (s : State) (nx : RoundSpec), P s → P (sendAll s (emitFor s nx)))
    (ho : ∀ (s : State) (v : Nat), P s → P { enter0 s with result := some v }) : Preserved H P where
  onCore := fun h o => hl h.toSameLife o
  onStore := fun s m o => hl (store_sameLife s m) o
  onFill := fun s o => hl (fillBh_sameLife H s) o
  onAbort := ha
  onSend := hs
  onEnter := fun s i nx _ _ o => hl (enter_sameLife s i nx) o
  onEnter0 := fun s o => hl (enter0_sameLife s) o
  onOutput := ho

theorem outOk_preserved (H : Bytes → Bytes) : Preserved H OutOk :=
  preserved_of_sameLife H OutOk (fun h o => o.of_sameLife h) abort_outOk sendAll_outOk (fun _ _ o => o)

/-- the script of a handler never changes -/
theorem sc_preserved (H : Bytes → Bytes) (sc : Script) : Preserved H (fun s => s.sc = sc) :=
  preserved_of_sameLife H _ (fun h o => h.2.2.2.1 ▸ o)
    (fun s e o => by cases e <;> simpa [Handler.abort] using o)
    (fun s nx o => (sendAll_frame s (emitFor s nx)).2.2.2.1 ▸ o)
    (fun _ _ o => o)

theorem init_outOk (H : Bytes → Bytes) (sc : Script) : OutOk (init H sc) := by
  unfold init
  apply finalize_pres (outOk_preserved H)
  intro m hm
  simp [state0] at hm

theorem init_sc (H : Bytes → Bytes) (sc : Script) : (init H sc).sc = sc := by
  unfold init
  exact finalize_pres (sc_preserved H sc) _ _ rfl

theorem run_pres {H : Bytes → Bytes} {P : State → Prop} (hp : Preserved H P) (sc : Script) (calls : List Call)
    (h0 : P (init H sc)) : P (run H sc calls) := by
  unfold run
  generalize init H sc = s at h0
  induction calls generalizing s with
  | nil => exact h0
  | cons c cs ih =>
    apply ih
    cases c <;> simp only [apply]
    · exact accept_pres hp s _ h0
    · exact h0
    · exact h0
    · exact h0
    · exact stop_pres hp s h0

theorem run_sc (H : Bytes → Bytes) (sc : Script) (calls : List Call) : (run H sc calls).sc = sc :=
  run_pres (sc_preserved H sc) sc calls (init_sc H sc)

theorem run_outOk (H : Bytes → Bytes) (sc : Script) (calls : List Call) : OutOk (run H sc calls) :=
  run_pres (outOk_preserved H) sc calls (init_outOk H sc)

/-! ### every state a handler passes through (also inside a call) -/

/-- states reachable from the freshly built handler through the elementary transitions that `finalize`,
    `Accept` and `Stop` are composed of — this includes every intermediate state inside a call -/
inductive Reach (H : Bytes → Bytes) (sc : Script) : State → Prop where
  | start : Reach H sc (state0 sc)
  | core {s s' : State} : Reach H sc s → SameCore s s' → Reach H sc s'
  | store {s : State} (m : Msg) : Reach H sc s → Reach H sc (Handler.store s m)
  | fill {s : State} : Reach H sc s → Reach H sc (fillBh H s)
  | abort {s : State} (e : Option ErrKind) : Reach H sc s → Reach H sc (Handler.abort s e)
  | send {s : State} (nx : RoundSpec) : Reach H sc s → Reach H sc (sendAll s (emitFor s nx))
  | enter {s : State} (i : Nat) (nx : RoundSpec) : s.sc.rounds[i]? = some nx → i = s.idx + 1 → Reach H sc s →
      Reach H sc (Handler.enter s i nx)
  | enter0 {s : State} : Reach H sc s → Reach H sc (Handler.enter0 s)
  | output {s : State} (v : Nat) : Reach H sc s → Reach H sc { Handler.enter0 s with result := some v }

theorem reach_preserved (H : Bytes → Bytes) (sc : Script) : Preserved H (Reach H sc) where
  onCore := fun h o => Reach.core o h
  onStore := fun _ m o => Reach.store m o
  onFill := fun _ o => Reach.fill o
  onAbort := fun _ e o => Reach.abort e o
  onSend := fun _ nx o => Reach.send nx o
  onEnter := fun _ i nx h1 h2 o => Reach.enter i nx h1 h2 o
  onEnter0 := fun _ o => Reach.enter0 o
  onOutput := fun _ v o => Reach.output v o

theorem reach_pres {H : Bytes → Bytes} {P : State → Prop} (hp : Preserved H P) (sc : Script) (h0 : P (state0 sc))
    (s : State) (r : Reach H sc s) : P s := by
  induction r with
  | start => exact h0
  | core _ h ih => exact hp.onCore h ih
  | store m _ ih => exact hp.onStore _ m ih
  | fill _ ih => exact hp.onFill _ ih
  | abort e _ ih => exact hp.onAbort _ e ih
  | send nx _ ih => exact hp.onSend _ nx ih
  | enter i nx h1 h2 _ ih => exact hp.onEnter _ i nx h1 h2 ih
  | enter0 _ ih => exact hp.onEnter0 _ ih
  | output v _ ih => exact hp.onOutput _ v ih

theorem init_reach (H : Bytes → Bytes) (sc : Script) : Reach H sc (init H sc) := by
  unfold init
  exact finalize_pres (reach_preserved H sc) _ _ Reach.start

theorem run_reach (H : Bytes → Bytes) (sc : Script) (calls : List Call) : Reach H sc (run H sc calls) :=
  run_pres (reach_preserved H sc) sc calls (init_reach H sc)

end Mps.Handler
