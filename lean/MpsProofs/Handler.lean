import Mps.Handler
/-
  Lemmas for M5 (handler lifecycle). Core-only.
-/
namespace Mps.Handler

/-- the lifecycle-relevant part of the state is unchanged -/
def SameLife (a b : State) : Prop := a.err = b.err ∧ a.result = b.result ∧ a.closes = b.closes ∧ a.sc = b.sc

theorem SameLife.refl (a : State) : SameLife a a := ⟨rfl, rfl, rfl, rfl⟩
theorem SameLife.trans {a b c : State} (h1 : SameLife a b) (h2 : SameLife b c) : SameLife a c :=
  ⟨h1.1.trans h2.1, h1.2.1.trans h2.2.1, h1.2.2.1.trans h2.2.2.1, h1.2.2.2.trans h2.2.2.2⟩

theorem store_sameLife (s : State) (m : Msg) : SameLife s (store s m) := by
  unfold store
  split
  · exact SameLife.refl s
  · split <;> split <;> simp [SameLife]

theorem roundStoreP2P_sameLife (s s' : State) (m : Msg) (h : roundStoreP2P s m = some s') : SameLife s s' := by
  unfold roundStoreP2P at h
  split at h
  · simp at h
  · split at h
    · simp at h
    · simp at h; subst h; simp [SameLife]

theorem roundStoreBcast_sameLife (s s' : State) (m : Msg) (h : roundStoreBcast s m = some s') : SameLife s s' := by
  unfold roundStoreBcast at h
  split at h
  · simp at h
  · split at h
    · simp at h
    · simp at h; subst h; simp [SameLife]

theorem verifyMessage_sameLife (s s' : State) (m : Msg) (h : verifyMessage s m = some s') : SameLife s s' := by
  unfold verifyMessage at h
  split at h
  · simp at h; subst h; exact SameLife.refl _
  · split at h
    · simp at h; subst h; exact SameLife.refl _
    · split at h
      · simp at h
      · exact roundStoreP2P_sameLife s s' m h

theorem verifyBroadcastMessage_sameLife (s s' : State) (m : Msg) (h : verifyBroadcastMessage s m = some s') :
    SameLife s s' := by
  unfold verifyBroadcastMessage at h
  split at h
  · simp at h; subst h; exact SameLife.refl _
  · split at h
    · simp at h
    · split at h
      · simp at h
      · next s1 h1 =>
        have l1 := roundStoreBcast_sameLife s s1 m h1
        split at h
        · simp at h; subst h; exact l1
        · split at h
          · simp at h; subst h; exact l1
          · exact l1.trans (verifyMessage_sameLife s1 s' _ h)

theorem fillBh_sameLife (H : Bytes → Bytes) (s : State) : SameLife s (fillBh H s) := by
  unfold fillBh
  split
  · split
    · split <;> simp [SameLife]
    · exact SameLife.refl s
  · exact SameLife.refl s

theorem replayStep_sameLife (sp : RoundSpec) (n : Nat) (acc : State × Option Bytes) (id : Bytes) (s0 : State)
    (h : SameLife s0 acc.1) : SameLife s0 (replayStep sp n acc id).1 := by
  obtain ⟨st, c⟩ := acc
  cases c with
  | some c => exact h
  | none =>
    simp only [replayStep]
    split
    · split
      · exact h
      · split
        · exact h
        · split
          · exact h
          · next st' hv => exact h.trans (verifyBroadcastMessage_sameLife _ _ _ hv)
    · split
      · exact h
      · split
        · exact h
        · next st' hv => exact h.trans (verifyMessage_sameLife _ _ _ hv)

theorem replayQueued_sameLife (s : State) : SameLife s (replayQueued s).1 := by
  unfold replayQueued
  generalize s.sc.ids = ids
  suffices h : ∀ (acc : State × Option Bytes), SameLife s acc.1 →
      SameLife s (List.foldl (replayStep (curSpec s) s.cur) acc ids).1 from h (s, none) (SameLife.refl s)
  induction ids with
  | nil => intro acc h; exact h
  | cons id ids ih =>
    intro acc h
    rw [List.foldl_cons]
    exact ih _ (replayStep_sameLife (curSpec s) s.cur acc id s h)

/-- running: channel open, neither result nor error -/
def Live (s : State) : Prop := s.closes = 0 ∧ s.err = none ∧ s.result = none
/-- ended: channel closed exactly once, and exactly one of result / error is set -/
def Done (s : State) : Prop :=
  s.closes = 1 ∧ ((s.err.isSome = true ∧ s.result = none) ∨ (s.err = none ∧ s.result.isSome = true))
def Good (s : State) : Prop := Live s ∨ Done s

theorem Live.of_sameLife {s s' : State} (h : SameLife s s') (l : Live s) : Live s' :=
  ⟨h.2.2.1 ▸ l.1, h.1 ▸ l.2.1, h.2.1 ▸ l.2.2⟩

theorem abort_some_done (s : State) (k : ErrKind) (l : Live s) : Done (abort s (some k)) := by
  obtain ⟨h1, h2, h3⟩ := l
  simp [abort, Done, h1, h3]

theorem terminal_of_done {s : State} (d : Done s) : terminal s = true := by
  rcases d.2 with ⟨h, _⟩ | ⟨_, h⟩ <;> simp [terminal, h]

theorem not_terminal_of_live {s : State} (l : Live s) : terminal s = false := by
  simp [terminal, l.2.1, l.2.2]

theorem foldStore_sameLife (ems : List Msg) (s : State) :
    SameLife s (ems.foldl (fun st m => if m.bcast then store st m else st) s) := by
  induction ems generalizing s with
  | nil => exact SameLife.refl s
  | cons m ms ih =>
    rw [List.foldl_cons]
    split
    · exact (store_sameLife s m).trans (ih _)
    · exact ih _

theorem sendAll_sameLife (s : State) (ems : List Msg) : SameLife s (sendAll s ems) := by
  unfold sendAll
  have := foldStore_sameLife ems s
  exact ⟨this.1, this.2.1, this.2.2.1, this.2.2.2⟩

theorem enter_sameLife (s : State) (i : Nat) (nx : RoundSpec) : SameLife s (enter s i nx) := ⟨rfl, rfl, rfl, rfl⟩
theorem enter0_sameLife (s : State) : SameLife s (enter0 s) := ⟨rfl, rfl, rfl, rfl⟩

/-- one pass of `finalize` from a running state: it either returns in a good state, or continues running -/
def Step.ok : Step → Prop
  | .halt s' => Good s'
  | .more s' => Live s'

theorem finalizeStep_good (H : Bytes → Bytes) (s : State) (l : Live s) : (finalizeStep H s).ok := by
  have l1 : Live (fillBh H s) := l.of_sameLife (fillBh_sameLife H s)
  unfold finalizeStep
  simp only
  split
  · exact Or.inl l1
  · split
    · exact Or.inr (abort_some_done _ _ l1)
    · split
      · exact Or.inr (abort_some_done _ _ l1)
      · split
        · exact Or.inl l1
        · exact Or.inr (abort_some_done _ _ (l1.of_sameLife (enter0_sameLife _)))
      · split
        · exact Or.inl l1
        · right
          obtain ⟨h1, h2, h3⟩ := l1
          simp [abort, Done, enter0, h1, h2]
      · next i nx _ =>
        have l3 := l1.of_sameLife (sendAll_sameLife (fillBh H s) (emitFor (fillBh H s) nx))
        split
        · exact Or.inl l3
        · have l4 := l3.of_sameLife (enter_sameLife _ i nx)
          split
          · next s5 culprit hq =>
            have := replayQueued_sameLife (enter (sendAll (fillBh H s) (emitFor (fillBh H s) nx)) i nx)
            rw [hq] at this
            exact Or.inr (abort_some_done _ _ (l4.of_sameLife this))
          · next s5 hq =>
            have := replayQueued_sameLife (enter (sendAll (fillBh H s) (emitFor (fillBh H s) nx)) i nx)
            rw [hq] at this
            exact l4.of_sameLife this

theorem finalize_good (H : Bytes → Bytes) (fuel : Nat) (s : State) (l : Live s) : Good (finalize H fuel s) := by
  induction fuel generalizing s with
  | zero => exact Or.inl l
  | succ fuel ih =>
    unfold finalize
    have := finalizeStep_good H s l
    split
    · next s' h => rw [h] at this; exact this
    · next s' h => rw [h] at this; exact ih s' this

theorem init_good (H : Bytes → Bytes) (sc : Script) : Good (init H sc) := by
  unfold init
  exact finalize_good H _ _ ⟨rfl, rfl, rfl⟩

theorem accept_good (H : Bytes → Bytes) (s : State) (m : Msg) (g : Good s) : Good (accept H s m) := by
  unfold accept
  split
  · exact g
  · next hc =>
    have hl : Live s := by
      rcases g with l | d
      · exact l
      · simp [terminal_of_done d] at hc
    split
    · exact Or.inr (abort_some_done _ _ hl)
    · have l1 := hl.of_sameLife (store_sameLife s m)
      unfold acceptStored
      split
      · exact Or.inl l1
      · split
        · exact Or.inr (abort_some_done _ _ l1)
        · next s2 hv =>
          apply finalize_good
          split at hv
          · exact l1.of_sameLife (verifyBroadcastMessage_sameLife _ _ _ hv)
          · exact l1.of_sameLife (verifyMessage_sameLife _ _ _ hv)

theorem stop_good (s : State) (g : Good s) : Good (stop s) := by
  unfold stop
  split
  · exact g
  · next hc =>
    rcases g with l | d
    · exact Or.inr (abort_some_done _ _ l)
    · simp [terminal_of_done d] at hc

/-- once ended, every further call leaves the whole state unchanged -/
theorem accept_terminal (H : Bytes → Bytes) (s : State) (m : Msg) (h : terminal s = true) : accept H s m = s := by
  simp [accept, h]

theorem stop_terminal (s : State) (h : terminal s = true) : stop s = s := by simp [stop, h]

end Mps.Handler
