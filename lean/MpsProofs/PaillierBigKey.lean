import MpsProofs.Paillier
import Mathlib.NumberTheory.LucasPrimality
/-
  A PROVED key of more than 2048 bits, so that the hypotheses of `C12.mta_exact_params`
  (`KeyOK p q` together with `2^(BitsPaillier-1) ≤ p·q`) are known to be satisfiable:
      P = 3·2^2208 + 1,   Q = 5·2^1947 + 1        (Proth primes; N = P·Q has 4159 bits)
  Primality by Lucas' test (`lucas_primality`) with witnesses 11 and 3; the modular powers are
  evaluated by the kernel through `sqIter` (repeated squaring, GMP-accelerated `Nat` arithmetic).
-/
namespace Mps.Paillier

/-- `n` modular squarings -/
def sqIter : ℕ → ℕ → ℕ → ℕ
  | 0, x, _ => x
  | n + 1, x, m => sqIter n (x * x % m) m

theorem sqIter_eq (n x m : ℕ) : sqIter n (x % m) m = x ^ (2 ^ n) % m := by
  induction n generalizing x with
  | zero => simp [sqIter]
  | succ n ih =>
    rw [sqIter, ← Nat.mul_mod, ih (x * x)]
    congr 1
    rw [← pow_two, ← pow_mul, pow_succ, Nat.mul_comm]

/-- Lucas' primality test for `p = k·2^n + 1` with `k` prime: the prime divisors of `p − 1` are 2 and `k`. -/
theorem prime_of_lucas_proth (k n a : ℕ) (hk : k.Prime) (hn : 0 < n)
    (h1 : sqIter n (a ^ k % (k * 2 ^ n + 1)) (k * 2 ^ n + 1) = 1)
    (h2 : sqIter (n - 1) (a ^ k % (k * 2 ^ n + 1)) (k * 2 ^ n + 1) ≠ 1)
    (h3 : sqIter n (a % (k * 2 ^ n + 1)) (k * 2 ^ n + 1) ≠ 1) :
    (k * 2 ^ n + 1).Prime := by
  set p := k * 2 ^ n + 1 with hp
  have hp1 : 1 < p := by
    have : 0 < k * 2 ^ n := Nat.mul_pos hk.pos (pow_pos (by norm_num) _)
    omega
  have hpm : p - 1 = k * 2 ^ n := by omega
  have one_mod : 1 % p = 1 := Nat.mod_eq_of_lt hp1
  have cast_pow_eq : ∀ e : ℕ, ((a : ZMod p)) ^ e = 1 ↔ a ^ e % p = 1 := by
    intro e
    have : ((a : ZMod p)) ^ e = ((a ^ e : ℕ) : ZMod p) := by push_cast; rfl
    rw [this, ← Nat.cast_one, ZMod.natCast_eq_natCast_iff', one_mod]
  apply lucas_primality p (a : ZMod p)
  · rw [cast_pow_eq, hpm, pow_mul, ← sqIter_eq]; exact h1
  · intro r hr hdvd
    rw [hpm] at hdvd ⊢
    rw [Ne, cast_pow_eq]
    rcases (Nat.Prime.dvd_mul hr).mp hdvd with h | h
    · -- r = k
      have : r = k := (Nat.prime_dvd_prime_iff_eq hr hk).mp h
      subst this
      rw [Nat.mul_div_cancel_left _ hr.pos, ← sqIter_eq]; exact h3
    · -- r = 2
      have : r = 2 := (Nat.prime_dvd_prime_iff_eq hr Nat.prime_two).mp (hr.dvd_of_dvd_pow h)
      subst this
      have : k * 2 ^ n / 2 = k * 2 ^ (n - 1) := by
        obtain ⟨m, rfl⟩ : ∃ m, n = m + 1 := ⟨n - 1, by omega⟩
        rw [Nat.add_sub_cancel, pow_succ, ← Nat.mul_assoc, Nat.mul_div_cancel _ (by norm_num)]
      rw [this, pow_mul, ← sqIter_eq]; exact h2

def bigP : ℕ := 3 * 2 ^ 2208 + 1
def bigQ : ℕ := 5 * 2 ^ 1947 + 1

theorem bigP_prime : bigP.Prime :=
  prime_of_lucas_proth 3 2208 11 Nat.prime_three (by norm_num)
    (by decide +kernel) (by decide +kernel) (by decide +kernel)

theorem bigQ_prime : bigQ.Prime :=
  prime_of_lucas_proth 5 1947 3 Nat.prime_five (by norm_num)
    (by decide +kernel) (by decide +kernel) (by decide +kernel)

theorem keyOK_big : KeyOK bigP bigQ :=
  ⟨bigP_prime, bigQ_prime, by decide +kernel, by unfold Nat.Coprime; decide +kernel⟩

theorem big_bits : 2 ^ 2047 ≤ bigP * bigQ := by decide +kernel

end Mps.Paillier
