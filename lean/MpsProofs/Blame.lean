import MpsProofs.Echo
/-
  Lemmas for blame provenance (C04): who can end up as the culprit of a message failure. Core-only.
-/
namespace Mps.Handler
open Mps

/-- the content of a p2p message makes `VerifyMessage` / `StoreMessage` fail -/
def badP2P (m : Msg) : Prop :=
  m.dec = none ∨ ∃ c, m.dec = some c ∧ (hasFlag c.f fFailVerify = true ∨ hasFlag c.f fFailStore = true)

/-- the content of a broadcast message makes `StoreBroadcastMessage` fail -/
def badB (m : Msg) : Prop := m.dec = none ∨ ∃ c, m.dec = some c ∧ hasFlag c.f fFailStoreB = true

/-- `m` violates the protocol in round `spec`: wrong kind for that round, or undecodable / failing content -/
def Deviates (spec : RoundSpec) (m : Msg) : Prop :=
  (m.bcast = false ∧ (spec.recvP = false ∨ badP2P m)) ∨ (m.bcast = true ∧ (spec.recvB = false ∨ badB m))

theorem roundStoreP2P_none (s : State) (m : Msg) (h : roundStoreP2P s m = none) : badP2P m := by
  unfold roundStoreP2P at h
  split at h
  · next hd => exact Or.inl hd
  · next c hd =>
    split at h
    · next hf =>
      right
      refine ⟨c, hd, ?_⟩
      simpa [Bool.or_eq_true] using hf
    · simp at h

theorem roundStoreBcast_none (s : State) (m : Msg) (h : roundStoreBcast s m = none) : badB m := by
  unfold roundStoreBcast at h
  split at h
  · next hd => exact Or.inl hd
  · next c hd =>
    split at h
    · next hf => exact Or.inr ⟨c, hd, hf⟩
    · simp at h

theorem verifyMessage_bad (s : State) (m : Msg) (h : verifyMessage s m = .bad) :
    (curSpec s).recvP = false ∨ badP2P m := by
  unfold verifyMessage at h
  split at h
  · simp at h
  · split at h
    · simp at h
    · split at h
      · simp at h
      · split at h
        · next hp => left; simpa using hp
        · split at h
          · next hr => exact Or.inr (roundStoreP2P_none s m hr)
          · simp at h

theorem curSpec_sameCore {s s' : State} (h : SameCore s s') : curSpec s' = curSpec s := by
  unfold curSpec
  rw [← h.1, ← h.2.1]

theorem verifyBroadcastMessage_bad (s : State) (m : Msg) (h : verifyBroadcastMessage s m = .bad) :
    (curSpec s).recvB = false ∨ badB m ∨ ∃ p, lookup s.msgs m.rnd m.frm = some p ∧ badP2P p := by
  unfold verifyBroadcastMessage at h
  split at h
  · simp at h
  · split at h
    · simp at h
    · split at h
      · next hb => left; simpa using hb
      · split at h
        · next h1 => exact Or.inr (Or.inl (roundStoreBcast_none s m h1))
        · next s1 h1 =>
          have sc := roundStoreBcast_sameCore s s1 m h1
          split at h
          · simp at h
          · next hp =>
            split at h
            · simp at h
            · next p hl =>
              right; right
              refine ⟨p, by rw [← sc.2.2.2.2.1] at hl; exact hl, ?_⟩
              rcases verifyMessage_bad s1 p h with h' | h'
              · simp [h'] at hp
              · exact h'

/-! ### queue keys -/

def QueueKeys (s : State) : Prop :=
  (∀ e ∈ s.msgs, e.1 = e.2.2.rnd ∧ e.2.1 = e.2.2.frm ∧ e.2.2.bcast = false) ∧
  (∀ e ∈ s.bc, e.1 = e.2.2.rnd ∧ e.2.1 = e.2.2.frm ∧ e.2.2.bcast = true)

theorem store_queueKeys (s : State) (m : Msg) (o : QueueKeys s) : QueueKeys (store s m) := by
  unfold store
  split
  · exact o
  · split
    · next hb =>
      split
      · exact o
      · refine ⟨o.1, ?_⟩
        intro e he
        simp only [List.mem_append, List.mem_singleton] at he
        rcases he with he | rfl
        · exact o.2 e he
        · exact ⟨rfl, rfl, hb⟩
    · next hb =>
      split
      · exact o
      · refine ⟨?_, o.2⟩
        intro e he
        simp only [List.mem_append, List.mem_singleton] at he
        rcases he with he | rfl
        · exact o.1 e he
        · exact ⟨rfl, rfl, by simpa using hb⟩

theorem foldStore_queueKeys (ems : List Msg) (s : State) (o : QueueKeys s) :
    QueueKeys (ems.foldl (fun st m => if m.bcast then store st m else st) s) := by
  induction ems generalizing s with
  | nil => exact o
  | cons m ms ih =>
    rw [List.foldl_cons]
    split
    · exact ih _ (store_queueKeys s m o)
    · exact ih _ o

theorem queueKeys_preserved (H : Bytes → Bytes) : Preserved H QueueKeys where
  onCore := fun h o => by
    unfold QueueKeys at *
    rw [← h.2.2.2.2.1, ← h.2.2.2.2.2.1]; exact o
  onStore := store_queueKeys
  onFill := fun s o => by
    unfold fillBh
    split
    · split
      · split <;> exact o
      · exact o
    · exact o
  onAbort := fun s e o => by cases e <;> exact o
  onSend := fun s nx o => by unfold sendAll; exact foldStore_queueKeys _ s o
  onEnter := fun _ _ _ _ _ o => o
  onEnter0 := fun _ o => o
  onOutput := fun _ _ o => o

/-- the current round of a running handler is the script round its index points to -/
def IdxOk (s : State) : Prop := s.cur = 0 ∨ ∃ spec, s.sc.rounds[s.idx]? = some spec ∧ spec.num = s.cur

theorem idxOk_preserved (H : Bytes → Bytes) : Preserved H IdxOk where
  onCore := fun h o => by unfold IdxOk at *; rw [← h.1, ← h.2.1, ← h.2.2.1]; exact o
  onStore := fun s m o => by
    unfold IdxOk at *
    rw [(store_idx s m).1, (store_idx s m).2, store_sc]; exact o
  onFill := fun s o => by
    unfold fillBh
    split
    · split
      · split <;> exact o
      · exact o
    · exact o
  onAbort := fun s e o => by cases e <;> exact o
  onSend := fun s nx o => by
    unfold IdxOk at *
    have f := sendAll_frame s (emitFor s nx)
    have hc : (sendAll s (emitFor s nx)).cur = s.cur := by
      unfold sendAll
      simp only
      generalize emitFor s nx = ems
      induction ems generalizing s with
      | nil => rfl
      | cons m ms ih =>
        rw [List.foldl_cons]
        split
        · rw [ih (store s m) (by rw [(store_idx s m).1, (store_idx s m).2, store_sc]; exact o)
            (sendAll_frame _ _), (store_idx s m).2]
        · exact ih s o f
    rw [hc, sendAll_idx, f.2.2.2.1]; exact o
  onEnter := fun s i nx h1 _ _ => Or.inr ⟨nx, h1, rfl⟩
  onEnter0 := fun _ _ => Or.inl rfl
  onOutput := fun _ _ _ => Or.inl rfl

theorem curSpec_of_idxOk (s : State) (o : IdxOk s) (hc : s.cur ≠ 0) :
    (curSpec s).num = s.cur ∧ curSpec s ∈ s.sc.rounds := by
  rcases o with h | ⟨spec, h1, h2⟩
  · exact absurd h hc
  · have : curSpec s = spec := by
      unfold curSpec
      simp [List.getD, h1]
    rw [this]
    exact ⟨h2, List.mem_of_getElem? h1⟩

/-! ### where a `msgFail` culprit comes from -/

/-- `m` is in one of the two queues of `s` -/
def Stored (s : State) (m : Msg) : Prop := (∃ e ∈ s.msgs, e.2.2 = m) ∨ (∃ e ∈ s.bc, e.2.2 = m)

/-- a witness for blaming `f` in round `spec`: a stored message of that round from `f` that deviates -/
def Witness (s : State) (spec : RoundSpec) (f : Bytes) : Prop :=
  ∃ m, Stored s m ∧ m.frm = f ∧ m.rnd = s.cur ∧ Deviates spec m

theorem lookup_keys (q : List (Nat × Bytes × Msg)) (r : Nat) (id : Bytes) (m : Msg) (h : lookup q r id = some m) :
    ∃ e ∈ q, e.2.2 = m ∧ e.1 = r ∧ e.2.1 = id := by
  unfold lookup at h
  cases hf : q.find? (fun e => e.1 == r && e.2.1 == id) with
  | none => simp [hf] at h
  | some e =>
    simp [hf] at h
    have hp := List.find?_some hf
    simp only [Bool.and_eq_true, beq_iff_eq] at hp
    exact ⟨e, List.mem_of_find?_eq_some hf, h, hp.1, hp.2⟩

/-- a broadcast message of the current round fails: its sender sent a deviating message -/
theorem bcast_fail_witness (s st : State) (hsc : SameCore s st) (qk : QueueKeys s) (m : Msg) (id : Bytes)
    (hl : lookup st.bc s.cur id = some m) (hv : verifyBroadcastMessage st m = .bad) :
    Witness s (curSpec s) m.frm := by
  have hbc : st.bc = s.bc := hsc.2.2.2.2.2.1.symm
  have hms : st.msgs = s.msgs := hsc.2.2.2.2.1.symm
  rw [hbc] at hl
  obtain ⟨e, he, rfl, hr, hid⟩ := lookup_keys _ _ _ _ hl
  have k := qk.2 e he
  rcases verifyBroadcastMessage_bad st _ hv with h | h | ⟨p, hp, hb⟩
  · exact ⟨e.2.2, Or.inr ⟨e, he, rfl⟩, rfl, by rw [← k.1, hr], Or.inr ⟨k.2.2, Or.inl (curSpec_sameCore hsc ▸ h)⟩⟩
  · exact ⟨e.2.2, Or.inr ⟨e, he, rfl⟩, rfl, by rw [← k.1, hr], Or.inr ⟨k.2.2, Or.inr h⟩⟩
  · rw [hms] at hp
    obtain ⟨e', he', rfl, hr', hid'⟩ := lookup_keys _ _ _ _ hp
    have k' := qk.1 e' he'
    refine ⟨e'.2.2, Or.inl ⟨e', he', rfl⟩, ?_, ?_, Or.inl ⟨k'.2.2, Or.inr hb⟩⟩
    · rw [← k'.2.1, hid']
    · rw [← k'.1, hr', ← k.1, hr]

/-- a p2p message of the current round fails: its sender sent a deviating message -/
theorem p2p_fail_witness (s st : State) (hsc : SameCore s st) (qk : QueueKeys s) (m : Msg) (id : Bytes)
    (hl : lookup st.msgs s.cur id = some m) (hv : verifyMessage st m = .bad) :
    Witness s (curSpec s) m.frm := by
  have hms : st.msgs = s.msgs := hsc.2.2.2.2.1.symm
  rw [hms] at hl
  obtain ⟨e, he, rfl, hr, hid⟩ := lookup_keys _ _ _ _ hl
  have k := qk.1 e he
  refine ⟨e.2.2, Or.inl ⟨e, he, rfl⟩, rfl, by rw [← k.1, hr], Or.inl ⟨k.2.2, ?_⟩⟩
  rcases verifyMessage_bad st _ hv with h | h
  · exact Or.inl (curSpec_sameCore hsc ▸ h)
  · exact Or.inr h

theorem replayFold_culprit (s : State) (qk : QueueKeys s) (ids : List Bytes) (acc : State × Option Fail)
    (hacc : SameCore s acc.1) (hnone : ∀ c, acc.2 = some (.culprit c) → Witness s (curSpec s) c)
    (s5 : State) (c : Bytes) (h : ids.foldl (replayStep (curSpec s) s.cur) acc = (s5, some (.culprit c))) :
    Witness s (curSpec s) c := by
  induction ids generalizing acc with
  | nil =>
    simp only [List.foldl_nil] at h
    exact hnone c (by rw [h])
  | cons id rest ih =>
    rw [List.foldl_cons] at h
    apply ih (replayStep (curSpec s) s.cur acc id) (replayStep_sameCore _ _ acc id s hacc) _ h
    obtain ⟨st, o⟩ := acc
    cases o with
    | some f =>
      intro c' hc'
      exact hnone c' (by simpa [replayStep] using hc')
    | none =>
      intro c' hc'
      simp only [replayStep] at hc'
      split at hc'
      · split at hc'
        · simp at hc'
        · split at hc'
          · simp at hc'
          · next m hl =>
            cases hv : verifyBroadcastMessage st m with
            | ok st' => simp [failOf, hv] at hc'
            | echo => simp [failOf, hv] at hc'
            | bad =>
              simp only [failOf, hv, Option.some.injEq, Fail.culprit.injEq] at hc'
              subst hc'
              exact bcast_fail_witness s st hacc qk m id hl hv
      · split at hc'
        · simp at hc'
        · next m hl =>
          cases hv : verifyMessage st m with
          | ok st' => simp [failOf, hv] at hc'
          | echo => simp [failOf, hv] at hc'
          | bad =>
            simp only [failOf, hv, Option.some.injEq, Fail.culprit.injEq] at hc'
            subst hc'
            exact p2p_fail_witness s st hacc qk m id hl hv

theorem replayQueued_culprit (s : State) (qk : QueueKeys s) (s5 : State) (c : Bytes)
    (h : replayQueued s = (s5, some (.culprit c))) : Witness s (curSpec s) c :=
  replayFold_culprit s qk s.sc.ids (s, none) (SameCore.refl s) (fun c h => by simp at h) s5 c h

/-- whenever the error is a message failure blamed on `f`, a deviating message from `f` for the current
    round is in the queues -/
def BlameOk (t : State) : Prop := ∀ f, t.err = some (.msgFail f) → Witness t (curSpec t) f

theorem witness_abort (s : State) (spec : RoundSpec) (f : Bytes) (k : ErrKind) (w : Witness s spec f) :
    Witness (abort s (some k)) spec f := by
  obtain ⟨m, hs, h1, h2, h3⟩ := w
  exact ⟨m, hs, h1, h2, h3⟩

theorem witness_sameCore {s s' : State} (h : SameCore s s') (spec : RoundSpec) (f : Bytes) (w : Witness s spec f) :
    Witness s' spec f := by
  obtain ⟨m, hs, h1, h2, h3⟩ := w
  refine ⟨m, ?_, h1, by rw [← h.2.2.1]; exact h2, h3⟩
  unfold Stored at *
  rw [← h.2.2.2.2.1, ← h.2.2.2.2.2.1]
  exact hs

theorem finalizeStep_blameOk (H : Bytes → Bytes) (s : State) (l : Live s) (qk : QueueKeys s) :
    BlameOk (finalizeStep H s).st := by
  have l1 : Live (fillBh H s) := l.of_sameLife (fillBh_sameLife H s)
  have q1 : QueueKeys (fillBh H s) := (queueKeys_preserved H).onFill s qk
  have none_ok : ∀ t : State, t.err = none → BlameOk t := by
    intro t ht f hf; rw [ht] at hf; cases hf
  unfold finalizeStep
  simp only
  split
  · simp only [Step.st]; exact none_ok _ l1.2.1
  · split
    · simp only [Step.st]; intro f hf; simp [abort] at hf
    · split
      · simp only [Step.st]; intro f hf; simp [abort] at hf
      · split
        · simp only [Step.st]; exact none_ok _ l1.2.1
        · simp only [Step.st]; intro f hf; simp [abort] at hf
      · split
        · simp only [Step.st]; exact none_ok _ l1.2.1
        · simp only [Step.st]; intro f hf; simp [abort, enter0, l1.2.1] at hf
      · next i nx hpf =>
        have l3 := sendAll_live (fillBh H s) (emitFor (fillBh H s) nx) l1
        have q3 : QueueKeys (sendAll (fillBh H s) (emitFor (fillBh H s) nx)) := (queueKeys_preserved H).onSend _ nx q1
        split
        · simp only [Step.st]; exact none_ok _ l3.2.1
        · split
          · next s5 fl hq =>
            simp only [Step.st]
            intro f hf
            cases fl with
            | echo => simp [abort, errOf] at hf
            | culprit culprit =>
            simp only [abort, errOf, Option.some.injEq, ErrKind.msgFail.injEq] at hf
            subst hf
            have w := replayQueued_culprit (enter (sendAll (fillBh H s) (emitFor (fillBh H s) nx)) i nx) q3 s5 culprit hq
            have sc5 := replayQueued_sameCore (enter (sendAll (fillBh H s) (emitFor (fillBh H s) nx)) i nx)
            rw [hq] at sc5
            have w5 := witness_sameCore sc5 _ _ w
            rw [← curSpec_sameCore sc5] at w5
            exact witness_abort s5 _ _ _ w5
          · next s5 hq =>
            simp only [Step.st]
            have sc5 := replayQueued_sameCore (enter (sendAll (fillBh H s) (emitFor (fillBh H s) nx)) i nx)
            rw [hq] at sc5
            have l5 : Live s5 := (l3.of_sameLife (enter_sameLife _ i nx)).of_sameLife sc5.toSameLife
            exact none_ok _ l5.2.1

theorem finalize_blameOk (H : Bytes → Bytes) (fuel : Nat) (s : State) (l : Live s) (qk : QueueKeys s) :
    BlameOk (finalize H fuel s) := by
  induction fuel generalizing s with
  | zero => intro f hf; simp only [finalize] at hf; rw [l.2.1] at hf; cases hf
  | succ fuel ih =>
    unfold finalize
    have hb := finalizeStep_blameOk H s l qk
    have hg := finalizeStep_good H s l
    have hq := finalizeStep_pres (queueKeys_preserved H) s qk
    split
    · next s' h => rw [h] at hb; exact hb
    · next s' h =>
      rw [h] at hg hq
      exact ih s' hg hq

theorem lookup_append_new (q : List (Nat × Bytes × Msg)) (m : Msg) (h : (lookup q m.rnd m.frm).isSome = false) :
    lookup (q ++ [(m.rnd, m.frm, m)]) m.rnd m.frm = some m := by
  unfold lookup at *
  rw [List.find?_append]
  cases hf : q.find? (fun e => e.1 == m.rnd && e.2.1 == m.frm) with
  | some e => simp [hf] at h
  | none => simp [List.find?]

theorem store_lookup (s : State) (m : Msg) (hd : duplicate s m = false) (h0 : (m.rnd == 0) = false) :
    (m.bcast = true → lookup (store s m).bc m.rnd m.frm = some m) ∧
    (m.bcast = false → lookup (store s m).msgs m.rnd m.frm = some m) := by
  unfold duplicate at hd
  simp only [h0, Bool.false_eq_true, if_false] at hd
  split at hd
  · simp at hd
  · next hs =>
    unfold store
    simp only [hs, if_false]
    constructor
    · intro hb
      simp only [hb, if_true] at hd ⊢
      simp only [hd, Bool.false_eq_true, if_false]
      exact lookup_append_new _ m hd
    · intro hb
      simp only [hb, Bool.false_eq_true, if_false] at hd ⊢
      simp only [hd, Bool.false_eq_true, if_false]
      exact lookup_append_new _ m hd

/-- Blame provenance for one `Accept` call, from any running state with well-keyed queues. -/
theorem accept_blameOk (H : Bytes → Bytes) (s : State) (m : Msg) (l : Live s) (qk : QueueKeys s) :
    BlameOk (accept H s m) := by
  unfold accept
  split
  · intro f hf; rw [l.2.1] at hf; cases hf
  · next hc =>
    split
    · intro f hf; simp [abort] at hf
    · next h0 =>
      have hd : duplicate s m = false := by
        simp only [Bool.or_eq_true, not_or, Bool.not_eq_true] at hc
        exact hc.2
      have h0' : (m.rnd == 0) = false := by simpa using h0
      have l1 := l.of_sameLife (store_sameLife s m)
      have q1 := store_queueKeys s m qk
      have sl := store_lookup s m hd h0'
      unfold acceptStored
      split
      · intro f hf; rw [l1.2.1] at hf; cases hf
      · next hcur =>
        have hcur' : (store s m).cur = m.rnd := by simpa using hcur
        split
        · next hv =>
          intro f hf
          simp only [abort, Option.some.injEq, ErrKind.msgFail.injEq] at hf
          subst hf
          apply witness_abort
          split at hv
          · next hb =>
            exact bcast_fail_witness (store s m) (store s m) (SameCore.refl _) q1 m m.frm
              (by rw [hcur']; exact sl.1 hb) hv
          · next hb =>
            exact p2p_fail_witness (store s m) (store s m) (SameCore.refl _) q1 m m.frm
              (by rw [hcur']; exact sl.2 (by simpa using hb)) hv
        · intro f hf; simp [abort] at hf
        · next s2 hv =>
          apply finalize_blameOk
          · split at hv
            · exact l1.of_sameLife (verifyBroadcastMessage_sameLife _ _ _ hv)
            · exact l1.of_sameLife (verifyMessage_sameLife _ _ _ hv)
          · split at hv
            · exact (queueKeys_preserved H).onCore (verifyBroadcastMessage_sameCore _ _ _ hv) q1
            · exact (queueKeys_preserved H).onCore (verifyMessage_sameCore _ _ _ hv) q1

theorem nodup_map_inj {α β : Type} (f : α → β) (l : List α) (h : (l.map f).Nodup) (a b : α) (ha : a ∈ l) (hb : b ∈ l)
    (e : f a = f b) : a = b := by
  induction l with
  | nil => cases ha
  | cons x xs ih =>
    simp only [List.map_cons, List.nodup_cons, List.mem_map, not_exists, not_and] at h
    rcases List.mem_cons.mp ha with rfl | ha' <;> rcases List.mem_cons.mp hb with rfl | hb'
    · rfl
    · exact absurd e.symm (h.1 b hb')
    · exact absurd e (h.1 a ha')
    · exact ih h.2 ha' hb'

/-- `finalize` never produces the verdicts that only `Accept` (peer notice) and `Stop` produce -/
def NoPeerStop (t : State) : Prop := (∀ g, t.err ≠ some (.peerAbort g)) ∧ t.err ≠ some .stopped

theorem finalizeStep_noPeerStop (H : Bytes → Bytes) (s : State) (l : Live s) : NoPeerStop (finalizeStep H s).st := by
  have l1 : Live (fillBh H s) := l.of_sameLife (fillBh_sameLife H s)
  have none_ok : ∀ t : State, t.err = none → NoPeerStop t := by
    intro t ht; simp [NoPeerStop, ht]
  unfold finalizeStep
  simp only
  split
  · simp only [Step.st]; exact none_ok _ l1.2.1
  · split
    · simp only [Step.st]; simp [NoPeerStop, abort]
    · split
      · simp only [Step.st]; simp [NoPeerStop, abort]
      · split
        · simp only [Step.st]; exact none_ok _ l1.2.1
        · simp only [Step.st]; simp [NoPeerStop, abort]
      · split
        · simp only [Step.st]; exact none_ok _ l1.2.1
        · simp only [Step.st]; simp [NoPeerStop, abort, enter0, l1.2.1]
      · next i nx hpf =>
        have l3 := sendAll_live (fillBh H s) (emitFor (fillBh H s) nx) l1
        split
        · simp only [Step.st]; exact none_ok _ l3.2.1
        · split
          · next s5 fl hq => simp only [Step.st]; cases fl <;> simp [NoPeerStop, abort, errOf]
          · next s5 hq =>
            simp only [Step.st]
            have sc5 := replayQueued_sameCore (enter (sendAll (fillBh H s) (emitFor (fillBh H s) nx)) i nx)
            rw [hq] at sc5
            have l5 : Live s5 := (l3.of_sameLife (enter_sameLife _ i nx)).of_sameLife sc5.toSameLife
            exact none_ok _ l5.2.1

theorem finalize_noPeerStop (H : Bytes → Bytes) (fuel : Nat) (s : State) (l : Live s) :
    NoPeerStop (finalize H fuel s) := by
  induction fuel generalizing s with
  | zero => simp [finalize, NoPeerStop, l.2.1]
  | succ fuel ih =>
    unfold finalize
    have hb := finalizeStep_noPeerStop H s l
    have hg := finalizeStep_good H s l
    split
    · next s' h => rw [h] at hb; exact hb
    · next s' h => rw [h] at hg; exact ih s' hg

end Mps.Handler
