import Mps.TwoParty
/-
  Lifecycle lemmas for the TwoPartyHandler model. Core-only.
-/
namespace Mps.TwoParty
open Mps Mps.Handler

def Live2 (s : State2) : Prop := s.closes = 0 ∧ s.err = none ∧ s.result = none
def Done2 (s : State2) : Prop :=
  s.closes = 1 ∧ ((s.err.isSome = true ∧ s.result = none) ∨ (s.err = none ∧ s.result.isSome = true))
def Good2 (s : State2) : Prop := Live2 s ∨ Done2 s

theorem abort2_done (s : State2) (k : Err2) (l : Live2 s) : Done2 (abort2 s (some k)) := by
  obtain ⟨h1, h2, h3⟩ := l
  simp [abort2, Done2, h1, h3]

theorem terminal2_of_done {s : State2} (d : Done2 s) : terminal2 s = true := by
  rcases d.2 with ⟨h, _⟩ | ⟨_, h⟩ <;> simp [terminal2, h]

theorem not_terminal2_of_live {s : State2} (l : Live2 s) : terminal2 s = false := by
  simp [terminal2, l.2.1, l.2.2]

def Step2.ok : Step2 → Prop
  | .halt s => Good2 s
  | .more s => Live2 s

theorem advanceStep_ok (s : State2) (l : Live2 s) : (advanceStep s).ok := by
  unfold advanceStep
  split
  · exact Or.inl l
  · simp only
    split
    · exact Or.inr (abort2_done _ _ l)
    · next s1 hs =>
      have l1 : Live2 s1 := by
        split at hs
        · simp at hs; subst hs; exact l
        · split at hs
          · simp at hs
          · split at hs
            · simp at hs
            · split at hs
              · simp at hs
              · simp at hs; subst hs; exact l
      split
      · exact Or.inr (abort2_done _ _ l1)
      · split
        · exact Or.inr (abort2_done _ _ ⟨l1.1, l1.2.1, l1.2.2⟩)
        · split
          · right
            obtain ⟨h1, h2, h3⟩ := l1
            simp [abort2, Done2, h1, h2]
          · exact ⟨l1.1, l1.2.1, l1.2.2⟩

theorem advance_good (fuel : Nat) (s : State2) (l : Live2 s) : Good2 (advance fuel s) := by
  induction fuel generalizing s with
  | zero => exact Or.inl l
  | succ fuel ih =>
    unfold advance
    have := advanceStep_ok s l
    split
    · next s' h => rw [h] at this; exact this
    · next s' h => rw [h] at this; exact ih s' this

theorem init2_good (sc : Script2) : Good2 (init2 sc) := by
  unfold init2
  simp only
  split
  · exact advance_good _ _ ⟨rfl, rfl, rfl⟩
  · exact Or.inl ⟨rfl, rfl, rfl⟩

theorem accept2_good (s : State2) (m : Msg) (g : Good2 s) : Good2 (accept2 s m) := by
  unfold accept2
  split
  · exact g
  · next hc =>
    have hl : Live2 s := by
      rcases g with l | d
      · exact l
      · simp [terminal2_of_done d] at hc
    split
    · exact Or.inr (abort2_done _ _ hl)
    · exact advance_good _ _ ⟨hl.1, hl.2.1, hl.2.2⟩

theorem stop2_good (s : State2) (g : Good2 s) : Good2 (stop2 s) := by
  unfold stop2
  split
  · exact g
  · next hc =>
    rcases g with l | d
    · exact Or.inr (abort2_done _ _ l)
    · simp [terminal2_of_done d] at hc

theorem accept2_terminal (s : State2) (m : Msg) (h : terminal2 s = true) : accept2 s m = s := by simp [accept2, h]
theorem stop2_terminal (s : State2) (h : terminal2 s = true) : stop2 s = s := by simp [stop2, h]

theorem run2_good (sc : Script2) (calls : List Call2) : Good2 (run2 sc calls) := by
  unfold run2
  have h0 := init2_good sc
  generalize init2 sc = s at h0
  induction calls generalizing s with
  | nil => exact h0
  | cons c cs ih =>
    apply ih
    cases c <;> simp only [apply2]
    · exact accept2_good s _ h0
    · exact h0
    · exact h0
    · exact h0
    · exact stop2_good s h0

end Mps.TwoParty
