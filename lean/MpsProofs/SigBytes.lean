import MpsProofs.Typed
import Mps.Sig
/-
  Lemmas for C16 that are byte-level (decoders, hash truncation). Core-only.
-/
namespace Mps.Sig
open Mps Mps.Secp

/-! ### big-endian facts -/

theorem unbe_nil : unbe [] = 0 := rfl

theorem foldl_be (b : Bytes) (acc : Nat) :
    b.foldl (fun acc x => acc * 256 + x.toNat) acc = acc * 256 ^ b.length + unbe b := by
  induction b generalizing acc with
  | nil => simp [unbe]
  | cons x bs ih =>
    simp only [List.foldl_cons, unbe, List.length_cons]
    rw [ih, ih (0 * 256 + x.toNat), Nat.pow_succ]
    simp only [unbe, Nat.zero_mul, Nat.zero_add]
    rw [Nat.add_mul, Nat.mul_assoc, Nat.add_assoc, Nat.mul_comm 256]

theorem unbe_append (a b : Bytes) : unbe (a ++ b) = unbe a * 256 ^ b.length + unbe b := by
  unfold unbe
  rw [List.foldl_append, foldl_be]
  rfl

theorem unbe_cons (x : UInt8) (b : Bytes) : unbe (x :: b) = x.toNat * 256 ^ b.length + unbe b := by
  have := unbe_append [x] b
  simpa [unbe] using this

theorem unbe_lt (b : Bytes) : unbe b < 256 ^ b.length := by
  induction b with
  | nil => simp [unbe_nil]
  | cons x bs ih =>
    rw [unbe_cons, List.length_cons, Nat.pow_succ]
    have hx : x.toNat < 256 := x.toNat_lt
    have hpos : 0 < 256 ^ bs.length := Nat.pow_pos (by decide)
    calc x.toNat * 256 ^ bs.length + unbe bs < x.toNat * 256 ^ bs.length + 256 ^ bs.length := by omega
      _ = (x.toNat + 1) * 256 ^ bs.length := by rw [Nat.add_mul, Nat.one_mul]
      _ ≤ 256 * 256 ^ bs.length := Nat.mul_le_mul_right _ (by omega)
      _ = 256 ^ bs.length * 256 := Nat.mul_comm _ _

/-! ### hash truncation: the code's "truncate to 32 bytes, then shift" is bits2int -/

theorem shift_take (h : Bytes) (hl : h.length > 32) :
    unbe h >>> (8 * h.length - 256) = unbe (h.take 32) := by
  have hsplit : unbe h = unbe (h.take 32) * 256 ^ (h.drop 32).length + unbe (h.drop 32) := by
    rw [← unbe_append, List.take_append_drop]
  have hd : (h.drop 32).length = h.length - 32 := by simp
  rw [hd] at hsplit
  have hlt := unbe_lt (h.drop 32)
  rw [hd] at hlt
  rw [hsplit, Nat.shiftRight_eq_div_pow]
  have e : 8 * h.length - 256 = 8 * (h.length - 32) := by omega
  rw [e, Nat.pow_mul]
  have e2 : (2 : Nat) ^ 8 = 256 := by decide
  rw [e2]
  have hpos : 0 < 256 ^ (h.length - 32) := Nat.pow_pos (by decide)
  rw [Nat.mul_comm, Nat.mul_add_div hpos, Nat.div_eq_of_lt hlt, Nat.add_zero]

theorem fromHashGo_eq (h : Bytes) : fromHashGo h = fromHash h := by
  by_cases hl : h.length > 32
  · have ht : (h.take 32).length = 32 := by rw [List.length_take]; omega
    have hb : 8 * h.length > 256 := by omega
    have e1 : fromHashGo h = unbe (h.take 32) % n := by
      simp [fromHashGo, hl, ht]
    have e2 : fromHash h = (unbe h >>> (8 * h.length - 256)) % n := by
      simp [fromHash, bits2int, hb]
    rw [e1, e2, shift_take h hl]
  · have hb : ¬ (8 * h.length > 256) := by omega
    have hb' : ¬ (256 < 8 * h.length) := by omega
    have e1 : fromHashGo h = unbe h % n := by
      simp [fromHashGo, hl, hb']
    have e2 : fromHash h = unbe h % n := by
      simp [fromHash, bits2int, hb']
    rw [e1, e2]

/-! ### point decoding -/

/-- the prefix byte is only ever compared with 3 -/
theorem decodeGo_prefix_ignored (pre : UInt8) (rest : Bytes) (h : pre ≠ 3) :
    decodeGo (pre :: rest) = decodeGo (2 :: rest) := by
  have h1 : (pre == 3) = false := by simpa using h
  simp [decodeGo, h1]

theorem decodeStrict_imp_decodeGo (bs : Bytes) (P : Pt) (h : decodeStrict bs = some P) : decodeGo bs = some P := by
  cases bs with
  | nil => simp [decodeStrict] at h
  | cons pre rest =>
    simp only [decodeStrict] at h
    simp only [decodeGo]
    split at h
    · simp at h
    · next hl =>
      simp only [hl, if_false]
      split at h
      · next h2 => subst h2; simpa using h
      · split at h
        · next h3 => subst h3; simpa using h
        · simp at h

/-- what the code accepts: some prefix byte followed by 32 bytes such that the STRICT decoder
    accepts the same bytes under the prefix 03 (if the byte was 03) or 02 (any other byte) -/
theorem decodeGo_char (bs : Bytes) (P : Pt) (h : decodeGo bs = some P) :
    ∃ pre rest, bs = pre :: rest ∧ rest.length = 32 ∧
      decodeStrict ((if pre = 3 then 3 else 2) :: rest) = some P := by
  cases bs with
  | nil => simp [decodeGo] at h
  | cons pre rest =>
    simp only [decodeGo] at h
    split at h
    · simp at h
    · next hl =>
      have hl' : rest.length = 32 := by simpa using hl
      refine ⟨pre, rest, rfl, hl', ?_⟩
      by_cases h3 : pre = 3
      · subst h3
        simpa [decodeStrict, hl'] using h
      · have : (pre == 3) = false := by simpa using h3
        rw [this] at h
        simpa [decodeStrict, hl', h3] using h

/-- the patched decoder (hooks/secp256k1-strict-prefix.diff) IS the strict SEC 1 decoder -/
theorem decodeFixed_eq_strict (bs : Bytes) : decodeFixed bs = decodeStrict bs := by
  cases bs with
  | nil => rfl
  | cons pre rest =>
    simp only [decodeFixed, decodeStrict]
    by_cases hl : rest.length ≠ 32
    · simp [hl]
    · simp only [hl, if_false]
      by_cases h2 : pre = 2
      · subst h2; simp
      · by_cases h3 : pre = 3
        · subst h3; simp
        · simp [h2, h3]

end Mps.Sig

namespace Mps.Sig
open Mps Mps.Secp

/-! ### reduced points: coordinates below p (true of everything `mul`, `neg`, `add` return) -/

def Red : Pt → Prop
  | .inf => True
  | .aff x y => x < p ∧ y < p

theorem p_pos : 0 < p := by decide
theorem p_lt : p < 256 ^ 32 := by decide

theorem fsub_lt (a b : Nat) : fsub a b < p := Nat.mod_lt _ p_pos

theorem red_mul (k : Nat) (P : Pt) : Red (mul k P) := by
  cases P with
  | inf => simp [mul, Red]
  | aff x y =>
    simp only [mul]
    split
    · simp [Red]
    · unfold JPt.toAffine
      split
      · simp [Red]
      · exact ⟨Nat.mod_lt _ p_pos, Nat.mod_lt _ p_pos⟩

theorem red_neg (P : Pt) (h : Red P) : Red (neg P) := by
  cases P with
  | inf => simp [neg, Red]
  | aff x y => exact ⟨h.1, Nat.mod_lt _ p_pos⟩

theorem red_add (P Q : Pt) (hP : Red P) (hQ : Red Q) : Red (add P Q) := by
  cases P with
  | inf => simpa [add] using hQ
  | aff x1 y1 =>
    cases Q with
    | inf => simpa [add] using hP
    | aff x2 y2 =>
      simp only [add]
      split
      · split
        · simp [Red]
        · exact ⟨fsub_lt _ _, fsub_lt _ _⟩
      · exact ⟨fsub_lt _ _, fsub_lt _ _⟩

theorem xcoord_lt (P : Pt) (h : Red P) : xcoord P < 256 ^ 32 := by
  cases P with
  | inf => simp [xcoord]
  | aff x y => exact Nat.lt_trans h.1 p_lt

/-! ### fixed-width big-endian round trip -/

theorem unbe_inj_len (a b : Bytes) (hl : a.length = b.length) (h : unbe a = unbe b) : a = b := by
  induction a generalizing b with
  | nil => cases b with
    | nil => rfl
    | cons _ _ => simp at hl
  | cons x as ih =>
    cases b with
    | nil => simp at hl
    | cons y bs =>
      have hl' : as.length = bs.length := by simpa using hl
      rw [unbe_cons, unbe_cons, hl'] at h
      have ha := unbe_lt as
      have hb := unbe_lt bs
      rw [hl'] at ha
      have hpos : 0 < 256 ^ bs.length := Nat.pow_pos (by decide)
      have hx : x.toNat = y.toNat := by
        have h1 : (x.toNat * 256 ^ bs.length + unbe as) / 256 ^ bs.length =
            (y.toNat * 256 ^ bs.length + unbe bs) / 256 ^ bs.length := by rw [h]
        rw [Nat.mul_comm x.toNat, Nat.mul_add_div hpos, Nat.div_eq_of_lt ha, Nat.mul_comm y.toNat,
          Nat.mul_add_div hpos, Nat.div_eq_of_lt hb] at h1
        simpa using h1
      have hu : unbe as = unbe bs := by
        rw [hx] at h
        exact Nat.add_left_cancel h
      have hxy : x = y := UInt8.toNat_inj.mp hx
      rw [hxy, ih bs hl' hu]

theorem beN_unbe (bs : Bytes) : beN bs.length (unbe bs) = bs := by
  apply unbe_inj_len
  · rw [beN_length]
  · rw [unbe_beN, Nat.mod_eq_of_lt (unbe_lt bs)]

/-! ### `PublicKey.Verify` on a 32-byte key is BIP-340 verification -/

theorem xBytes_eq_iff (C : Pt) (hC : Red C) (hne : C ≠ .inf) (rb : Bytes) (hl : rb.length = 32) :
    (xBytes C == rb) = decide (xcoord C = unbe rb) := by
  cases C with
  | inf => exact absurd rfl hne
  | aff x y =>
    have hx : x < 256 ^ 32 := Nat.lt_trans hC.1 p_lt
    simp only [xBytes, xcoord]
    by_cases e : x = unbe rb
    · have : beN 32 x = rb := by rw [e, ← hl, beN_unbe]
      rw [this]; simp [e]
    · have : beN 32 x ≠ rb := by
        intro h
        apply e
        have := congrArg unbe h
        rwa [unbe_beN, Nat.mod_eq_of_lt hx] at this
      simp [this, e]

theorem bip340_verifyGo_eq_verify (pk m sig : Bytes) (hpk : pk.length = 32) :
    Bip340.verifyGo pk m sig = Bip340.verify pk m sig := by
  unfold Bip340.verifyGo Bip340.verify
  by_cases hs : sig.length = 64
  · have hs' : ¬ (sig.length ≠ 64) := by simpa using hs
    have htake : pk.take 32 = pk := by rw [← hpk]; exact List.take_length
    have hrl : (sig.take 32).length = 32 := by rw [List.length_take]; omega
    have hsl : (sig.drop 32).length = 32 := by rw [List.length_drop]; omega
    simp only [hs', hpk, ne_eq, not_true_eq_false, false_or, if_false, htake]
    unfold schnorrVerifyO
    cases hP : liftX (unbe pk) with
    | none => simp
    | some P =>
      simp only [scalarDecodeGo, hsl, ne_eq, not_true_eq_false, if_false]
      by_cases hsn : unbe (sig.drop 32) ≥ n
      · simp [hsn]
      · simp only [hsn, if_false, or_false]
        -- the two challenges coincide
        have hch : Bip340.challenge (unbe (sig.take 32)) (unbe pk) m =
            unbe (Sha2.taggedHash "BIP0340/challenge" [sig.take 32, pk, m]) % n := by
          unfold Bip340.challenge
          have e1 : beN 32 (unbe (sig.take 32)) = sig.take 32 := by
            have := beN_unbe (sig.take 32); rwa [hrl] at this
          have e2 : beN 32 (unbe pk) = pk := by
            have := beN_unbe pk; rwa [hpk] at this
          rw [e1, e2]
        rw [hch]
        generalize hC : add (mul (unbe (sig.drop 32)) G)
          (neg (mul (unbe (Sha2.taggedHash "BIP0340/challenge" [sig.take 32, pk, m]) % n) P)) = C
        have hred : Red C := by
          rw [← hC]; exact red_add _ _ (red_mul _ _) (red_neg _ (red_mul _ _))
        have hC' : secp.gadd (secp.smul (unbe (sig.drop 32)) secp.gen)
            (secp.gneg (secp.smul (unbe (Sha2.taggedHash "BIP0340/challenge" [sig.take 32, pk, m]) % n) P)) = C := hC
        simp only [hC', hC]
        have hz : secp.gzero = Pt.inf := rfl
        have he : secp.evenY = hasEvenY := rfl
        simp only [hz, he]
        by_cases hinf : C = .inf
        · simp [hinf]
        · simp only [hinf, if_false, ne_eq, not_false_eq_true, decide_true, Bool.true_and]
          by_cases hev : hasEvenY C = true
          · simp only [hev, Bool.not_true, Bool.false_eq_true, if_false, Bool.true_and]
            rw [xBytes_eq_iff C hred hinf _ hrl]
            by_cases hrp : unbe (sig.take 32) ≥ p
            · have hx := xcoord_lt C hred
              have : xcoord C ≠ unbe (sig.take 32) := by
                intro e
                cases C with
                | inf => exact hinf rfl
                | aff x y =>
                  simp only [xcoord] at e
                  have := hred.1
                  omega
              simp [hrp, this]
            · simp [hrp]
          · have hev' : hasEvenY C = false := by simpa using hev
            simp [hev']
  · simp [hs]

end Mps.Sig

namespace Mps.Sig
open Mps Mps.Secp

/-! ### the patched `SigEthereum` writes the standard export -/

theorem n_pos : 0 < n := by decide
theorem n_lt : n < 256 ^ 32 := by decide

theorem reduced_iff (x : Nat) (hx : x < 256 ^ 32) : (beN 32 (x % n) != beN 32 x) = decide (x ≥ n) := by
  have hm : x % n < 256 ^ 32 := Nat.lt_trans (Nat.mod_lt _ n_pos) n_lt
  by_cases h : x ≥ n
  · have : beN 32 (x % n) ≠ beN 32 x := by
      intro e
      have := beN_inj 32 _ _ hm hx e
      have := Nat.mod_lt x n_pos
      omega
    simp [h, this]
  · have : x % n = x := Nat.mod_eq_of_lt (by omega)
    simp [h, this]

theorem ethFixed_conforms (dec : Bytes → Option Pt) (x y s : Nat) (hx : x < 256 ^ 32) (hs0 : 0 < s) (hsn : s < n)
    (e : Bytes) (h : (sigEthereumFixed dec (.aff x y) s).1 = some e) : ethExportSpec (.aff x y) s = some e := by
  have henc : encodeGo (.aff x y) = (if y % 2 = 0 then 0x02 else 0x03) :: beN 32 x := rfl
  unfold sigEthereumFixed at h
  simp only [henc, xcoord, List.drop_succ_cons, List.drop_zero, List.headD_cons] at h
  split at h
  · simp at h
  · simp only [Option.some.injEq] at h
    rw [← h]
    unfold ethExportSpec
    simp only [Option.some.injEq, reduced_iff x hx]
    have hneg : (n - s) % n = n - s := Nat.mod_eq_of_lt (by omega)
    by_cases hy : y % 2 = 0 <;> by_cases ho : s > n / 2 <;> by_cases hxn : x ≥ n
    all_goals (have hy' : (y % 2 = 1) ↔ ¬ (y % 2 = 0) := by omega)
    all_goals simp [hy, hy', ho, hxn, hneg]
    all_goals decide

end Mps.Sig
