import Mps.Paillier
import Mathlib.Data.Nat.ModEq
import Mathlib.Data.Int.ModEq
import Mathlib.Tactic.Ring
import Mathlib.Tactic.Linarith
import Mathlib.Tactic.LinearCombination
/-
  Lemmas for M3, part 1: the modular primitives of `Mps.Paillier` (square-and-multiply, extended
  Euclid, modular inverse, the reduced add/sub/mul) and the CRT exponentiation of `arith.Modulus`.
-/
namespace Mps.Paillier

/-! ### square and multiply -/

theorem powMod_eq (b e m : Nat) : powMod b e m = b ^ e % m := by
  induction e using Nat.strongRecOn with
  | _ e ih =>
    rw [powMod]
    split
    · next h => subst h; simp
    · next h =>
      have hlt : e / 2 < e := by omega
      simp only [ih (e / 2) hlt]
      have h2 : b ^ (e / 2) % m * (b ^ (e / 2) % m) % m = b ^ (e / 2 * 2) % m := by
        rw [← Nat.mul_mod, ← pow_add]; congr 2; omega
      split
      · next hodd =>
        rw [h2, ← Nat.mul_mod, ← pow_succ]; congr 2; omega
      · next heven =>
        rw [h2]; congr 2; omega

theorem powMod_lt (b e m : Nat) (hm : 0 < m) : powMod b e m < m := by
  rw [powMod_eq]; exact Nat.mod_lt _ hm

theorem powMod_modEq (b e m : Nat) : powMod b e m ≡ b ^ e [MOD m] := by
  rw [powMod_eq]; exact Nat.mod_modEq _ _

/-! ### extended Euclid and the modular inverse -/

theorem egcd_spec (a b : Nat) :
    (egcd a b).1 = Nat.gcd a b ∧
    (a : ℤ) * (egcd a b).2.1 + (b : ℤ) * (egcd a b).2.2 = (Nat.gcd a b : ℤ) := by
  induction a using Nat.strongRecOn generalizing b with
  | _ a ih =>
    rw [egcd]
    split
    · next h => subst h; simp
    · next h =>
      have hlt : b % a < a := Nat.mod_lt _ (Nat.pos_of_ne_zero h)
      obtain ⟨h1, h2⟩ := ih (b % a) hlt a
      have hg : Nat.gcd a b = Nat.gcd (b % a) a := Nat.gcd_rec a b
      refine ⟨by simp only [h1, hg], ?_⟩
      simp only []
      have hb : (b : ℤ) = (a : ℤ) * ((b / a : ℕ) : ℤ) + ((b % a : ℕ) : ℤ) := by
        exact_mod_cast (Nat.div_add_mod b a).symm
      rw [hg]
      linear_combination h2 + (egcd (b % a) a).2.1 * hb

theorem modInv_lt (a m : Nat) (hm : 0 < m) : modInv a m < m := by
  unfold modInv
  have hm' : (0 : ℤ) < m := by exact_mod_cast hm
  have h1 := Int.emod_lt_of_pos (egcd (a % m) m).2.1 hm'
  have h0 := Int.emod_nonneg (egcd (a % m) m).2.1 (ne_of_gt hm')
  omega

/-- Bézout: `a · modInv a m ≡ gcd(a, m)  (mod m)` — for every `a`, unit or not. -/
theorem mul_modInv_modEq_gcd (a m : Nat) (hm : 0 < m) : a * modInv a m ≡ Nat.gcd a m [MOD m] := by
  have hm' : (0 : ℤ) < m := by exact_mod_cast hm
  obtain ⟨_, h2⟩ := egcd_spec (a % m) m
  set x := (egcd (a % m) m).2.1 with hx
  have h0 := Int.emod_nonneg x (ne_of_gt hm')
  have hcast : ((modInv a m : ℕ) : ℤ) = x % (m : ℤ) := by
    unfold modInv; rw [← hx]; exact Int.toNat_of_nonneg h0
  rw [← Int.natCast_modEq_iff]
  push_cast
  rw [hcast]
  have hg : Nat.gcd (a % m) m = Nat.gcd a m := by
    exact (Nat.gcd_rec m a).symm.trans (Nat.gcd_comm m a)
  have e1 : (a : ℤ) * (x % (m : ℤ)) ≡ ((a % m : ℕ) : ℤ) * x [ZMOD m] := by
    apply Int.ModEq.mul
    · push_cast; exact (Int.mod_modEq _ _).symm
    · exact Int.mod_modEq _ _
  have e2 : ((a % m : ℕ) : ℤ) * x ≡ (Nat.gcd a m : ℤ) [ZMOD m] := by
    have : ((a % m : ℕ) : ℤ) * x = (Nat.gcd a m : ℤ) - (m : ℤ) * (egcd (a % m) m).2.2 := by
      rw [← hg]; linarith
    rw [this]
    exact Int.sub_modulus_mul_modEq_iff.mpr (Int.ModEq.refl _)
  exact e1.trans e2

theorem mul_modInv (a m : Nat) (hm : 0 < m) (h : Nat.Coprime a m) : a * modInv a m ≡ 1 [MOD m] := by
  have := mul_modInv_modEq_gcd a m hm
  rwa [h] at this

/-- inverses are unique: any `y` with `a·y ≡ 1` is `modInv a m` modulo `m` -/
theorem modInv_unique (a m y : Nat) (hm : 0 < m) (hy : a * y ≡ 1 [MOD m]) : modInv a m = y % m := by
  have hc : Nat.Coprime a m := Nat.coprime_of_mul_modEq_one y hy
  have hx := mul_modInv a m hm hc
  -- x ≡ x * (a*y) = (a*x) * y ≡ y
  have e : modInv a m ≡ y [MOD m] := by
    calc modInv a m = modInv a m * 1 := (Nat.mul_one _).symm
      _ ≡ modInv a m * (a * y) [MOD m] := Nat.ModEq.mul_left _ hy.symm
      _ = (a * modInv a m) * y := by ring
      _ ≡ 1 * y [MOD m] := Nat.ModEq.mul_right _ hx
      _ = y := Nat.one_mul _
  have := Nat.mod_eq_of_lt (modInv_lt a m hm)
  rw [← this]; exact e

theorem modInv_mod (a m : Nat) : modInv (a % m) m = modInv a m := by
  unfold modInv; rw [Nat.mod_mod]

/-! ### reduced add / sub / mul -/

theorem modMul_eq (x y m : Nat) : modMul x y m = x * y % m := by
  unfold modMul; exact (Nat.mul_mod x y m).symm

theorem modAdd_eq (x y m : Nat) : modAdd x y m = (x + y) % m := by
  unfold modAdd; exact (Nat.add_mod x y m).symm

theorem modSub_add (x y m : Nat) (hm : 0 < m) : modSub x y m + y ≡ x [MOD m] := by
  unfold modSub
  have hy : y % m < m := Nat.mod_lt _ hm
  have h1 : (x % m + (m - y % m)) % m + y ≡ (x % m + (m - y % m)) + y % m [MOD m] :=
    Nat.ModEq.add (Nat.mod_modEq _ _) (Nat.mod_modEq _ _).symm
  have h2 : (x % m + (m - y % m)) + y % m = x % m + m := by omega
  rw [h2] at h1
  exact h1.trans ((Nat.add_modulus_modEq_iff).mpr (Nat.mod_modEq _ _))

/-! ### CRT exponentiation of `arith.Modulus` -/

/-- **crt_exp_eq** (core): for coprime factors `P`, `Q` the CRT recombination of `x^e mod P` and
    `x^e mod Q` computed by `arith.Modulus.Exp` is `x^e mod P·Q`, for every `x` and `e`. -/
theorem crtExp_eq (P Q x e : Nat) (hP : 0 < P) (hQ : 0 < Q) (hc : Nat.Coprime P Q) :
    (Modulus.ofFactors P Q).exp x e = x ^ e % (P * Q) := by
  have hn : 0 < P * Q := Nat.mul_pos hP hQ
  simp only [Modulus.exp, Modulus.ofFactors, if_true]
  rw [modAdd_eq, modMul_eq, modMul_eq, powMod_eq, powMod_eq]
  set xp := x ^ e % P with hxp
  set xq := x ^ e % Q with hxq
  set d := modSub xq xp (P * Q) with hd
  have hinv : P * modInv P Q ≡ 1 [MOD Q] := mul_modInv P Q hQ hc
  have hdq : d + xp ≡ xq [MOD Q] := (modSub_add xq xp (P * Q) hn).of_mul_left P
  -- the value before the final reduction
  set r := d * modInv P Q % (P * Q) * P % (P * Q) + xp with hr
  have hrP : r ≡ x ^ e [MOD P] := by
    have h1 : d * modInv P Q % (P * Q) * P % (P * Q) ≡ 0 [MOD P] := by
      have : d * modInv P Q % (P * Q) * P % (P * Q) ≡ d * modInv P Q % (P * Q) * P [MOD P] :=
        (Nat.mod_modEq _ _).of_mul_right Q
      exact this.trans (Nat.modEq_zero_iff_dvd.mpr (Dvd.intro_left _ rfl))
    have : r ≡ 0 + x ^ e [MOD P] := Nat.ModEq.add h1 (Nat.mod_modEq _ _)
    simpa using this
  have hrQ : r ≡ x ^ e [MOD Q] := by
    have h1 : d * modInv P Q % (P * Q) * P % (P * Q) ≡ d [MOD Q] := by
      have a1 : d * modInv P Q % (P * Q) * P % (P * Q) ≡ d * modInv P Q % (P * Q) * P [MOD Q] :=
        (Nat.mod_modEq _ _).of_mul_left P
      have a2 : d * modInv P Q % (P * Q) * P ≡ d * modInv P Q * P [MOD Q] :=
        Nat.ModEq.mul_right _ ((Nat.mod_modEq _ _).of_mul_left P)
      have a3 : d * modInv P Q * P = d * (P * modInv P Q) := by ring
      have a4 : d * (P * modInv P Q) ≡ d * 1 [MOD Q] := Nat.ModEq.mul_left _ hinv
      rw [a3] at a2
      simpa using a1.trans (a2.trans a4)
    have : r ≡ d + xp [MOD Q] := Nat.ModEq.add_right _ h1
    exact this.trans (hdq.trans (Nat.mod_modEq _ _))
  have hmod : r ≡ x ^ e [MOD P * Q] := (Nat.modEq_and_modEq_iff_modEq_mul hc).mp ⟨hrP, hrQ⟩
  exact hmod

theorem plainExp_eq (n x e : Nat) : (Modulus.ofN n).exp x e = x ^ e % n := by
  simp [Modulus.exp, Modulus.ofN, powMod_eq]

end Mps.Paillier
