import MpsProofs.Handler
import Mps.Drv.Handler
/-
  The driver's order-parameterised `acceptO` (Mps.Drv.Handler) is the model's `accept` when the replay order is the
  id order: the alternatives the driver admits differ from the proven model ONLY in the order in which the queued
  messages of a newly entered round are replayed (Go ranges over a map there).
-/
namespace Mps.Drv.Handler
open Mps Mps.Handler

theorem replayQueuedO_sc (ids : List Bytes) (st : State) (h : st.sc.ids = ids) : replayQueuedO ids st = replayQueued st := by
  unfold replayQueuedO replayQueued
  rw [h]

theorem finalizeStepO_ids (H : Bytes → Bytes) (s : State) : finalizeStepO H s.sc.ids s = finalizeStep H s := by
  unfold finalizeStepO finalizeStep
  simp only
  cases hpf : protoFinalize (fillBh H s) with
  | round i nx =>
    have hsc : (enter (sendAll (fillBh H s) (emitFor (fillBh H s) nx)) i nx).sc.ids = s.sc.ids := by
      have h1 : (sendAll (fillBh H s) (emitFor (fillBh H s) nx)).sc = (fillBh H s).sc :=
        (sc_preserved H (fillBh H s).sc).onSend (fillBh H s) nx rfl
      have h2 : (fillBh H s).sc = s.sc := (sc_preserved H s.sc).onFill s rfl
      simp [enter, h1, h2]
    dsimp only
    rw [replayQueuedO_sc _ _ hsc]
    rfl
  | _ => rfl

theorem finalizeO_ids (H : Bytes → Bytes) : ∀ (fuel : Nat) (s : State), finalizeO H s.sc.ids fuel s = finalize H fuel s
  | 0, s => rfl
  | fuel + 1, s => by
    unfold finalizeO finalize
    rw [finalizeStepO_ids]
    cases hs : finalizeStep H s with
    | halt s' => rfl
    | more s' =>
      have hsc : s'.sc = s.sc := by
        have := finalizeStep_pres (sc_preserved H s.sc) s rfl
        rw [hs] at this
        exact this
      have ih := finalizeO_ids H fuel s'
      rw [hsc] at ih
      exact ih

/-- with the id order the driver's `acceptO` is the model's `accept` -/
theorem acceptO_ids (H : Bytes → Bytes) (s : State) (m : Msg) : acceptO H s.sc.ids s m = accept H s m := by
  unfold acceptO accept
  split
  · rfl
  · split
    · rfl
    · unfold acceptStoredO acceptStored
      split
      · rfl
      · cases hv : (if m.bcast then verifyBroadcastMessage (store s m) m else verifyMessage (store s m) m) with
        | bad => rfl
        | echo => rfl
        | ok s2 =>
          have hsc : s2.sc = s.sc := by
            have h1 : (store s m).sc = s.sc := (sc_preserved H s.sc).onStore s m rfl
            have h2 : s2.sc = (store s m).sc := by
              split at hv
              · exact ((verifyBroadcastMessage_sameCore _ _ _ hv).1).symm
              · exact ((verifyMessage_sameCore _ _ _ hv).1).symm
            rw [h2, h1]
          have := finalizeO_ids H (s2.sc.rounds.length + 1) s2
          rw [hsc] at this
          simp only [hsc]
          exact this

end Mps.Drv.Handler
