import Mps.OT.Multiply
/-
  The masking loops of AdditiveOTReceiver.Round2 (core-only).
  * as the code now stands (bound = length of pad `i`): in range for EVERY batch size and EVERY pad
    length;
  * as it stood before fix commit eab5a8f (bound = length of pad `j`, the byte counter): on a
    well-formed message in range exactly when the batch has at least 33 pads.
-/
namespace Mps.OT

theorem maskLoop_aux (lens : List Nat) (i : Nat) (hi : i < lens.length) (fuel j : Nat)
    (hj : j ≤ lens[i]) (hf : lens[i] ≤ fuel + j) :
    maskLoopCoded lens i fuel j = some lens[i] := by
  induction fuel generalizing j with
  | zero =>
    have : j = lens[i] := by omega
    simp [maskLoopCoded, this]
  | succ fuel ih =>
    unfold maskLoopCoded
    rw [List.getElem?_eq_getElem hi]
    by_cases h : j < lens[i]
    · show (if j < lens[i] then _ else some j) = _
      rw [if_pos h]
      exact ih (j + 1) (by omega) (by omega)
    · have : j = lens[i] := by omega
      show (if j < lens[i] then _ else some j) = _
      rw [if_neg h, this]

/-- **the fixed loop is in range for every batch**: whatever the number of pads, whatever their
    lengths (honest or not) and for every pad index of the batch, the masking loop ends normally,
    having masked exactly the bytes of pad `i` — no index is ever out of range. -/
theorem additive_mask_loop_in_range (lens : List Nat) (i : Nat) (hi : i < lens.length) (fuel : Nat)
    (hf : lens[i] ≤ fuel) :
    maskLoopCoded lens i fuel 0 = some lens[i] :=
  maskLoop_aux lens i hi fuel 0 (Nat.zero_le _) (by omega)

theorem maskLoopOld_replicate_aux (n i : Nat) (hi : i < n) (fuel j : Nat) (hj : j ≤ 32) (hjn : j ≤ n)
    (hf : 33 ≤ fuel + j) :
    maskLoopCodedOld (List.replicate n 32) i fuel j = if 33 ≤ n then some 32 else none := by
  induction fuel generalizing j with
  | zero => omega
  | succ fuel ih =>
    unfold maskLoopCodedOld
    rw [List.getElem?_replicate, List.getElem?_replicate]
    by_cases h1 : j < n
    · simp only [h1, if_true, hi]
      by_cases h2 : j < 32
      · simp only [h2, if_true]
        exact ih (j + 1) (by omega) (by omega) (by omega)
      · have : j = 32 := by omega
        subst this
        simp only [Nat.lt_irrefl, if_false]
        rw [if_pos (by omega)]
    · have : j = n := by omega
      subst this
      simp only [Nat.lt_irrefl, if_false]
      rw [if_neg (by omega)]

/-- **the repaired defect, exactly**: with an honest message the OLD masking loop finished (after 32
    bytes) iff the batch had at least 33 pads; every smaller batch indexed `CombinedPads` out of
    range — for every pad index `i`, whatever the choice bits. -/
theorem additive_mask_loop_range_old (n i : Nat) (hi : i < n) :
    maskLoopCodedOld (List.replicate n 32) i 64 0 = if 33 ≤ n then some 32 else none :=
  maskLoopOld_replicate_aux n i hi 64 0 (by omega) (by omega) (by omega)

/-- OLD loop, a pad shortened to 31 bytes: the bound still came from the other pads, so byte 31 of
    the short pad was indexed — out of range; the fixed loop masks its 31 bytes -/
theorem additive_mask_loop_truncated_old :
    maskLoopCodedOld ((List.replicate 672 32).set 5 31) 5 64 0 = none ∧
    maskLoopCoded ((List.replicate 672 32).set 5 31) 5 64 0 = some 31 := by decide

end Mps.OT
