import Mps.OT.Multiply
/-
  The mis-indexed masking loop of AdditiveOTReceiver.Round2 (core-only): on a well-formed message
  (every combined pad 32 bytes long) it stays in range exactly when the batch has at least 33 pads.
-/
namespace Mps.OT

theorem maskLoop_replicate_aux (n i : Nat) (hi : i < n) (fuel j : Nat) (hj : j ≤ 32) (hjn : j ≤ n)
    (hf : 33 ≤ fuel + j) :
    maskLoopCoded (List.replicate n 32) i fuel j = if 33 ≤ n then some 32 else none := by
  induction fuel generalizing j with
  | zero => omega
  | succ fuel ih =>
    unfold maskLoopCoded
    rw [List.getElem?_replicate, List.getElem?_replicate]
    by_cases h1 : j < n
    · simp only [h1, if_true, hi]
      by_cases h2 : j < 32
      · simp only [h2, if_true]
        exact ih (j + 1) (by omega) (by omega) (by omega)
      · have : j = 32 := by omega
        subst this
        simp only [Nat.lt_irrefl, if_false]
        rw [if_pos (by omega)]
    · have : j = n := by omega
      subst this
      simp only [Nat.lt_irrefl, if_false]
      rw [if_neg (by omega)]

/-- **the defect, exactly**: with an honest message the masking loop of `Round2` finishes (after 32
    bytes) iff the batch has at least 33 pads; every smaller batch indexes `CombinedPads` out of
    range — for every pad index `i`, whatever the choice bits. -/
theorem additive_mask_loop_range (n i : Nat) (hi : i < n) :
    maskLoopCoded (List.replicate n 32) i 64 0 = if 33 ≤ n then some 32 else none :=
  maskLoop_replicate_aux n i hi 64 0 (by omega) (by omega) (by omega)

/-- a pad shortened to 31 bytes at index `i ≠ 31…`: the bound still comes from the other pads, so
    byte 31 of the short pad is indexed — out of range -/
theorem additive_mask_loop_truncated :
    maskLoopCoded ((List.replicate 672 32).set 5 31) 5 64 0 = none := by decide

end Mps.OT
