import Mathlib.Algebra.Group.Basic
import Mathlib.Algebra.Group.Prod
import Mathlib.Algebra.Group.Subgroup.Ker
import Mathlib.Algebra.Group.TypeTags.Basic
import Mathlib.Algebra.Module.Basic
import Mathlib.Tactic.Abel
import Mathlib.Tactic.Ring
import Mathlib.Tactic.Module
import Mathlib.Tactic.Linarith
import Mathlib.Data.Int.ModEq
import Mathlib.Data.Nat.Size
import Mathlib.Data.ZMod.Basic
import Mathlib.NumberTheory.Basic

/-!
# Completeness of the 15 Fiat–Shamir Σ-protocols of `/repo/pkg/zk` at the level of the
# verification equations

Every protocol in `/repo/pkg/zk/<name>/<name>.go` is an instance of the same pattern:
a group homomorphism `φ : W → G` ("witness group" to "statement group"), a statement `X = φ w`,
a commitment `A = φ α`, a challenge `e : ℤ` and a response `z = α + e • w`; `Verify` checks
`φ z = A + e • X`.  `sigma_complete` proves that equation for EVERY mask `α`, witness `w` and
challenge `e` (all integers, including `0` and negative ones), and every instance theorem below is
a corollary (the homomorphism is written down explicitly, e.g. for Paillier
`(k, ρ) ↦ (1+N)^k · ρ^N`, for Pedersen `(x, y) ↦ s^x · t^y`).

Modelling conventions (they follow the Go code):
* curve group: an arbitrary `AddCommGroup G`; `q : ℤ` with `q • g = 0` for the points involved
  (the group order); scalars are integers and the code's reduction `mod q` is `Int.emod`
  (`zsmul_emod_order` shows that the reduction does not change `n • g`);
* units mod `N²` (Paillier) resp. mod `N̂` (Pedersen): an arbitrary `CommGroup M`; exponents are
  signed integers (`saferith.Int`, `ExpI`: negative exponent = inverse), i.e. `zpow`;
  `Enc(m;ρ) = g^m * ρ^Nn` with `g = 1+N`, `Nn = N` (a natural exponent, `npow`);
  `ct.Mul(k) = ct^k`, `ct.Add = *`, `Randomize(ν) = · * ν^Nn`;
* integer responses `z = α + e * x` are NOT reduced; nonce responses are `r * ρ^e` reduced mod `N`
  and then used as `(·)^N mod N²`: `pow_N_congr_mod_sq` / `nonce_response_reduced` show that the
  reduction mod `N` does not change the `N`-th power mod `N²`;
* the range checks (`IsInIntervalLEps` = `bitlen |z| ≤ 768` = `|z| < 2^768`) are covered by
  `honest_response_bound*`.

-/

namespace Mps.ZK

open Multiplicative (ofAdd)

/-! ## 1. Generic statements -/

/-- Σ-protocol completeness, additive form: `φ (α + e • w) = φ α + e • φ w`. -/
theorem sigma_complete {W G : Type*} [AddCommGroup W] [AddCommGroup G] (φ : W →+ G)
    (α w : W) (e : ℤ) : φ (α + e • w) = φ α + e • φ w := by
  rw [map_add, map_zsmul]

/-- Σ-protocol completeness, multiplicative form: `φ (α * w ^ e) = φ α * φ w ^ e`. -/
theorem sigma_complete_mul {W G : Type*} [CommGroup W] [CommGroup G] (φ : W →* G)
    (α w : W) (e : ℤ) : φ (α * w ^ e) = φ α * φ w ^ e := by
  rw [map_mul, map_zpow]

/-- mixed form used by Paillier/Pedersen: the homomorphism `ℤ → G`, `k ↦ g ^ k`. -/
theorem sigma_complete_zpow {G : Type*} [CommGroup G] (g : G) (α e x : ℤ) :
    g ^ (α + e * x) = g ^ α * (g ^ x) ^ e := by
  simpa using sigma_complete_mul (zpowersHom G g) (ofAdd α) (ofAdd x) e

/-- additive mixed form: the homomorphism `ℤ → G`, `k ↦ k • g`. -/
theorem sigma_complete_zsmul {G : Type*} [AddCommGroup G] (g : G) (α e x : ℤ) :
    (α + e * x) • g = α • g + e • (x • g) := by
  simpa using sigma_complete (zmultiplesHom G g) α x e

/-- two accepted responses (same commitment, challenge, statement) differ by a kernel element -/
theorem response_unique_mod_kernel {W G : Type*} [AddCommGroup W] [AddCommGroup G] (φ : W →+ G)
    (A X : G) (e : ℤ) (z z' : W) (h : φ z = A + e • X) (h' : φ z' = A + e • X) :
    z - z' ∈ φ.ker ∧ φ (z - z') = 0 := by
  have : φ (z - z') = 0 := by rw [map_sub, h, h', sub_self]
  exact ⟨(AddMonoidHom.mem_ker).2 this, this⟩

/-- conversely, anything that differs from an accepted response by a kernel element is accepted -/
theorem response_accepted_of_kernel {W G : Type*} [AddCommGroup W] [AddCommGroup G] (φ : W →+ G)
    (A X : G) (e : ℤ) (z z' : W) (h : φ z = A + e • X) (hk : z - z' ∈ φ.ker) :
    φ z' = A + e • X := by
  have h0 : φ z - φ z' = 0 := by rw [← map_sub]; exact (AddMonoidHom.mem_ker).1 hk
  rw [← h]; exact (sub_eq_zero.1 h0).symm

theorem response_unique_mod_kernel_iff {W G : Type*} [AddCommGroup W] [AddCommGroup G]
    (φ : W →+ G) (A X : G) (e : ℤ) (z z' : W) (h : φ z = A + e • X) :
    φ z' = A + e • X ↔ z - z' ∈ φ.ker :=
  ⟨fun h' => (response_unique_mod_kernel φ A X e z z' h h').1,
   response_accepted_of_kernel φ A X e z z' h⟩

/-- multiplicative twin -/
theorem response_unique_mod_kernel_mul {W G : Type*} [CommGroup W] [CommGroup G] (φ : W →* G)
    (A X : G) (e : ℤ) (z z' : W) (h : φ z = A * X ^ e) (h' : φ z' = A * X ^ e) :
    z / z' ∈ φ.ker ∧ φ (z / z') = 1 := by
  have : φ (z / z') = 1 := by rw [map_div, h, h', div_self']
  exact ⟨(MonoidHom.mem_ker).2 this, this⟩

theorem response_accepted_of_kernel_mul {W G : Type*} [CommGroup W] [CommGroup G] (φ : W →* G)
    (A X : G) (e : ℤ) (z z' : W) (h : φ z = A * X ^ e) (hk : z / z' ∈ φ.ker) :
    φ z' = A * X ^ e := by
  have h0 : φ z / φ z' = 1 := by rw [← map_div]; exact (MonoidHom.mem_ker).1 hk
  rw [← h]; exact (div_eq_one.1 h0).symm

/-- if `φ` is injective the accepted response is unique -/
theorem response_unique_of_injective {W G : Type*} [AddCommGroup W] [AddCommGroup G] (φ : W →+ G)
    (hφ : Function.Injective φ) (A X : G) (e : ℤ) (z z' : W)
    (h : φ z = A + e • X) (h' : φ z' = A + e • X) : z = z' :=
  hφ (h.trans h'.symm)

theorem response_unique_of_injective_mul {W G : Type*} [CommGroup W] [CommGroup G] (φ : W →* G)
    (hφ : Function.Injective φ) (A X : G) (e : ℤ) (z z' : W)
    (h : φ z = A * X ^ e) (h' : φ z' = A * X ^ e) : z = z' :=
  hφ (h.trans h'.symm)

/-- reduction of a scalar modulo (a multiple of) the order of `g` does not change `n • g` -/
theorem zsmul_emod_order {G : Type*} [AddCommGroup G] {g : G} {q : ℤ} (hq : q • g = 0) (n : ℤ) :
    (n % q) • g = n • g := by
  conv_rhs => rw [← Int.emod_add_mul_ediv n q]
  rw [add_smul, mul_comm, mul_smul, hq, smul_zero, add_zero]

/-- `q` kills every multiple of `g` as soon as it kills `g` -/
theorem order_smul {G : Type*} [AddCommGroup G] {g : G} {q : ℤ} (hq : q • g = 0) (b : ℤ) :
    q • (b • g) = 0 := by
  rw [smul_comm, hq, smul_zero]

/-- multiplicative twin of `zsmul_emod_order` (integer exponents) -/
theorem zpow_emod_order {M : Type*} [CommGroup M] {t : M} {q : ℤ} (hq : t ^ q = 1) (n : ℤ) :
    t ^ (n % q) = t ^ n := by
  conv_rhs => rw [← Int.emod_add_mul_ediv n q]
  rw [zpow_add, zpow_mul, hq, one_zpow, mul_one]

/-- `a ≡ b (mod N) → a^N ≡ b^N (mod N²)`: the nonce reduced mod `N` has the same `N`-th power
mod `N²` -/
theorem pow_N_congr_mod_sq (N : ℕ) (a b : ℤ) (h : a ≡ b [ZMOD N]) :
    a ^ N ≡ b ^ N [ZMOD (N : ℤ) ^ 2] := by
  have h1 : (N : ℤ) ∣ b - a := (Int.modEq_iff_dvd).1 h
  have h2 := dvd_sub_pow_of_dvd_sub (R := ℤ) (p := N) h1 1
  rw [pow_one] at h2
  exact (Int.modEq_iff_dvd).2 h2

/-- the form used by the code: `w = r * ρ^e mod N`, then `w^N mod N²` -/
theorem nonce_response_reduced (N e : ℕ) (r ρ : ℤ) :
    ((r * ρ ^ e) % N) ^ N ≡ (r * ρ ^ e) ^ N [ZMOD (N : ℤ) ^ 2] :=
  pow_N_congr_mod_sq N _ _ (Int.mod_modEq _ _)

/-- negative challenge: the code uses the inverse `ρi` of `ρ` modulo `N`; its `N`-th power is the
inverse of `ρ^N` modulo `N²` -/
theorem nonce_inverse_pow_N (N : ℕ) (ρ ρi : ℤ) (h : ρ * ρi ≡ 1 [ZMOD N]) :
    ρ ^ N * ρi ^ N ≡ 1 [ZMOD (N : ℤ) ^ 2] := by
  have := pow_N_congr_mod_sq N _ _ h
  rwa [mul_pow, one_pow] at this

/-! ## 2. Building blocks (each one is `sigma_complete` for an explicit homomorphism) -/

/-- curve equation with the code's reductions `mod q`
(`z₁ mod q`, `α mod q`, `e mod q`): `Verify: (z₁ mod q)•G = Y + (e mod q)•X`. -/
theorem curve_complete {G : Type*} [AddCommGroup G] (g : G) (q : ℤ) (hq : q • g = 0)
    (α x e : ℤ) :
    ((α + e * x) % q) • g = (α % q) • g + (e % q) • (x • g) := by
  rw [zsmul_emod_order hq, zsmul_emod_order hq, zsmul_emod_order (order_smul hq x)]
  exact sigma_complete_zsmul g α e x

/-- `pkg/zk/sch`: `Verify: z•gen = C + e•X`, `z = a + e x mod q`, `C = a•gen`, `X = x•gen`. -/
theorem sch_complete {G : Type*} [AddCommGroup G] (g : G) (q : ℤ) (hq : q • g = 0)
    (a x e : ℤ) :
    ((a + e * x) % q) • g = a • g + e • (x • g) := by
  rw [zsmul_emod_order hq]
  exact sigma_complete_zsmul g a e x

/-- Pedersen: `Verify(z₁, z₃, e, C, S)`: `s^z₁ t^z₃ = C · S^e` with `C = s^α t^γ`, `S = s^k t^μ`. -/
theorem pedersen_complete {M : Type*} [CommGroup M] (s t : M) (α γ k μ e : ℤ) :
    s ^ (α + e * k) * t ^ (γ + e * μ) = (s ^ α * t ^ γ) * (s ^ k * t ^ μ) ^ e := by
  simpa using sigma_complete_mul ((zpowersHom M s).coprod (zpowersHom M t))
    (ofAdd α, ofAdd γ) (ofAdd k, ofAdd μ) e

/-- Paillier: `Enc(z₁; z₂) = (e ⊙ K) ⊕ A` with `K = Enc(k;ρ) = g^k ρ^N`, `A = Enc(α;r)`,
`z₁ = α + e k`, `z₂ = r ρ^e`. -/
theorem paillier_enc_complete {M : Type*} [CommGroup M] (g : M) (Nn : ℕ) (r ρ : M)
    (α k e : ℤ) :
    g ^ (α + e * k) * (r * ρ ^ e) ^ Nn = (g ^ k * ρ ^ Nn) ^ e * (g ^ α * r ^ Nn) := by
  have := sigma_complete_mul ((zpowersHom M g).coprod (powMonoidHom Nn))
    (ofAdd α, r) (ofAdd k, ρ) e
  simpa [mul_comm] using this

/-- the affine Paillier equation of `affg`/`affp`:
`Enc₀(z₂; w) ⊕ (z₁ ⊙ Kv) = (e ⊙ Dv) ⊕ A`, `Dv = (x ⊙ Kv) ⊕ Enc₀(y; s)`,
`A = (α ⊙ Kv) ⊕ Enc₀(β; ρ)`. -/
theorem paillier_aff_complete {M : Type*} [CommGroup M] (Kv g : M) (Nn : ℕ) (ρ s : M)
    (α β x y e : ℤ) :
    Kv ^ (α + e * x) * (g ^ (β + e * y) * (ρ * s ^ e) ^ Nn)
      = (Kv ^ x * (g ^ y * s ^ Nn)) ^ e * (Kv ^ α * (g ^ β * ρ ^ Nn)) := by
  have := sigma_complete_mul
    ((zpowersHom M Kv).coprod ((zpowersHom M g).coprod (powMonoidHom Nn)))
    (ofAdd α, ofAdd β, ρ) (ofAdd x, ofAdd y, s) e
  simpa [mul_comm] using this

/-- `pkg/zk/nth`: `Verify: z^N = R^e · A (mod N²)`, `z = α ρ^e`, `A = α^N`, `R = ρ^N`. -/
theorem nth_complete {M : Type*} [CommGroup M] (Nn : ℕ) (α ρ : M) (e : ℤ) :
    (α * ρ ^ e) ^ Nn = (ρ ^ Nn) ^ e * α ^ Nn := by
  have := sigma_complete_mul (powMonoidHom (α := M) Nn) α ρ e
  simpa [mul_comm] using this

/-! ## 3. The remaining instance theorems -/

/-- `pkg/zk/log`: `H = b•G`, `X = a•G`, `Y = a•H`, `A = α•G`, `B = α•H`, `C = β•G`,
`z₁ = α + e a mod q`, `z₂ = β + e b mod q`;
`Verify: z₁•G = A + e•X ∧ z₁•H = B + e•Y ∧ z₂•G = C + e•H`. -/
theorem log_complete {G : Type*} [AddCommGroup G] (g : G) (q : ℤ) (hq : q • g = 0)
    (a b α β e : ℤ) :
    ((α + e * a) % q) • g = α • g + e • (a • g) ∧
    ((α + e * a) % q) • (b • g) = α • (b • g) + e • (a • (b • g)) ∧
    ((β + e * b) % q) • g = β • g + e • (b • g) :=
  ⟨sch_complete g q hq α a e, sch_complete (b • g) q (order_smul hq b) α a e,
   sch_complete g q hq β b e⟩

/-- `pkg/zk/elog`: `L = λ•G`, `M = y•G + λ•X`, `Y = y•H`; `A = α•G`, `N = m•G + α•X`, `B = m•H`;
`z = α + e λ mod q`, `u = m + e y mod q`;
`Verify: z•G = A + e•L ∧ u•G + z•X = N + e•M ∧ u•H = B + e•Y`
(`X` = ElGamal public key, `H` = `public.Base`: arbitrary points of the group). -/
theorem elog_complete {G : Type*} [AddCommGroup G] (g X H : G) (q : ℤ)
    (hg : q • g = 0) (hX : q • X = 0) (hH : q • H = 0) (lam y α m e : ℤ) :
    ((α + e * lam) % q) • g = α • g + e • (lam • g) ∧
    ((m + e * y) % q) • g + ((α + e * lam) % q) • X
        = (m • g + α • X) + e • (y • g + lam • X) ∧
    ((m + e * y) % q) • H = m • H + e • (y • H) := by
  refine ⟨sch_complete g q hg α lam e, ?_, sch_complete H q hH m y e⟩
  rw [zsmul_emod_order hg, zsmul_emod_order hX]
  -- `sigma_complete` for `(λ, y) ↦ y•G + λ•X`
  have := sigma_complete (((zmultiplesHom G) g).coprod ((zmultiplesHom G) X)) (m, α) (y, lam) e
  simpa using this

/-- `pkg/zk/enc`: Pedersen check in the group mod `N̂` and Paillier check in the group mod `N²`. -/
theorem enc_complete {P M : Type*} [CommGroup P] [CommGroup M] (s t : P) (g : M) (Nn : ℕ)
    (r ρ : M) (α γ k μ e : ℤ) :
    s ^ (α + e * k) * t ^ (γ + e * μ) = (s ^ α * t ^ γ) * (s ^ k * t ^ μ) ^ e ∧
    g ^ (α + e * k) * (r * ρ ^ e) ^ Nn = (g ^ k * ρ ^ Nn) ^ e * (g ^ α * r ^ Nn) :=
  ⟨pedersen_complete s t α γ k μ e, paillier_enc_complete g Nn r ρ α k e⟩

/-- `pkg/zk/logstar`: `enc` plus `(z₁ mod q)•G = Y + (e mod q)•X`, `Y = (α mod q)•G`, `X = x•G`. -/
theorem logstar_complete {P M G : Type*} [CommGroup P] [CommGroup M] [AddCommGroup G]
    (s t : P) (g : M) (Nn : ℕ) (r ρ : M) (G0 : G) (q : ℤ) (hq : q • G0 = 0)
    (α γ x μ e : ℤ) :
    s ^ (α + e * x) * t ^ (γ + e * μ) = (s ^ α * t ^ γ) * (s ^ x * t ^ μ) ^ e ∧
    g ^ (α + e * x) * (r * ρ ^ e) ^ Nn = (g ^ x * ρ ^ Nn) ^ e * (g ^ α * r ^ Nn) ∧
    ((α + e * x) % q) • G0 = (α % q) • G0 + (e % q) • (x • G0) :=
  ⟨pedersen_complete s t α γ x μ e, paillier_enc_complete g Nn r ρ α x e,
   curve_complete G0 q hq α x e⟩

/-- `pkg/zk/affg`.  `M0` = units mod `N₀²` (verifier key, `g0 = 1+N₀`), `M1` = units mod `N₁²`
(prover key), `P` = units mod `N̂`.
Secrets `x, y, s (=S), r (=R)`, Pedersen secrets `m, μ`; masks `α, β, ρ, ρy, γ, δ`.
`z₁ = α+e x`, `z₂ = β+e y`, `z₃ = γ+e m`, `z₄ = δ+e μ`, `w = ρ s^e`, `wy = ρy r^e`. -/
theorem affg_complete {P M0 M1 G : Type*} [CommGroup P] [CommGroup M0] [CommGroup M1]
    [AddCommGroup G] (sP tP : P) (Kv g0 : M0) (N0 : ℕ) (ρ s : M0) (g1 : M1) (N1 : ℕ)
    (ρy r : M1) (G0 : G) (q : ℤ) (hq : q • G0 = 0) (α β x y γ m δ μ e : ℤ) :
    -- Aux.Verify(z₁, z₃, e, E, S)
    sP ^ (α + e * x) * tP ^ (γ + e * m) = (sP ^ α * tP ^ γ) * (sP ^ x * tP ^ m) ^ e ∧
    -- Aux.Verify(z₂, z₄, e, F, T)
    sP ^ (β + e * y) * tP ^ (δ + e * μ) = (sP ^ β * tP ^ δ) * (sP ^ y * tP ^ μ) ^ e ∧
    -- Enc₀(z₂;w) ⊕ (z₁ ⊙ Kv) = (e ⊙ Dv) ⊕ A
    Kv ^ (α + e * x) * (g0 ^ (β + e * y) * (ρ * s ^ e) ^ N0)
      = (Kv ^ x * (g0 ^ y * s ^ N0)) ^ e * (Kv ^ α * (g0 ^ β * ρ ^ N0)) ∧
    -- (z₁ mod q)•G = Bx + (e mod q)•Xp
    ((α + e * x) % q) • G0 = (α % q) • G0 + (e % q) • (x • G0) ∧
    -- Enc₁(z₂; wy) = (e ⊙ Fp) ⊕ By
    g1 ^ (β + e * y) * (ρy * r ^ e) ^ N1 = (g1 ^ y * r ^ N1) ^ e * (g1 ^ β * ρy ^ N1) :=
  ⟨pedersen_complete sP tP α γ x m e, pedersen_complete sP tP β δ y μ e,
   paillier_aff_complete Kv g0 N0 ρ s α β x y e, curve_complete G0 q hq α x e,
   paillier_enc_complete g1 N1 ρy r β y e⟩

/-- `pkg/zk/affp`: as `affg`, the curve equation replaced by
`Enc₁(z₁; wx) = (e ⊙ Xp) ⊕ Bx`, `Xp = Enc₁(x; rx)`, `Bx = Enc₁(α; ρx)`. -/
theorem affp_complete {P M0 M1 : Type*} [CommGroup P] [CommGroup M0] [CommGroup M1]
    (sP tP : P) (Kv g0 : M0) (N0 : ℕ) (ρ s : M0) (g1 : M1) (N1 : ℕ)
    (ρx rx ρy r : M1) (α β x y γ m δ μ e : ℤ) :
    Kv ^ (α + e * x) * (g0 ^ (β + e * y) * (ρ * s ^ e) ^ N0)
      = (Kv ^ x * (g0 ^ y * s ^ N0)) ^ e * (Kv ^ α * (g0 ^ β * ρ ^ N0)) ∧
    g1 ^ (α + e * x) * (ρx * rx ^ e) ^ N1 = (g1 ^ x * rx ^ N1) ^ e * (g1 ^ α * ρx ^ N1) ∧
    g1 ^ (β + e * y) * (ρy * r ^ e) ^ N1 = (g1 ^ y * r ^ N1) ^ e * (g1 ^ β * ρy ^ N1) ∧
    sP ^ (α + e * x) * tP ^ (γ + e * m) = (sP ^ α * tP ^ γ) * (sP ^ x * tP ^ m) ^ e ∧
    sP ^ (β + e * y) * tP ^ (δ + e * μ) = (sP ^ β * tP ^ δ) * (sP ^ y * tP ^ μ) ^ e :=
  ⟨paillier_aff_complete Kv g0 N0 ρ s α β x y e, paillier_enc_complete g1 N1 ρx rx α x e,
   paillier_enc_complete g1 N1 ρy r β y e, pedersen_complete sP tP α γ x m e,
   pedersen_complete sP tP β δ y μ e⟩

/-- `pkg/zk/mul`: `C = Y^x ρ^N`, `X = Enc(x; ρx)`, `A = Y^α r^N`, `B = Enc(α; s)`,
`z = α + e x`, `u = r ρ^e`, `v = s ρx^e`. -/
theorem mul_complete {M : Type*} [CommGroup M] (Y g : M) (Nn : ℕ) (r ρ s ρx : M) (α x e : ℤ) :
    Y ^ (α + e * x) * (r * ρ ^ e) ^ Nn = (Y ^ x * ρ ^ Nn) ^ e * (Y ^ α * r ^ Nn) ∧
    g ^ (α + e * x) * (s * ρx ^ e) ^ Nn = (g ^ x * ρx ^ Nn) ^ e * (g ^ α * s ^ Nn) :=
  ⟨paillier_enc_complete Y Nn r ρ α x e, paillier_enc_complete g Nn s ρx α x e⟩

/-- `pkg/zk/mulstar`: `D = C^x ρ^N₀`, `A = C^α r^N₀`, Pedersen `E = s^α t^γ`, `S = s^x t^m`,
curve `Bx = (α mod q)•G`, `X = x•G`. -/
theorem mulstar_complete {P M G : Type*} [CommGroup P] [CommGroup M] [AddCommGroup G]
    (sP tP : P) (C : M) (Nn : ℕ) (r ρ : M) (G0 : G) (q : ℤ) (hq : q • G0 = 0)
    (α γ x m e : ℤ) :
    sP ^ (α + e * x) * tP ^ (γ + e * m) = (sP ^ α * tP ^ γ) * (sP ^ x * tP ^ m) ^ e ∧
    C ^ (α + e * x) * (r * ρ ^ e) ^ Nn = (C ^ x * ρ ^ Nn) ^ e * (C ^ α * r ^ Nn) ∧
    ((α + e * x) % q) • G0 = (α % q) • G0 + (e % q) • (x • G0) :=
  ⟨pedersen_complete sP tP α γ x m e, paillier_enc_complete C Nn r ρ α x e,
   curve_complete G0 q hq α x e⟩

/-- the scalar equation of `dec` with the code's reductions:
`z₁ mod q = (e mod q)·X + Γ` in `𝔽_q`, `X = y mod q`, `Γ = α mod q`. -/
theorem dec_scalar_complete (q : ℕ) (α y e : ℤ) :
    (((α + e * y) % q : ℤ) : ZMod q)
      = ((e % q : ℤ) : ZMod q) * ((y % q : ℤ) : ZMod q) + ((α % q : ℤ) : ZMod q) := by
  simp only [ZMod.intCast_mod]
  push_cast
  ring

/-- `pkg/zk/dec`: Pedersen (`T = s^α t^ν`, `S = s^y t^μ`), Paillier (`C = Enc(y;ρ)`,
`A = Enc(α;r)`) and the scalar equation in `ZMod q`. -/
theorem dec_complete {P M : Type*} [CommGroup P] [CommGroup M] (s t : P) (g : M) (Nn : ℕ)
    (r ρ : M) (q : ℕ) (α ν y μ e : ℤ) :
    s ^ (α + e * y) * t ^ (ν + e * μ) = (s ^ α * t ^ ν) * (s ^ y * t ^ μ) ^ e ∧
    g ^ (α + e * y) * (r * ρ ^ e) ^ Nn = (g ^ y * ρ ^ Nn) ^ e * (g ^ α * r ^ Nn) ∧
    ((α + e * y : ℤ) : ZMod q) = (e : ZMod q) * (y : ZMod q) + (α : ZMod q) ∧
    (((α + e * y) % q : ℤ) : ZMod q)
      = ((e % q : ℤ) : ZMod q) * ((y % q : ℤ) : ZMod q) + ((α % q : ℤ) : ZMod q) :=
  ⟨pedersen_complete s t α ν y μ e, paillier_enc_complete g Nn r ρ α y e,
   by push_cast; ring, dec_scalar_complete q α y e⟩

/-- `pkg/zk/prm` (one of the 80 parallel rounds), requested form: `t^φ = 1`, `A = t^a`,
`s = t^λ`, `z = a + b·λ mod φ`; `Verify: t^z = A · s^b`. -/
theorem prm_complete {M : Type*} [Monoid M] (t : M) (φ : ℕ) (hφ : t ^ φ = 1)
    (a lam : ℕ) (b : Bool) :
    t ^ ((a + (if b then lam else 0)) % φ) = t ^ a * (if b then t ^ lam else 1) := by
  rw [← pow_eq_pow_mod _ hφ]
  cases b <;> simp [pow_add]

/-- `pkg/zk/prm`, exactly as coded: `z = a` if the challenge bit is `false` (no reduction),
`z = (a + λ) mod φ` otherwise; `rhs = A` resp. `A · s`. -/
theorem prm_complete_code {M : Type*} [Monoid M] (t : M) (φ : ℕ) (hφ : t ^ φ = 1)
    (a lam : ℕ) (b : Bool) :
    t ^ (if b then (a + lam) % φ else a) = if b then t ^ a * t ^ lam else t ^ a := by
  cases b
  · simp
  · simp only [if_true]
    rw [← pow_eq_pow_mod _ hφ, pow_add]

/-- `pkg/zk/encelg`: Paillier (`C = Enc(x;ρ)`, `D = Enc(α;r)`), Pedersen (`S = s^x t^μ`,
`T = s^α t^γ`), and the two curve equations with `A = a•G`, `B = b•G`, `X = (a b + x)•G`,
`Y = β•A + (α mod q)•G`, `Z = β•G`, `w = (e mod q)·b + β mod q`, `z₁ = α + e x`:
`(z₁ mod q)•G + w•A = Y + (e mod q)•X` and `w•G = Z + (e mod q)•B`. -/
theorem encelg_complete {P M G : Type*} [CommGroup P] [CommGroup M] [AddCommGroup G]
    (s t : P) (g : M) (Nn : ℕ) (r ρ : M) (G0 : G) (q : ℤ) (hq : q • G0 = 0)
    (α γ x μ a b β e : ℤ) :
    g ^ (α + e * x) * (r * ρ ^ e) ^ Nn = (g ^ x * ρ ^ Nn) ^ e * (g ^ α * r ^ Nn) ∧
    s ^ (α + e * x) * t ^ (γ + e * μ) = (s ^ α * t ^ γ) * (s ^ x * t ^ μ) ^ e ∧
    ((α + e * x) % q) • G0 + (((e % q) * b + β) % q) • (a • G0)
      = (β • (a • G0) + (α % q) • G0) + (e % q) • ((a * b + x) • G0) ∧
    (((e % q) * b + β) % q) • G0 = β • G0 + (e % q) • (b • G0) := by
  have hq' : ∀ c : ℤ, q • (c • G0) = 0 := order_smul hq
  refine ⟨paillier_enc_complete g Nn r ρ α x e, pedersen_complete s t α γ x μ e, ?_, ?_⟩
  · rw [zsmul_emod_order hq, zsmul_emod_order (hq' a), zsmul_emod_order hq,
      zsmul_emod_order (hq' (a * b + x)), add_smul _ β, mul_smul,
      zsmul_emod_order (order_smul (hq' a) b)]
    -- `sigma_complete` for `(β', z) ↦ β'•A + z•G` with witness `(b, x + a b)`; here directly:
    module
  · rw [zsmul_emod_order hq, zsmul_emod_order (hq' b), add_smul, mul_smul,
      zsmul_emod_order (hq' b)]
    abel

/-- `pkg/zk/fac`: `N₀ = p·q`, `P = s^p t^μ`, `Q = s^q t^ν`, `A = s^α t^x`, `B = s^β t^y`,
`T = Q^α t^r`, `R = s^N₀ t^σ`; `z₁ = α+e p`, `z₂ = β+e q`, `w₁ = x+e μ`, `w₂ = y+e ν`,
`v = r + e(σ − ν p)`.  The third equation is Pedersen for the basis `(Q, t)` together with the
relation `R = Q^p · t^(σ − ν p)`. -/
theorem fac_complete {M : Type*} [CommGroup M] (s t : M) (N0 : ℕ) (p qq : ℤ)
    (hN : (N0 : ℤ) = p * qq) (ν μ σ α β r x y e : ℤ) :
    s ^ (α + e * p) * t ^ (x + e * μ) = (s ^ α * t ^ x) * (s ^ p * t ^ μ) ^ e ∧
    s ^ (β + e * qq) * t ^ (y + e * ν) = (s ^ β * t ^ y) * (s ^ qq * t ^ ν) ^ e ∧
    (s ^ qq * t ^ ν) ^ (α + e * p) * t ^ (r + e * (σ - ν * p))
      = (s ^ N0 * t ^ σ) ^ e * ((s ^ qq * t ^ ν) ^ α * t ^ r) := by
  refine ⟨pedersen_complete s t α x p μ e, pedersen_complete s t β y qq ν e, ?_⟩
  have hR : (s ^ qq * t ^ ν) ^ p * t ^ (σ - ν * p) = s ^ N0 * t ^ σ := by
    rw [mul_zpow, ← zpow_mul, ← zpow_mul, mul_assoc, ← zpow_add, ← zpow_natCast s N0, hN]
    congr 2 <;> ring
  rw [pedersen_complete (s ^ qq * t ^ ν) t α r p (σ - ν * p) e, hR, mul_comm]

/-- `pkg/zk/mod` (i): `z = y^(N⁻¹ mod φ)` is an `N`-th root of `y` (`Verify: z^N = y`). -/
theorem mod_nth_root {M : Type*} [Monoid M] (y : M) (φ N Ninv : ℕ) (hy : y ^ φ = 1)
    (hinv : N * Ninv ≡ 1 [MOD φ]) : (y ^ Ninv) ^ N = y := by
  rw [← pow_mul, mul_comm, pow_eq_pow_mod _ hy, hinv, ← pow_eq_pow_mod _ hy, pow_one]

/-- `pkg/zk/mod` (ii), `fourthRootExponent`: for `φ = 4m`, `m` odd and `y'` in the subgroup of
squares (order dividing `m`), `x = y'^(((φ+4)/8)² mod φ)` is a fourth root of `y'`
(`Verify: x⁴ = ±y·w^b = y'`). -/
theorem mod_fourth_root {M : Type*} [Monoid M] (y' : M) (φ m : ℕ) (hφ : φ = 4 * m)
    (hm : m % 2 = 1) (hy : y' ^ m = 1) :
    (y' ^ (((φ + 4) / 8) ^ 2 % φ)) ^ 4 = y' := by
  have hyφ : y' ^ φ = 1 := by rw [hφ, mul_comm, pow_mul, hy, one_pow]
  have h2 : 2 * ((φ + 4) / 8) = m + 1 := by omega
  have hy1 : y' ^ (m + 1) = y' := by rw [pow_succ, hy, one_mul]
  rw [← pow_eq_pow_mod _ hyφ, ← pow_mul]
  have : ((φ + 4) / 8) ^ 2 * 4 = (m + 1) * (m + 1) := by rw [← h2]; ring
  rw [this, pow_mul, hy1, hy1]

/-- `pkg/zk/mod`: both verification equations of one round. -/
theorem mod_complete {M : Type*} [Monoid M] (y y' : M) (φ m N Ninv : ℕ) (hφ : φ = 4 * m)
    (hm : m % 2 = 1) (hy : y ^ φ = 1) (hinv : N * Ninv ≡ 1 [MOD φ]) (hy' : y' ^ m = 1) :
    (y ^ Ninv) ^ N = y ∧ (y' ^ (((φ + 4) / 8) ^ 2 % φ)) ^ 4 = y' :=
  ⟨mod_nth_root y φ N Ninv hy hinv, mod_fourth_root y' φ m hφ hm hy'⟩

/-! ## 4. Range of the honest response -/

/-- triangle form -/
theorem honest_response_triangle (α e x : ℤ) (L : ℕ) (hx : |x| ≤ 2 ^ L) (he : |e| < 2 ^ 256) :
    |α + e * x| ≤ |α| + 2 ^ 256 * 2 ^ L := by
  have h1 : |α + e * x| ≤ |α| + |e * x| := abs_add_le _ _
  have h2 : |e * x| ≤ 2 ^ 256 * 2 ^ L := by
    rw [abs_mul]
    exact mul_le_mul he.le hx (abs_nonneg _) (by positivity)
  linarith

/-- if `|x| ≤ 2^L`, `|e| < 2^256` and the mask satisfies `|α| ≤ 2^(L+E) − 2^256·2^L`, the
response passes the (strict) range check `|z| < 2^(L+E)`. -/
theorem honest_response_bound (α e x : ℤ) (L E : ℕ) (hx : |x| ≤ 2 ^ L) (he : |e| < 2 ^ 256)
    (hα : |α| ≤ 2 ^ (L + E) - 2 ^ 256 * 2 ^ L) : |α + e * x| < 2 ^ (L + E) := by
  have h1 : |α + e * x| ≤ |α| + |e * x| := abs_add_le _ _
  have hpos : (0 : ℤ) < 2 ^ L := by positivity
  have he' : |e| ≤ 2 ^ 256 - 1 := by linarith [Int.lt_iff_add_one_le.1 he]
  have h2 : |e * x| ≤ (2 ^ 256 - 1) * 2 ^ L := by
    rw [abs_mul]
    exact mul_le_mul he' hx (abs_nonneg _) (by norm_num)
  have h3 : ((2 : ℤ) ^ 256 - 1) * 2 ^ L = 2 ^ 256 * 2 ^ L - 2 ^ L := by ring
  linarith

/-- `ℓ = 256`, `ε = 512`: `IsInIntervalLEps(z₁)`, i.e. `bitlen |z₁| ≤ 768`. -/
theorem honest_response_bound_LEps (α e x : ℤ) (hx : |x| ≤ 2 ^ 256) (he : |e| < 2 ^ 256)
    (hα : |α| ≤ 2 ^ 768 - 2 ^ 512) : |α + e * x| < 2 ^ 768 := by
  have := honest_response_bound α e x 256 512 hx he (by rw [← pow_add]; exact hα)
  exact this

/-- `ℓ' = 1280`, `ε = 512`: `IsInIntervalLPrimeEps(z₂)`, i.e. `bitlen |z₂| ≤ 1792`. -/
theorem honest_response_bound_LPrimeEps (β e y : ℤ) (hy : |y| ≤ 2 ^ 1280) (he : |e| < 2 ^ 256)
    (hβ : |β| ≤ 2 ^ 1792 - 2 ^ 1536) : |β + e * y| < 2 ^ 1792 := by
  have := honest_response_bound β e y 1280 512 hy he (by rw [← pow_add]; exact hβ)
  exact this

/-- the Go range check `z.TrueLen() ≤ n` (bit length of `|z|`) is `|z| < 2^n` -/
theorem bitlen_le_iff_abs_lt (z : ℤ) (n : ℕ) : Nat.size z.natAbs ≤ n ↔ |z| < 2 ^ n := by
  rw [Nat.size_le, Int.abs_eq_natAbs]
  exact_mod_cast Iff.rfl

/-! ## 5. Non-vacuity: every hypothesis-carrying theorem has a concrete instance -/

section NonVacuity

private theorem seven_smul (P : ZMod 7) : (7 : ℤ) • P = 0 := by
  rw [zsmul_eq_mul]
  have : ((7 : ℤ) : ZMod 7) = 0 := by decide
  rw [this, zero_mul]

private theorem two_pow_three : (2 : ZMod 7) ^ 3 = 1 := by decide

example : ((5 : ℤ) - 5 ∈ (zmultiplesHom (ZMod 7) 1).ker) ∧
    (zmultiplesHom (ZMod 7) 1) ((5 : ℤ) - 5) = 0 :=
  response_unique_mod_kernel (zmultiplesHom (ZMod 7) 1) 2 1 3 5 5 (by decide) (by decide)
example : (zmultiplesHom (ZMod 7) 1) 12 = 2 + (3 : ℤ) • (1 : ZMod 7) :=
  response_accepted_of_kernel (zmultiplesHom (ZMod 7) 1) 2 1 3 5 12 (by decide)
    (by rw [AddMonoidHom.mem_ker]; decide)
example : (12 : ℤ) = 12 :=
  response_unique_of_injective (AddMonoidHom.id ℤ) (fun _ _ h => h) 2 5 2 12 12 rfl rfl
example : (ofAdd (5 : ℤ)) / ofAdd 5 ∈ (zpowersHom (ZMod 7)ˣ 1).ker ∧
    (zpowersHom (ZMod 7)ˣ 1) ((ofAdd (5 : ℤ)) / ofAdd 5) = 1 :=
  response_unique_mod_kernel_mul (zpowersHom (ZMod 7)ˣ 1) 1 1 3 (ofAdd 5) (ofAdd 5)
    (by simp) (by simp)
example : (zpowersHom (ZMod 7)ˣ 1) (ofAdd 4) = 1 * 1 ^ (3 : ℤ) :=
  response_accepted_of_kernel_mul (zpowersHom (ZMod 7)ˣ 1) 1 1 3 (ofAdd 5) (ofAdd 4)
    (by simp) (by simp [MonoidHom.mem_ker])
example : (ofAdd (12 : ℤ)) = ofAdd 12 :=
  response_unique_of_injective_mul (MonoidHom.id (Multiplicative ℤ)) (fun _ _ h => h)
    (ofAdd 2) (ofAdd 5) 2 (ofAdd 12) (ofAdd 12) rfl rfl
example : ((-10 : ℤ) % 7) • (3 : ZMod 7) = (-10 : ℤ) • (3 : ZMod 7) :=
  zsmul_emod_order (seven_smul 3) (-10)
example : (ofAdd (2 : ZMod 3)) ^ ((-10 : ℤ) % 3) = (ofAdd (2 : ZMod 3)) ^ (-10 : ℤ) :=
  zpow_emod_order (by decide) (-10)
example : (12 : ℤ) ^ 5 ≡ 2 ^ 5 [ZMOD ((5 : ℕ) : ℤ) ^ 2] :=
  pow_N_congr_mod_sq 5 12 2 (by decide)
example : (2 : ℤ) ^ 5 * 3 ^ 5 ≡ 1 [ZMOD ((5 : ℕ) : ℤ) ^ 2] :=
  nonce_inverse_pow_N 5 2 3 (by decide)
example := curve_complete (3 : ZMod 7) 7 (seven_smul 3) (-4) 5 (-6)
example := sch_complete (3 : ZMod 7) 7 (seven_smul 3) (-4) 5 (-6)
example := log_complete (3 : ZMod 7) 7 (seven_smul 3) 2 (-3) 4 0 (-6)
example := elog_complete (3 : ZMod 7) 2 5 7 (seven_smul 3) (seven_smul 2) (seven_smul 5)
  2 (-3) 4 0 (-6)
example := logstar_complete (ofAdd (2 : ℤ)) (ofAdd 3) (ofAdd (26 : ℤ)) 5 (ofAdd 2) (ofAdd 3)
  (3 : ZMod 7) 7 (seven_smul 3) 1 (-2) 3 0 (-5)
example := affg_complete (ofAdd (2 : ℤ)) (ofAdd 3) (ofAdd (7 : ℤ)) (ofAdd 26) 5 (ofAdd 2)
  (ofAdd 3) (ofAdd (10 : ℤ)) 3 (ofAdd 2) (ofAdd 4)
  (3 : ZMod 7) 7 (seven_smul 3) 1 (-2) 3 0 (-5) 6 7 8 (-9)
example := mulstar_complete (ofAdd (2 : ℤ)) (ofAdd 3) (ofAdd (7 : ℤ)) 5 (ofAdd 2) (ofAdd 3)
  (3 : ZMod 7) 7 (seven_smul 3) 1 (-2) 3 0 (-5)
example := encelg_complete (ofAdd (2 : ℤ)) (ofAdd 3) (ofAdd (26 : ℤ)) 5 (ofAdd 2) (ofAdd 3)
  (3 : ZMod 7) 7 (seven_smul 3) 1 (-2) 3 0 (-5) 6 7 (-8)
example := prm_complete (2 : ZMod 7) 3 two_pow_three 2 2 true
example := prm_complete_code (2 : ZMod 7) 3 two_pow_three 2 2 true
example := fac_complete (ofAdd (2 : ℤ)) (ofAdd 3) 6 2 3 (by norm_num) 1 (-2) 3 0 (-5) 6 7 8 (-9)
example : ((2 : ZMod 7) ^ 2) ^ 2 = 2 :=
  mod_nth_root (2 : ZMod 7) 3 2 2 two_pow_three (by decide)
example : ((2 : ZMod 7) ^ (((12 + 4) / 8) ^ 2 % 12)) ^ 4 = 2 :=
  mod_fourth_root (2 : ZMod 7) 12 3 rfl rfl two_pow_three
example := mod_complete (4 : ZMod 7) (2 : ZMod 7) 12 3 5 5 rfl rfl (by decide) (by decide)
  two_pow_three
example : |(5 : ℤ) + (-3) * 2| ≤ |(5 : ℤ)| + 2 ^ 256 * 2 ^ 1 :=
  honest_response_triangle 5 (-3) 2 1 (by norm_num) (by norm_num)
set_option exponentiation.threshold 2048 in
example : |(5 : ℤ) + (-3) * 2| < 2 ^ (1 + 512) :=
  honest_response_bound 5 (-3) 2 1 512 (by norm_num) (by norm_num) (by norm_num)
set_option exponentiation.threshold 2048 in
example : |(2 ^ 768 - 2 ^ 512 : ℤ) + (2 ^ 256 - 1) * 2 ^ 256| < 2 ^ 768 :=
  honest_response_bound_LEps _ _ _ (by norm_num) (by norm_num) (by norm_num)
set_option exponentiation.threshold 2048 in
example : |(-(2 ^ 1792 - 2 ^ 1536) : ℤ) + (2 ^ 256 - 1) * (-2 ^ 1280)| < 2 ^ 1792 :=
  honest_response_bound_LPrimeEps _ _ _ (by norm_num) (by norm_num) (by norm_num)

end NonVacuity

end Mps.ZK
