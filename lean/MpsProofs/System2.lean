import MpsProofs.TwoPartyOrder
import Mps.System2
/-
  Lemmas for the two-party composition (MpsProps/C07TwoPartySystem.lean): in a session of a leader and a follower
  handler (`Mps.System2`) whose scripts match (`Session2Ok`), under every causal schedule, what a party has emitted
  is an `Honest2` message set for the other one, nobody aborts, the outcome of a party depends only on the set of
  messages delivered to it, and (with `Session2Live`) a schedule that is fair to the end completes both parties
  with closed-form results. Core-only.
-/
namespace Mps.System2
open Mps Mps.Handler Mps.TwoParty

/-! ## Part 0: the closed forms -/

theorem emit2_eq (r : Round2) (s : State2) : emit2 r s = if r.send then [msgOf s.sc r.sendNum] else [] := rfl

/-- the sum of the values `val` assigns to the numbers of the rounds of `rs` that expect input -/
def valueOf (val : Nat → Nat) (rs : List Round2) : Nat := ((rs.filter (·.recv)).map fun r => val r.num).sum

theorem sessionValue2_eq (sc : Script2) : sessionValue2 sc = valueOf (fun n => hv2 sc.ids sc.peer sc.self n) sc.rounds := rfl

theorem snoc_induction {α : Type} {P : List α → Prop} (h0 : P []) (hs : ∀ l a, P l → P (l ++ [a])) : ∀ l, P l := by
  intro l
  rw [← List.reverse_reverse l]
  induction l.reverse with
  | nil => exact h0
  | cons a t ih => rw [List.reverse_cons]; exact hs _ _ ih

theorem take_succ_getD (rs : List Round2) (i : Nat) :
    rs.take (i + 1) = rs.take i ++ (if i < rs.length then [rs.getD i default] else []) := by
  rw [List.take_add_one]
  by_cases h : i < rs.length
  · simp [h, List.getD]
  · simp [h]

theorem getD_default_of_le (rs : List Round2) (i : Nat) (h : rs.length ≤ i) : rs.getD i default = default := by
  simp [List.getD, List.getElem?_eq_none h]

theorem sends_append (sc : Script2) (a b : List Round2) : sends sc (a ++ b) = sends sc a ++ sends sc b := by
  simp [sends, List.filter_append]

theorem valueOf_append (val : Nat → Nat) (a b : List Round2) : valueOf val (a ++ b) = valueOf val a + valueOf val b := by
  simp [valueOf, List.filter_append]

/-- entering the next round appends what the round that was left sends (the default round sends nothing) -/
theorem sends_take_succ (sc : Script2) (rs : List Round2) (i : Nat) :
    sends sc (rs.take (i + 1)) = sends sc (rs.take i) ++ (if (rs.getD i default).send then [msgOf sc (rs.getD i default).sendNum] else []) := by
  rw [take_succ_getD, sends_append]
  by_cases h : i < rs.length
  · simp only [h, if_true]
    generalize rs.getD i default = r
    by_cases hs : r.send = true <;> simp [sends, hs]
  · rw [getD_default_of_le rs i (by omega)]
    simp [h, sends]
    rfl

theorem valueOf_take_succ (val : Nat → Nat) (rs : List Round2) (i : Nat) :
    valueOf val (rs.take (i + 1)) = valueOf val (rs.take i) + (if (rs.getD i default).recv then val (rs.getD i default).num else 0) := by
  rw [take_succ_getD, valueOf_append]
  by_cases h : i < rs.length
  · simp only [h, if_true]
    generalize rs.getD i default = r
    by_cases hs : r.recv = true <;> simp [valueOf, hs]
  · rw [getD_default_of_le rs i (by omega)]
    simp [h, valueOf]
    intro hd; cases hd

theorem mem_sends (sc : Script2) (rs : List Round2) (m : Msg) :
    m ∈ sends sc rs ↔ ∃ r ∈ rs, r.send = true ∧ m = msgOf sc r.sendNum := by
  simp only [sends, List.mem_map, List.mem_filter]
  constructor
  · rintro ⟨r, ⟨h1, h2⟩, h3⟩; exact ⟨r, h1, h2, h3.symm⟩
  · rintro ⟨r, h1, h2, h3⟩; exact ⟨r, ⟨h1, h2⟩, h3.symm⟩

theorem take_dropLast (rs : List Round2) (i : Nat) (h : rs ≠ [] → i < rs.length) : rs.take i = rs.dropLast.take i := by
  rw [List.dropLast_eq_take, List.take_take]
  by_cases hn : rs = []
  · subst hn; simp
  · have := h hn
    congr 1
    omega

/-! ## Part 1: everything a party sends is honest input for the other one -/

/-- `a` talks to `b`: the part of `Session2Ok` that concerns the messages from `a` to `b` -/
structure Feeds (a b : Script2) : Prop where
  ids : a.ids = b.ids
  self : a.self = b.peer
  peer : a.peer = b.self
  ne : a.self ≠ b.self
  mem : a.self ∈ b.ids
  proto : a.proto = b.proto
  ssid : a.ssid = b.ssid
  nums : b.rounds.Pairwise (fun x y => x.num ≠ y.num)
  sends : ∀ r ∈ a.rounds.dropLast, r.send = true →
    1 ≤ r.sendNum ∧ r.sendNum ≤ b.final ∧ ∃ sp ∈ b.rounds, sp.num = r.sendNum ∧ sp.recv = true

theorem Session2Ok.feedsLF {scL scF : Script2} (ok : Session2Ok scL scF) : Feeds scL scF :=
  ⟨ok.ids, ok.peerF.symm, ok.peerL, ok.distinct, ok.ids ▸ ok.memL, ok.proto, ok.ssid, ok.numsF,
    fun r hr hs => let ⟨h1, h2, h3⟩ := ok.sendsL r hr hs; ⟨h1, ok.final ▸ h2, h3⟩⟩

theorem Session2Ok.feedsFL {scL scF : Script2} (ok : Session2Ok scL scF) : Feeds scF scL :=
  ⟨ok.ids.symm, ok.peerL.symm, ok.peerF, fun h => ok.distinct h.symm, ok.memF, ok.proto.symm, ok.ssid.symm, ok.numsL,
    ok.sendsF⟩

/-- the script of `p` is fed by the script of the other party -/
theorem Session2Ok.feeds {scL scF : Script2} (ok : Session2Ok scL scF) (p : Side) :
    Feeds (scriptOf scL scF p.other) (scriptOf scL scF p) := by
  cases p
  · exact ok.feedsFL
  · exact ok.feedsLF

theorem Session2Ok.noFinErr {scL scF : Script2} (ok : Session2Ok scL scF) (p : Side) :
    (scriptOf scL scF p).finErrAt = 0 := by
  cases p
  · exact ok.noFinErrL
  · exact ok.noFinErrF

theorem Feeds.honestMsg {a b : Script2} (h : Feeds a b) (r : Round2) (hr : r ∈ a.rounds.dropLast) (hs : r.send = true) :
    HonestMsg2 b (msgOf a r.sendNum) := by
  obtain ⟨h1, h2, h3⟩ := h.sends r hr hs
  exact ⟨h.self, h.mem, h.ne, Or.inr h.peer, h.proto, h.ssid, rfl, h1, h2, rfl, h3, rfl⟩

/-- (a), statically: the list of everything `a` can ever emit is an `Honest2` set for `b` -/
theorem Feeds.honest {a b : Script2} (h : Feeds a b) : Honest2 b (idealOut2 a) := by
  refine ⟨h.nums, fun m hm => ?_, fun m hm m' hm' e => ?_⟩
  · obtain ⟨r, hr, hs, rfl⟩ := (mem_sends _ _ _).mp hm
    exact h.honestMsg r hr hs
  · obtain ⟨r, -, -, rfl⟩ := (mem_sends _ _ _).mp hm
    obtain ⟨r', -, -, rfl⟩ := (mem_sends _ _ _).mp hm'
    have e' : r.sendNum = r'.sendNum := e
    rw [e']

/-- the value `b` adds for a message with round number `n` -/
def valFor (b : Script2) (n : Nat) : Nat := hv2 b.ids b.peer b.self n

theorem Feeds.value {a b : Script2} (h : Feeds a b) : ∀ m ∈ idealOut2 a, m.dec.map (·.v) = some (valFor b m.rnd) := by
  intro m hm
  obtain ⟨r, -, -, rfl⟩ := (mem_sends _ _ _).mp hm
  show some (hv2 a.ids a.self a.peer r.sendNum) = some (hv2 b.ids b.peer b.self r.sendNum)
  rw [h.ids, h.self, h.peer]

theorem honest_subset {sc : Script2} {M M' : List Msg} (hM : Honest2 sc M) (h : ∀ m ∈ M', m ∈ M) : Honest2 sc M' :=
  ⟨hM.script, fun m hm => hM.msgs m (h m hm), fun m hm m' hm' e => hM.uniq m (h m hm) m' (h m' hm') e⟩

/-! ## Part 2: one handler fed with honest messages whose values are known: where it is, what it has emitted,
    what it has summed up -/

section Single
variable {sc : Script2} {M : List Msg} {val : Nat → Nat}

theorem curRound_eq {s : State2} (hs : s.sc = sc) : curRound s = sc.rounds.getD s.idx default := by
  unfold curRound; rw [hs]

/-- the `verifyMessage` / `StoreMessage` part of an iteration that goes on: exactly the scripted value of the
    current round is added when the round expects input, nothing otherwise -/
theorem storeL_track {s : State2} (hM : Honest2 sc M) (hV : ∀ m ∈ M, m.dec.map (·.v) = some (val m.rnd))
    (inv : Inv2 sc M s) (hc : canAdvance s = true) :
    storeL s (lookup2 s.msgs s.cur) =
      some { s with acc := s.acc + (if (curRound s).recv then val s.cur else 0) } := by
  unfold storeL
  cases hl : lookup2 s.msgs s.cur with
  | none =>
    have hr : (curRound s).recv = false := by
      unfold canAdvance at hc
      simp only [inv.ended, hl] at hc
      cases h : (curRound s).recv with
      | false => rfl
      | true => simp [h] at hc
    simp only [hr]
    cases s; simp
  | some x =>
    obtain ⟨hx, hr⟩ := inv.stored _ _ hl
    have hrecv := inv.recv hM x hx hr
    have hc' := (hM.msgs x hx).content
    have hv := hV x hx
    cases hd : x.dec with
    | none => simp [hd] at hc'
    | some c =>
      simp only [hd, Option.map_some, Option.some.injEq] at hc' hv
      obtain ⟨cv, cf⟩ := c
      simp only at hc' hv
      subst hc' hv
      simp [hrecv, hasFlag]
      cases s; simp_all

/-- the state after the `StoreMessage` part of an iteration that goes on -/
def stored (val : Nat → Nat) (s : State2) : State2 :=
  { s with acc := s.acc + (if (curRound s).recv then val s.cur else 0) }

/-- one iteration of `advance` of a handler that can go on -/
theorem advanceStep_track {s : State2} (hM : Honest2 sc M) (hV : ∀ m ∈ M, m.dec.map (·.v) = some (val m.rnd))
    (h0 : sc.finErrAt = 0) (inv : Inv2 sc M s) (hc : canAdvance s = true) :
    advanceStep s =
      match sc.rounds[s.idx + 1]? with
      | none => .halt (abort2 { stored val s with ended := true, cur := 0, result := some (stored val s).acc } none)
      | some nx => .more { stored val s with out := s.out ++ emit2 (curRound s) s, idx := s.idx + 1, cur := nx.num } := by
  rw [advanceStep_eq]
  simp only [hc, Bool.not_true, Bool.false_eq_true, if_false]
  rw [storeL_track hM hV inv hc]
  show finish (curRound s) (stored val s) = _
  unfold finish
  have e1 : (stored val s).sc = sc := inv.hsc
  have e2 : (stored val s).accuse = false := inv.accuse
  have e3 : (stored val s).idx = s.idx := rfl
  rw [e1, e2, e3, h0]
  simp only [bne_self_eq_false, Bool.false_and, Bool.false_eq_true, if_false]
  cases sc.rounds[s.idx + 1]? with
  | none => rfl
  | some nx => rfl

/-- what is known about every state a handler reaches when it is only given honest messages (terminal or not) -/
structure Track (sc : Script2) (val : Nat → Nat) (s : State2) : Prop where
  hsc : s.sc = sc
  err : s.err = none
  idx : sc.rounds ≠ [] → s.idx < sc.rounds.length
  out : s.out = sends sc (sc.rounds.take s.idx)
  acc : s.result = none → s.acc = valueOf val (sc.rounds.take s.idx)
  fin : ∀ v, s.result = some v → sc.rounds.length ≤ s.idx + 1 ∧ v = valueOf val sc.rounds

theorem Track.setMsgs {s : State2} (tr : Track sc val s) (q : List (Nat × Msg)) : Track sc val (setMsgs s q) :=
  ⟨tr.hsc, tr.err, tr.idx, tr.out, tr.acc, tr.fin⟩

/-- everything in `out` is one of the messages of the closed-form list -/
theorem Track.out_sub {s : State2} (tr : Track sc val s) : ∀ m ∈ s.out, m ∈ idealOut2 sc := by
  intro m hm
  rw [tr.out, take_dropLast _ _ tr.idx] at hm
  obtain ⟨r, hr, h1, h2⟩ := (mem_sends _ _ _).mp hm
  exact (mem_sends _ _ _).mpr ⟨r, List.mem_of_mem_take hr, h1, h2⟩

theorem Track.terminal {s : State2} (tr : Track sc val s) (ht : terminal2 s = true) :
    s.result = some (valueOf val sc.rounds) ∧ s.out = sends sc sc.rounds.dropLast := by
  have hres : s.result.isSome = true := by simpa [terminal2, tr.err] using ht
  cases hr : s.result with
  | none => simp [hr] at hres
  | some v =>
    obtain ⟨h1, h2⟩ := tr.fin v hr
    refine ⟨by rw [h2], ?_⟩
    rw [tr.out, List.dropLast_eq_take]
    by_cases hn : sc.rounds = []
    · rw [hn]; simp [sends]
    · have := tr.idx hn
      congr 2
      omega

theorem state0_track (sc : Script2) (val : Nat → Nat) : Track sc val (TwoParty.state0 sc) :=
  ⟨rfl, rfl, fun h => List.length_pos_iff.mpr h, rfl, fun _ => rfl, fun v h => by simp [TwoParty.state0] at h⟩

/-- one iteration keeps `Track` (and `Inv2` while the handler runs) -/
theorem advanceStep_keeps {s : State2} (hM : Honest2 sc M) (hV : ∀ m ∈ M, m.dec.map (·.v) = some (val m.rnd))
    (h0 : sc.finErrAt = 0) (tr : Track sc val s) (inv : Inv2 sc M s) :
    match advanceStep s with
    | .more s' => Track sc val s' ∧ Inv2 sc M s'
    | .halt s' => Track sc val s' ∧ ((s' = s ∧ canAdvance s = false) ∨ terminal2 s' = true) := by
  by_cases hc : canAdvance s = false
  · rw [advanceStep_stuck s hc]
    exact ⟨tr, Or.inl ⟨rfl, hc⟩⟩
  · have hc' : canAdvance s = true := by simpa using hc
    have hstep := advanceStep_track hM hV h0 inv hc'
    have hacc := tr.acc inv.result
    have hcur : curRound s = sc.rounds.getD s.idx default := curRound_eq inv.hsc
    have hnum : s.cur = (sc.rounds.getD s.idx default).num := by rw [inv.cur, hcur]
    cases hg : sc.rounds[s.idx + 1]? with
    | none =>
      rw [hg] at hstep
      rw [hstep]
      have hlen : sc.rounds.length ≤ s.idx + 1 := by
        rcases Nat.lt_or_ge (s.idx + 1) sc.rounds.length with h | h
        · rw [List.getElem?_eq_getElem h] at hg; cases hg
        · exact h
      refine ⟨⟨tr.hsc, tr.err, tr.idx, tr.out, fun h => by simp [abort2] at h, fun v hv => ⟨hlen, ?_⟩⟩,
        Or.inr (by simp [terminal2, abort2])⟩
      have hv' : v = s.acc + (if (curRound s).recv then val s.cur else 0) := by
        simp only [abort2, stored, Option.some.injEq] at hv
        exact hv.symm
      rw [hv', hacc, hcur, hnum, ← valueOf_take_succ, List.take_of_length_le hlen]
    | some nx =>
      rw [hg] at hstep
      have hmore : advanceStep s = .more { stored val s with out := s.out ++ emit2 (curRound s) s, idx := s.idx + 1, cur := nx.num } := hstep
      rw [hmore]
      have hlt := (List.getElem?_eq_some_iff.mp hg).1
      refine ⟨⟨tr.hsc, tr.err, fun _ => hlt, ?_, fun _ => ?_, fun v hv => ?_⟩, inv.more hmore⟩
      · show s.out ++ emit2 (curRound s) s = sends sc (sc.rounds.take (s.idx + 1))
        rw [sends_take_succ, emit2_eq, tr.out, tr.hsc, hcur]
      · show s.acc + (if (curRound s).recv then val s.cur else 0) = valueOf val (sc.rounds.take (s.idx + 1))
        rw [valueOf_take_succ, hacc, hcur, hnum]
      · have : s.result = some v := hv
        rw [inv.result] at this; cases this

/-- a whole run of `advance` (with enough fuel) keeps `Track` and ends finished or waiting -/
theorem advance_keeps (hM : Honest2 sc M) (hV : ∀ m ∈ M, m.dec.map (·.v) = some (val m.rnd)) (h0 : sc.finErrAt = 0)
    (f : Nat) (s : State2) (tr : Track sc val s) (inv : Inv2 sc M s) (hf : Enough f s) :
    Track sc val (advance f s) ∧
      (terminal2 (advance f s) = true ∨ (Inv2 sc M (advance f s) ∧ canAdvance (advance f s) = false)) := by
  induction f generalizing s with
  | zero => exact absurd hf.2 (by omega)
  | succ f ih =>
    have hk := advanceStep_keeps hM hV h0 tr inv
    unfold advance
    cases hs : advanceStep s with
    | halt s' =>
      rw [hs] at hk
      obtain ⟨h1, h2⟩ := hk
      refine ⟨h1, ?_⟩
      rcases h2 with ⟨e, hc⟩ | ht
      · subst e; exact Or.inr ⟨inv, hc⟩
      · exact Or.inl ht
    | more s' =>
      rw [hs] at hk
      exact ih s' hk.1 hk.2 (hf.more hs)

/-- the invariant of a reachable state, and what one honest delivery does to it -/
theorem accept2_keeps (hM : Honest2 sc M) (hV : ∀ m ∈ M, m.dec.map (·.v) = some (val m.rnd)) (h0 : sc.finErrAt = 0)
    {s : State2} (tr : Track sc val s) (h : terminal2 s = true ∨ Inv2 sc M s) (m : Msg) (hm : m ∈ M) :
    Track sc val (accept2 s m) ∧
      (terminal2 (accept2 s m) = true ∨
        (Inv2 sc M (accept2 s m) ∧ canAdvance (accept2 s m) = false ∧ (accept2 s m).msgs = put2 s.msgs m.rnd m)) := by
  by_cases ht : terminal2 s = true
  · rw [accept2_terminal s m ht]
    exact ⟨tr, Or.inl ht⟩
  · have inv : Inv2 sc M s := h.resolve_left ht
    rw [accept2_live hM inv m hm]
    have := advance_keeps hM hV h0 _ _ (tr.setMsgs _) (inv.put m hm) (enough_full _)
    have e : (TwoParty.setMsgs s (put2 s.msgs m.rnd m)).sc = s.sc := rfl
    rw [e] at this
    refine ⟨this.1, this.2.imp id fun ⟨h1, h2⟩ => ⟨h1, h2, ?_⟩⟩
    rw [advance_msgs]; rfl

theorem init2_keeps (hM : Honest2 sc M) (hV : ∀ m ∈ M, m.dec.map (·.v) = some (val m.rnd)) (h0 : sc.finErrAt = 0) :
    Track sc val (init2 sc) ∧
      (terminal2 (init2 sc) = true ∨
        (Inv2 sc M (init2 sc) ∧ (sc.leader = true → canAdvance (init2 sc) = false) ∧ (init2 sc).msgs = [])) := by
  rw [init2_eq]
  split
  · have := advance_keeps hM hV h0 _ _ (state0_track sc val) (state0_inv sc M) (enough_full (TwoParty.state0 sc))
    refine ⟨this.1, this.2.imp id fun ⟨h1, h2⟩ => ⟨h1, fun _ => h2, ?_⟩⟩
    have e : (TwoParty.state0 sc).sc.rounds.length = sc.rounds.length := rfl
    rw [← e, advance_msgs]; rfl
  · next hl => exact ⟨state0_track sc val, Or.inr ⟨state0_inv sc M, fun h => absurd h hl, rfl⟩⟩

/-- the state after the deliveries `l` (all honest): `Track`; and, unless it has finished, the handler's invariant,
    every delivered message's round number is in the store, and the handler waits for a message (a follower that
    has not been given anything has not moved at all) -/
structure RunInv (sc : Script2) (M : List Msg) (val : Nat → Nat) (l : List Msg) (s : State2) : Prop where
  track : Track sc val s
  live : terminal2 s = true ∨
    (Inv2 sc M s ∧ (∀ x ∈ l, (lookup2 s.msgs x.rnd).isSome = true) ∧ ((sc.leader = true ∨ l ≠ []) → canAdvance s = false))

theorem run2_keeps (hM : Honest2 sc M) (hV : ∀ m ∈ M, m.dec.map (·.v) = some (val m.rnd)) (h0 : sc.finErrAt = 0)
    (l : List Msg) (hl : ∀ m ∈ l, m ∈ M) : RunInv sc M val l (run2 sc (l.map Call2.accept)) := by
  revert hl
  refine snoc_induction (P := fun l => (∀ m ∈ l, m ∈ M) → RunInv sc M val l (run2 sc (l.map Call2.accept))) ?_ ?_ l
  · intro _
    have := init2_keeps (val := val) hM hV h0
    refine ⟨this.1, this.2.imp id fun ⟨h1, h2, _⟩ => ⟨h1, (fun x hx => nomatch hx), (fun h => h2 (h.resolve_right (by simp)))⟩⟩
  · intro l m ih hl
    have ih := ih fun x hx => hl x (List.mem_append_left _ hx)
    have hm : m ∈ M := hl m (by simp)
    rw [run2_snoc]
    have := accept2_keeps hM hV h0 ih.track (ih.live.imp id (·.1)) m hm
    refine ⟨this.1, ?_⟩
    rcases this.2 with ht | ⟨h1, h2, h3⟩
    · exact Or.inl ht
    · refine Or.inr ⟨h1, fun x hx => ?_, fun _ => h2⟩
      rw [h3, lookup2_put2]
      split
      · rfl
      · rcases List.mem_append.mp hx with hx | hx
        · rcases ih.live with ht | ⟨_, hh, _⟩
          · -- a finished handler ignores the delivery: the state is terminal, which `h1` excludes
            rw [accept2_terminal _ m ht] at h1
            have := h1.not_terminal
            rw [ht] at this; cases this
          · exact hh x hx
        · simp only [List.mem_singleton] at hx
          subst hx
          next hne => exact absurd rfl hne

end Single

/-! ## Part 3: the session -/

theorem get_deliver_self (σ : Sys2) (p : Side) (m : Msg) : (σ.deliver p m).get p = accept2 (σ.get p) m := by
  cases p <;> rfl

theorem get_deliver_other (σ : Sys2) (p q : Side) (m : Msg) (h : q ≠ p) : (σ.deliver p m).get q = σ.get q := by
  cases p <;> cases q <;> first | rfl | exact absurd rfl h

theorem delivered2_cons (e : Side × Msg) (rest : Sched2) (p : Side) :
    delivered2 (e :: rest) p = if e.1 = p then e.2 :: delivered2 rest p else delivered2 rest p := by
  unfold delivered2
  by_cases h : e.1 = p <;> simp [h]

theorem runFrom_get (sched : Sched2) (p : Side) :
    ∀ σ : Sys2, (σ.runFrom sched).get p = (delivered2 sched p).foldl accept2 (σ.get p) := by
  induction sched with
  | nil => intro σ; rfl
  | cons e rest ih =>
    intro σ
    have : Sys2.runFrom σ (e :: rest) = Sys2.runFrom (σ.deliver e.1 e.2) rest := rfl
    rw [this, ih, delivered2_cons]
    by_cases h : e.1 = p
    · simp only [h, if_true, List.foldl_cons]
      rw [← h, get_deliver_self]
    · simp only [h, if_false]
      rw [get_deliver_other _ _ _ _ (fun x => h x.symm)]

/-- the state of a party in the session is its handler run on exactly the messages delivered to it -/
theorem run_get (scL scF : Script2) (sched : Sched2) (p : Side) :
    (Sys2.run scL scF sched).get p = run2 (scriptOf scL scF p) ((delivered2 sched p).map Call2.accept) := by
  unfold Sys2.run run2
  rw [runFrom_get, List.foldl_map]
  have : (Sys2.init scL scF).get p = init2 (scriptOf scL scF p) := by cases p <;> rfl
  rw [this]
  rfl

/-! ### `out` only grows -/

def _root_.Mps.TwoParty.Step2.st : Step2 → State2
  | .halt s => s
  | .more s => s

theorem abort2_out_mono (s : State2) (e : Option Err2) : ∀ x ∈ s.out, x ∈ (abort2 s e).out := by
  intro x hx
  cases e with
  | none => exact hx
  | some k => exact List.mem_append_left _ hx

theorem finish_out_mono (r : Round2) (s1 : State2) : ∀ x ∈ s1.out, x ∈ (finish r s1).st.out := by
  intro x hx
  unfold finish
  split
  · simp only [Step2.st]
    apply abort2_out_mono; exact hx
  · split
    · simp only [Step2.st]
      apply abort2_out_mono; exact hx
    · split
      · simp only [Step2.st]
        apply abort2_out_mono; exact hx
      · exact List.mem_append_left _ hx

theorem advanceStep_out_mono (s : State2) : ∀ x ∈ s.out, x ∈ (advanceStep s).st.out := by
  intro x hx
  rw [advanceStep_eq]
  split
  · exact hx
  · cases hs : storeL s (lookup2 s.msgs s.cur) with
    | none =>
      simp only [Step2.st]
      apply abort2_out_mono; exact hx
    | some s1 =>
      obtain ⟨a, b, e⟩ := storeL_some _ _ _ hs
      show x ∈ (finish _ s1).st.out
      apply finish_out_mono
      rw [e]; exact hx

theorem advance_out_mono (f : Nat) (s : State2) : ∀ x ∈ s.out, x ∈ (advance f s).out := by
  induction f generalizing s with
  | zero => intro x hx; exact hx
  | succ f ih =>
    intro x hx
    have := advanceStep_out_mono s x hx
    unfold advance
    cases hs : advanceStep s with
    | halt s' => rw [hs] at this; exact this
    | more s' => rw [hs] at this; exact ih s' x this

theorem accept2_out_mono (s : State2) (m : Msg) : ∀ x ∈ s.out, x ∈ (accept2 s m).out := by
  intro x hx
  unfold accept2
  split
  · exact hx
  · split
    · exact abort2_out_mono _ _ x hx
    · exact advance_out_mono _ _ x hx

theorem runFrom_out_mono (sched : Sched2) (q : Side) (x : Msg) :
    ∀ σ : Sys2, x ∈ (σ.get q).out → x ∈ ((σ.runFrom sched).get q).out := by
  induction sched with
  | nil => intro σ h; exact h
  | cons e rest ih =>
    intro σ h
    apply ih (σ.deliver e.1 e.2)
    by_cases hq : q = e.1
    · rw [hq, get_deliver_self]; exact accept2_out_mono _ _ x (hq ▸ h)
    · rw [get_deliver_other _ _ _ _ hq]; exact h

/-- what a causal schedule delivers to `p` was emitted by the other party (and is still in its `out`) -/
theorem delivered_emitted2 (sched : Sched2) (p : Side) :
    ∀ σ : Sys2, causalFrom2 σ sched = true → ∀ m ∈ delivered2 sched p, m ∈ ((σ.runFrom sched).get p.other).out := by
  induction sched with
  | nil => intro σ _ m hm; cases hm
  | cons e rest ih =>
    intro σ hc m hm
    simp only [causalFrom2, Bool.and_eq_true] at hc
    have hrun : Sys2.runFrom σ (e :: rest) = Sys2.runFrom (σ.deliver e.1 e.2) rest := rfl
    rw [hrun]
    rw [delivered2_cons] at hm
    by_cases h : e.1 = p
    · simp only [h, if_true, List.mem_cons] at hm
      rcases hm with rfl | hm
      · apply runFrom_out_mono
        have hne : p.other ≠ e.1 := by rw [h]; cases p <;> simp [Side.other]
        rw [get_deliver_other _ _ _ _ hne, ← h]
        have := hc.1
        unfold Sys2.canDeliver at this
        exact List.contains_iff_mem.mp this
      · exact ih _ hc.2 m hm
    · simp only [h, if_false] at hm
      exact ih _ hc.2 m hm

/-! ### the invariant of the session under a causal schedule -/

section Session
variable {scL scF : Script2}

/-- the state-based invariant of party `p`, with the honest set fixed to everything the other party can send -/
def PInv (scL scF : Script2) (p : Side) (s : State2) : Prop :=
  Track (scriptOf scL scF p) (valFor (scriptOf scL scF p)) s ∧
    (terminal2 s = true ∨ Inv2 (scriptOf scL scF p) (idealOut2 (scriptOf scL scF p.other)) s)

theorem init_pinv (ok : Session2Ok scL scF) (p : Side) : PInv scL scF p ((Sys2.init scL scF).get p) := by
  have e : (Sys2.init scL scF).get p = init2 (scriptOf scL scF p) := by cases p <;> rfl
  rw [e]
  have := init2_keeps (ok.feeds p).honest (ok.feeds p).value (ok.noFinErr p)
  exact ⟨this.1, this.2.imp id (·.1)⟩

theorem runFrom_pinv (ok : Session2Ok scL scF) (sched : Sched2) :
    ∀ σ : Sys2, (∀ p, PInv scL scF p (σ.get p)) → causalFrom2 σ sched = true →
      (∀ p, PInv scL scF p ((σ.runFrom sched).get p)) ∧
      ∀ p, ∀ m ∈ delivered2 sched p, m ∈ idealOut2 (scriptOf scL scF p.other) := by
  induction sched with
  | nil => intro σ h _; exact ⟨h, fun p m hm => nomatch hm⟩
  | cons e rest ih =>
    intro σ hσ hc
    simp only [causalFrom2, Bool.and_eq_true] at hc
    have hm : e.2 ∈ idealOut2 (scriptOf scL scF e.1.other) := by
      have := hc.1
      unfold Sys2.canDeliver at this
      exact (hσ e.1.other).1.out_sub _ (List.contains_iff_mem.mp this)
    have hσ' : ∀ p, PInv scL scF p ((σ.deliver e.1 e.2).get p) := by
      intro p
      by_cases hp : p = e.1
      · subst hp
        rw [get_deliver_self]
        have := accept2_keeps (ok.feeds e.1).honest (ok.feeds e.1).value (ok.noFinErr e.1) (hσ e.1).1 (hσ e.1).2 e.2 hm
        exact ⟨this.1, this.2.imp id (·.1)⟩
      · rw [get_deliver_other _ _ _ _ hp]; exact hσ p
    obtain ⟨h1, h2⟩ := ih _ hσ' hc.2
    refine ⟨h1, fun p m hmp => ?_⟩
    rw [delivered2_cons] at hmp
    by_cases h : e.1 = p
    · simp only [h, if_true, List.mem_cons] at hmp
      rcases hmp with rfl | hmp
      · rw [← h]; exact hm
      · exact h2 p m hmp
    · simp only [h, if_false] at hmp
      exact h2 p m hmp

/-- what a causal schedule delivers to `p` is part of the closed-form list of the other party's messages -/
theorem delivered_ideal (ok : Session2Ok scL scF) (sched : Sched2) (hc : Causal2 scL scF sched = true) (p : Side) :
    ∀ m ∈ delivered2 sched p, m ∈ idealOut2 (scriptOf scL scF p.other) :=
  (runFrom_pinv ok sched _ (init_pinv ok) hc).2 p

theorem party_runinv (ok : Session2Ok scL scF) (sched : Sched2) (hc : Causal2 scL scF sched = true) (p : Side) :
    RunInv (scriptOf scL scF p) (idealOut2 (scriptOf scL scF p.other)) (valFor (scriptOf scL scF p))
      (delivered2 sched p) ((Sys2.run scL scF sched).get p) := by
  rw [run_get]
  exact run2_keeps (ok.feeds p).honest (ok.feeds p).value (ok.noFinErr p) _ (delivered_ideal ok sched hc p)

/-- (a) -/
theorem emitted_honest2 (ok : Session2Ok scL scF) (sched : Sched2) (hc : Causal2 scL scF sched = true) (p : Side) :
    Honest2 (scriptOf scL scF p) ((Sys2.run scL scF sched).get p.other).out :=
  honest_subset (ok.feeds p).honest (party_runinv ok sched hc p.other).track.out_sub

/-- (b) -/
theorem no_honest_abort2 (ok : Session2Ok scL scF) (sched : Sched2) (hc : Causal2 scL scF sched = true) (p : Side) :
    ((Sys2.run scL scF sched).get p).err = none :=
  (party_runinv ok sched hc p).track.err

/-- (c), as a statement about all fields but the store -/
theorem schedule_feq2 (ok : Session2Ok scL scF) (s1 s2 : Sched2) (c1 : Causal2 scL scF s1 = true) (p : Side)
    (hsame : ∀ m, m ∈ delivered2 s1 p ↔ m ∈ delivered2 s2 p) :
    FEq2 ((Sys2.run scL scF s1).get p) ((Sys2.run scL scF s2).get p) := by
  rw [run_get, run_get]
  have h1 := delivered_ideal ok s1 c1 p
  exact (run2_out (ok.feeds p).honest _ _ h1 (fun m hm => h1 m ((hsame m).mpr hm)) hsame).feq

end Session

/-! ## Part 4: progress — under a schedule that is fair to the end nobody waits forever -/

/-- a handler that waits is in a round that expects input, and the store has nothing for its number -/
theorem stuck_recv {sc : Script2} {M : List Msg} {s : State2} (inv : Inv2 sc M s) (hw : canAdvance s = false) :
    (curRound s).recv = true ∧ lookup2 s.msgs s.cur = none := by
  unfold canAdvance at hw
  simp only [inv.ended, Bool.false_eq_true, if_false] at hw
  cases hr : (curRound s).recv with
  | false => simp [hr] at hw
  | true =>
    simp only [hr, Bool.not_true, Bool.false_eq_true, if_false] at hw
    cases hl : lookup2 s.msgs s.cur with
    | none => exact ⟨rfl, rfl⟩
    | some x => simp [hl] at hw

theorem incr_le {rs : List Round2} (incr : rs.Pairwise (fun x y => x.num < y.num)) (i j : Nat) (hj : j < rs.length)
    (hij : i ≤ j) : rs[i].num ≤ rs[j].num ∧ (rs[i].num = rs[j].num → i = j) := by
  rcases Nat.lt_or_ge i j with h | h
  · have := (List.pairwise_iff_getElem.mp incr) i j (by omega) hj h
    exact ⟨by omega, fun e => by omega⟩
  · have : i = j := by omega
    subst this
    exact ⟨Nat.le_refl _, fun _ => rfl⟩

/-- The party running `a` waits (state `sa`, the deliveries `l` are in its store); the other party runs `b` (state
    `sb`) and everything it has emitted is in `l`. Then the other party has not finished, and it is in a round whose
    number is smaller than the number the waiting party waits for — or equal, and then that round needs no input. -/
theorem blocked {a b : Script2} (incr : b.rounds.Pairwise (fun x y => x.num < y.num))
    (fed : ∀ sp ∈ a.rounds, sp.recv = true → ∃ r ∈ b.rounds.dropLast, r.send = true ∧ r.sendNum = sp.num ∧
      (r.num < sp.num ∨ (r.num = sp.num ∧ r.recv = false)))
    {M l : List Msg} {valb : Nat → Nat} {sa sb : State2}
    (inv : Inv2 a M sa) (hw : canAdvance sa = false) (has : ∀ x ∈ l, (lookup2 sa.msgs x.rnd).isSome = true)
    (trb : Track b valb sb) (fair : ∀ m ∈ sb.out, m ∈ l) :
    terminal2 sb = false ∧ (curRound sb).num ≤ (curRound sa).num ∧
      ((curRound sb).num = (curRound sa).num → (curRound sb).recv = false) := by
  obtain ⟨hrecv, hnone⟩ := stuck_recv inv hw
  have hne : a.rounds ≠ [] := by
    intro h
    have : curRound sa = default := by
      unfold curRound; rw [inv.hsc, h]; rfl
    rw [this] at hrecv; cases hrecv
  obtain ⟨r, hr, hsend, hnum, hrank⟩ := fed _ (inv.curRound_mem hne) hrecv
  obtain ⟨j, hj, hjr⟩ := List.mem_iff_getElem.mp hr
  have hjl : j < b.rounds.length - 1 := by simpa using hj
  have hjr' : b.rounds[j]'(by omega) = r := by rw [← hjr, List.getElem_dropLast]
  -- the sending round has not been finalized
  have hidx : sb.idx ≤ j := by
    rcases Nat.lt_or_ge j sb.idx with h | h
    · exfalso
      have hmem : r ∈ b.rounds.take sb.idx := by
        rw [← hjr']
        exact List.mem_take_iff_getElem.mpr ⟨j, by omega, rfl⟩
      have hout : msgOf b r.sendNum ∈ sb.out := by
        rw [trb.out]; exact (mem_sends _ _ _).mpr ⟨r, hmem, hsend, rfl⟩
      have := has _ (fair _ hout)
      have e : (msgOf b r.sendNum).rnd = sa.cur := by
        show r.sendNum = sa.cur
        rw [hnum, inv.cur]
      rw [e, hnone] at this
      cases this
    · exact h
  have hbne : b.rounds ≠ [] := fun h => by rw [h] at hjl; simp at hjl
  have hil := trb.idx hbne
  have hterm : terminal2 sb = false := by
    cases ht : terminal2 sb with
    | false => rfl
    | true =>
      exfalso
      have hres : sb.result.isSome = true := by simpa [terminal2, trb.err] using ht
      cases hv : sb.result with
      | none => simp [hv] at hres
      | some v => have := (trb.fin v hv).1; omega
  have hcur : curRound sb = b.rounds[sb.idx] := by
    rw [curRound_eq trb.hsc]; simp [List.getD, hil]
  obtain ⟨hle, heq⟩ := incr_le incr sb.idx j (by omega) hidx
  rw [hjr'] at hle heq
  rw [hcur]
  refine ⟨hterm, ?_, fun e => ?_⟩
  · rcases hrank with h | ⟨h, _⟩ <;> omega
  · have : b.rounds[sb.idx].num = r.num := by rcases hrank with h | ⟨h, _⟩ <;> omega
    have hij := heq this
    rcases hrank with h | ⟨_, h⟩
    · omega
    · subst hij; rw [hjr']; exact h

section Complete
variable {scL scF : Script2}

theorem complete2_iff (σ : Sys2) (sched : Sched2) :
    Complete2 σ sched = true ↔ (∀ m ∈ σ.f.out, m ∈ delivered2 sched .L) ∧ (∀ m ∈ σ.l.out, m ∈ delivered2 sched .F) := by
  unfold Complete2
  simp only [Bool.and_eq_true, List.all_eq_true, List.contains_iff_mem]

/-- under a causal schedule that is fair to the end both parties have finished -/
theorem both_terminal (ok : Session2Ok scL scF) (live : Session2Live scL scF) (sched : Sched2)
    (hc : Causal2 scL scF sched = true) (hfair : Complete2 (Sys2.run scL scF sched) sched = true) :
    terminal2 (Sys2.run scL scF sched).l = true ∧ terminal2 (Sys2.run scL scF sched).f = true := by
  obtain ⟨fairL, fairF⟩ := (complete2_iff _ _).mp hfair
  have RL := party_runinv ok sched hc .L
  have RF := party_runinv ok sched hc .F
  generalize hσ : Sys2.run scL scF sched = σ at *
  have eL : σ.get .L = σ.l := rfl
  have eF : σ.get .F = σ.f := rfl
  rw [eL] at RL
  rw [eF] at RF
  have scLe : scriptOf scL scF .L = scL := rfl
  have scFe : scriptOf scL scF .F = scF := rfl
  have oL : Side.L.other = .F := rfl
  have oF : Side.F.other = .L := rfl
  rw [scLe, oL, scFe] at RL
  rw [scFe, oF, scLe] at RF
  -- the leader has finished or waits
  have hL : terminal2 σ.l = true ∨ (Inv2 scL (idealOut2 scF) σ.l ∧
      (∀ x ∈ delivered2 sched .L, (lookup2 σ.l.msgs x.rnd).isSome = true) ∧ canAdvance σ.l = false) :=
    RL.live.imp id fun ⟨h1, h2, h3⟩ => ⟨h1, h2, h3 (Or.inl ok.leaderL)⟩
  -- the follower has finished or waits: it was woken
  have hF : terminal2 σ.f = true ∨ (Inv2 scF (idealOut2 scL) σ.f ∧
      (∀ x ∈ delivered2 sched .F, (lookup2 σ.f.msgs x.rnd).isSome = true) ∧ canAdvance σ.f = false) := by
    rcases RF.live with ht | ⟨h1, h2, h3⟩
    · exact Or.inl ht
    · refine Or.inr ⟨h1, h2, ?_⟩
      by_cases hd : delivered2 sched .F = []
      · -- nothing was delivered: the follower is in its initial state
        have e0 : σ.f = TwoParty.state0 scF := by
          have := run_get scL scF sched .F
          rw [hσ, eF, hd, scFe] at this
          rw [this]
          show init2 scF = _
          rw [init2_eq, ok.leaderF]; rfl
        rcases live.wake with hw | ⟨hw1, hw2, hw3⟩
        · rw [e0]
          unfold canAdvance
          have : curRound (TwoParty.state0 scF) = scF.rounds.getD 0 default := rfl
          rw [this, hw]
          rfl
        · -- the leader's first round has sent a message, and it was delivered
          exfalso
          have hne : scL.rounds ≠ [] := fun h => by rw [h] at hw3; simp at hw3
          have hi := RL.track.idx hne
          have hpos : 1 ≤ σ.l.idx := by
            rcases hL with ht | ⟨i1, _, i3⟩
            · have hres : σ.l.result.isSome = true := by simpa [terminal2, RL.track.err] using ht
              cases hv : σ.l.result with
              | none => simp [hv] at hres
              | some v => have := (RL.track.fin v hv).1; omega
            · have hr := (stuck_recv i1 i3).1
              rcases Nat.eq_zero_or_pos σ.l.idx with h0 | h0
              · rw [curRound_eq i1.hsc, h0, hw1] at hr; cases hr
              · exact h0
          have hmem : scL.rounds.getD 0 default ∈ scL.rounds.take σ.l.idx := by
            have h0 : 0 < scL.rounds.length := by omega
            have : scL.rounds.getD 0 default = scL.rounds[0]'(by omega) := by simp [List.getD, h0]
            rw [this]
            exact List.mem_take_iff_getElem.mpr ⟨0, by omega, rfl⟩
          have hout : msgOf scL (scL.rounds.getD 0 default).sendNum ∈ σ.l.out := by
            rw [RL.track.out]; exact (mem_sends _ _ _).mpr ⟨_, hmem, hw2, rfl⟩
          have := fairF _ hout
          rw [hd] at this
          cases this
      · exact h3 (Or.inr hd)
  rcases hL with htL | ⟨iL, hasL, wL⟩
  · rcases hF with htF | ⟨iF, hasF, wF⟩
    · exact ⟨htL, htF⟩
    · have := (blocked live.incrL live.recvF iF wF hasF RL.track fairF).1
      rw [htL] at this; cases this
  · rcases hF with htF | ⟨iF, hasF, wF⟩
    · have := (blocked live.incrF live.recvL iL wL hasL RF.track fairL).1
      rw [htF] at this; cases this
    · exfalso
      obtain ⟨-, h1, h2⟩ := blocked live.incrF live.recvL iL wL hasL RF.track fairL
      obtain ⟨-, h3, -⟩ := blocked live.incrL live.recvF iF wF hasF RL.track fairF
      have := h2 (by omega)
      rw [(stuck_recv iF wF).1] at this
      cases this

/-- (d) -/
theorem complete_schedule_completes2 (ok : Session2Ok scL scF) (live : Session2Live scL scF) (sched : Sched2)
    (hc : Causal2 scL scF sched = true) (hfair : Complete2 (Sys2.run scL scF sched) sched = true) (p : Side) :
    terminal2 ((Sys2.run scL scF sched).get p) = true ∧ ((Sys2.run scL scF sched).get p).err = none ∧
    ((Sys2.run scL scF sched).get p).result = some (sessionValue2 (scriptOf scL scF p)) ∧
    ((Sys2.run scL scF sched).get p).out = idealOut2 (scriptOf scL scF p) ∧
    ((Sys2.run scL scF sched).get p).closes = 1 ∧
    (∀ m, m ∈ delivered2 sched p ↔ m ∈ idealOut2 (scriptOf scL scF p.other)) := by
  have hb := both_terminal ok live sched hc hfair
  have ht : ∀ q, terminal2 ((Sys2.run scL scF sched).get q) = true := by
    intro q; cases q
    · exact hb.1
    · exact hb.2
  have R := party_runinv ok sched hc p
  obtain ⟨h1, h2⟩ := R.track.terminal (ht p)
  refine ⟨ht p, R.track.err, h1, h2, ?_, fun m => ⟨delivered_ideal ok sched hc p m, fun hm => ?_⟩⟩
  · have g : Good2 ((Sys2.run scL scF sched).get p) := by rw [run_get]; exact run2_good _ _
    rcases g with l | d
    · have := not_terminal2_of_live l
      rw [ht p] at this; cases this
    · exact d.1
  · have R' := party_runinv ok sched hc p.other
    have hout := (R'.track.terminal (ht p.other)).2
    have hm' : m ∈ ((Sys2.run scL scF sched).get p.other).out := by rw [hout]; exact hm
    obtain ⟨fairL, fairF⟩ := (complete2_iff _ _).mp hfair
    cases p
    · exact fairL m hm'
    · exact fairF m hm'

end Complete

end Mps.System2
